"""C10 — compile-time reduction agrees with run-time evaluation.

Proof obligations: theorems of coq/Properties/Properties_C10.v (fold vs rt_eval on all
literal trees) and the tie obligations `table:*` (the typing/emission model used by rt_eval =
tables regenerated from the tree's compiler).
Correspondence / search, three legs per expression tree (all on the code built from /repo's
current tree):
  leg 1  real reducer vs `fold`   : the literal program is compiled and main's body dumped;
                                    after folding it is a single constant instruction
  leg 2  real VM vs `rt_eval`     : the same tree with every leaf in a variable
  leg 3  literal version vs variable version, both run: THE PROPERTY'S OWN ORACLE (no model);
         "compile error: division by zero" counts as equal to a division_by_zero fault
The same three legs run for enumerator initialisers (front/enumred.c, model Arith/Enumred.v):
`enum E { k = <expr> }` read back as an int vs the same expression over int variables
(keys `enumred-differs:<op>:<types>`, `<op>:int_min/-1:enumred`,
`div0-rejected-but-not-evaluated:<op>:enumred`).
Two further families widen the quantifier of leg 3 (gen/arithforms.py):
  operand forms  every operator x type pair with ONE literal operand while the other operand is
                 a variable, a call that prints (`ni(0, v)`: non-constant, observable), an
                 expression that faults when evaluated (`(10 / zi)`), or the same operand
                 repeated (`x - x`); also ?: with effectful condition / branches.  The literal is
                 replaced by a variable holding the same value and the whole OUTCOME (tags
                 printed + result + exception) is compared: a one-sided rewrite (x && false,
                 x * 0, x - x ...) that drops an evaluation shows up here
                 (key `effect-differs:<op>:<types>:<forms>`); the variable version is also
                 compared with the expected trace/value (Never's evaluation order + pyref).
  string operands  s + s (folded by constred.c), s + s + s, s + char, char + s, s + number,
                 number + s, == != on strings, length(s), s[i]: every operand literal or in a
                 variable, all combinations, against the all-variable version (key
                 `string-fold-differs:<op>:<operand kinds>:<forms>`); values: empty, 1 character,
                 > 255 characters, escapes, embedded quotes, numbers at the formatting boundaries
  enumdecl       sets of enum declarations mixing plain, valued and record-style enumerators,
                 default numbering, backward AND forward references (also across enums), every
                 int operator; every enumerator is read back (held in a variable; written as
                 `E::I + 0`) next to its initialiser evaluated by the VM on int variables
                 (key `enumdecl-differs:<root op>:<how it refers>`), and the extracted
                 Arith/EnumIndex.decl_indices (theorems of Properties_C10b.v) runs against the
                 real compiler on the same sets (correspondence `enumred-vs-decl_indices`).
A leg-3 difference is a VIOLATION (shrunk to the smallest failing subtree; key
`fold-differs:<op>:<types>`, `emit-abort:<op>:<types>`, `div0-rejected-but-not-evaluated:<op>`,
`<op>:<int|long|enum>_min/-1:constred`); a leg-1/leg-2 difference is a broken correspondence.
Excluded as C undefined behaviour (counted): out-of-range float->int, shift counts >= width.
"""
LEVEL = "proof"

import collections
import json
import os

from lib import common
from gen import arithlib as al
from gen import arithcases as ac
from gen import aritheval as ae
from gen import arithforms as af
from gen import gen_convtables

NUMK = ["i", "l", "f", "d"]


def totuple(x):
    return tuple(totuple(i) for i in x) if isinstance(x, list) else x


def load_corpus():
    d = os.path.join(common.VERIF, "corpus", "C10")
    items = []
    if os.path.isdir(d):
        for f in sorted(os.listdir(d)):
            if f.endswith(".json"):
                items.extend(json.load(open(os.path.join(d, f))))
    return items


def build_cases(ctx, per_cell, deep):
    rng = ctx.rng
    cases = collections.OrderedDict()
    dist = collections.Counter()

    def add(tag, tree):
        cases["%s%05d" % (tag, len(cases))] = tree

    for op in ac.BINSYM:
        for (ka, kb) in ac.admitted_pairs(op):
            n = per_cell if "e" not in (ka, kb) else max(3, per_cell // 3)
            for k in range(n):
                if op in ("shl", "shr") and rng.random() < 0.8:
                    vb = rng.choice([0, 1, 2, 7, 15, 30, 31] + ([32, 33, 62, 63] if "l" in (ka, kb) else []))
                else:
                    vb = ac.pick_value(rng, kb)
                va = ac.pick_value(rng, ka)
                if op in ("div", "mod") and k == 0 and ka in "ile" and kb in "ile":
                    # MIN / -1 in every arm of expr_div_constred / expr_mod_constred, the three
                    # enumerator arms included (keys <op>:<int|long|enum>_min/-1:constred)
                    va, vb = (al.LONG_MIN if ka == "l" else al.INT_MIN), -1
                if op in ("div", "mod") and k == 1:
                    vb = {"i": 0, "l": 0, "e": 0, "f": 0x80000000, "d": 0}.get(kb, vb)
                add("b", ("B", op, ac.atom(ac.value_tree(ka, va)), ac.atom(ac.value_tree(kb, vb))))
                dist["binary:%s" % op] += 1
    for op, kinds in (("neg", NUMK + ["e"]), ("bnot", ["i", "l", "e"]), ("not", ["b"])):
        for ka in kinds:
            for k in range(per_cell):
                add("u", ("U", op, ac.atom(ac.value_tree(ka, ac.pick_value(rng, ka)))))
                dist["unary:%s" % op] += 1
    # short-circuit / ?: with a division by zero in the branch that is not evaluated
    for k in range(per_cell):
        z = rng.choice([("B", "div", ("L", "i", rng.randrange(1, 9)), ("L", "i", 0)),
                        ("B", "mod", ("L", "l", rng.randrange(1, 9)), ("L", "l", 0)),
                        ("B", "div", ("L", "f", 0x3F800000), ("L", "f", 0))])
        zk = z[2][1]
        cmpz = ("P", ("B", "eq", ("P", z), ("L", zk, 0)))
        b = rng.randrange(2)
        add("s", ("B", "and", ("L", "b", b), cmpz))
        add("s", ("B", "or", ("L", "b", b), cmpz))
        add("s", ("C", ("L", "b", b), ("L", zk, 1 if zk != "f" else 0x3F800000), ("P", z)))
        add("s", ("C", ("L", "b", b), ("P", z), ("L", zk, 1 if zk != "f" else 0x3F800000)))
        dist["lazy-div0"] += 4
    for k in range(deep):
        if k % 5 == 0:
            add("d", ac.random_tree(rng, rng.choice([2, 2, 3])))
        else:
            add("d", ac.typed_tree(rng, rng.choice(["b", "i", "l", "f", "d"]), rng.choice([1, 2, 2, 3])))
        dist["random-tree"] += 1
    return cases, dist


def classify(r):
    """leg 3 on one evaluated case -> None (agree) or (keyprefix, what)"""
    lit, var = r.get("lit"), r.get("var")
    if lit is None or var is None:
        return None
    if lit[0] == "crash" and lit[1] not in ("emit",):
        if lit[1] == "sigfpe":
            return ("trap", "the compiler dies with SIGFPE while reducing the constant expression")
        return ("constred-crash", "the compiler crashes (%s) on the constant expression" % lit[1])
    if ae.same_outcome_lit_var(lit, var):
        return None
    if var == ("crash", "emit"):
        return ("emit-abort", "the literal version compiles (folded) but the variable version kills the compiler in front/emit.c")
    if lit == ("crash", "emit"):
        return ("emit-abort", "the literal version kills the compiler in front/emit.c")
    if lit == ("compile_error", "division by zero") and var[0] == "val":
        return ("div0-rejected-but-not-evaluated",
                "rejected as constant division by zero although the VM never evaluates that division")
    return ("fold-differs", "literal operands and variable operands give different outcomes")


def lazy_op_over_division(tree):
    """the innermost && || ?: that has a / or % below it (the construct whose lazy operand holds
    the division that is rejected although never evaluated); None if there is none"""
    def has_div(t):
        if t[0] == "L":
            return False
        if t[0] == "B" and t[1] in ("div", "mod"):
            return True
        return any(has_div(c) for c in t[1:] if isinstance(c, tuple))
    best = None
    t = tree
    while True:
        while t[0] == "P":
            t = t[1]
        if t[0] == "L":
            return best
        if t[0] == "C" and has_div(t):
            best = "cond"
        elif t[0] == "B" and t[1] in ("and", "or") and has_div(t):
            best = t[1]
        nxt = [c for c in t[1:] if isinstance(c, tuple) and has_div(c)]
        if len(nxt) != 1:
            return best
        t = nxt[0]


def key_of(prefix, tree):
    rk = ae.root_key(tree, promoted=True)
    if prefix == "trap":
        op = rk.split(":")[0]
        wide = "enum" if "enum" in rk else ("long" if "long" in rk else "int")
        return "%s:%s_min/-1:constred" % (op, wide)
    if prefix == "div0-rejected-but-not-evaluated":
        return prefix + ":" + (lazy_op_over_division(tree) or rk.split(":")[0])
    return "%s:%s" % (prefix, rk)


def build_form_cases(ctx, per_cell):
    """one-operator trees with one LITERAL operand and the other operand variable / printing
    call / faulting expression / repeated; ?: with effectful parts"""
    rng = ctx.rng
    out = collections.OrderedDict()

    def add(tree, forms):
        out["f%05d" % len(out)] = (tree, tuple(forms))

    for obj in load_corpus():                  # the corpus always runs first
        if obj.get("kind") == "form":
            add(totuple(obj["tree"]), obj["forms"])

    def val(kind, special):
        if special and rng.random() < 0.65:
            return rng.choice(af.SPECIAL[kind])
        return ac.pick_value(rng, kind)

    for op in ac.BINSYM:
        # enumerator operands included: an item enumerator is an int at run time for every
        # operator (/repo 2ca194c; before, < <= > >= % == != aborted in front/emit.c)
        pairs = ac.admitted_pairs(op)
        boost = 6 if op in ("and", "or") else 1
        for (ka, kb) in pairs:
            for side in (0, 1):
                for other in ("call", "fault", "var"):
                    for k in range(per_cell * boost if other != "var" else max(1, per_cell // 2) * boost):
                        kinds = (ka, kb)
                        vals = [val(kinds[0], side == 0), val(kinds[1], side == 1)]
                        if op in ("shl", "shr") and rng.random() < 0.8:
                            vals[1] = rng.choice([0, 1, 2, 31] + ([33, 63] if "l" in kinds else []))
                        if k == 0:
                            vals[side] = af.SPECIAL[kinds[side]][0]       # 0 / false / 0.0
                        elif k == 1:
                            vals[side] = af.SPECIAL[kinds[side]][1]       # 1 / true / 1.0
                        tree = ("B", op, ac.atom(ac.value_tree(ka, vals[0])), ac.atom(ac.value_tree(kb, vals[1])))
                        forms = [other, other]
                        forms[side] = "lit"
                        add(tree, forms)
            if ka == kb:
                # x OP x: the same operand text twice (x - x, x ^^^ x, x == x, x / x ...)
                for first in ("call", "var", "lit"):
                    for k in range(max(1, per_cell // 2) * boost):
                        a = ac.atom(ac.value_tree(ka, val(ka, True)))
                        add(("B", op, a, a), (first, "same"))
    # an enumerator operand in parentheses / chosen by ?: next to a NON-constant operand: the
    # enumerator must still be an int for the emitter (/repo 053e24b: expr_sup_constred used to
    # put the enum type back, `(E::k0) >= x` died in front/emit.c)
    for op in ac.BINSYM:
        if ("e", "i") not in ac.admitted_pairs(op):
            continue
        for shape in ("paren", "paren2", "cond"):
            for side in (0, 1):
                for other in ("var", "call"):
                    v = val("e", True)
                    w = rng.choice([x for x in ac.ENUM_CORNERS if x != v])
                    leaf = ("L", "e", v)
                    en = {"paren": ("P", leaf), "paren2": ("P", ("P", leaf)),
                          "cond": ("P", ("C", ("L", "b", rng.randrange(2)), leaf, ("L", "e", w)))}[shape]
                    o = ("L", "i", rng.choice([0, 1, 2, 31]) if op in ("shl", "shr") and side == 0
                         else rng.choice([1, 2, 3, 7, -1, -5, 100]))
                    forms = [other, other]
                    forms[side] = "lit"
                    add(("B", op, en, o) if side == 0 else ("B", op, o, en), forms)
    # ?: : literal condition with effectful branches, effectful condition with literal branches
    shapes = [("lit", "call", "call"), ("lit", "fault", "call"), ("lit", "call", "fault"),
              ("call", "lit", "lit"), ("fault", "lit", "lit"), ("call", "lit", "call"),
              ("call", "call", "lit"), ("var", "lit", "fault"), ("var", "fault", "lit"), ("lit", "var", "fault")]
    for kind in ["b", "i", "l", "f", "d"]:
        for forms in shapes:
            for k in range(per_cell):
                c = ("L", "b", k % 2)
                a = ac.atom(ac.value_tree(kind, val(kind, True)))
                b = ac.atom(ac.value_tree(kind, val(kind, True)))
                add(("C", c, a, b), forms)
    return out


def enumdecl_family(ctx, Tp, Ta, work, n_sets, counts, nontrivial, viol_seen):
    """generated sets of enum declarations: extracted Arith/EnumIndex.decl_indices vs the real
    compiler (tie), and every enumerator read back vs its initialiser evaluated by the VM on
    variables (the property's own oracle)"""
    rng = ctx.rng
    sets = []
    for obj in load_corpus():
        if obj.get("kind") == "enumdecl":
            sets.append(totuple(obj["set"]))
    sets += [af.gen_enum_set(rng, allow_bad=(i % 8 == 7)) for i in range(n_sets)]
    ids = ["x%05d" % i for i in range(len(sets))]
    mo = ae.run_model(["X %s %s" % (i, af.enum_set_sx(es)) for i, es in zip(ids, sets)])
    progs = [(i, "", af.enum_set_program(es)) for i, es in zip(ids, sets)]
    rr = al.run_batch(Tp["nevrun"], progs, work, "c10-enumdecl")
    rr_asan = al.run_batch(Ta["nevrun"], [pr for j, pr in enumerate(progs) if j % 6 == 0], work, "c10a-enumdecl")
    dist = collections.Counter()
    failing = []
    why_msg = {"CYCLIC": "cyclic reference detected", "DIVZERO": "division by zero",
               "NOTINT": "could not reduce", "UNKNOWN": "error"}
    for i, es, (_, _, src) in zip(ids, sets, progs):
        counts["evaluations"] += 1
        counts["enumdecl-sets"] += 1
        m = af.parse_model_idx(mo.get(i))
        rec = rr.get(i)
        out = ae.canon_real(al.classify_run(rec))
        got = af.parse_enum_run(rec)
        case = {"program": src, "declarations": af.enum_decl_text(es), "model": m, "outcome": out}
        if m is None:
            ctx.correspondence_broken("model-driver", {"case": af.enum_set_sx(es)})
            continue
        verdict_name = "accepted-set" if m[0] == "ok" else "duplicate" if m[0] == "dup" else m[3].lower()
        ra = ae.canon_real(al.classify_run(rr_asan.get(i))) if i in rr_asan else None
        if out[0] == "crash" or (ra is not None and ra[0] == "crash"):
            # the compiler (or the VM) dies on a set of declarations
            k2 = "enumdecl-crash:%s" % verdict_name
            viol_seen[k2] = viol_seen.get(k2, 0) + 1
            if viol_seen[k2] == 1:
                ctx.violation(k2, "the compiler crashes on a set of enum declarations (the index model says: %s): %s"
                              % (verdict_name, af.enum_decl_text(es).replace("\n", " ")),
                              dict(case, asan=ra, output=(rec or {}).get("lines", [])[:6],
                                   asan_output=((rr_asan.get(i) or {}).get("lines", [])[:12] if i in rr_asan else None)))
            continue
        if ra is not None and (ra != out or af.parse_enum_run(rr_asan.get(i)) != got):
            k2 = "sanitizer-differs:enumdecl"
            viol_seen[k2] = viol_seen.get(k2, 0) + 1
            if viol_seen[k2] == 1:
                ctx.violation(k2, "ASan/UBSan build behaves differently from the plain build on an enum declaration set",
                              dict(case, asan=ra))
        for en, items in enumerate(es):
            for pos, it in enumerate(items):
                body = af.body_of(es, en, pos)
                refs = af.ix_refs(body)
                if it[0] == "v":
                    for o in set(af.ops_of(body)) or {af.root_op(body)}:
                        for r in refs or [None]:
                            dist["%s:%s" % (o, af.ref_class(es, (en, pos), r) if r else "no-reference")] += 1
                else:
                    dist["default-numbering:%s" % {"p": "plain", "r": "record"}[it[0]]] += 1
        # ---- tie: the extracted model against the real compiler
        if m[0] == "ok":
            want = {(en, pos): v for en, l in enumerate(m[1]) for pos, v in enumerate(l)}
            if out[0] == "compile_error":
                ctx.correspondence_broken("enumred-vs-decl_indices", dict(case, note="the model assigns indices, the compiler rejects the set",
                                                                           messages=(rec or {}).get("lines", [])[:4]))
            elif any(k not in got or got[k][0] != v for k, v in want.items()):
                ctx.correspondence_broken("enumred-vs-decl_indices", dict(case, model_indices=m[1], read_back={str(k): v for k, v in got.items()}))
            else:
                counts["enumdecl-model=compiler"] += 1
        else:
            nontrivial.add(("enumdecl-rejected", m[0], m[-1] if m[0] == "bad" else "dup"))
            txt = "\n".join((rec or {}).get("lines", []))
            expect_msg = "with same value as" if m[0] == "dup" else why_msg.get(m[3], "error")
            if out[0] != "compile_error" or expect_msg not in txt:
                ctx.correspondence_broken("enumred-vs-decl_indices", dict(case, note="the model rejects the set (%s)" % (m,),
                                                                           messages=txt[:400]))
            else:
                counts["enumdecl-model=compiler"] += 1
                counts["enumdecl-rejected-sets"] += 1
        # ---- the property's own oracle: compile-time index vs the VM's computation
        if out[0] == "compile_error":
            continue
        if out[0] != "val":
            k2 = "enumdecl-run-fails:%s" % out[0]
            viol_seen[k2] = viol_seen.get(k2, 0) + 1
            if viol_seen[k2] == 1:
                ctx.violation(k2, "a program that only reads its enumerators back does not run to the end", case)
            continue
        for en, items in enumerate(es):
            for pos, it in enumerate(items):
                k = (en, pos)
                if k not in got:
                    ctx.correspondence_broken("enumdecl-readout", dict(case, missing=str(k)))
                    continue
                read, folded, vm = got[k]
                counts["enumdecl-enumerators"] += 1
                body = af.body_of(es, en, pos)
                refs = af.ix_refs(body)
                how = "+".join(sorted({af.ref_class(es, k, r) for r in refs})) or "no-reference"
                nontrivial.add(("enumdecl", af.root_op(body), how))
                if read != vm:
                    failing.append((es, k, got, case, m))
                elif folded is not None and folded != read:
                    k2 = "enumdecl-fold-differs:%s" % {"p": "plain", "v": "valued"}[it[0]]
                    viol_seen[k2] = viol_seen.get(k2, 0) + 1
                    if viol_seen[k2] == 1:
                        ctx.violation(k2, "enumerator %s: `E::I + 0` reduced by the compiler (%d) differs from the enumerator "
                                      "held in a variable (%d)" % (af.item_name(en, pos), folded, read), case)
                else:
                    counts["leg3-agree"] += 1
    # ---- which part of a failing initialiser is responsible?  Variants of the set in which the
    # references of the failing enumerator are replaced by literals (the values read back):
    # all of them (-> an operator of the initialiser is at fault) / all but one (-> that reference)
    variants, vmeta = [], []
    for fi, (es, k, got, case, m) in enumerate(failing[:30]):
        body = af.body_of(es, *k)
        if es[k[0]][k[1]][0] != "v":
            continue
        refs = sorted(set(af.ix_refs(body)))
        for keep in [None] + refs:
            env = {r: got[r][0] for r in refs if r in got}
            if len(env) != len(refs):
                break

            def leaf(v):
                return ("L", "i", v)
            nb = af.ix_subst_except(body, env, keep)
            es2 = [list(items) for items in es]
            es2[k[0]][k[1]] = ("v", nb)
            variants.append(("y%03d_%02d" % (fi, len(variants)), "", af.enum_set_program(es2)))
            vmeta.append((fi, keep, es2))
    vrr = al.run_batch(Tp["nevrun"], variants, work, "c10-enumdecl-shrink") if variants else {}
    verdict = {}
    for (vid, _, vsrc), (fi, keep, es2) in zip(variants, vmeta):
        k = failing[fi][1]
        g = af.parse_enum_run(vrr.get(vid)).get(k)
        if g is not None and g[0] != g[2]:
            verdict.setdefault(fi, []).append((keep, es2, vsrc, g))
    for fi, (es, k, got, case, m) in enumerate(failing):
        read, folded, vm = got[k]
        body = af.body_of(es, *k)
        refs = af.ix_refs(body)
        how = "+".join(sorted({af.ref_class(es, k, r) for r in refs})) or "no-reference"
        v = verdict.get(fi, [])
        small = None
        if es[k[0]][k[1]][0] != "v":
            k2 = "enumdecl-differs:default:%s" % how
        elif any(keep is None for keep, _, _, _ in v):
            k2 = "enumdecl-differs:op:%s" % af.root_op(body)
            small = [x for x in v if x[0] is None][0]
        elif v:
            k2 = "enumdecl-differs:ref:%s" % "+".join(sorted({af.ref_class(es, k, keep) for keep, _, _, _ in v}))
            small = v[0]
        else:
            k2 = "enumdecl-differs:ref:%s" % how
        viol_seen[k2] = viol_seen.get(k2, 0) + 1
        if viol_seen[k2] > 1:
            continue
        obj = dict(case, enumerator=af.item_name(*k), compile_time=read, run_time=vm, refers=how,
                   model_index=(m[1][k[0]][k[1]] if m[0] == "ok" else None))
        if small is not None:
            obj.update({"found_in": case["program"], "program": small[2], "declarations": af.enum_decl_text(small[1]),
                        "compile_time": small[3][0], "run_time": small[3][2]})
        ctx.violation(k2, "enumerator %s = %s: the index computed by the compiler (%d) differs from its initialiser "
                      "evaluated by the VM on variables holding the referenced enumerators (%d)"
                      % (af.item_name(*k), af.ix_text(small[1][k[0]][k[1]][1] if small else body, lambda r: af.item_name(*r),
                                                      lambda i, val: al.lit_int(val)),
                         obj["compile_time"], obj["run_time"]), obj)
    table = collections.OrderedDict()
    for key, n in sorted(dist.items()):
        o, _, how = key.partition(":")
        table.setdefault(o, []).append("%s:%d" % (how, n))
    return {"sets": len(sets), "enumerators": counts["enumdecl-enumerators"],
            "initialiser operator -> how it refers (direction-kind of the target enumerator):count":
                {o: " ".join(v) for o, v in table.items()}}


def string_family(ctx, Tp, Ta, work, reps, counts, nontrivial, viol_seen):
    """string-valued / string-consuming operations (s + s folded by front/constred.c; s + char,
    s + number, == !=, length, index evaluated by the VM) with every operand literal or in a
    variable: every (left form, right form) must give the outcome of the all-variable version;
    the all-variable version is also compared with a Python reference"""
    import itertools
    rng = ctx.rng
    cases = []
    for obj in load_corpus():
        if obj.get("kind") == "string":
            cases.append({"op": obj["op"], "operands": [tuple(o) for o in obj["operands"]]})
    cases += af.gen_string_cases(rng, reps)
    progs, meta = [], []
    for ci, case in enumerate(cases):
        arity = len(case["operands"])
        for forms in itertools.product(("lit", "var"), repeat=arity):
            pid = "g%04d.%s" % (ci, "-".join(forms))
            src = af.string_program(case, forms)
            progs.append((pid, "", src))
            meta.append((pid, ci, forms, src))
    rr = al.run_batch(Tp["nevrun"], progs, work, "c10-strings")
    rr_asan = al.run_batch(Ta["nevrun"], [pr for i, pr in enumerate(progs) if i % 5 == 0], work, "c10a-strings")
    dist = collections.Counter()
    allvar = {}
    for pid, ci, forms, src in meta:
        if all(f == "var" for f in forms):
            allvar[ci] = (af.string_outcome(rr.get(pid)), src)
    for pid, ci, forms, src in meta:
        case = cases[ci]
        kinds = af.string_operand_kinds(case)
        fname = "-".join(forms)
        dist[(case["op"], kinds, fname)] += 1
        counts["evaluations"] += 1
        counts["string-operand-cases"] += 1
        got = af.string_outcome(rr.get(pid))
        var, vsrc = allvar[ci]
        nontrivial.add(("string", case["op"], kinds, fname, got[1][0], len(got[0]) > 2))
        obj = {"operation": case["op"], "operand_kinds": kinds, "operand_forms": fname, "program": src,
               "outcome": got, "variable_program": vsrc, "variable_outcome": var,
               "operands": [list(map(str, o[1:])) for o in case["operands"]]}
        if pid in rr_asan:
            ra = af.string_outcome(rr_asan.get(pid))
            if ra[1] != got[1] or (ra[1][0] == "val" and ra[0] != got[0]):
                k2 = "sanitizer-differs:string:%s:%s" % (case["op"], kinds)
                viol_seen[k2] = viol_seen.get(k2, 0) + 1
                if viol_seen[k2] == 1:
                    ctx.violation(k2, "ASan/UBSan build behaves differently from the plain build", dict(obj, asan=ra))
        if all(f == "var" for f in forms):
            ref = af.string_reference(case)
            if ref is not None and ref != got:
                ctx.correspondence_broken("vm-vs-string-reference", dict(obj, reference=ref))
            continue
        if got == var:
            counts["leg3-agree"] += 1
            continue
        if got[1][0] == "crash":
            k2 = "string-crash:%s:%s:%s" % (case["op"], kinds, fname)
            what = "the compiler / VM crashes (%s) with literal operands" % got[1][1]
        else:
            k2 = "string-fold-differs:%s:%s:%s" % (case["op"], kinds, fname)
            what = "literal operands and variables holding the same values give different outcomes"
        viol_seen[k2] = viol_seen.get(k2, 0) + 1
        if viol_seen[k2] == 1:
            ctx.violation(k2, "%s on (%s) with operands in the forms %s: %s" % (case["op"], kinds, fname, what), obj)
    table = collections.OrderedDict()
    for (op, kinds, fname), n in sorted(dist.items()):
        table.setdefault(op, collections.OrderedDict()).setdefault(kinds, []).append("%s:%d" % (fname, n))
    return {"cases": len(cases), "programs": len(progs),
            "operation -> operand kinds -> forms:count": {op: {k: " ".join(v) for k, v in ks.items()} for op, ks in table.items()}}


def run(ctx):
    quick = ctx.tier == "quick"
    work = os.path.join(ctx.outdir, "work")
    Tp = ae.tools("plain")
    info = gen_convtables.generate(Tp["dumpops"], work)
    info.pop("tables")
    ctx.notes["tables"] = {k: info[k] for k in ("probe_programs", "binary_cells", "unary_cells",
                                                  "assign_cells", "changed", "complete")}
    ctx.notes["exhaustive"] = bool(info["complete"])
    ctx.notes["exhaustive_scope"] = ("operators x ordered operand type pairs of the typing/emission tables used by "
                               "rt_eval enumerated completely: %s; values are sampled (proved for all values)"
                               % bool(info["complete"]))
    if info["problems"]:
        ctx.correspondence_broken("table-generator", info["problems"][:5])
    ctx.proofs()
    ae.table_obligations(ctx)
    if not ae.build_model(ctx):
        return
    Ta = ae.tools("asan")

    counts = collections.Counter()
    nontrivial = set()
    viol_seen = {}

    cases = collections.OrderedDict()          # the corpus always runs first
    for i, obj in enumerate(load_corpus()):
        if obj.get("kind") == "expr":
            cases["k%05d" % i] = totuple(obj["tree"])
    gen_cases, dist = build_cases(ctx, 24 if quick else 80, 3000 if quick else 20000)
    cases.update(gen_cases)
    res = ae.eval_expr_cases(cases, Tp, work, "c10", legs=("var", "lit", "dump"))
    if res.get("?model_errors"):
        ctx.correspondence_broken("model-driver", res["?model_errors"][:3])
    sample_ids = [c for i, c in enumerate(cases) if i % (10 if quick else 5) == 0 or c.startswith("k")]
    res_asan = ae.eval_expr_cases({c: cases[c] for c in sample_ids}, Ta, work, "c10a", legs=("var", "lit"))

    failing = []
    for cid, tree in cases.items():
        r = res[cid]
        m = r["model"]
        if m is None:
            ctx.correspondence_broken("model-driver", {"case": ac.sx(tree)})
            continue
        if m["ty"] is None:
            counts["rejected-by-model-typechecker"] += 1
            # the real typechecker must reject it as well
            continue
        if m["ty"] == "enum":
            counts["enum-typed-result-skipped"] += 1
            continue
        counts["evaluations"] += 1
        if m["ub"]:
            counts["excluded-C-UB"] += 1
            continue
        case = {"tree": ac.sx(tree), "literal_program": r["src_lit"], "variable_program": r["src_var"]}
        if m["fold"][0] in ("lit", "reject", "crash"):
            nontrivial.add((ae.root_key(tree), m["fold"][0], r["var"][0]))
        # leg 1
        if r["dump"] != ae.model_fold_as_real(m["fold"]):
            ctx.correspondence_broken("reducer-vs-fold", dict(case, model_fold=m["fold"], real_dump=r["dump"]))
        else:
            counts["leg1-agree"] += 1
        # leg 2
        if r["var"] != m["rt"]:
            ctx.correspondence_broken("vm-vs-rt_eval", dict(case, model=m["rt"], real=r["var"]))
        else:
            counts["leg2-agree"] += 1
        ra = res_asan.get(cid)
        if ra is not None and ("var" in ra) and (ra["var"] != r["var"] or ra["lit"] != r["lit"]):
            key = "sanitizer-differs:" + ae.root_key(tree)
            if key not in viol_seen:
                viol_seen[key] = 1
                ctx.violation(key, "ASan/UBSan build behaves differently from the plain build",
                              dict(case, plain=(r["lit"], r["var"]), asan=(ra["lit"], ra["var"])))
        # leg 3
        c = classify(r)
        if c is None:
            counts["leg3-agree"] += 1
        else:
            failing.append((cid, tree, c))
        if len(ctx.coverage["samples"]) < 4 and counts["evaluations"] % 1201 == 1:
            ctx.sample({"literal_program": r["src_lit"], "folded": r["dump"], "variable_program": r["src_var"],
                        "vm": r["var"], "model_fold": m["fold"], "model_rt": m["rt"]})

    # shrink: smallest failing subtree of each failing case
    sub = collections.OrderedDict()
    owner = {}
    for cid, tree, c in failing:
        for j, st in enumerate(ac.subtrees(tree)):
            if st[0] == "L" or st == tree:
                continue
            sid = "%s.s%d" % (cid, j)
            sub[sid] = st
            owner[sid] = cid
    sres = ae.eval_expr_cases(sub, Tp, work, "c10s", legs=("var", "lit")) if sub else {}
    best = {}
    for sid, st in sub.items():
        r = sres[sid]
        if not r.get("model") or r["model"]["ty"] in (None, "enum") or r["model"]["ub"]:
            continue
        c = classify(r)
        if c is not None:
            cid = owner[sid]
            if cid not in best or ac.size(st) < ac.size(best[cid][0]):
                best[cid] = (st, c, r)
    for cid, tree, c in failing:
        st, c2, r = best.get(cid, (tree, c, res[cid]))
        key = key_of(c2[0], st)
        viol_seen[key] = viol_seen.get(key, 0) + 1
        if viol_seen[key] > 1:
            continue
        ctx.violation(key, "%s: %s" % (ae.root_key(st), c2[1]),
                      {"tree": ac.sx(st), "literal_program": r["src_lit"], "variable_program": r["src_var"],
                       "literal_outcome": r["lit"], "variable_outcome": r["var"],
                       "found_in": ac.sx(tree) if st != tree else None,
                       "model": {"fold": r["model"]["fold"], "rt_eval": r["model"]["rt"]}})

    # ---- conversions folded under an assignment (narrowing conversions) -------------------
    rng = ctx.rng
    acases = collections.OrderedDict()
    for kl in NUMK:
        for kr in NUMK:
            for k in range(20 if quick else 80):
                v = ac.pick_value(rng, kr)
                acases["a%05d" % len(acases)] = (kl, ac.value_tree(kr, v), kr, v)
    lines, vprogs, lprogs = [], [], []
    for cid, (kl, tree, kr, v) in acases.items():
        lines.append("A %s %s (L %s 0) %s" % (cid, ac.KIND_TY[kl], kl, ac.sx(tree)))
        vprogs.append((cid + ".v", "", ac.program_assign(kl, 0, tree)))
        lprogs.append((cid + ".l", "", ac.program_assign_lit(kl, 0, tree)))
    mo = ae.run_model(lines)
    rr = al.run_batch(Tp["nevrun"], vprogs + lprogs, work, "c10-ass")
    for (cid, (kl, tree, kr, v)), vp, lp in zip(acases.items(), vprogs, lprogs):
        counts["evaluations"] += 1
        mm = ae.ASSIGN_RE.match(mo.get(cid, ""))
        if not mm:
            ctx.correspondence_broken("model-driver", {"case": cid, "line": mo.get(cid)})
            continue
        if mm.group(3) == "1":
            counts["excluded-C-UB"] += 1
            continue
        model = ae.parse_outcome(mm.group(2))
        var = ae.canon_real(al.classify_run(rr.get(cid + ".v")))
        lit = ae.canon_real(al.classify_run(rr.get(cid + ".l")))
        key = "ass-conv:%s<-%s" % (ac.KIND_TY[kl], ac.KIND_TY[kr])
        nontrivial.add((key, var[0]))
        case = {"literal_program": lp[2], "variable_program": vp[2]}
        if var != model:
            ctx.correspondence_broken("vm-vs-rt_assign", dict(case, model=model, real=var))
        else:
            counts["leg2-agree"] += 1
        if lit != var:
            k2 = "fold-differs:" + key
            viol_seen[k2] = viol_seen.get(k2, 0) + 1
            if viol_seen[k2] == 1:
                ctx.violation(k2, "assignment of a literal and of a variable holding the same value differ",
                              dict(case, literal_outcome=lit, variable_outcome=var, model=model))
        else:
            counts["leg3-agree"] += 1

    # ---- enumerator initialisers: front/enumred.c, the second constant evaluator -----------
    etrees = ac.enum_cases(rng, 30 if quick else 120, 500 if quick else 4000)
    for obj in load_corpus():
        if obj.get("kind") == "enum":
            etrees.insert(0, totuple(obj["tree"]))

    def eval_enum(trees, tag):
        ids = ["%s%05d" % (tag, i) for i in range(len(trees))]
        mo = ae.run_model(["N %s %s" % (i, ac.sx(t)) for i, t in zip(ids, trees)])
        progs = []
        for i, t in zip(ids, trees):
            progs.append((i + ".e", "", ac.program_enum(t)))
            progs.append((i + ".v", "", ac.program_var(ac.enum_to_int(t), "int")))
        rr = al.run_batch(Tp["nevrun"], progs, work, "c10-" + tag)
        out = []
        for i, t in zip(ids, trees):
            m = ae.parse_model_E(mo[i]) if i in mo else None
            out.append({"tree": t, "model": m,
                        "enum_program": ac.program_enum(t),
                        "variable_program": ac.program_var(ac.enum_to_int(t), "int"),
                        "enum": ae.canon_real(al.classify_run(rr.get(i + ".e"))),
                        "var": ae.canon_real(al.classify_run(rr.get(i + ".v")))})
        return out

    def classify_enum(r):
        en, var = r["enum"], r["var"]
        if en[0] == "crash":
            return ("trap", "the compiler dies with SIGFPE reducing the enumerator initialiser") if en[1] == "sigfpe" \
                else ("enumred-crash", "the compiler crashes (%s) on the enumerator initialiser" % en[1])
        if en == ("compile_error", "other") or en == ("compile_error", "prepare"):
            return None if var[0] in ("val", "fault") else ("enumred-differs", "initialiser rejected, run-time version crashes")
        if ae.same_outcome_lit_var(en, var):
            return None
        if en == ("compile_error", "division by zero") and var[0] == "val":
            return ("div0-rejected-but-not-evaluated",
                    "initialiser rejected as division by zero although the VM never evaluates that division")
        return ("enumred-differs", "the enumerator computed by the compiler differs from the same expression evaluated at run time")

    def enum_key(prefix, tree):
        rk = ae.root_key(ac.enum_to_int(tree))
        if prefix == "trap":
            return "%s:int_min/-1:enumred" % rk.split(":")[0]
        if prefix == "div0-rejected-but-not-evaluated":
            return "%s:%s:enumred" % (prefix, lazy_op_over_division(tree) or rk.split(":")[0])
        return "%s:%s" % (prefix, rk)

    efail = []
    for r in eval_enum(etrees, "n"):
        m = r["model"]
        if m is None or m["ty"] is None:
            counts["enumred-rejected-by-model-typechecker"] += 1
            continue
        counts["evaluations"] += 1
        counts["enumred-cases"] += 1
        if m["ub"]:
            counts["excluded-C-UB"] += 1
            continue
        case = {"tree": ac.sx(r["tree"]), "enum_program": r["enum_program"], "variable_program": r["variable_program"]}
        en = r["enum"]
        if en in (("compile_error", "other"), ("compile_error", "prepare")):
            counts["enumred-initialiser-not-reducible"] += 1
        nontrivial.add(("enumred", ae.root_key(ac.enum_to_int(r["tree"])), en[0]))
        # model (Arith/Enumred.v) vs real reducer, model rt_eval vs real VM
        want = {"lit": ("val", "int", m["fold"][2] if m["fold"][0] == "lit" else None),
                "reject": ("compile_error", "division by zero"), "crash": ("crash", "sigfpe"),
                "residual": ("compile_error", "other"), "residual-noemit": ("compile_error", "other")}[m["fold"][0]]
        if en != want:
            ctx.correspondence_broken("enumred-vs-efold", dict(case, model_efold=m["fold"], real=en))
        else:
            counts["enumred-leg1-agree"] += 1
        if r["var"] != m["rt"]:
            ctx.correspondence_broken("vm-vs-rt_eval", dict(case, model=m["rt"], real=r["var"]))
        c = classify_enum(r)
        if c is None:
            counts["enumred-leg3-agree"] += 1
        else:
            efail.append((r, c))
    # shrink to the smallest failing subtree (bool subtrees are read through ?:)
    subs, owner = [], []
    for k, (r, c) in enumerate(efail[:60]):
        for st in ac.subtrees(r["tree"]):
            if st[0] == "L" or st == r["tree"]:
                continue
            isb = st[0] == "B" and (st[1] in ac.CMP or st[1] in ("and", "or")) or st[0] == "U" and st[1] == "not"
            subs.append(ac.as_int_tree(st, isb))
            owner.append(k)
    best = {}
    if subs:
        for k, r2 in zip(owner, eval_enum(subs, "ns")):
            if not r2["model"] or r2["model"]["ty"] is None or r2["model"]["ub"]:
                continue
            c2 = classify_enum(r2)
            if c2 is not None and (k not in best or ac.size(r2["tree"]) < ac.size(best[k][0]["tree"])):
                best[k] = (r2, c2)
    for k, (r, c) in enumerate(efail):
        r2, c2 = best.get(k, (r, c))
        t2 = r2["tree"]
        # look through the ?: used to read a bool
        core = t2[1][1] if (t2[0] == "C" and t2[2] == ("L", "i", 10) and t2[3] == ("L", "i", 11) and t2[1][0] == "P") else t2
        key = enum_key(c2[0], core)
        viol_seen[key] = viol_seen.get(key, 0) + 1
        if viol_seen[key] > 1:
            continue
        ctx.violation(key, "%s in an enumerator initialiser: %s" % (ae.root_key(ac.enum_to_int(core)), c2[1]),
                      {"tree": ac.sx(t2), "enum_program": r2["enum_program"], "variable_program": r2["variable_program"],
                       "enumerator_outcome": r2["enum"], "variable_outcome": r2["var"],
                       "model": {"efold": r2["model"]["fold"], "rt_eval": r2["model"]["rt"]}})

    # ---- operand forms: a literal operand next to a non-constant / effectful / faulting one ---
    formdist = collections.Counter()
    for cid, tree in cases.items():
        if cid[0] in "bu" and res[cid].get("model") and res[cid]["model"]["ty"] is not None:
            formdist[(ae.root_key(tree), "lit-lit" if cid[0] == "b" else "lit")] += 1
    fcases = build_form_cases(ctx, 4 if quick else 12)
    mo = ae.run_model(["E %s %s" % (fid, ac.sx(fc[0])) for fid, fc in fcases.items()])
    fprogs, fmeta = [], collections.OrderedDict()
    for fid, (tree, forms) in fcases.items():
        m = ae.parse_model_E(mo[fid]) if fid in mo else None
        if not m or m["ty"] in (None, "enum"):
            counts["rejected-by-model-typechecker"] += 1
            continue
        vforms = af.var_version(forms)
        lsrc, vsrc = af.form_program(tree, forms, m["ty"]), af.form_program(tree, vforms, m["ty"])
        fprogs.append((fid + ".l", "", lsrc))
        fprogs.append((fid + ".v", "", vsrc))
        fmeta[fid] = (tree, forms, vforms, lsrc, vsrc)
    frr = al.run_batch(Tp["nevrun"], fprogs, work, "c10-forms")
    fsample = [pr for i, pr in enumerate(fprogs) if (i // 2) % (12 if quick else 6) == 0]
    frr_asan = al.run_batch(Ta["nevrun"], fsample, work, "c10a-forms")
    for fid, (tree, forms, vforms, lsrc, vsrc) in fmeta.items():
        key = ae.root_key(tree)
        fname = af.form_name(forms)
        formdist[(key, fname)] += 1
        counts["evaluations"] += 1
        counts["operand-form-cases"] += 1
        exp_tags, exp_out = af.reference(tree, vforms)
        if exp_out[0] == "undef":
            counts["excluded-C-UB"] += 1
            continue
        lit = (af.trace_of(frr.get(fid + ".l")), ae.canon_real(al.classify_run(frr.get(fid + ".l"))))
        var = (af.trace_of(frr.get(fid + ".v")), ae.canon_real(al.classify_run(frr.get(fid + ".v"))))
        case = {"tree": ac.sx(tree), "operand_forms": fname, "literal_program": lsrc, "variable_program": vsrc,
                "literal_outcome": lit, "variable_outcome": var, "expected": (exp_tags, exp_out)}
        nontrivial.add(("forms", key, fname, var[1][0], len(var[0])))
        for suffix, got in ((".l", lit), (".v", var)):
            if fid + suffix in frr_asan:
                rec = frr_asan.get(fid + suffix)
                ra = (af.trace_of(rec), ae.canon_real(al.classify_run(rec)))
                if ra != got:
                    k2 = "sanitizer-differs:%s:%s" % (key, fname)
                    viol_seen[k2] = viol_seen.get(k2, 0) + 1
                    if viol_seen[k2] == 1:
                        ctx.violation(k2, "ASan/UBSan build behaves differently from the plain build", dict(case, asan=ra))
        # reference (evaluation order + C semantics) vs the VM on the variable version
        exp_real = exp_out
        if exp_real == ("trap",):
            t0 = tree
            while t0[0] == "P":
                t0 = t0[1]
            wide = "long" if "long" in key else "int"
            exp_real = ("val", wide, 0 if t0[1] == "mod" else (al.LONG_MIN if wide == "long" else al.INT_MIN))
        if var != (exp_tags, exp_real):
            ctx.correspondence_broken("vm-vs-trace-reference", case)
        else:
            counts["forms-reference-agrees"] += 1
        # leg 3: the property's own oracle on the whole outcome
        same = lit == var or (lit[1] == ("compile_error", "division by zero") and var[1] == ("fault", "division_by_zero"))
        if same:
            counts["leg3-agree"] += 1
            continue
        if ("crash", "emit") in (lit[1], var[1]):
            k2, what = ("emit-abort:%s" % key,
                        "accepted by the typechecker, but the %s version kills the compiler at assert(0) in front/emit.c "
                        "(no opcode for the operand types)" % ("literal" if lit[1] == ("crash", "emit") else "variable"))
        elif lit[1][0] == "crash":
            k2, what = "constred-crash:%s:%s" % (key, fname), "the compiler crashes (%s)" % lit[1][1]
        elif lit[1] == ("compile_error", "division by zero"):
            k2, what = ("div0-rejected-but-not-evaluated:%s:%s" % (key.split(":")[0], fname),
                        "rejected as constant division by zero although the VM does not fault on that division")
        else:
            k2, what = ("effect-differs:%s:%s" % (key, fname),
                        "the literal operand and a variable holding the same value give different outcomes "
                        "(tags printed / result / exception)")
        viol_seen[k2] = viol_seen.get(k2, 0) + 1
        if viol_seen[k2] == 1:
            ctx.violation(k2, "%s with operands in the forms %s: %s" % (key, fname, what), case)

    # ---- string operands: literal vs variable in every position --------------------------------
    strdist = string_family(ctx, Tp, Ta, work, 12 if quick else 48, counts, nontrivial, viol_seen)

    # ---- enum declaration sets: index assignment (forward / backward / cross references) ----
    edist = enumdecl_family(ctx, Tp, Ta, work, 400 if quick else 3000, counts, nontrivial, viol_seen)

    ctx.count(evaluations=counts["evaluations"], nontrivial=len(nontrivial))
    ctx.coverage["rule"] = (
        "expression trees over literal leaves: every operator x every admitted ordered pair of literal kinds "
        "{bool,int,long,float,double,enum item} x values (corner set + seeded random), unary operators, "
        "&&/||/?: with a division by zero in the branch not taken, random trees of depth <= 3, and assignments "
        "over the 16 numeric pairs (narrowing conversions folded on a literal); each tree is compiled with literal "
        "leaves (dump of the folded constant + run) and with the leaves in variables (run); operand-form matrix: "
        "every operator x type pair with ONE literal operand next to a variable / a printing call / a faulting "
        "expression / the same operand repeated, and ?: with effectful parts, literal version vs variable version "
        "compared on the whole outcome (tags printed + result + exception); enum declaration sets (plain, valued, "
        "record-style enumerators; backward, forward and cross-enum references; every int operator; cyclic and "
        "duplicate sets) read back three ways and against the extracted Arith/EnumIndex.decl_indices; non-trivial = "
        "distinct (root operator, operand kinds, [operand forms,] fold result kind, run-time outcome kind) resp. "
        "(initialiser root operator, how it refers)")
    ctx.notes["distribution"] = dict(dist)
    table = collections.OrderedDict()
    for (key, fname), n in sorted(formdist.items()):
        op, _, pair = key.partition(":")
        table.setdefault(op, collections.OrderedDict()).setdefault(pair, []).append("%s:%d" % (fname, n))
    ctx.coverage["operator_x_typepair_x_operandform"] = {
        op: {pair: " ".join(v) for pair, v in pairs.items()} for op, pairs in table.items()}
    ctx.coverage["operand_form_cells"] = {
        "distinct (operator, type pair, operand form) cells": len(formdist),
        "cases per form": {f: sum(n for (k, ff), n in formdist.items() if ff == f)
                           for f in sorted({ff for (k, ff) in formdist})}}
    ctx.coverage["enumdecl_distribution"] = edist
    ctx.coverage["string_operands_operation_x_operandkinds_x_forms"] = strdist
    ctx.notes["counts"] = dict(counts)
    ctx.notes["violation_hits"] = viol_seen
    ctx.notes["excluded"] = ("C undefined behaviour: out-of-range float->int conversions, shift counts >= width "
                             "(%d cases); trees whose static type is an enum (not returnable from main): %d"
                             % (counts["excluded-C-UB"], counts["enum-typed-result-skipped"]))
    ctx.notes["enumred_leg"] = ("front/enumred.c: `enum E { k = <expr> }` read back vs the same expression over int variables; "
                                "model Arith/Enumred.v (efold); proved against rt_eval on int/bool trees without ?:, == != "
                                "(enumred_agrees_with_runtime_partial), the rest is correspondence-only; initialisers enumred.c "
                                "cannot reduce (== != on ints, long/float operands) are counted, not violations: %d"
                                % counts["enumred-initialiser-not-reducible"])
