(* Arith/IntOpsProofs.v — value-level theorems about the integer operations, for ALL operand
   values and every width n > 0 (instantiated at 32 and 64 in Properties_C11.v). *)
From Coq Require Import ZArith Bool Lia.
From NV Require Import Arith.Bits Arith.BitsProofs Arith.IntOps.
Local Open Scope Z_scope.

(* + - * and unary - are the ring operations of Z/2^n: the result is in range, congruent to
   the mathematical result, and operands may be wrapped before or after *)
Theorem wrap_ring_hom : forall n a b, 0 < n ->
  (in_range n (iadd n a b) /\ (iadd n a b) mod modulus n = (a + b) mod modulus n) /\
  (in_range n (isub n a b) /\ (isub n a b) mod modulus n = (a - b) mod modulus n) /\
  (in_range n (imul n a b) /\ (imul n a b) mod modulus n = (a * b) mod modulus n) /\
  (in_range n (ineg n a) /\ (ineg n a) mod modulus n = (- a) mod modulus n) /\
  iadd n (wrap n a) (wrap n b) = wrap n (a + b) /\
  isub n (wrap n a) (wrap n b) = wrap n (a - b) /\
  imul n (wrap n a) (wrap n b) = wrap n (a * b) /\
  ineg n (wrap n a) = wrap n (- a).
Proof.
  intros n a b Hn. unfold iadd, isub, imul, ineg.
  repeat split; try (now apply wrap_in_range); try (now apply wrap_congr).
  - now apply wrap_add.
  - now apply wrap_sub.
  - now apply wrap_mul.
  - now apply wrap_opp.
Qed.

(* no wrap-around happens when the mathematical result fits *)
Theorem arith_exact_when_fits : forall n a b, 0 < n ->
  (in_range n (a + b) -> iadd n a b = a + b) /\
  (in_range n (a - b) -> isub n a b = a - b) /\
  (in_range n (a * b) -> imul n a b = a * b).
Proof. intros. unfold iadd, isub, imul. repeat split; intro; now apply wrap_id. Qed.

(* division truncates toward zero; the remainder has the sign of the dividend *)
Lemma quot_in_range : forall h a b, 0 < h -> - h <= a < h -> - h <= b < h -> b <> 0 ->
  ~ (a = - h /\ b = -1) -> - h <= Z.quot a b < h.
Proof.
  intros h a b Hh Ha Hb Hb0 Hov.
  assert (Habs : Z.abs (Z.quot a b) <= Z.abs a).
  { rewrite <- Z.quot_abs by assumption.
    apply Z.quot_le_upper_bound; [lia|]. nia. }
  destruct (Z.eq_dec (Z.quot a b) h) as [E|NE]; [|lia].
  exfalso.
  pose proof (Z.quot_rem' a b) as Hqr. rewrite E in Hqr.
  pose proof (Z.rem_bound_abs a b Hb0) as Hr.
  assert (Ha' : a = - h) by lia.
  destruct (Z_lt_le_dec b 0) as [Hneg|Hpos].
  - (* b <= -1 : a = b*h + r <= -h*|b| + |b| - 1 *)
    destruct (Z.eq_dec b (-1)) as [B|B]; [apply Hov; split; assumption|].
    assert (b <= -2) by lia. nia.
  - assert (1 <= b) by lia. nia.
Qed.

(* the handlers' division never traps: for every non-zero divisor the quotient is the
   truncated mathematical quotient wrapped to n bits, the remainder is Z.rem *)
Lemma quot_m1 : forall a, Z.quot a (-1) = - a.
Proof.
  intros a. pose proof (Z.quot_rem' a (-1)). pose proof (Z.rem_bound_abs a (-1) ltac:(lia)). lia.
Qed.

Lemma rem_m1 : forall a, Z.rem a (-1) = 0.
Proof. intros a. pose proof (Z.rem_bound_abs a (-1) ltac:(lia)). lia. Qed.

Theorem div_never_traps : forall n a b, 0 < n -> b <> 0 ->
  idiv n a b = IVal (wrap n (Z.quot a b)) /\ imod n a b = IVal (Z.rem a b) /\
  in_range n (wrap n (Z.quot a b)) /\
  (in_range n b -> in_range n (Z.rem a b)).
Proof.
  intros n a b Hn Hb0.
  unfold idiv, imod.
  destruct (b =? 0) eqn:E; [apply Z.eqb_eq in E; contradiction|].
  split; [|split; [|split]].
  - destruct (b =? -1) eqn:E1; [|reflexivity].
    apply Z.eqb_eq in E1. subst b. now rewrite quot_m1.
  - destruct (b =? -1) eqn:E1; [|reflexivity].
    apply Z.eqb_eq in E1. subst b. now rewrite rem_m1.
  - now apply wrap_in_range.
  - intro Hb. pose proof (Z.rem_bound_abs a b Hb0). pose proof (half_pos n Hn).
    unfold in_range in *. lia.
Qed.

(* the raw operators agree with the handlers' division wherever they do not trap *)
Theorem raw_div_agrees : forall n a b,
  (cdiv n a b = ISigFpe \/ cdiv n a b = idiv n a b) /\
  (cmod n a b = ISigFpe \/ cmod n a b = imod n a b).
Proof.
  intros n a b. unfold cdiv, cmod, idiv, imod.
  destruct (b =? 0); [split; right; reflexivity|].
  destruct (div_overflows n a b); [split; left; reflexivity|].
  destruct (b =? -1) eqn:E1; [|split; right; reflexivity].
  apply Z.eqb_eq in E1. subst b. rewrite quot_m1, rem_m1. split; right; reflexivity.
Qed.

(* ... the one pair whose mathematical quotient does not fit wraps around *)
Theorem div_overflow_wraps : forall n, 0 < n ->
  idiv n (int_min n) (-1) = IVal (int_min n) /\ imod n (int_min n) (-1) = IVal 0.
Proof.
  intros n Hn. unfold idiv, imod. cbn. split; [|reflexivity].
  f_equal. unfold int_min. rewrite Z.opp_involutive.
  pose proof (half_pos n Hn) as Hh. pose proof (modulus_half n Hn) as Hm.
  unfold wrap, unsigned, signed.
  rewrite (Z.mod_small (half n) (modulus n)) by lia.
  rewrite Z.ltb_irrefl. lia.
Qed.

(* on every other pair: truncation toward zero, remainder with the sign of the dividend *)
Theorem div_truncates : forall n a b, 0 < n -> in_range n a -> in_range n b ->
  b <> 0 -> div_overflows n a b = false ->
  exists q r, idiv n a b = IVal q /\ imod n a b = IVal r /\
    a = b * q + r /\ Z.abs r < Z.abs b /\ (r = 0 \/ Z.sgn r = Z.sgn a) /\
    in_range n q /\ in_range n r.
Proof.
  intros n a b Hn Ha Hb Hb0 Hov.
  destruct (div_never_traps n a b Hn Hb0) as (D & M & _ & Hr). specialize (Hr Hb).
  assert (Hq : in_range n (Z.quot a b)).
  { unfold in_range. apply quot_in_range; try assumption.
    - now apply half_pos.
    - unfold div_overflows, int_min in Hov. intros [A B]. subst.
      rewrite !Z.eqb_refl in Hov. discriminate. }
  rewrite (wrap_id n _ Hn Hq) in D.
  exists (Z.quot a b), (Z.rem a b).
  pose proof (Z.quot_rem' a b) as Hqr.
  pose proof (Z.rem_bound_abs a b Hb0) as Hrb.
  assert (Hsgn : Z.rem a b = 0 \/ Z.sgn (Z.rem a b) = Z.sgn a).
  { destruct (Z.eq_dec (Z.rem a b) 0); [left; assumption | right; now apply Z.rem_sign_nz]. }
  split; [assumption|]. split; [assumption|]. split; [assumption|].
  split; [assumption|]. split; [assumption|]. split; assumption.
Qed.

(* division by zero is the fault *)
Theorem div_by_zero_faults : forall n a, idiv n a 0 = IDivZero /\ imod n a 0 = IDivZero.
Proof. intros. unfold idiv, imod. cbn. split; reflexivity. Qed.

(* the raw C operators (still used on enum indices by the reducer) do trap *)
Theorem raw_div_overflow_traps : forall n, 0 < n ->
  cdiv n (int_min n) (-1) = ISigFpe /\ cmod n (int_min n) (-1) = ISigFpe.
Proof.
  intros n Hn. unfold cdiv, cmod, div_overflows. cbn.
  rewrite Z.eqb_refl. cbn. split; reflexivity.
Qed.

(* comparisons: a total order, exactly one of < = > holds; the others are derived *)
Theorem compare_total_int : forall a b,
  ilt a b + ieq a b + igt a b = 1 /\
  ile a b = ilt a b + ieq a b /\ ige a b = igt a b + ieq a b /\
  ine a b = 1 - ieq a b /\
  (ilt a b = 1 <-> a < b) /\ (ieq a b = 1 <-> a = b) /\ (igt a b = 1 <-> b < a).
Proof.
  intros a b. unfold ilt, ieq, igt, ile, ige, ine, b2z.
  destruct (Z.ltb_spec a b); destruct (Z.eqb_spec a b); destruct (Z.ltb_spec b a);
  destruct (Z.leb_spec a b); destruct (Z.leb_spec b a); cbn; try lia;
  (split; [lia|]); (split; [lia|]); (split; [lia|]); (split; [lia|]);
  (split; [split; intro; (lia || discriminate)|]);
  (split; split; intro; (lia || discriminate)).
Qed.

(* ---- bit operations ---------------------------------------------------------------- *)

Lemma unsigned_as_land : forall n a, 0 <= n -> unsigned n a = Z.land a (Z.ones n).
Proof. intros. unfold unsigned, modulus. now rewrite Z.land_ones. Qed.

Lemma land_lxor_distr_l : forall a b c, Z.land (Z.lxor a b) c = Z.lxor (Z.land a c) (Z.land b c).
Proof.
  intros. apply Z.bits_inj'. intros i Hi.
  rewrite Z.lxor_spec, !Z.land_spec, Z.lxor_spec.
  destruct (Z.testbit a i), (Z.testbit b i), (Z.testbit c i); reflexivity.
Qed.

Lemma land_ones_idem : forall a b n, Z.land (Z.land a (Z.ones n)) (Z.land b (Z.ones n))
                                     = Z.land (Z.land a b) (Z.ones n).
Proof.
  intros. apply Z.bits_inj'. intros i Hi. rewrite !Z.land_spec.
  destruct (Z.testbit a i), (Z.testbit b i), (Z.testbit (Z.ones n) i); reflexivity.
Qed.

Lemma signed_unsigned_id : forall n x, 0 < n -> in_range n x -> signed n (unsigned n x) = x.
Proof. intros. now apply wrap_id. Qed.

Lemma top_land : forall x y, (x = 0 \/ x = -1) -> (y = 0 \/ y = -1) ->
  Z.land x y = 0 \/ Z.land x y = -1.
Proof. intros x y [->| ->] [->| ->]; cbn; auto. Qed.
Lemma top_lor : forall x y, (x = 0 \/ x = -1) -> (y = 0 \/ y = -1) ->
  Z.lor x y = 0 \/ Z.lor x y = -1.
Proof. intros x y [->| ->] [->| ->]; cbn; auto. Qed.
Lemma top_lxor : forall x y, (x = 0 \/ x = -1) -> (y = 0 \/ y = -1) ->
  Z.lxor x y = 0 \/ Z.lxor x y = -1.
Proof. intros x y [->| ->] [->| ->]; cbn; auto. Qed.

Lemma land_in_range : forall n a b, 0 < n -> in_range n a -> in_range n b -> in_range n (Z.land a b).
Proof.
  intros n a b Hn Ha Hb. apply in_range_shiftr in Ha; [|assumption].
  apply in_range_shiftr in Hb; [|assumption]. apply in_range_shiftr; [assumption|].
  rewrite Z.shiftr_land. now apply top_land.
Qed.
Lemma lor_in_range : forall n a b, 0 < n -> in_range n a -> in_range n b -> in_range n (Z.lor a b).
Proof.
  intros n a b Hn Ha Hb. apply in_range_shiftr in Ha; [|assumption].
  apply in_range_shiftr in Hb; [|assumption]. apply in_range_shiftr; [assumption|].
  rewrite Z.shiftr_lor. now apply top_lor.
Qed.
Lemma lxor_in_range : forall n a b, 0 < n -> in_range n a -> in_range n b -> in_range n (Z.lxor a b).
Proof.
  intros n a b Hn Ha Hb. apply in_range_shiftr in Ha; [|assumption].
  apply in_range_shiftr in Hb; [|assumption]. apply in_range_shiftr; [assumption|].
  rewrite Z.shiftr_lxor. now apply top_lxor.
Qed.

(* & | ^ ~ on the n-bit patterns of signed operands are Z.land / Z.lor / Z.lxor / Z.lnot of
   the (unbounded, two's-complement) integers themselves *)
Theorem bitops_are_two_complement : forall n a b, 0 < n -> in_range n a -> in_range n b ->
  iand n a b = Z.land a b /\ ior n a b = Z.lor a b /\ ixor n a b = Z.lxor a b /\
  ibnot n a = Z.lnot a /\
  in_range n (iand n a b) /\ in_range n (ior n a b) /\ in_range n (ixor n a b) /\
  in_range n (ibnot n a).
Proof.
  intros n a b Hn Ha Hb.
  assert (Hn0 : 0 <= n) by lia.
  assert (E1 : iand n a b = Z.land a b).
  { unfold iand. rewrite !unsigned_as_land by assumption. rewrite land_ones_idem.
    rewrite <- unsigned_as_land by assumption.
    apply signed_unsigned_id; [assumption|]. now apply land_in_range. }
  assert (E2 : ior n a b = Z.lor a b).
  { unfold ior. rewrite !unsigned_as_land by assumption. rewrite <- Z.land_lor_distr_l.
    rewrite <- unsigned_as_land by assumption.
    apply signed_unsigned_id; [assumption|]. now apply lor_in_range. }
  assert (E3 : ixor n a b = Z.lxor a b).
  { unfold ixor. rewrite !unsigned_as_land by assumption. rewrite <- land_lxor_distr_l.
    rewrite <- unsigned_as_land by assumption.
    apply signed_unsigned_id; [assumption|]. now apply lxor_in_range. }
  assert (Hnot : in_range n (Z.lnot a)).
  { unfold Z.lnot, in_range in *. lia. }
  assert (E4 : ibnot n a = Z.lnot a).
  { unfold ibnot.
    pose proof (unsigned_range n a Hn) as Hu. pose proof (modulus_pos n Hn0) as Hm.
    assert (U : modulus n - 1 - unsigned n a = unsigned n (Z.lnot a)).
    { unfold unsigned, Z.lnot.
      apply Z.mod_unique with (q := - (a / modulus n) - 1).
      - pose proof (Z.mod_pos_bound a (modulus n) Hm). lia.
      - pose proof (Z.div_mod a (modulus n) ltac:(lia)). lia. }
    rewrite U. now apply signed_unsigned_id. }
  rewrite E1, E2, E3, E4.
  split; [reflexivity|]. split; [reflexivity|]. split; [reflexivity|]. split; [reflexivity|].
  split; [now apply land_in_range|]. split; [now apply lor_in_range|].
  split; [now apply lxor_in_range|]. assumption.
Qed.

(* shifts with an in-range count *)
Theorem shift_in_range : forall n a k, 0 < n -> in_range n a -> shift_ok n k = true ->
  ishl n a k = wrap n (a * 2 ^ k) /\
  ishr n a k = a / 2 ^ k /\
  in_range n (ishl n a k) /\ in_range n (ishr n a k).
Proof.
  intros n a k Hn Ha Hk. unfold shift_ok in Hk.
  apply andb_true_iff in Hk. destruct Hk as [K1 K2].
  apply Z.leb_le in K1. apply Z.ltb_lt in K2.
  assert (Ek : shcount n k = k) by (unfold shcount; apply Z.mod_small; lia).
  assert (Hp : 0 < 2 ^ k) by (apply Z.pow_pos_nonneg; lia).
  assert (E1 : ishl n a k = wrap n (a * 2 ^ k)).
  { unfold ishl. rewrite Ek. rewrite Z.shiftl_mul_pow2 by lia.
    apply wrap_eq_of_congr; [assumption|].
    pose proof (modulus_pos n ltac:(lia)).
    unfold unsigned. rewrite Z.mul_mod_idemp_l by lia. reflexivity. }
  assert (E2 : ishr n a k = a / 2 ^ k).
  { unfold ishr. rewrite Ek. now rewrite Z.shiftr_div_pow2 by lia. }
  rewrite E1, E2.
  split; [reflexivity|]. split; [reflexivity|]. split; [now apply wrap_in_range|].
  unfold in_range in *. pose proof (half_pos n Hn).
  split.
  - apply Z.div_le_lower_bound; [lia|]. nia.
  - apply Z.div_lt_upper_bound; [lia|]. nia.
Qed.

(* int <-> long *)
Theorem conv_int_long_exact : forall a,
  (in_range 32 a -> in_range 64 (i2l a) /\ l2i (i2l a) = a) /\
  (in_range 32 (l2i a) /\ (l2i a) mod 2 ^ 32 = a mod 2 ^ 32) /\
  (in_range 32 a -> l2i a = a).
Proof.
  intros a. unfold i2l, l2i.
  assert (H32 : 0 < 32) by lia.
  split; [|split].
  - intro H. split.
    + unfold in_range, half in *. cbn in *. lia.
    + now apply wrap_id.
  - split; [now apply wrap_in_range | now apply (wrap_congr 32 a)].
  - intro. now apply wrap_id.
Qed.

Lemma idiv_not_sigfpe : forall n a b, idiv n a b <> ISigFpe.
Proof. intros. unfold idiv. destruct (b =? 0); [discriminate|]. destruct (b =? -1); discriminate. Qed.

Lemma imod_not_sigfpe : forall n a b, imod n a b <> ISigFpe.
Proof. intros. unfold imod. destruct (b =? 0); [discriminate|]. destruct (b =? -1); discriminate. Qed.
