(* Src/CompileCorrect4Prog.v — from the simulation of Src/CompileCorrect4.v to whole programs with nested
   functions: the layout facts `prog_ok` for the module image `rel_image p` over ALL functions of the image
   (Compile4.all_funcs: the top-level ones, then the nested ones breadth-first), the entry stub, and
   compile_program_correct_P.  No axioms. *)
From Coq Require Import ZArith List Bool Lia.
From NV Require Import Gen.Opcodes Verifier.Effect Src.Syntax Src.SyntaxDec Src.Eval Src.EvalLemmas
  VM.ValueVM4 Src.Compile4 Src.CompileCorrect4Base Src.CompileCorrect4Rel Src.CompileCorrect4Shape Src.CompileCorrect4.
Require NV.Src.CompileCorrect.
Import ListNotations.
Local Open Scope Z_scope.

Ltac inv H := inversion H; subst; clear H.

(* ---- bodies laid out one after the other ------------------------------------------------------- *)

Lemma addrs_from_nth : forall (bs : list (list rinstr)) a j b, nth_error bs j = Some b ->
  exists l r, concat bs = l ++ b ++ r /\ nth j (addrs_from a bs) 0%nat = (a + length l)%nat.
Proof.
  induction bs as [|b0 t IH]; intros a j b H; [destruct j; discriminate|].
  destruct j as [|j]; simpl in H |- *.
  - inv H. exists [], (concat t). simpl. split; [reflexivity | lia].
  - destruct (IH (a + length b0)%nat j b H) as (l & r & E & Ha).
    exists (b0 ++ l), r. rewrite E, app_length, <- app_assoc. split; [reflexivity | lia].
Qed.

Lemma addrs_from_ge : forall (bs : list (list rinstr)) a j b, nth_error bs j = Some b ->
  (a <= nth j (addrs_from a bs) 0)%nat.
Proof.
  intros bs a j b H. destruct (addrs_from_nth bs a j b H) as (l & r & _ & E). lia.
Qed.

Definition lsum (l : list nat) : nat := fold_right Nat.add 0%nat l.

Lemma hsearch_mid : forall pre b h post i cur,
  (forall e, In e pre -> (fst e <= i)%nat) -> (b <= i)%nat -> (forall e, In e post -> (i < fst e)%nat) ->
  hsearch (pre ++ (b, h) :: post) i cur = h.
Proof.
  induction pre as [|[b0 h0] pre IH]; intros b h post i cur Hpre Hb Hpost; simpl.
  - replace (Nat.leb b i) with true by (symmetry; apply Nat.leb_le; lia).
    destruct post as [|[b1 h1] post']; simpl; [reflexivity|].
    replace (Nat.leb b1 i) with false; [reflexivity|]. symmetry. apply Nat.leb_gt.
    apply (Hpost (b1, h1)). left. reflexivity.
  - replace (Nat.leb b0 i) with true by (symmetry; apply Nat.leb_le; apply (Hpre (b0, h0)); left; reflexivity).
    apply IH; auto. intros e He. apply Hpre. right. exact He.
Qed.

Lemma seg_entries_bounds : forall l a e, In e (seg_entries a l) -> (a <= fst e <= a + lsum l)%nat.
Proof.
  induction l as [|n t IH]; intros a e H; simpl in H; [contradiction|].
  destruct H as [<- | H]; simpl; [lia|]. apply IH in H. simpl. lia.
Qed.

Lemma func_tab_ge : forall ls a e, In e (func_tab a ls) -> (a <= fst e)%nat.
Proof.
  induction ls as [|l t IH]; intros a e H; simpl in H; [contradiction|].
  apply in_app_or in H. destruct H as [H | H].
  - apply seg_entries_bounds in H. lia.
  - apply IH in H. lia.
Qed.

Lemma seg_entries_app : forall n1 a n n2,
  seg_entries a (n1 ++ n :: n2) =
  seg_entries a n1 ++ (a + lsum n1, a + lsum n1 + n - 1)%nat :: seg_entries (a + lsum n1 + n) n2.
Proof.
  induction n1 as [|x t IH]; intros a n n2; simpl.
  - rewrite !Nat.add_0_r. reflexivity.
  - rewrite IH. f_equal. unfold lsum. simpl. f_equal. f_equal.
    + f_equal; lia.
    + f_equal; lia.
Qed.

Lemma hsearch_func_tab : forall (ls : list (list nat)) (bs : list (list rinstr)) K a cur prefix l b n1 n n2 i,
  Forall2 (fun l b => (lsum l + 1 = length b)%nat) ls bs ->
  nth_error ls K = Some l -> nth_error bs K = Some b -> l = n1 ++ n :: n2 ->
  (nth K (addrs_from a bs) 0 + lsum n1 <= i < nth K (addrs_from a bs) 0 + lsum n1 + n)%nat ->
  (forall e, In e prefix -> (fst e <= i)%nat) ->
  hsearch (prefix ++ func_tab a ls) i cur = (nth K (addrs_from a bs) 0 + lsum n1 + n - 1)%nat.
Proof.
  induction ls as [|l0 t IH]; intros bs K a cur prefix l b n1 n n2 i HF Hl Hb El Hi Hpre;
    [destruct K; discriminate|].
  inversion HF as [|l0' b0 t' bt Hh Ht]; subst.
  destruct K as [|K]; simpl in Hl, Hb, Hi |- *.
  - inv Hl. inv Hb. rewrite seg_entries_app, <- !app_assoc, app_assoc. cbn [app].
    apply hsearch_mid.
    + intros e He. apply in_app_or in He. destruct He as [He | He]; [apply Hpre; exact He|].
      apply seg_entries_bounds in He. lia.
    + lia.
    + intros e He. apply in_app_or in He. destruct He as [He | He].
      * apply seg_entries_bounds in He. lia.
      * apply func_tab_ge in He. unfold lsum in *. rewrite fold_right_app in He. simpl in He.
        assert (fold_right Nat.add (n + fold_right Nat.add 0 n2) n1 = fold_right Nat.add 0 n1 + n + fold_right Nat.add 0 n2)%nat.
        { clear. induction n1; simpl; lia. }
        lia.
  - pose proof (addrs_from_ge bt (a + length b0)%nat K b Hb) as Hge.
    rewrite app_assoc. rewrite <- Hh.
    replace (a + fold_right Nat.add 0 l0 + 1)%nat with (a + length b0)%nat by (unfold lsum in Hh; lia).
    rewrite Hh.
    apply (IH bt K (a + length b0)%nat cur (prefix ++ seg_entries a l0) _ b n1 n n2 i Ht Hl Hb eq_refl Hi).
    intros e He. apply in_app_or in He. destruct He as [He | He]; [apply Hpre; exact He|].
    apply seg_entries_bounds in He. lia.
Qed.

Lemma mem_id_nth : forall (l : list fdef) k fd, nth_error l k = Some fd ->
  mem_id (fd_name fd) (map fd_name l) = true.
Proof.
  induction l as [|g t IH]; intros k fd H; [destruct k; discriminate|].
  destruct k; simpl in H |- *.
  - inv H. rewrite N.eqb_refl. reflexivity.
  - rewrite (IH k fd H). apply orb_true_r.
Qed.

Lemma nodup_find : forall (l : list fdef), nodup_ids (map fd_name l) = true ->
  forall k fd, nth_error l k = Some fd -> find_func (fd_name fd) l = Some fd.
Proof.
  induction l as [|g t IH]; intros Hn k fd H; [destruct k; discriminate|].
  simpl in Hn. apply andb_true_iff in Hn. destruct Hn as [Hg Ht]. apply negb_true_iff in Hg.
  destruct k; simpl in H |- *.
  - inv H. rewrite N.eqb_refl. reflexivity.
  - destruct (N.eqb (fd_name fd) (fd_name g)) eqn:E.
    + apply N.eqb_eq in E. rewrite <- E, (mem_id_nth t k fd H) in Hg. discriminate.
    + apply IH with (k := k); assumption.
Qed.

Section Prog.
Variable p : program.
Variable args : list Z.
Hypothesis Hnd : nodup_ids (fnames p) = true.
Hypothesis Htop : forall k fd, nth_error (all_funcs p) k = Some (KTop, fd) -> In fd (p_funcs p).

Let X := prog_xinfo p args.
Let G := {| g_genv := global_env (p_funcs p) 0; g_funcs := p_funcs p; g_all := all_funcs p |}.
Let FT := fnames p.
Let TL := tnames p.
Let prog := rel_image p.

Lemma std_tab_len : length std_tab = nstd.
Proof. reflexivity. Qed.

Lemma rel_image_split : rel_image p = (prelude (length (p_funcs p)) ++ stub) ++ concat (bodies p).
Proof. unfold rel_image. now rewrite app_assoc. Qed.

Lemma head_len_eq : head_len p = length (prelude (length (p_funcs p)) ++ stub).
Proof. unfold head_len, code_entry. now rewrite app_length. Qed.

Lemma body_at : forall j b, nth_error (bodies p) j = Some b ->
  CompileCorrect4Base.code_at prog (nth j (ftable p) 0%nat) b.
Proof.
  intros j b H. unfold ftable.
  destruct (addrs_from_nth (bodies p) (head_len p) j b H) as (l & r & E & Ha).
  exists ((prelude (length (p_funcs p)) ++ stub) ++ l), r. unfold prog. rewrite rel_image_split, E.
  rewrite <- !app_assoc. split; [reflexivity|]. rewrite Ha, head_len_eq, !app_length. lia.
Qed.

Lemma body_nz : forall j b, nth_error (bodies p) j = Some b -> nth j (ftable p) 0%nat <> 0%nat.
Proof.
  intros j b H. unfold ftable. pose proof (addrs_from_ge (bodies p) (head_len p) j b H) as Hge.
  unfold head_len in *. change (length stub) with 10%nat in *. lia.
Qed.

Lemma bodies_user : forall k kf, nth_error (all_funcs p) k = Some kf ->
  nth_error (bodies p) (nstd + k) = Some (compile_func FT TL kf).
Proof.
  intros k kf H. unfold bodies. rewrite nth_error_app2 by (rewrite map_length, std_tab_len; lia).
  rewrite map_length, std_tab_len. replace (nstd + k - nstd)%nat with k by lia.
  rewrite nth_error_map, H. reflexivity.
Qed.

Lemma lsum_concat : forall (l : list (list rinstr)), lsum (map (@length rinstr) l) = length (concat l).
Proof. induction l as [|x t IH]; simpl; [reflexivity|]. rewrite app_length. unfold lsum in *. simpl. lia. Qed.

Lemma seglens_user : forall k kf, nth_error (all_funcs p) k = Some kf ->
  nth_error (seglens p) (nstd + k) = Some (map (@length rinstr) (fsegs FT TL kf)).
Proof.
  intros k kf H. unfold seglens. rewrite nth_error_app2 by (rewrite map_length, std_tab_len; lia).
  rewrite map_length, std_tab_len. replace (nstd + k - nstd)%nat with k by lia.
  rewrite nth_error_map, H. reflexivity.
Qed.

Lemma seglens_bodies : Forall2 (fun l b => (lsum l + 1 = length b)%nat) (seglens p) (bodies p).
Proof.
  unfold seglens, bodies. apply Forall2_app.
  - induction std_tab as [|e t IH]; simpl; constructor; [|exact IH].
    unfold lsum. simpl. unfold std_body. destruct (fst e) as [|[|?]]; simpl; lia.
  - assert (Hgen : forall (l : list (fkind * fdef)) FT0 TL0,
              Forall2 (fun l0 b => (lsum l0 + 1 = length b)%nat)
                      (map (fun kf => map (@length rinstr) (fsegs FT0 TL0 kf)) l) (map (compile_func FT0 TL0) l)).
    { intros l FT0 TL0. induction l as [|fd t IH]; cbn [map]; constructor; [|exact IH].
      rewrite lsum_concat. unfold compile_func. rewrite app_length. cbn [length]. reflexivity. }
    apply Hgen.
Qed.

(* the top-level functions come first *)
Lemma all_funcs_top : forall k fd, nth_error (p_funcs p) k = Some fd -> nth_error (all_funcs p) k = Some (KTop, fd).
Proof.
  intros k fd H. unfold all_funcs. cbn [levels].
  assert (Hm : nth_error (map (fun fd => (KTop, fd)) (p_funcs p)) k = Some (KTop, fd)) by (rewrite nth_error_map, H; reflexivity).
  destruct (map (fun fd0 : fdef => (KTop, fd0)) (p_funcs p)) as [|x t] eqn:E; [destruct k; discriminate Hm|].
  rewrite nth_error_app1; [exact Hm|]. apply nth_error_Some. congruence.
Qed.

Lemma fpos_nodup : forall (l : list ident) k x i, NoDup l -> nth_error l k = Some x ->
  fpos x l i = Some (i + Z.of_nat k).
Proof.
  induction l as [|y t IH]; intros k x i Hn H; destruct k; simpl in H; try discriminate.
  - inv H. simpl. rewrite N.eqb_refl. f_equal. lia.
  - inversion Hn as [|? ? Hy Hn']; subst. simpl.
    destruct (N.eqb_spec x y) as [->|]; [exfalso; apply Hy; eapply nth_error_In; eauto|].
    rewrite (IH k x (i + 1) Hn' H). f_equal. lia.
Qed.

Lemma fidx_named : forall kk kd fd, nth_error (all_funcs p) kk = Some (kd, fd) ->
  Compile4.fidx FT (fd_name fd) = Z.of_nat (nstd + kk).
Proof.
  intros kk kd fd H. unfold Compile4.fidx, FT, fnames.
  rewrite (fpos_nodup _ kk (fd_name fd) (Z.of_nat nstd)).
  - lia.
  - apply nodup_ids_NoDup. exact Hnd.
  - rewrite nth_error_map, H. reflexivity.
Qed.

Lemma fpos_ge : forall f (l : list ident) j r, fpos f l j = Some r -> j <= r.
Proof.
  intros f l. induction l as [|y t IH]; intros j r Hr; [discriminate|]. simpl in Hr.
  destruct (N.eqb f y); [inv Hr; lia | apply IH in Hr; lia].
Qed.

Lemma fpos_nth : forall (l : list fdef) f i k, fpos f (map fd_name l) i = Some (i + Z.of_nat k) ->
  exists fd, nth_error l k = Some fd /\ fd_name fd = f.
Proof.
  induction l as [|g t IH]; intros f i k H; [discriminate|]. simpl in H.
  destruct (N.eqb_spec f (fd_name g)) as [->|Hne].
  - inv H. assert (k = 0%nat) by lia. subst. exists g. auto.
  - destruct k as [|k].
    + exfalso. apply fpos_ge in H. lia.
    + destruct (IH f (i + 1) k) as (fd & A & B); [rewrite H; f_equal; lia|]. exists fd. auto.
Qed.

Lemma nodup_ids_app_l : forall l1 l2, nodup_ids (l1 ++ l2) = true -> nodup_ids l1 = true.
Proof.
  induction l1 as [|x t IH]; intros l2 H; [reflexivity|]. simpl in H |- *.
  apply andb_true_iff in H. destruct H as [H1 H2]. apply andb_true_iff. split; [|eapply IH; eauto].
  apply negb_true_iff in H1. apply negb_true_iff. rewrite mem_id_app' in H1. apply orb_false_iff in H1. tauto.
Qed.

Lemma top_nodup : nodup_ids (map fd_name (p_funcs p)) = true.
Proof.
  unfold fnames, all_funcs in Hnd. cbn [levels] in Hnd.
  destruct (p_funcs p) as [|f0 t] eqn:E; [reflexivity|]. rewrite <- E in *.
  destruct (map (fun fd : fdef => (KTop, fd)) (p_funcs p)) as [|x l] eqn:Em; [rewrite E in Em; discriminate Em|].
  rewrite <- Em in Hnd. rewrite map_app, map_map in Hnd. cbn [snd] in Hnd.
  eapply nodup_ids_app_l. exact Hnd.
Qed.

Lemma prog_ok_image : prog_ok X G prog.
Proof.
  constructor.
  - unfold faddr. apply (body_at 13). reflexivity.
  - intros k fd H. apply all_funcs_top. exact H.
  - intros k fd H. destruct (In_nth_error _ _ (Htop k fd H)) as (k' & Hk').
    pose proof (fidx_named k KTop fd H) as E1. pose proof (fidx_named k' KTop fd (all_funcs_top k' fd Hk')) as E2.
    rewrite E1 in E2. assert (k = k') by lia. subst k'. exact Hk'.
  - intros k fd H. apply (nodup_find (p_funcs p) top_nodup k fd H).
  - intros f kidx fd H Hp. destruct (fpos_nth _ _ _ _ Hp) as (fd' & A & B). cbn [G g_funcs] in H, A.
    assert (fd' = fd) by congruence. subst fd'. rewrite <- B.
    apply (fidx_named kidx KTop fd). apply all_funcs_top. exact H.
  - intros kk kd fd H. apply (fidx_named kk kd fd H).
  - unfold faddr. cbn [X prog_xinfo x_ftab]. apply (body_nz 13 (std_body (1%nat, lib_math_print))). reflexivity.
  - intros k kf H. unfold faddr. cbn [X prog_xinfo x_ftab]. eapply body_nz. apply bodies_user. exact H.
  - intros k kf H. unfold faddr. apply body_at. apply bodies_user. exact H.
  - intros k kf pre seg post i H Hs Hi. unfold faddr in *. cbn [X prog_xinfo x_tab x_ftab] in *.
    unfold exc_table, ftable in *.
    change ((0%nat, (code_entry p + 8)%nat) :: func_tab (head_len p) (seglens p))
      with ([(0%nat, (code_entry p + 8)%nat)] ++ func_tab (head_len p) (seglens p)).
    rewrite <- (lsum_concat pre) in *.
    apply (hsearch_func_tab (seglens p) (bodies p) (nstd + k) (head_len p) 0%nat _
             (map (@length rinstr) (fsegs FT TL kf)) (compile_func FT TL kf)
             (map (@length rinstr) pre) (length seg) (map (@length rinstr) post) i
             seglens_bodies (seglens_user k kf H) (bodies_user k kf H)).
    + transitivity (map (@length rinstr) (pre ++ seg :: post)); [f_equal; exact Hs | rewrite map_app; reflexivity].
    + exact Hi.
    + intros e [<- | []]. simpl. lia.
Qed.

End Prog.

(* ---- lists ---------------------------------------------------------------------------------------- *)

Lemma nth_error_rev : forall A (l : list A) i, (i < length l)%nat ->
  nth_error (rev l) i = nth_error l (length l - 1 - i).
Proof.
  intros A l i H. destruct l as [|d l']; [simpl in H; lia|]. set (l := d :: l') in *.
  rewrite (nth_error_nth' (rev l) d) by (rewrite rev_length; exact H).
  rewrite (nth_error_nth' l d) by lia. f_equal. rewrite rev_nth by exact H. f_equal. lia.
Qed.

Lemma nth_error_rev_seq : forall n i a, nth_error (rev (seq 0 n)) i = Some a ->
  (i < n)%nat /\ a = (n - 1 - i)%nat.
Proof.
  intros n i a H. assert (Hi : (i < n)%nat).
  { rewrite <- (seq_length n 0), <- rev_length. apply nth_error_Some. congruence. }
  split; [exact Hi|]. rewrite nth_error_rev in H by (rewrite seq_length; exact Hi).
  rewrite seq_length in H. apply CompileCorrect.nth_error_seq_inv in H. lia.
Qed.

Lemma nth_error_rev_seq_some : forall n i, (i < n)%nat ->
  nth_error (rev (seq 0 n)) i = Some (n - 1 - i)%nat.
Proof.
  intros n i Hi. rewrite nth_error_rev by (rewrite seq_length; exact Hi). rewrite seq_length.
  rewrite CompileCorrect.nth_error_seq by lia. reflexivity.
Qed.

Lemma Forall2_pointwise : forall A B (P : A -> B -> Prop) (l1 : list A) (l2 : list B),
  length l1 = length l2 ->
  (forall i x y, nth_error l1 i = Some x -> nth_error l2 i = Some y -> P x y) ->
  Forall2 P l1 l2.
Proof.
  induction l1 as [|x t IH]; intros l2 Hl H; destruct l2 as [|y t2]; try discriminate Hl; constructor.
  - apply (H 0%nat); reflexivity.
  - apply IH; [simpl in Hl; lia|]. intros i a b Ha Hb. apply (H (S i)); assumption.
Qed.

(* ---- the names of the top-level functions ------------------------------------------------------- *)

Lemma find_func_pos : forall f (l : list fdef) fd, find_func f l = Some fd ->
  exists j, nth_error l j = Some fd /\
    (forall i, lookup f (global_env l i) = Some (i + j)%nat) /\
    (forall i, fpos f (map fd_name l) i = Some (i + Z.of_nat j)).
Proof.
  induction l as [|g t IH]; intros fd H; [discriminate|]. simpl in H |- *.
  destruct (N.eqb f (fd_name g)) eqn:E.
  - inv H. exists 0%nat. repeat split; auto; intros i; f_equal; lia.
  - destruct (IH fd H) as (j & H1 & H2 & H3). exists (S j). repeat split; auto.
    + intros i. rewrite H2. f_equal. lia.
    + intros i. rewrite H3. f_equal. lia.
Qed.

Lemma mem_find_func : forall f (l : list fdef), mem_id f (map fd_name l) = true ->
  exists fd, find_func f l = Some fd.
Proof.
  induction l as [|g t IH]; intros H; [discriminate|]. simpl in H |- *.
  destruct (N.eqb f (fd_name g)); eauto.
Qed.

(* ---- single steps of the entry stub ---------------------------------------------------------------- *)

Lemma step_push_param : forall X prog ip stk h o fr,
  nth_error prog ip = Some (ins0 BYTECODE_PUSH_PARAM) ->
  step X prog (mkst ip stk h o fr) =
  SNext (mkst (S ip) (rev (seq (length h) (length (x_args X))) ++ stk)
              (h ++ rev (map (fun z => HInt (wrap32 z)) (x_args X))) o fr).
Proof. intros. unfold step. simpl. rewrite H. reflexivity. Qed.

Lemma step_id_func_entry : forall X prog ip v stk h o fr,
  nth_error prog ip = Some (ins0 BYTECODE_ID_FUNC_ENTRY) ->
  step X prog (mkst ip (v :: stk) h o fr) =
  SNext (mkst (S ip) (length h :: stk) (h ++ [HFun v (x_entry X)]) o fr).
Proof. intros. unfold step. simpl. rewrite H. reflexivity. Qed.

Lemma step_halt : forall X prog ip a stk h o fr,
  nth_error prog ip = Some (ins0 BYTECODE_HALT) ->
  step X prog (mkst ip (a :: stk) h o fr) = SRet a (mkst ip (a :: stk) h o fr).
Proof. intros. unfold step. simpl. rewrite H. reflexivity. Qed.

Lemma step_unhandled : forall X prog ip stk h o fp g e fs,
  nth_error prog ip = Some (ins0 BYTECODE_UNHANDLED_EXCEPTION) ->
  step X prog (mkst ip stk h o {| r_fp := fp; r_gp := g; r_exc := Some e; r_frames := fs |}) =
  SExc e (mkst ip stk h o {| r_fp := fp; r_gp := g; r_exc := Some e; r_frames := fs |}).
Proof. intros. unfold step. simpl. rewrite H. reflexivity. Qed.

(* ---- the state of both sides when the entry function is entered ------------------------------------ *)

Definition entry_morph (funcs : list fdef) (n : nat) : morph :=
  {| mm := map MF funcs ++ map MA (rev (seq 0 n)); mv := []; mf := []; mc := []; mi := []; mar := []; mrc := [] |}.

Lemma entry_morph_ma : forall funcs n c a, mget (entry_morph funcs n) c = Some (MA a) ->
  exists i, c = (length funcs + i)%nat /\ (i < n)%nat /\ a = (n - 1 - i)%nat.
Proof.
  intros funcs n c a H. unfold mget, entry_morph in H. cbn [mm] in H.
  destruct (Nat.lt_ge_cases c (length funcs)) as [Hlt | Hge].
  - rewrite nth_error_app1 in H by (rewrite map_length; exact Hlt).
    rewrite nth_error_map in H. destruct (nth_error funcs c); discriminate.
  - rewrite nth_error_app2 in H by (rewrite map_length; exact Hge). rewrite map_length, nth_error_map in H.
    destruct (nth_error (rev (seq 0 n)) (c - length funcs)) as [x|] eqn:E; [|discriminate].
    inv H. apply nth_error_rev_seq in E. exists (c - length funcs)%nat. lia.
Qed.

Lemma entry_morph_mf : forall funcs n c fd, mget (entry_morph funcs n) c = Some (MF fd) ->
  nth_error funcs c = Some fd.
Proof.
  intros funcs n c fd H. unfold mget, entry_morph in H. cbn [mm] in H.
  destruct (Nat.lt_ge_cases c (length funcs)) as [Hlt | Hge].
  - rewrite nth_error_app1 in H by (rewrite map_length; exact Hlt).
    rewrite nth_error_map in H. destruct (nth_error funcs c); inv H. reflexivity.
  - rewrite nth_error_app2 in H by (rewrite map_length; exact Hge). rewrite nth_error_map in H.
    destruct (nth_error (rev (seq 0 n)) (c - length (map MF funcs))); discriminate.
Qed.

Lemma entry_MS : forall AF ftab TL FS cp rc funcs args l,
  MS AF ftab TL FS cp rc (entry_morph funcs (length args))
     {| cells := map (fun f => CFun f []) funcs ++ map (fun z => CInt (wrap32 z)) args;
        arrs := []; recs := []; out := [] |}
     (rev (map (fun z => HInt (wrap32 z)) args) ++ l).
Proof.
  intros AF ftab TL FS cp rc funcs args l. set (n := length args). constructor; cbn [cells].
  - unfold entry_morph. cbn [mm]. rewrite !app_length, !map_length, rev_length, seq_length. reflexivity.
  - intros c a H. apply entry_morph_ma in H. destruct H as (i & -> & Hi & ->).
    destruct (nth_error args i) as [z|] eqn:E; [|apply nth_error_None in E; unfold n in Hi; lia].
    exists (CInt (wrap32 z)), (HInt (wrap32 z)). split; [|split; [|split; [reflexivity | intros fd cenv E0; discriminate E0]]].
    + rewrite nth_error_app2 by (rewrite map_length; lia). rewrite map_length.
      replace (length funcs + i - length funcs)%nat with i by lia. rewrite nth_error_map, E. reflexivity.
    + rewrite nth_error_app1 by (rewrite rev_length, map_length; fold n; lia).
      rewrite nth_error_rev by (rewrite map_length; fold n; lia). rewrite map_length. fold n.
      replace (n - 1 - (n - 1 - i))%nat with i by lia. rewrite nth_error_map, E. reflexivity.
  - intros c1 c2 a H1 H2. apply entry_morph_ma in H1, H2.
    destruct H1 as (i1 & -> & ? & ?), H2 as (i2 & -> & ? & ?). lia.
  - intros c fd H. apply entry_morph_mf in H.
    rewrite nth_error_app1 by (rewrite map_length; apply nth_error_Some; congruence).
    rewrite nth_error_map, H. reflexivity.
  - intros v l0 [].
  - intros c fd cenv [].
  - intros c fd cenv k [].
  - intros a c [].
  - reflexivity.
  - intros c [].
  - intros ar l0 [].
  - intros ar elems Hn. destruct ar; discriminate Hn.
  - reflexivity.
  - intros r l0 [].
  - intros r flds Hn. destruct r; discriminate Hn.
  - reflexivity.
  - intros _ c Hc. destruct (Nat.lt_ge_cases c (length funcs)) as [Hlt | Hge].
    + rewrite nth_error_app1 in Hc by (rewrite map_length; exact Hlt). rewrite nth_error_map in Hc.
      destruct (nth_error funcs c); discriminate Hc.
    + rewrite nth_error_app2 in Hc by (rewrite map_length; exact Hge). rewrite nth_error_map in Hc.
      destruct (nth_error args (c - length (map (fun f => CFun f []) funcs))); discriminate Hc.
Qed.

(* ---- compile_program_correct_P ------------------------------------------------------------ *)

Section Main.
Variable p : program.
Variable args : list Z.
Variable lv : nat.
Hypothesis HP : prog_in_P lv p = true.

Let X := prog_xinfo p args.
Let G := {| g_genv := global_env (p_funcs p) 0; g_funcs := p_funcs p; g_all := all_funcs p |}.
Let prog := rel_image p.
Let n := length args.
Let nf := length (p_funcs p).
Let ce := code_entry p.
Let glob := repeat 0%nat (nstd + nf).

Lemma HP_parts :
  forallb (func_in_P (prog_sigs p) (tnames p) (all_funcs p) lv) (all_funcs p) = true /\
  forallb (fun kf => match fst kf with
                     | KTop => true
                     | _ => negb (is_fname (prog_sigs p) (fd_name (snd kf))) &&
                            forallb (fun x => negb (is_fname (prog_sigs p) x)) (fvs_fd (tnames p) (snd kf))
                     end) (all_funcs p) = true /\
  nodup_ids (fnames p) = true /\ mem_id (p_main p) (tnames p) = true /\
  (forall k fd, nth_error (all_funcs p) k = Some (KTop, fd) -> In fd (p_funcs p)).
Proof.
  unfold prog_in_P in HP. apply andb_true_iff in HP. destruct HP as [H H5]. apply andb_true_iff in H. destruct H as [H H4].
  apply andb_true_iff in H. destruct H as [H H3]. apply andb_true_iff in H. destruct H as [H1 H2].
  repeat split; auto. intros k fd Hk. rewrite forallb_forall in H5. specialize (H5 _ (nth_error_In _ _ Hk)).
  cbn [fst snd] in H5. destruct (in_dec SyntaxDec.fdef_eq_dec fd (p_funcs p)); [assumption | discriminate].
Qed.

Lemma funcs_okP : forall kidx kf, nth_error (g_all G) kidx = Some kf ->
  func_in_P (g_sigs G) (g_tl G) (g_all G) lv kf = true /\
  (fst kf <> KTop -> is_fname (g_sigs G) (fd_name (snd kf)) = false /\
                     forallb (fun x => negb (is_fname (g_sigs G) x)) (fvs_fd (g_tl G) (snd kf)) = true).
Proof.
  intros kidx kf H. destruct HP_parts as (H1 & H2 & _ & _ & _). apply nth_error_In in H. cbn [G g_all] in H.
  rewrite forallb_forall in H1, H2. split; [exact (H1 kf H)|].
  intros Hk. specialize (H2 kf H). destruct (fst kf); [congruence | |];
    apply andb_true_iff in H2; destruct H2 as [A B]; apply negb_true_iff in A; auto.
Qed.

Lemma stub_at : CompileCorrect4Base.code_at prog ce stub.
Proof.
  exists (prelude (length (p_funcs p))), (concat (bodies p)). split; reflexivity.
Qed.

Lemma stub_handler : hsearch (x_tab X) (ce + 5) 0 = (ce + 8)%nat.
Proof.
  cbn [X prog_xinfo x_tab]. unfold exc_table. fold ce.
  apply (hsearch_mid [] 0%nat (ce + 8)%nat (func_tab (head_len p) (seglens p)) (ce + 5)%nat 0%nat).
  - intros e [].
  - lia.
  - intros e He. apply func_tab_ge in He. unfold head_len in He. change (length stub) with 10%nat in He.
    fold ce in He. lia.
Qed.

Theorem compile_program_correct_P : forall fuel,
  match run_program fuel p args with
  | OResult v printed => is_intv v = true -> exists k z, run_vm p k args = VRet z printed /\ val_rel v z
  | OUnhandled ex printed => exists k, run_vm p k args = VExc ex printed
  | OFuel | OStuck => True
  end.
Proof.
  intros fuel. unfold run_program.
  rewrite CompileCorrect.alloc_args. unfold init_state. cbn [cells arrs recs out app].
  rewrite map_length. fold nf. fold n.
  set (st1 := {| cells := map (fun f => CFun f []) (p_funcs p) ++ map (fun z => CInt (wrap32 z)) args;
                 arrs := []; recs := []; out := [] |}).
  destruct HP_parts as (_ & _ & Hnd & Hmain & Htop).
  destruct (mem_find_func _ _ Hmain) as (fd & Hfind).
  destruct (find_func_pos _ _ _ Hfind) as (kidx & Hk & Hlook & Hpos).
  rewrite Hlook. cbn [Nat.add].
  assert (Hcell : get_cell st1 kidx = Some (CFun fd [])).
  { unfold get_cell, st1. cbn [cells]. rewrite nth_error_app1 by (rewrite map_length; apply nth_error_Some; congruence).
    rewrite nth_error_map, Hk. reflexivity. }
  rewrite Hcell.
  destruct (bind_params (fd_params fd) (seq nf n)) as [penv|] eqn:Hb; [|exact I].
  set (genv := global_env (p_funcs p) 0).
  change (match eval_items genv fuel penv st1 (fd_body fd) None with
          | (RExc ex, st2) => handlers genv fuel penv st2 ex (fd_catches fd) (fd_catch_all fd)
          | r => r end) with (call_body genv fuel penv st1 fd).
  destruct (call_body genv fuel penv st1 fd) as [r st2] eqn:He.
  (* the VM: the entry stub up to the CALL *)
  pose proof stub_at as Hst. unfold stub in Hst.
  pose proof (CompileCorrect4Base.code_at_head _ _ _ _ Hst) as S0.
  pose proof (CompileCorrect4Base.code_at_tail _ _ _ _ Hst) as T1.
  pose proof (CompileCorrect4Base.code_at_head _ _ _ _ T1) as S1.
  pose proof (CompileCorrect4Base.code_at_tail _ _ _ _ T1) as T2.
  pose proof (CompileCorrect4Base.code_at_head _ _ _ _ T2) as S2.
  pose proof (CompileCorrect4Base.code_at_tail _ _ _ _ T2) as T3.
  pose proof (CompileCorrect4Base.code_at_head _ _ _ _ T3) as S3.
  pose proof (CompileCorrect4Base.code_at_tail _ _ _ _ T3) as T4.
  pose proof (CompileCorrect4Base.code_at_head _ _ _ _ T4) as S4.
  pose proof (CompileCorrect4Base.code_at_tail _ _ _ _ T4) as T5.
  pose proof (CompileCorrect4Base.code_at_head _ _ _ _ T5) as S5.
  pose proof (CompileCorrect4Base.code_at_tail _ _ _ _ T5) as T6.
  pose proof (CompileCorrect4Base.code_at_head _ _ _ _ T6) as S6.
  pose proof (CompileCorrect4Base.code_at_tail _ _ _ _ T6) as T7.
  pose proof (CompileCorrect4Base.code_at_head _ _ _ _ T7) as S7.
  pose proof (CompileCorrect4Base.code_at_tail _ _ _ _ T7) as T8.
  pose proof (CompileCorrect4Base.code_at_head _ _ _ _ T8) as S8.
  pose proof (CompileCorrect4Base.code_at_head _ _ _ _ (CompileCorrect4Base.code_at_tail _ _ _ _ T8)) as S9.
  set (retL := S (S (S (S (S (S ce)))))).
  set (astk := rev (seq 0 n)).
  set (h0 := rev (map (fun z => HInt (wrap32 z)) args)).
  set (h' := (h0 ++ [HVec []]) ++ [HFun (length h0) (main_addr p)]).
  set (F := {| f_ret := retL; f_fp := 0; f_gp := 0; f_below := glob; f_exc := None |}).
  set (frc := {| r_fp := 0; r_gp := length h0; r_exc := None; r_frames := [F] |}).
  pose proof (prog_ok_image p args Hnd Htop) as Hpo. fold X G prog in Hpo.
  pose proof (po_top _ _ _ Hpo kidx fd Hk) as Hkall.
  assert (Hmaddr : main_addr p = faddr X (nstd + kidx)).
  { pose proof (po_fidx _ _ _ Hpo (p_main p) kidx fd Hk (Hpos 0)) as Hx. unfold Compile4.fidx in Hx.
    cbn [G g_all] in Hx. fold (fnames p) in Hx.
    unfold main_addr, faddr. cbn [X prog_xinfo x_ftab].
    destruct (fpos (p_main p) (fnames p) (Z.of_nat nstd)) as [i|] eqn:E.
    - rewrite Hx, Nat2Z.id. reflexivity.
    - exfalso. unfold nstd in Hx. lia. }
  assert (Hnz : main_addr p <> 0%nat) by (rewrite Hmaddr; apply (po_nz _ _ _ Hpo _ _ Hkall)).
  assert (Hboot : star X prog (boot_state ce (nstd + nf)) (mkst (main_addr p) astk h' [] frc)).
  { unfold boot_state. fold glob.
    eapply star_step; [apply (CompileCorrect4.step_label X fr0); exact S0|].
    eapply star_step; [apply (CompileCorrect4.step_mark X fr0 prog (S ce) glob [] [] 5 0 retL S1); unfold retL; lia|].
    cbn [r_fp r_gp fr0]. set (fr1 := set_fp fr0 (length glob + 5)).
    eapply star_step; [apply step_push_param; exact S2|].
    cbn [X prog_xinfo x_args length app]. fold n. fold astk. fold h0.
    eapply star_step; [apply (CompileCorrect4.step_global_vec0 X fr1); exact S3|].
    eapply star_step; [apply step_id_func_entry; exact S4|].
    cbn [X prog_xinfo x_entry]. fold h'.
    apply star_one.
    rewrite (CompileCorrect4.step_call_frame X fr1 prog (S (S (S (S (S ce))))) (length (h0 ++ [HVec []])) astk retL
               0%nat 0%nat 0%nat 0%nat glob h' [] (length h0) (main_addr p) S5); [reflexivity | | exact Hnz | reflexivity].
    unfold h'. rewrite nth_error_app2, Nat.sub_diag by lia. reflexivity. }
  (* the simulation of the body *)
  pose proof (CompileCorrect4.body_all X G lv funcs_okP fuel) as Hbody.
  assert (HMS : MS (g_all G) (x_ftab X) (g_tl G) (g_sigs G) (Nat.leb 6 lv) (Nat.leb 8 lv) (entry_morph (p_funcs p) n) st1 h').
  { unfold h', h0. rewrite <- app_assoc. apply entry_MS. }
  assert (HF2 : Forall2 (fun c a => vrel (entry_morph (p_funcs p) n) c a) (seq nf n) astk).
  { apply Forall2_pointwise; [unfold astk; rewrite rev_length, !seq_length; reflexivity|].
    intros i x y Hx Hy. apply CompileCorrect.nth_error_seq_inv in Hx. destruct Hx as [Hi ->].
    unfold astk in Hy. apply nth_error_rev_seq in Hy. destruct Hy as [_ ->].
    left. unfold mget, entry_morph. cbn [mm]. rewrite nth_error_app2 by (rewrite map_length; fold nf; lia).
    rewrite map_length. fold nf. replace (nf + i - nf)%nat with i by lia.
    rewrite nth_error_map, nth_error_rev_seq_some by exact Hi. reflexivity. }
  assert (Hg : genv_ok G (entry_morph (p_funcs p) n)).
  { intros f gd Hgd. destruct (find_func_pos _ _ _ Hgd) as (j & Hj & Hl & _).
    exists j. split; [cbn [G g_genv]; rewrite Hl; reflexivity|].
    unfold mget, entry_morph. cbn [mm].
    rewrite nth_error_app1 by (rewrite map_length; apply nth_error_Some; cbn [G g_funcs] in Hj; congruence).
    rewrite nth_error_map. cbn [G g_funcs] in Hj. rewrite Hj. reflexivity. }
  assert (He0 : call_body genv fuel (penv ++ []) st1 fd = (r, st2)) by (rewrite app_nil_r; exact He).
  pose proof (Hbody kidx KTop fd Hkall [] (length h0) [] (seq nf n) penv st1 r st2 Hb He0 prog astk h' []
                (entry_morph (p_funcs p) n) None F [] Hpo HMS eq_refl HF2 Hg (conj eq_refl eq_refl)) as Hrun.
  rewrite <- Hmaddr in Hrun. fold frc in Hrun. unfold act_done in Hrun. cbn [F f_ret f_fp f_gp f_below f_exc] in Hrun.
  destruct r as [c|ex| |]; try exact I.
  - destruct Hrun as (h2 & o2 & m2 & a & Hst2 & Hm2 & HMS2 & _ & Ho2).
    destruct (vrel_kind _ _ _ _ _ _ _ _ _ _ _ HMS2 Hm2) as (v & Hcv & _).
    unfold get_cell. rewrite Hcv. intros Hiv.
    destruct (vrel_intv _ _ _ _ _ _ _ _ _ _ _ v HMS2 Hm2 Hcv ltac:(destruct v; try discriminate Hiv; exact I)) as (z & Hhz & Hvz).
    assert (Hfin : run X prog 2 (mkst retL (a :: glob) h2 o2 {| r_fp := 0; r_gp := 0; r_exc := None; r_frames := [] |})
                   = VRet z (rev (out st2))).
    { cbn [run]. rewrite (CompileCorrect4.step_label X _ prog retL (a :: glob) h2 o2 S6).
      rewrite (step_halt X prog (S retL) a glob h2 o2 _ S7). cbn [v_heap v_out mkst]. unfold hint. rewrite Hhz, Ho2. reflexivity. }
    destruct (run_star X prog _ _ (star_trans X prog _ _ _ Hboot Hst2) 2%nat _ Hfin) as (k' & Hk'); [discriminate|].
    exists k', z. split; [exact Hk' | exact Hvz].
  - destruct Hrun as (_ & h2 & t & m2 & Hst2 & _ & _).
    assert (Epred : Nat.pred retL = (ce + 5)%nat) by (unfold retL; cbn [Nat.pred]; lia).
    rewrite Epred, stub_handler in Hst2.
    assert (Hfin : run X prog 2 (mkst (ce + 8) (t :: glob) h2 (out st2)
                                      {| r_fp := 0; r_gp := 0; r_exc := Some ex; r_frames := [] |})
                   = VExc ex (rev (out st2))).
    { cbn [run]. replace (ce + 8)%nat with (S (S retL)) by (unfold retL; lia).
      rewrite (CompileCorrect4.step_label X _ prog (S (S retL)) (t :: glob) h2 (out st2) S8).
      rewrite (step_unhandled X prog (S (S (S retL))) (t :: glob) h2 (out st2) 0 0 ex [] S9). reflexivity. }
    destruct (run_star X prog _ _ (star_trans X prog _ _ _ Hboot Hst2) 2%nat _ Hfin) as (k' & Hk'); [discriminate|].
    exists k'. exact Hk'.
Qed.

End Main.

(* level 8: level 7 + records with int fields (construction, nil, field read, field assignment; nil_pointer) *)
Theorem compile_program_correct_P8 : forall p args, prog_in_P 8 p = true -> forall fuel,
  match run_program fuel p args with
  | OResult v printed => is_intv v = true -> exists k z, run_vm p k args = VRet z printed /\ val_rel v z
  | OUnhandled ex printed => exists k, run_vm p k args = VExc ex printed
  | OFuel | OStuck => True
  end.
Proof. intros p args H fuel. exact (compile_program_correct_P p args 8 H fuel). Qed.

(* level 7: level 6 + one-dimensional int arrays *)
Theorem compile_program_correct_P7 : forall p args, prog_in_P 7 p = true -> forall fuel,
  match run_program fuel p args with
  | OResult v printed => is_intv v = true -> exists k z, run_vm p k args = VRet z printed /\ val_rel v z
  | OUnhandled ex printed => exists k, run_vm p k args = VExc ex printed
  | OFuel | OStuck => True
  end.
Proof. intros p args H fuel. exact (compile_program_correct_P p args 7 H fuel). Qed.

(* the two levels of the closure fragment: 5 — no function object is used by copy, assignments to names in scope;
   6 — the name of a top-level function / of the running named nested function may be used as a VALUE (the
   machine makes a copy of the function object), assignment only to names bound by var x = <int_shaped>
   (Compile4.int_vars) *)
Theorem compile_program_correct_P56 : forall p args, prog_in_P 5 p || prog_in_P 6 p = true -> forall fuel,
  match run_program fuel p args with
  | OResult v printed => is_intv v = true -> exists k z, run_vm p k args = VRet z printed /\ val_rel v z
  | OUnhandled ex printed => exists k, run_vm p k args = VExc ex printed
  | OFuel | OStuck => True
  end.
Proof.
  intros p args H fuel. apply orb_true_iff in H.
  destruct H as [H | H]; [exact (compile_program_correct_P p args 5 H fuel) | exact (compile_program_correct_P p args 6 H fuel)].
Qed.
