"""C04 — an object the program can still reach is never reclaimed or altered by a collection;
consequently result, printed text and exceptions are identical for every heap size and every
placement of collections for which the program does not run out of memory.

Proof side: coq/Properties/Properties_C04.v (ctx.proofs()): collect_preserves_reachable,
run_preserves_reachable, deep_read_invariant(_run), collect_idempotent (GC/GCPreserve.v, on top of
the C09 development) and gc_schedule_transparent / gc_never_always_threshold /
run_never_collfail (GC/GCTransparent.v) — all about the collector model GC/GCModel.v.  The
model <-> back/gc.c tie is engine E1's (checks/c09.py: op histories, gcdrive); a small slice of it
is re-run here when c09 exposes its worker.

Search / tie on the real VM (the property's own oracle, needs no model): harness/vm/gcsched.c
(ASan+UBSan build with the hooks) runs a program under a forced collection schedule
(every safe point | the collector's 0.8 threshold | never | seeded random subsets) and heap size
and prints a canonical outcome (result type + value bits, captured printed text, unhandled
exception, exit path); around every collection it walks the real heap from the program's real
roots (ADDR slots of stack[0..sp], gp, the saved gp of every frame on the fp chain) and checks
that every reachable cell still holds an object, is not on the free chain, carries no mark, and
that the walk reads the same cells/kinds/payloads/references as just before the collection
(AUDIT-FAIL otherwise).  Outcomes must agree across all schedules and heap sizes (from about the
program's need — smallest heap in which `every` completes, found by stepping up from the measured
peak, cached — to the default 5000, plus `never` in a 200000-cell heap) whenever the run does
not report out of memory.

  AUDIT-FAIL, an outcome difference, or a sanitizer report / signal / assertion that is not
  reproduced identically by the collection-free run  ->  ctx.violation (key = program id + kind).
"""
LEVEL = "proof"

import hashlib
import importlib
import importlib.util
import json
import multiprocessing
import os
import re
import shutil
import time

from lib import common

NPROC = 16
CORPUS = os.path.join(common.VERIF, "corpus", "C04")
NEED_CACHE = os.path.join(common.VERIF, ".cache", "c04_need.json")
ASAN_ENV = "detect_leaks=0:abort_on_error=0:exitcode=99:allocator_may_return_null=1:handle_abort=1"
UBSAN_ENV = "print_stacktrace=0:halt_on_error=1"
BIG = 200000          # heap for the collection-free run
DEFAULT_MEM = 5000


def sample_dir():
    return os.path.join(common.REPO, "sample")


def drv_env():
    env = dict(os.environ)
    sd = sample_dir()
    env["NEVER_PATH"] = os.path.join(sd, "lib") + ":" + sd
    env["ASAN_OPTIONS"] = ASAN_ENV
    env["UBSAN_OPTIONS"] = UBSAN_ENV
    return env


# ------------------------------------------------------------------------------------------
# one run -> canonical outcome
# ------------------------------------------------------------------------------------------
SAN_RE = re.compile(r"ERROR: (AddressSanitizer|LeakSanitizer|UndefinedBehaviorSanitizer): ?([A-Za-z-]+)?")
STAT_RE = re.compile(r"(\w+)=(-?\d+)")
DROP_LINE = re.compile(r"^\t(gp|mem_size): ")   # the machine: dump of VM_ERROR prints a raw address and the heap size


def canon_text(hexs):
    try:
        t = bytes.fromhex(hexs).decode("latin-1")
    except ValueError:
        return "<bad hex>" + hexs[:40]
    return "\n".join(l for l in t.split("\n") if not DROP_LINE.match(l))


def classify_crash(rc, err):
    m = SAN_RE.search(err)
    if m:
        return "%s:%s" % ({"AddressSanitizer": "asan", "LeakSanitizer": "lsan",
                           "UndefinedBehaviorSanitizer": "ubsan"}[m.group(1)], m.group(2) or "?")
    if "runtime error:" in err:
        m2 = re.search(r"runtime error: ([a-z -]{3,40})", err)
        return "ubsan:" + (m2.group(1).strip().replace(" ", "-") if m2 else "?")
    if "Assertion" in err and "failed" in err:
        m3 = re.search(r"Assertion `(.{0,60})", err)
        return "assert:" + (m3.group(1) if m3 else "?")
    if rc < 0 and rc != -9:
        return "signal:%d" % (-rc)
    return None


def run_cfg(drv, path, sched, mem, timeout, max_steps):
    """-> dict(kind, outcome, stats, audit, cmd, stderr)
    kind: ok | oom | nocompile | noprepare | budget | timeout | crash"""
    cmd = [drv, "--gc", sched, "--mem", str(mem), "--max-steps", str(max_steps), path]
    with open(os.devnull) as devnull:
        import subprocess
        try:
            p = subprocess.run(cmd, cwd=sample_dir(), env=drv_env(), stdin=devnull, stdout=subprocess.PIPE,
                               stderr=subprocess.PIPE, timeout=timeout)
            rc, so, se = p.returncode, p.stdout.decode("latin-1"), p.stderr.decode("latin-1")
        except subprocess.TimeoutExpired:
            return {"kind": "timeout", "outcome": None, "stats": {}, "audit": [], "cmd": cmd, "stderr": ""}
    res = {"kind": "ok", "outcome": None, "stats": {}, "audit": [], "cmd": cmd, "stderr": se[-1500:], "rc": rc}
    end = out_hex = None
    for line in so.split("\n"):
        if line.startswith("COMPILE "):
            if line.strip() != "COMPILE 0":
                res["kind"] = "nocompile"
                return res
        elif line.startswith("PREPARE "):
            if line.strip() != "PREPARE 0":
                res["kind"] = "noprepare"
                return res
        elif line.startswith("AUDIT-FAIL"):
            res["audit"].append(line.strip())
        elif line.startswith("OUT "):
            out_hex = line[4:].strip()
        elif line.startswith("OUT"):
            out_hex = ""
        elif line.startswith("END "):
            end = line.strip()
        elif line.startswith("STATS "):
            res["stats"] = {k: int(v) for k, v in STAT_RE.findall(line)}
    if end == "END budget":
        res["kind"] = "budget"
        return res
    crash = classify_crash(rc, se)
    errl = [l for l in se.split("\n") if l.strip()]
    if crash is None and end == "END exit" and any(l.strip() == "out of memory" for l in errl):
        res["kind"] = "oom"
        return res
    if crash is not None:
        res["kind"] = "crash"
        # a crash is an outcome like any other: what was printed is lost with the process,
        # the class of the report is what is compared
        res["outcome"] = ("crash", crash)
        res["crash"] = crash
        return res
    if end is None:
        res["kind"] = "crash"
        res["crash"] = "no-END-line rc=%d" % rc
        res["outcome"] = ("crash", res["crash"])
        return res
    res["outcome"] = (end, canon_text(out_hex or ""), "\n".join(errl), rc)
    return res


# ------------------------------------------------------------------------------------------
# per-program campaign
# ------------------------------------------------------------------------------------------
def configs_for(tier, need, pseed):
    """(schedule, mem) pairs besides the reference run every@5000"""
    s = [(pseed * 7 + k) % 1000003 for k in range(8)]
    n15 = need + need // 2 + 1
    cfg = [("default", DEFAULT_MEM), ("never", BIG), ("seed:%d" % s[0], DEFAULT_MEM),
           ("every", need), ("default", n15), ("seed:%d" % s[1], n15)]
    if tier == "thorough":
        cfg += [("seed:%d" % s[2], DEFAULT_MEM), ("seed:%d" % s[3], DEFAULT_MEM), ("every", need + 1),
                ("every", 2 * need), ("default", need), ("default", 2 * need), ("default", 3 * need),
                ("seed:%d" % s[4], need + need // 4 + 1), ("seed:%d" % s[5], 2 * need),
                ("seed:%d" % s[6], 1000), ("default", 1000), ("default", 2500), ("never", DEFAULT_MEM)]
    seen, out = set(), []
    for c in cfg:
        if c not in seen and c != ("every", DEFAULT_MEM):
            seen.add(c)
            out.append(c)
    return out


def find_need(drv, path, peak, cached, timeout, max_steps):
    """smallest heap (approximately) in which `every` completes; -> (need, runs, last result)"""
    runs = 0
    m = cached if cached else max(4, peak + 1)
    last = None
    for _ in range(14):
        r = run_cfg(drv, path, "every", m, timeout, max_steps)
        runs += 1
        last = r
        if r["kind"] != "oom":
            return m, runs, r
        m += max(2, m // 12)
    return None, runs, last


def end_class(end):
    t = end.split(" ")
    if len(t) >= 3:
        return "unhandled-exception" if t[2] == "exc" else "result:" + t[2]
    return " ".join(t[1:])      # exit (stack too large / other exit(1))


def brief(o):
    if o is None:
        return None
    return [x if not isinstance(x, str) or len(x) < 600 else x[:600] + "...(%d chars)" % len(x) for x in o]


def worker(job):
    drv, pid, path, tier, pseed, cached_need, timeout, max_steps = job
    t0 = time.time()
    out = {"pid": pid, "path": path, "runs": 0, "skip": None, "viol": [], "cfg_counts": {}, "oom_runs": 0,
           "nontrivial": False, "collections": 0, "freed": 0, "maxdepth": 0, "need": None, "notes": [],
           "safepoints": 0, "audited": 0, "outcome_class": None, "sample": None}

    def account(sched, mem, r):
        out["runs"] += 1
        lab = sched.split(":")[0] + ("@need" if mem < DEFAULT_MEM else "@%d" % mem)
        out["cfg_counts"][lab] = out["cfg_counts"].get(lab, 0) + 1
        st = r["stats"]
        out["collections"] += st.get("collections", 0)
        out["freed"] += st.get("freed", 0)
        out["audited"] += st.get("audited", 0)
        out["safepoints"] = max(out["safepoints"], st.get("safepoints", 0))
        out["maxdepth"] = max(out["maxdepth"], st.get("maxdepth", 0))
        if st.get("freed_susp", 0) > 0:
            out["nontrivial"] = True
        if r["kind"] == "oom":
            out["oom_runs"] += 1

    def cfgdesc(sched, mem, r):
        return {"schedule": sched, "mem": mem, "cmd": " ".join(r["cmd"]), "cwd": sample_dir(),
                "env": {"NEVER_PATH": drv_env()["NEVER_PATH"], "ASAN_OPTIONS": ASAN_ENV},
                "kind": r["kind"], "outcome": brief(r["outcome"]), "audit": r["audit"][:4],
                "stderr_tail": r["stderr"][-600:], "stats": r["stats"]}

    try:
        text = open(path, errors="replace").read()
        ref = run_cfg(drv, path, "every", DEFAULT_MEM, timeout, max_steps)
        if time.time() - t0 > 2.5 and tier == "thorough":
            tier = "quick"          # a long-running program: fewer configurations
            out["notes"].append("slow: reduced configuration set")
        if ref["kind"] in ("nocompile", "noprepare", "budget", "timeout"):
            out["skip"] = ref["kind"]
            out["runs"] += 1
            return out
        account("every", DEFAULT_MEM, ref)
        results = [("every", DEFAULT_MEM, ref)]
        if ref["kind"] == "oom":
            # needs more than the default heap even when collecting at every safe point
            out["notes"].append("oom-at-default-heap")
            need = None
        else:
            need, nr, rneed = find_need(drv, path, ref["stats"].get("peak", 64), cached_need, timeout, max_steps)
            out["need"] = need
            for _ in range(nr - 1):
                out["runs"] += 1
                out["oom_runs"] += 1
            if need is not None:
                account("every", need, rneed)
                results.append(("every", need, rneed))
        for sched, mem in configs_for(tier, need or 4000, pseed):
            if (sched, mem) == ("every", need):
                continue
            r = run_cfg(drv, path, sched, mem, timeout, max_steps)
            account(sched, mem, r)
            results.append((sched, mem, r))
            if r["kind"] == "timeout":
                out["notes"].append("timeout:%s@%d" % (sched, mem))

        # ---- judge -------------------------------------------------------------------------
        usable = [(s, m, r) for (s, m, r) in results if r["kind"] in ("ok", "crash")]
        for s, m, r in results:
            if r["audit"]:
                out["viol"].append({"kind": "audit",
                                    "what": "reachable cell reclaimed/altered by a collection: %s" % r["audit"][0],
                                    "program": pid, "program_text": text, "run_a": cfgdesc(s, m, r), "run_b": None})
                break
        if usable:
            base = usable[0]
            for s, m, r in usable[1:]:
                if r["outcome"] != base[2]["outcome"]:
                    # prefer a collection-free / crash-free run as the "expected" side
                    good = [u for u in usable if u[2]["kind"] == "ok"]
                    exp = good[0] if good else base
                    other = (s, m, r) if exp[2]["outcome"] != r["outcome"] else base
                    for u in usable:
                        if u[2]["outcome"] != exp[2]["outcome"]:
                            other = u
                            break
                    out["viol"].append({"kind": "outcome",
                                        "what": "outcome depends on the collection schedule / heap size: %s@%d -> %s, %s@%d -> %s" % (
                                            exp[0], exp[1], str(brief(exp[2]["outcome"]))[:120], other[0], other[1],
                                            str(brief(other[2]["outcome"]))[:160]),
                                        "program": pid, "program_text": text,
                                        "run_a": cfgdesc(*exp), "run_b": cfgdesc(*other)})
                    break
            else:
                if base[2]["kind"] == "crash":
                    never = [u for u in usable if u[0] == "never"]
                    if never:
                        out["notes"].append("schedule-independent-crash:" + base[2]["crash"])
                    else:
                        out["viol"].append({"kind": "crash",
                                            "what": "%s in every run that collects; no collection-free run available to compare" % base[2]["crash"],
                                            "program": pid, "program_text": text, "run_a": cfgdesc(*base), "run_b": None})
            out["outcome_class"] = "crash" if base[2]["kind"] == "crash" else end_class(base[2]["outcome"][0])
            if out["nontrivial"] and base[2]["kind"] == "ok":
                out["sample"] = {"program": pid, "schedules": ["%s@%d" % (s, m) for s, m, r in usable],
                                 "oom_runs": out["oom_runs"], "outcome": brief(base[2]["outcome"])[:2],
                                 "collections_every@5000": ref["stats"].get("collections"),
                                 "freed_every@5000": ref["stats"].get("freed"),
                                 "collections_with_suspended_frames_that_freed": ref["stats"].get("freed_susp"),
                                 "need": need}
    except Exception:  # noqa
        import traceback
        out["error"] = traceback.format_exc()[-1500:]
    out["wall"] = round(time.time() - t0, 2)
    return out


# ------------------------------------------------------------------------------------------
def load_gen():
    p = os.path.join(common.VERIF, "harness", "c04", "gen.py")
    if not os.path.exists(p):
        return None
    spec = importlib.util.spec_from_file_location("c04gen", p)
    mod = importlib.util.module_from_spec(spec)
    spec.loader.exec_module(mod)
    return mod


def model_tie(ctx, lib):
    """E1's correspondence (extracted GCModel vs gc.c) — C09's check owns it; re-run a slice."""
    tie = {"owner": "E1 / checks/c09.py (op histories on gcdrive, dumps compared with the extracted GCModel)",
           "rerun_here": "skipped"}
    try:
        from checks import c09
        need = ("worker", "RUN", "plan")
        if not all(hasattr(c09, n) for n in need):
            tie["rerun_here"] = "skipped: checks/c09.py exposes no reusable worker"
            return tie
        ok, log = common.ocaml_build()
        if (not ok and not (hasattr(c09, "runner_is_current") and c09.runner_is_current())) or not os.path.exists(c09.RUN):
            tie["rerun_here"] = "skipped: extracted runner not built (%s)" % log[-200:]
            return tie
        drv = common.cc_driver("gcdrive", ["gc/gcdrive.c"], lib)
        work = os.path.join(ctx.outdir, "tiework")
        shutil.rmtree(work, ignore_errors=True)
        os.makedirs(work)
        n = 24 if ctx.tier == "quick" else 96
        jobs = [(drv, work, k, "mixed", (ctx.seed * 1000003 + 4049 * (k + 1)) % 1000000007, 12, 0) for k in range(n // 12)]
        cases = diffs = fails = 0
        first = None
        with multiprocessing.Pool(min(NPROC, len(jobs))) as pool:
            for o in pool.imap_unordered(c09.worker, jobs):
                cases += o.get("n", 0)
                diffs += len(o.get("diffs", []))
                fails += len(o.get("fails", []))
                if first is None and (o.get("diffs") or o.get("fails") or o.get("error")):
                    first = {"diffs": o.get("diffs", [])[:1], "fails": [{k: v for k, v in f.items() if k != "history"} for f in o.get("fails", [])[:1]],
                             "error": o.get("error")}
        shutil.rmtree(work, ignore_errors=True)
        tie["rerun_here"] = {"histories": cases, "dump_differences": diffs, "oracle_failures": fails}
        if first is not None:
            ctx.correspondence_broken("gc-model-vs-gc.c (E1 slice re-run by C04)", first)
    except Exception:  # noqa
        import traceback
        tie["rerun_here"] = "skipped: " + traceback.format_exc()[-300:]
    return tie


def load_need_cache():
    try:
        return json.load(open(NEED_CACHE))
    except Exception:  # noqa
        return {}


def save_need_cache(c):
    try:
        os.makedirs(os.path.dirname(NEED_CACHE), exist_ok=True)
        with open(NEED_CACHE + ".tmp%d" % os.getpid(), "w") as f:
            json.dump(c, f)
        os.replace(NEED_CACHE + ".tmp%d" % os.getpid(), NEED_CACHE)
    except Exception:  # noqa
        pass


def report(ctx, v):
    key = "%s:%s" % (v["program"], v["kind"])
    replay = {"program": v["program"], "program_text": v["program_text"], "run_a": v["run_a"], "run_b": v["run_b"],
              "how": "write program_text to a file, run the two cmd lines (cwd/env given) and compare the OUT/END lines"}
    ctx.violation(key, "%s: %s" % (v["program"], v["what"]), replay)


def run(ctx):
    t_start = time.time()
    ctx.proofs()
    ctx.notes["coq_s"] = round(time.time() - t_start, 1)
    lib = common.repobuild("asan")
    drv = common.cc_driver("gcsched", ["vm/gcsched.c"], lib)
    ctx.notes["build_s"] = round(time.time() - t_start, 1)
    treekey = os.path.basename(os.path.dirname(lib))
    quick = ctx.tier != "thorough"
    timeout = 4 if quick else 25
    max_steps = 3000000 if quick else 40000000

    ctx.coverage["exhaustive"] = False
    ctx.coverage["rule"] = (
        "each program (corpus/C04, the sample programs of /repo/sample, seeded generated allocation-heavy programs: "
        "closures, linked records, arrays of records, string building, nested calls holding temporaries, exceptions "
        "across frames, tail-recursive loops) is run by gcsched (ASan/UBSan, hooks) under every@5000 (reference), "
        "default@5000, never@200000, seeded random subsets, and every/default/seeded at about the program's need "
        "(smallest heap in which `every` completes) and multiples of it; canonical outcomes (END line, printed text, "
        "stderr, exit code) of all runs that do not report out of memory must be equal and no collection may leave a "
        "reachable cell reclaimed/marked/on the free chain/altered (audit from the real roots before+after every "
        "collection). evaluations = program x schedule x heap-size runs. non-trivial = distinct program in which at "
        "least one collection freed >=1 cell while >=2 frames were on the frame chain (a suspended caller holds roots)")

    # ---- single replay ----------------------------------------------------------------------
    if getattr(ctx, "replay", None):
        rp = json.load(open(ctx.replay))
        path = os.path.join(ctx.outdir, "replay_program.nev")
        open(path, "w").write(rp["program_text"])
        o = worker((drv, rp["program"], path, "thorough", ctx.seed, None, 25, 40000000))
        for v in o["viol"]:
            report(ctx, v)
        print("replay %s: runs=%d violations=%d %s" % (rp["program"], o["runs"], len(o["viol"]), [v["what"][:200] for v in o["viol"]]))
        ctx.count(evaluations=o["runs"], nontrivial=1 if o["nontrivial"] else 0)
        return

    # ---- programs ------------------------------------------------------------------------------
    progs = []   # (pid, path, origin)
    if os.path.isdir(CORPUS):
        for fn in sorted(os.listdir(CORPUS)):
            if fn.endswith(".nev"):
                progs.append(("corpus/" + fn, os.path.join(CORPUS, fn), "corpus"))
    sd = sample_dir()
    samples = sorted(f for f in os.listdir(sd) if f.endswith(".nev"))
    for fn in samples:
        progs.append((fn, os.path.join(sd, fn), "sample"))
    gen = load_gen()
    gendir = os.path.join(ctx.outdir, "gen")
    shutil.rmtree(gendir, ignore_errors=True)
    os.makedirs(gendir)
    ngen = 0
    families = {}
    if gen is not None:
        count = 400 if quick else 1800
        try:
            for gid, text in gen.generate(ctx.seed, count):
                p = os.path.join(gendir, gid + ".nev")
                open(p, "w").write(text)
                progs.append((gid, p, "generated"))
                ngen += 1
                for tok in gid.split("-")[3:]:
                    fams = (["f" + d for d in tok[1:] if d.isdigit()] + ["variant:" + d for d in tok[1:] if not d.isdigit()]
                            if re.match(r"^f\d+[a-z]*$", tok) else [tok])
                    for fam in fams:
                        families[fam] = families.get(fam, 0) + 1
        except Exception:  # noqa
            import traceback
            ctx.correspondence_broken("c04-generator", traceback.format_exc()[-1500:])
    else:
        ctx.notes["generator"] = "harness/c04/gen.py missing"

    cache = load_need_cache()
    jobs = []
    for pid, path, origin in progs:
        h = hashlib.sha1(open(path, "rb").read()).hexdigest()[:16]
        pseed = (ctx.seed * 1000003 + int(h[:8], 16)) % 1000000007
        jobs.append((drv, pid, path, ctx.tier, pseed, cache.get(treekey + ":" + h), timeout, max_steps))
    hashes = {j[1]: hashlib.sha1(open(j[2], "rb").read()).hexdigest()[:16] for j in jobs}
    origin_of = {pid: origin for pid, path, origin in progs}

    evaluations = 0
    nontrivial = set()
    skipped, cfg_counts, classes, by_origin = {}, {}, {}, {}
    oom_runs = collections = freed = audited = 0
    depth_hist = {}
    notes, errors, viols = [], [], []
    slow = []
    deadline = t_start + (135 if quick else 840)
    with multiprocessing.Pool(NPROC) as pool:
        it = pool.imap_unordered(worker, jobs, chunksize=1)
        done = 0
        for o in it:
            done += 1
            evaluations += o["runs"]
            org = origin_of[o["pid"]]
            bo = by_origin.setdefault(org, {"programs": 0, "compared": 0, "nontrivial": 0})
            bo["programs"] += 1
            if o.get("error"):
                errors.append({"program": o["pid"], "error": o["error"]})
            if o["skip"]:
                skipped[o["skip"]] = skipped.get(o["skip"], 0) + 1
                continue
            bo["compared"] += 1
            if o["nontrivial"]:
                nontrivial.add(hashes[o["pid"]])
                bo["nontrivial"] += 1
                if o["sample"]:
                    ctx.sample(o["sample"], limit=5)
            for k, v in o["cfg_counts"].items():
                cfg_counts[k] = cfg_counts.get(k, 0) + v
            oom_runs += o["oom_runs"]
            collections += o["collections"]
            freed += o["freed"]
            audited += o["audited"]
            d = "%d" % min(o["maxdepth"], 20)
            depth_hist[d] = depth_hist.get(d, 0) + 1
            if o["outcome_class"]:
                classes[o["outcome_class"]] = classes.get(o["outcome_class"], 0) + 1
            if o["need"]:
                cache[treekey + ":" + hashes[o["pid"]]] = o["need"]
            notes.extend("%s: %s" % (o["pid"], n) for n in o["notes"])
            viols.extend(o["viol"])
            if o.get("wall", 0) > 8:
                slow.append((o["pid"], o["wall"]))
            if time.time() > deadline:
                pool.terminate()
                ctx.notes["stopped_at_deadline"] = {"programs_done": done, "of": len(jobs)}
                break
    save_need_cache(cache)
    shutil.rmtree(gendir, ignore_errors=True)

    ctx.count(evaluations=evaluations, nontrivial=len(nontrivial))
    ctx.coverage["distribution"] = {
        "programs": {"corpus": sum(1 for p in progs if p[2] == "corpus"), "samples": len(samples), "generated": ngen},
        "by_origin": by_origin, "generated_families": families, "runs_by_config": cfg_counts,
        "runs_out_of_memory (not compared)": oom_runs, "outcome_classes": classes,
        "collections_audited": collections, "cells_freed": freed, "cells_walked_by_audit": audited,
        "max_frame_depth_at_a_collection (programs)": depth_hist}
    ctx.coverage["skipped"] = skipped
    ctx.coverage["seeds"] = {"VERIF_SEED": ctx.seed}
    if notes:
        ctx.notes["program_notes"] = notes[:40]
    if slow:
        ctx.notes["slow_programs"] = sorted(slow, key=lambda x: -x[1])[:10]
    if errors:
        ctx.correspondence_broken("c04-worker-error", errors[0])

    # one report per (program, kind); smallest programs first so the headline is readable
    viols.sort(key=lambda v: (len(v["program_text"]), v["program"]))
    kinds = {}
    listed = 0
    for v in viols:
        kinds[v["kind"]] = kinds.get(v["kind"], 0) + 1
        if kinds[v["kind"]] <= 15:      # up to 15 reports per kind (audit / outcome / crash)
            report(ctx, v)
            listed += 1
    if viols:
        ctx.notes["violations_by_kind"] = kinds
        ctx.notes["violations_not_listed"] = len(viols) - listed

    ctx.coverage["model_tie"] = model_tie(ctx, lib) if time.time() < deadline + 20 else {
        "owner": "E1 / checks/c09.py", "rerun_here": "skipped: out of time"}
    ctx.notes["total_s"] = round(time.time() - t_start, 1)
