"""Case generation for the arithmetic checks (C11, C10): expression trees over literal
leaves, their Never source text (literal version / variable version), the s-expression for
the extracted model (harness/ocaml/arith/arithrun.ml) and an independent reference
evaluator in Python (`pyref`, the C semantics the property names: two's complement
wrap-around, truncating division, IEEE single/double round-to-nearest-even).
Unverified glue (DESIGN §8).

Tree forms (tuples):
  ("L", kind, v)       kind in b i l f d e ; v = value (b i l e) or bit pattern (f d)
  ("U", op, t)         op in neg not bnot
  ("B", op, a, b)      op in add sub mul div mod lt gt lte gte eq neq and or band bor bxor shl shr
  ("P", t)             parentheses
  ("C", c, a, b)       c ? a : b
Operands of U/B/C are always atoms (a leaf or a P node), so the printed text needs no
precedence rules.  Floating leaves are finite and non-negative (the scanner has no sign, no
exponent, no inf/nan syntax); other values are built by value_tree().
"""
import random
from fractions import Fraction

from gen import arithlib as al

BINSYM = {"add": "+", "sub": "-", "mul": "*", "div": "/", "mod": "%", "lt": "<", "gt": ">",
          "lte": "<=", "gte": ">=", "eq": "==", "neq": "!=", "and": "&&", "or": "||",
          "band": "&&&", "bor": "|||", "bxor": "^^^", "shl": "<<<", "shr": ">>>"}
UNSYM = {"neg": "-", "not": "!", "bnot": "~~~"}
KIND_TY = {"b": "bool", "i": "int", "l": "long", "f": "float", "d": "double", "e": "enum"}
TY_KIND = {v: k for k, v in KIND_TY.items()}
ARITH = ["add", "sub", "mul", "div"]
CMP = ["lt", "gt", "lte", "gte", "eq", "neq"]
INTONLY = ["mod", "band", "bor", "bxor", "shl", "shr"]
NUM = ["i", "l", "f", "d"]

FLT_MAX32 = 0x7F7FFFFF
DBL_MAX64 = 0x7FEFFFFFFFFFFFFF


# ----------------------------------------------------------------- printing ----------

def hexnum(z):
    return ("-%x" % -z) if z < 0 else ("%x" % z)


def sx(t):
    """s-expression for the model driver"""
    k = t[0]
    if k == "L":
        return "(L %s %s)" % (t[1], hexnum(int(t[2])))
    if k == "U":
        return "(U %s %s)" % (t[1], sx(t[2]))
    if k == "B":
        return "(B %s %s %s)" % (t[1], sx(t[2]), sx(t[3]))
    if k == "P":
        return "(P %s)" % sx(t[1])
    return "(C %s %s %s)" % (sx(t[1]), sx(t[2]), sx(t[3]))


def leaves(t, acc=None):
    acc = [] if acc is None else acc
    if t[0] == "L":
        acc.append(t)
    else:
        for c in t[1:]:
            if isinstance(c, tuple):
                leaves(c, acc)
    return acc


def lit_text(leaf, enum_names):
    kind, v = leaf[1], leaf[2]
    if kind == "b":
        return "true" if v else "false"
    if kind == "i":
        return al.lit_int(v)
    if kind == "l":
        return al.lit_long(v)
    if kind == "f":
        return al.lit_float_pos(v)
    if kind == "d":
        return al.lit_double_pos(v)
    return "E::%s" % enum_names[v]


def expr_text(t, leaf_text):
    """leaf_text: function leaf-occurrence-index -> text; leaves numbered left to right"""
    counter = [0]

    def go(t):
        k = t[0]
        if k == "L":
            i = counter[0]
            counter[0] += 1
            return leaf_text(i, t)
        if k == "U":
            return "%s %s" % (UNSYM[t[1]], go(t[2]))
        if k == "B":
            a = go(t[2])
            return "%s %s %s" % (a, BINSYM[t[1]], go(t[3]))
        if k == "P":
            return "(%s)" % go(t[1])
        c = go(t[1])
        a = go(t[2])
        return "%s ? %s : %s" % (c, a, go(t[3]))
    return go(t)


def enum_decl(t):
    """enum declaration providing every enum leaf of t; returns (text, names by index value)"""
    idx = sorted({l[2] for l in leaves(t) if l[1] == "e"})
    if not idx:
        return "", {}
    names = {v: "k%d" % i for i, v in enumerate(idx)}
    items = ", ".join("%s = %s" % (names[v], al.lit_int(v)) for v in idx)
    return "enum E { %s }\n" % items, names


def program_lit(t, ret):
    decl, names = enum_decl(t)
    body = expr_text(t, lambda i, leaf: lit_text(leaf, names))
    return "%sfunc main() -> %s { %s }" % (decl, ret, body)


def program_var(t, ret):
    decl, names = enum_decl(t)
    ls = leaves(t)
    binds = " ".join("var v%d = %s;" % (i, lit_text(l, names)) for i, l in enumerate(ls))
    body = expr_text(t, lambda i, leaf: "v%d" % i)
    return "%sfunc main() -> %s { %s %s }" % (decl, ret, binds, body)


def program_assign(tl_kind, old, t):
    """var x = <old>; x = <expr over variables>; x"""
    decl, names = enum_decl(t)
    ls = leaves(t)
    binds = " ".join("var v%d = %s;" % (i, lit_text(l, names)) for i, l in enumerate(ls))
    body = expr_text(t, lambda i, leaf: "v%d" % i)
    return "%sfunc main() -> %s { var x = %s; %s x = %s; x }" % (
        decl, KIND_TY[tl_kind], lit_text(("L", tl_kind, old), {}), binds, body)


def program_concat(t, left):
    """prints("<" + <expr> + ">") resp. with the number on the left of the first +"""
    ls = leaves(t)
    binds = " ".join("var v%d = %s;" % (i, lit_text(l, {})) for i, l in enumerate(ls))
    body = expr_text(t, lambda i, leaf: "v%d" % i)
    if left:
        cat = "var n = %s; prints(n + \"|\")" % body
    else:
        cat = "var n = %s; prints(\"|\" + n)" % body
    return "func main() -> int { %s %s; 0 }" % (binds, cat)


# ----------------------------------------------------------------- values ------------

def atom(t):
    return t if t[0] in ("L", "P") else ("P", t)


def value_tree(kind, v):
    """a tree that evaluates to the value v of the given kind, with scanner-admissible leaves"""
    if kind in ("b", "i", "l", "e"):
        return ("L", kind, v)
    width, maxbits = (32, FLT_MAX32) if kind == "f" else (64, DBL_MAX64)
    sign = v >> (width - 1)
    mag = v & ((1 << (width - 1)) - 1)
    two = ("L", kind, al.bits_of_f32(2.0) if kind == "f" else al.bits_of_f64(2.0))
    inf = ("P", ("B", "mul", ("L", kind, maxbits), two))
    finite = al.is_finite32(v) if kind == "f" else al.is_finite64(v)
    if finite:
        base = ("L", kind, mag)
    elif (al.is_nan32(v) if kind == "f" else al.is_nan64(v)):
        return ("P", ("B", "sub", inf, inf))
    else:
        base = inf
    return ("P", ("U", "neg", base)) if sign else base


INT_CORNERS = [0, 1, -1, 2, -2, 3, 7, -7, 10, 31, 32, 33, 63, 64, 100, 255, 46341, 65535, 65536,
               16777216, 16777217, 16777219, 33554435, 123456789, -123456789, 2 ** 30,
               2147483583, 2147483584, 2147483647, 2147483646, -2147483647, -2147483648]
LONG_CORNERS = [0, 1, -1, 2, -2, 3, -7, 10, 31, 32, 63, 64, 65, 2 ** 31 - 1, 2 ** 31, -2 ** 31,
                -2 ** 31 - 1, 2 ** 32, 2 ** 32 + 1, 5000000000, 3037000500, 16777217, 2 ** 53 - 1,
                2 ** 53, 2 ** 53 + 1, 2 ** 53 + 3, -(2 ** 53 + 1), 2 ** 60 + 2 ** 36 + 1,
                2 ** 60 + 2 ** 36, 2 ** 60 + 2 ** 36 - 1, 2 ** 62 + 2 ** 38 + 1,
                2 ** 63 - 2 ** 39, 2 ** 63 - 2 ** 39 - 1, 2 ** 63 - 513, 2 ** 63 - 1, -2 ** 63 + 1, -2 ** 63]
F32_CORNERS = [0x00000000, 0x80000000, 0x3F800000, 0xBF800000, 0x3F000000, 0x3FC00000, 0x40200000,
               0x40000000, 0x40400000, 0x41200000, 0x3DCCCCCD, 0x3E000000, 0x3EC00000, 0x40700000,
               0x00000001, 0x80000001, 0x007FFFFF, 0x00800000, 0x00800001, 0x7F7FFFFF, 0xFF7FFFFF,
               0x7F800000, 0xFF800000, 0x7FC00000, 0x4B800000, 0x4B800001, 0x4B7FFFFF, 0x4F000000,
               0x4EFFFFFF, 0xCF000000, 0xCF000001, 0x5F000000, 0x5EFFFFFF, 0xDF000000, 0x501502F9,
               0x3F7FFFFF, 0x3F800001, 0x34000000, 0x33800000, 0x7F000000, 0x3A83126F]
F64_CORNERS = [0x0000000000000000, 0x8000000000000000, 0x3FF0000000000000, 0xBFF0000000000000,
               0x3FE0000000000000, 0x3FF8000000000000, 0x4004000000000000, 0x4000000000000000,
               0x4008000000000000, 0x4024000000000000, 0x3FB999999999999A, 0x3FC999999999999A,
               0x3FD3333333333333, 0x3FC0000000000000, 0x3FD8000000000000, 0x400E000000000000,
               0x0000000000000001, 0x8000000000000001, 0x000FFFFFFFFFFFFF, 0x0010000000000000,
               0x7FEFFFFFFFFFFFFF, 0xFFEFFFFFFFFFFFFF, 0x7FF0000000000000, 0xFFF0000000000000,
               0x7FF8000000000000, 0x4340000000000000, 0x4340000000000001, 0x433FFFFFFFFFFFFF,
               0x41E0000000000000, 0x41DFFFFFFFC00000, 0x41DFFFFFFFE00000, 0xC1E0000000000000,
               0xC1E0000000200000, 0x43E0000000000000, 0x43DFFFFFFFFFFFFF, 0xC3E0000000000000,
               0x47EFFFFFE0000000, 0x47EFFFFFF0000000, 0x47EFFFFFEFFFFFFF, 0x47F0000000000000,
               0x3FF0000010000000, 0x3FF0000030000000, 0x3FF0000010000001, 0x3690000000000000,
               0x3690000000000001, 0x36A0000000000000, 0x380FFFFFFFFFFFFF, 0x3810000000000000,
               0x7FE0000000000000, 0x3CA0000000000000, 0x3FF0000000000001]
ENUM_CORNERS = [0, 1, 2, 7, -1, 2147483647, -2147483648]
CORNERS = {"b": [0, 1], "i": INT_CORNERS, "l": LONG_CORNERS, "f": F32_CORNERS, "d": F64_CORNERS,
           "e": ENUM_CORNERS}


def random_value(rng, kind):
    if kind == "b":
        return rng.randrange(2)
    if kind in ("i", "e"):
        m = rng.randrange(4)
        if m == 0:
            return rng.randrange(-100, 100)
        if m == 1:
            return rng.randrange(al.INT_MIN, al.INT_MAX + 1)
        if m == 2:
            return al.INT_MIN + rng.randrange(0, 50) if rng.randrange(2) else al.INT_MAX - rng.randrange(0, 50)
        return (1 << rng.randrange(0, 31)) + rng.randrange(-2, 3)
    if kind == "l":
        m = rng.randrange(4)
        if m == 0:
            return rng.randrange(-100, 100)
        if m == 1:
            return rng.randrange(al.LONG_MIN, al.LONG_MAX + 1)
        if m == 2:
            return al.LONG_MIN + rng.randrange(0, 50) if rng.randrange(2) else al.LONG_MAX - rng.randrange(0, 50)
        return max(al.LONG_MIN, min(al.LONG_MAX, (1 << rng.randrange(0, 63)) + rng.randrange(-2, 3)))
    if kind == "f":
        m = rng.randrange(4)
        if m == 0:
            return rng.randrange(0, 1 << 32)
        if m == 1:   # moderate magnitude
            return (rng.randrange(2) << 31) | (rng.randrange(100, 160) << 23) | rng.randrange(1 << 23)
        if m == 2:   # small integers and halves
            return al.bits_of_f32(rng.randrange(-2000, 2000) / 8.0)
        return (rng.randrange(2) << 31) | rng.randrange(0, 1 << 24)       # denormals / tiny
    m = rng.randrange(4)
    if m == 0:
        return rng.randrange(0, 1 << 64)
    if m == 1:
        return (rng.randrange(2) << 63) | (rng.randrange(990, 1090) << 52) | rng.randrange(1 << 52)
    if m == 2:
        return al.bits_of_f64(rng.randrange(-2000, 2000) / 8.0)
    return (rng.randrange(2) << 63) | rng.randrange(0, 1 << 53)


def pick_value(rng, kind, corner_p=0.6):
    if rng.random() < corner_p:
        return rng.choice(CORNERS[kind])
    return random_value(rng, kind)


def admitted_pairs(op):
    """ordered pairs of literal kinds the typechecker admits for op (from Promote.check_bin;
    the model decides in the end — a rejected pair is simply reported as T=REJECT)"""
    if op in ARITH or op in CMP:
        ps = [(a, b) for a in NUM for b in NUM]
        ps += [("e", "i"), ("i", "e"), ("e", "e")]
        if op in ("eq", "neq"):
            ps.append(("b", "b"))
        return ps
    if op in INTONLY:
        return [(a, b) for a in ("i", "l") for b in ("i", "l")] + [("e", "i"), ("i", "e"), ("e", "e")]
    return [("b", "b")]


# ----------------------------------------------------------------- reference ---------

def wrap(n, z):
    m = 1 << n
    z &= m - 1
    return z - m if z >> (n - 1) else z


def _round_pos_fraction(x, prec, emax):
    """x > 0 (Fraction) -> ('fin', m, e) | ('inf',) | ('zero',) by round-to-nearest-even"""
    emin = 3 - emax - prec
    n, d = x.numerator, x.denominator
    lg = n.bit_length() - d.bit_length()
    if (n < (d << lg)) if lg >= 0 else ((n << -lg) < d):
        lg -= 1
    e = max(lg - prec + 1, emin)
    if e >= 0:
        num, den = n, d << e
    else:
        num, den = n << -e, d
    q, r = divmod(num, den)
    if 2 * r > den or (2 * r == den and q & 1):
        q += 1
    if q == 0:
        return ("zero",)
    if q == 1 << prec:
        q >>= 1
        e += 1
    if e > emax - prec:
        return ("inf",)
    return ("fin", q, e)


def encode_float(kind, sign, r):
    prec, emax, ebits = (24, 128, 8) if kind == "f" else (53, 1024, 11)
    mb = prec - 1
    sb = sign << (ebits + mb)
    if r[0] == "zero":
        return sb
    if r[0] == "inf":
        return sb | (((1 << ebits) - 1) << mb)
    _, m, e = r
    if m >> mb:
        return sb | ((e + emax - 1 + mb) << mb) | (m - (1 << mb))
    return sb | m


def decode_float(kind, bits):
    """-> ('nan',) | ('inf', s) | ('zero', s) | ('fin', s, Fraction>0)"""
    prec, emax, ebits = (24, 128, 8) if kind == "f" else (53, 1024, 11)
    mb = prec - 1
    s = (bits >> (ebits + mb)) & 1
    E = (bits >> mb) & ((1 << ebits) - 1)
    M = bits & ((1 << mb) - 1)
    if E == (1 << ebits) - 1:
        return ("nan",) if M else ("inf", s)
    if E == 0:
        if M == 0:
            return ("zero", s)
        return ("fin", s, Fraction(M) * Fraction(2) ** (3 - emax - prec))
    return ("fin", s, Fraction(M + (1 << mb)) * Fraction(2) ** (E - (emax - 1) - mb))


def qnan(kind):
    return 0x7FC00000 if kind == "f" else 0x7FF8000000000000


def round_signed(kind, x, zero_sign=0):
    """Fraction (any sign) -> bit pattern, RNE"""
    prec, emax = (24, 128) if kind == "f" else (53, 1024)
    if x == 0:
        return encode_float(kind, zero_sign, ("zero",))
    s = 1 if x < 0 else 0
    return encode_float(kind, s, _round_pos_fraction(abs(x), prec, emax))


def fl_arith(kind, op, a, b):
    """IEEE + - * / (b != 0 handled by the caller for the fault) on bit patterns"""
    da, db = decode_float(kind, a), decode_float(kind, b)
    if da[0] == "nan" or db[0] == "nan":
        return qnan(kind)
    inf = lambda s: encode_float(kind, s, ("inf",))
    zero = lambda s: encode_float(kind, s, ("zero",))
    if op in ("add", "sub"):
        if op == "sub":
            db = (db[0], 1 - db[1]) + tuple(db[2:])
        if da[0] == "inf" and db[0] == "inf":
            return inf(da[1]) if da[1] == db[1] else qnan(kind)
        if da[0] == "inf":
            return inf(da[1])
        if db[0] == "inf":
            return inf(db[1])
        if da[0] == "zero" and db[0] == "zero":
            return zero(da[1] if da[1] == db[1] else 0)
        va = 0 if da[0] == "zero" else (-da[2] if da[1] else da[2])
        vb = 0 if db[0] == "zero" else (-db[2] if db[1] else db[2])
        return round_signed(kind, va + vb, 0)
    s = da[1] ^ db[1]
    if op == "mul":
        if (da[0] == "inf" and db[0] == "zero") or (da[0] == "zero" and db[0] == "inf"):
            return qnan(kind)
        if da[0] == "inf" or db[0] == "inf":
            return inf(s)
        if da[0] == "zero" or db[0] == "zero":
            return zero(s)
        return encode_float(kind, s, _round_pos_fraction(da[2] * db[2], *((24, 128) if kind == "f" else (53, 1024))))
    # div
    if da[0] == "inf" and db[0] == "inf":
        return qnan(kind)
    if da[0] == "zero" and db[0] == "zero":
        return qnan(kind)
    if da[0] == "inf":
        return inf(s)
    if db[0] == "inf":
        return zero(s)
    if db[0] == "zero":
        return inf(s)
    if da[0] == "zero":
        return zero(s)
    return encode_float(kind, s, _round_pos_fraction(da[2] / db[2], *((24, 128) if kind == "f" else (53, 1024))))


def fl_cmp(kind, op, a, b):
    da, db = decode_float(kind, a), decode_float(kind, b)
    if da[0] == "nan" or db[0] == "nan":
        return 1 if op == "neq" else 0

    def key(d):
        if d[0] == "inf":
            return (-1 if d[1] else 1, 0)
        if d[0] == "zero":
            return (0, Fraction(0))
        return (0, -d[2] if d[1] else d[2])
    ka, kb = key(da), key(db)
    return int({"lt": ka < kb, "gt": ka > kb, "lte": ka <= kb, "gte": ka >= kb,
                "eq": ka == kb, "neq": ka != kb}[op])


def int_to_float(kind, z):
    return round_signed(kind, Fraction(z), 0)


def float_to_int(kind, n, bits):
    """C cast; None when undefined (NaN, inf, out of range)"""
    d = decode_float(kind, bits)
    if d[0] in ("nan", "inf"):
        return None
    if d[0] == "zero":
        return 0
    q = d[2].numerator // d[2].denominator
    q = -q if d[1] else q
    if -(1 << (n - 1)) <= q < (1 << (n - 1)):
        return q
    return None


def convert(src, dst, v):
    """C conversion between kinds i l f d; returns value or None (undefined)"""
    if src == dst:
        return v
    if src in "il" and dst in "il":
        return wrap(32, v) if dst == "i" else v
    if src in "il":
        return int_to_float(dst, v)
    if dst in "il":
        return float_to_int(src, 32 if dst == "i" else 64, v)
    d = decode_float(src, v)
    if d[0] == "nan":
        return qnan(dst)
    if d[0] == "inf":
        return encode_float(dst, d[1], ("inf",))
    if d[0] == "zero":
        return encode_float(dst, d[1], ("zero",))
    return round_signed(dst, -d[2] if d[1] else d[2])


RANK = {"i": 0, "l": 1, "f": 2, "d": 3}


class Undefined(Exception):
    """C undefined behaviour met (excluded) or construct outside the reference"""


class Fault(Exception):
    pass


class Trap(Exception):
    """INT_MIN / -1"""


def pyref(t):
    """reference evaluation of a tree: (kind, value) with kind in b i l f d (enum values are
    ints); raises Fault('division_by_zero'), Trap, Undefined"""
    k = t[0]
    if k == "L":
        kind, v = t[1], t[2]
        return ("i" if kind == "e" else kind, int(v))
    if k == "P":
        return pyref(t[1])
    if k == "U":
        kind, v = pyref(t[2])
        op = t[1]
        if op == "neg":
            if kind in "il":
                return (kind, wrap(32 if kind == "i" else 64, -v))
            if kind in "fd":
                return (kind, v ^ (1 << (31 if kind == "f" else 63)))
            raise Undefined("neg")
        if op == "not":
            if kind != "b":
                raise Undefined("not")
            return ("b", 1 - v)
        if kind not in "il":
            raise Undefined("bnot")
        return (kind, wrap(32 if kind == "i" else 64, ~v))
    if k == "C":
        kc, vc = pyref(t[1])
        return pyref(t[2]) if vc else pyref(t[3])
    op = t[1]
    if op in ("and", "or"):
        ka, va = pyref(t[2])
        if op == "and" and not va:
            return ("b", 0)
        if op == "or" and va:
            return ("b", 1)
        kb, vb = pyref(t[3])
        return ("b", 1 if vb else 0)
    ka, va = pyref(t[2])
    kb, vb = pyref(t[3])
    if ka == "b" or kb == "b":
        if op in ("eq", "neq") and ka == kb == "b":
            return ("b", int((va == vb) == (op == "eq")))
        raise Undefined("bool operand")
    j = ka if RANK[ka] >= RANK[kb] else kb
    if op in INTONLY and j in "fd":
        raise Undefined("int-only")
    va, vb = convert(ka, j, va), convert(kb, j, vb)
    if j in "il":
        n = 32 if j == "i" else 64
        if op == "add":
            return (j, wrap(n, va + vb))
        if op == "sub":
            return (j, wrap(n, va - vb))
        if op == "mul":
            return (j, wrap(n, va * vb))
        if op in ("div", "mod"):
            if vb == 0:
                raise Fault("division_by_zero")
            # MIN / -1 wraps around like every other integer operation, MIN % -1 is 0
            q = abs(va) // abs(vb)
            q = -q if (va < 0) != (vb < 0) else q
            return (j, wrap(n, q) if op == "div" else va - q * vb)
        if op in CMP:
            return ("b", int({"lt": va < vb, "gt": va > vb, "lte": va <= vb, "gte": va >= vb,
                              "eq": va == vb, "neq": va != vb}[op]))
        if op == "band":
            return (j, va & vb)
        if op == "bor":
            return (j, va | vb)
        if op == "bxor":
            return (j, va ^ vb)
        if not 0 <= vb < n:
            raise Undefined("shift count")
        if op == "shl":
            return (j, wrap(n, va << vb))
        return (j, va >> vb)
    if op in CMP:
        return ("b", fl_cmp(j, op, va, vb))
    if op == "div":
        if decode_float(j, vb)[0] == "zero":
            raise Fault("division_by_zero")
    return (j, fl_arith(j, op, va, vb))


def pyref_outcome(t):
    """-> ('val', kind, v) | ('fault', name) | ('trap',) | ('undef', why); NaNs canonical"""
    try:
        kind, v = pyref(t)
    except Fault as e:
        return ("fault", str(e))
    except Trap:
        return ("trap",)
    except Undefined as e:
        return ("undef", str(e))
    if v is None:
        return ("undef", "conversion")
    if kind == "f":
        v = al.canon32(v)
    elif kind == "d":
        v = al.canon64(v)
    return ("val", kind, v)


def fmt_fixed2(kind, bits):
    """C "%.2f" of the value (exact decimal rounding, ties to even)"""
    d = decode_float(kind, bits)
    if d[0] == "nan":
        return "nan"
    sgn = "-" if d[1] else ""
    if d[0] == "inf":
        return sgn + "inf"
    if d[0] == "zero":
        return sgn + "0.00"
    x = d[2] * 100
    q, r = divmod(x.numerator, x.denominator)
    if 2 * r > x.denominator or (2 * r == x.denominator and q & 1):
        q += 1
    return "%s%d.%02d" % (sgn, q // 100, q % 100)


def program_assign_lit(tl_kind, old, t):
    """var x = <old>; x = <expr over literals>; x   (the conversion wraps a literal tree)"""
    decl, names = enum_decl(t)
    body = expr_text(t, lambda i, leaf: lit_text(leaf, names))
    return "%sfunc main() -> %s { var x = %s; x = %s; x }" % (
        decl, KIND_TY[tl_kind], lit_text(("L", tl_kind, old), {}), body)


def subtrees(t, acc=None):
    """all proper and improper subtrees that are expressions of their own (P nodes skipped)"""
    acc = [] if acc is None else acc
    if t[0] == "P":
        return subtrees(t[1], acc)
    acc.append(t)
    if t[0] != "L":
        for c in t[1:]:
            if isinstance(c, tuple):
                subtrees(c, acc)
    return acc


def size(t):
    return 1 if t[0] == "L" else 1 + sum(size(c) for c in t[1:] if isinstance(c, tuple))


def random_tree(rng, depth, kinds=("b", "i", "l", "f", "d", "e")):
    """random source tree (not necessarily well typed: the model's typechecker filters)"""
    def leaf():
        k = rng.choice(kinds)
        return atom(value_tree(k, pick_value(rng, k, 0.5)))

    def go(d):
        if d == 0 or rng.random() < 0.2:
            return leaf()
        r = rng.random()
        if r < 0.12:
            return ("P", ("U", rng.choice(["neg", "bnot", "not"]), go(d - 1)))
        if r < 0.22:
            c = ("P", ("B", rng.choice(CMP + ["and", "or"]), go(d - 1), go(d - 1))) if rng.random() < 0.7 \
                else ("L", "b", rng.randrange(2))
            return ("P", ("C", c, go(d - 1), go(d - 1)))
        op = rng.choice(list(BINSYM))
        return ("P", ("B", op, go(d - 1), go(d - 1)))
    t = go(depth)
    return t[1] if t[0] == "P" else t


def typed_tree(rng, kind, depth):
    """random source tree whose static type is (very likely) `kind` in b i l f d; the model's
    typechecker has the last word"""
    order = ["i", "l", "f", "d"]

    def leaf(k):
        if k == "i" and rng.random() < 0.15:
            k = "e"
        return value_tree(k, pick_value(rng, k, 0.5))

    def num(k, d):
        if d == 0 or rng.random() < 0.2:
            return atom(leaf(k))
        r = rng.random()
        lower = order[rng.randrange(order.index(k) + 1)]
        a, b = (k, lower) if rng.random() < 0.5 else (lower, k)
        if r < 0.5:
            return ("P", ("B", rng.choice(ARITH), num(a, d - 1), num(b, d - 1)))
        if r < 0.7 and k in "il":
            op = rng.choice(INTONLY)
            if op in ("shl", "shr"):
                cnt = ("L", b, rng.choice([0, 1, 3, 7, 31] + ([40, 63] if k == "l" else [])))
                return ("P", ("B", op, num(a, d - 1), cnt))
            return ("P", ("B", op, num(a, d - 1), num(b, d - 1)))
        if r < 0.8:
            return ("P", ("U", "neg", num(k, d - 1)))
        if r < 0.85 and k in "il":
            return ("P", ("U", "bnot", num(k, d - 1)))
        if r < 0.95:
            return ("P", ("C", boolean(d - 1), num(k, d - 1), num(k, d - 1)))
        return ("P", num(k, d - 1))

    def boolean(d):
        if d == 0 or rng.random() < 0.15:
            return ("L", "b", rng.randrange(2))
        r = rng.random()
        if r < 0.55:
            return ("P", ("B", rng.choice(CMP), num(rng.choice(order), d - 1), num(rng.choice(order), d - 1)))
        if r < 0.8:
            return ("P", ("B", rng.choice(["and", "or"]), boolean(d - 1), boolean(d - 1)))
        if r < 0.9:
            return ("P", ("U", "not", boolean(d - 1)))
        return ("P", ("B", rng.choice(["eq", "neq"]), boolean(d - 1), boolean(d - 1)))

    t = boolean(depth) if kind == "b" else num(kind, depth)
    return t[1] if t[0] == "P" else t


# ----------------------------------------------------------------- enumred leg -------

ENUM_INTS = [0, 1, -1, 2, 3, 7, 8, 31, 32, 100, 46341, 65536, 123456789, 2147483647,
             -2147483647, -2147483648]


def enum_to_int(t):
    """the run-time counterpart: enumerator references become int operands"""
    if t[0] == "L":
        return ("L", "i", t[2]) if t[1] == "e" else t
    return (t[0],) + tuple(enum_to_int(c) if isinstance(c, tuple) else c for c in t[1:])


def as_int_tree(t, is_bool):
    """an enumerator must be an int: a bool expression is read through ?:"""
    return ("C", atom(t), ("L", "i", 10), ("L", "i", 11)) if is_bool else t


def program_enum(t):
    """enum E { k = <t> } with every enumerator reference (leaf kind e) declared in an enum
    of its own (values inside one enum must be distinct); main reads E::k back as an int"""
    ls = leaves(t)
    decls, texts = [], []
    for i, l in enumerate(ls):
        if l[1] == "e":
            decls.append("enum A%d { a = %s }" % (i, al.lit_int(l[2])))
            texts.append("A%d::a" % i)
        else:
            texts.append(lit_text(l, {}))
    body = expr_text(t, lambda i, leaf: texts[i])
    return "%s\nenum E { k = %s }\nfunc main() -> int { var x = E::k; x + 0 }" % ("\n".join(decls), body)


def enum_cases(rng, per_op, deep):
    """trees for the enumred leg: (tree as int-valued initialiser, root description)"""
    out = []

    def leaf(v=None):
        v = rng.choice(ENUM_INTS) if v is None else v
        if rng.random() < 0.3:
            v = rng.randrange(-50, 50)
        return ("L", "e" if rng.random() < 0.35 else "i", v)

    def pair(op):
        a = leaf()
        if op in ("shl", "shr"):
            return a, ("L", rng.choice("ie"), rng.choice([0, 1, 2, 30, 31]))
        r = rng.random()
        if r < 0.3:
            return a, ("L", rng.choice("ie"), a[2])          # equal operands
        if r < 0.4:
            return a, ("L", "i", rng.choice([a[2] - 1 if a[2] > al.INT_MIN else a[2], a[2] + 1 if a[2] < al.INT_MAX else a[2]]))
        return a, leaf()

    def br(t):
        # both branches of ?: must have the same type: an enumerator reference (its own enum
        # type) is brought to int first
        return ("P", ("B", "add", t, ("L", "i", 0))) if (t[0] == "L" and t[1] == "e") else t

    def cmp_tree():
        op = rng.choice(["lt", "gt", "lte", "gte"])
        a, b = pair(op)
        return ("P", ("B", op, a, b))

    def int_tree(d):
        if d == 0 or rng.random() < 0.25:
            return leaf()
        r = rng.random()
        if r < 0.55:
            op = rng.choice(["add", "sub", "mul", "div", "mod", "band", "bor", "bxor", "shl", "shr"])
            if op in ("shl", "shr"):
                return ("P", ("B", op, int_tree(d - 1), ("L", "i", rng.choice([0, 1, 5, 31]))))
            return ("P", ("B", op, int_tree(d - 1), int_tree(d - 1)))
        if r < 0.7:
            return ("P", ("U", rng.choice(["neg", "bnot"]), int_tree(d - 1)))
        return ("P", ("C", bool_tree(d - 1), br(int_tree(d - 1)), br(int_tree(d - 1))))

    def bool_tree(d):
        if d == 0 or rng.random() < 0.5:
            return cmp_tree() if rng.random() < 0.85 else ("L", "b", rng.randrange(2))
        r = rng.random()
        if r < 0.6:
            return ("P", ("B", rng.choice(["and", "or"]), bool_tree(d - 1), bool_tree(d - 1)))
        if r < 0.8:
            return ("P", ("U", "not", bool_tree(d - 1)))
        return ("P", ("B", rng.choice(["eq", "neq"]), bool_tree(d - 1), bool_tree(d - 1)))

    for op in ["add", "sub", "mul", "div", "mod", "band", "bor", "bxor", "shl", "shr"]:
        for k in range(per_op):
            a, b = pair(op)
            if op in ("div", "mod") and k == 0:
                a, b = ("L", "i", al.INT_MIN), ("L", "i", -1)
            if op in ("div", "mod") and k == 1:
                b = ("L", "i", 0)
            out.append(("B", op, a, b))
    for op in ["lt", "gt", "lte", "gte", "eq", "neq"]:
        for k in range(per_op if op not in ("eq", "neq") else max(2, per_op // 4)):
            a, b = pair(op)
            out.append(as_int_tree(("B", op, a, b), True))
    for op in ["neg", "bnot"]:
        for k in range(max(3, per_op // 2)):
            out.append(("U", op, leaf()))
    for k in range(per_op):
        out.append(as_int_tree(("B", rng.choice(["and", "or"]), cmp_tree(), cmp_tree()), True))
        out.append(as_int_tree(("U", "not", cmp_tree()), True))
        out.append(as_int_tree(("B", rng.choice(["eq", "neq"]), cmp_tree(), cmp_tree()), True))
        out.append(("C", cmp_tree(), br(leaf()), br(leaf())))
        # a division by zero in the operand that is never evaluated
        z = ("P", ("B", "lt", ("P", ("B", rng.choice(["div", "mod"]), leaf(), ("L", "i", 0))), leaf()))
        b = rng.randrange(2)
        out.append(as_int_tree(("B", rng.choice(["and", "or"]), ("L", "b", b), z), True))
        out.append(("C", ("L", "b", b), br(leaf()), ("P", ("B", "div", leaf(), ("L", "i", 0)))))
    for k in range(deep):
        t = int_tree(rng.choice([2, 2, 3]))
        out.append(t[1] if t[0] == "P" else t)
    return out
