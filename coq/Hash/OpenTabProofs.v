(* Proofs about the open-addressing table model OpenTabModel.v (no axioms).

   For every hash function and every table that is not full:
     - the probing loops never give up and never run out of fuel (add_blind_ok, lookup_total);
     - the blind add writes the first free slot of the probe sequence, keeps the probe-chain
       invariant `chain` and adds exactly one pair to the contents (add_blind_ok);
     - a lookup of a name that is present hits a slot holding that name (lookup_present), a lookup of
       an absent name misses (lookup_absent);
     - the rehash loop entry_resize re-inserts every pair: the contents are a permutation
       (entry_resize_ok) -- the lemma a wrong field in the rehash breaks;
     - the table object: tab_add keeps  count = occupied slots <= size*3/4 < size  (tab_add_ok). *)
From Coq Require Import List Arith NArith Bool Lia Permutation.
From NV Require Import Hash.OpenTabModel.
Import ListNotations.

Section OpenTabProofs.
  Variable name : Type.
  Variable name_eqb : name -> name -> bool.
  Variable hash : name -> N.
  Variable V : Type.
  Hypothesis name_eqb_spec : forall a b, name_eqb a b = true <-> a = b.

  Notation slot := (slot name V).
  Notation entries := (entries name V).
  Notation slot_at := (slot_at name V).
  Notation upd := (upd name V).
  Notation contents := (contents name V).
  Notation nocc := (nocc name V).
  Notation start := (start name hash).
  Notation entry_new := (entry_new name V).
  Notation add_loop := (add_loop name name_eqb V).
  Notation entry_add := (entry_add name name_eqb hash V).
  Notation lookup_loop := (lookup_loop name name_eqb V).
  Notation entry_lookup := (entry_lookup name name_eqb hash V).
  Notation lookup_val := (lookup_val name name_eqb hash V).
  Notation entry_resize := (entry_resize name name_eqb hash V).
  Notation tab := (tab name V).
  Notation tab_resize := (tab_resize name name_eqb hash V).
  Notation tab_add := (tab_add name name_eqb hash V).

  (* ---- lists of slots -------------------------------------------------------------------- *)
  Lemma length_upd : forall (es : entries) i s, length (upd es i s) = length es.
  Proof. induction es; destruct i; simpl; intros; auto. Qed.

  Lemma slot_at_upd_same : forall (es : entries) i s, i < length es -> slot_at (upd es i s) i = s.
  Proof.
    induction es; destruct i; simpl; intros; try lia; auto.
    apply IHes. lia.
  Qed.

  Lemma slot_at_upd_other : forall (es : entries) i j s, i <> j -> slot_at (upd es i s) j = slot_at es j.
  Proof.
    induction es; destruct i; destruct j; simpl; intros; try congruence; auto.
    apply IHes. congruence.
  Qed.

  Lemma upd_occ_mono : forall (es : entries) i j p,
      slot_at es j <> None -> slot_at (upd es i (Some p)) j <> None.
  Proof.
    unfold OpenTabModel.slot_at.
    induction es; destruct i; destruct j; simpl; intros; try congruence; auto.
  Qed.

  Lemma slot_at_overflow : forall (es : entries) i, length es <= i -> slot_at es i = None.
  Proof. intros. unfold OpenTabModel.slot_at. apply nth_overflow. assumption. Qed.

  Lemma slot_at_entry_new : forall size i, slot_at (entry_new size) i = None.
  Proof.
    intros. unfold OpenTabModel.slot_at, OpenTabModel.entry_new.
    destruct (Nat.lt_ge_cases i size).
    - apply nth_repeat.
    - apply nth_overflow. rewrite repeat_length. assumption.
  Qed.

  Lemma contents_entry_new : forall size, contents (entry_new size) = [].
  Proof. induction size; simpl; auto. Qed.

  Lemma length_entry_new : forall size, length (entry_new size) = size.
  Proof. intros. apply repeat_length. Qed.

  Lemma In_contents : forall (es : entries) p,
      In p (contents es) <-> exists i, slot_at es i = Some p.
  Proof using.
    unfold OpenTabModel.slot_at.
    induction es as [|[q|] t IH]; simpl; intros.
    - split; [intros []|]. intros [i H]. destruct i; discriminate.
    - split.
      + intros [H|H]. { exists 0. simpl. congruence. }
        apply IH in H. destruct H as [i H]. exists (S i). assumption.
      + intros [[|i] H]; simpl in H. { left. congruence. }
        right. apply IH. exists i. assumption.
    - rewrite IH. split; intros [i H].
      + exists (S i). assumption.
      + destruct i; simpl in H; [discriminate|]. exists i. assumption.
  Qed.

  Lemma contents_upd : forall (es : entries) i p,
      i < length es -> slot_at es i = None ->
      Permutation (contents (upd es i (Some p))) (p :: contents es).
  Proof.
    unfold OpenTabModel.slot_at.
    induction es as [|[q|] t IH]; simpl; intros i p Hi Hs; try lia.
    - destruct i; simpl in *; [discriminate|].
      eapply perm_trans; [apply perm_skip; apply IH; [lia|assumption]|]. apply perm_swap.
    - destruct i; simpl in *; [apply Permutation_refl|].
      apply IH; [lia|assumption].
  Qed.

  Lemma nocc_le_length : forall es : entries, nocc es <= length es.
  Proof.
    unfold OpenTabModel.nocc. induction es as [|[q|] t IH]; simpl; lia.
  Qed.

  Lemma free_slot_exists : forall es : entries,
      nocc es < length es -> exists i, i < length es /\ slot_at es i = None.
  Proof.
    unfold OpenTabModel.nocc, OpenTabModel.slot_at. induction es as [|[q|] t IH]; simpl; intros H; try lia.
    - destruct IH as [i [Hi Hs]]; [lia|]. exists (S i). split; [lia|assumption].
    - exists 0. split; [lia|reflexivity].
  Qed.

  (* ---- the probe sequence ---------------------------------------------------------------------- *)
  Definition pos (size s k : nat) : nat := (s + k) mod size.

  Lemma pos_succ : forall size s k, 0 < size -> (pos size s k + 1) mod size = pos size s (S k).
  Proof.
    intros. unfold pos. rewrite Nat.add_mod_idemp_l by lia. f_equal. lia.
  Qed.

  Lemma pos_lt : forall size s k, 0 < size -> pos size s k < size.
  Proof. intros. unfold pos. apply Nat.mod_upper_bound. lia. Qed.

  Lemma pos_0 : forall size s, s < size -> pos size s 0 = s.
  Proof. intros. unfold pos. rewrite Nat.add_0_r. apply Nat.mod_small. assumption. Qed.

  Lemma pos_reach : forall size s i, s < size -> i < size -> exists k, k < size /\ pos size s k = i.
  Proof.
    intros. exists ((i + size - s) mod size). split.
    - apply Nat.mod_upper_bound. lia.
    - unfold pos. rewrite Nat.add_mod_idemp_r by lia.
      replace (s + (i + size - s)) with (i + 1 * size) by lia.
      rewrite Nat.mod_add by lia. apply Nat.mod_small. assumption.
  Qed.

  Lemma start_lt : forall size n, 0 < size -> start size n < size.
  Proof.
    intros. unfold OpenTabModel.start.
    assert (hash n mod N.of_nat size < N.of_nat size)%N by (apply N.mod_lt; lia).
    lia.
  Qed.

  Lemma least : forall (P : nat -> Prop), (forall k, {P k} + {~ P k}) ->
      forall k0, P k0 -> exists k, k <= k0 /\ P k /\ forall j, j < k -> ~ P j.
  Proof.
    intros P dec.
    assert (forall k0, (exists k, k <= k0 /\ P k /\ forall j, j < k -> ~ P j) \/ (forall j, j <= k0 -> ~ P j)) as A.
    { induction k0.
      - destruct (dec 0).
        + left. exists 0. repeat split; auto. intros; lia.
        + right. intros j Hj. replace j with 0 by lia. assumption.
      - destruct IHk0 as [[k [Hk [Pk Hl]]]|Hn].
        + left. exists k. repeat split; auto.
        + destruct (dec (S k0)).
          * left. exists (S k0). repeat split; auto. intros j Hj. apply Hn. lia.
          * right. intros j Hj. destruct (Nat.eq_dec j (S k0)); [subst; assumption|apply Hn; lia]. }
    intros k0 Pk0. destruct (A k0) as [H|H]; [assumption|]. exfalso. apply (H k0); auto.
  Qed.

  (* ---- the loops: skipping d occupied slots ---------------------------------------------------- *)
  Lemma add_loop_skip : forall d dedup fuel (es : entries) size s t n,
      0 < size ->
      (forall j, t <= j < t + d ->
                 exists m v, slot_at es (pos size s j) = Some (m, v) /\ dedup && name_eqb m n = false) ->
      t + d <= size -> d <= fuel ->
      add_loop dedup fuel es size (pos size s t) t n =
      add_loop dedup (fuel - d) es size (pos size s (t + d)) (t + d) n.
  Proof.
    induction d; intros dedup fuel es size s t n Hsz Hocc Hb Hf.
    - rewrite Nat.add_0_r, Nat.sub_0_r. reflexivity.
    - destruct fuel as [|f]; [lia|]. simpl.
      destruct (Hocc t) as [m [v [Hs He]]]; [lia|]. rewrite Hs, He.
      replace (size <? t) with false by (symmetry; apply Nat.ltb_ge; lia).
      rewrite pos_succ by assumption.
      rewrite (IHd dedup f es size s (S t) n); try assumption; try lia.
      + replace (S t + d) with (t + S d) by lia. reflexivity.
      + intros j Hj. apply Hocc. lia.
  Qed.

  Lemma lookup_loop_skip : forall d fuel (es : entries) size s t n,
      0 < size ->
      (forall j, t <= j < t + d ->
                 exists m v, slot_at es (pos size s j) = Some (m, v) /\ name_eqb m n = false) ->
      t + d <= size -> d <= fuel ->
      lookup_loop fuel es size (pos size s t) t n =
      lookup_loop (fuel - d) es size (pos size s (t + d)) (t + d) n.
  Proof.
    induction d; intros fuel es size s t n Hsz Hocc Hb Hf.
    - rewrite Nat.add_0_r, Nat.sub_0_r. reflexivity.
    - destruct fuel as [|f]; [lia|]. simpl.
      destruct (Hocc t) as [m [v [Hs He]]]; [lia|]. rewrite Hs, He.
      replace (size <? t) with false by (symmetry; apply Nat.ltb_ge; lia).
      rewrite pos_succ by assumption.
      rewrite (IHd f es size s (S t) n); try assumption; try lia.
      + replace (S t + d) with (t + S d) by lia. reflexivity.
      + intros j Hj. apply Hocc. lia.
  Qed.

  Lemma entry_lookup_skip : forall k (es : entries) size n,
      0 < size -> k <= size ->
      (forall j, j < k ->
                 exists m v, slot_at es (pos size (start size n) j) = Some (m, v) /\ name_eqb m n = false) ->
      entry_lookup es size n =
      lookup_loop (size + 3 - k) es size (pos size (start size n) k) k n.
  Proof.
    intros k es size n Hsz Hk Hocc.
    pose proof (start_lt size n Hsz) as Hs.
    unfold OpenTabModel.entry_lookup.
    replace (size =? 0) with false by (symmetry; apply Nat.eqb_neq; lia).
    rewrite <- (pos_0 size (start size n) Hs) at 1.
    rewrite (lookup_loop_skip k (size + 3) es size (start size n) 0 n); try assumption; try lia.
    - reflexivity.
    - intros j Hj. apply Hocc. lia.
  Qed.

  (* the first free slot of the probe sequence of n, in a table that is not full *)
  Lemma first_free : forall (es : entries) size s,
      0 < size -> length es = size -> nocc es < size -> s < size ->
      exists k, k < size /\ slot_at es (pos size s k) = None /\
                forall j, j < k -> slot_at es (pos size s j) <> None.
  Proof.
    intros es size s Hsz Hlen Hfree Hs.
    destruct (free_slot_exists es) as [i [Hi Hn]]; [lia|].
    destruct (pos_reach size s i) as [k0 [Hk0 Hp]]; try lia.
    destruct (least (fun k => slot_at es (pos size s k) = None)) with (k0 := k0) as [k [Hk [Pk Hl]]].
    - intros k. destruct (slot_at es (pos size s k)); [right; discriminate|left; reflexivity].
    - rewrite Hp. assumption.
    - exists k. repeat split; try assumption. lia.
  Qed.

  (* ---- the probe-chain invariant ----------------------------------------------------------------- *)
  Definition chain (es : entries) (size : nat) : Prop :=
    forall i n v, slot_at es i = Some (n, v) ->
      exists k, k < size /\ i = pos size (start size n) k /\
                forall j, j < k -> slot_at es (pos size (start size n) j) <> None.

  Lemma chain_entry_new : forall size, chain (entry_new size) size.
  Proof. intros size i n v H. rewrite slot_at_entry_new in H. discriminate. Qed.

  Lemma chain_upd : forall (es : entries) size n v k,
      0 < size -> length es = size -> chain es size -> k < size ->
      (forall j, j < k -> slot_at es (pos size (start size n) j) <> None) ->
      chain (upd es (pos size (start size n) k) (Some (n, v))) size.
  Proof.
    intros es size n v k Hsz Hlen Hch Hk Hocc i m w Hi.
    destruct (Nat.eq_dec (pos size (start size n) k) i) as [E|E].
    - subst i. rewrite slot_at_upd_same in Hi by (rewrite Hlen; apply pos_lt; assumption).
      injection Hi as -> ->. exists k. repeat split; try assumption.
      intros j Hj. apply upd_occ_mono. apply Hocc. assumption.
    - rewrite slot_at_upd_other in Hi by assumption.
      destruct (Hch i m w Hi) as [k' [Hk' [Hp Ho]]]. exists k'. repeat split; try assumption.
      intros j Hj. apply upd_occ_mono. apply Ho. assumption.
  Qed.

  (* ---- the blind add ---------------------------------------------------------------------------- *)
  Lemma add_blind_ok : forall (es : entries) size n v,
      0 < size -> length es = size -> nocc es < size ->
      exists k, k < size /\
        slot_at es (pos size (start size n) k) = None /\
        (forall j, j < k -> slot_at es (pos size (start size n) j) <> None) /\
        entry_add false es size n v = AddOk (upd es (pos size (start size n) k) (Some (n, v))).
  Proof.
    intros es size n v Hsz Hlen Hfree.
    pose proof (start_lt size n Hsz) as Hs.
    destruct (first_free es size (start size n) Hsz Hlen Hfree Hs) as [k [Hk [Hn Ho]]].
    exists k. repeat split; try assumption.
    unfold OpenTabModel.entry_add.
    replace (size =? 0) with false by (symmetry; apply Nat.eqb_neq; lia).
    rewrite <- (pos_0 size (start size n) Hs) at 1.
    rewrite (add_loop_skip k false (size + 3) es size (start size n) 0 n); try assumption; try lia.
    - simpl. destruct (size + 3 - k) eqn:F; [lia|]. simpl. rewrite Hn. reflexivity.
    - intros j Hj. specialize (Ho j ltac:(lia)).
      destruct (slot_at es (pos size (start size n) j)) as [[m w]|]; [|congruence].
      exists m, w. split; reflexivity.
  Qed.

  Lemma add_blind_spec : forall (es : entries) size n v,
      0 < size -> length es = size -> nocc es < size -> chain es size ->
      exists es', entry_add false es size n v = AddOk es' /\
                  length es' = size /\ chain es' size /\
                  Permutation (contents es') ((n, v) :: contents es).
  Proof.
    intros es size n v Hsz Hlen Hfree Hch.
    destruct (add_blind_ok es size n v Hsz Hlen Hfree) as [k [Hk [Hn [Ho Ha]]]].
    eexists. split; [exact Ha|]. repeat split.
    - rewrite length_upd. assumption.
    - apply chain_upd; assumption.
    - apply contents_upd; [rewrite Hlen; apply pos_lt; assumption|assumption].
  Qed.

  (* ---- lookup ------------------------------------------------------------------------------------- *)
  (* no chain needed: the loop ends at the first slot that is free or holds an equal name *)
  Lemma lookup_total : forall (es : entries) size n,
      0 < size -> length es = size -> nocc es < size ->
      entry_lookup es size n = Miss \/
      exists i m v, entry_lookup es size n = Hit i /\ slot_at es i = Some (m, v) /\ m = n.
  Proof.
    intros es size n Hsz Hlen Hfree.
    pose proof (start_lt size n Hsz) as Hs.
    destruct (first_free es size (start size n) Hsz Hlen Hfree Hs) as [k0 [Hk0 [Hn0 _]]].
    set (P := fun k => match slot_at es (pos size (start size n) k) with
                       | None => True
                       | Some (m, _) => name_eqb m n = true
                       end).
    destruct (least P) with (k0 := k0) as [k [Hk [Pk Hl]]].
    - intros k. unfold P. destruct (slot_at es (pos size (start size n) k)) as [[m w]|]; [|left; exact I].
      destruct (name_eqb m n); [left; reflexivity|right; discriminate].
    - unfold P. rewrite Hn0. exact I.
    - rewrite (entry_lookup_skip k es size n); try assumption; try lia.
      + destruct (size + 3 - k) eqn:F; [lia|]. simpl. unfold P in Pk.
        destruct (slot_at es (pos size (start size n) k)) as [[m w]|] eqn:E; [|left; reflexivity].
        rewrite Pk. right. exists (pos size (start size n) k), m, w. repeat split; try assumption.
        apply name_eqb_spec. assumption.
      + intros j Hj. specialize (Hl j ltac:(lia)). unfold P in Hl.
        destruct (slot_at es (pos size (start size n) j)) as [[m w]|]; [|exfalso; apply Hl; exact I].
        exists m, w. split; [reflexivity|]. destruct (name_eqb m n); [exfalso; apply Hl; reflexivity|reflexivity].
  Qed.

  (* with the chain invariant a present name is reached before any free slot *)
  Lemma lookup_present : forall (es : entries) size i n v,
      0 < size -> length es = size -> chain es size -> slot_at es i = Some (n, v) ->
      exists i' v', entry_lookup es size n = Hit i' /\ slot_at es i' = Some (n, v').
  Proof.
    intros es size i n v Hsz Hlen Hch Hi.
    pose proof (start_lt size n Hsz) as Hs.
    destruct (Hch i n v Hi) as [k0 [Hk0 [Hp Ho]]].
    set (P := fun k => match slot_at es (pos size (start size n) k) with
                       | None => False
                       | Some (m, _) => name_eqb m n = true
                       end).
    destruct (least P) with (k0 := k0) as [k [Hk [Pk Hl]]].
    - intros k. unfold P. destruct (slot_at es (pos size (start size n) k)) as [[m w]|]; [|right; tauto].
      destruct (name_eqb m n); [left; reflexivity|right; discriminate].
    - unfold P. rewrite <- Hp, Hi. apply name_eqb_spec. reflexivity.
    - rewrite (entry_lookup_skip k es size n); try assumption; try lia.
      + destruct (size + 3 - k) eqn:F; [lia|]. simpl. unfold P in Pk.
        destruct (slot_at es (pos size (start size n) k)) as [[m w]|] eqn:E; [|contradiction].
        rewrite Pk. apply name_eqb_spec in Pk. subst m.
        exists (pos size (start size n) k), w. split; [reflexivity|assumption].
      + intros j Hj. specialize (Hl j ltac:(lia)). unfold P in Hl.
        specialize (Ho j ltac:(lia)).
        destruct (slot_at es (pos size (start size n) j)) as [[m w]|]; [|congruence].
        exists m, w. split; [reflexivity|]. destruct (name_eqb m n); [exfalso; apply Hl; reflexivity|reflexivity].
  Qed.

  Lemma lookup_absent : forall (es : entries) size n,
      0 < size -> length es = size -> nocc es < size ->
      (forall i v, slot_at es i <> Some (n, v)) ->
      entry_lookup es size n = Miss.
  Proof.
    intros es size n Hsz Hlen Hfree Habs.
    destruct (lookup_total es size n Hsz Hlen Hfree) as [H|[i [m [v [_ [Hs Hm]]]]]]; [assumption|].
    subst m. exfalso. eapply Habs. eassumption.
  Qed.

  (* ---- the rehash loop ------------------------------------------------------------------------------ *)
  Lemma entry_resize_ok : forall (old acc : entries) size',
      0 < size' -> length acc = size' -> chain acc size' -> nocc acc + nocc old < size' ->
      exists new, entry_resize false old acc size' = AddOk new /\
                  length new = size' /\ chain new size' /\
                  Permutation (contents new) (contents old ++ contents acc).
  Proof.
    induction old as [|[[n v]|] t IH]; intros acc size' Hsz Hlen Hch Hfree.
    - exists acc. simpl. repeat split; auto.
    - simpl.
      assert (nocc acc < size') as Hf.
      { unfold OpenTabModel.nocc in *. simpl in Hfree. lia. }
      destruct (add_blind_spec acc size' n v Hsz Hlen Hf Hch) as [acc' [Ha [Hl' [Hc' Hp']]]].
      rewrite Ha.
      destruct (IH acc' size' Hsz Hl' Hc') as [new [Hr [Hl'' [Hc'' Hp'']]]].
      { unfold OpenTabModel.nocc in *. rewrite (Permutation_length Hp'). simpl in *. lia. }
      exists new. repeat split; try assumption.
      eapply perm_trans; [exact Hp''|].
      eapply perm_trans; [apply Permutation_app_head; exact Hp'|].
      simpl. apply Permutation_sym. apply Permutation_middle.
    - simpl. apply IH; try assumption.
  Qed.

  (* ---- the table object -------------------------------------------------------------------------------- *)
  Definition tab_inv (t : tab) : Prop :=
    0 < t_size t /\ length (t_entries t) = t_size t /\ chain (t_entries t) (t_size t) /\
    t_count t = nocc (t_entries t) /\ t_count t <= t_size t * 3 / 4.

  Lemma three_quarters_lt : forall size, 0 < size -> size * 3 / 4 < size.
  Proof. intros. apply Nat.div_lt_upper_bound; lia. Qed.

  Lemma three_quarters_double : forall size, 0 < size -> size * 3 / 4 + 1 <= size * 2 * 3 / 4.
  Proof.
    intros size H.
    pose proof (Nat.div_mod (size * 3) 4 ltac:(lia)).
    pose proof (Nat.mod_upper_bound (size * 3) 4 ltac:(lia)).
    pose proof (Nat.div_mod (size * 2 * 3) 4 ltac:(lia)).
    pose proof (Nat.mod_upper_bound (size * 2 * 3) 4 ltac:(lia)).
    lia.
  Qed.

  (* resize of a table whose entries are well formed; count may exceed the threshold by one *)
  Lemma tab_resize_ok : forall t : tab,
      0 < t_size t -> length (t_entries t) = t_size t -> chain (t_entries t) (t_size t) ->
      t_count t = nocc (t_entries t) -> t_count t <= t_size t * 3 / 4 + 1 ->
      exists t', tab_resize false t = Ok t' /\ tab_inv t' /\
                 Permutation (contents (t_entries t')) (contents (t_entries t)) /\
                 (t_size t' = t_size t \/ t_size t' = t_size t * 2).
  Proof.
    intros t Hsz Hlen Hch Hcnt Hle. unfold OpenTabModel.tab_resize.
    destruct (t_size t * 3 / 4 <? t_count t) eqn:E.
    - apply Nat.ltb_lt in E.
      destruct (entry_resize_ok (t_entries t) (entry_new (t_size t * 2)) (t_size t * 2)) as [new [Hr [Hl [Hc Hp]]]].
      + lia.
      + apply length_entry_new.
      + apply chain_entry_new.
      + unfold OpenTabModel.nocc at 1. rewrite contents_entry_new. simpl.
        pose proof (nocc_le_length (t_entries t)). lia.
      + rewrite Hr. eexists. split; [reflexivity|]. rewrite contents_entry_new, app_nil_r in Hp.
        repeat split; cbn [t_size t_count t_entries]; try assumption; try lia.
        * unfold OpenTabModel.nocc in *. rewrite (Permutation_length Hp). assumption.
        * pose proof (three_quarters_double (t_size t) Hsz). lia.
    - apply Nat.ltb_ge in E. exists t. repeat split; try assumption; auto.
  Qed.

  Lemma tab_add_ok : forall (t : tab) n v,
      tab_inv t ->
      exists t', tab_add t n v = Ok t' /\ tab_inv t' /\
                 Permutation (contents (t_entries t')) ((n, v) :: contents (t_entries t)) /\
                 (t_size t' = t_size t \/ t_size t' = t_size t * 2).
  Proof.
    intros t n v [Hsz [Hlen [Hch [Hcnt Hle]]]].
    pose proof (three_quarters_lt (t_size t) Hsz) as Hq.
    destruct (add_blind_spec (t_entries t) (t_size t) n v Hsz Hlen ltac:(lia) Hch) as [es' [Ha [Hl' [Hc' Hp']]]].
    unfold OpenTabModel.tab_add. rewrite Ha.
    destruct (tab_resize_ok (mk_tab (t_size t) (S (t_count t)) es')) as [t' [Hr [Hi [Hp Hs]]]];
      cbn [t_size t_count t_entries]; try assumption.
    - unfold OpenTabModel.nocc in *. rewrite (Permutation_length Hp'). cbn [length]. lia.
    - lia.
    - exists t'. cbn [t_size t_count t_entries] in *.
      split; [assumption|]. split; [assumption|]. split; [|assumption].
      eapply perm_trans; eassumption.
  Qed.

  Lemma tab_inv_new : forall size, 0 < size -> tab_inv (mk_tab size 0 (entry_new size)).
  Proof.
    intros size H. repeat split; simpl; try assumption.
    - apply length_entry_new.
    - apply chain_entry_new.
    - unfold OpenTabModel.nocc. rewrite contents_entry_new. reflexivity.
    - lia.
  Qed.

  Lemma tab_inv_not_full : forall t : tab, tab_inv t -> nocc (t_entries t) < t_size t.
  Proof.
    intros t [Hsz [_ [_ [Hc Hle]]]]. pose proof (three_quarters_lt (t_size t) Hsz). lia.
  Qed.

  (* ---- the dedup add (strtab_entry_add_string) ------------------------------------------------------ *)
  Definition absent (es : entries) (n : name) : Prop := forall i v, slot_at es i <> Some (n, v).

  Lemma entry_add_skip : forall k dedup (es : entries) size n v,
      0 < size -> k <= size ->
      (forall j, j < k ->
                 exists m w, slot_at es (pos size (start size n) j) = Some (m, w) /\ dedup && name_eqb m n = false) ->
      entry_add dedup es size n v =
      match add_loop dedup (size + 3 - k) es size (pos size (start size n) k) k n with
      | Slot i => AddOk (upd es i (Some (n, v)))
      | Existing i => AddExisting i
      | GiveUp => AddAbort
      | OutOfFuel => AddOutOfFuel
      end.
  Proof.
    intros k dedup es size n v Hsz Hk Hocc.
    pose proof (start_lt size n Hsz) as Hs.
    unfold OpenTabModel.entry_add.
    replace (size =? 0) with false by (symmetry; apply Nat.eqb_neq; lia).
    rewrite <- (pos_0 size (start size n) Hs) at 1.
    rewrite (add_loop_skip k dedup (size + 3) es size (start size n) 0 n); try assumption; try lia.
    - reflexivity.
    - intros j Hj. apply Hocc. lia.
  Qed.

  Lemma add_dedup_absent_ok : forall (es : entries) size n v,
      0 < size -> length es = size -> nocc es < size -> absent es n ->
      exists k, k < size /\
        slot_at es (pos size (start size n) k) = None /\
        (forall j, j < k -> slot_at es (pos size (start size n) j) <> None) /\
        entry_add true es size n v = AddOk (upd es (pos size (start size n) k) (Some (n, v))).
  Proof.
    intros es size n v Hsz Hlen Hfree Habs.
    pose proof (start_lt size n Hsz) as Hs.
    destruct (first_free es size (start size n) Hsz Hlen Hfree Hs) as [k [Hk [Hn Ho]]].
    exists k. repeat split; try assumption.
    rewrite (entry_add_skip k true es size n v); try assumption; try lia.
    - destruct (size + 3 - k) eqn:F; [lia|]. simpl. rewrite Hn. reflexivity.
    - intros j Hj. specialize (Ho j Hj).
      destruct (slot_at es (pos size (start size n) j)) as [[m w]|] eqn:E; [|congruence].
      exists m, w. split; [reflexivity|]. simpl.
      destruct (name_eqb m n) eqn:F; [|reflexivity].
      apply name_eqb_spec in F. subst m. exfalso. eapply Habs. eassumption.
  Qed.

  Lemma add_dedup_absent_spec : forall (es : entries) size n v,
      0 < size -> length es = size -> nocc es < size -> chain es size -> absent es n ->
      exists es', entry_add true es size n v = AddOk es' /\
                  length es' = size /\ chain es' size /\
                  Permutation (contents es') ((n, v) :: contents es).
  Proof.
    intros es size n v Hsz Hlen Hfree Hch Habs.
    destruct (add_dedup_absent_ok es size n v Hsz Hlen Hfree Habs) as [k [Hk [Hn [Ho Ha]]]].
    eexists. split; [exact Ha|]. repeat split.
    - rewrite length_upd. assumption.
    - apply chain_upd; assumption.
    - apply contents_upd; [rewrite Hlen; apply pos_lt; assumption|assumption].
  Qed.

  Lemma add_dedup_present : forall (es : entries) size i n v w,
      0 < size -> length es = size -> chain es size -> slot_at es i = Some (n, v) ->
      exists i' v', entry_add true es size n w = AddExisting i' /\ slot_at es i' = Some (n, v').
  Proof.
    intros es size i n v w Hsz Hlen Hch Hi.
    destruct (Hch i n v Hi) as [k0 [Hk0 [Hp Ho]]].
    set (P := fun k => match slot_at es (pos size (start size n) k) with
                       | None => False
                       | Some (m, _) => name_eqb m n = true
                       end).
    destruct (least P) with (k0 := k0) as [k [Hk [Pk Hl]]].
    - intros k. unfold P. destruct (slot_at es (pos size (start size n) k)) as [[m u]|]; [|right; tauto].
      destruct (name_eqb m n); [left; reflexivity|right; discriminate].
    - unfold P. rewrite <- Hp, Hi. apply name_eqb_spec. reflexivity.
    - rewrite (entry_add_skip k true es size n w); try assumption; try lia.
      + destruct (size + 3 - k) eqn:F; [lia|]. simpl. unfold P in Pk.
        destruct (slot_at es (pos size (start size n) k)) as [[m u]|] eqn:E; [|contradiction].
        rewrite Pk. simpl. apply name_eqb_spec in Pk. subst m.
        exists (pos size (start size n) k), u. split; [reflexivity|assumption].
      + intros j Hj. specialize (Hl j Hj). unfold P in Hl.
        specialize (Ho j ltac:(lia)).
        destruct (slot_at es (pos size (start size n) j)) as [[m u]|]; [|congruence].
        exists m, u. split; [reflexivity|]. simpl.
        destruct (name_eqb m n); [exfalso; apply Hl; reflexivity|reflexivity].
  Qed.

  Lemma absent_notin : forall (es : entries) n, ~ In n (map fst (contents es)) -> absent es n.
  Proof.
    intros es n H i v Hs. apply H. apply (in_map fst (contents es) (n, v)).
    apply In_contents. exists i. assumption.
  Qed.

  (* rehash with the dedup add: the old entries have pairwise different names, none of them in acc *)
  Lemma entry_resize_dedup_ok : forall (old acc : entries) size',
      0 < size' -> length acc = size' -> chain acc size' -> nocc acc + nocc old < size' ->
      NoDup (map fst (contents old)) ->
      (forall n, In n (map fst (contents old)) -> ~ In n (map fst (contents acc))) ->
      exists new, entry_resize true old acc size' = AddOk new /\
                  length new = size' /\ chain new size' /\
                  Permutation (contents new) (contents old ++ contents acc).
  Proof.
    induction old as [|[[n v]|] t IH]; intros acc size' Hsz Hlen Hch Hfree Hnd Hdis.
    - exists acc. simpl. repeat split; auto.
    - simpl. simpl in Hnd. apply NoDup_cons_iff in Hnd. destruct Hnd as [Hx Hnd'].
      assert (nocc acc < size') as Hf.
      { unfold OpenTabModel.nocc in *. simpl in Hfree. lia. }
      assert (absent acc n) as Habs.
      { apply absent_notin. apply Hdis. simpl. left. reflexivity. }
      destruct (add_dedup_absent_spec acc size' n v Hsz Hlen Hf Hch Habs) as [acc' [Ha [Hl' [Hc' Hp']]]].
      rewrite Ha.
      destruct (IH acc' size' Hsz Hl' Hc') as [new [Hr [Hl'' [Hc'' Hp'']]]].
      { unfold OpenTabModel.nocc in *. rewrite (Permutation_length Hp'). simpl in *. lia. }
      { assumption. }
      { intros m Hm F.
        apply (Permutation_in (l' := map fst ((n, v) :: contents acc))) in F; [|apply Permutation_map; assumption].
        simpl in F. destruct F as [F|F].
        - subst m. apply Hx. assumption.
        - apply (Hdis m); [simpl; right; assumption|assumption]. }
      exists new. repeat split; try assumption.
      eapply perm_trans; [exact Hp''|].
      eapply perm_trans; [apply Permutation_app_head; exact Hp'|].
      simpl. apply Permutation_sym. apply Permutation_middle.
    - simpl. apply IH; try assumption.
  Qed.

  Lemma tab_resize_dedup_ok : forall t : tab,
      0 < t_size t -> length (t_entries t) = t_size t -> chain (t_entries t) (t_size t) ->
      NoDup (map fst (contents (t_entries t))) ->
      exists t', tab_resize true t = Ok t' /\
                 0 < t_size t' /\ length (t_entries t') = t_size t' /\ chain (t_entries t') (t_size t') /\
                 Permutation (contents (t_entries t')) (contents (t_entries t)) /\
                 t_count t' = t_count t /\
                 ((t_size t * 3 / 4 < t_count t /\ t_size t' = t_size t * 2) \/
                  (t_count t <= t_size t * 3 / 4 /\ t' = t)).
  Proof.
    intros t Hsz Hlen Hch Hnd. unfold OpenTabModel.tab_resize.
    destruct (t_size t * 3 / 4 <? t_count t) eqn:E.
    - apply Nat.ltb_lt in E.
      destruct (entry_resize_dedup_ok (t_entries t) (entry_new (t_size t * 2)) (t_size t * 2)) as [new [Hr [Hl [Hc Hp]]]].
      + lia.
      + apply length_entry_new.
      + apply chain_entry_new.
      + unfold OpenTabModel.nocc at 1. rewrite contents_entry_new. simpl.
        pose proof (nocc_le_length (t_entries t)). lia.
      + assumption.
      + intros n _. rewrite contents_entry_new. simpl. tauto.
      + rewrite Hr. eexists. split; [reflexivity|]. rewrite contents_entry_new, app_nil_r in Hp.
        cbn [t_size t_count t_entries].
        split; [lia|]. split; [assumption|]. split; [assumption|]. split; [assumption|].
        split; [reflexivity|]. left. split; [assumption|reflexivity].
    - apply Nat.ltb_ge in E. exists t.
      split; [reflexivity|]. split; [assumption|]. split; [assumption|]. split; [assumption|].
      split; [apply Permutation_refl|]. split; [reflexivity|]. right. split; [assumption|reflexivity].
  Qed.

End OpenTabProofs.
