(* Arith/FloatOps.v — IEEE-754 binary32 (`float`) and binary64 (`double`) as the C code uses
   them on x86-64/SSE (FLT_EVAL_METHOD = 0, round to nearest even), over
   Coq.Floats.SpecFloat (axiom-free, executable).  A floating value is its bit pattern
   (0 <= bits < 2^width); `decode`/`encode` are our own codec between patterns and
   spec_float.  SpecFloat has a single NaN: every NaN pattern decodes to S754_nan and S754_nan
   encodes to the positive quiet NaN; the correspondence canonicalises NaNs the same way.
   Definitions only (proofs: Arith/FloatProofs.v).

   That SFadd/SFsub/SFmul/SFdiv/binary_round/binary_normalize compute the IEEE-754
   round-to-nearest-even result is Flocq's theorem (Flocq.IEEE754.BinarySingleNaN:
   Bplus_correct, Bmult_correct, Bdiv_correct, binary_round_correct, through B2SF/SF2B);
   cited, not re-proved here — Flocq is NOT imported because its definitions bring in the
   classical real-number axioms.

   Anchors: back/vmexec.c vm_execute_op_*_type(float, float / double, double),
   vm_execute_type_to_type; front/constred.c expr_conv_constred.

   C undefined behaviour made total as gcc/x86-64 executes it: a float->integer conversion
   whose truncated value does not fit (or NaN/inf) yields the "integer indefinite" value
   INT_MIN / LLONG_MIN (cvttss2si/cvttsd2si).  Excluded from the correspondence. *)
From Coq Require Import ZArith Bool Floats.SpecFloat.
From NV Require Import Arith.Bits.
Local Open Scope Z_scope.

Record fmt := { f_prec : Z; f_emax : Z; f_ebits : Z }.

Definition b32 : fmt := {| f_prec := 24; f_emax := 128; f_ebits := 8 |}.
Definition b64 : fmt := {| f_prec := 53; f_emax := 1024; f_ebits := 11 |}.

Definition mbits (f : fmt) : Z := f_prec f - 1.
Definition fwidth (f : fmt) : Z := 1 + f_ebits f + mbits f.
Definition bias (f : fmt) : Z := f_emax f - 1.
Definition femin (f : fmt) : Z := emin (f_prec f) (f_emax f).
Definition emask (f : fmt) : Z := 2 ^ f_ebits f - 1.

Definition sign_bit (f : fmt) (s : bool) : Z := if s then 2 ^ (fwidth f - 1) else 0.

Definition decode (f : fmt) (bits : Z) : spec_float :=
  let u := bits mod 2 ^ fwidth f in
  let s := 2 ^ (fwidth f - 1) <=? u in
  let E := (u / 2 ^ mbits f) mod 2 ^ f_ebits f in
  let M := u mod 2 ^ mbits f in
  if E =? 0 then
    match M with
    | Zpos m => S754_finite s m (femin f)
    | _ => S754_zero s
    end
  else if E =? emask f then
    (if M =? 0 then S754_infinity s else S754_nan)
  else
    match M + 2 ^ mbits f with
    | Zpos m => S754_finite s m (E - bias f - mbits f)
    | _ => S754_nan (* impossible *)
    end.

Definition qnan (f : fmt) : Z := emask f * 2 ^ mbits f + 2 ^ (mbits f - 1).

Definition encode (f : fmt) (x : spec_float) : Z :=
  match x with
  | S754_zero s => sign_bit f s
  | S754_infinity s => sign_bit f s + emask f * 2 ^ mbits f
  | S754_nan => qnan f
  | S754_finite s m e =>
      if 2 ^ mbits f <=? Zpos m
      then sign_bit f s + (e + bias f + mbits f) * 2 ^ mbits f + (Zpos m - 2 ^ mbits f)
      else sign_bit f s + Zpos m
  end.

(* canonical representative of a pattern (identity except on NaNs and out-of-width input) *)
Definition canon (f : fmt) (bits : Z) : Z := encode f (decode f bits).

Definition is_nan (f : fmt) (bits : Z) : bool :=
  match decode f bits with S754_nan => true | _ => false end.

(* `x == 0` in C: true for +0 and -0 *)
Definition fis_zero (f : fmt) (a : Z) : bool :=
  match decode f a with S754_zero _ => true | _ => false end.

Definition fadd (f : fmt) (a b : Z) : Z :=
  encode f (SFadd (f_prec f) (f_emax f) (decode f a) (decode f b)).
Definition fsub (f : fmt) (a b : Z) : Z :=
  encode f (SFsub (f_prec f) (f_emax f) (decode f a) (decode f b)).
Definition fmul (f : fmt) (a b : Z) : Z :=
  encode f (SFmul (f_prec f) (f_emax f) (decode f a) (decode f b)).
Definition fdiv (f : fmt) (a b : Z) : Z :=
  encode f (SFdiv (f_prec f) (f_emax f) (decode f a) (decode f b)).
Definition fneg (f : fmt) (a : Z) : Z := encode f (SFopp (decode f a)).

Definition bz (b : bool) : Z := if b then 1 else 0.

(* C comparisons: every ordered comparison with a NaN is false, != is true *)
Definition fltb (f : fmt) (a b : Z) : bool := SFltb (decode f a) (decode f b).
Definition fgtb (f : fmt) (a b : Z) : bool := SFltb (decode f b) (decode f a).
Definition fleb (f : fmt) (a b : Z) : bool := SFleb (decode f a) (decode f b).
Definition fgeb (f : fmt) (a b : Z) : bool := SFleb (decode f b) (decode f a).
Definition feqb (f : fmt) (a b : Z) : bool := SFeqb (decode f a) (decode f b).
Definition fneb (f : fmt) (a b : Z) : bool := negb (SFeqb (decode f a) (decode f b)).

Definition flt (f : fmt) (a b : Z) : Z := bz (fltb f a b).
Definition fgt (f : fmt) (a b : Z) : Z := bz (fgtb f a b).
Definition fle (f : fmt) (a b : Z) : Z := bz (fleb f a b).
Definition fge (f : fmt) (a b : Z) : Z := bz (fgeb f a b).
Definition feq (f : fmt) (a b : Z) : Z := bz (feqb f a b).
Definition fne (f : fmt) (a b : Z) : Z := bz (fneb f a b).

(* integer -> floating: round to nearest even; 0 gives +0 *)
Definition of_Z (f : fmt) (z : Z) : Z :=
  encode f (binary_normalize (f_prec f) (f_emax f) z 0 false).

(* floating -> integer: truncation toward zero of the exact value *)
Definition trunc_sf (x : spec_float) : option Z :=
  match x with
  | S754_zero _ => Some 0
  | S754_finite s m e =>
      let a := match e with
               | Z0 => Zpos m
               | Zpos _ => Zpos m * 2 ^ e
               | Zneg p => Zpos m / 2 ^ (Zpos p)
               end in
      Some (if s then - a else a)
  | _ => None
  end.

Definition to_Z (n : Z) (f : fmt) (bits : Z) : Z :=
  match trunc_sf (decode f bits) with
  | Some z => if in_rangeb n z then z else int_min n
  | None => int_min n
  end.

(* is the conversion defined in C? (used by the harness to exclude UB inputs) *)
Definition to_Z_defined (n : Z) (f : fmt) (bits : Z) : bool :=
  match trunc_sf (decode f bits) with
  | Some z => in_rangeb n z
  | None => false
  end.

(* binary32 -> binary64: the same value, renormalised to a 53-bit mantissa *)
Definition widen (x : spec_float) : spec_float :=
  match x with
  | S754_finite s m e =>
      match 53 - Zpos (digits2_pos m) with
      | Zpos d => S754_finite s (shift_pos d m) (e - Zpos d)
      | _ => x
      end
  | _ => x
  end.

(* binary64 -> binary32: round to nearest even, overflow to infinity, gradual underflow *)
Definition narrow (x : spec_float) : spec_float :=
  match x with
  | S754_finite s m e => binary_round 24 128 s m e
  | _ => x
  end.

Definition f2d (a : Z) : Z := encode b64 (widen (decode b32 a)).
Definition d2f (a : Z) : Z := encode b32 (narrow (decode b64 a)).

(* same real value, without real numbers: equal sign and m1 * 2^e1 = m2 * 2^e2, compared
   after scaling both by 2^(- min e1 e2) *)
Definition same_value (x y : spec_float) : Prop :=
  match x, y with
  | S754_zero s, S754_zero s' => s = s'
  | S754_infinity s, S754_infinity s' => s = s'
  | S754_nan, S754_nan => True
  | S754_finite s m e, S754_finite s' m' e' =>
      s = s' /\ Zpos m * 2 ^ (e - Z.min e e') = Zpos m' * 2 ^ (e' - Z.min e e')
  | _, _ => False
  end.

(* a pattern of the right width *)
Definition fvalid (f : fmt) (bits : Z) : Prop := 0 <= bits < 2 ^ fwidth f.
