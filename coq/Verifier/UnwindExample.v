(* A concrete module in the emitter's layout on which the hypotheses of the theorems of
   Verifier/Unwind.v are met (checked by vm_compute): entry stub, `main` (no clause) calling
   `g(1 / 0 ...)`, `g` with one parameter and a catch-all clause that returns its parameter.

     func g(d : int) -> int { d / 0 } catch { d }
     func main() -> int { g(1 / 0) }           -- the same bytecode serves both paths: the shape
                                                  machine lets every operation fault or not

   path A: the argument faults with main's call frame under construction: handler of main,
           RETHROW pops the partial frame, RETHROW leaves main, UNHANDLED_EXCEPTION at top level;
   path B: the division inside g faults: g's handler, CLEAR_STACK 1, the clause reads the
           parameter, RET.                                                          No axioms. *)
From Coq Require Import ZArith List Arith Bool Lia.
From NV Require Import Gen.Opcodes Verifier.Shape Verifier.Effect Verifier.Verify
                       Verifier.VerifyInv Verifier.VerifySound Verifier.Unwind.
Import ListNotations.

Definition I (o : opcode) (w0 w1 : Z) : rinstr := {| r_op := o; r_w0 := w0; r_w1 := w1; r_w2 := 0%Z |}.

Definition ex_prog : list rinstr := [
  (*  0 *) I BYTECODE_LABEL 0 0;
  (*  1 *) I BYTECODE_MARK 6 0;
  (*  2 *) I BYTECODE_PUSH_PARAM 0 0;
  (*  3 *) I BYTECODE_GLOBAL_VEC 0 0;
  (*  4 *) I BYTECODE_ID_FUNC_ENTRY 0 0;
  (*  5 *) I BYTECODE_CALL 0 0;
  (*  6 *) I BYTECODE_LABEL 0 0;
  (*  7 *) I BYTECODE_HALT 0 0;
  (*  8 *) I BYTECODE_LABEL 0 0;                  (* handler of [0, 10) *)
  (*  9 *) I BYTECODE_UNHANDLED_EXCEPTION 0 0;
  (* 10 *) I BYTECODE_FUNC_DEF 0 0;               (* main *)
  (* 11 *) I BYTECODE_MARK 18 0;
  (* 12 *) I BYTECODE_INT 1 0;
  (* 13 *) I BYTECODE_INT 0 0;
  (* 14 *) I BYTECODE_OP_DIV_INT 0 0;             (* argument of g: may fault, frame open *)
  (* 15 *) I BYTECODE_GLOBAL_VEC 0 0;
  (* 16 *) I BYTECODE_ID_FUNC_ADDR 22 0;
  (* 17 *) I BYTECODE_CALL 0 0;
  (* 18 *) I BYTECODE_LABEL 0 0;
  (* 19 *) I BYTECODE_RET 0 0;
  (* 20 *) I BYTECODE_LABEL 0 0;                  (* handler of [10, 22) *)
  (* 21 *) I BYTECODE_RETHROW 0 0;
  (* 22 *) I BYTECODE_FUNC_DEF 0 0;               (* g, one parameter *)
  (* 23 *) I BYTECODE_ID_LOCAL 0 0;
  (* 24 *) I BYTECODE_INT 0 0;
  (* 25 *) I BYTECODE_OP_DIV_INT 0 0;
  (* 26 *) I BYTECODE_RET 0 0;
  (* 27 *) I BYTECODE_LABEL 0 0;                  (* handler of [22, 28) *)
  (* 28 *) I BYTECODE_CLEAR_STACK 1 0;            (* catch-all clause of g *)
  (* 29 *) I BYTECODE_ID_LOCAL 0 0;
  (* 30 *) I BYTECODE_RET 0 0;
  (* 31 *) I BYTECODE_LABEL 0 0;                  (* handler of [28, ..) *)
  (* 32 *) I BYTECODE_RETHROW 0 0 ].

Definition ex_exct : list (nat * nat) := [(0, 8); (10, 20); (22, 27); (28, 31)].
Definition ex_metas : list fmeta :=
  [ {| m_addr := 10; m_np := 0; m_ffi := false |}; {| m_addr := 22; m_np := 1; m_ffi := false |} ].
Definition ex_entry : nat := 10.

Definition ex_certs : list acert := [
  CNorm 0 0 []; CNorm 0 0 []; CNorm 0 5 [0]; CNorm 0 5 [0]; CNorm 0 6 [0]; CNorm 0 6 [0];
  CNorm 0 1 []; CNorm 0 1 []; CExc 0; CExc 0;
  CNorm 10 0 []; CNorm 10 0 []; CNorm 10 5 [0]; CNorm 10 6 [0]; CNorm 10 7 [0]; CNorm 10 6 [0];
  CNorm 10 7 [0]; CNorm 10 7 [0]; CNorm 10 1 []; CNorm 10 1 []; CExc 10; CExc 10;
  CNorm 22 0 []; CNorm 22 0 []; CNorm 22 1 []; CNorm 22 2 []; CNorm 22 1 []; CExc 22;
  CExc 22; CNorm 22 0 []; CNorm 22 1 []; CExc 22; CExc 22 ].

Lemma ex_checked : check_all ex_prog ex_exct ex_metas ex_entry ex_certs = true.
Proof. vm_compute. reflexivity. Qed.

Local Notation xstep := (Shape.step (code ex_prog) (handler ex_exct) (np ex_metas) (is_entry ex_metas) ex_entry).
Local Notation xrun := (Shape.run (code ex_prog) (handler ex_exct) (np ex_metas) (is_entry ex_metas) ex_entry).

(* path A up to the faulting division in the argument (frame of g under construction) *)
Definition obsA : list (nat * nat) :=
  [(1, 0); (2, 5); (3, 5); (4, 6); (5, 6); (10, 5); (11, 5); (12, 10); (13, 11); (14, 12)].

Definition stA : st :=
  {| ip := 14; stk := [SPP 0; SLine; SGp; SFP 0; SIP 6 0; SPP 5; SLine; SGp; SFP 5; SIP 18 10; SVal; SVal];
     P := 5; F := 10; cur := 10 |}.

Lemma ex_reach_A : xrun init obsA = Next stA.
Proof. vm_compute. reflexivity. Qed.

(* the fault is delivered to main's handler (20 > 14), frame registers kept *)
Lemma ex_fault_A :
  fault_pops ex_prog ex_metas stA 20 12 = Some 2 /\
  xstep stA 20 12 = Next {| ip := 20; stk := stk stA; P := 5; F := 10; cur := 10 |}.
Proof. split; vm_compute; reflexivity. Qed.

(* ... the handler is LABEL; RETHROW: with F <> P it pops the partial frame and lands on 20 again
   (handler of the CALL at 17), then with F = P it leaves main for the top-level handler 8 *)
Definition stA2 : st := {| ip := 21; stk := stk stA; P := 5; F := 10; cur := 10 |}.
Definition stA3 : st := {| ip := 21; stk := [SPP 0; SLine; SGp; SFP 0; SIP 6 0; SVal]; P := 5; F := 5; cur := 10 |}.

Lemma ex_reach_A2 : xrun init (obsA ++ [(20, 12); (21, 12)]) = Next stA2.
Proof. vm_compute. reflexivity. Qed.

Lemma ex_rethrow_partial :
  code ex_prog (ip stA2) = Some ARethrow /\ F stA2 <> P stA2 /\
  xstep stA2 20 6 = Next {| ip := 20; stk := [SPP 0; SLine; SGp; SFP 0; SIP 6 0; SVal]; P := 5; F := 5; cur := 10 |}.
Proof. split; [|split]; try (vm_compute; reflexivity). cbn. lia. Qed.

Lemma ex_reach_A3 : xrun init (obsA ++ [(20, 12); (21, 12); (20, 6); (21, 6)]) = Next stA3.
Proof. vm_compute. reflexivity. Qed.

Lemma ex_rethrow_caller :
  code ex_prog (ip stA3) = Some ARethrow /\ F stA3 = P stA3 /\
  xstep stA3 8 1 = Next {| ip := 8; stk := [SVal]; P := 0; F := 0; cur := 0 |}.
Proof. split; [|split]; vm_compute; reflexivity. Qed.

Lemma ex_unhandled :
  xrun init (obsA ++ [(20, 12); (21, 12); (20, 6); (21, 6); (8, 1); (9, 1)]) =
    Next {| ip := 9; stk := [SVal]; P := 0; F := 0; cur := 0 |} /\
  code ex_prog 9 = Some AUnhandled.
Proof. split; vm_compute; reflexivity. Qed.

(* path B: g is entered, its division faults, the clause runs with the parameter intact *)
Definition obsB : list (nat * nat) :=
  [(1, 0); (2, 5); (3, 5); (4, 6); (5, 6); (10, 5); (11, 5); (12, 10); (13, 11); (14, 12);
   (15, 11); (16, 12); (17, 12); (22, 11); (23, 11); (24, 12); (25, 13); (27, 13); (28, 13)].

Definition stB : st :=
  {| ip := 28;
     stk := [SPP 0; SLine; SGp; SFP 0; SIP 6 0; SPP 5; SLine; SGp; SFP 5; SIP 18 10; SVal; SVal; SVal];
     P := 10; F := 10; cur := 22 |}.

Lemma ex_reach_B : xrun init obsB = Next stB.
Proof. vm_compute. reflexivity. Qed.

Lemma ex_clear :
  code ex_prog (ip stB) = Some (AClear 1) /\
  xstep stB 29 11 = Next {| ip := 29; stk := firstn 11 (stk stB); P := 10; F := 10; cur := 22 |}.
Proof. split; vm_compute; reflexivity. Qed.

(* ... and the run ends normally: the clause's value is g's result, then main's *)
Lemma ex_B_halts :
  xrun init (obsB ++ [(29, 11); (30, 12); (18, 6); (19, 6); (6, 1); (7, 1)]) =
    Next {| ip := 7; stk := [SVal]; P := 0; F := 0; cur := 0 |}.
Proof. vm_compute. reflexivity. Qed.

(* the clause chain of g from its first handler entry: one clause (28), ending at RETHROW 32 *)
Lemma ex_chain : hpath ex_prog ex_exct ex_metas ex_certs 22 27 [28] 32.
Proof.
  eapply hp_label; [reflexivity|reflexivity|].
  eapply hp_clause with (h := 31); [reflexivity|reflexivity|reflexivity|reflexivity|lia|].
  eapply hp_label; [reflexivity|reflexivity|].
  apply hp_end; [reflexivity|reflexivity|]. left. split; reflexivity.
Qed.

(* Crash NoHandler is not vacuous: the same module with the entry block inserted as [10..) instead of
   [0..) (no block covers the top-level code): the checker rejects it, and a fault raised by the
   top-level CALL at address 5 finds no table entry *)
Definition ex_exct_bad : list (nat * nat) := [(10, 20); (22, 27); (28, 31)].

Lemma ex_bad_rejected : check_all ex_prog ex_exct_bad ex_metas ex_entry ex_certs = false.
Proof. vm_compute. reflexivity. Qed.

Lemma ex_bad_no_handler :
  Shape.run (code ex_prog) (handler ex_exct_bad) (np ex_metas) (is_entry ex_metas) ex_entry init
            [(1, 0); (2, 5); (3, 5); (4, 6); (5, 6); (99, 5)] = Crash NoHandler.
Proof. vm_compute. reflexivity. Qed.
