(* Exception decision of a built-in call (back/libvm.c libvm_execute_build_in).

   The C function clears the floating-point status word on entry, runs the C library function
   (which raises the flags `own` that belong to ITS result), and then turns the sticky status into
   the exception of the call with the fixed priority division > invalid > overflow > underflow
   (inexact alone is not an exception).  Float / double arithmetic executed by the VM before the
   call (overflow to inf, underflow, inexact, nan from inf - inf ...) raises no exception of the
   language but leaves flags in the same sticky status word: `before`.

   Statement: the outcome of the call is `classify own`, whatever `before` is (whatever ran
   earlier), and an operation whose own result raises none of the four flags raises no exception.

   Tie: harness/c03/bidrive.c presets every subset of the five flags, calls the real
   libvm_execute_build_in for every math built-in on a list of argument classes, measures `own`
   independently (the C library function called from a clean status) and prints rows
   (before, own, observed); checks/c03.py compiles the rows into a list and has coqc evaluate
   `rows_ok` below on it.  No axioms. *)
From Coq Require Import Bool List NArith.
Import ListNotations.

Record flags := mkflags { f_div : bool; f_inv : bool; f_ovf : bool; f_udf : bool; f_inx : bool }.

Definition fl_none : flags := mkflags false false false false false.

Definition fl_union (a b : flags) : flags :=
  mkflags (f_div a || f_div b) (f_inv a || f_inv b) (f_ovf a || f_ovf b) (f_udf a || f_udf b)
          (f_inx a || f_inx b).

(* include/vm.h except_no *)
Inductive exc := Division | Invalid | Overflow | Underflow.
Inductive outcome := Value | Raise (e : exc).

(* the fetestexcept cascade at the end of libvm_execute_build_in *)
Definition classify (f : flags) : outcome :=
  if f_div f then Raise Division
  else if f_inv f then Raise Invalid
  else if f_ovf f then Raise Overflow
  else if f_udf f then Raise Underflow
  else Value.

(* one built-in call: status word on entry -> (outcome, status word on exit) *)
Definition run_builtin (before own : flags) : outcome * flags :=
  let st := fl_union fl_none (* feclearexcept (FE_ALL_EXCEPT) on entry *) own in
  (classify st, st).

Lemma union_none_l : forall f, fl_union fl_none f = f.
Proof. destruct f; reflexivity. Qed.

Theorem outcome_is_classification_of_own_flags : forall before own,
  fst (run_builtin before own) = classify own.
Proof. intros; unfold run_builtin; cbn [fst]; rewrite union_none_l; reflexivity. Qed.

Theorem outcome_independent_of_history : forall before before' own,
  fst (run_builtin before own) = fst (run_builtin before' own).
Proof. intros; rewrite !outcome_is_classification_of_own_flags; reflexivity. Qed.

Theorem operation_that_does_not_fail_raises_nothing : forall before own,
  f_div own = false -> f_inv own = false -> f_ovf own = false -> f_udf own = false ->
  fst (run_builtin before own) = Value.
Proof.
  intros before own H1 H2 H3 H4; rewrite outcome_is_classification_of_own_flags.
  unfold classify; rewrite H1, H2, H3, H4; reflexivity.
Qed.

Theorem raised_exception_is_an_own_flag : forall before own e,
  fst (run_builtin before own) = Raise e ->
  match e with
  | Division => f_div own = true
  | Invalid => f_inv own = true /\ f_div own = false
  | Overflow => f_ovf own = true /\ f_div own = false /\ f_inv own = false
  | Underflow => f_udf own = true /\ f_div own = false /\ f_inv own = false /\ f_ovf own = false
  end.
Proof.
  intros before own e; rewrite outcome_is_classification_of_own_flags; unfold classify.
  destruct (f_div own), (f_inv own), (f_ovf own), (f_udf own); intro H; inversion H; subst; auto.
Qed.

(* ---- a whole run: arithmetic steps only accumulate flags, built-in steps clear, run, classify *)
Inductive step := Arith (raised : flags) | Builtin (own : flags).

Definition do_step (st : flags) (s : step) : flags :=
  match s with
  | Arith r => fl_union st r
  | Builtin own => snd (run_builtin st own)
  end.

Definition run_history (st : flags) (h : list step) : flags := fold_left do_step h st.

Theorem builtin_after_any_history : forall h st own,
  fst (run_builtin (run_history st h) own) = classify own.
Proof. intros; apply outcome_is_classification_of_own_flags. Qed.

(* ---- why the clear on entry is needed: without it the outcome depends on the history *)
Definition run_builtin_noclear (before own : flags) : outcome * flags :=
  let st := fl_union before own in (classify st, st).

Theorem noclear_depends_on_history :
  exists before own, fst (run_builtin_noclear before own) <> classify own.
Proof.
  exists (mkflags false false true false true), fl_none; cbn; discriminate.
Qed.

(* ---- correspondence rows (harness/c03/bidrive.c) *)
Definition flags_of_mask (m : N) : flags :=
  mkflags (N.testbit m 0) (N.testbit m 1) (N.testbit m 2) (N.testbit m 3) (N.testbit m 4).

(* include/vm.h: EXCEPT_NO_DIVISION = 1, _INVALID = 4, _OVERFLOW = 5, _UNDERFLOW = 6; 0 = value delivered *)
Definition outcome_code (o : outcome) : N :=
  match o with
  | Value => 0
  | Raise Division => 1
  | Raise Invalid => 4
  | Raise Overflow => 5
  | Raise Underflow => 6
  end%N.

(* row = (before mask, own mask, observed code) *)
Definition row_ok (r : N * N * N) : bool :=
  let '(b, o, obs) := r in
  N.eqb (outcome_code (fst (run_builtin (flags_of_mask b) (flags_of_mask o)))) obs.

Definition rows_ok (rs : list (N * N * N)) : bool := forallb row_ok rs.

Lemma flags_of_mask_surjective : forall f, exists m, flags_of_mask m = f.
Proof.
  intros [a b c d e].
  exists ((if a then 1 else 0) + (if b then 2 else 0) + (if c then 4 else 0) + (if d then 8 else 0)
          + (if e then 16 else 0))%N.
  destruct a, b, c, d, e; reflexivity.
Qed.
