(* Src/CompileCorrect4Shape.v — an `int_shaped` expression (Src/Compile4.v), when the evaluator yields a cell
   for it, yields a cell holding an int or a bool: the compiled OP_ASS_INT can copy its payload.  Evaluator only.
   No axioms. *)
From Coq Require Import ZArith List Bool Lia.
From NV Require Import Src.Syntax Src.Eval Src.EvalLemmas Src.Compile4.
Import ListNotations.

Definition is_intv (v : cellval) : bool := match v with CInt _ | CBool _ => true | _ => false end.

Definition int_at (st : state) (c : nat) : Prop := forall v, get_cell st c = Some v -> is_intv v = true.

Definition last_shaped : list item -> bool :=
  fix last (l : list item) : bool :=
    match l with
    | [] => false
    | IExpr a :: t => match t with [] => int_shaped a | _ => last t end
    | _ :: t => last t
    end.

Lemma int_shaped_block : forall items, int_shaped (EBlock items) = last_shaped items.
Proof. reflexivity. Qed.

Lemma last_shaped_run_rest : forall t, last_shaped t = true ->
  last_shaped (run_rest t) = true /\ run_rest t <> [].
Proof.
  induction t as [|it t IH]; intros H; [discriminate|].
  destruct it as [x a | x a | fd | a]; try (split; [exact H | discriminate]).
  simpl in H |- *. apply IH. exact H.
Qed.

Lemma fresh_get : forall st v c st', fresh st v = (ROk c, st') -> get_cell st' c = Some v.
Proof.
  intros st v c st' H. unfold fresh, alloc in H. inversion H; subst. unfold get_cell. simpl.
  rewrite nth_error_app2 by lia. rewrite Nat.sub_diag. reflexivity.
Qed.

Lemma fresh_int_at : forall st v c st', is_intv v = true -> fresh st v = (ROk c, st') -> int_at st' c.
Proof. intros st v c st' Hv H w Hw. rewrite (fresh_get _ _ _ _ H) in Hw. inversion Hw; subst. exact Hv. Qed.

Lemma set_cell_get : forall st c v w, get_cell (set_cell st c v) c = Some w -> w = v.
Proof.
  intros st c v w H. unfold get_cell, set_cell in H. simpl in H.
  revert c H. induction (cells st) as [|x t IH]; intros c H; destruct c; simpl in H; try discriminate.
  - inversion H; reflexivity.
  - eapply IH; eauto.
Qed.

Lemma int_binop_int : forall op a b v, int_binop op a b = Some v -> is_intv v = true.
Proof.
  intros op a b v H. destruct op; simpl in H; try (destruct (Z.eqb b 0)); try discriminate;
    inversion H; reflexivity.
Qed.

Lemma binop_eq_dec : forall a b : binop, {a = b} + {a <> b}.
Proof. decide equality. Qed.

Section Shape.
Variable genv : env.

Ltac fin H := first [ discriminate H | (eapply fresh_int_at; [| exact H]; reflexivity) ].

Lemma binop_result_int : forall op c1 c2 st2 c st', binop_result op c1 c2 st2 = (ROk c, st') -> int_at st' c.
Proof.
  intros op c1 c2 st2 c st' H. unfold binop_result in H.
  destruct (get_int st2 c1) as [z1|]; [destruct (get_int st2 c2) as [z2|]|].
  - destruct (int_binop op z1 z2) as [v|] eqn:E; [|discriminate].
    eapply fresh_int_at; [|exact H]. eapply int_binop_int; eauto.
  - destruct op, (get_bool st2 c1), (get_bool st2 c2); try fin H;
      destruct (nil_cmp _ _ _); fin H.
  - destruct op, (get_bool st2 c1), (get_bool st2 c2); try fin H;
      destruct (nil_cmp _ _ _); fin H.
Qed.

Definition shape_e (k : nat) : Prop :=
  forall e env st c st', int_shaped e = true -> eval genv k env st e = (ROk c, st') -> int_at st' c.

Definition shape_i (k : nat) : Prop :=
  forall items env st last c st', eval_items genv k env st items last = (ROk c, st') ->
    match items with
    | [] => forall cl, last = Some cl -> int_at st cl
    | _ => last_shaped items = true
    end -> int_at st' c.

Lemma shape_all : forall k, shape_e k /\ shape_i k.
Proof.
  induction k as [|k [IHe IHi]]; [split; [intros e env st c st' _ H | intros items env st last c st' H]; discriminate H|].
  split.
  - intros e env st c st' Hs H. destruct e; try discriminate Hs.
    + rewrite eval_EInt in H. eapply fresh_int_at; [|exact H]; reflexivity.
    + rewrite eval_EBool in H. eapply fresh_int_at; [|exact H]; reflexivity.
    + rewrite eval_ENeg in H. destruct (eval genv k env st e) as [[c1| | |] st1]; try discriminate.
      destruct (get_int st1 c1); fin H.
    + rewrite eval_ENot in H. destruct (eval genv k env st e) as [[c1| | |] st1]; try discriminate.
      destruct (get_bool st1 c1); fin H.
    + (* EBin *)
      destruct (binop_eq_dec op And) as [-> | NA]; [|destruct (binop_eq_dec op Or) as [-> | NO]].
      * rewrite eval_EAnd in H. destruct (eval genv k env st e1) as [[c1| | |] st1]; try discriminate.
        destruct (get_bool st1 c1) as [[|]|]; try fin H.
        destruct (eval genv k env st1 e2) as [[c2| | |] st2]; try discriminate.
        destruct (get_bool st2 c2); fin H.
      * rewrite eval_EOr in H. destruct (eval genv k env st e1) as [[c1| | |] st1]; try discriminate.
        destruct (get_bool st1 c1) as [[|]|]; try fin H.
        destruct (eval genv k env st1 e2) as [[c2| | |] st2]; try discriminate.
        destruct (get_bool st2 c2); fin H.
      * rewrite eval_EBin in H by assumption.
        destruct (eval genv k env st e1) as [[c1| | |] st1]; try discriminate.
        destruct (eval genv k env st1 e2) as [[c2| | |] st2]; try discriminate.
        eapply binop_result_int; eauto.
    + (* ECond *) simpl in Hs. apply andb_true_iff in Hs. destruct Hs as [Ha Hb].
      rewrite eval_ECond in H. destruct (eval genv k env st e1) as [[cc| | |] st1]; try discriminate.
      destruct (get_bool st1 cc) as [[|]|]; try discriminate; [eapply (IHe e2) | eapply (IHe e3)]; eauto.
    + (* EAssign *) simpl in Hs. rewrite eval_EAssign in H.
      destruct (eval genv k env st e1) as [[cl| | |] st1]; try discriminate.
      destruct (eval genv k env st1 e2) as [[cr| | |] st2] eqn:E2; try discriminate.
      destruct (get_cell st2 cr) as [v|] eqn:Eg; [|discriminate]. inversion H; subst.
      intros w Hw. apply set_cell_get in Hw. subst w. eapply (IHe e2); eauto.
    + (* EBlock *) rewrite eval_EBlock in H. rewrite int_shaped_block in Hs.
      eapply IHi; [exact H|]. destruct items; [discriminate Hs | exact Hs].
    + (* EWhile *) rewrite eval_EWhile in H. destruct (eval genv k env st e1) as [[cc| | |] st1]; try discriminate.
      destruct (get_bool st1 cc) as [[|]|]; try fin H.
      destruct (eval genv k env st1 e2) as [[cb| | |] st2]; try discriminate.
      eapply (IHe (EWhile e1 e2)); eauto.
    + (* EDoWhile *) rewrite eval_EDoWhile in H. destruct (eval genv k env st e1) as [[cb| | |] st1]; try discriminate.
      destruct (eval genv k env st1 e2) as [[cc| | |] st2]; try discriminate.
      destruct (get_bool st2 cc) as [[|]|]; try fin H.
      eapply (IHe (EDoWhile e1 e2)); eauto.
    + (* EFor *) rewrite eval_EFor in H. destruct (eval genv k env st e1) as [[ci| | |] st1]; try discriminate.
      eapply (IHe (EWhile e2 (EBlock [IExpr e4; IExpr e3]))); eauto.
    + (* EPrint *) rewrite eval_EPrint in H. destruct (eval genv k env st e) as [[c1| | |] st1]; try discriminate.
      destruct (get_int st1 c1); fin H.
  - intros items env st last c st' H Hc. destruct items as [|it t].
    + rewrite eval_items_nil in H. destruct last as [cl|]; [|discriminate]. inversion H; subst. apply Hc. reflexivity.
    + destruct it as [x a | x a | fd | a].
      * rewrite eval_items_ILet in H. destruct (eval genv k env st a) as [[c1| | |] st1]; try discriminate.
        eapply IHi; [exact H|]. simpl in Hc. destruct t; [discriminate Hc | exact Hc].
      * rewrite eval_items_IVar in H. destruct (eval genv k env st a) as [[c1| | |] st1]; try discriminate.
        eapply IHi; [exact H|]. simpl in Hc. destruct t; [discriminate Hc | exact Hc].
      * rewrite eval_items_IFunc in H. simpl in Hc. destruct (last_shaped_run_rest t Hc) as [H1 H2].
        eapply IHi; [exact H|]. destruct (run_rest t); [congruence | exact H1].
      * rewrite eval_items_IExpr in H. destruct (eval genv k env st a) as [[c1| | |] st1] eqn:Ea; try discriminate.
        eapply IHi; [exact H|]. destruct t as [|it2 t2].
        -- intros cl Hcl. inversion Hcl; subst. eapply (IHe a); eauto.
        -- exact Hc.
Qed.

Theorem int_shaped_cell : forall k e env st c st' v, int_shaped e = true ->
  eval genv k env st e = (ROk c, st') -> get_cell st' c = Some v -> is_intv v = true.
Proof. intros k e env st c st' v Hs H Hv. exact (proj1 (shape_all k) e env st c st' Hs H v Hv). Qed.

End Shape.
