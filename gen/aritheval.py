"""Evaluation of arithmetic cases on the three parties (DESIGN §4.2): the extracted model
(build/ocaml/arith/run), the implementation built from /repo's current tree (nevrun,
dumpops), and the Python reference of gen/arithcases.py.  Unverified glue."""
import concurrent.futures
import os
import re
import subprocess

from gen import arithlib as al
from gen import arithcases as ac
from lib import common

MODEL_RE = re.compile(
    r"^(\S+) T=(\S+)(?: FOLD=(.*?) RT=(.*?) CLEAN=(\d) STRICT=(\d) UB=(\d))?$")
ASSIGN_RE = re.compile(r"^(\S+) ASSIGN=(.*?)(?: UB=(\d))?(?: FOLD=(.*))?$")
TEXT_RE = re.compile(r"^(\S+) TEXT=(.*)$")
KINDNAME = {"i": "int", "l": "long", "f": "float", "d": "double", "b": "int", "e": "int"}


def tools(variant):
    lib = common.repobuild(variant)
    return {"lib": lib,
            "nevrun": common.cc_driver("nevrun", ["common/nevrun.c"], lib),
            "dumpops": common.cc_driver("dumpops", ["arith/dumpops.c"], lib)}


EXTRACT_DEPS = ["Arith/Fmt.vo", "Arith/Constred.vo", "Arith/RtEval.vo", "Arith/Enumred.vo", "Arith/EnumIndex.vo"]


def build_model(ctx):
    """compile what coq/Extract/ExtractArith.v needs (ctx.proofs() only builds the closure of
    the property file), extract, link the OCaml runner.  Returns True if the runner exists."""
    ok, log = common.coq_make(EXTRACT_DEPS)
    if not ok:
        ctx.correspondence_broken("coq-build-of-the-arithmetic-model", log[-2000:])
        return False
    ok, log = common.ocaml_build("arith")
    if not ok or not os.path.exists(model_binary()):
        ctx.correspondence_broken("ocaml-build", log[-2000:])
        return False
    # bin/build-ocaml may report success although the extraction failed: never run a stale model
    newest = max(os.path.getmtime(os.path.join(common.COQ, d)) for d in EXTRACT_DEPS)
    if os.path.getmtime(model_binary()) < newest:
        blog = os.path.join(os.path.dirname(model_binary()), "build.log")
        ctx.correspondence_broken("ocaml-build-stale",
                                  (open(blog).read()[-1500:] if os.path.exists(blog) else "") + log[-500:])
        return False
    return True


def model_binary():
    return os.path.join(common.BUILD, "ocaml", "arith", "run")


def _run_model_chunk(binary, text):
    p = subprocess.run([binary], input=text, stdout=subprocess.PIPE, stderr=subprocess.PIPE,
                       text=True, timeout=900)
    return p.stdout


def run_model(lines, jobs=16):
    """lines: list of driver input lines; returns dict id -> raw output line"""
    binary = model_binary()
    jobs = max(1, min(jobs, (len(lines) + 499) // 500 or 1))
    chunks = ["\n".join(lines[i::jobs]) + "\n" for i in range(jobs)]
    out = {}
    with concurrent.futures.ThreadPoolExecutor(max_workers=jobs) as ex:
        for text in ex.map(lambda c: _run_model_chunk(binary, c), chunks):
            for l in text.splitlines():
                if l and not l.startswith("?"):
                    out[l.split(" ", 1)[0]] = l
                elif l.startswith("?"):
                    out.setdefault("?errors", []).append(l)
    return out


def parse_outcome(s):
    """model outcome text -> canonical tuple"""
    p = s.split()
    if p[0] == "VAL":
        return ("val", KINDNAME[p[1]], int(p[2], 16))
    if p[0] == "FAULT":
        return ("fault", "division_by_zero")
    if p[0] == "CRASH":
        return ("crash", p[1])
    return ("reject",)


def parse_model_E(line):
    m = MODEL_RE.match(line)
    if not m:
        return None
    if m.group(2) == "REJECT":
        return {"ty": None}
    fold = m.group(3)
    fp = fold.split()
    if fp[0] == "LIT":
        f = ("lit", fp[1], int(fp[2], 16))
    else:
        f = (fp[0].lower(),)
    return {"ty": m.group(2), "fold": f, "rt": parse_outcome(m.group(4)),
            "clean": m.group(5) == "1", "strict": m.group(6) == "1", "ub": m.group(7) == "1"}


def canon_real(o):
    """canonical outcome of a nevrun record: crashes reduced to their class"""
    if o[0] == "crash":
        how = o[1]
        if how == "sigfpe":
            return ("crash", "sigfpe")
        if how.startswith("assert:emit.c"):
            return ("crash", "emit")
        if how.startswith("assert:gc.c"):
            return ("crash", "tag")
        return ("crash", how)
    return o


def folded_constant(rec):
    """dumpops record of a literal-only program -> ('lit', kind, value) if main's body is one
    constant instruction, ('residual',), ('reject',), ('crash', how)"""
    if rec is None:
        return ("crash", "driver-lost")
    if rec["outcome"] == "DUMPED":
        code = [c for c in (rec["code"] or []) if not c.startswith("I line ")]
        if len(code) == 1 and code[0].startswith("K "):
            _, kind, val = code[0].split()
            if kind in ("int", "long", "char"):
                return ("lit", kind, int(val))
            if kind == "float":
                return ("lit", kind, al.canon32(int(val, 16)))
            return ("lit", kind, al.canon64(int(val, 16)))
        return ("residual",)
    if rec["outcome"] == "COMPILE_ERROR":
        txt = "\n".join(rec["lines"])
        return ("reject",) if "division by zero" in txt else ("compile_error",)
    o = canon_real(al.classify_run(rec))
    return o


def model_fold_as_real(f):
    """model fold result in the vocabulary of folded_constant"""
    if f[0] == "lit":
        kind = f[1]
        return ("lit", KINDNAME[kind], f[2])
    if f[0] == "crash":
        return ("crash", "sigfpe")
    if f[0] == "residual-noemit":
        return ("crash", "emit")        # the reduced tree still has a node without opcode
    return (f[0],)


def same_outcome_lit_var(lit, var):
    """the property's own oracle: literal version vs variable version"""
    if lit == var:
        return True
    if lit == ("compile_error", "division by zero") and var == ("fault", "division_by_zero"):
        return True
    return False


def ref_as_real(ref):
    """pyref outcome in the vocabulary of canon_real"""
    if ref[0] == "val":
        return ("val", KINDNAME[ref[1]], ref[2])
    if ref[0] == "fault":
        return ("fault", "division_by_zero")
    if ref[0] == "trap":
        return ("trap",)
    return ref


def eval_expr_cases(cases, T, workdir, tag, legs=("var", "lit", "dump"), jobs=16):
    """cases: dict id -> tree.  Runs the extracted model on every tree and, for the trees the
    model's typechecker accepts with a returnable type, the requested legs on the real code:
      var  : operands in variables, run by nevrun            (VM)
      lit  : literal operands, run by nevrun                 (reducer + VM, end to end)
      dump : literal operands, compiled and dumped by dumpops (reducer read-back)
    Returns dict id -> {model, ref, var, lit, dump, src_var, src_lit}."""
    ids = list(cases)
    mo = run_model(["E %s %s" % (cid, ac.sx(cases[cid])) for cid in ids], jobs=jobs)
    out = {}
    run_progs, dump_progs = [], []
    for cid in ids:
        line = mo.get(cid)
        m = parse_model_E(line) if line else None
        r = {"model": m, "tree": cases[cid]}
        out[cid] = r
        if not m or m["ty"] is None or m["ty"] == "enum":
            continue
        ret = m["ty"]
        if "var" in legs:
            r["src_var"] = ac.program_var(cases[cid], ret)
            run_progs.append((cid + ".v", "", r["src_var"]))
        if "lit" in legs or "dump" in legs:
            r["src_lit"] = ac.program_lit(cases[cid], ret)
        if "lit" in legs:
            run_progs.append((cid + ".l", "", r["src_lit"]))
        if "dump" in legs:
            dump_progs.append((cid + ".d", "", r["src_lit"]))
    res = al.run_batch(T["nevrun"], run_progs, workdir, tag + "-run", jobs=jobs) if run_progs else {}
    dres = al.run_batch(T["dumpops"], dump_progs, workdir, tag + "-dump", jobs=jobs) if dump_progs else {}
    for cid in ids:
        r = out[cid]
        if "src_var" in r:
            r["var"] = canon_real(al.classify_run(res.get(cid + ".v")))
        if "src_lit" in r and "lit" in legs:
            r["lit"] = canon_real(al.classify_run(res.get(cid + ".l")))
        if "src_lit" in r and "dump" in legs:
            r["dump"] = folded_constant(dres.get(cid + ".d"))
        r["ref"] = ref_as_real(ac.pyref_outcome(cases[cid]))
    out["?model_errors"] = mo.get("?errors", [])
    return out


def root_key(tree, promoted=False):
    """'<op>:<kind of left>,<kind of right>' of the root operator, kinds from the leaves'
    static kinds when the operands are value trees"""
    def kind_of(t):
        while t[0] == "P":
            t = t[1]
        if t[0] == "L":
            return ac.KIND_TY[t[1]]
        if t[0] == "U":
            return kind_of(t[2])
        if t[0] == "B":
            if t[1] in ac.CMP or t[1] in ("and", "or"):
                return "bool"
            a, b = kind_of(t[2]), kind_of(t[3])
            order = ["int", "long", "float", "double"]
            if a in order and b in order:
                return order[max(order.index(a), order.index(b))]
            return "int"
        return kind_of(t[2])
    t = tree
    while t[0] == "P":
        t = t[1]
    if t[0] == "B":
        a, b = kind_of(t[2]), kind_of(t[3])
        order = ["int", "long", "float", "double"]
        if promoted and a in order and b in order:
            a = b = order[max(order.index(a), order.index(b))]
        return "%s:%s,%s" % (t[1], a, b)
    if t[0] == "U":
        return "%s:%s" % (t[1], kind_of(t[2]))
    if t[0] == "C":
        return "cond:%s" % kind_of(t[2])
    return "lit:%s" % ac.KIND_TY[t[1]]


PROMOTE_THEOREMS = ["tables_are_complete", "typecheck_model_matches_tables",
                    "emit_model_matches_tables"]


def table_obligations(ctx):
    """Re-check Arith/PromoteProofs.v against the freshly generated tables and register the
    tie obligations (model = tables).  Returns (ok, log)."""
    # the files PromoteProofs.v imports (Gen/ConvTables.vo, Gen/OpSelect.vo, Arith/*.vo) may not be compiled yet
    # (fresh clone without bin/setup, or tables just regenerated): make builds what is missing or stale; the
    # re-check itself is the explicit coqc below
    common.coq_make(["Arith/PromoteProofs.vo"])
    with common.Lock("coq"):
        rc, so, se = common.sh("coqc -Q . NV Arith/PromoteProofs.v", cwd=common.COQ, timeout=600)
    log = (so + se)[-3000:]
    failing = None
    if rc != 0:
        m = re.search(r'line (\d+), characters', so + se)
        if m:
            ln = int(m.group(1))
            src = open(os.path.join(common.COQ, "Arith", "PromoteProofs.v")).read().splitlines()
            for i in range(min(ln, len(src)) - 1, -1, -1):
                mm = re.match(r"\s*(Theorem|Lemma|Corollary)\s+([A-Za-z0-9_']+)", src[i])
                if mm:
                    failing = mm.group(2)
                    break
    for name in PROMOTE_THEOREMS:
        ok = rc == 0 or (failing is not None and failing != name and
                         PROMOTE_THEOREMS.index(name) < (PROMOTE_THEOREMS.index(failing)
                                                         if failing in PROMOTE_THEOREMS else 99))
        ctx.obligation("table:" + name, ok, None if ok else {"failing_lemma": failing, "log": log})
    return rc == 0, failing, log
