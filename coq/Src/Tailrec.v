(* C13, source side: a model of the tail-position analysis of front/tailrec.c
   (module_decl_tailrec -> never_tailrec -> func_tailrec -> expr_tailrec / expr_id_tailrec),
   which turns an EXPR_CALL into EXPR_LAST_CALL (emitted by emit.c expr_last_call_emit as
   `args; f; SLIDE; CALL` without MARK).

   What tailrec.c does, read off the code (tree at /repo HEAD, with the three `fix:` commits
   a148283 / cc03b5c / ae9cb69 found while building this model):
   * func_tailrec_native analyses the BODY of every native function with TAILREC_OP_ADD
     ("tail mode") and its catch clauses with TAILREC_OP_SKIP: the presence of catch clauses
     does not disable the marking of calls in the body, calls inside handlers are never marked.
     FFI functions are skipped.  Nested functions (EXPR_FUNC, SEQ_TYPE_FUNC) are analysed as
     functions of their own (syn_level + 1), never as part of the enclosing body.
   * tail mode is passed on UNCHANGED to: the operand of ( e ) [EXPR_SUP], both branches of
     c ? a : b and of if/else [EXPR_COND; `if (c) a` is COND c a 0], the LAST item of a block when
     it is an expression [EXPR_SEQ / seq_list_tailrec: list->head], both branches of if-let,
     every arm of match, the right side of l |> f(x) [EXPR_PIPEL], and the CALLEE expression of
     a call [EXPR_CALL: expr_tailrec(func_expr, op)].
   * everything else is analysed with SKIP: operands of every operator, conditions, the match
     scrutinee, the if-let scrutinee, call/record/array arguments, index and slice operands,
     assignment sides, loop conditions and bodies (while, do-while, for, for-in), let/var
     initialisers (bind_tailrec(SKIP)), conversions, builtin arguments, attribute bases, tuple
     elements, list comprehensions.  In SKIP mode expr_id_tailrec returns 0 at once and SKIP is
     handed down to every sub-expression, so nothing below a SKIP position is ever marked:
     the model simply does not descend there.
   * a call in tail mode is marked iff its callee is a bare identifier [func_expr->type ==
     EXPR_ID] that symtab_lookup(stab, id, SYMTAB_LOOKUP_FUNC) resolves -- searching the
     enclosing block tables up to and including the table of the enclosing function, no
     further -- to a SYMTAB_FUNC entry with entry->syn_level == syn_level - 1.  The only such
     entry is the one func_decl_check_type put into the function's own table: the enclosing
     function itself.  A let/var or nested function of the same name in an enclosing block of
     the body, or a name bound by the pattern of an enclosing match arm / if-let then-branch,
     is found first and is not such an entry: the call is not marked.  (A parameter cannot
     carry the function's name: "function f already defined".)  Sibling functions live in the
     parent table, which SYMTAB_LOOKUP_FUNC does not reach: mutual tail calls are NOT marked.
     Anonymous functions have no entry: nothing is marked in them.
     Deliberately (or accidentally) skipped although in tail position: `(f)(x)` and any other
     callee that is not a bare identifier.

   The model works on `texpr`, the shape of an expression as far as tailrec.c distinguishes
   it (it covers every expr_type of front/expr.h; `of_expr` embeds the core AST of
   Src/Syntax.v).  No axioms. *)
From Coq Require Import NArith List Bool Arith Lia.
From NV Require Import Src.Syntax.
Import ListNotations.

Inductive texpr :=
| TLeaf                                  (* literals, enumerators, nil, c_null *)
| TId (x : ident)
| TOp (args : list texpr)                (* every form whose operands are all analysed with SKIP *)
| TSup (e : texpr)                       (* ( e ) *)
| TCond (c a b : texpr)                  (* c ? a : b,  if (c) a else b,  if (c) a == TCond c a TLeaf *)
| TCall (f : texpr) (args : list texpr)
| TPipe (l f : texpr) (args : list texpr)  (* l |> f(args) *)
| TFunc                                  (* let func ...: a function literal (analysed on its own) *)
| TSeq (items : list titem)              (* { i1; ...; in } *)
| TLoop (parts : list texpr)             (* while, do-while, for, for-in *)
| TIfLet (bs : list ident) (e a b : texpr)   (* if let (C(bs) = e) a else b *)
| TMatch (e : texpr) (arms : list tarm)
with titem :=
| TBind (x : ident) (e : texpr)          (* let x = e / var x = e *)
| TFuncItem (x : ident)                  (* func x(...) {...} as a block item (analysed on its own) *)
| TExprItem (e : texpr)
with tarm :=
| TArm (bs : list ident) (e : texpr).    (* C(bs) -> e ; bs = [] for item guards and else *)

Record tfdef := {
  tf_name : option ident;                (* None: anonymous function literal *)
  tf_params : list ident;
  tf_body : texpr;                       (* func->body->exprs: a TSeq *)
  tf_catches : list texpr                (* catch clauses incl. catch-all, in order *)
}.

(* positions: child indices from the root of the body *)
Definition path := list nat.

Definition item_expr (it : titem) : texpr :=
  match it with TBind _ e => e | TFuncItem _ => TFunc | TExprItem e => e end.
Definition arm_expr (a : tarm) : texpr := match a with TArm _ e => e end.

Definition children (e : texpr) : list texpr :=
  match e with
  | TLeaf | TId _ | TFunc => []
  | TOp args => args
  | TSup e1 => [e1]
  | TCond c a b => [c; a; b]
  | TCall f args => f :: args
  | TPipe l f args => l :: f :: args
  | TSeq items => map item_expr items
  | TLoop parts => parts
  | TIfLet _ e1 a b => [e1; a; b]
  | TMatch e1 arms => e1 :: map arm_expr arms
  end.

Fixpoint sub (e : texpr) (p : path) : option texpr :=
  match p with
  | [] => Some e
  | i :: q => match nth_error (children e) i with Some c => sub c q | None => None end
  end.

(* ------------------------------------------------------------------ the analysis *)

Definition pre (i : nat) (l : list path) : list path := map (cons i) l.

Definition is_id (x : ident) (f : texpr) : bool :=
  match f with TId y => N.eqb x y | _ => false end.
Definition memb (x : ident) (bs : list ident) : bool := existsb (N.eqb x) bs.
Definition declares (x : ident) (it : titem) : bool :=
  match it with TBind y _ => N.eqb x y | TFuncItem y => N.eqb x y | TExprItem _ => false end.

(* seq_list_tailrec: only the last item, and only if it is an expression, stays in tail mode *)
Definition last_paths (f : texpr -> list path) : nat -> list titem -> list path :=
  fix go i l :=
    match l with
    | [] => []
    | it :: t =>
      match t with
      | [] => match it with TExprItem e1 => pre i (f e1) | _ => [] end
      | _ :: _ => go (S i) t
      end
    end.

(* expr_match_guard_list_tailrec: every arm, under its pattern bindings *)
Definition arms_paths (f : list ident -> texpr -> list path) : nat -> list tarm -> list path :=
  fix go i l :=
    match l with
    | [] => []
    | TArm bs e1 :: t => pre i (f bs e1) ++ go (S i) t
    end.

(* expr_tailrec in tail mode for the function named x; sh: x is re-bound by an enclosing block
   or pattern of the body (expr_id_tailrec then finds that entry, not the function) *)
Fixpoint mk (x : ident) (sh : bool) (e : texpr) {struct e} : list path :=
  match e with
  | TSup e1 => pre 0 (mk x sh e1)
  | TCond _ a b => pre 1 (mk x sh a) ++ pre 2 (mk x sh b)
  | TCall f _ => (if negb sh && is_id x f then [[]] else []) ++ pre 0 (mk x sh f)
  | TPipe _ f _ => (if negb sh && is_id x f then [[]] else []) ++ pre 1 (mk x sh f)
  | TSeq items => last_paths (mk x (sh || existsb (declares x) items)) 0 items
  | TIfLet bs _ a b => pre 1 (mk x (sh || memb x bs) a) ++ pre 2 (mk x sh b)
  | TMatch _ arms => arms_paths (fun bs e1 => mk x (sh || memb x bs) e1) 1 arms
  | TLeaf | TId _ | TOp _ | TFunc | TLoop _ => []
  end.

(* func_tailrec_native: body in tail mode, catch clauses in SKIP mode (never marked) *)
Definition tail_calls (fd : tfdef) : list path :=
  match tf_name fd with
  | Some x => mk x false (tf_body fd)
  | None => []
  end.

(* ------------------------------------------------------------------ the specification *)

(* Reach true: the positions tailrec.c reaches in tail mode; Reach false = TailPos: the
   syntactic tail positions (the value of the sub-expression is the value of the whole) *)
Inductive Reach (callee : bool) : texpr -> path -> Prop :=
| R_here e : Reach callee e []
| R_sup e p : Reach callee e p -> Reach callee (TSup e) (0 :: p)
| R_cond_a c a b p : Reach callee a p -> Reach callee (TCond c a b) (1 :: p)
| R_cond_b c a b p : Reach callee b p -> Reach callee (TCond c a b) (2 :: p)
| R_seq items i e p :
    nth_error items i = Some (TExprItem e) -> S i = length items ->
    Reach callee e p -> Reach callee (TSeq items) (i :: p)
| R_iflet_a bs e a b p : Reach callee a p -> Reach callee (TIfLet bs e a b) (1 :: p)
| R_iflet_b bs e a b p : Reach callee b p -> Reach callee (TIfLet bs e a b) (2 :: p)
| R_arm e arms i bs a p :
    nth_error arms i = Some (TArm bs a) -> Reach callee a p -> Reach callee (TMatch e arms) (S i :: p)
| R_callee f args p : callee = true -> Reach callee f p -> Reach callee (TCall f args) (0 :: p)
| R_pcallee l f args p : callee = true -> Reach callee f p -> Reach callee (TPipe l f args) (1 :: p).

Definition TailPos := Reach false.

(* the position lies inside the callee expression of some call: its value is called, not returned *)
Definition through_callee (e : texpr) (p : path) : Prop :=
  exists q r, (exists f args, sub e q = Some (TCall f args) /\ p = q ++ 0 :: r) \/
              (exists l f args, sub e q = Some (TPipe l f args) /\ p = q ++ 1 :: r).

(* x is re-bound on the way from the root to position p: by a let/var/func item of an enclosing
   block, by the pattern of an enclosing match arm, or by the pattern of an if-let whose
   then-branch encloses p *)
Fixpoint shadowed_on (x : ident) (e : texpr) (p : path) : bool :=
  match p with
  | [] => false
  | i :: q =>
    match e with
    | TSeq items =>
        existsb (declares x) items ||
        match nth_error items i with Some it => shadowed_on x (item_expr it) q | None => false end
    | TIfLet bs e1 a b =>
        match i with
        | 0 => shadowed_on x e1 q
        | 1 => memb x bs || shadowed_on x a q
        | 2 => shadowed_on x b q
        | _ => false
        end
    | TMatch e1 arms =>
        match i with
        | 0 => shadowed_on x e1 q
        | S j => match nth_error arms j with
                 | Some (TArm bs a) => memb x bs || shadowed_on x a q
                 | None => false
                 end
        end
    | _ => match nth_error (children e) i with Some c => shadowed_on x c q | None => false end
    end
  end.

Definition self_node (x : ident) (o : option texpr) : Prop :=
  match o with
  | Some (TCall f _) => is_id x f = true
  | Some (TPipe _ f _) => is_id x f = true
  | _ => False
  end.

(* position p of the body of fd is a call whose callee is the name of fd, not re-bound there *)
Definition SelfCallAt (fd : tfdef) (p : path) : Prop :=
  exists x, tf_name fd = Some x /\ self_node x (sub (tf_body fd) p) /\
            shadowed_on x (tf_body fd) p = false.

(* ------------------------------------------------------------------ lemmas on the helpers *)

Lemma in_pre i j q l : In (i :: q) (pre j l) <-> i = j /\ In q l.
Proof.
  unfold pre. rewrite in_map_iff. split.
  - intros (y & E & H). injection E as <- <-. auto.
  - intros [-> H]. eauto.
Qed.

Lemma nil_not_in_pre j l : ~ In [] (pre j l).
Proof. unfold pre. rewrite in_map_iff. intros (y & E & _). discriminate. Qed.

Lemma last_paths_nil f : forall l k, ~ In [] (last_paths f k l).
Proof.
  induction l as [|it t IH]; intros k H; cbn in H; [exact H|].
  destruct t as [|it2 t2].
  - destruct it; try exact H. eapply nil_not_in_pre; eauto.
  - eapply IH; eauto.
Qed.

Lemma last_paths_in f : forall l k i q,
  In (i :: q) (last_paths f k l) <->
  exists e1, k <= i /\ nth_error l (i - k) = Some (TExprItem e1) /\ S (i - k) = length l /\ In q (f e1).
Proof.
  induction l as [|it t IH]; intros k i q; cbn [last_paths].
  - split; [intros []|]. intros (e1 & _ & H & _). destruct (i - k); discriminate.
  - destruct t as [|it2 t2].
    + split.
      * intros H. destruct it as [| |e1]; try destruct H. apply in_pre in H. destruct H as [-> H].
        exists e1. rewrite Nat.sub_diag. cbn. auto.
      * intros (e1 & Hk & Hn & Hl & Hq). cbn in Hl. assert (i - k = 0) by lia.
        rewrite H in Hn. cbn in Hn. injection Hn as ->. apply in_pre. split; [lia|auto].
    + change (In (i :: q) (last_paths f (S k) (it2 :: t2)) <->
              exists e1, k <= i /\ nth_error (it :: it2 :: t2) (i - k) = Some (TExprItem e1) /\
                         S (i - k) = length (it :: it2 :: t2) /\ In q (f e1)).
      rewrite IH. split.
      * intros (e1 & Hk & Hn & Hl & Hq). exists e1. split; [lia|].
        replace (i - k) with (S (i - S k)) by lia. cbn [nth_error length] in *. auto.
      * intros (e1 & Hk & Hn & Hl & Hq). cbn [length] in Hl.
        assert (i - k = S (i - S k)) as E by lia. rewrite E in Hn, Hl. cbn [nth_error] in Hn.
        exists e1. split; [lia|]. cbn [length]. auto.
Qed.

Lemma arms_paths_nil f : forall l k, ~ In [] (arms_paths f k l).
Proof.
  induction l as [|[bs e1] t IH]; intros k H; cbn in H; [exact H|].
  apply in_app_or in H. destruct H as [H|H]; [eapply nil_not_in_pre; eauto|eapply IH; eauto].
Qed.

Lemma arms_paths_in f : forall l k i q,
  In (i :: q) (arms_paths f k l) <->
  exists bs e1, k <= i /\ nth_error l (i - k) = Some (TArm bs e1) /\ In q (f bs e1).
Proof.
  induction l as [|[bs e1] t IH]; intros k i q; cbn [arms_paths].
  - split; [intros []|]. intros (bs & e1 & _ & H & _). destruct (i - k); discriminate.
  - rewrite in_app_iff, in_pre, IH. split.
    + intros [[-> H]|(bs' & e' & Hk & Hn & Hq)].
      * exists bs, e1. rewrite Nat.sub_diag. cbn. auto.
      * exists bs', e'. split; [lia|]. replace (i - k) with (S (i - S k)) by lia. cbn. auto.
    + intros (bs' & e' & Hk & Hn & Hq). destruct (Nat.eq_dec i k) as [->|Hne].
      * rewrite Nat.sub_diag in Hn. cbn in Hn. injection Hn as <- <-. left. auto.
      * right. exists bs', e'. split; [lia|]. replace (i - k) with (S (i - S k)) in Hn by lia. cbn in Hn. auto.
Qed.

Lemma nth_map_item items i it : nth_error items i = Some it ->
  nth_error (map item_expr items) i = Some (item_expr it).
Proof. intros H. rewrite nth_error_map, H. reflexivity. Qed.

Lemma nth_map_arm arms i a : nth_error arms i = Some a ->
  nth_error (map arm_expr arms) i = Some (arm_expr a).
Proof. intros H. rewrite nth_error_map, H. reflexivity. Qed.

(* ------------------------------------------------------------------ soundness of the marking *)

Lemma mk_sound x : forall p sh e,
  In p (mk x sh e) ->
  sh = false /\ Reach true e p /\ self_node x (sub e p) /\ shadowed_on x e p = false.
Proof.
  induction p as [|i q IH]; intros sh e H.
  - (* the marked node itself *)
    destruct e; cbn [mk] in H; try (now destruct H);
      try (now (exfalso; repeat (apply in_app_or in H; destruct H as [H|H]); eapply nil_not_in_pre; eauto)).
    + (* TCall *)
      apply in_app_or in H. destruct H as [H|H]; [|exfalso; eapply nil_not_in_pre; eauto].
      destruct sh; cbn in H; [destruct H|]. destruct (is_id x e) eqn:E; [|destruct H].
      repeat split; auto. constructor.
    + (* TPipe *)
      apply in_app_or in H. destruct H as [H|H]; [|exfalso; eapply nil_not_in_pre; eauto].
      destruct sh; cbn in H; [destruct H|]. destruct (is_id x e2) eqn:E; [|destruct H].
      repeat split; auto. constructor.
    + exfalso. eapply last_paths_nil; eauto.
    + exfalso. eapply arms_paths_nil; eauto.
  - destruct e; cbn [mk] in H; try (now destruct H).
    + (* TSup *)
      apply in_pre in H. destruct H as [-> H]. destruct (IH _ _ H) as (S1 & S2 & S3 & S4).
      repeat split; auto. constructor; auto.
    + (* TCond *)
      apply in_app_or in H. destruct H as [H|H]; apply in_pre in H; destruct H as [-> H];
        destruct (IH _ _ H) as (S1 & S2 & S3 & S4); repeat split; auto.
      * apply R_cond_a; auto.
      * apply R_cond_b; auto.
    + (* TCall *)
      apply in_app_or in H. destruct H as [H|H].
      { destruct (negb sh && is_id x e); [|destruct H]. destruct H as [H|[]]. discriminate. }
      apply in_pre in H. destruct H as [-> H]. destruct (IH _ _ H) as (S1 & S2 & S3 & S4).
      repeat split; auto. apply R_callee; auto.
    + (* TPipe *)
      apply in_app_or in H. destruct H as [H|H].
      { destruct (negb sh && is_id x e2); [|destruct H]. destruct H as [H|[]]. discriminate. }
      apply in_pre in H. destruct H as [-> H]. destruct (IH _ _ H) as (S1 & S2 & S3 & S4).
      repeat split; auto. apply R_pcallee; auto.
    + (* TSeq *)
      apply last_paths_in in H. destruct H as (e1 & _ & Hn & Hl & H). rewrite Nat.sub_0_r in Hn, Hl.
      destruct (IH _ _ H) as (S1 & S2 & S3 & S4). apply orb_false_iff in S1. destruct S1 as [S1 S1'].
      split; [auto|]. split; [eapply R_seq; eauto|].
      cbn [sub children shadowed_on]. rewrite (nth_map_item _ _ _ Hn), Hn, S1'. cbn. auto.
    + (* TIfLet *)
      apply in_app_or in H. destruct H as [H|H]; apply in_pre in H; destruct H as [-> H];
        destruct (IH _ _ H) as (S1 & S2 & S3 & S4).
      * apply orb_false_iff in S1. destruct S1 as [S1 S1']. repeat split; auto.
        -- apply R_iflet_a; auto.
        -- cbn [shadowed_on]. rewrite S1', S4. reflexivity.
      * repeat split; auto. apply R_iflet_b; auto.
    + (* TMatch *)
      apply arms_paths_in in H. destruct H as (bs & e1 & Hk & Hn & H).
      destruct i as [|j]; [lia|]. replace (S j - 1) with j in Hn by lia.
      destruct (IH _ _ H) as (S1 & S2 & S3 & S4). apply orb_false_iff in S1. destruct S1 as [S1 S1'].
      split; [auto|]. split; [eapply R_arm; eauto|].
      cbn [sub children shadowed_on nth_error]. rewrite (nth_map_arm _ _ _ Hn), Hn, S1', S4. cbn. auto.
Qed.

(* ------------------------------------------------------------------ completeness *)

Lemma mk_complete x : forall callee e p, Reach callee e p -> forall sh,
  sh = false -> self_node x (sub e p) -> shadowed_on x e p = false -> In p (mk x sh e).
Proof.
  induction 1 as [e|e p R IH|c a b p R IH|c a b p R IH|items i e p Hn Hl R IH|bs e a b p R IH
                 |bs e a b p R IH|e arms i bs a p Hn R IH|f args p Hc R IH|l f args p Hc R IH];
    intros sh -> S3 S4.
  - cbn [sub] in S3. destruct e; cbn in S3; try contradiction; cbn [mk negb andb]; rewrite S3;
      apply in_or_app; left; left; reflexivity.
  - cbn [mk]. apply in_pre. split; auto.
  - cbn [mk]. apply in_or_app. left. apply in_pre. split; auto.
  - cbn [mk]. apply in_or_app. right. apply in_pre. split; auto.
  - cbn [sub children shadowed_on] in S3, S4. rewrite (nth_map_item _ _ _ Hn) in S3. rewrite Hn in S4.
    apply orb_false_iff in S4. destruct S4 as [S4 S4']. cbn [item_expr] in *.
    cbn [mk]. apply last_paths_in. exists e. rewrite Nat.sub_0_r. repeat split; auto; try lia.
    all: try (apply IH; auto; rewrite S4; reflexivity).
  - cbn [sub children shadowed_on nth_error] in S3, S4. apply orb_false_iff in S4. destruct S4 as [S4 S4'].
    cbn [mk]. apply in_or_app. left. apply in_pre. split; auto.
    all: try (apply IH; auto; rewrite S4; reflexivity).
  - cbn [sub children shadowed_on nth_error] in S3, S4.
    cbn [mk]. apply in_or_app. right. apply in_pre. split; auto.
  - cbn [sub children shadowed_on nth_error] in S3, S4. rewrite (nth_map_arm _ _ _ Hn) in S3. rewrite Hn in S4.
    apply orb_false_iff in S4. destruct S4 as [S4 S4']. cbn [arm_expr] in *.
    cbn [mk]. apply arms_paths_in. exists bs, a. replace (S i - 1) with i by lia. repeat split; auto; try lia.
    all: try (apply IH; auto; rewrite S4; reflexivity).
  - cbn [sub children shadowed_on nth_error] in S3, S4.
    cbn [mk]. apply in_or_app. right. apply in_pre. split; auto.
  - cbn [sub children shadowed_on nth_error] in S3, S4.
    cbn [mk]. apply in_or_app. right. apply in_pre. split; auto.
Qed.

(* ------------------------------------------------------------------ Reach true vs TailPos *)

Lemma sub_app : forall q e c r, sub e q = Some c -> sub e (q ++ r) = sub c r.
Proof.
  induction q as [|i q IH]; intros e c r H; cbn [sub app] in *.
  - now injection H as ->.
  - destruct (nth_error (children e) i); [|discriminate]. apply IH. exact H.
Qed.

Lemma through_callee_step e i c p :
  nth_error (children e) i = Some c -> through_callee c p -> through_callee e (i :: p).
Proof.
  intros Hc (q & r & [(f & args & Hs & ->)|(l & f & args & Hs & ->)]); exists (i :: q), r; [left|right].
  - exists f, args. cbn [sub app]. rewrite Hc. auto.
  - exists l, f, args. cbn [sub app]. rewrite Hc. auto.
Qed.

Lemma reach_split e p : Reach true e p -> TailPos e p \/ through_callee e p.
Proof.
  unfold TailPos.
  induction 1 as [e|e p R IH|c a b p R IH|c a b p R IH|items i e p Hn Hl R IH|bs e a b p R IH
                 |bs e a b p R IH|e arms i bs a p Hn R IH|f args p Hc R IH|l f args p Hc R IH].
  - left. constructor.
  - destruct IH as [IH|IH]; [left; constructor; auto|right; eapply through_callee_step; eauto; reflexivity].
  - destruct IH as [IH|IH]; [left; apply R_cond_a; auto|right; eapply through_callee_step; eauto; reflexivity].
  - destruct IH as [IH|IH]; [left; apply R_cond_b; auto|right; eapply through_callee_step; eauto; reflexivity].
  - destruct IH as [IH|IH]; [left; eapply R_seq; eauto|right; eapply through_callee_step; eauto].
    cbn [children]. apply (nth_map_item _ _ _ Hn).
  - destruct IH as [IH|IH]; [left; apply R_iflet_a; auto|right; eapply through_callee_step; eauto; reflexivity].
  - destruct IH as [IH|IH]; [left; apply R_iflet_b; auto|right; eapply through_callee_step; eauto; reflexivity].
  - destruct IH as [IH|IH]; [left; eapply R_arm; eauto|right; eapply through_callee_step; eauto].
    cbn [children nth_error]. apply (nth_map_arm _ _ _ Hn).
  - right. exists [], p. left. exists f, args. auto.
  - right. exists [], p. right. exists l, f, args. auto.
Qed.

Lemma tailpos_reach e p : TailPos e p -> Reach true e p.
Proof.
  unfold TailPos. induction 1; try (now constructor; auto); try discriminate.
  - eapply R_seq; eauto.
  - eapply R_arm; eauto.
Qed.

(* ------------------------------------------------------------------ the theorems *)

(* every call tailrec.c marks is a call of the enclosing function by its own, un-shadowed
   name, at a position tailrec.c reaches in tail mode: a syntactic tail position, or -- the one
   propagation rule of the C code that is not a tail position -- inside the callee expression
   of a call that is itself so reached.  The latter needs `f(a)(b)` inside f with the inner
   call a self call, i.e. ret(f) = (B) -> ret(f): no such type exists in Never. *)
Theorem tailrec_marks_characterised fd p :
  In p (tail_calls fd) ->
  SelfCallAt fd p /\ (TailPos (tf_body fd) p \/ through_callee (tf_body fd) p).
Proof.
  unfold tail_calls, SelfCallAt. destruct (tf_name fd) as [x|]; [|intros []].
  intros H. destruct (mk_sound x _ _ _ H) as (_ & S2 & S3 & S4).
  split; [eauto|]. apply reach_split. exact S2.
Qed.

Theorem tailrec_marks_only_tail_positions fd p :
  In p (tail_calls fd) -> ~ through_callee (tf_body fd) p ->
  SelfCallAt fd p /\ TailPos (tf_body fd) p.
Proof.
  intros H N. destruct (tailrec_marks_characterised fd p H) as [S [T|T]]; [auto|contradiction].
Qed.

(* every self call in syntactic tail position (callee = the bare, un-shadowed name) is marked *)
Theorem tailrec_marks_all_direct_tail_self_calls fd p :
  TailPos (tf_body fd) p -> SelfCallAt fd p -> In p (tail_calls fd).
Proof.
  unfold tail_calls, SelfCallAt. intros T (x & -> & S3 & S4).
  eapply mk_complete; eauto.
Qed.

(* catch clauses neither disable the marking nor are they ever marked *)
Theorem tailrec_ignores_catch_clauses fd cs :
  tail_calls {| tf_name := tf_name fd; tf_params := tf_params fd; tf_body := tf_body fd; tf_catches := cs |}
  = tail_calls fd.
Proof. reflexivity. Qed.

(* ------------------------------------------------------------------ the core AST of Src/Syntax.v *)

Fixpoint of_expr (e : expr) : texpr :=
  match e with
  | EInt _ | EBool _ | ERecNil _ => TLeaf
  | EVar x => TId x
  | ENeg a | ENot a | EBNot a | EPrint a | EField a _ _ => TOp [of_expr a]
  | EBin _ a b | EAssign a b | EIndex a b => TOp [of_expr a; of_expr b]
  | ECond c a b => TCond (of_expr c) (of_expr a) (of_expr b)
  | EIf c a => TCond (of_expr c) (of_expr a) TLeaf       (* parser.y: EXPR_COND c a (int 0) *)
  | ECall f args => TCall (of_expr f) (map of_expr args)
  | EBlock items => TSeq (map of_item items)
  | EWhile c b => TLoop [of_expr c; of_expr b]
  | EDoWhile b c => TLoop [of_expr b; of_expr c]
  | EFor i c n b => TLoop [of_expr i; of_expr c; of_expr n; of_expr b]
  | EForInRange _ a b body => TLoop [TOp [of_expr a; of_expr b]; of_expr body]   (* in_value = [a .. b] *)
  | EForInArr _ a body => TLoop [of_expr a; of_expr body]
  | ELambda _ => TFunc
  | EArrLit es _ => TOp (map of_expr es)
  | ERecNew _ args => TOp (map of_expr args)
  end
with of_item (it : item) : titem :=
  match it with
  | ILet x e | IVar x e => TBind x (of_expr e)
  | IFunc fd => TFuncItem (fd_name fd)
  | IExpr e => TExprItem (of_expr e)
  end.

Definition of_fdef (fd : fdef) : tfdef :=
  {| tf_name := Some (fd_name fd);
     tf_params := map (fun p => fst (fst p)) (fd_params fd);
     tf_body := TSeq (map of_item (fd_body fd));
     tf_catches := map (fun c => TSeq (map of_item (snd c))) (fd_catches fd) ++
                   match fd_catch_all fd with Some b => [TSeq (map of_item b)] | None => [] end |}.

(* positions of the calls front/tailrec.c marks in a function of the core language *)
Definition tail_calls_core (fd : fdef) : list path := tail_calls (of_fdef fd).
