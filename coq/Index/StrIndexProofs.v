(* Proofs about string indexing and string slices (model: Index/StrIndex.v).  No axioms. *)
From Coq Require Import ZArith List Bool Lia.
From NV Require Import Index.W32 Index.ArrIndex Index.StrIndex Index.IndexSpec Index.ArrIndexProofs.
Import ListNotations.
Local Open Scope Z_scope.

(* ---- STRING_DEREF ------------------------------------------------------------------------- *)
(* a character is produced  <->  0 <= index < length  (fix a6ffef6 added the `index < 0` test) *)
Theorem string_index_guard : forall s i,
  strlen s < two31 ->
  (0 <= i < strlen s <-> exists k, string_deref (Some s) i = Ok k) /\
  (0 <= i < strlen s ->
     string_deref (Some s) i = Ok i /\ exists c, string_char s i = Some c) /\
  (~ (0 <= i < strlen s) -> string_deref (Some s) i = Exc (IndexOob (-1))).
Proof.
  intros s i Hlen. unfold string_deref, strlen in *.
  rewrite s32_small by (unfold is_s32, two31 in *; lia).
  destruct (Z.ltb_spec i 0) as [Hneg|Hnn]; cbn [orb].
  - split; [split; [lia | intros [k Hk]; discriminate]|]. split; [lia | reflexivity].
  - destruct (Z.leb_spec (Z.of_nat (length s)) i) as [Hge|Hlt].
    + split; [split; [lia | intros [k Hk]; discriminate]|]. split; [lia | reflexivity].
    + split; [split; [eauto | lia]|]. split; [|lia].
      intros _. split; [reflexivity|].
      unfold string_char, strlen.
      destruct (Z.leb_spec 0 i); [|lia]. destruct (Z.ltb_spec i (Z.of_nat (length s))); [|lia]. cbn.
      destruct (nth_error s (Z.to_nat i)) as [c|] eqn:E; [eauto|].
      apply nth_error_None in E. lia.
Qed.

(* ---- list helpers --------------------------------------------------------------------------- *)
Lemma nth_firstn_lt : forall n (l : str) k, (k < n)%nat -> nth k (firstn n l) 0 = nth k l 0.
Proof.
  induction n as [|n IH]; intros l k H; [lia|].
  destruct l as [|x l]; [destruct k; reflexivity|].
  destruct k as [|k]; [reflexivity|]. cbn. apply IH. lia.
Qed.

Lemma nth_skipn_add : forall off (l : str) k, nth k (skipn off l) 0 = nth (off + k) l 0.
Proof.
  induction off as [|off IH]; intros l k; [reflexivity|].
  destruct l as [|x l]; [destruct k; reflexivity|]. cbn. apply IH.
Qed.

Lemma substr_length : forall s off n, 0 <= off -> 0 <= n -> off + n <= strlen s ->
  strlen (substr s off n) = n.
Proof.
  intros s off n H1 H2 H3. unfold substr, strlen in *.
  rewrite firstn_length_le; [lia|]. rewrite skipn_length. lia.
Qed.

Lemma substr_nth : forall s off n k, 0 <= off -> 0 <= k < n ->
  nth (Z.to_nat k) (substr s off n) 0 = nth (Z.to_nat (off + k)) s 0.
Proof.
  intros s off n k H1 H2. unfold substr.
  rewrite nth_firstn_lt by lia. rewrite nth_skipn_add. f_equal. lia.
Qed.

Lemma set_nat_length : forall (l : str) k v, length (set_nat l k v) = length l.
Proof. induction l as [|x l IH]; intros k v; destruct k; cbn; auto. Qed.

Lemma set_nat_nth : forall (l : str) k j v, (k < length l)%nat ->
  nth j (set_nat l k v) 0 = if Nat.eqb j k then v else nth j l 0.
Proof.
  induction l as [|x l IH]; intros k j v H; cbn in H; [lia|].
  destruct k as [|k]; destruct j as [|j]; cbn; try reflexivity.
  apply IH. lia.
Qed.

(* ---- the in-place reversal loop of SLICE_STRING ----------------------------------------------- *)
Lemma swap_loop_nth : forall fuel i l sl,
  Z.of_nat (length l) = sl -> 0 <= i -> sl / 2 - i <= Z.of_nat fuel ->
  length (swap_loop fuel i sl l) = length l /\
  forall k, 0 <= k < sl ->
    nth (Z.to_nat k) (swap_loop fuel i sl l) 0 =
    if (i <=? k) && (k <=? sl - 1 - i) then nth (Z.to_nat (sl - 1 - k)) l 0
    else nth (Z.to_nat k) l 0.
Proof.
  induction fuel as [|f IH]; intros i l sl Hlen Hi Hfuel.
  - cbn [swap_loop]. split; [reflexivity|]. intros k Hk.
    pose proof (Z_div_mod_eq_full sl 2). pose proof (Z.mod_pos_bound sl 2 ltac:(lia)).
    destruct (Z.leb_spec i k); destruct (Z.leb_spec k (sl - 1 - i)); cbn; try reflexivity.
    f_equal. lia.
  - cbn [swap_loop].
    pose proof (Z_div_mod_eq_full sl 2) as Hdm. pose proof (Z.mod_pos_bound sl 2 ltac:(lia)) as Hmb.
    destruct (Z.ltb_spec i (sl / 2)) as [Hlt|Hge].
    + set (x := nth (Z.to_nat i) l 0). set (y := nth (Z.to_nat (sl - i - 1)) l 0).
      set (l1 := set_nth l i y). set (l2 := set_nth l1 (sl - i - 1) x).
      assert (Hl1 : length l1 = length l) by (apply set_nat_length).
      assert (Hl2 : length l2 = length l) by (unfold l2, set_nth; rewrite set_nat_length; exact Hl1).
      destruct (IH (i + 1) l2 sl) as [IHlen IHnth]; try lia.
      split; [lia|]. intros k Hk. rewrite (IHnth k Hk).
      assert (Hget : forall j, 0 <= j < sl ->
                nth (Z.to_nat j) l2 0 =
                if j =? sl - i - 1 then x else if j =? i then y else nth (Z.to_nat j) l 0).
      { intros j Hj. unfold l2, set_nth. rewrite set_nat_nth by lia.
        destruct (Nat.eqb_spec (Z.to_nat j) (Z.to_nat (sl - i - 1))) as [E|E].
        - destruct (Z.eqb_spec j (sl - i - 1)); [reflexivity|lia].
        - destruct (Z.eqb_spec j (sl - i - 1)); [lia|].
          unfold l1, set_nth. rewrite set_nat_nth by lia.
          destruct (Nat.eqb_spec (Z.to_nat j) (Z.to_nat i)) as [E2|E2].
          + destruct (Z.eqb_spec j i); [reflexivity|lia].
          + destruct (Z.eqb_spec j i); [lia|reflexivity]. }
      destruct (Z.leb_spec (i + 1) k); destruct (Z.leb_spec k (sl - 1 - (i + 1))); cbn [andb].
      * rewrite Hget by lia.
        destruct (Z.eqb_spec (sl - 1 - k) (sl - i - 1)); [lia|].
        destruct (Z.eqb_spec (sl - 1 - k) i); [lia|].
        destruct (Z.leb_spec i k); [|lia]. destruct (Z.leb_spec k (sl - 1 - i)); [|lia]. reflexivity.
      * rewrite Hget by lia.
        destruct (Z.eqb_spec k (sl - i - 1)) as [->|Hne].
        -- destruct (Z.leb_spec i (sl - i - 1)); [|lia].
           destruct (Z.leb_spec (sl - i - 1) (sl - 1 - i)); [|lia]. cbn.
           unfold x. f_equal. lia.
        -- destruct (Z.eqb_spec k i); [lia|].
           destruct (Z.leb_spec i k); destruct (Z.leb_spec k (sl - 1 - i)); cbn; try reflexivity. lia.
      * rewrite Hget by lia.
        destruct (Z.eqb_spec k (sl - i - 1)); [lia|].
        destruct (Z.eqb_spec k i) as [->|Hne].
        -- destruct (Z.leb_spec i i); [|lia]. destruct (Z.leb_spec i (sl - 1 - i)); [|lia]. cbn.
           unfold y. f_equal. lia.
        -- destruct (Z.leb_spec i k); destruct (Z.leb_spec k (sl - 1 - i)); cbn; try reflexivity. lia.
      * lia.
    + split; [reflexivity|]. intros k Hk.
      destruct (Z.leb_spec i k); destruct (Z.leb_spec k (sl - 1 - i)); cbn; try reflexivity.
      f_equal. lia.
Qed.

(* ---- SLICE_STRING ----------------------------------------------------------------------------- *)
Theorem string_slice_exact : forall s from to,
  strlen s < two31 -> is_s32 from -> is_s32 to ->
  (* both bounds inside the string: exactly the characters at the denoted positions, in the
     order of the range (reversed for a descending range) *)
  (0 <= from < strlen s /\ 0 <= to < strlen s ->
     exists l, slice_string s from to = Ok l /\ strlen l = range_len from to /\
       forall k, 0 <= k < range_len from to ->
         nth (Z.to_nat k) l 0 = nth (Z.to_nat (range_nth from to k)) s 0 /\
         0 <= range_nth from to k < strlen s) /\
  (* otherwise index_out_of_bounds, nothing is copied *)
  (~ (0 <= from < strlen s /\ 0 <= to < strlen s) ->
     slice_string s from to = Exc (IndexOob (-1))).
Proof.
  intros s from to Hlen Hf Ht. unfold slice_string.
  rewrite s32_small by (unfold is_s32, strlen, two31 in *; lia).
  split.
  - intros [H1 H2].
    destruct (Z.ltb_spec from 0); [lia|]. destruct (Z.ltb_spec to 0); [lia|].
    destruct (Z.leb_spec (strlen s) from); [lia|]. destruct (Z.leb_spec (strlen s) to); [lia|].
    cbn [orb]. unfold range_len, range_nth.
    destruct (Z.ltb_spec from to) as [Hasc|Hdesc].
    + rewrite u32_small by (unfold two31, two32 in *; lia).
      eexists. split; [reflexivity|]. split.
      * rewrite substr_length by lia. lia.
      * intros k Hk. rewrite substr_nth by lia. split; [reflexivity|lia].
    + rewrite u32_small by (unfold two31, two32 in *; lia).
      set (sl := from - to + 1).
      assert (Hsub : Z.of_nat (length (substr s to sl)) = sl).
      { change (strlen (substr s to sl) = sl). apply substr_length; unfold sl; lia. }
      destruct (swap_loop_nth (Z.to_nat sl) 0 (substr s to sl) sl Hsub ltac:(lia)) as [L N].
      { pose proof (Z_div_mod_eq_full sl 2). pose proof (Z.mod_pos_bound sl 2 ltac:(lia)).
        unfold sl in *. lia. }
      eexists. split; [reflexivity|]. split.
      * unfold strlen. rewrite L. unfold sl in *. lia.
      * intros k Hk. assert (Hk' : 0 <= k < sl) by (unfold sl; lia).
        rewrite (N k Hk').
        destruct (Z.leb_spec 0 k); [|lia]. destruct (Z.leb_spec k (sl - 1 - 0)); [|lia]. cbn [andb].
        rewrite substr_nth by lia. split; [|lia]. f_equal. unfold sl. lia.
  - intros Hnot.
    destruct (Z.ltb_spec from 0); [reflexivity|]. destruct (Z.ltb_spec to 0); [reflexivity|].
    destruct (Z.leb_spec (strlen s) from); [reflexivity|].
    destruct (Z.leb_spec (strlen s) to); [reflexivity|]. lia.
Qed.

Example string_slice_example :
  let s := [104; 101; 108; 108; 111] in        (* "hello" *)
  strlen s < two31 /\
  slice_string s 1 3 = Ok [101; 108; 108] /\     (* "ell" *)
  slice_string s 3 1 = Ok [108; 108; 101] /\     (* "lle" *)
  slice_string s 4 0 = Ok [111; 108; 108; 101; 104] /\
  slice_string s 2 2 = Ok [108] /\
  slice_string s 1 5 = Exc (IndexOob (-1)) /\ slice_string s (-1) 2 = Exc (IndexOob (-1)) /\
  string_deref (Some s) 4 = Ok 4 /\ string_deref (Some s) 5 = Exc (IndexOob (-1)) /\
  string_deref (Some s) (-1) = Exc (IndexOob (-1)).
Proof. cbv zeta. repeat split; vm_compute; reflexivity. Qed.
