(* VM/ApiGlobalProofs.v — proofs about the process-global state model VM/ApiGlobal.v.  No axioms.
   Statements used by property C15 are restated in Properties/Properties_C15b.v. *)
From Coq Require Import List Bool.
From NV Require Import VM.ApiGlobal.
Import ListNotations.

Arguments builtin : simpl never.
Arguments compile_literals : simpl never.

(* ---- (1) floating-point status word ------------------------------------------------------------ *)
Lemma bool_comp : forall p c r t : bool, t && negb c = false -> (p && negb c || r) && t = r && t.
Proof. destruct p, c, r, t; simpl; auto; discriminate. Qed.

Lemma fl_sub_components :
  forall a b, fl_sub a b = true ->
    f_divbyzero a && negb (f_divbyzero b) = false /\ f_invalid a && negb (f_invalid b) = false /\
    f_overflow a && negb (f_overflow b) = false /\ f_underflow a && negb (f_underflow b) = false /\
    f_inexact a && negb (f_inexact b) = false.
Proof.
  intros [a1 a2 a3 a4 a5] [b1 b2 b3 b4 b5]; unfold fl_sub, fl_any, fl_minus; simpl; intro H.
  apply negb_true_iff in H.
  apply orb_false_iff in H; destruct H as [H H5].
  apply orb_false_iff in H; destruct H as [H H4].
  apply orb_false_iff in H; destruct H as [H H3].
  apply orb_false_iff in H; destruct H as [H1 H2].
  auto.
Qed.

(* the flags a built-in finds set are those its own computation raised, whatever was set before *)
Lemma found_independent :
  forall pol p r, fl_sub (tested pol) (cleared pol) = true ->
    fl_and (fl_or (fl_minus p (cleared pol)) r) (tested pol) = fl_and r (tested pol).
Proof.
  intros [c t] p r H; simpl in *.
  apply fl_sub_components in H.
  destruct p as [p1 p2 p3 p4 p5], r as [r1 r2 r3 r4 r5], c as [c1 c2 c3 c4 c5], t as [t1 t2 t3 t4 t5]; simpl in *.
  destruct H as (H1 & H2 & H3 & H4 & H5).
  unfold fl_and, fl_or, fl_minus; simpl.
  f_equal; apply bool_comp; assumption.
Qed.

Lemma builtin_independent :
  forall pol p1 p2 r, fl_sub (tested pol) (cleared pol) = true ->
    fst (builtin pol p1 r) = fst (builtin pol p2 r).
Proof.
  intros pol p1 p2 r H; unfold builtin; simpl.
  rewrite (found_independent pol p1 r H), (found_independent pol p2 r H); reflexivity.
Qed.

Theorem fp_outcomes_independent :
  forall pol, fl_sub (tested pol) (cleared pol) = true ->
  forall ss p1 p2, fst (run_steps pol p1 ss) = fst (run_steps pol p2 ss).
Proof.
  intros pol H ss; induction ss as [|s ss IH]; intros p1 p2; [reflexivity|].
  destruct s as [r|r]; cbn [run_steps].
  - apply IH.
  - pose proof (builtin_independent pol p1 p2 r H) as Hb.
    destruct (builtin pol p1 r) as [b1 q1], (builtin pol p2 r) as [b2 q2]; simpl in Hb; subst b2.
    specialize (IH q1 q2).
    destruct (run_steps pol q1 ss) as [bs1 z1], (run_steps pol q2 ss) as [bs2 z2]; simpl in *; subst; reflexivity.
Qed.

Lemma run_steps_app :
  forall pol pre ss p,
    run_steps pol p (pre ++ ss) =
    let '(b1, q1) := run_steps pol p pre in
    let '(b2, q2) := run_steps pol q1 ss in (b1 ++ b2, q2).
Proof.
  intros pol pre; induction pre as [|s pre IH]; intros ss p; cbn [run_steps app].
  - destruct (run_steps pol p ss); reflexivity.
  - destruct s as [r|r]; cbn [run_steps].
    + apply IH.
    + destruct (builtin pol p r) as [b q]. rewrite IH.
      destruct (run_steps pol q pre) as [b1 q1]. destruct (run_steps pol q1 ss) as [b2 q2]. reflexivity.
Qed.

(* whatever ran before (`pre`: other programs, other VMs, constant folding), the built-ins of `ss` give what
   they give in a fresh process *)
Theorem fp_outcomes_as_in_fresh_process :
  forall pol, fl_sub (tested pol) (cleared pol) = true ->
  forall pre ss p,
    fst (run_steps pol p (pre ++ ss)) = fst (run_steps pol p pre) ++ fst (run_steps pol fl_none ss).
Proof.
  intros pol H pre ss p. rewrite run_steps_app.
  destruct (run_steps pol p pre) as [b1 q1].
  pose proof (fp_outcomes_independent pol H ss q1 fl_none) as E.
  destruct (run_steps pol q1 ss) as [b2 q2]; simpl in *. rewrite E. reflexivity.
Qed.

(* the hypothesis is necessary: a tested flag that is not cleared can be observed *)
Theorem fp_reinit_necessary :
  forall pol, fl_sub (tested pol) (cleared pol) = false ->
    fst (run_steps pol fl_all [Builtin fl_none]) <> fst (run_steps pol fl_none [Builtin fl_none]).
Proof.
  intros [c t] H; cbn [tested cleared] in H.
  unfold fl_sub in H. apply negb_false_iff in H.
  assert (E1 : fl_and (fl_or (fl_minus fl_all c) fl_none) t = fl_minus t c).
  { destruct c as [c1 c2 c3 c4 c5], t as [t1 t2 t3 t4 t5]; unfold fl_and, fl_or, fl_minus; simpl.
    f_equal; match goal with |- (negb ?x || false) && ?y = _ => destruct x, y; reflexivity end. }
  assert (E2 : fl_and (fl_or (fl_minus fl_none c) fl_none) t = fl_none).
  { destruct c, t; reflexivity. }
  cbn [run_steps]. unfold builtin. cbn [tested cleared fst].
  rewrite E1, E2, H. cbn. discriminate.
Qed.

Theorem narrowed_mask_observable :
  fst (run_steps narrowed_fp fl_none [Arith (mkflags false false false true true); Builtin fl_none])
    = [BThrows (mkflags false false false true false)] /\
  fst (run_steps narrowed_fp fl_none [Builtin fl_none]) = [BReturns] /\
  fst (run_steps pinned_fp fl_none [Arith (mkflags false false false true true); Builtin fl_none]) = [BReturns].
Proof. repeat split; reflexivity. Qed.

(* ---- (2) the scanner's pending string buffer --------------------------------------------------- *)
Lemma scan_independent_gen :
  forall pol, alloc_always pol = true ->
  forall evs inlit p1 p2, (inlit = true -> p1 = p2) ->
    fst (scan pol p1 inlit evs) = fst (scan pol p2 inlit evs).
Proof.
  intros pol H evs; induction evs as [|e evs IH]; intros inlit p1 p2 Hp; simpl; [reflexivity|].
  destruct e as [|c|]; destruct inlit.
  - rewrite (Hp eq_refl); reflexivity.
  - rewrite H; reflexivity.
  - rewrite (Hp eq_refl); reflexivity.
  - apply IH; discriminate.
  - reflexivity.
  - apply IH; discriminate.
Qed.

Theorem scan_literals_independent :
  forall pol, alloc_always pol = true ->
  forall src pend1 pend2, fst (compile_literals pol pend1 src) = fst (compile_literals pol pend2 src).
Proof. intros pol H src p1 p2; unfold compile_literals; apply scan_independent_gen; [assumption|discriminate]. Qed.

(* without a <C_STRING><<EOF>> rule the residue exists: an input that ends inside a literal leaves its text behind *)
Theorem eof_inside_literal_leaves_text :
  forall pol c d, eof_frees pol = false -> snd (compile_literals pol None [Quote; Ch c; Ch d]) = Some [c; d].
Proof. intros [[|] e] c d H; simpl in H; subst e; reflexivity. Qed.

(* with it nothing is ever left pending *)
Lemma scan_leaves_nothing_gen :
  forall pol, eof_frees pol = true ->
  forall evs inlit pend, (inlit = false -> pend = None) -> snd (scan pol pend inlit evs) = None.
Proof.
  intros pol H evs; induction evs as [|e evs IH]; intros inlit pend Hp; simpl.
  - destruct inlit; simpl; [rewrite H; reflexivity | apply Hp; reflexivity].
  - destruct e as [|c|]; destruct inlit.
    + specialize (IH false None (fun _ => eq_refl)). destruct (scan pol None false evs); simpl in *; assumption.
    + apply IH; discriminate.
    + apply IH; discriminate.
    + apply IH; assumption.
    + apply IH; reflexivity.
    + apply IH; assumption.
Qed.

Theorem compile_leaves_nothing_pending :
  forall pol, eof_frees pol = true -> forall src, snd (compile_literals pol None src) = None.
Proof. intros pol H src; unfold compile_literals; apply scan_leaves_nothing_gen; auto. Qed.

Theorem scan_alloc_necessary :
  forall pol, alloc_always pol = false ->
    fst (compile_literals pol (Some [1]) [Quote; Quote]) <> fst (compile_literals pol None [Quote; Quote]).
Proof. intros [a e] H; simpl in H; subst a; unfold compile_literals; simpl; discriminate. Qed.

(* the history of seeded change C15-6: (a) the input ends inside a literal after E R  (b) a good source  (c) the same again *)
Theorem guarded_allocation_observable :
  let src := [Ch 7; Quote; Ch 104; Ch 105; Quote; Ch 7] in
  let after_a pol := snd (compile_literals pol None [Quote; Ch 69; Ch 82]) in
  fst (compile_literals guarded_scan (after_a guarded_scan) src) = [[69; 82; 104; 105]] /\
  fst (compile_literals guarded_scan (snd (compile_literals guarded_scan (after_a guarded_scan) src)) src) = [[104; 105]] /\
  fst (compile_literals pinned_scan (after_a pinned_scan) src) = [[104; 105]] /\
  fst (compile_literals guarded_eof_scan (after_a guarded_eof_scan) src) = [[104; 105]].
Proof. repeat split; reflexivity. Qed.

(* ---- the process: histories of compiles, calls and host arithmetic ----------------------------- *)
Lemma reinitialises_split :
  forall fp sp, reinitialises fp sp = true ->
    fl_sub (tested fp) (cleared fp) = true /\ (alloc_always sp = true \/ eof_frees sp = true).
Proof.
  intros fp sp H; unfold reinitialises in H; apply andb_true_iff in H; destruct H as [H1 H2].
  apply orb_true_iff in H2; auto.
Qed.

(* two process states are interchangeable: always under alloc_always; when no buffer is pending otherwise *)
Definition alike (sp : scan_policy) (p1 p2 : process) : Prop :=
  alloc_always sp = true \/ (eof_frees sp = true /\ strbuf p1 = None /\ strbuf p2 = None).

Lemma gstep_alike :
  forall fp sp, fl_sub (tested fp) (cleared fp) = true ->
  forall o p1 p2, alike sp p1 p2 ->
    fst (gstep fp sp p1 o) = fst (gstep fp sp p2 o) /\ alike sp (snd (gstep fp sp p1 o)) (snd (gstep fp sp p2 o)).
Proof.
  intros fp sp Hf o p1 p2 A.
  destruct o as [src folds|ss|r]; cbn [gstep].
  - destruct A as [Ha|(He & N1 & N2)].
    + pose proof (scan_literals_independent sp Ha src (strbuf p1) (strbuf p2)) as E.
      destruct (compile_literals sp (strbuf p1) src), (compile_literals sp (strbuf p2) src); simpl in *; subst.
      split; [reflexivity | left; assumption].
    + rewrite N1, N2. pose proof (compile_leaves_nothing_pending sp He src) as L.
      destruct (compile_literals sp None src) as [ls b]; simpl in *; subst b.
      split; [reflexivity | right; auto].
  - pose proof (fp_outcomes_independent fp Hf ss (fpsw p1) (fpsw p2)) as E.
    destruct (run_steps fp (fpsw p1) ss), (run_steps fp (fpsw p2) ss); simpl in *; subst.
    split; [reflexivity | exact A].
  - simpl; split; [reflexivity | exact A].
Qed.

Theorem process_history_independent :
  forall fp sp, reinitialises fp sp = true ->
  forall os p1 p2, alike sp p1 p2 -> fst (grun fp sp p1 os) = fst (grun fp sp p2 os).
Proof.
  intros fp sp H; apply reinitialises_split in H; destruct H as [Hf _].
  intros os; induction os as [|o os IH]; intros p1 p2 A; cbn [grun]; [reflexivity|].
  destruct (gstep_alike fp sp Hf o p1 p2 A) as [E A'].
  destruct (gstep fp sp p1 o) as [ob1 q1], (gstep fp sp p2 o) as [ob2 q2]; simpl in E, A'; subst ob2.
  specialize (IH q1 q2 A').
  destruct (grun fp sp q1 os) as [obs1 z1], (grun fp sp q2 os) as [obs2 z2]; simpl in *; subst; reflexivity.
Qed.

Lemma grun_app :
  forall fp sp pre os p,
    grun fp sp p (pre ++ os) =
    let '(o1, q1) := grun fp sp p pre in
    let '(o2, q2) := grun fp sp q1 os in (o1 ++ o2, q2).
Proof.
  intros fp sp pre; induction pre as [|o pre IH]; intros os p; cbn [grun app].
  - destruct (grun fp sp p os); reflexivity.
  - destruct (gstep fp sp p o) as [ob q]. rewrite IH.
    destruct (grun fp sp q pre) as [o1 q1]. destruct (grun fp sp q1 os) as [o2 q2]. reflexivity.
Qed.

Lemma grun_alike :
  forall fp sp, fl_sub (tested fp) (cleared fp) = true ->
  forall os p, alike sp p fresh_process -> alike sp (snd (grun fp sp p os)) fresh_process.
Proof.
  intros fp sp Hf os; induction os as [|o os IH]; intros p A; cbn [grun]; [exact A|].
  assert (A' : alike sp (snd (gstep fp sp p o)) fresh_process).
  { destruct A as [Ha|(He & N1 & N2)]; [left; assumption|].
    right. split; [assumption|]. split; [|reflexivity].
    destruct o as [src folds|ss|r]; cbn [gstep].
    - rewrite N1. pose proof (compile_leaves_nothing_pending sp He src) as L.
      destruct (compile_literals sp None src); simpl in *; assumption.
    - destruct (run_steps fp (fpsw p) ss); simpl; assumption.
    - simpl; assumption. }
  destruct (gstep fp sp p o) as [ob q]; simpl in A'.
  specialize (IH q A'). destruct (grun fp sp q os); simpl in *; assumption.
Qed.

(* C15, isolation over any history: in a process that started fresh, after ANY earlier operations `pre` (compiles that
   succeeded or failed in any scanner state, calls of any program on any VM, float arithmetic of the host), every compile
   and every call of `os` gives what it gives in a fresh process *)
Theorem process_history_as_in_fresh_process :
  forall fp sp, reinitialises fp sp = true ->
  forall pre os,
    fst (grun fp sp fresh_process (pre ++ os)) = fst (grun fp sp fresh_process pre) ++ fst (grun fp sp fresh_process os).
Proof.
  intros fp sp H pre os. rewrite grun_app.
  pose proof (reinitialises_split fp sp H) as [Hf Hs].
  assert (A0 : alike sp fresh_process fresh_process).
  { destruct Hs; [left; assumption | right; auto]. }
  pose proof (grun_alike fp sp Hf pre fresh_process A0) as A.
  destruct (grun fp sp fresh_process pre) as [o1 q1]; simpl in A.
  pose proof (process_history_independent fp sp H os q1 fresh_process A) as E.
  destruct (grun fp sp q1 os) as [o2 q2]; simpl in *. rewrite E. reflexivity.
Qed.

(* ... and the hypothesis cannot be weakened: a policy that does not re-initialise allows a history whose last
   operation is observably different from the same operation in a fresh process *)
Theorem process_reinit_necessary :
  forall fp sp, reinitialises fp sp = false ->
  exists pre o,
    fst (grun fp sp fresh_process (pre ++ [o])) <> fst (grun fp sp fresh_process pre) ++ fst (grun fp sp fresh_process [o]).
Proof.
  intros fp sp H. unfold reinitialises in H. apply andb_false_iff in H. destruct H as [H|H].
  - exists [GHost fl_all], (GCall [Builtin fl_none]).
    pose proof (fp_reinit_necessary fp H) as N.
    cbn [grun gstep app fpsw strbuf fresh_process fst].
    change (fl_or fl_none fl_all) with fl_all.
    destruct (run_steps fp fl_all [Builtin fl_none]) as [b1 q1].
    destruct (run_steps fp fl_none [Builtin fl_none]) as [b2 q2].
    cbn [fst app] in *. intro C. apply N. injection C as C. exact C.
  - exists [GCompile [Quote; Ch 1] []], (GCompile [Quote; Quote] []).
    apply orb_false_iff in H. destruct H as [Ha He].
    destruct sp as [a e]; simpl in Ha, He; subst a e. vm_compute. discriminate.
Qed.

Example pinned_policies_reinitialise : reinitialises pinned_fp pinned_scan = true /\ reinitialises pinned_fp current_scan = true.
Proof. split; reflexivity. Qed.
Example narrowed_mask_does_not : reinitialises narrowed_fp current_scan = false.
Proof. reflexivity. Qed.
Example guarded_allocation_does_not : reinitialises pinned_fp guarded_scan = false.
Proof. reflexivity. Qed.
(* ... but the same guard is harmless once the end of the input frees the buffer (the tree since a3bcc72) *)
Example guarded_allocation_harmless_with_eof_rule : reinitialises pinned_fp guarded_eof_scan = true.
Proof. reflexivity. Qed.
