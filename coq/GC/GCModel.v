(* Model of back/gc.c, function by function (DESIGN.md §5 C09).
   Cells are numbered by N; cell 0 is nil.  Memory is three total maps (object, next, mark),
   the two allocated-cell lists are Coq lists (index 0 first), w_index is a bool
   (false = list 0 is current). *)
From Coq Require Import NArith List Bool.
From NV Require Import Base.TMap.
Import ListNotations.
Local Open Scope N_scope.

(* object kinds that hold no reference: the payload is kept for the correspondence and for
   "payload unchanged" theorems.  kind = the object_type number of include/object.h *)
Inductive obj :=
| OScalar (kind : N) (payload : list N)   (* INT LONG FLOAT DOUBLE CHAR STRING C_PTR STRING_ARR *)
| OStrRef (r : N)
| OVec (l : list N)
| OVecRef (r : N)
| OArr (dims : list N) (l : list N)
| OArrRef (r : N)
| OFunc (vec : N) (ip : N).

Record gc := {
  g_free : N;
  g_size : N;
  g_obj : tmap (option obj);
  g_next : tmap N;
  g_mark : tmap bool;
  g_w : bool;                 (* w_index: false = 0, true = 1 *)
  g_l0 : list N;              (* wb_list[0][0 .. wb_top[0]) *)
  g_l1 : list N
}.

Definition cur_list (g : gc) : list N := if g_w g then g_l1 g else g_l0 g.
Definition oth_list (g : gc) : list N := if g_w g then g_l0 g else g_l1 g.

Definition with_obj (g : gc) (m : tmap (option obj)) : gc :=
  {| g_free := g_free g; g_size := g_size g; g_obj := m; g_next := g_next g;
     g_mark := g_mark g; g_w := g_w g; g_l0 := g_l0 g; g_l1 := g_l1 g |}.
Definition with_mark (g : gc) (m : tmap bool) : gc :=
  {| g_free := g_free g; g_size := g_size g; g_obj := g_obj g; g_next := g_next g;
     g_mark := m; g_w := g_w g; g_l0 := g_l0 g; g_l1 := g_l1 g |}.

(* gc_new: mem[0].next = 0; mem[i].next = i+1 for 1 <= i < size; then mem[size-1].next = 0;
   free = 1 if size > 1 else 0 (a heap of one cell has only nil). *)
Fixpoint init_next (n : nat) (i : N) (m : tmap N) : tmap N :=
  match n with
  | O => m
  | S k => init_next k (i + 1) (tset m i (i + 1))
  end.

Definition gc_new (size : N) : gc :=
  let nx := init_next (N.to_nat (size - 1)) 1 (tm_init 0) in
  let nx := tset nx (size - 1) 0 in
  {| g_free := (if 1 <? size then 1 else 0); g_size := size; g_obj := tm_init None; g_next := nx;
     g_mark := tm_init false; g_w := false; g_l0 := []; g_l1 := [] |}.

(* gc_alloc_any: None = "out of memory" (free == 0), reported before any write *)
Definition gc_alloc_any (g : gc) (o : obj) : option (gc * N) :=
  let loc := g_free g in
  if loc =? 0 then None
  else
    let g' := {| g_free := tget (g_next g) loc; g_size := g_size g;
                 g_obj := tset (g_obj g) loc (Some o); g_next := g_next g;
                 g_mark := g_mark g; g_w := g_w g;
                 g_l0 := if g_w g then g_l0 g else g_l0 g ++ [loc];
                 g_l1 := if g_w g then g_l1 g ++ [loc] else g_l1 g |} in
    Some (g', loc).

(* ---- mark ------------------------------------------------------------------------- *)

Inductive mres := MOk (m : tmap bool) | MFuel | MBad.

Definition mbind (r : mres) (f : tmap bool -> mres) : mres :=
  match r with MOk m => f m | MFuel => MFuel | MBad => MBad end.

Definition mfold (f : tmap bool -> N -> mres) (l : list N) (m : tmap bool) : mres :=
  fold_left (fun acc c => mbind acc (fun m' => f m' c)) l (MOk m).

(* gc_mark / gc_mark_vec / gc_mark_arr with explicit recursion fuel.  MBad = the C code
   would read an object through the wrong union member (gc_mark_vec on a non-vector). *)
Fixpoint mark (fuel : nat) (objs : tmap (option obj)) (m : tmap bool) (a : N) : mres :=
  match fuel with
  | O => MFuel
  | S k =>
    let mark_vec (m : tmap bool) (v : N) : mres :=
      if v =? 0 then MOk m
      else if tget m v then MOk m
      else match tget objs v with
           | Some (OVec l) => mfold (mark k objs) l (tset m v true)
           | _ => MBad
           end in
    let mark_arr (m : tmap bool) (v : N) : mres :=
      if v =? 0 then MOk m
      else if tget m v then MOk m
      else match tget objs v with
           | Some (OArr _ l) => mfold (mark k objs) l (tset m v true)
           | _ => MBad
           end in
    if a =? 0 then MOk m
    else match tget objs a with
         | None => MOk m
         | Some (OScalar _ _) => MOk (tset m a true)
         | Some (OStrRef r) => mark k objs (tset m a true) r
         | Some (OVec _) => mark_vec m a
         | Some (OVecRef r) => mark_vec (tset m a true) r
         | Some (OArr _ _) => mark_arr m a
         | Some (OArrRef r) => mark_arr (tset m a true) r
         | Some (OFunc v _) => mark_vec (tset m a true) v
         end
  end.

(* gc_mark_access: roots = the ADDR slots of stack[0..stack_size); only unmarked,
   non-nil roots are passed to gc_mark *)
Definition mark_access (fuel : nat) (objs : tmap (option obj)) (roots : list N) (m : tmap bool) : mres :=
  mfold (fun m r => if (0 <? r) && negb (tget m r) then mark fuel objs m r else MOk m) roots m.

(* ---- sweep ------------------------------------------------------------------------ *)

Record sweep_st := { s_free : N; s_obj : tmap (option obj); s_next : tmap N;
                     s_mark : tmap bool; s_out : list N }.

Definition sweep_one (s : sweep_st) (idx : N) : sweep_st :=
  if negb (tget (s_mark s) idx) && (match tget (s_obj s) idx with Some _ => true | None => false end)
  then {| s_free := idx; s_obj := tset (s_obj s) idx None;
          s_next := tset (s_next s) idx (s_free s); s_mark := s_mark s; s_out := s_out s |}
  else if tget (s_mark s) idx
  then {| s_free := s_free s; s_obj := s_obj s; s_next := s_next s;
          s_mark := tset (s_mark s) idx false; s_out := s_out s ++ [idx] |}
  else s.   (* unmarked and empty: dropped from both lists (never happens under WF) *)

Definition gc_sweep_all (g : gc) : gc :=
  let s0 := {| s_free := g_free g; s_obj := g_obj g; s_next := g_next g;
               s_mark := g_mark g; s_out := oth_list g |} in
  let s := fold_left sweep_one (cur_list g) s0 in
  {| g_free := s_free s; g_size := g_size g; g_obj := s_obj s; g_next := s_next s;
     g_mark := s_mark s; g_w := negb (g_w g);
     g_l0 := if g_w g then s_out s else [];
     g_l1 := if g_w g then [] else s_out s |}.

Definition mark_fuel (g : gc) : nat := 2 * N.to_nat (g_size g) + 2.

Inductive cres := COk (g : gc) | CFuel | CBad.

(* gc_run_omfalos: unconditional collection from a root list *)
Definition gc_collect (g : gc) (roots : list N) : cres :=
  match mark_access (mark_fuel g) (g_obj g) roots (g_mark g) with
  | MOk m => COk (gc_sweep_all (with_mark g m))
  | MFuel => CFuel
  | MBad => CBad
  end.

(* the trigger of gc_run:  wb_top[w] < mem_size * 0.8  (double arithmetic) -> no collection.
   5*top < 4*size is the same test: for size < 2^31 the double product is the correctly
   rounded value of size*0.8, which compares with an integer like the exact value. *)
Definition gc_trigger (g : gc) : bool :=
  negb (5 * N.of_nat (length (cur_list g)) <? 4 * g_size g).

(* gc_run: stack roots, then the global vector (marked through gc_mark even when already
   marked), then sweep *)
Definition gc_run (g : gc) (roots : list N) (gv : N) : cres :=
  if gc_trigger g then
    match mark_access (mark_fuel g) (g_obj g) roots (g_mark g) with
    | MOk m =>
      match (if 0 <? gv then mark (mark_fuel g) (g_obj g) m gv else MOk m) with
      | MOk m' => COk (gc_sweep_all (with_mark g m'))
      | MFuel => CFuel
      | MBad => CBad
      end
    | MFuel => CFuel
    | MBad => CBad
    end
  else COk g.

(* ---- mutator-level operations (what gcdrive.c executes against the real gc.c) ------ *)

Definition refs (o : obj) : list N :=
  match o with
  | OScalar _ _ => []
  | OStrRef r => [r]
  | OVec l => l
  | OVecRef r => [r]
  | OArr _ l => l
  | OArrRef r => [r]
  | OFunc v _ => [v]
  end.

Fixpoint list_set (l : list N) (i : nat) (v : N) : option (list N) :=
  match l, i with
  | [], _ => None
  | _ :: t, O => Some (v :: t)
  | h :: t, S j => match list_set t j v with Some t' => Some (h :: t') | None => None end
  end.

Inductive op :=
| OpAlloc (o : obj)                 (* gc_alloc_* *)
| OpSetVec (a : N) (i : N) (v : N)  (* gc_set_vec *)
| OpSetArr (a : N) (i : N) (v : N)  (* gc_set_arr_elem *)
| OpAppend (a : N) (v : N)          (* gc_append_arr_elem *)
| OpSetRef (a : N) (r : N)          (* gc_set_string_ref / vec_ref / arr_ref *)
| OpSetFuncVec (a : N) (v : N)      (* gc_set_func_vec *)
| OpSetScalar (a : N) (p : list N)  (* gc_set_int ... *)
| OpCollect (roots : list N)        (* gc_run_omfalos *)
| OpRun (roots : list N) (gv : N).  (* gc_run *)

Inductive sres := SOk (g : gc) (ret : N) | SOom | SReject | SFuel | SBad.

Definition is_alloc (g : gc) (a : N) : bool :=
  match tget (g_obj g) a with Some _ => true | None => false end.

(* a reference stored into the heap must be nil or an allocated cell of the kind the
   holder expects (the VM guarantees this by typing; the C setters do not check) *)
Definition ref_ok (g : gc) (want : obj -> bool) (r : N) : bool :=
  (r =? 0) || match tget (g_obj g) r with Some o => want o | None => false end.

Definition any_obj (_ : obj) := true.
Definition is_vec o := match o with OVec _ => true | _ => false end.
Definition is_arr o := match o with OArr _ _ => true | _ => false end.
Definition is_str o := match o with OScalar 6 _ => true | _ => false end.

Definition obj_ok (g : gc) (o : obj) : bool :=
  match o with
  | OScalar _ _ => true
  | OStrRef r => ref_ok g is_str r
  | OVec l => forallb (ref_ok g any_obj) l
  | OVecRef r => ref_ok g is_vec r
  | OArr _ l => forallb (ref_ok g any_obj) l
  | OArrRef r => ref_ok g is_arr r
  | OFunc v _ => ref_ok g is_vec v
  end.

Definition step (g : gc) (o : op) : sres :=
  match o with
  | OpAlloc ob =>
    if obj_ok g ob then
      match gc_alloc_any g ob with Some (g', a) => SOk g' a | None => SOom end
    else SReject
  | OpSetVec a i v =>
    match tget (g_obj g) a with
    | Some (OVec l) =>
      if ref_ok g any_obj v then
        match list_set l (N.to_nat i) v with
        | Some l' => SOk (with_obj g (tset (g_obj g) a (Some (OVec l')))) 0
        | None => SReject end
      else SReject
    | _ => SReject end
  | OpSetArr a i v =>
    match tget (g_obj g) a with
    | Some (OArr d l) =>
      if ref_ok g any_obj v then
        match list_set l (N.to_nat i) v with
        | Some l' => SOk (with_obj g (tset (g_obj g) a (Some (OArr d l')))) 0
        | None => SReject end
      else SReject
    | _ => SReject end
  | OpAppend a v =>
    match tget (g_obj g) a with
    | Some (OArr [d0] l) =>      (* object_arr_append asserts dims == 1 *)
      if ref_ok g any_obj v then
        SOk (with_obj g (tset (g_obj g) a (Some (OArr [d0 + 1] (l ++ [v]))))) 0
      else SReject
    | _ => SReject end
  | OpSetRef a r =>
    match tget (g_obj g) a with
    | Some (OStrRef _) => if ref_ok g is_str r then SOk (with_obj g (tset (g_obj g) a (Some (OStrRef r)))) 0 else SReject
    | Some (OVecRef _) => if ref_ok g is_vec r then SOk (with_obj g (tset (g_obj g) a (Some (OVecRef r)))) 0 else SReject
    | Some (OArrRef _) => if ref_ok g is_arr r then SOk (with_obj g (tset (g_obj g) a (Some (OArrRef r)))) 0 else SReject
    | _ => SReject end
  | OpSetFuncVec a v =>
    match tget (g_obj g) a with
    | Some (OFunc _ ip) => if ref_ok g is_vec v then SOk (with_obj g (tset (g_obj g) a (Some (OFunc v ip)))) 0 else SReject
    | _ => SReject end
  | OpSetScalar a p =>
    match tget (g_obj g) a with
    | Some (OScalar k _) => SOk (with_obj g (tset (g_obj g) a (Some (OScalar k p)))) 0
    | _ => SReject end
  | OpCollect roots =>
    if forallb (ref_ok g any_obj) roots then
      match gc_collect g roots with COk g' => SOk g' 0 | CFuel => SFuel | CBad => SBad end
    else SReject
  | OpRun roots gv =>
    if forallb (ref_ok g any_obj) roots && ref_ok g any_obj gv then
      match gc_run g roots gv with COk g' => SOk g' 0 | CFuel => SFuel | CBad => SBad end
    else SReject
  end.

(* running a history: rejected / failing ops leave the state unchanged (and are reported) *)
Definition step_st (g : gc) (o : op) : gc :=
  match step g o with SOk g' _ => g' | _ => g end.

Definition run_history (size : N) (ops : list op) : gc := fold_left step_st ops (gc_new size).

(* ---- observation used by the correspondence (and by the theorems) ------------------ *)

Fixpoint free_chain (fuel : nat) (nx : tmap N) (a : N) : option (list N) :=
  if a =? 0 then Some []
  else match fuel with
       | O => None
       | S k => match free_chain k nx (tget nx a) with
                | Some l => Some (a :: l)
                | None => None
                end
       end.

Definition free_list (g : gc) : option (list N) :=
  free_chain (N.to_nat (g_size g)) (g_next g) (g_free g).
