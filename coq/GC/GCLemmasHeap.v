(* Heap-level lemmas: consequences of Closed, reach vs path, preservation of WF/Closed by
   allocation and by in-place updates, and the mark+sweep core.  No axioms. *)
From Coq Require Import NArith List Bool Lia.
From NV Require Import Base.TMap GC.GCModel GC.GCSpec GC.GCLemmasBase GC.GCLemmasSweep
                       GC.GCLemmasMark.
Import ListNotations.
Local Open Scope N_scope.

(* ---- ref_ok / obj_ok ------------------------------------------------------------------ *)

Lemma ref_ok_inv g want r : ref_ok g want r = true ->
  r = 0 \/ exists o, tget (g_obj g) r = Some o /\ want o = true.
Proof.
  unfold ref_ok. destruct (N.eqb_spec r 0) as [E|E]; [auto|]. cbn [orb].
  destruct (tget (g_obj g) r) as [o|]; [|discriminate].
  intros H. right. exists o. auto.
Qed.

Lemma ref_ok_intro g want r :
  (r = 0 \/ exists o, tget (g_obj g) r = Some o /\ want o = true) -> ref_ok g want r = true.
Proof.
  unfold ref_ok. intros [->|(o & Ho & Hw)]; [reflexivity|]. rewrite Ho, Hw. apply orb_true_r.
Qed.

Definition same_kind (o o' : obj) : Prop :=
  is_vec o' = is_vec o /\ is_arr o' = is_arr o /\ is_str o' = is_str o.

Lemma same_kind_refl o : same_kind o o.
Proof. repeat split. Qed.

Definition std_want (want : obj -> bool) : Prop :=
  want = any_obj \/ want = is_vec \/ want = is_arr \/ want = is_str.

Lemma ref_ok_transfer g g' want r : std_want want -> ref_ok g want r = true ->
  (r <> 0 -> forall oc, tget (g_obj g) r = Some oc ->
             exists oc', tget (g_obj g') r = Some oc' /\ same_kind oc oc') ->
  ref_ok g' want r = true.
Proof.
  intros Hw H Ht. apply ref_ok_inv in H. apply ref_ok_intro.
  destruct H as [H|(o & Ho & Hwo)]; [now left|].
  destruct (N.eq_dec r 0) as [E|E]; [now left|]. right.
  destruct (Ht E o Ho) as (oc' & Ho' & K1 & K2 & K3). exists oc'. split; [exact Ho'|].
  destruct Hw as [-> | [-> | [-> | ->]]]; [reflexivity|congruence|congruence|congruence].
Qed.

Lemma obj_ok_transfer g g' o : obj_ok g o = true ->
  (forall c, In c (refs o) -> c <> 0 -> forall oc, tget (g_obj g) c = Some oc ->
             exists oc', tget (g_obj g') c = Some oc' /\ same_kind oc oc') ->
  obj_ok g' o = true.
Proof.
  intros H Ht.
  assert (R1 : forall want r, std_want want -> In r (refs o) -> ref_ok g want r = true ->
                              ref_ok g' want r = true).
  { intros want r Hw Hr Hok. apply (ref_ok_transfer g g' want r Hw Hok).
    intros Hr0 oc Hoc. apply (Ht r Hr Hr0 oc Hoc). }
  destruct o as [kd p|r|l|r|d l|r|v ip]; cbn [obj_ok refs] in *.
  - reflexivity.
  - apply R1; [right; right; now right|now left|exact H].
  - rewrite forallb_forall in *. intros c Hc. apply R1; [now left|exact Hc|apply H; exact Hc].
  - apply R1; [right; now left|now left|exact H].
  - rewrite forallb_forall in *. intros c Hc. apply R1; [now left|exact Hc|apply H; exact Hc].
  - apply R1; [right; right; now left|now left|exact H].
  - apply R1; [right; now left|now left|exact H].
Qed.

Lemma obj_ok_refs g o c : obj_ok g o = true -> In c (refs o) -> c <> 0 ->
  tget (g_obj g) c <> None.
Proof.
  intros Hok Hc Hc0.
  assert (Hex : exists want, ref_ok g want c = true).
  { destruct o as [kd p|r|l|r|d l|r|v ip]; cbn [obj_ok refs] in *.
    - destruct Hc.
    - destruct Hc as [<-|[]]. eauto.
    - rewrite forallb_forall in Hok. eauto.
    - destruct Hc as [<-|[]]. eauto.
    - rewrite forallb_forall in Hok. eauto.
    - destruct Hc as [<-|[]]. eauto.
    - destruct Hc as [<-|[]]. eauto. }
  destruct Hex as (want & Hw). apply ref_ok_inv in Hw.
  destruct Hw as [Hw|(o' & Ho' & _)]; [contradiction|]. rewrite Ho'. discriminate.
Qed.

Lemma Closed_refs g : Closed g -> forall a o c, tget (g_obj g) a = Some o ->
  In c (refs o) -> c <> 0 -> tget (g_obj g) c <> None.
Proof. intros C a o c Ho. apply obj_ok_refs. apply (C a o Ho). Qed.

Lemma Closed_kind g : Closed g -> forall a o, tget (g_obj g) a = Some o ->
  match o with
  | OStrRef r => r = 0 \/ exists kd p, tget (g_obj g) r = Some (OScalar kd p)
  | OVecRef r | OFunc r _ => r = 0 \/ exists l, sel_vec (tget (g_obj g) r) = Some l
  | OArrRef r => r = 0 \/ exists l, sel_arr (tget (g_obj g) r) = Some l
  | _ => True
  end.
Proof.
  intros C a o Ho. pose proof (C a o Ho) as Hok.
  destruct o as [kd p|r|l|r|d l|r|v ip]; try exact I; cbn [obj_ok] in Hok;
    apply ref_ok_inv in Hok; (destruct Hok as [Hok|(o' & Ho' & Hw)]; [now left|right]);
    destruct o'; cbn in Hw; try discriminate; rewrite Ho'; cbn; eauto.
Qed.

(* ---- reach vs path -------------------------------------------------------------------- *)

Lemma reach_path g R x : reach g R x <-> exists r, In r R /\ path (g_obj g) r x.
Proof.
  split.
  - induction 1 as [r Hr Hr0|a o c Ha IH Ho Hc Hc0].
    + exists r. split; [exact Hr|apply p_refl; exact Hr0].
    + destruct IH as (r & Hr & Hp). exists r. split; [exact Hr|]. eapply p_step; eauto.
  - intros (r & Hr & Hp). induction Hp as [a Ha|a b o c Hp IH Hb Hc Hc0].
    + apply reach_root; assumption.
    + eapply reach_step; [apply IH; exact Hr|exact Hb|exact Hc|exact Hc0].
Qed.

Lemma alloc_in_range g x : WF g -> allocated g x -> in_range g x.
Proof.
  intros W Hal. unfold in_range.
  destruct (N.eq_dec x 0) as [->|Hx0].
  { exfalso. apply Hal. apply (wf_nil_empty g W). }
  destruct (N.lt_ge_cases x (g_size g)) as [Hlt|Hge]; [lia|].
  exfalso. apply Hal. apply (wf_outside_empty g W). exact Hge.
Qed.

Lemma reach_alloc g R : Closed g -> roots_ok g R -> forall x, reach g R x -> allocated g x.
Proof.
  intros C HR. induction 1 as [r Hr Hr0|a o c Ha IH Ho Hc Hc0].
  - destruct (HR r Hr) as [E|E]; [contradiction|exact E].
  - unfold allocated. eapply Closed_refs; eauto.
Qed.

(* ---- in-place updates ------------------------------------------------------------------ *)

Lemma update_preserves g a oold onew :
  WF g -> Closed g -> tget (g_obj g) a = Some oold -> same_kind oold onew ->
  obj_ok g onew = true ->
  let g' := with_obj g (tset (g_obj g) a (Some onew)) in
  WF g' /\ Closed g' /\ g_size g' = g_size g /\ cur_list g' = cur_list g.
Proof.
  intros W C Ha Hk Hok g'.
  assert (Hnone : forall x, tget (g_obj g') x = None <-> tget (g_obj g) x = None).
  { intros x. subst g'. cbn [with_obj g_obj]. rewrite tget_set.
    destruct (N.eqb_spec a x) as [E|E]; [|tauto]. subst x. rewrite Ha. split; discriminate. }
  assert (Hkinds : forall c oc, tget (g_obj g) c = Some oc ->
                     exists oc', tget (g_obj g') c = Some oc' /\ same_kind oc oc').
  { intros c oc Hc. subst g'. cbn [with_obj g_obj]. rewrite tget_set.
    destruct (N.eqb_spec a c) as [E|E].
    - subst c. rewrite Ha in Hc. inversion Hc; subst oc. exists onew. split; [reflexivity|exact Hk].
    - exists oc. split; [exact Hc|apply same_kind_refl]. }
  split; [|split; [|split; reflexivity]].
  - destruct (wf_free g W) as (fl & Hch & Hnd & Hfl).
    constructor.
    + exact (wf_size g W).
    + apply Hnone. exact (wf_nil_empty g W).
    + intros x Hx. apply Hnone. apply (wf_outside_empty g W). exact Hx.
    + exists fl. split; [exact Hch|]. split; [exact Hnd|].
      intros x. rewrite Hnone. apply Hfl.
    + exact (wf_cur_nodup g W).
    + intros x. change (cur_list g') with (cur_list g). rewrite (wf_cur g W).
      unfold in_range, allocated. change (g_size g') with (g_size g). rewrite Hnone. tauto.
    + exact (wf_oth_empty g W).
    + exact (wf_marks_clear g W).
  - intros b ob Hb.
    assert (Hokb : obj_ok g ob = true).
    { subst g'. cbn [with_obj g_obj] in Hb. rewrite tget_set in Hb.
      destruct (N.eqb_spec a b) as [E|E].
      - inversion Hb; subst ob. exact Hok.
      - apply (C b ob Hb). }
    apply (obj_ok_transfer g g' ob Hokb). intros c _ _ oc Hoc. apply Hkinds. exact Hoc.
Qed.

Lemma list_set_forallb f : forall l i v l', list_set l i v = Some l' ->
  forallb f l = true -> f v = true -> forallb f l' = true.
Proof.
  induction l as [|h t IH]; intros i v l' H Hl Hv; [discriminate|].
  cbn [forallb] in Hl. apply andb_true_iff in Hl. destruct Hl as [Hh Ht].
  destruct i as [|j]; cbn [list_set] in H.
  - inversion H; subst. cbn [forallb]. rewrite Hv, Ht. reflexivity.
  - destruct (list_set t j v) as [t'|] eqn:E; [|discriminate]. inversion H; subst.
    cbn [forallb]. rewrite Hh. cbn [andb]. eapply IH; eauto.
Qed.

(* ---- allocation ------------------------------------------------------------------------ *)

Lemma NoDup_snoc {A} (l : list A) a : NoDup l -> ~ In a l -> NoDup (l ++ [a]).
Proof.
  intros Hl Ha. apply NoDup_app_intro; [exact Hl|constructor; [intros []|constructor]|].
  intros x Hx [E|[]]. subst. contradiction.
Qed.

Lemma alloc_lists g o g' a : gc_alloc_any g o = Some (g', a) ->
  cur_list g' = cur_list g ++ [a] /\ oth_list g' = oth_list g /\ g_size g' = g_size g.
Proof.
  intros H. destruct (alloc_inv _ _ _ _ H) as (_ & _ & ->).
  unfold cur_list, oth_list. cbn. destruct (g_w g); auto.
Qed.

Lemma alloc_preserves g o g' a : WF g -> Closed g -> obj_ok g o = true ->
  gc_alloc_any g o = Some (g', a) -> WF g' /\ Closed g'.
Proof.
  intros W C Hok H.
  destruct (alloc_hands_out_a_free_cell g o g' a W H) as (Hr & Hna & Hnew & Hoth).
  destruct (alloc_lists g o g' a H) as (Hcur & Hothl & Hsz).
  destruct (alloc_inv _ _ _ _ H) as (Ha & Ha0 & Hg').
  assert (Hnone : tget (g_obj g) a = None).
  { destruct (tget (g_obj g) a) eqn:E; [|reflexivity]. exfalso. apply Hna. unfold allocated.
    rewrite E. discriminate. }
  assert (Hkinds : forall c oc, tget (g_obj g) c = Some oc ->
                     exists oc', tget (g_obj g') c = Some oc' /\ same_kind oc oc').
  { intros c oc Hc. exists oc. split; [|apply same_kind_refl]. rewrite Hoth; [exact Hc|].
    intro E. subst c. congruence. }
  split.
  - destruct (wf_free g W) as (fl & Hch & Hnd & Hfl).
    rewrite <- Ha in Hch.
    destruct (chain_head_nonzero _ _ _ Ha0 Hch) as (t & Ht & Hcht). subst fl.
    inversion Hnd as [|x l Hat Hndt]; subst x l.
    constructor.
    + rewrite Hsz. exact (wf_size g W).
    + rewrite Hoth by congruence. exact (wf_nil_empty g W).
    + intros x Hx. rewrite Hsz in Hx. rewrite Hoth.
      * apply (wf_outside_empty g W). exact Hx.
      * intro E. subst x. destruct Hr. lia.
    + exists t. split; [|split; [exact Hndt|]].
      * rewrite Hg'. cbn [g_next g_free]. exact Hcht.
      * intros x. unfold in_range. rewrite Hsz. split.
        -- intros Hx. assert (Hxa : x <> a) by (intro E; subst; contradiction).
           rewrite Hoth by exact Hxa. apply Hfl. now right.
        -- intros [Hxr Hxn]. assert (Hxa : x <> a) by (intro E; subst; congruence).
           rewrite Hoth in Hxn by exact Hxa.
           destruct (proj2 (Hfl x) (conj Hxr Hxn)) as [E|Hin]; [congruence|exact Hin].
    + rewrite Hcur. apply NoDup_snoc; [exact (wf_cur_nodup g W)|].
      intro Hin. apply (wf_cur g W) in Hin. destruct Hin as [_ Hal]. contradiction.
    + intros x. rewrite Hcur, in_app_iff, (wf_cur g W). unfold in_range, allocated.
      rewrite Hsz. destruct (N.eq_dec x a) as [->|Hxa].
      * rewrite Hnew. split; [intros _; split; [exact Hr|discriminate]|intros _; right; now left].
      * rewrite Hoth by exact Hxa. split.
        -- intros [Hx|[E|[]]]; [exact Hx|congruence].
        -- intros Hx. now left.
    + rewrite Hothl. exact (wf_oth_empty g W).
    + rewrite Hg'. cbn [g_mark]. exact (wf_marks_clear g W).
  - intros b ob Hb.
    assert (Hokb : obj_ok g ob = true).
    { destruct (N.eq_dec b a) as [->|Hba].
      - rewrite Hnew in Hb. inversion Hb; subst ob. exact Hok.
      - rewrite Hoth in Hb by exact Hba. apply (C b ob Hb). }
    apply (obj_ok_transfer g g' ob Hokb). intros c _ _ oc Hoc. apply Hkinds. exact Hoc.
Qed.

(* ---- mark + sweep ---------------------------------------------------------------------- *)

Lemma collect_core g R m' : WF g -> Closed g -> roots_ok g R ->
  SpecL (g_obj g) (g_mark g) R m' ->
  let g' := gc_sweep_all (with_mark g m') in
  WF g' /\ Closed g' /\ g_size g' = g_size g /\
  (forall a, allocated g' a <-> reach g R a) /\
  (forall a, reach g R a -> tget (g_obj g') a = tget (g_obj g) a).
Proof.
  intros W C HR SL g'.
  pose proof (Closed_refs g C) as Hrefs.
  assert (Hmark : forall x, tget m' x = true <-> reach g R x).
  { intros x. rewrite reach_path.
    apply (marked_exact (g_obj g) R (g_mark g) m'); [exact (wf_marks_clear g W)|exact SL|].
    intros r Hr. exact (HR r Hr). }
  assert (Hcur : forall x, tget m' x = true -> In x (cur_list g)).
  { intros x Hx. apply (wf_cur g W). apply Hmark in Hx.
    pose proof (reach_alloc g R C HR x Hx) as Hal. split; [|exact Hal].
    apply alloc_in_range; assumption. }
  destruct (wf_free g W) as (fl & Hch & Hnd & Hfl).
  set (s0 := {| s_free := g_free g; s_obj := g_obj g; s_next := g_next g; s_mark := m';
                s_out := oth_list g |}).
  set (s' := fold_left sweep_one (cur_list g) s0).
  assert (Eg' : g' = {| g_free := s_free s'; g_size := g_size g; g_obj := s_obj s';
                        g_next := s_next s'; g_mark := s_mark s'; g_w := negb (g_w g);
                        g_l0 := if g_w g then s_out s' else [];
                        g_l1 := if g_w g then [] else s_out s' |}) by reflexivity.
  destruct (sweep_fold (fun a => tget m' a) (cur_list g) s0 fl (wf_cur_nodup g W))
    as (C1 & C2 & C3 & C4 & C5 & C6).
  { exact Hch. }
  { intros a Ha Hin. exact (wf_free_cur_disjoint g fl W Hfl a Hin Ha). }
  { intros a Ha. apply (wf_cur g W) in Ha. destruct Ha as [[H1 _] _]. lia. }
  { intros a Ha. apply (wf_cur g W) in Ha. exact (proj2 Ha). }
  { intros a Ha. reflexivity. }
  fold s' in C1, C2, C3, C4, C5, C6.
  change (s_obj s0) with (g_obj g) in C4. change (s_mark s0) with m' in C6.
  assert (Hout : s_out s' = filter (fun a => tget m' a) (cur_list g)).
  { rewrite C2. subst s0. cbn [s_out]. rewrite (wf_oth_empty g W). reflexivity. }
  assert (Hcur' : cur_list g' = filter (fun a => tget m' a) (cur_list g)).
  { rewrite Eg'. unfold cur_list at 1. cbn [g_w g_l0 g_l1]. rewrite <- Hout.
    destruct (g_w g); reflexivity. }
  assert (Hoth' : oth_list g' = []).
  { rewrite Eg'. unfold oth_list. cbn [g_w g_l0 g_l1]. destruct (g_w g); reflexivity. }
  assert (Hobj' : g_obj g' = s_obj s') by (rewrite Eg'; reflexivity).
  assert (Hsz' : g_size g' = g_size g) by (rewrite Eg'; reflexivity).
  (* object table after the sweep *)
  assert (Hkeep : forall a, tget m' a = true -> tget (g_obj g') a = tget (g_obj g) a).
  { intros a Ha. rewrite Hobj'. apply C4. now right. }
  assert (Hnotcur : forall a, ~ In a (cur_list g) -> tget (g_obj g') a = None).
  { intros a Ha. rewrite Hobj', C4 by (now left).
    destruct (tget (g_obj g) a) eqn:E; [|reflexivity]. exfalso. apply Ha. apply (wf_cur g W).
    assert (Hal : allocated g a) by (unfold allocated; rewrite E; discriminate).
    split; [apply alloc_in_range; assumption|exact Hal]. }
  assert (Hdrop : forall a, In a (cur_list g) -> tget m' a = false -> tget (g_obj g') a = None).
  { intros a Ha Hm. rewrite Hobj'. apply C3; assumption. }
  assert (Halloc' : forall a, allocated g' a -> tget m' a = true).
  { intros a Hal. destruct (tget m' a) eqn:Em; [reflexivity|]. exfalso. apply Hal.
    destruct (in_dec N.eq_dec a (cur_list g)) as [Hin|Hin]; [apply Hdrop; assumption|].
    apply Hnotcur. exact Hin. }
  assert (Hreach_keep : forall a, reach g R a -> tget (g_obj g') a = tget (g_obj g) a).
  { intros a Ha. apply Hkeep. apply Hmark. exact Ha. }
  assert (Hexact : forall a, allocated g' a <-> reach g R a).
  { intros a. split.
    - intros Hal. apply Hmark. apply Halloc'. exact Hal.
    - intros Ha. unfold allocated. rewrite (Hreach_keep a Ha).
      apply (reach_alloc g R C HR a Ha). }
  split; [|split; [|split; [exact Hsz'|split; [exact Hexact|exact Hreach_keep]]]].
  - (* WF g' *)
    constructor.
    + rewrite Hsz'. exact (wf_size g W).
    + apply Hnotcur. intro Hin. apply (wf_cur g W) in Hin. destruct Hin as [[H1 _] _]. lia.
    + intros a Ha. rewrite Hsz' in Ha. apply Hnotcur. intro Hin. apply (wf_cur g W) in Hin.
      destruct Hin as [[_ H2] _]. lia.
    + exists (rev (filter (fun a => negb (tget m' a)) (cur_list g)) ++ fl).
      split; [|split].
      * rewrite Eg'. cbn [g_next g_free]. exact C1.
      * apply NoDup_app_intro; [apply NoDup_rev, NoDup_filter, (wf_cur_nodup g W)|exact Hnd|].
        intros a Ha Hin. apply in_rev in Ha. apply filter_In in Ha. destruct Ha as [Ha _].
        exact (wf_free_cur_disjoint g fl W Hfl a Hin Ha).
      * intros a. rewrite in_app_iff, <- in_rev, filter_In. unfold in_range. rewrite Hsz'.
        split.
        -- intros [[Hin Hm]|Hin].
           ++ apply negb_true_iff in Hm. split; [|apply Hdrop; assumption].
              apply (wf_cur g W) in Hin. exact (proj1 Hin).
           ++ pose proof (wf_free_cur_disjoint g fl W Hfl a Hin) as Hnc.
              apply Hfl in Hin. split; [exact (proj1 Hin)|]. apply Hnotcur. exact Hnc.
        -- intros [Hr Hn]. destruct (tget (g_obj g) a) eqn:E.
           ++ left. assert (Hin : In a (cur_list g)).
              { apply (wf_cur g W). split; [exact Hr|]. unfold allocated. rewrite E. discriminate. }
              split; [exact Hin|]. apply negb_true_iff.
              destruct (tget m' a) eqn:Em; [|reflexivity].
              rewrite (Hkeep a Em), E in Hn. discriminate.
           ++ right. apply Hfl. split; [exact Hr|exact E].
    + rewrite Hcur'. apply NoDup_filter. exact (wf_cur_nodup g W).
    + intros a. rewrite Hcur', filter_In. unfold in_range. rewrite Hsz'. split.
      * intros [Hin Hm]. apply (wf_cur g W) in Hin. split; [exact (proj1 Hin)|].
        unfold allocated. rewrite (Hkeep a Hm). exact (proj2 Hin).
      * intros [Hr Hal]. pose proof (Halloc' a Hal) as Hm. split; [|exact Hm].
        apply Hcur. exact Hm.
    + exact Hoth'.
    + intros a. rewrite Eg'. cbn [g_mark].
      destruct (in_dec N.eq_dec a (cur_list g)) as [Hin|Hin]; [apply C5; exact Hin|].
      rewrite C6 by exact Hin. destruct (tget m' a) eqn:Em; [|reflexivity].
      exfalso. apply Hin. apply Hcur. exact Em.
  - (* Closed g' *)
    intros a o Ho.
    assert (Hal : allocated g' a) by (unfold allocated; rewrite Ho; discriminate).
    pose proof (Halloc' a Hal) as Hm.
    assert (Hra : reach g R a) by (apply Hmark; exact Hm).
    rewrite (Hkeep a Hm) in Ho.
    apply (obj_ok_transfer g g' o (C a o Ho)).
    intros c Hc Hc0 oc Hoc. exists oc. split; [|apply same_kind_refl].
    rewrite Hreach_keep; [exact Hoc|]. eapply reach_step; eauto.
Qed.
