(* tailrun — runs the extracted model of front/tailrec.c (Src/Tailrec.v: tail_calls) on function
   shapes written by harness/c13/gen.py.

     run < shapes            one function per line:   <key> <name id | -> <shape>
     output, one line each:  <key> <path>;<path>;...   (path = child indices joined by '.', "e" = the
                             body itself; "-" when nothing is marked)     or   <key> !parse-error <msg>

   Shape syntax (prefix, blank separated; numbers are identifier ids):
     L                leaf            F            function literal
     (I x)            identifier      (O e ..)       operator / constructor (operands in SKIP mode)
     (S e)            ( e )           (C c a b)    conditional
     (K f e ..)         call            (P l f e ..)   l |> f(e ..)
     (Q it ..)          block, items:   (B x e) let/var   (G x) nested function item   (E e) expression
     (W e ..)           loop            (T (x ..) e a b)  if let      (M e (A (x ..) e) ..)  match
   Unverified glue: parsing and printing only. *)
open Tailrecmodel

let rec pos_of_int n = if n = 1 then XH else if n land 1 = 0 then XO (pos_of_int (n lsr 1)) else XI (pos_of_int (n lsr 1))
let n_of_int n = if n = 0 then N0 else Npos (pos_of_int n)
let rec int_of_nat = function O -> 0 | S n -> 1 + int_of_nat n

exception Parse of string

let tokenize s =
  let toks = ref [] and b = Buffer.create 16 in
  let flush () = if Buffer.length b > 0 then (toks := Buffer.contents b :: !toks; Buffer.clear b) in
  String.iter (fun c -> match c with
      | '(' | ')' -> flush (); toks := String.make 1 c :: !toks
      | ' ' | '\t' | '\r' | '\n' -> flush ()
      | c -> Buffer.add_char b c) s;
  flush (); List.rev !toks

let ident t = try n_of_int (int_of_string t) with _ -> raise (Parse ("identifier expected: " ^ t))

let rec expr = function
  | "L" :: r -> (TLeaf, r)
  | "F" :: r -> (TFunc, r)
  | "(" :: "I" :: x :: ")" :: r -> (TId (ident x), r)
  | "(" :: "O" :: r -> let (es, r) = exprs r in (TOp es, r)
  | "(" :: "S" :: r -> let (e, r) = expr r in (TSup e, close r)
  | "(" :: "C" :: r -> let (c, r) = expr r in let (a, r) = expr r in let (b, r) = expr r in (TCond (c, a, b), close r)
  | "(" :: "K" :: r -> let (f, r) = expr r in let (es, r) = exprs r in (TCall (f, es), r)
  | "(" :: "P" :: r -> let (l, r) = expr r in let (f, r) = expr r in let (es, r) = exprs r in (TPipe (l, f, es), r)
  | "(" :: "Q" :: r -> let (its, r) = items r in (TSeq its, r)
  | "(" :: "W" :: r -> let (es, r) = exprs r in (TLoop es, r)
  | "(" :: "T" :: "(" :: r ->
    let (bs, r) = idents r in
    let (e, r) = expr r in let (a, r) = expr r in let (b, r) = expr r in (TIfLet (bs, e, a, b), close r)
  | "(" :: "M" :: r -> let (e, r) = expr r in let (arms, r) = arms r in (TMatch (e, arms), r)
  | t :: _ -> raise (Parse ("unexpected token " ^ t))
  | [] -> raise (Parse "unexpected end")
and close = function ")" :: r -> r | t :: _ -> raise (Parse ("expected ) got " ^ t)) | [] -> raise (Parse "expected )")
and exprs = function
  | ")" :: r -> ([], r)
  | r -> let (e, r) = expr r in let (es, r) = exprs r in (e :: es, r)
and idents = function
  | ")" :: r -> ([], r)
  | x :: r -> let (xs, r) = idents r in (ident x :: xs, r)
  | [] -> raise (Parse "unexpected end in binder list")
and items = function
  | ")" :: r -> ([], r)
  | "(" :: "B" :: x :: r -> let (e, r) = expr r in let r = close r in let (its, r) = items r in (TBind (ident x, e) :: its, r)
  | "(" :: "G" :: x :: ")" :: r -> let (its, r) = items r in (TFuncItem (ident x) :: its, r)
  | "(" :: "E" :: r -> let (e, r) = expr r in let r = close r in let (its, r) = items r in (TExprItem e :: its, r)
  | t :: _ -> raise (Parse ("item expected, got " ^ t))
  | [] -> raise (Parse "unexpected end in block")
and arms = function
  | ")" :: r -> ([], r)
  | "(" :: "A" :: "(" :: r ->
    let (bs, r) = idents r in let (e, r) = expr r in let r = close r in
    let (l, r) = arms r in (TArm (bs, e) :: l, r)
  | t :: _ -> raise (Parse ("arm expected, got " ^ t))
  | [] -> raise (Parse "unexpected end in match")

let show_path p =
  match p with
  | [] -> "e"
  | _ -> String.concat "." (List.map (fun n -> string_of_int (int_of_nat n)) p)

let () =
  try
    while true do
      let line = input_line stdin in
      if String.trim line <> "" then begin
        match String.index_opt line ' ' with
        | None -> Printf.printf "%s !parse-error no-fields\n" line
        | Some i ->
          let key = String.sub line 0 i in
          let rest = String.sub line (i + 1) (String.length line - i - 1) in
          (try
             let j = String.index rest ' ' in
             let name = String.sub rest 0 j and shape = String.sub rest (j + 1) (String.length rest - j - 1) in
             let (body, r) = expr (tokenize shape) in
             if r <> [] then raise (Parse "trailing tokens");
             let fd = { tf_name = (if name = "-" then None else Some (ident name)); tf_params = [];
                        tf_body = body; tf_catches = [] } in
             let ps = tail_calls fd in
             Printf.printf "%s %s\n" key (if ps = [] then "-" else String.concat ";" (List.map show_path ps))
           with Parse m -> Printf.printf "%s !parse-error %s\n" key m
              | Not_found -> Printf.printf "%s !parse-error missing-fields\n" key)
      end
    done
  with End_of_file -> ()
