(* apirun — driver around the extracted embedding-API model (VM/Api.v, property C15).
   Unverified glue: number conversion, parsing, printing.

   The instruction-level VM is a parameter of the model (gdepth, init, exec).  Here it is
   instantiated by REPLAY: the per-call outcome class and relative peak observed on the real VM are
   fed back, and the model has to predict everything the API adds around them: initialized, sp
   before/after each call, the absolute peak, which call kills the process.

   stdin, one record per line:
     POLICY <pop_at_halt 0|1> <restore_on_error 0|1>      (first line)
     VM <id> <stack_size>                                  vm_new
     INIT <id> ok <gdepth> <peak>                          what the global prelude did on this VM's
     INIT <id> fail <residue> <peak>                       program (used by the first CALL only)
     CALL <id> H <peak>                                    the stub halted; peak relative to its start
     CALL <id> U <peak>                                    ... ended in the unhandled-exception stub
     CALL <id> A <peak> <residue>                          ... VM_ERROR inside a frame
     DEL <id>                                              vm_delete
   stdout, per VM/DEL line "ok" or "refused"; per CALL line
     R <id> <H|U|A|I|D> <absolute peak> <sp before> <sp after>
   and nothing after a D (the process died). *)
open Apimodel

let rec pos_of_int i = if i = 1 then XH else if i land 1 = 1 then XI (pos_of_int (i lsr 1)) else XO (pos_of_int (i lsr 1))
let z_of_int i = if i = 0 then Z0 else if i > 0 then Zpos (pos_of_int i) else Zneg (pos_of_int (- i))
let rec int_of_pos = function XH -> 1 | XO p -> 2 * int_of_pos p | XI p -> 2 * int_of_pos p + 1
let int_of_z = function Z0 -> 0 | Zpos p -> int_of_pos p | Zneg p -> - (int_of_pos p)
let rec nat_of_int i = if i <= 0 then O else S (nat_of_int (i - 1))

(* replay tables *)
let inits : (int, (unit init_outcome * z)) Hashtbl.t = Hashtbl.create 16
let gdepths : (int, int) Hashtbl.t = Hashtbl.create 16
let calls : (int, ((unit, unit) outcome * z)) Hashtbl.t = Hashtbl.create 64

let gdepth (m : int) : z = z_of_int (try Hashtbl.find gdepths m with Not_found -> 0)
let init (m : int) : unit init_outcome * z =
  try Hashtbl.find inits m with Not_found -> (InitFailed Z0, Z0)
let exec (_ : int) (e : int) (_ : unit) (_ : unit) : ((unit, unit) outcome * unit) * z =
  let (o, pk) = try Hashtbl.find calls e with Not_found -> (Aborted Z0, Z0) in
  ((o, ()), pk)

let () =
  let pol = ref pinned_policy in
  let pool = ref (fun (_ : nat) -> None) in
  let seq = ref 0 in
  let dead = ref false in
  (try
    while not !dead do
      let l = String.trim (input_line stdin) in
      let step o = let (p', ob) = api_step gdepth init exec () !pol !pool o in pool := p'; ob in
      match String.split_on_char ' ' l with
      | ["POLICY"; p; r] -> pol := { pop_at_halt = (p = "1"); restore_on_error = (r = "1") }
      | ["VM"; id; ss] ->
        (match step (NewVM (nat_of_int (int_of_string id), z_of_int (int_of_string ss))) with
         | ORefused -> print_endline "refused" | _ -> print_endline "ok")
      | ["DEL"; id] ->
        (match step (DeleteVM (nat_of_int (int_of_string id))) with
         | ORefused -> print_endline "refused" | _ -> print_endline "ok")
      | ["INIT"; id; "ok"; g; pk] ->
        Hashtbl.replace gdepths (int_of_string id) (int_of_string g);
        Hashtbl.replace inits (int_of_string id) (InitOk (), z_of_int (int_of_string pk))
      | ["INIT"; id; "fail"; r; pk] ->
        Hashtbl.replace inits (int_of_string id) (InitFailed (z_of_int (int_of_string r)), z_of_int (int_of_string pk))
      | "CALL" :: id :: kind :: pk :: rest ->
        let id = int_of_string id in
        incr seq;
        let o = match kind, rest with
          | "H", _ -> Halted ()
          | "U", _ -> Unhandled ()
          | _, r :: _ -> Aborted (z_of_int (int_of_string r))
          | _, [] -> Aborted Z0 in
        Hashtbl.replace calls !seq (o, z_of_int (int_of_string pk));
        (match step (Execute (nat_of_int id, id, !seq, ())) with
         | OResult (r, pk, sb, sa) ->
           let k = match r with RHalt _ -> "H" | RUnhandled _ -> "U" | RAborted -> "A"
                                | RInitFailed -> "I" | RDied -> (dead := true; "D") in
           Printf.printf "R %d %s %d %d %d\n" id k (int_of_z pk) (int_of_z sb) (int_of_z sa)
         | _ -> print_endline "refused")
      | _ -> if l <> "" then Printf.printf "?? %s\n" l
    done
  with End_of_file -> ())
