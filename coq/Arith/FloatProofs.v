(* Arith/FloatProofs.v — float <-> double: every binary32 value converts to the binary64 value
   with the same real value (stated without real numbers: same sign and m1*2^e1 = m2*2^e2),
   and converting back returns the original pattern (NaNs: the canonical NaN), for ALL 2^32
   patterns.  The proof is about Coq.Floats.SpecFloat.binary_round on an exactly
   representable input and about our own bits <-> spec_float codec. *)
From Coq Require Import ZArith Bool Lia Floats.SpecFloat.
From NV Require Import Arith.Bits Arith.FloatOps.
Local Open Scope Z_scope.

(* ---- digits ------------------------------------------------------------------------- *)

Lemma digits_log2 : forall m, Zpos (digits2_pos m) = Z.log2 (Zpos m) + 1.
Proof.
  induction m as [p IH | p IH |]; cbn [digits2_pos].
  - rewrite Pos2Z.inj_succ, IH. change (Zpos p~1) with (2 * Zpos p + 1).
    rewrite Z.log2_succ_double by lia. lia.
  - rewrite Pos2Z.inj_succ, IH. change (Zpos p~0) with (2 * Zpos p).
    rewrite Z.log2_double by lia. lia.
  - reflexivity.
Qed.

Lemma digits_bounds : forall m k, 0 <= k -> 2 ^ k <= Zpos m < 2 ^ (k + 1) ->
  Zpos (digits2_pos m) = k + 1.
Proof.
  intros m k Hk H. rewrite digits_log2. f_equal.
  apply Z.log2_unique; [assumption|]. replace (Z.succ k) with (k + 1) by lia. assumption.
Qed.

Lemma digits_upper : forall m k, 0 <= k -> Zpos m < 2 ^ k -> Zpos (digits2_pos m) <= k.
Proof.
  intros m k Hk H. rewrite digits_log2.
  assert (Z.log2 (Zpos m) < k) by (apply Z.log2_lt_pow2; lia). lia.
Qed.

Lemma digits_range : forall m, 2 ^ (Zpos (digits2_pos m) - 1) <= Zpos m < 2 ^ Zpos (digits2_pos m).
Proof.
  intros m. rewrite digits_log2.
  replace (Z.log2 (Zpos m) + 1 - 1) with (Z.log2 (Zpos m)) by lia.
  pose proof (Z.log2_spec (Zpos m) ltac:(lia)) as H.
  replace (Z.succ (Z.log2 (Zpos m))) with (Z.log2 (Zpos m) + 1) in H by lia. exact H.
Qed.

Lemma shift_pos_value : forall d m, Zpos (shift_pos d m) = Zpos m * 2 ^ Zpos d.
Proof.
  intros. rewrite shift_pos_correct. rewrite Z.pow_pos_fold. lia.
Qed.

Lemma digits_shift : forall d m, Zpos (digits2_pos (shift_pos d m)) = Zpos (digits2_pos m) + Zpos d.
Proof.
  intros. rewrite !digits_log2, shift_pos_value.
  rewrite Z.log2_mul_pow2 by lia. lia.
Qed.

(* ---- shifting right an exact multiple ------------------------------------------------ *)

Lemma nat_iter_add : forall (A : Type) (f : A -> A) n m x,
  Nat.iter (n + m) f x = Nat.iter n f (Nat.iter m f x).
Proof.
  induction n as [|n IH]; intros; [reflexivity|].
  change (Nat.iter (S n + m) f x) with (f (Nat.iter (n + m) f x)).
  rewrite IH. reflexivity.
Qed.

Lemma nat_iter_succ_r : forall (A : Type) (f : A -> A) n x,
  Nat.iter (S n) f x = Nat.iter n f (f x).
Proof.
  intros. replace (S n) with (n + 1)%nat by lia. rewrite nat_iter_add. reflexivity.
Qed.

Lemma iter_pos_nat : forall (A : Type) (f : A -> A) p x,
  iter_pos f p x = Nat.iter (Pos.to_nat p) f x.
Proof.
  intros A f. induction p as [p IH | p IH |]; intros x; cbn [iter_pos].
  - rewrite !IH. rewrite Pos2Nat.inj_xI.
    replace (S (2 * Pos.to_nat p)) with (Pos.to_nat p + (Pos.to_nat p + 1))%nat by lia.
    rewrite !nat_iter_add. reflexivity.
  - rewrite !IH. rewrite Pos2Nat.inj_xO.
    replace (2 * Pos.to_nat p)%nat with (Pos.to_nat p + Pos.to_nat p)%nat by lia.
    rewrite nat_iter_add. reflexivity.
  - reflexivity.
Qed.

Lemma shr_exact_nat : forall n m,
  Nat.iter n shr_1 {| shr_m := Zpos (Nat.iter n xO m); shr_r := false; shr_s := false |}
  = {| shr_m := Zpos m; shr_r := false; shr_s := false |}.
Proof.
  induction n as [|n IH]; intros m; [reflexivity|].
  rewrite nat_iter_succ_r. cbn [Nat.iter]. cbn [shr_1 orb]. apply IH.
Qed.

Lemma shift_pos_iter : forall d m, shift_pos d m = Nat.iter (Pos.to_nat d) xO m.
Proof.
  intros d m. rewrite shift_pos_nat. unfold shift_nat.
  induction (Pos.to_nat d) as [|n IH]; [reflexivity|]. cbn. now rewrite IH.
Qed.

Lemma shr_exact : forall d m,
  iter_pos shr_1 d {| shr_m := Zpos (shift_pos d m); shr_r := false; shr_s := false |}
  = {| shr_m := Zpos m; shr_r := false; shr_s := false |}.
Proof. intros. rewrite iter_pos_nat, shift_pos_iter. apply shr_exact_nat. Qed.

(* ---- narrow (widen x) = x ------------------------------------------------------------- *)

(* a canonical binary32 finite number *)
Definition valid32 (m : positive) (e : Z) : Prop :=
  (Zpos (digits2_pos m) = 24 /\ -149 <= e <= 104) \/ (Zpos (digits2_pos m) < 24 /\ e = -149).

Lemma Zeq_bool_refl : forall x, Zeq_bool x x = true.
Proof. intros. unfold Zeq_bool. now rewrite Z.compare_refl. Qed.

Lemma fexp24_valid : forall m e, valid32 m e -> fexp 24 128 (Zpos (digits2_pos m) + e) = e.
Proof. intros m e [[D E]|[D E]]; unfold fexp, emin; lia. Qed.

Theorem narrow_widen : forall s m e, valid32 m e ->
  narrow (widen (S754_finite s m e)) = S754_finite s m e.
Proof.
  intros s m e V.
  assert (Hd : 1 <= Zpos (digits2_pos m) <= 24) by (destruct V as [[D _]|[D _]]; lia).
  unfold widen.
  destruct (53 - Zpos (digits2_pos m)) as [|d|d] eqn:Ed; try lia.
  unfold narrow, binary_round.
  assert (Dg : Zpos (digits2_pos (shift_pos d m)) = 53) by (rewrite digits_shift; lia).
  assert (Fx : fexp 24 128 (Zpos (digits2_pos (shift_pos d m)) + (e - Zpos d)) = e).
  { rewrite Dg. pose proof (fexp24_valid m e V) as F. unfold fexp, emin in *. lia. }
  rewrite Fx.
  unfold shl_align. replace (e - (e - Zpos d)) with (Zpos d) by lia.
  unfold binary_round_aux, shr_fexp. cbn [Zdigits2].
  rewrite Fx. replace (e - (e - Zpos d)) with (Zpos d) by lia.
  cbn [shr_record_of_loc shr]. rewrite shr_exact.
  replace (e - Zpos d + Zpos d) with e by lia.
  cbn [shr_m loc_of_shr_record round_nearest_even Zdigits2].
  rewrite (fexp24_valid m e V). rewrite Z.sub_diag. cbn [shr shr_record_of_loc shr_m].
  assert (Le : Zle_bool e (128 - 24) = true).
  { apply Zle_is_le_bool. destruct V as [[_ E]|[_ E]]; lia. }
  rewrite Le. reflexivity.
Qed.

Theorem widen_same_value : forall s m e, valid32 m e ->
  same_value (S754_finite s m e) (widen (S754_finite s m e)).
Proof.
  intros s m e V.
  assert (Hd : 1 <= Zpos (digits2_pos m) <= 24) by (destruct V as [[D _]|[D _]]; lia).
  unfold widen. destruct (53 - Zpos (digits2_pos m)) as [|d|d] eqn:Ed; try lia.
  cbn [same_value]. split; [reflexivity|].
  rewrite Z.min_r by lia. rewrite shift_pos_value.
  replace (e - (e - Zpos d)) with (Zpos d) by lia. rewrite Z.sub_diag. cbn [Z.pow]. lia.
Qed.

(* ---- the codec ------------------------------------------------------------------------- *)

Inductive sf_valid32 : spec_float -> Prop :=
  | v32_zero : forall s, sf_valid32 (S754_zero s)
  | v32_inf : forall s, sf_valid32 (S754_infinity s)
  | v32_nan : sf_valid32 S754_nan
  | v32_fin : forall s m e, valid32 m e -> sf_valid32 (S754_finite s m e).

Lemma b32_consts : fwidth b32 = 32 /\ mbits b32 = 23 /\ f_ebits b32 = 8 /\ emask b32 = 255 /\
  bias b32 = 127 /\ femin b32 = -149.
Proof. repeat split. Qed.

Lemma b64_consts : fwidth b64 = 64 /\ mbits b64 = 52 /\ f_ebits b64 = 11 /\ emask b64 = 2047 /\
  bias b64 = 1023 /\ femin b64 = -1074.
Proof. repeat split. Qed.

Theorem decode32_valid : forall a, fvalid b32 a -> sf_valid32 (decode b32 a).
Proof.
  intros a Ha. unfold fvalid in Ha.
  destruct b32_consts as (W & Mb & Eb & Em & Bi & Fm).
  rewrite W in Ha. unfold decode. rewrite W, Mb, Eb, Em, Bi, Fm.
  rewrite (Z.mod_small a (2 ^ 32)) by lia.
  set (E := (a / 2 ^ 23) mod 2 ^ 8). set (M := a mod 2 ^ 23).
  assert (HE : 0 <= E < 2 ^ 8) by (apply Z.mod_pos_bound; lia).
  assert (HM : 0 <= M < 2 ^ 23) by (apply Z.mod_pos_bound; lia).
  destruct (E =? 0) eqn:E0.
  - destruct M as [|m|m] eqn:EM; try constructor.
    right. split; [|reflexivity].
    pose proof (digits_upper m 23 ltac:(lia) ltac:(lia)). lia.
  - apply Z.eqb_neq in E0. destruct (E =? 255) eqn:E1.
    + destruct (M =? 0); constructor.
    + apply Z.eqb_neq in E1.
      destruct (M + 2 ^ 23) as [|m|m] eqn:EM; try constructor.
      left. split.
      * apply (digits_bounds m 23); [lia|]. change (2 ^ (23 + 1)) with (2 * 2 ^ 23). lia.
      * change (2 ^ 8) with 256 in HE. lia.
Qed.

(* decode after encode on a binary64 normal number *)
Lemma decode_encode_b64_normal : forall s m e,
  2 ^ 52 <= Zpos m < 2 ^ 53 -> -1022 - 52 <= e <= 1023 - 52 ->
  decode b64 (encode b64 (S754_finite s m e)) = S754_finite s m e.
Proof.
  intros s m e Hm He.
  destruct b64_consts as (W & Mb & Eb & Em & Bi & Fm).
  unfold encode. rewrite Mb, Bi.
  assert (L : (2 ^ 52 <=? Zpos m) = true) by (apply Z.leb_le; lia). rewrite L.
  set (K := e + 1023 + 52). set (F := Zpos m - 2 ^ 52).
  assert (HK : 1 <= K <= 2046) by (unfold K; lia).
  assert (HF : 0 <= F < 2 ^ 52) by (unfold F; change (2 ^ 53) with (2 * 2 ^ 52) in Hm; lia).
  set (S := sign_bit b64 s).
  assert (HS : S = (if s then 2 ^ 11 else 0) * 2 ^ 52).
  { unfold S, sign_bit. rewrite W. destruct s; reflexivity. }
  set (u := S + K * 2 ^ 52 + F).
  assert (Hu : 0 <= u < 2 ^ 64).
  { unfold u. rewrite HS. change (2 ^ 64) with (2 ^ 12 * 2 ^ 52). destruct s; nia. }
  unfold decode. rewrite W, Mb, Eb, Em, Bi.
  rewrite (Z.mod_small u (2 ^ 64)) by lia.
  assert (Udiv : u / 2 ^ 52 = (if s then 2 ^ 11 else 0) + K).
  { symmetry. apply Z.div_unique with (r := F); [lia|]. unfold u. rewrite HS. lia. }
  assert (Umod : u mod 2 ^ 52 = F).
  { symmetry. apply Z.mod_unique with (q := (if s then 2 ^ 11 else 0) + K); [lia|].
    unfold u. rewrite HS. lia. }
  assert (Emod : (u / 2 ^ 52) mod 2 ^ 11 = K).
  { rewrite Udiv. symmetry.
    apply Z.mod_unique with (q := if s then 1 else 0); [change (2 ^ 11) with 2048; lia|].
    destruct s; lia. }
  rewrite Emod, Umod.
  assert (Sg : (2 ^ (64 - 1) <=? u) = s).
  { unfold u. rewrite HS. change (2 ^ (64 - 1)) with (2 ^ 11 * 2 ^ 52).
    destruct s; [apply Z.leb_le | apply Z.leb_gt]; nia. }
  rewrite Sg.
  assert (K0 : (K =? 0) = false) by (apply Z.eqb_neq; lia). rewrite K0.
  assert (K1 : (K =? 2047) = false) by (apply Z.eqb_neq; lia). rewrite K1.
  replace (F + 2 ^ 52) with (Zpos m) by (unfold F; lia).
  f_equal. unfold K. lia.
Qed.

Lemma decode_encode_b64_special : forall x,
  match x with S754_finite _ _ _ => False | _ => True end ->
  decode b64 (encode b64 x) = x.
Proof. intros [s|s| |s m e] H; try contradiction; try destruct s; reflexivity. Qed.

Lemma widen_normal64 : forall s m e, valid32 m e ->
  exists m' e', widen (S754_finite s m e) = S754_finite s m' e' /\
    2 ^ 52 <= Zpos m' < 2 ^ 53 /\ -1022 - 52 <= e' <= 1023 - 52.
Proof.
  intros s m e V.
  assert (Hd : 1 <= Zpos (digits2_pos m) <= 24) by (destruct V as [[D _]|[D _]]; lia).
  unfold widen. destruct (53 - Zpos (digits2_pos m)) as [|d|d] eqn:Ed; try lia.
  exists (shift_pos d m), (e - Zpos d). split; [reflexivity|]. split.
  - pose proof (digits_range (shift_pos d m)) as R. rewrite digits_shift in R.
    replace (Zpos (digits2_pos m) + Zpos d) with 53 in R by lia. exact R.
  - destruct V as [[D E]|[D E]]; lia.
Qed.

Theorem conv_float_double_exact : forall a, fvalid b32 a ->
  same_value (decode b32 a) (decode b64 (f2d a)) /\ d2f (f2d a) = canon b32 a.
Proof.
  intros a Ha. unfold f2d, d2f, canon.
  pose proof (decode32_valid a Ha) as V.
  destruct V as [s|s| |s m e V].
  - cbn [widen]. rewrite decode_encode_b64_special by exact I. cbn. auto.
  - cbn [widen]. rewrite decode_encode_b64_special by exact I. cbn. auto.
  - cbn [widen]. rewrite decode_encode_b64_special by exact I. cbn. auto.
  - destruct (widen_normal64 s m e V) as (m' & e' & W & Hm & He).
    pose proof (widen_same_value s m e V) as SV.
    pose proof (narrow_widen s m e V) as NW.
    rewrite W in *. rewrite (decode_encode_b64_normal s m' e' Hm He).
    split; [exact SV | now rewrite NW].
Qed.

(* the canonical form changes nothing but NaN payloads *)
Theorem conv_preserves_nan_class : forall a, is_nan b32 a = true -> d2f (f2d a) = qnan b32.
Proof.
  intros a H. unfold is_nan in H. unfold f2d, d2f.
  destruct (decode b32 a); try discriminate. reflexivity.
Qed.
