"""C16 — everything is released (DESIGN.md §5 C16; partial by nature, §11).

Proof side   coq/Mem/TraceMonitor*.v (monitor_sound_complete, monitor_leak_exact,
             monitor_reject_sound) and coq/Mem/GcDelete*.v (gc_delete_frees_each_object_once);
             statements in Properties_C16.v.
Tie/search   harness/mem/memdrive.c, linked against the NON-sanitized build of the tree with
             -Wl,--wrap=malloc,... so that every allocator call made by code of libnev.a between
             program_new() and the return of program_delete() becomes an event; the EXTRACTED
             monitor (build/ocaml/mem/run) judges every trace.  Second opinion: the same
             inputs through harness/common/nevrun.c on the ASan build with LeakSanitizer on.
             Which source construct reaches which %destructor / *_delete is NOT modelled: that
             the C code produces balanced traces is observed on the inputs run, not proved.
Families     (besides corpus / mutation / grammar-driven errors / error paths by construct / FFI):
             entry-args  entries declaring every parameter kind an entry may have (int, float, string, string array), run WITH
                         arguments that live in HOST buffers allocated outside the monitored bracket: 1..3 runs per VM, 1..2 VMs,
                         re-prepare, nev_prepare_argc_argv or direct prog->params[]; a free()/realloc() of a host buffer by libnev
                         is a free of an unknown block for the monitor (and is withheld, reported as @@HOST), the buffers are
                         compared with copies afterwards.  Keys host-memory-freed:<function>, host-memory-written.
             builtin / string-op  one run-and-dispose probe per built-in function (ids from front/libmath.h) and per
                         string-producing operator path (concat per type pair, comparison temporaries, slices, copies), 25 calls
                         in a loop each.
             exc-site    one probe per raise site of the VM (exception_sites(): grep of `running = VM_EXCEPTION|VM_ERROR` in
                         back/vmexec.c, back/libvm.c by enclosing function/macro; EXC_SITE_PROBES maps sites to probes) x
                         uncaught / caught / catch-all / caught 12x in a loop / caught then normal work / other handler;
                         coverage.run_time_exception_sites lists the sites, which allocate before a raise, which have no probe.
             owned-token-error  the grammar-driven error positions (c05.grammar_error_cases) with every token KIND whose value is
                         heap memory (owned_token_kinds(): scanner rules with strdup/string_take) planted as the offending
                         token: string literal, identifier, `use` name, two of them in a row.  A lost string-literal token is
                         keyed leak:parse-error:token:string-literal (its text without the scanner's `string` record).
             heap-sweep  allocating probe programs x EVERY heap size from 6 below the smallest one that completes to 64 above
                         (+ sizes 1, 2, 3): the only sizes at which cell mem_size-1 holds an object at vm_delete.  memdrive
                         prints the occupancy (@@HEAP) before vm_delete; coverage.heap_size_sweep shows the boundary was hit.
                         Tie of Properties_C16b.v: measure_gc_delete_bounds() reads the loop bounds of gc_delete.
                         Key leak:after-parse:vm-heap-object.
"""
LEVEL = "proof"

import glob
import hashlib
import json
import os
import random
import re
import shutil
import subprocess
import tempfile
import time

from lib import common
from checks import c05

NPROC = 16
WRAP = ("-no-pie -rdynamic -Wl,--wrap=malloc,--wrap=calloc,--wrap=realloc,--wrap=free,--wrap=strdup,"
        "--wrap=strndup,--wrap=getcwd")

PARTIAL_TEXT = (
    "PARTIAL BY NATURE. Proved in Coq (Properties_C16.v): the allocation-trace monitor accepts a trace "
    "iff, in the declarative trace semantics, every free/realloc hits a block live at that moment, no "
    "allocation returns a live block and no block is live at the end (monitor_sound_complete); a Leak "
    "verdict lists exactly the live blocks (monitor_leak_exact); a Reject verdict means the trace is not "
    "executable (monitor_reject_sound); the sweep of gc_delete over the collector model frees the object "
    "of every allocated cell exactly once in every state (gc_delete_frees_each_object_once). NOT proved, "
    "only observed on the inputs listed under `classes`: that the C code (bison %destructor actions, "
    "front/*_delete, nev_compile_prog, program_delete, module_delete, vm_delete, gc_delete, FFI/dlcache "
    "teardown) produces balanced traces. Manual ownership in the parser/AST is not modelled. The property "
    "speaks about program_delete/vm_delete paths: runs that end inside libnev through exit(1) (`stack too "
    "large`, `out of memory`) or exit(2) (flex fatal error) never reach them and are counted separately, "
    "not judged for leaks. Use-after-free is only covered by the ASan second opinion (memory accesses are "
    "not events of the monitor). Allocations made inside shared libraries (libc stdio, dlopen, libffi) "
    "are outside the wrapped link unit and not seen.")

RUNTIME_PROGRAMS = [
    ("run-normal-heap", "record R { x : int; s : string; }\nfunc mk(n : int) -> [_] : R { [ R(i, \"s\" + i) | i in [0 .. n] ] : R }\n"
                        "func main() -> int { let a = mk(20); let f = let func (q : int) -> int { q + a[0].x }; f(1) }"),
    ("exc-index", "func main() -> int { let s = \"abc\" + \"def\"; let a = [ 1, 2, 3 ] : int; a[7] }"),
    ("exc-nil-record", "record R { x : int; }\nfunc main() -> int { var r = R(1); r = nil; r.x }"),
    ("exc-div0", "func d(a : int) -> int { let t = [ \"x\", \"y\" ] : string; 10 / a }\nfunc main() -> int { d(0) }"),
    ("exc-nil-array", "func main() -> int { var a = [ 1 ] : int; a = nil; a[0] }"),
    ("exc-caught", "func d(a : int) -> int { 10 / a } catch (division_by_zero) { 7 }\nfunc main() -> int { d(0) }"),
    ("exc-caught-other", "func d(a : int) -> int { 10 / a } catch (index_out_of_bounds) { 7 }\nfunc main() -> int { d(0) }"),
    ("exc-in-closure", "func main() -> int { let a = [ 1, 2 ] : int; let f = let func (i : int) -> int { a[i] }; f(9) }"),
    ("assert-fail", "func main() -> int { let s = \"a\" + \"b\"; assert(1 == 2); 0 }"),
    ("assert-fail-nested", "func f(n : int) -> int { n == 0 ? { assert(false); 0 } : f(n - 1) }\nfunc main() -> int { f(5) }"),
    ("exit-stack-too-large", "func r(n : int) -> int { 1 + r(n + 1) }\nfunc main() -> int { r(0) }"),
    ("exit-out-of-memory", "record L { v : int; n : L; }\nfunc grow(l : L, k : int) -> L { k == 0 ? l : grow(L(k, l), k - 1) }\n"
                           "func main() -> int { let l = grow(nil, 100000); 0 }"),
    ("exit-out-of-memory-small", "func main() -> int { let a = [ [ i * j | i in [0 .. 40] ] : int | j in [0 .. 40] ] : [_] : int; 0 }"),
    ("run-strings", "func main() -> int { var s = \"\"; var i = 0; while (i < 50) { s = s + i + \",\"; i = i + 1 }; length(s) }"),
    ("run-prints", "func main() -> int { prints(\"hello\\n\"); print(1); 0 }"),
    ("no-main", "func f() -> int { 0 }"),
    ("main-with-args", "func main(a : int) -> int { a }"),
]


# ---------------------------------------------------------------------------------------------
# foreign calls: a small callee library built at run time + the "host" self-test functions of
# back/fficall.c (the drivers are linked with -rdynamic so that extern "host" resolves)
FFI_LIB_C = r"""
#include <string.h>
typedef struct { int x; int y; } Point;
typedef struct { Point a; Point b; Point c; } Rect;
typedef struct { int id; char * name; } Named;
typedef struct { Named n; Point p; double w; } Big;
int c16_add(int a, int b) { return a + b; }
long long c16_addl(long long a, long long b) { return a + b; }
double c16_muld(double a, double b) { return a * b; }
float c16_mulf(float a, float b) { return a * b; }
char c16_nextc(char c) { return (char)(c + 1); }
int c16_strlen(const char * s) { return (int)strlen(s); }
int c16_point(Point p) { return p.x + p.y; }
Point c16_rect(Rect r) { Point p = { r.a.x + r.b.x + r.c.x, r.a.y + r.b.y + r.c.y }; return p; }
Rect c16_mkrect(int k) { Rect r = { { k, k + 1 }, { k + 2, k + 3 }, { k + 4, k + 5 } }; return r; }
int c16_named(Named n) { return n.id + (int)strlen(n.name); }
int c16_big(Big b) { return b.n.id + (int)strlen(b.n.name) + b.p.x + (int)b.w; }
int c16_two(Rect r, const char * s) { return r.a.x + (int)strlen(s); }
int c16_two_rev(const char * s, Rect r) { return r.a.x + (int)strlen(s); }
int c16_three(Rect r, Rect q, Named n) { return r.a.x + q.a.x + n.id; }
"""

FFI_DECLS = """
record Point { x : int; y : int; }
record Rect { a : Point; b : Point; c : Point; }
record Named { id : int; name : string; }
record Big { n : Named; p : Point; w : double; }
extern "host" func test_rect(r : Rect) -> Point
extern "host" func test_print_str(s : string) -> int
extern "LIB" func c16_add(a : int, b : int) -> int
extern "LIB" func c16_addl(a : long, b : long) -> long
extern "LIB" func c16_muld(a : double, b : double) -> double
extern "LIB" func c16_mulf(a : float, b : float) -> float
extern "LIB" func c16_nextc(c : char) -> char
extern "LIB" func c16_strlen(s : string) -> int
extern "LIB" func c16_point(p : Point) -> int
extern "LIB" func c16_rect(r : Rect) -> Point
extern "LIB" func c16_mkrect(k : int) -> Rect
extern "LIB" func c16_named(n : Named) -> int
extern "LIB" func c16_big(b : Big) -> int
extern "LIB" func c16_two(r : Rect, s : string) -> int
extern "LIB" func c16_two_rev(s : string, r : Rect) -> int
extern "LIB" func c16_three(r : Rect, q : Rect, n : Named) -> int
extern "libnosuch_c16.so" func c16_nolib(a : int) -> int
extern "LIB" func c16_no_such_symbol(a : int) -> int
func some_rect() -> Rect { Rect(Point(10, 20), Point(30, 40), Point(40, 50)) }
func nil_str() -> string { let strs = {[ 1 ]} : string; strs[0] }
"""

# (name, call expression of type int, kind)  kind: ok | fail
FFI_CALLS = [
    ("scalars", "c16_add(1, 2) + c16_strlen(\"abc\")", "ok"),
    ("long-double-float-char", "{ let l = c16_addl(1L, 2L); let d = c16_muld(1.5d, 2.0d); let f = c16_mulf(1.5, 2.0); let c = c16_nextc('a'); 1 }", "ok"),
    ("host-rect", "test_rect(some_rect()).x", "ok"),
    ("host-print-str", "test_print_str(\"text\\n\")", "ok"),
    ("record-by-value", "c16_point(Point(3, 4)) + c16_rect(some_rect()).y", "ok"),
    ("struct-result", "c16_mkrect(7).c.y", "ok"),
    ("record-with-string", "c16_named(Named(5, \"five\"))", "ok"),
    ("nested-record", "c16_big(Big(Named(1, \"n\"), Point(2, 3), 4.0d))", "ok"),
    ("two-args", "c16_two(some_rect(), \"xy\") + c16_two_rev(\"xy\", some_rect())", "ok"),
    ("three-records", "c16_three(some_rect(), some_rect(), Named(1, \"a\"))", "ok"),
    ("nil-string", "c16_strlen(nil_str())", "fail"),
    ("host-nil-string", "test_print_str(nil_str())", "fail"),
    ("nil-record", "{ var r = Rect; c16_rect(r).x }", "fail"),
    ("host-nil-record", "{ var r = Rect; test_rect(r).x }", "fail"),
    ("nil-small-record", "{ var p = Point; c16_point(p) }", "fail"),
    ("nil-nested-record", "{ var p = Point; c16_rect(Rect(Point(1, 2), p, Point(3, 4))).x }", "fail"),
    ("nil-string-in-record", "c16_named(Named(5, nil_str()))", "fail"),
    ("nil-record-in-nested", "{ var n = Named; c16_big(Big(n, Point(2, 3), 4.0d)) }", "fail"),
    ("nil-string-deep", "c16_big(Big(Named(1, nil_str()), Point(2, 3), 4.0d))", "fail"),
    ("record-then-nil-string", "c16_two(some_rect(), nil_str())", "fail"),
    ("string-then-nil-record", "{ var r = Rect; c16_two_rev(\"xy\", r) }", "fail"),
    ("nil-record-then-string", "{ var r = Rect; c16_two(r, \"xy\") }", "fail"),
    ("record-then-nil-record", "{ var r = Rect; c16_three(some_rect(), r, Named(1, \"a\")) }", "fail"),
    ("records-then-nil-named", "{ var n = Named; c16_three(some_rect(), some_rect(), n) }", "fail"),
    ("missing-library", "c16_nolib(1)", "fail"),
    ("missing-symbol", "c16_no_such_symbol(1)", "fail"),
]


def build_ffi_lib(workdir):
    src = os.path.join(workdir, "c16callee.c")
    lib = os.path.join(workdir, "libc16callee.so")
    with open(src, "w") as f:
        f.write(FFI_LIB_C)
    rc, so, se = common.sh("gcc -shared -fPIC -O1 -o %s %s" % (lib, src), timeout=120)
    if rc != 0:
        raise common.BuildError("callee library for the FFI family does not build: " + se[-1000:])
    return lib


def ffi_programs(lib):
    """(name, source): every call shape x outcome (normal / ffi_fail caught / ffi_fail unhandled /
    caught in a loop, so that a per-call loss is multiplied)."""
    decls = FFI_DECLS.replace("LIB", lib)
    out = []
    for name, call, kind in FFI_CALLS:
        body = "func call() -> int { %s }\n" % call
        caught = "func call() -> int { %s } catch (ffi_fail) { -1 }\n" % call
        if kind == "ok":
            out.append((name + ".normal", decls + body + "func main() -> int { call(); call(); 0 }\n"))
            out.append((name + ".loop", decls + body + "func main() -> int { var i = 0; while (i < 20) { call(); i = i + 1 }; 0 }\n"))
        else:
            out.append((name + ".caught", decls + caught + "func main() -> int { let a = call(); prints(a + \"\\n\"); 0 }\n"))
            out.append((name + ".unhandled", decls + body + "func main() -> int { call() }\n"))
            out.append((name + ".caught-loop", decls + caught + "func main() -> int { var i = 0; var s = 0; while (i < 10) { s = s + call(); i = i + 1 }; 0 }\n"))
            out.append((name + ".caught-then-ok", decls + caught + "func main() -> int { call(); c16_add(1, 2); test_rect(some_rect()).x }\n"))
            out.append((name + ".caught-by-catch-all", decls + "func call() -> int { %s } catch { -2 }\n" % call + "func main() -> int { call(); 0 }\n"))
    return out


# ---------------------------------------------------------------------------------------------
# error paths by construct: (error exit x operand type x syntactic context)
LIT = {"int": ("1", "7", "0"), "long": ("1L", "7L", "0L"), "float": ("1.5", "7.0", "0.0"), "double": ("1.5d", "7.0d", "0.0d")}
TYPES = ["int", "long", "float", "double"]

ENUM_DECL = "enum Z { zero, one, two }\n"

def contexts():
    """name -> (types it exists for, function(T, E, ONE) -> program text)"""
    C = []
    def add(name, fn, types=TYPES):
        C.append((name, types, fn))
    add("body", lambda T, E, O: "func f() -> %s { %s }\nfunc main() -> int { f(); 0 }\n" % (T, E))
    add("let-init", lambda T, E, O: "func f() -> %s { let x = %s; x }\nfunc main() -> int { f(); 0 }\n" % (T, E))
    add("var-assign", lambda T, E, O: "func f() -> %s { var x = %s; x = %s; x }\nfunc main() -> int { f(); 0 }\n" % (T, O, E))
    add("left-operand", lambda T, E, O: "func f(a : %s) -> %s { (%s) + a }\nfunc main() -> int { f(%s); 0 }\n" % (T, T, E, O))
    add("right-operand", lambda T, E, O: "func f(a : %s) -> %s { a * (%s) }\nfunc main() -> int { f(%s); 0 }\n" % (T, T, E, O))
    add("unary-minus", lambda T, E, O: "func f() -> %s { -(%s) }\nfunc main() -> int { f(); 0 }\n" % (T, E))
    add("array-literal", lambda T, E, O: "func f() -> %s { let a = [ %s, %s, %s ] : %s; a[0] }\nfunc main() -> int { f(); 0 }\n" % (T, O, E, O, T))
    add("call-argument-last", lambda T, E, O: "func g(a : %s, b : %s) -> %s { a }\nfunc f() -> %s { g(%s, %s) }\nfunc main() -> int { f(); 0 }\n" % (T, T, T, T, O, E))
    add("call-argument-first", lambda T, E, O: "func g(a : %s, b : string) -> %s { a }\nfunc f() -> %s { g(%s, \"s\" + \"t\") }\nfunc main() -> int { f(); 0 }\n" % (T, T, T, E))
    add("record-constructor", lambda T, E, O: "record R { a : %s; s : string; b : %s; }\nfunc f() -> %s { let r = R(%s, \"s\", %s); r.b }\nfunc main() -> int { f(); 0 }\n" % (T, T, T, O, E))
    add("match-arm", lambda T, E, O: ENUM_DECL + "func f(c : Z) -> %s { match (c) { Z::zero -> %s; Z::one -> %s; else -> %s; } }\nfunc main() -> int { f(Z::one); 0 }\n" % (T, O, E, O))
    add("cond-branch", lambda T, E, O: "func f(c : bool) -> %s { c ? %s : %s }\nfunc main() -> int { f(true); 0 }\n" % (T, O, E))
    add("cond-condition", lambda T, E, O: "func f() -> int { (%s) == %s ? 1 : 0 }\nfunc main() -> int { f() }\n" % (E, O))
    add("if-else", lambda T, E, O: "func f(c : bool) -> %s { if (c) { %s } else { %s } }\nfunc main() -> int { f(true); 0 }\n" % (T, E, O))
    add("while-body", lambda T, E, O: "func f() -> int { var i = 0; var x = %s; while (i < 3) { x = %s; i = i + 1 }; i }\nfunc main() -> int { f() }\n" % (O, E))
    add("while-condition", lambda T, E, O: "func f() -> int { var i = 0; while ((%s) < %s) { i = i + 1 }; i }\nfunc main() -> int { f() }\n" % (E, O))
    add("for-range-bound", lambda T, E, O: "func f() -> int { var s = 0; for (i in [ 0 .. %s ]) { s = s + i }; s }\nfunc main() -> int { f() }\n" % E, ["int"])
    add("array-index", lambda T, E, O: "func f() -> int { let a = [ 1, 2, 3 ] : int; a[%s] }\nfunc main() -> int { f() }\n" % E, ["int"])
    add("array-dims", lambda T, E, O: "func f() -> int { let a = {[ %s ]} : int; 0 }\nfunc main() -> int { f() }\n" % E, ["int"])
    add("slice-bound", lambda T, E, O: "func f() -> int { let a = [ 1, 2, 3 ] : int; let b = a[0 .. %s]; 0 }\nfunc main() -> int { f() }\n" % E, ["int"])
    add("global-let", lambda T, E, O: "let g = %s;\nfunc main() -> int { 0 }\n" % E)
    add("global-var", lambda T, E, O: "var g = %s;\nfunc main() -> int { g = %s; 0 }\n" % (E, O))
    add("lambda-body", lambda T, E, O: "func f() -> %s { let h = let func (q : %s) -> %s { q + (%s) }; h(%s) }\nfunc main() -> int { f(); 0 }\n" % (T, T, T, E, O))
    add("nested-func", lambda T, E, O: "func f() -> %s { func h() -> %s { %s }; h() }\nfunc main() -> int { f(); 0 }\n" % (T, T, E))
    add("list-comprehension", lambda T, E, O: "func f() -> int { let a = [ %s | i in [ 1, 2, 3 ] : int ] : %s; 0 }\nfunc main() -> int { f() }\n" % (E, T))
    add("catch-handler", lambda T, E, O: "func f(a : int) -> %s { 10 / a; %s } catch (division_by_zero) { %s }\nfunc main() -> int { f(0); 0 }\n" % (T, O, E))
    add("builtin-argument", lambda T, E, O: "func f() -> int { %s(%s); 0 }\nfunc main() -> int { f() }\n" % ({"int": "print", "long": "printl", "float": "printf", "double": "printd"}[T], E))
    add("assert-argument", lambda T, E, O: "func f() -> int { assert((%s) == %s); 0 }\nfunc main() -> int { f() }\n" % (E, O))
    add("string-concat", lambda T, E, O: "func f() -> string { \"v=\" + (%s) }\nfunc main() -> int { prints(f()); 0 }\n" % E, ["int"])
    add("second-function", lambda T, E, O: "record R { a : int; }\nfunc first(n : int) -> R { R(n) }\nfunc f() -> %s { %s }\nfunc third() -> string { \"x\" + \"y\" }\nfunc main() -> int { f(); 0 }\n" % (T, E))
    add("enum-initialiser", lambda T, E, O: "enum En { a = %s, b, c = 9 }\nfunc main() -> int { En::b == En::c ? 1 : 0 }\n" % E, ["int"])
    add("enum-initialiser-last", lambda T, E, O: "enum En { a, b = 4, c = %s }\nfunc main() -> int { 0 }\n" % E, ["int"])
    add("enum-initialiser-referenced", lambda T, E, O: "enum En { a = %s, b = En::a + 1 }\nenum Fn { x = En::b }\nfunc main() -> int { 0 }\n" % E, ["int"])
    add("enum-record-default", lambda T, E, O: "enum Op { none = %s, some { v : int; } }\nfunc main() -> int { 0 }\n" % E, ["int"])
    return C

def reducer_faults():
    """(name, type of the expression, text, needs enum Z)"""
    F = []
    for T in TYPES:
        one, seven, zero = LIT[T]
        F.append(("div0", T, "%s / %s" % (seven, zero), False))
        F.append(("div-folded0", T, "(%s + %s) / (%s - %s)" % (one, seven, seven, seven), False))
        F.append(("div0-in-sum", T, "%s + %s / %s" % (one, seven, zero), False))
        F.append(("div0-of-div0", T, "(%s / %s) / (%s / %s)" % (seven, zero, one, zero), False))
        if T in ("int", "long"):
            F.append(("mod0", T, "%s %% %s" % (seven, zero), False))
            F.append(("mod-folded0", T, "(%s * %s) %% (%s - %s)" % (seven, seven, one, one), False))
            F.append(("mod0-negated", T, "-(%s %% %s)" % (seven, zero), False))
    for op, nm in (("/", "div0"), ("%", "mod0")):
        F.append((nm + "-enum-enum", "int", "Z::two %s Z::zero" % op, True))
        F.append((nm + "-int-enum", "int", "7 %s Z::zero" % op, True))
        F.append((nm + "-enum-int", "int", "Z::two %s 0" % op, True))
    # conversions around the failing fold
    F.append(("div0-int-converted", "float", "1.5 + 7 / 0", False))
    F.append(("div0-int-converted", "double", "1.5d * (7 / 0)", False))
    F.append(("div0-int-converted", "long", "1L + (7 % 0)", False))
    return F


def typecheck_faults():
    """(name, type, text): expressions that the typechecker rejects, one per kind of complaint"""
    F = []
    for T in TYPES:
        one = LIT[T][0]
        F.append(("undefined-identifier", T, "nosuch + %s" % one))
        F.append(("undefined-function", T, "nosuch(%s)" % one))
        F.append(("bool-operand", T, "%s + true" % one))
        F.append(("string-for-number", T, "\"text\""))
        F.append(("member-of-number", T, "(%s).x" % one))
        F.append(("index-of-number", T, "(%s)[0]" % one))
        F.append(("nil-operand", T, "nil * %s" % one))
        F.append(("unknown-enumerator", T, "Nosuch::item"))
        F.append(("wrong-argument-count", T, "sqrt(1.0, 2.0)"))
        F.append(("compare-with-string", T, "(%s == \"s\") ? %s : %s" % (one, one, one)))
    return F


def scanner_faults():
    """(name, text, cut): lexical errors placed where an expression is expected; cut = the input ENDS right after the text"""
    return [("unterminated-string", "\"abc\n", False), ("bad-decimal-escape", "\"a\\9b\"", False), ("octal-escape-too-large", "\"a\\777b\"", False),
            ("unknown-character", "1 @ 2", False), ("unknown-character-dollar", "$", False),
            ("eof-in-string", "\"abc", True), ("eof-in-string-escape", "\"abc\\", True), ("eof-in-comment", "1 + /* open", True),
            ("eof-in-char", "'c", True)]


def parser_faults():
    return [("missing-operand", "%s + )"), ("stray-brace", "%s }"), ("double-operator", "%s * / %s"), ("unclosed-paren", "(%s + %s")]


def error_path_cases():
    """one program per (error exit x operand type x syntactic context) -> [(name, phase, fault, type, context, source)].
    Reducer exits: every `division by zero` exit of front/constred.c (expr_div_constred: int, long, enum/enum, int/enum,
    enum/int, float, double; expr_mod_constred: int, enum/enum, int/enum, enum/int, long) and of front/enumred.c (div, mod,
    cyclic reference, not reducible to int, duplicate value, unsupported expression), reached directly, through a folded
    zero, below another operator, twice in one expression, and below an int->float/double/long conversion."""
    out = []
    ctxs = contexts()
    for cname, types, fn in ctxs:
        for fname, T, E, needs in reducer_faults():
            if T not in types:
                continue
            src = fn(T, E, LIT[T][0])
            if needs and "enum Z" not in src:
                src = ENUM_DECL + src
            out.append(("R.%s.%s.%s" % (fname, T, cname), "reducer", fname, T, cname, src))
        for fname, T, E in typecheck_faults():
            if T not in types or (T in ("long", "double") and cname not in ("body", "let-init", "call-argument-last", "array-literal")):
                continue
            out.append(("T.%s.%s.%s" % (fname, T, cname), "typecheck", fname, T, cname, fn(T, E, LIT[T][0])))
        T = "int" if "int" in types else types[0]
        for fname, E, cut in scanner_faults():
            src = fn(T, "\x00HOLE\x00", LIT[T][0])
            i = src.index("\x00HOLE\x00")
            src = src[:i] + E if cut else src.replace("\x00HOLE\x00", E)
            out.append(("S.%s.%s.%s" % (fname, T, cname), "scanner", fname, T, cname, src))
        for fname, E in parser_faults():
            out.append(("P.%s.%s.%s" % (fname, T, cname), "parser", fname, T, cname, fn(T, E.replace("%s", LIT[T][0]), LIT[T][0])))
    # enumerator initialisers: the exits of enumred.c that are not divisions
    EN = [("cyclic-2", "enum En { a = En::b, b = En::a }"), ("cyclic-self", "enum En { a = En::a }"),
          ("cyclic-3-parenthesised", "enum En { a = (En::b) + 1, b = -(En::c), c = (En::a) }"),
          ("cyclic-through-other-enum", "enum En { a = Fn::x }\nenum Fn { x = En::a }"),
          ("cyclic-below-division", "enum En { a = 8 / En::b, b = En::a % 3 }"),
          ("cyclic-and-div0", "enum En { a = En::b / 0, b = En::a }"),
          ("duplicate-value", "enum En { a = 1, b = 1 }"), ("duplicate-value-folded", "enum En { a = 2 + 3, b = 10 / 2 }"),
          ("duplicate-implicit", "enum En { a = 1, b = 0, c }"),
          ("not-int-long", "enum En { a = 1L }"), ("not-int-float", "enum En { a = 1.5 }"), ("not-int-string", "enum En { a = \"s\" }"),
          ("not-int-bool", "enum En { a = true }"), ("not-int-comparison", "enum En { a = 1 < 2 }"),
          ("unsupported-call", "enum En { a = ord('c') }"), ("unsupported-call-of-later-function", "enum En { a = k() }\nfunc k() -> int { 1 }"),
          ("unsupported-array-deref", "enum En { a = ([ 1, 2 ] : int)[0], b = 3 }"), ("unsupported-seq", "enum En { a = { 1 } }"),
          ("unsupported-if-else", "enum En { a = if (true) { 1 } else { 2 } }"), ("unsupported-func", "enum En { a = let func () -> int { 1 } }"),
          ("unsupported-listcomp", "enum En { a = [ i | i in [ 1, 2 ] : int ] : int }"), ("unsupported-identifier", "enum En { a = v }\nvar v = 1;"),
          ("unsupported-below-operator", "enum En { a = 1 + { 2 } * ord('c'), b = En::a / 0 }"),
          ("bool-results", "enum En { a = 1 ||| 2, b = ~~~1, c = 1 <<< 40, d = !true }"),
          ("conditional-div0-taken", "enum En { a = true ? 1 / 0 : 2 }"), ("conditional-div0-not-taken", "enum En { a = false ? 1 / 0 : 2 }"),
          ("unknown-enumerator", "enum En { a = En::nosuch }"), ("unknown-enum", "enum En { a = Qn::x }"),
          ("div0-then-more-items", "enum En { a = 1 / 0, b = En::a, c = En::b % 0 }"),
          ("int-min-div-minus-one", "enum En { a = (0 - 2147483647 - 1) / (0 - 1) }"),
          ("record-item-default-div0", "enum En { a = 1 / 0, r { v : int; } }")]
    tails = [("no-use", "func main() -> int { 0 }"), ("used-in-expression", "func main() -> int { En::a + 1 }"),
             ("used-in-match", "func main() -> int { match (En::a) { En::a -> 1; else -> 0; } }")]
    for fname, decl in EN:
        for tname, tail in tails:
            out.append(("E.%s.%s" % (fname, tname), "enum-reducer", fname, "int", "enum-initialiser/" + tname, decl + "\n" + tail + "\n"))
    return out


# ---------------------------------------------------------------------------------------------
# run-time exception paths: one probe per raise site of the VM (back/vmexec.c, back/libvm.c: `running = VM_EXCEPTION /
# VM_ERROR`), each uncaught / caught / caught by catch-all / caught 12 times in a loop / caught and followed by normal
# work / passing a handler for another exception.  Every probe holds temporaries (strings, arrays) at the raise point.
# (site name, exception, declarations, body of `func raise_it(n : int) -> int` that raises when n == 0 ... here: always raises)
EXC_PRE = ("record R { v : int; s : string; n : R; }\nfunc nil_str() -> string { let strs = {[ 1 ]} : string; strs[0] }\n"
       "func nil_arr() -> [_] : int { let aa = {[ 1 ]} : [_] : int; aa[0] }\nfunc nil_fun() -> (int) -> int { let fs = {[ 1 ]} : (int) -> int; fs[0] }\n")
EXC_PROBES = [
    ("int-division", "division_by_zero", "", "let t = [ \"a\", \"b\" ] : string; 10 / z"),
    ("int-modulo", "division_by_zero", "", "let t = \"x\" + \"y\"; 10 % z"),
    ("long-division", "division_by_zero", "", "let l = 10L / (0L + z); 1"),
    ("float-division", "division_by_zero", "", "let f = 1.5 / (0.0 + z); 1"),
    ("mk-array-huge-2d", "wrong_array_size", "", "let a = {[ 65536 + z, 65536 ]} : int; 1"),
    ("mk-array-huge-3d", "wrong_array_size", "", "let a = {[ 2048, 2048 + z, 2048 ]} : int; 1"),
    ("mk-array-huge-of-strings", "wrong_array_size", "", "let a = {[ 65536, 65536 + z ]} : string; 1"),
    ("mk-array-zero-dim", "index_out_of_bounds", "", "let a = {[ 3, z ]} : int; 1"),
    ("mk-array-negative-dim", "index_out_of_bounds", "", "let a = {[ z - 4 ]} : int; 1"),
    ("array-add-size-mismatch", "wrong_array_size", "", "let a = [ 1, 2, 3 ] : int; let b = [ 1, 2 ] : int; let c = a + b; c[z]"),
    ("array-sub-size-mismatch", "wrong_array_size", "", "let a = [ 1, 2, 3 ] : int; let b = [ 1, 2 ] : int; let c = a - b; c[z]"),
    ("matrix-mul-size-mismatch", "wrong_array_size", "", "let a = [ [ 1, 2, 3 ], [ 4, 5, 6 ] ] : int; let b = [ [ 1, 2 ], [ 3, 4 ] ] : int; let c = a * b; c[z, z]"),
    ("array-index-out-of-bounds", "index_out_of_bounds", "", "let a = [ 1, 2, 3 ] : int; let s = \"p\" + \"q\"; a[7 + z]"),
    ("array-index-negative", "index_out_of_bounds", "", "let a = [ 1, 2, 3 ] : int; a[z - 1]"),
    ("matrix-index-out-of-bounds", "index_out_of_bounds", "", "let m = {[ 2, 2 ]} : int; m[1, 5 + z]"),
    ("string-index-out-of-bounds", "index_out_of_bounds", "", "let s = \"abc\" + \"d\"; ord(s[9 + z])"),
    ("slice-array-out-of-bounds", "index_out_of_bounds", "", "let a = [ 1, 2, 3, 4 ] : int; let b = a[1 .. 9 + z]; b[0]"),
    ("slice-string-out-of-bounds", "index_out_of_bounds", "", "let s = \"abcdef\"; let t = s[2 .. 40 + z]; length(t)"),
    ("slice-of-slice-out-of-bounds", "index_out_of_bounds", "", "let a = [ 1, 2, 3, 4, 5, 6 ] : int; let b = a[1 .. 4]; let c = b[0 .. 8 + z]; c[0]"),
    ("slice-deref-out-of-bounds", "index_out_of_bounds", "", "let a = [ 1, 2, 3, 4, 5, 6 ] : int; let b = a[1 .. 4]; b[7 + z]"),
    ("nil-record-field", "nil_pointer", "", "var r = R(1, \"s\", nil); r = nil; r.v + z"),
    ("nil-record-deep-field", "nil_pointer", "", "let r = R(1, \"s\" + \"t\", nil); r.n.n.v + z"),
    ("nil-string-concat", "nil_pointer", "", "let s = nil_str(); let t = \"a\" + s; length(t) + z"),
    ("nil-string-concat-right", "nil_pointer", "", "let s = nil_str(); let t = s + \"a\" + \"b\"; length(t) + z"),
    ("nil-string-compare", "nil_pointer", "", "let s = nil_str(); (s == \"abc\" + \"d\") ? 1 : z"),
    ("nil-string-length", "nil_pointer", "", "let u = \"x\" + \"y\"; length(nil_str()) + z"),
    ("nil-string-prints", "nil_pointer", "", "let u = \"x\" + \"y\"; prints(nil_str()); z"),
    ("nil-string-index", "nil_pointer", "", "let s = nil_str(); ord(s[z])"),
    ("nil-string-slice", "nil_pointer", "", "let s = nil_str(); let t = s[0 .. 1]; z"),
    ("nil-array-deref", "nil_pointer", "", "let a = nil_arr(); let s = \"k\" + \"l\"; a[z]"),
    ("nil-array-slice", "nil_pointer", "", "let a = nil_arr(); let b = a[0 .. 1]; b[z]"),
    ("nil-array-foreach", "nil_pointer", "", "let a = nil_arr(); var t = 0; for (x in a) { t = t + x }; t + z"),
    ("nil-array-negate", "nil_pointer", "", "let a = nil_arr(); let b = -a; b[z]"),
    ("nil-array-add", "nil_pointer", "", "let a = nil_arr(); let c = [ 1, 2 ] : int; let b = c + a; b[z]"),
    ("nil-array-sub", "nil_pointer", "", "let a = nil_arr(); let c = [ 1, 2 ] : int; let b = a - c; b[z]"),
    ("nil-array-scalar-mul", "nil_pointer", "", "let a = nil_arr(); let b = 3 * a; b[z]"),
    ("nil-matrix-mul", "nil_pointer", "", "let aa = {[ 1 ]} : [_,_] : int; let m = aa[0]; let k = [ [ 1, 2 ] ] : int; let b = k * m; b[z, z]"),
    ("nil-function-call", "nil_pointer", "", "let f = nil_fun(); let s = \"f\" + \"g\"; f(1 + z)"),
    ("nil-string-assign", "nil_pointer", "", "var s = \"a\" + \"b\"; s = nil_str(); length(s) + z"),
    ("nil-string-copy-assign", "nil_pointer", "", "var s = \"a\" + \"b\"; let n = nil_str(); s = n + \"\"; length(s) + z"),
    ("range-foreach-deref", "index_out_of_bounds", "", "let r = [ 1 .. 5 ]; var t = 0 + z; for (i in r) { t = t + i }; let a = [ 1 ] : int; a[t]"),
    ("sqrt-of-negative", "invalid_domain", "", "let t = \"m\" + \"n\"; let f = sqrt(0.0 - 4.0 - z); 1"),
    ("log-of-zero", "division_by_zero", "", "let f = log(0.0 * z); 1"),
    ("exp-overflow", "overflow", "", "let f = exp(1000.0 + z); 1"),
    ("pow-overflow", "overflow", "", "let f = pow(10.0, 100.0 + z); 1"),
    ("exp-underflow", "underflow", "", "let f = exp(0.0 - 1000.0 - z); 1"),
    ("exception-in-closure", "index_out_of_bounds", "", "let a = [ 1, 2 ] : int; let f = let func (i : int) -> int { let s = \"c\" + \"d\"; a[i] }; f(9 + z)"),
    ("exception-in-listcomp", "division_by_zero", "", "let a = [ 10 / (i - 2) | i in [ 1, 2, 3 ] : int ] : int; a[z]"),
    ("exception-in-array-literal", "division_by_zero", "", "let a = [ \"a\" + \"b\", \"c\" + str(1 / z) ] : string; length(a[0])"),
    ("exception-in-record-constructor", "division_by_zero", "", "let r = R(1 / z, \"s\" + \"t\", R(2, \"u\", nil)); r.v"),
    ("exception-in-call-argument", "division_by_zero", "func three(a : string, b : int, c : string) -> int { b }\n", "three(\"a\" + \"b\", 1 / z, \"c\" + \"d\")"),
    ("exception-rethrown-through-frames", "division_by_zero", "func lv3(d : int) -> int { let s = \"3\" + \"3\"; 1 / d }\nfunc lv2(d : int) -> int { let a = [ 1, 2 ] : int; lv3(d) + a[0] }\n", "let t = \"1\" + \"1\"; lv2(z)"),
    ("exception-in-handler", "division_by_zero", "func inner(d : int) -> int { let a = [ 1 ] : int; a[5] } catch (index_out_of_bounds) { let s = \"h\" + \"h\"; 10 / d }\n", "inner(z)"),
    ("assert-failed", None, "", "let a = [ 1, 2 ] : int; let s = \"a\" + \"b\"; assert(z == 1); 0"),
    ("assertf-failed", None, "", "let s = \"a\" + \"b\"; assertf(1.0 + z, 0.5); 0"),
]
EXC_SHAPES = ["uncaught", "caught", "caught-by-catch-all", "caught-in-loop", "caught-then-normal-run", "caught-other-exception"]
def exc_program(decl, body, exc, shape):
    pre = EXC_PRE + decl
    if exc is None or shape == "uncaught":
        return pre + "func raise_it(z : int) -> int { %s }\nfunc main() -> int { raise_it(0) }\n" % body
    if shape == "caught":
        return pre + "func raise_it(z : int) -> int { %s } catch (%s) { 0 - 1 }\nfunc main() -> int { raise_it(0); 0 }\n" % (body, exc)
    if shape == "caught-by-catch-all":
        return pre + "func raise_it(z : int) -> int { %s } catch { 0 - 2 }\nfunc main() -> int { raise_it(0); 0 }\n" % body
    if shape == "caught-in-loop":
        return pre + "func raise_it(z : int) -> int { %s } catch (%s) { 0 - 1 }\nfunc main() -> int { var i = 0; var t = 0; while (i < 12) { t = t + raise_it(0); i = i + 1 }; 0 }\n" % (body, exc)
    if shape == "caught-then-normal-run":
        return pre + "func raise_it(z : int) -> int { %s } catch (%s) { 0 - 1 }\nfunc main() -> int { raise_it(0); let a = [ 1, 2, 3 ] : int; let s = \"after\" + \"wards\"; a[1] + length(s) }\n" % (body, exc)
    other = "nil_pointer" if exc != "nil_pointer" else "overflow"
    return pre + "func raise_it(z : int) -> int { %s } catch (%s) { 0 - 3 }\nfunc main() -> int { raise_it(0); 0 }\n" % (body, other)

# raise sites (enclosing function or macro in the C source) -> the probes that reach them
EXC_SITE_PROBES = {
    "vm_execute_op_div_type": ["int-division", "long-division", "float-division"], "vm_execute_op_mod_type": ["int-modulo"],
    "vm_execute_op_add_string": ["nil-string-concat", "nil-string-concat-right"], "vm_execute_op_add_type_string": ["nil-string-concat"],
    "vm_execute_op_add_string_type": ["nil-string-concat-right"], "vm_execute_op_eq_string": ["nil-string-compare"],
    "vm_execute_op_neq_string": ["nil-string-compare"], "vm_execute_op_neg_arr_type": ["nil-array-negate"],
    "vm_execute_op_add_arr_type": ["array-add-size-mismatch", "nil-array-add"], "vm_execute_op_sub_arr_type": ["array-sub-size-mismatch", "nil-array-sub"],
    "vm_execute_op_mul_arr_type": ["nil-array-scalar-mul"], "vm_execute_op_mul_arr_arr_type": ["matrix-mul-size-mismatch", "nil-matrix-mul"],
    "vm_execute_op_ass_string": ["nil-string-assign", "nil-string-copy-assign"],
    "vm_execute_mk_array_num": ["mk-array-huge-2d", "mk-array-huge-3d", "mk-array-huge-of-strings", "mk-array-zero-dim", "mk-array-negative-dim"],
    "vm_execute_slice_array": ["nil-array-slice", "slice-array-out-of-bounds"], "vm_execute_slice_slice": ["slice-of-slice-out-of-bounds"],
    "vm_execute_slice_string": ["slice-string-out-of-bounds", "nil-string-slice"], "vm_execute_slice_deref": ["slice-deref-out-of-bounds"],
    "vm_execute_range_deref": ["range-foreach-deref"], "vm_execute_string_deref": ["string-index-out-of-bounds", "nil-string-index"],
    "vm_execute_vecref_deref": ["nil-record-field"], "vm_execute_vecref_vec_deref": ["nil-record-deep-field"],
    "vm_execute_vecref_vec_index_deref": ["array-index-out-of-bounds", "array-index-negative", "matrix-index-out-of-bounds", "nil-array-deref"],
    "vm_execute_call": ["nil-function-call"], "vm_execute_rethrow": ["exception-rethrown-through-frames", "exception-in-handler"],
    "vm_execute_unhandled_exception": ["int-division"],
    "libvm_execute_build_in": ["sqrt-of-negative", "log-of-zero", "exp-overflow", "pow-overflow", "exp-underflow", "nil-string-length",
                               "nil-string-prints", "assert-failed", "assertf-failed"],
}


def exception_sites(repo):
    """grep-based list of the raise sites of the VM: enclosing function / macro -> [raise points, holds allocations before a raise?]"""
    res = {}
    for f in ("back/vmexec.c", "back/libvm.c"):
        try:
            L = open(os.path.join(repo, f)).read().split("\n")
        except OSError:
            continue
        # raise helpers: `static void vm_raise(vm * machine, int exception) { machine->running = VM_EXCEPTION; machine->exception =
        # exception; }` - a brace-free body that stores one of its parameters into ->exception.  Their CALLS are the raise points.
        helpers, inside = set(), set()
        for hm in re.finditer(r"^(?:static\s+)?(?:inline\s+)?void\s+(\w+)\s*\(([^)]*)\)\s*\{([^{}]*)\}", "\n".join(L), re.M):
            am = re.search(r"->exception\s*=\s*(\w+)\s*;", hm.group(3))
            # ... or a fixed constant: `static void libvm_raise_nil_pointer(vm * machine) { machine->running = VM_EXCEPTION; machine->exception = EXCEPT_NIL_POINTER; }`
            if re.search(r"running\s*=\s*VM_EXCEPTION", hm.group(3)) and am and \
                    (re.search(r"\b%s\s*(,|$)" % re.escape(am.group(1)), hm.group(2).strip()) or re.fullmatch(r"EXCEPT_\w+", am.group(1))):
                helpers.add(hm.group(1))
                first = "\n".join(L)[:hm.start()].count("\n")
                inside.update(range(first, first + hm.group(0).count("\n") + 1))
        call = re.compile(r"\b(?:%s)\s*\(" % "|".join(sorted(helpers))) if helpers else None
        cur, start = None, 0
        for i, l in enumerate(L):
            m = re.match(r"^(?:static\s+)?(?:void|int|mem_ptr|char)\s*\*?\s*(\w+)\s*\(", l) or re.match(r"^#define\s+(\w+)", l)
            if m:
                cur, start = m.group(1), i
            if i in inside:
                continue
            if cur and (re.search(r"running\s*=\s*VM_(EXCEPTION|ERROR)", l) or (call and call.search(l))):
                body = "\n".join(L[start:i])
                holds = bool(re.search(r"_new\s*\(|malloc\s*\(|calloc\s*\(|strdup|string_\w+\s*\(", body))
                e = res.setdefault(cur, {"file": f, "raise_points": 0, "allocates_before_a_raise": False})
                e["raise_points"] += 1
                e["allocates_before_a_raise"] = e["allocates_before_a_raise"] or holds
    return res


def exception_path_cases():
    out = []
    for name, exc, decl, body in EXC_PROBES:
        for shape in EXC_SHAPES:
            if exc is None and shape != "uncaught":
                continue
            out.append(("V.%s.%s" % (name, shape), "exc-site:" + name, exc_program(decl, body, exc, shape),
                        {"probe": name, "exception": exc or "assert", "shape": shape}))
    return out


def exception_path_matrix(cases, obs, repo):
    sites = exception_sites(repo)
    probes = {}
    for c in cases:
        if not c.cls.startswith("exc-site:"):
            continue
        o = obs.get(c.id)
        e = probes.setdefault(c.meta["probe"], {"exception": c.meta["exception"], "shapes": {}})
        v = judge(c, o)[0]
        out = (o.out or "") if o is not None else ""
        raised = ("unhandled %s" % c.meta["exception"] in out) or "assert failed" in out or \
                 (c.meta["shape"] != "uncaught" and o is not None and (o.outcome or "").startswith("RESULT"))
        e["shapes"][c.meta["shape"]] = "%s/%s" % (v, outcome_class(o) if o is not None else "no-record")
        if c.meta["shape"] == "uncaught":
            e["raises_the_intended_exception"] = bool(raised)
    known = set(probes)
    for fn, e in sites.items():
        e["probes"] = [p for p in EXC_SITE_PROBES.get(fn, []) if p in known]
    return {"rule": "raise sites = every `running = VM_EXCEPTION|VM_ERROR` in back/vmexec.c and back/libvm.c grouped by enclosing function "
                    "or macro (grep); one or more probes per site x %d shapes" % len(EXC_SHAPES),
            "sites": sites, "sites_without_probe": sorted(fn for fn, e in sites.items() if not e["probes"]), "probes": probes}


# ---------------------------------------------------------------------------------------------
# one run-and-dispose probe per BUILT-IN function (ids read from front/libmath.h) and per string-producing operator path,
# each 25 times in a loop so that a per-call loss is multiplied; oracle: the leak monitor
BUILTIN_LOOP = "func main() -> int { var i = 0; var t = 0; while (i < 25) { %s; i = i + 1 }; 0 }\n"
BUILTIN_PROBES = {
    "SIN": "let f = sin(i * 0.1); t = t + 1", "COS": "let f = cos(i * 0.1); t = t + 1", "TAN": "let f = tan(i * 0.01); t = t + 1",
    "EXP": "let f = exp(i * 0.1); t = t + 1", "LOG": "let f = log(i * 1.0 + 1.0); t = t + 1", "SQRT": "let f = sqrt(i * 1.0); t = t + 1",
    "POW": "let f = pow(i * 1.0, 2.0); t = t + 1", "STR": "let s = str(i * 1000); t = t + length(s)", "STRF": "let s = strf(i * 1.5); t = t + length(s)",
    "ORD": "t = t + ord('a')", "CHR": "let c = chr(65 + i); t = t + ord(c)", "READ": "let s = read(); t = t + 1",
    "PRINT": "print(i)", "PRINTL": "printl(100L)", "PRINTB": "printb(i < 3)", "PRINTF": "printf(i * 0.5)", "PRINTD": "printd(2.5d)",
    "PRINTC": "printc('x')", "PRINTS": "prints(\"p\" + i + \"\\n\")", "LENGTH": "t = t + length(\"abc\" + i)",
    "ASSERT": "assert(i >= 0)", "ASSERTF": "assertf(0.1, 0.5)",
    "C_INT_PTR": "let p = c_int_ptr(i); t = t + 1", "C_LONG_PTR": "let p = c_long_ptr(10L); t = t + 1", "C_FLOAT_PTR": "let p = c_float_ptr(1.5); t = t + 1",
    "C_DOUBLE_PTR": "let p = c_double_ptr(1.5d); t = t + 1", "C_BOOL_PTR": "let p = c_bool_ptr(true); t = t + 1",
    "C_CHAR_PTR": "let p = c_char_ptr('c'); t = t + 1", "C_STRING_PTR": "let p = c_string_ptr(\"s\" + i); t = t + 1",
    "C_PTR_PTR": "let p = c_ptr_ptr(c_int_ptr(i)); t = t + 1",
}
STRING_OP_PROBES = [
    ("concat-string-string", "let s = \"a\" + \"b\"; t = t + length(s + s)"), ("concat-string-int", "let s = \"a\" + i; t = t + length(s)"),
    ("concat-int-string", "let s = i + \"a\"; t = t + length(s)"), ("concat-string-long", "let s = \"a\" + 10L; t = t + length(s)"),
    ("concat-long-string", "let s = 10L + \"a\"; t = t + length(s)"), ("concat-string-float", "let s = \"a\" + 1.5; t = t + length(s)"),
    ("concat-float-string", "let s = 1.5 + \"a\"; t = t + length(s)"), ("concat-string-double", "let s = \"a\" + 1.5d; t = t + length(s)"),
    ("concat-double-string", "let s = 1.5d + \"a\"; t = t + length(s)"), ("concat-string-char", "let s = \"a\" + 'c'; t = t + length(s)"),
    ("concat-char-string", "let s = 'c' + \"a\"; t = t + length(s)"), ("concat-chain", "let s = \"a\" + i + \"b\" + 1.5 + 'c' + 2L; t = t + length(s)"),
    ("compare-eq", "let a = \"x\" + i; t = t + ((a == \"x3\") ? 1 : 0)"), ("compare-neq", "let a = \"x\" + i; t = t + ((a != \"x3\") ? 1 : 0)"),
    ("compare-temporaries", "t = t + (((\"x\" + i) == (\"x\" + 3)) ? 1 : 0)"),
    ("slice", "let a = \"abcdefgh\" + i; let b = a[1 .. 4]; t = t + length(b)"), ("slice-reversed", "let a = \"abcdefgh\"; let b = a[5 .. 2]; t = t + length(b)"),
    ("slice-of-slice", "let a = \"abcdefgh\"; let b = a[1 .. 6]; let c = b[1 .. 3]; t = t + length(c)"),
    ("index", "let a = \"abc\" + i; t = t + ord(a[1])"), ("assign-copy", "var a = \"abc\"; let b = \"x\" + i; a = b; t = t + length(a)"),
    ("string-in-array", "let a = [ \"p\" + i, \"q\" + i ] : string; t = t + length(a[1])"),
    ("string-in-record", "let r = SR(\"n\" + i); t = t + length(r.s)"),
    ("string-through-call", "t = t + length(dup(\"z\" + i))"), ("string-listcomp", "let a = [ \"k\" + j | j in [ 1, 2, 3 ] : int ] : string; t = t + length(a[2])"),
    ("str-concat-str", "let s = str(i) + str(i + 1) + strf(0.5); t = t + length(s)"),
    ("chr-to-string", "let s = \"\" + chr(66); t = t + length(s)"),
]
STRING_OP_DECLS = "record SR { s : string; }\nfunc dup(s : string) -> string { s + s }\n"


def builtin_ids(repo):
    try:
        txt = open(os.path.join(repo, "front", "libmath.h")).read()
    except OSError:
        return []
    m = re.search(r"typedef\s+enum\s+libmath_func\s*\{(.*?)\}", txt, re.S)
    return [x for x in re.findall(r"\bLIB_MATH_([A-Z_]+)\b", m.group(1) if m else "") if x != "UNKNOWN"]


def builtin_cases(repo):
    ids = []
    for i in builtin_ids(repo):
        if i not in ids:
            ids.append(i)
    out = []
    for i in ids:
        if i in BUILTIN_PROBES:
            out.append(("B.%s" % i.lower(), "builtin:" + i, STRING_OP_DECLS + BUILTIN_LOOP % BUILTIN_PROBES[i]))
    for nm, body in STRING_OP_PROBES:
        out.append(("B.op.%s" % nm, "string-op:" + nm, STRING_OP_DECLS + BUILTIN_LOOP % body))
    return out, {"built_in_ids(front/libmath.h)": ids, "ids_without_probe": [i for i in ids if i not in BUILTIN_PROBES],
                 "string_operator_probes": [nm for nm, _ in STRING_OP_PROBES], "calls_per_probe": 25}


# ---------------------------------------------------------------------------------------------
# entry functions with parameters, run WITH arguments that the host owns.  The kinds an entry may declare
# (front/typecheck.c func_entry_check_type; back/nev.c nev_prepare_argc_argv; back/vmexec.c vm_execute_push_param):
# int, float, string in any mix (FUNC_ENTRY_TYPE_PARAM_LIST) or one string array (FUNC_ENTRY_TYPE_STRING_ARRAY).
LONGARG = "abcdefghij" * 30
ENTRY_PROGRAMS = [
    # (name, entry, args, source)
    ("greet", "main", ["world", "3"], "func main(name : string, n : int) -> int { prints(\"hello \" + name + \"\\n\"); length(name) + n }"),
    ("string-kept-in-global", "main", ["tail"], "var keep = \"\";\nfunc main(s : string) -> int { keep = keep + s; length(keep) }"),
    ("string-aliased-in-global", "main", ["alias"], "var keep = \"x\";\nfunc main(s : string) -> int { keep = s; length(keep) }"),
    ("string-ignored", "main", ["unused", "2.5"], "func main(s : string, x : float) -> float { x * 2.0 }"),
    ("two-strings-into-array", "main", ["left", "right"], "func main(a : string, b : string) -> int { let arr = [ a, b, a + b ] : string; length(arr[2]) }"),
    ("string-in-record-in-global", "main", ["field"], "record R { s : string; }\nvar r = R(\"x\");\nfunc main(s : string) -> int { r = R(s); length(r.s) }"),
    ("string-in-closure", "main", ["captured"], "func main(s : string) -> int { let f = let func (k : int) -> int { length(s) + k }; f(1) }"),
    ("string-indexed", "main", ["index"], "func main(s : string) -> int { ord(s[0]) + ord(s[length(s) - 1]) }"),
    ("long-string", "main", [LONGARG, "1"], "func main(s : string, n : int) -> int { length(s + s) + n }"),
    ("numbers-only", "main", ["6", "1.5", "7"], "func main(a : int, x : float, b : int) -> float { x * 2.0 + 1.0 }"),
    ("int-only", "main", ["41"], "func main(a : int) -> int { a + 1 }"),
    ("string-last-of-four", "main", ["1", "2.0", "3", "fourth"], "func main(a : int, x : float, b : int, s : string) -> int { a + b + length(s) }"),
    ("string-then-division-by-zero", "main", ["boom", "0"], "func main(s : string, d : int) -> int { prints(s + \"\\n\"); 10 / d }"),
    ("string-then-assert", "main", ["claim", "0"], "func main(s : string, d : int) -> int { let t = s + s; assert(d == 1); length(t) }"),
    ("string-then-caught", "main", ["safe", "0"], "func dv(s : string, d : int) -> int { length(s) / d } catch (division_by_zero) { length(s) }\nfunc main(s : string, d : int) -> int { dv(s, d) }"),
    ("other-entry", "greet", ["you"], "func greet(who : string) -> int { prints(\"hi \" + who + \"\\n\"); length(who) }\nfunc main() -> int { 0 }"),
    ("string-array", "main", ["one", "two", "three"], "func main(argv[argc] : string) -> int { var t = 0; for (a in argv) { t = t + length(a) }; t + argc }"),
    ("string-array-kept", "main", ["p", "q"], "var first = \"\";\nfunc main(argv[argc] : string) -> int { first = argv[0]; length(first) + argc }"),
    ("string-array-ignored", "main", ["x", "y", "z"], "func main(argv[argc] : string) -> int { 7 }"),
    ("string-array-then-exception", "main", ["only"], "func main(argv[argc] : string) -> int { length(argv[5]) }"),
    ("too-few-arguments", "main", ["lonely"], "func main(s : string, n : int) -> int { length(s) + n }"),
    ("no-such-entry", "absent", ["a"], "func main(s : string) -> int { length(s) }"),
]
ENTRY_SHAPES = ["", "runs=3", "vms=2", "runs=2 vms=2", "reprepare runs=3", "reprepare runs=2 vms=2", "mode=params", "mode=params runs=3 vms=2",
                "mode=params reprepare runs=2", "mem=300 stack=100 runs=2"]


def entry_param_cases():
    out = []
    for name, entry, args, src in ENTRY_PROGRAMS:
        for k, shape in enumerate(ENTRY_SHAPES):
            if "mode=params" in shape and "argv[argc]" in src:
                continue              # a string array can only be handed over by nev_prepare_argc_argv
            opts = ("entry=%s args=%s %s" % (entry, ",".join(args), shape)).strip()
            out.append(("A.%s.%d" % (name, k), "entry-args:" + name, src, opts, {"entry": entry, "args": [a[:24] for a in args], "shape": shape or "one run"}))
    return out


# ---------------------------------------------------------------------------------------------
# heap-size sweep: allocating probe programs x every heap size around the smallest one that completes
HEAP_PROBES = [
    ("array40", "func main() -> int { let a = {[ 40 ]} : int; a[3] + a[39] }"),
    ("array-literal", "func main() -> int { let a = [ 1, 2, 3, 4, 5, 6, 7, 8 ] : int; a[0] + a[7] }"),
    ("record-list", "record L { v : int; n : L; }\nfunc grow(l : L, k : int) -> L { k == 0 ? l : grow(L(k, l), k - 1) }\nfunc main() -> int { let l = grow(nil, 30); l.v }"),
    ("string-concat", "func main() -> int { var s = \"\"; var i = 0; while (i < 12) { s = s + \"ab\"; i = i + 1 }; length(s) }"),
    ("string-array", "func main() -> int { let a = [ \"one\", \"two\", \"three\", \"four\" ] : string; length(a[3]) }"),
    ("closures", "func mk(k : int) -> (int) -> int { let func (x : int) -> int { x + k } }\nfunc main() -> int { let f = mk(1); let g = mk(2); let h = mk(3); f(1) + g(2) + h(3) }"),
    ("matrix", "func main() -> int { let m = {[ 6, 6 ]} : int; m[5, 5] }"),
    ("listcomp", "func main() -> int { let a = [ i * i | i in [ 1, 2, 3, 4, 5, 6 ] : int ] : int; a[5] }"),
    ("global-keeps", "var keep = [ 1, 2, 3 ] : int;\nfunc main() -> int { keep = [ 4, 5, 6, 7, 8, 9, 10, 11 ] : int; keep[7] }"),
    ("garbage-loop", "func main() -> int { var i = 0; var t = 0; while (i < 40) { let a = [ i, i + 1 ] : int; t = t + a[1]; i = i + 1 }; t }"),
    ("ends-index-exception", "func main() -> int { let a = [ 1, 2, 3, 4, 5, 6 ] : int; let s = \"x\" + \"y\"; a[9] }"),
    ("ends-division-exception", "func d(a : int) -> int { let t = [ \"x\", \"y\" ] : string; 10 / a }\nfunc main() -> int { d(0) }"),
    ("ends-assert", "func main() -> int { let a = [ 1, 2, 3, 4 ] : int; let s = \"a\" + \"b\"; assert(a[0] == 2); 0 }"),
    ("caught-exception", "func d(a : int) -> int { let t = [ 1, 2, 3 ] : int; t[a] } catch (index_out_of_bounds) { let u = [ 7, 8 ] : int; u[0] }\nfunc main() -> int { d(5) }"),
    ("nothing", "func main() -> int { 0 }"),
]


OWNED_TOKEN_TEXT = [("string-literal", '"text"'), ("identifier", "zzz"), ("use-name", "use zzmod"), ("two-string-literals", '"one" "two"'),
                    ("identifier-then-string", 'zzz "text"')]


def owned_token_kinds(repo):
    """the scanner rules whose token value is heap memory (strdup / string_take): [rule pattern, line]"""
    out = []
    try:
        L = open(os.path.join(repo, "front", "scanner.l")).read().split("\n")
    except OSError:
        return out
    rule = None
    for i, l in enumerate(L):
        head = re.sub(r"\s*/\*.*?\*/\s*$", "", l.rstrip())          # `{ID}    { /* comment */`
        if head and not head[0].isspace() and head.endswith("{") and not head.startswith("}"):
            rule = head[:-1].strip()
        # the assignment may be broken after or before the `=`
        if "str_value" in l and re.search(r"str_value\s*=\s*(strdup|string_take)\s*\(", l + " " + (L[i + 1] if i + 1 < len(L) else "")) and rule:
            if not out or out[-1][0] != rule:
                out.append([rule, i + 1])
    return out


def measure_gc_delete_bounds(repo):
    """lo and cut of `for (i = lo; i < collector->mem_size - cut; i++)` in gc_delete (back/gc.c): the parameters of
    Mem/GcDelete.v gc_delete_freed_bounds"""
    try:
        src = open(os.path.join(repo, "back", "gc.c")).read()
    except OSError:
        return None
    b = re.search(r"void\s+gc_delete\s*\(", src)
    if not b:
        return None
    e = src.find("\n}\n", b.start())
    src = src[b.start():e if e > 0 else len(src)]
    # the index may have any name: the same identifier in all three clauses, advancing by one
    m = re.search(r"void\s+gc_delete\s*\(.*?for\s*\(\s*(\w+)\s*=\s*(\d+)\s*;\s*\1\s*(<=?)\s*collector->mem_size\s*(?:-\s*(\d+))?\s*;"
                  r"\s*(?:\1\s*\+\+|\+\+\s*\1|\1\s*\+=\s*1)\s*\)", src, re.S)
    if not m:
        return None
    cut = int(m.group(4) or 0) - (1 if m.group(3) == "<=" else 0)
    return {"lo": int(m.group(2)), "cut": cut, "loop": " ".join(m.group(0)[m.group(0).rfind("for"):].split())}


def heap_case(name, src, size, phase):
    return MCase("H.%s.%d" % (name, size), "heap-sweep:" + name, src.encode(), None, "mem=%d" % size, {"probe": name, "size": size, "phase": phase})


def heap_sweep_cases(drv, mon, workdir, timeout, margin=64):
    """-> (cases of the fine sweep, info).  Coarse pass first (sizes 1, 2, 3 and every 4th size up to 640) to find, per
    probe, the smallest heap that completes and the size from which the collector never has to run (cells in use at
    teardown stop growing); then EVERY size from 6 below the former to `margin` above it, and 6 either side of the latter."""
    coarse = []
    for name, src in HEAP_PROBES:
        for size in [1, 2, 3] + list(range(4, 640, 4)):
            coarse.append(heap_case(name, src, size, "coarse"))
    obs = run_mem(drv, mon, coarse, workdir, timeout=timeout, tag="hc")
    fine, info = [], {}
    for name, src in HEAP_PROBES:
        done = {}
        for c in coarse:
            if c.meta["probe"] == name:
                o = obs.get(c.id)
                if o is not None and o.heap and "done" in o.phases:
                    done[c.meta["size"]] = o.heap[-1]["used"]
        if not done:
            info[name] = {"smallest_completing(coarse)": None}
            continue
        first = min(done)
        plateau = max(done.values())
        nogc = min(sz for sz, u in done.items() if u == plateau)
        sizes = set(range(max(4, first - 6), first + margin + 1)) | set(range(max(4, nogc - 6), nogc + 7)) | {1, 2, 3}
        info[name] = {"smallest_completing(coarse)": first, "collector_idle_from(coarse)": nogc, "cells_in_use_without_collection": plateau}
        for size in sorted(sizes):
            fine.append(heap_case(name, src, size, "fine"))
    return fine, info


def heap_sweep_matrix(cases, obs, info):
    """the (program x heap size) distribution with the occupancy of the boundary cells at teardown"""
    out = {}
    for c in cases:
        if not c.cls.startswith("heap-sweep:"):
            continue
        name, size = c.meta["probe"], c.meta["size"]
        o = obs.get(c.id)
        verdict = judge(c, o)[0]
        e = out.setdefault(name, dict(info.get(name, {}), sizes_run=0, reached_vm_delete=0, ended_in_exit_no_teardown=0, verdicts={},
                                      outcomes={}, smallest_completing=None, teardown_with_last_cell_in_use=[],
                                      teardown_with_cell_1_in_use=0, teardown_with_every_cell_in_use=[], cells_in_use_at_teardown={}))
        e["sizes_run"] += 1
        e["verdicts"][verdict] = e["verdicts"].get(verdict, 0) + 1
        if o is None or not o.heap or "done" not in o.phases:
            e["ended_in_exit_no_teardown"] += 1
            continue
        h = o.heap[-1]
        oc = outcome_class(o)
        e["outcomes"][oc] = e["outcomes"].get(oc, 0) + 1
        e["reached_vm_delete"] += 1
        e["smallest_completing"] = size if e["smallest_completing"] is None else min(size, e["smallest_completing"])
        if h["last"]:
            e["teardown_with_last_cell_in_use"].append(size)
        if h["first"]:
            e["teardown_with_cell_1_in_use"] += 1
        if h["used"] == h["size"] - 1:
            e["teardown_with_every_cell_in_use"].append(size)
        e["cells_in_use_at_teardown"][str(size)] = h["used"]
    for e in out.values():
        ks = sorted(e["cells_in_use_at_teardown"], key=int)
        if len(ks) > 14:          # keep the evidence readable: the boundary region and the ends
            keep = set(ks[:10] + ks[-2:] + [str(x) for x in e["teardown_with_last_cell_in_use"][:12]])
            e["cells_in_use_at_teardown"] = {k: e["cells_in_use_at_teardown"][k] for k in ks if k in keep}
    return {"rule": "every probe is run at heap sizes 1, 2, 3 and at EVERY size from 6 cells below the smallest heap that completes to 64 "
                    "above it (+ 6 either side of the size from which the collector stays idle); each run: vm_new(size), nev_execute, "
                    "vm_delete, program_delete under the allocation monitor; runs that end in libnev's exit(1) `out of memory` are "
                    "counted, not judged", "probes": out}


# ---------------------------------------------------------------------------------------------
class MCase:
    __slots__ = ("id", "cls", "data", "path", "opts", "meta")

    def __init__(self, cid, cls, data, path=None, opts="", meta=None):
        self.id, self.cls, self.data, self.path, self.opts, self.meta = cid, cls, data, path, opts, meta or {}


class MObs:
    __slots__ = ("id", "status", "phases", "outcome", "monitor", "events", "sites", "out", "overflow", "host", "heap")

    def __init__(self, cid):
        self.id = cid
        self.status = None
        self.phases, self.sites = [], []
        self.outcome = self.monitor = self.out = None
        self.events = 0
        self.overflow = False
        self.host, self.heap = [], []


def write_mbatch(path, cases):
    with open(path, "wb") as f:
        for c in cases:
            hdr = "@@@ %s %d" % (c.id, len(c.data))
            if c.path:
                hdr += " path=%s" % c.path
            if c.opts:
                hdr += " " + c.opts
            f.write(hdr.encode() + b"\n" + c.data + b"\n")


def parse_mem_output(text):
    res, cur = {}, None
    for l in text.split("\n"):
        if l.startswith("@@BEGIN "):
            cur = MObs(l[8:].strip())
            res[cur.id] = cur
        elif cur is None:
            continue
        elif l.startswith("@@PHASE "):
            cur.phases.append(l.split(" ")[2])
        elif l.startswith("@@OUTCOME "):
            cur.outcome = l.split(" ", 2)[2]
        elif l.startswith("@@MONITOR "):
            a = l.split(" ", 3)
            m = re.match(r"events=(\d+) (.*)$", a[2] + " " + a[3])
            if m:
                cur.events, cur.monitor = int(m.group(1)), m.group(2)
        elif l.startswith("@@OUT "):
            cur.out = l.split(" ", 2)[2] if l.count(" ") >= 2 else ""
        elif l.startswith("@@OVERFLOW"):
            cur.overflow = True
        elif l.startswith("@@HOST "):
            a = l.split(" ")
            cur.host.append((a[2], a[3].split(",") if len(a) > 3 else []))
        elif l.startswith("@@HEAP "):
            m = re.match(r"@@HEAP \S+ vm=(\d+) size=(\d+) used=(\d+) first=(\d) last=(\d)", l)
            if m:
                cur.heap.append({"vm": int(m.group(1)), "size": int(m.group(2)), "used": int(m.group(3)),
                                 "first": int(m.group(4)), "last": int(m.group(5))})
        elif l.startswith("@@END "):
            cur.status = l.split("status=")[1].strip()
            cur = None
        elif l.startswith("A "):
            a = l.split(" ")
            if len(a) == 5:
                cur.sites.append((int(a[1]), a[2].split(","), int(a[3]), int(a[4])))
    return res


def run_mem(drv, monitor_exe, cases, workdir, timeout=10, bt=False, nproc=NPROC, tag="m"):
    if not cases:
        return {}
    order = sorted(cases, key=lambda c: -len(c.data))
    buckets = [[] for _ in range(min(nproc, len(order)))]
    for k, c in enumerate(order):
        buckets[k % len(buckets)].append(c)
    env = dict(os.environ)
    env.pop("NEVER_PATH", None)
    procs = []
    for k, b in enumerate(buckets):
        bp = os.path.join(workdir, "%s%d.in" % (tag, k))
        op = os.path.join(workdir, "%s%d.out" % (tag, k))
        write_mbatch(bp, b)
        cmd = "%s --batch %s --timeout %d %s | %s > %s" % (drv, bp, timeout, "--bt" if bt else "", monitor_exe, op)
        p = subprocess.Popen(cmd, shell=True, env=env, cwd=workdir, stderr=subprocess.DEVNULL, preexec_fn=c05.limit_stack(1 << 30))
        procs.append((p, op, bp, b))
    res = {}
    for p, op, bp, b in procs:
        try:
            p.wait(timeout=timeout * len(b) + 180)
        except subprocess.TimeoutExpired:
            p.kill()
        if os.path.exists(op):
            res.update(parse_mem_output(open(op, "rb").read().decode("latin-1")))
            os.unlink(op)
        os.unlink(bp)
    return res


# ---------------------------------------------------------------------------------------------
class Symbolizer:
    def __init__(self, exe):
        self.exe, self.cache = exe, {}

    def resolve(self, addrs):
        need = [a for a in addrs if a not in self.cache]
        if need:
            # the addresses are return addresses: look one byte back to land inside the call's own line
            p = subprocess.run(["addr2line", "-f", "-e", self.exe] + ["0x%x" % max(0, int(a, 16) - 1) for a in need],
                               stdout=subprocess.PIPE, stderr=subprocess.DEVNULL)
            lines = p.stdout.decode("latin-1").split("\n")
            for i, a in enumerate(need):
                fn = lines[2 * i] if 2 * i < len(lines) else "??"
                loc = lines[2 * i + 1] if 2 * i + 1 < len(lines) else "??:0"
                self.cache[a] = (fn, loc)
        return [self.cache[a] for a in addrs]


def nonterminal_at(parser_y_lines, line):
    for k in range(min(line, len(parser_y_lines)) - 1, -1, -1):
        m = re.match(r"^([a-z_]+)\s*:", parser_y_lines[k])
        if m:
            return m.group(1)
    return None


def outcome_class(o):
    if o.outcome is None:
        return "no-outcome"
    if o.outcome.startswith("COMPILE_ERROR"):
        out = o.out or ""
        if "syntax error" in out or "memory exhausted" in out or "unterminated" in out or "bad escape" in out:
            return "parse-error"
        if ("division by zero" in out or "cyclic reference" in out or "could not reduce enumerator" in out
                or "with same value as" in out or ("enumred " in out and "not supported" in out)):
            return "reducer-error"
        return "typecheck-error"
    if o.outcome.startswith("COMPILED"):
        return "compiled"
    if o.outcome.startswith("PREPARE_ERROR"):
        return "prepare-error"
    if o.outcome.startswith("RESULT"):
        return "run-normal"
    if o.outcome.startswith("EXEC_ERROR"):
        out = o.out or ""
        return "run-assert-failed" if "assert failed" in out else "run-unhandled-exception"
    return "other"


def short_loc(loc):
    m = re.search(r"((?:front|back)/[^:]+):(\d+)", loc)
    if m:
        return m.group(1), int(m.group(2))
    m = re.search(r"([^/:]+):(\d+)", loc)
    return (m.group(1), int(m.group(2))) if m else (loc, 0)


def judge(case, o):
    """-> (kind, detail) kind: ok | leak | reject | hostmem | exit-no-teardown | crashed | timeout | skipped"""
    if o is None or o.status is None:
        return "skipped", "no record"
    if o.host:
        return "hostmem", "; ".join(sorted({h[0] for h in o.host}))       # libnev freed / wrote memory the host owns
    if o.status == "timeout":
        return "timeout", None
    if o.overflow:
        return "skipped", "more than 2^21 distinct blocks"
    if o.monitor and o.monitor.startswith("reject"):
        return "reject", o.monitor
    if o.status.startswith("signal_"):
        return "crashed", o.status
    if "done" not in o.phases:
        return "exit-no-teardown", "%s after phase %s" % (o.status, o.phases[-1] if o.phases else "?")
    if o.monitor is None:
        return "skipped", "no monitor verdict"
    if o.monitor.startswith("accept"):
        return "ok", None
    if o.monitor.startswith("leak"):
        return "leak", o.monitor
    return "skipped", o.monitor


def describe(frames):
    return ["%s (%s:%d)" % (f, short_loc(l)[0], short_loc(l)[1]) for f, l in frames]


_SCANNER = {}


def scanner_info():
    """keywords of scanner.l (rules `word {` in the INITIAL state) and its lines, for naming token leaks"""
    if not _SCANNER:
        try:
            lines = open(os.path.join(common.REPO, "front", "scanner.l")).read().split("\n")
        except OSError:
            lines = []
        kw = set()
        for l in lines:
            m = re.match(r"^([a-z_]+)\s*\{\s*$", l)
            if m:
                kw.add(m.group(1))
        _SCANNER.update({"lines": lines, "keywords": kw})
    return _SCANNER


def scanner_rule_at(line):
    lines = scanner_info()["lines"]
    for k in range(min(line, len(lines)) - 1, -1, -1):
        if lines[k] and not lines[k][0].isspace() and lines[k].rstrip().endswith("{") and not lines[k].startswith("}"):
            return lines[k].rstrip()[:-1].strip()
    return "?"


# roles of an identifier that NAMES something; every other place (an operand, the token at which the parser gave up, ...)
# is "other-position"
ROLE_AFTER = {"func": "func-name", "record": "record-name", "enum": "enum-name", "module": "module-name", "let": "bind-name",
              "var": "bind-name", ":": "type-name", "->": "return-type-name", ".": "member-name", "::": "enum-item-name",
              "catch": "exception-name"}


def token_role(src, k):
    """syntactic role of the k-th identifier token (k from 1) that the {ID} rule of the scanner duplicates"""
    if re.search(rb"(^|\s)use\s", src):
        return "position-unknown"           # module text is scanned in between: the count does not map to this text
    kw = scanner_info()["keywords"]
    toks = [x for x in c05.tokenize(src) if not x.isspace() and not x.startswith(b"#") and not x.startswith(b"/*")]
    n = 0
    for i, x in enumerate(toks):
        if re.match(rb"^[A-Za-z_][A-Za-z0-9_]*$", x) and x.decode() not in kw:
            n += 1
            if n == k:
                prev = toks[i - 1].decode("latin-1") if i > 0 else "^"
                nxt = toks[i + 1].decode("latin-1") if i + 1 < len(toks) else "$"
                if prev in ("(", ",") and nxt == ":":
                    return "param-name"
                if prev in ROLE_AFTER:
                    return ROLE_AFTER[prev]
                return "other-position"
    return "position-unknown"


def attribute(case, o, kind, sym, parser_y):
    """Stable keys for a failing trace -> [(key, [descriptions])], the first one is the main key.
    Leak: the block acquired LAST among the leaked ones is taken as the root of the leaked structure
    (the parser builds bottom-up); it is named by the grammar nonterminal whose action allocated it
    when a yyparse frame is on its stack, else by the allocating function.  Token texts duplicated by
    the scanner all come from ONE call site, so they are named by the syntactic role of the token in
    the input (k-th allocation at the site = k-th identifier of the text); every leaked token text that
    cannot belong to a leaked parser node (acquired after the last leaked node) gets its own key, so a
    new lost token is not hidden behind a known one.  Reject: the function performing the bad free."""
    oc = "parse-error" if outcome_class(o) == "parse-error" else ("no-outcome" if o.outcome is None else "after-parse")
    if kind == "hostmem":
        keys = []
        for what, addrs in o.host:
            if what == "freed":
                frames = sym.resolve(addrs) if addrs else []
                fns = [f for f, _ in frames if not f.startswith("__wrap_")]
                owner = next((f for f in fns if f not in ("object_delete", "free")), fns[0] if fns else "unknown")
                key = "host-memory-freed:" + owner
                desc = ["free()/realloc() of a buffer owned by the host in " + " <- ".join(describe([fr for fr in frames if not fr[0].startswith("__wrap_")])[:5])]
            else:
                key, desc = "host-memory-written", ["host buffer #%s differs from the copy taken before the run" % (addrs[0] if addrs else "?")]
            if key not in [k for k, _ in keys]:
                keys.append((key, desc))
        return keys
    if not o.sites:
        return [("%s:%s:unattributed" % (kind, oc), [])]
    if kind != "leak":
        blk, addrs = o.sites[-1][0], o.sites[-1][1]       # where the rejected free/realloc happened
        frames = sym.resolve(addrs)
        desc = ["freed in " + " <- ".join(describe(frames)[:4])]
        if len(o.sites) > 1:
            desc.append("allocated in " + " <- ".join(describe(sym.resolve(o.sites[0][1]))[:4]))
        m = re.match(r"reject pos=\d+ (\S+)", o.monitor or "")
        name = frames[0][0]
        src, line = short_loc(frames[0][1])
        if name == "yyparse" and src.endswith("parser.y"):
            nt = nonterminal_at(parser_y, line)
            if nt:
                name = "parser-action:" + nt
        return [("%s:%s:%s" % (m.group(1) if m else kind, oc, name), desc)]

    def name_of(site):
        blk, addrs, seq, k = site
        frames = sym.resolve(addrs)
        fn = frames[0][0]
        if fn == "lex_scan":
            rule = scanner_rule_at(short_loc(frames[0][1])[1])
            if rule == "{ID}":
                return "token:" + token_role(case.data, k), frames, True
            return "token:scanner-rule:" + (c05.slug(rule, 3) if c05.slug(rule, 3) != "none" else "other"), frames, True
        if fn.startswith("string_") and any(f == "lex_scan" for f, _ in frames[1:3]):
            # string_new makes two blocks: the `string` record and its text.  The closing quote hands the text to the token
            # (string_take) and frees the record: a lost text WITHOUT its record is the value of a finished string-literal
            # token dropped by the parser; with the record it is the scanner's pending buffer
            if not pending_record_leaked(sites):
                return "token:string-literal", frames, True
            return "scanner-string-buffer", frames, False
        if len(frames) > 1 and frames[1][0].startswith("gc_alloc"):
            return "vm-heap-object", frames, False          # an object of the VM heap that gc_delete did not release
        for f, l in frames[1:]:
            src, line = short_loc(l)
            if f == "yyparse" and src.endswith("parser.y"):
                nt = nonterminal_at(parser_y, line)
                if nt:
                    return "nonterminal:" + nt, frames, False
                break
        return fn, frames, False

    sites = sorted(o.sites, key=lambda s: s[2])

    def pending_record_leaked(all_sites):
        try:
            src = open(os.path.join(common.REPO, "front", "strutil.c")).read().split("\n")
        except OSError:
            return True
        for st in all_sites:
            fr = sym.resolve(st[1])
            if fr and fr[0][0] == "string_new":
                ln = short_loc(fr[0][1])[1]
                if 0 < ln <= len(src) and "sizeof(string)" in src[ln - 1]:
                    return True
        return False
    named = [(s,) + name_of(s) for s in sites[-60:]]
    root = named[-1]
    fns = []
    for s, nm, frames, is_tok in reversed(named):
        if frames[0][0] not in fns:
            fns.append(frames[0][0])
    if root[1] == "scanner-string-buffer":
        # lost by the <<EOF>> rule of the scanner, whatever the later phases say about the text in front of the literal (an
        # input that ends inside a literal is not diagnosed, the compile may even succeed): one mechanism, one key
        oc = "parse-error"
    out = [("leak:%s:%s" % (oc, root[1]),
            ["root block %d: " % root[0][0] + " <- ".join(describe(root[2])[:5]),
             "allocating functions of leaked blocks: " + ", ".join(fns[:12])])]
    last_node_seq = max([s[2] for s, nm, fr, is_tok in named if not is_tok] + [0])
    for s, nm, frames, is_tok in named:
        if is_tok and s[2] > last_node_seq:
            key = "leak:%s:%s" % (oc, nm)
            if key not in [x[0] for x in out]:
                out.append((key, ["token text block %d (the %d-th identifier scanned): " % (s[0], s[3]) + " <- ".join(describe(frames)[:3])]))
    return out[:5]


# ---------------------------------------------------------------------------------------------
def build_cases(ctx, rng, workdir, scale):
    cases = []
    samples = c05.sample_sources()
    cdir = os.path.join(common.VERIF, "corpus", "C16")
    for p in sorted(glob.glob(os.path.join(cdir, "*.nev"))):
        optf = p[:-4] + ".opts"           # optional: how to run it (entry=, args=, runs=, vms=, mem=, ...)
        opts = open(optf).read().strip() if os.path.exists(optf) else ""
        cases.append(MCase("K." + os.path.basename(p)[:-4], "kept-corpus", open(p, "rb").read(), None, opts))
    for name, src in samples:
        if b"\x00" in src:
            continue
        cases.append(MCase(name, "corpus", src, c05.SAMPLE_PATH))
    for name, src in samples[::4]:
        cases.append(MCase(name + ".n", "corpus-nopath", src, None))
    srcs = [s for _, s in samples if s.strip() and b"\x00" not in s]
    pool = []
    for s in rng.sample(srcs, min(200, len(srcs))):
        pool += [t for t in c05.tokenize(s) if not t.isspace()]
    for i in range(int(2000 * scale)):
        s = rng.choice(srcs)
        for _ in range(rng.choice([1, 1, 1, 2, 3])):
            s, op = c05.mutate_tokens(rng, s, pool)
        cases.append(MCase("m%d" % i, "mutate", s.replace(b"\x00", b" "), c05.SAMPLE_PATH if rng.random() < 0.7 else None))
    for i in range(int(800 * scale)):
        s = rng.choice(srcs)
        if len(s) > 2:
            cases.append(MCase("t%d" % i, "truncate", s[:rng.randrange(1, len(s))], c05.SAMPLE_PATH))
    g = c05.ProgGen(rng)
    for i in range(int(1800 * scale)):
        p = g.program().encode()
        if rng.random() < 0.2:
            cases.append(MCase("g%d" % i, "generated-valid", p))
            continue
        names = []
        for _ in range(rng.choice([1, 1, 2])):
            p, nm = c05.inject_fault(rng, p)
            names.append(nm)
        cases.append(MCase("g%d" % i, "generated-fault", p, None, "", {"faults": names}))
    for i in range(int(400 * scale)):
        d, k = c05.raw_bytes(rng, rng.choice(srcs))
        d = d.replace(b"\x00", b"\x01")
        cases.append(MCase("r%d" % i, "raw", d, c05.SAMPLE_PATH))
    for n in [10, 300, 1000]:
        for nm, d in c05.long_token_cases([n]):
            cases.append(MCase("L.%s.%d" % (nm, n), "long", d))
    for n in [5, 50, 400]:
        for nm, d in c05.nesting_cases([n]):
            cases.append(MCase("N.%s.%d" % (nm, n), "nest", d))
    for nm, d in c05.nesting_cases([10000]):
        if nm in ("parens", "blocks", "arrays", "calls", "unary-minus", "nested-funcs", "if-else-chain"):
            cases.append(MCase("N.%s.10000" % nm, "nest-parser-stack-exhausted", d))
    mods = os.path.join(workdir, "mods")
    i = 0
    for kind in ["chain", "chain-missing-end", "cycle", "self", "diamond", "wide", "tree", "random"]:
        for n in ([1, 3, 15, 16, 17, 20] if kind in ("chain", "chain-missing-end", "cycle") else [3, 8]):
            for broken in (None, 0, n - 1):
                gph, missing, main = c05.use_graph(rng, kind, n)
                root = os.path.join(mods, "u%d" % i)
                src = c05.write_use_graph(root, gph, main, True, broken)
                cases.append(MCase("U%d.%s.%d" % (i, kind, n), "use" + ("" if broken is None else "+broken-module"), src, root))
                i += 1
    # grammar-driven syntax errors: every rule of parser.y x every position of its right-hand side x illegal token
    try:
        gcases, ginfo = c05.grammar_error_cases(common.REPO)
    except Exception as e:
        gcases, ginfo = [], {"error": str(e)[:300]}
    ctx.coverage["grammar_driven_syntax_errors"] = ginfo
    for nm, d in gcases:
        cases.append(MCase("Y." + nm, "grammar-error", d))
    # the same positions with every token KIND whose value owns heap memory planted as the offending token (scanner.l: rules
    # that set tokp->val.str_value = strdup(..) / string_take(..): identifiers, string literals, the name after `use`)
    owned = owned_token_kinds(common.REPO)
    oinfo = {"token_rules_with_heap_values(scanner.l)": owned, "planted": {}}
    for kind, text in OWNED_TOKEN_TEXT:
        try:
            ocases, _ = c05.grammar_error_cases(common.REPO, illegal=(text,))
        except Exception as e:
            ocases = []
            oinfo["error"] = str(e)[:200]
        if " " in text and not kind.startswith("use"):
            ocases = ocases[::3]                      # the two-token combinations: every third position
        oinfo["planted"][kind] = {"text": text, "sentences": len(ocases)}
        for k, (nm, d) in enumerate(ocases):
            cases.append(MCase("O.%s.%d.%s" % (kind, k, nm.rsplit(".x", 1)[0]), "owned-token-error:" + kind, d, None, "", {"kind": kind}))
    ctx.coverage["owned_token_syntax_errors"] = oinfo
    for nm, d in c05.enum_init_cases(rng, int(150 * scale)):
        cases.append(MCase("E." + nm, "enum-initialisers", d))
    # error paths by construct: one program per (error exit x operand type x syntactic context)
    for name, phase, fault, T, cname, src in error_path_cases():
        cases.append(MCase("X." + name, "errpath:" + phase, src.encode("latin-1"), None, "",
                           {"phase": phase, "fault": fault, "type": T, "context": cname}))
    # built-in functions and string-producing operators, each in a loop
    bcases, binfo = builtin_cases(common.REPO)
    ctx.coverage["built_in_and_string_operator_probes"] = binfo
    for cid, cls, src in bcases:
        cases.append(MCase(cid, cls, src.encode(), None, ""))
    # run-time exception paths, one probe per raise site
    for cid, cls, src, meta in exception_path_cases():
        cases.append(MCase(cid, cls, src.encode(), None, "", meta))
    # entry functions with parameters, run with arguments owned by the host
    for cid, cls, src, opts, meta in entry_param_cases():
        cases.append(MCase(cid, cls, src.encode(), None, opts, meta))
    # foreign calls: every call shape x (normal | ffi_fail caught | unhandled | in a loop | missing library/symbol)
    try:
        lib = build_ffi_lib(workdir)
        progs = ffi_programs(lib)
    except common.BuildError as e:
        progs = []
        ctx.notes["ffi_family"] = "callee library not built: %s" % str(e)[:200]
    for nm, src in progs:
        cases.append(MCase("F." + nm, "ffi:" + nm.rsplit(".", 1)[1], src.encode()))
    for nm, src in RUNTIME_PROGRAMS:
        opts = ""
        if nm == "exit-out-of-memory-small":
            opts = "mem=100"
        cases.append(MCase("R." + nm, "runtime:" + nm, src.encode(), None, opts))
        cases.append(MCase("R." + nm + ".smallheap", "runtime:" + nm, src.encode(), None, "mem=300 stack=100"))
    return cases


INTENDED = {"reducer": "reducer-error", "enum-reducer": "reducer-error", "typecheck": "typecheck-error", "scanner": "parse-error",
            "parser": "parse-error"}


def error_path_matrix(cases, obs):
    """the (exit x type x context) distribution of the error-path family, with what each program actually did"""
    by_phase, exit_type, by_ctx, missed = {}, {}, {}, []
    n = 0
    for c in cases:
        if not c.cls.startswith("errpath:"):
            continue
        n += 1
        m = c.meta
        o = obs.get(c.id)
        verdict = judge(c, o)[0]
        oc = outcome_class(o) if o is not None else "no-record"
        reached = oc == INTENDED[m["phase"]] or (m["phase"] == "typecheck" and m["context"].startswith("enum-") and oc == "reducer-error")
        ph = by_phase.setdefault(m["phase"], {"programs": 0, "failed_in_the_intended_phase": 0, "monitor_verdicts": {}, "outcomes": {}})
        ph["programs"] += 1
        ph["failed_in_the_intended_phase"] += 1 if reached else 0
        ph["monitor_verdicts"][verdict] = ph["monitor_verdicts"].get(verdict, 0) + 1
        ph["outcomes"][oc] = ph["outcomes"].get(oc, 0) + 1
        if m["phase"] in ("reducer", "enum-reducer"):
            e = exit_type.setdefault("%s/%s" % (m["fault"], m["type"]), {"contexts": 0, "reducer-error": 0, "accepted_by_monitor": 0})
            e["contexts"] += 1
            e["reducer-error"] += 1 if reached else 0
            e["accepted_by_monitor"] += 1 if verdict == "ok" else 0
        cx = by_ctx.setdefault(m["context"], {"programs": 0, "failed_in_the_intended_phase": 0, "accepted_by_monitor": 0})
        cx["programs"] += 1
        cx["failed_in_the_intended_phase"] += 1 if reached else 0
        cx["accepted_by_monitor"] += 1 if verdict == "ok" else 0
        if not reached and len(missed) < 25:
            missed.append({"case": c.id, "outcome": oc, "first_output_line": ((o.out if o is not None else "") or "")[:100]})
    return {"programs": n, "rule": "one generated program per (error exit x operand type x syntactic context); exits = the 12 division-by-zero "
            "exits of constred.c (div: int long enum/enum int/enum enum/int float double; mod: int enum/enum int/enum enum/int long) reached "
            "directly / through a folded zero / below another operator / twice / below a conversion, the exits of enumred.c (div, mod, cyclic, "
            "not reducible, duplicate value, unsupported expression), 10 kinds of typechecker complaint, 9 lexical errors (4 of them the end of "
            "the input), 4 syntax errors", "by_phase": by_phase, "reducer_exit_x_type": exit_type, "by_context": by_ctx,
            "did_not_fail_in_the_intended_phase(first 25)": missed}


def lsan_second_opinion(ctx, cases, workdir, timeout):
    """The same inputs through nevrun on the ASan build with LeakSanitizer on."""
    drv = c05.private_copy(c05.build_driver("nevrun_dyn", ["common/nevrun.c"], "asan", extra="-rdynamic"), workdir)
    groups = {}
    for c in cases:
        groups.setdefault(c.path or "", []).append(c)
    jobs = []
    for path, cs in groups.items():
        per = max(1, min(400, (len(cs) + NPROC - 1) // NPROC))
        for k in range(0, len(cs), per):
            jobs.append((path, cs[k:k + per]))
    env0 = dict(os.environ)
    env0.update({"ASAN_OPTIONS": "detect_leaks=1:exitcode=97:allocator_may_return_null=1:symbolize=1:fast_unwind_on_malloc=0:malloc_context_size=8",
                 "UBSAN_OPTIONS": "print_stacktrace=1:halt_on_error=1"})
    res = {}
    running = []

    def reap(block):
        for it in list(running):
            p, op, bp, cs = it
            if block:
                try:
                    p.wait(timeout=timeout * len(cs) + 120)
                except subprocess.TimeoutExpired:
                    p.kill()
            if p.poll() is None:
                continue
            running.remove(it)
            text = open(op, "rb").read().decode("latin-1")
            os.unlink(op); os.unlink(bp)
            for m in re.finditer(r"@@BEGIN (\S+)\n(.*?)@@END \1 status=(\S+(?: \d+)?)", text, re.S):
                res[m.group(1)] = (m.group(3), m.group(2))

    for j, (path, cs) in enumerate(jobs):
        while len(running) >= NPROC:
            reap(False)
            time.sleep(0.02)
        bp = os.path.join(workdir, "ls%d.in" % j)
        op = os.path.join(workdir, "ls%d.out" % j)
        with open(bp, "wb") as f:
            for c in cs:
                f.write(b"@@@ %s %s\n" % (c.id.encode(), c.opts.encode()) + c.data + b"\n")
        env = dict(env0)
        env.pop("NEVER_PATH", None)
        if path:
            env["NEVER_PATH"] = path
        fo = open(op, "wb")
        p = subprocess.Popen([drv, "--batch", bp, "--timeout", str(timeout)], stdout=fo, stderr=subprocess.STDOUT, stdin=subprocess.DEVNULL,
                             env=env, cwd=workdir, preexec_fn=c05.limit_stack(8 << 20))
        fo.close()
        running.append((p, op, bp, cs))
    while running:
        reap(True)
    return res


def lsan_key(text):
    """key + summary from an ASan/LSan report in the child's output, or None"""
    m = re.search(r"ERROR: (LeakSanitizer): detected memory leaks(.*)", text, re.S)
    if m:
        body = m.group(2)
        fr = re.search(r"#\d+ 0x[0-9a-f]+ in (\S+) (?:/[^\s:]*/)?((?:front|back)/[^\s:]+):(\d+)", body)
        fn = fr.group(1) if fr else "unknown"
        return "lsan-leak:%s" % fn, "LeakSanitizer: leak of a block allocated in %s (%s:%s)" % (fn, fr.group(2) if fr else "?", fr.group(3) if fr else "?")
    m = re.search(r"ERROR: AddressSanitizer: (attempting double-free|heap-use-after-free|attempting free on address which was not malloc)", text)
    if m:
        kind = {"attempting double-free": "double-free", "heap-use-after-free": "use-after-free"}.get(m.group(1), "bad-free")
        fr = c05.first_repo_frame(text[m.start():].encode("latin-1"))
        fn = fr[0] if fr else "unknown"
        return "asan-%s:%s" % (kind, fn), "AddressSanitizer: %s in %s" % (kind, fn)
    return None


# ---------------------------------------------------------------------------------------------
def run(ctx):
    t0 = time.time()
    for old in glob.glob(os.path.join(ctx.outdir, "replay_*.json")):
        os.unlink(old)
    ctx.proofs()
    ctx.coverage["partial"] = PARTIAL_TEXT
    drv = c05.build_driver("memdrive_dyn", ["mem/memdrive.c"], "plain", extra=WRAP)
    workdir = tempfile.mkdtemp(prefix="nvc16.", dir="/var/tmp")
    try:
        drv = c05.private_copy(drv, workdir)
        mon = c05.get_ocaml(ctx, "mem", workdir)
        if mon is None:
            return
        _run(ctx, drv, mon, workdir, t0)
    finally:
        shutil.rmtree(workdir, ignore_errors=True)


def _run(ctx, drv, mon, workdir, t0):
    rng = random.Random(ctx.seed * 1000003 + 16)
    thorough = ctx.tier == "thorough"
    scale = 16.0 if thorough else 1.0
    if ctx.broken:
        scale *= 2
    timeout = 20 if thorough else 6
    sym = Symbolizer(drv)
    try:
        parser_y = open(os.path.join(common.REPO, "front", "parser.y")).read().split("\n")
    except OSError:
        parser_y = []
    if getattr(ctx, "replay", None):
        r = json.load(open(ctx.replay))
        inp = r.get("input", {})
        import base64
        data = base64.b64decode(inp["base64"]) if "base64" in inp and not str(inp["base64"]).startswith("(") else inp.get("text", "").encode("latin-1")
        cases = [MCase("replay", r.get("class", "replay"), data, r.get("never_path"), r.get("opts", ""))]
    else:
        cases = build_cases(ctx, rng, workdir, scale)
        gb = measure_gc_delete_bounds(common.REPO)
        ctx.coverage["gc_delete_loop_measured(Mem/GcDelete.v)"] = gb
        if gb is None:
            ctx.correspondence_broken("gc_delete-loop-not-measurable", "the loop of gc_delete in back/gc.c no longer has the shape of Mem/GcDelete.v")
        elif not (gb["lo"] <= 1 and gb["cut"] == 0):
            ctx.correspondence_broken("gc_delete-loop-bounds(Properties_C16b.gc_delete_bounds_complete)",
                                      {"measured": gb, "meaning": "hypothesis lo <= 1, cut = 0 fails; by gc_delete_cut_leaks a heap filled to the "
                                       "brim keeps the object of its last cell: the heap-size sweep looks for such a run"})
        hcases, heap_info = heap_sweep_cases(drv, mon, workdir, timeout)
        cases += hcases
    t_gen = time.time()
    obs = run_mem(drv, mon, cases, workdir, timeout=timeout)
    t_run = time.time()
    by_class, by_outcome, kinds = {}, {}, {}
    failing = []
    events_total = 0
    nontrivial = set()
    for c in cases:
        o = obs.get(c.id)
        k, detail = judge(c, o)
        cls = c.cls.split(":")[0]
        by_class.setdefault(cls, {}).setdefault(k, 0)
        by_class[cls][k] += 1
        kinds[k] = kinds.get(k, 0) + 1
        if o is not None:
            events_total += o.events
            oc = outcome_class(o) if "done" in o.phases else ("exit-no-teardown" if k == "exit-no-teardown" else k)
            by_outcome.setdefault(oc, {}).setdefault(k, 0)
            by_outcome[oc][k] += 1
            if k in ("ok", "leak", "reject", "hostmem") and o.events > 0:
                nontrivial.add(hashlib.sha1(c.data + (c.path or "").encode() + c.opts.encode()).digest())
        if k in ("leak", "reject", "hostmem"):
            failing.append((c, o, k))
        if k == "ok" and len(ctx.coverage["samples"]) < 5 and len(c.data) < 160 and c.cls.startswith(("runtime", "generated", "mutate")):
            ctx.sample({"class": c.cls, "input": c.data.decode("latin-1"), "outcome": o.outcome, "events": o.events, "monitor": o.monitor})
    ctx.count(evaluations=len(cases), nontrivial=len(nontrivial))
    ctx.coverage["error_paths_by_construct"] = error_path_matrix(cases, obs)
    ctx.coverage["run_time_exception_sites"] = exception_path_matrix(cases, obs, common.REPO)
    if not getattr(ctx, "replay", None):
        ctx.coverage["heap_size_sweep"] = heap_sweep_matrix(cases, obs, heap_info)
        ea = {}
        for c in cases:
            if c.cls.startswith("entry-args:"):
                e = ea.setdefault(c.cls.split(":", 1)[1], {"histories": 0, "verdicts": {}, "outcomes": {}})
                e["histories"] += 1
                v = judge(c, obs.get(c.id))[0]
                e["verdicts"][v] = e["verdicts"].get(v, 0) + 1
                oc = outcome_class(obs[c.id]) if obs.get(c.id) is not None else "no-record"
                e["outcomes"][oc] = e["outcomes"].get(oc, 0) + 1
        ctx.coverage["entry_parameters_owned_by_host"] = {
            "rule": "entries declaring every parameter kind an entry may have (int, float, string in any mix; one string array) x histories "
                    "(1..3 runs on a VM, 1..2 VMs, re-prepare before every run, nev_prepare_argc_argv or direct prog->params[]), arguments in "
                    "host buffers allocated outside the monitored bracket; oracle: monitor accept (a free of a host buffer is a free of an "
                    "unknown block), host buffers byte-identical afterwards, no leak", "shapes": ENTRY_SHAPES, "programs": ea}
    # attribution needs deeper stacks: failing cases are grouped by the cheap site (one return address),
    # the smallest of each group are re-run with backtrace() per allocation, and only those are keyed
    findings = {}
    unattributed = 0
    if failing:
        groups = {}
        for c, o, k in failing:
            cheap = tuple(x[0] for x in attribute(c, o, k, sym, parser_y))      # keys as far as one return address tells
            groups.setdefault((k, outcome_class(o), cheap), []).append((c, o, k))
        sub = []
        for gk, lst in groups.items():
            lst.sort(key=lambda t: len(t[0].data))
            sub += lst[:12]
            unattributed += max(0, len(lst) - 12)
        obs2 = run_mem(drv, mon, [c for c, _, _ in sub], workdir, timeout=timeout * 3, bt=True, tag="bt")
        done_groups = set()
        for c, o, k in sub:
            o2 = obs2.get(c.id)
            if o2 is None or judge(c, o2)[0] != k:
                unattributed += 1
                continue
            for key, desc in attribute(c, o2, k, sym, parser_y):
                findings.setdefault(key, []).append((c, o2, k, desc))
            done_groups.add((k, outcome_class(o), tuple(x[0] for x in attribute(c, o, k, sym, parser_y))))
        for gk, lst in groups.items():
            if gk not in done_groups:     # did not reproduce under --bt: keep the first-pass observation, cheap key
                c, o, k = lst[0]
                for key, desc in attribute(c, o, k, sym, parser_y):
                    findings.setdefault(key, []).append((c, o, k, desc))
    # a leaked token text whose place in the input could not be told (module text was scanned in between):
    # shrink such an input while it still loses a token text - the `use` lines go away - and key the result
    for key in [k for k in list(findings) if k.endswith(":token:position-unknown")]:
        lst = findings.pop(key)
        lst.sort(key=lambda t: len(t[0].data))
        resolved = False
        for c, o, k, desc in lst[:3]:
            def still(cands, c=c):
                cs = [MCase("u%d" % j, c.cls, d, c.path, c.opts) for j, d in enumerate(cands)]
                ob = run_mem(drv, mon, cs, workdir, timeout=timeout * 2, bt=True, tag="pu")
                return [judge(cc, ob.get(cc.id))[0] == "leak" and
                        any(":token:" in x[0] for x in attribute(cc, ob.get(cc.id), "leak", sym, parser_y)) for cc in cs]
            data, _ = c05.ddmin(c.data, still, budget_rounds=12)
            c2 = MCase(c.id + ".shrunk", c.cls, data, c.path, c.opts)
            o2 = run_mem(drv, mon, [c2], workdir, timeout=timeout * 2, bt=True, tag="pv").get(c2.id)
            if o2 is not None and judge(c2, o2)[0] == "leak":
                for key2, desc2 in attribute(c2, o2, "leak", sym, parser_y):
                    findings.setdefault(key2, []).append((c2, o2, "leak", desc2))
                    resolved = resolved or not key2.endswith("position-unknown")
            if resolved:
                break
        if not resolved:
            findings[key] = lst
    known = set(k.get("key") for k in ctx.known if k.get("status", "known") == "known")
    shrink_budget = 30 if thorough else 10
    for key in sorted(findings):
        lst = findings[key]
        c, o, k, desc = min(lst, key=lambda t: len(t[0].data))
        data, tested = c.data, 0
        kept = [x for x in lst if x[0].cls == "kept-corpus"]
        if kept:                      # an already minimised input from corpus/C16 reproduces it
            c, o, k, desc = min(kept, key=lambda t: len(t[0].data))
            data = c.data
        elif key not in known and shrink_budget > 0 and len(c.data) > 12 and not c.cls.startswith("use"):
            shrink_budget -= 1

            def test(cands, c=c, key=key, k=k):
                cs = [MCase("s%d" % j, c.cls, d, c.path, c.opts) for j, d in enumerate(cands)]
                ob = run_mem(drv, mon, cs, workdir, timeout=timeout * 2, bt=True, tag="sh")
                out = []
                for cc in cs:
                    oo = ob.get(cc.id)
                    kk, _ = judge(cc, oo)
                    out.append(kk == k and key in [x[0] for x in attribute(cc, oo, kk, sym, parser_y)])
                return out
            data, tested = c05.ddmin(c.data, test, budget_rounds=14 if thorough else 9)
        what = {"hostmem": "libnev freed (or wrote) memory that belongs to the host application: argument strings handed to "
                           "nev_prepare_argc_argv / prog->params[]",
                "leak": "blocks allocated by libnev code are still allocated after program_delete/vm_delete returned",
                "reject": "the allocation trace is not executable (double free / free of unknown block / realloc of dead block)"}[k]
        ctx.violation(key, "%s: %s; site: %s" % (what, o.monitor, (desc[0] if desc else "unknown")),
                      {"case": {"id": c.id, "class": c.cls, "meta": c.meta, "found_in_cases": len(lst), "shrink_runs": tested,
                                "original_length": len(c.data), "outcome": o.outcome, "phases": o.phases},
                       "input": c05.show_input(data), "class": c.cls, "opts": c.opts,
                       "never_path": (c.path if c.path and c.path.startswith(common.REPO) else None),
                       "expected": "extracted monitor: accept (every block allocated between program_new() and the return of program_delete() is freed "
                                   "exactly once; no free of a block that was not allocated on behalf of the program/VM; host buffers unchanged)",
                       "observed": {"monitor": o.monitor, "allocation_site": desc, "program_output": (o.out or "")[:400],
                                    "host_memory": o.host[:4], "vm_heap_before_vm_delete": o.heap[-3:]}})
    # second opinion: LeakSanitizer + ASan on the same inputs
    t_ls0 = time.time()
    lcases = [c for c in cases if not c.cls.startswith("nest-parser")]
    if not thorough:
        lcases = [c for i, c in enumerate(lcases) if c.cls.startswith(("runtime", "kept", "use", "corpus", "ffi", "errpath:reducer", "errpath:enum", "entry-args", "exc-site", "builtin", "string-op"))
                  or (i % 4 == 0 and not c.cls.startswith("owned-token")) or i % 8 == 0]
    ls = lsan_second_opinion(ctx, lcases, workdir, timeout)
    ls_counts = {"run": len(ls), "clean": 0, "leak": 0, "asan-error": 0, "other-abnormal": 0}
    lfind = {}
    mon_fail_ids = set(c.id for c, _, _ in failing)
    disagree = []
    for c in lcases:
        r = ls.get(c.id)
        if r is None:
            continue
        status, text = r
        kk = lsan_key(text)
        if kk is not None and kk[0].startswith("lsan-leak") and "@@OUTCOME" not in text:
            ls_counts["exit-no-teardown-not-judged"] = ls_counts.get("exit-no-teardown-not-judged", 0) + 1
            continue        # exit(1)/exit(2) inside libnev: program_delete/vm_delete were never reached
        if kk is None:
            if status in ("0", "1"):
                ls_counts["clean"] += 1
            else:
                ls_counts["other-abnormal"] += 1
            if c.id in mon_fail_ids and status == "0" and len(disagree) < 5:
                disagree.append({"case": c.id, "monitor": obs[c.id].monitor, "lsan": "clean"})
            continue
        ls_counts["leak" if kk[0].startswith("lsan-leak") else "asan-error"] += 1
        lfind.setdefault(kk[0], []).append((c, kk[1], text))
        if c.id not in mon_fail_ids and obs.get(c.id) is not None and judge(c, obs[c.id])[0] == "ok" and len(disagree) < 5:
            disagree.append({"case": c.id, "monitor": "accept", "lsan": kk[0]})
    ctx.count(evaluations=len(ls), nontrivial=0)
    for key in sorted(lfind):
        lst = lfind[key]
        c, what, text = min(lst, key=lambda t: len(t[0].data))
        if any(cc.id in mon_fail_ids for cc, _, _ in lst) and key.startswith("lsan-leak"):
            continue        # same leak already reported through the monitor with a better key
        i = text.find("ERROR: ")
        ctx.violation(key, what + " (second opinion: ASan/LSan build through nevrun)",
                      {"case": {"id": c.id, "class": c.cls, "found_in_cases": len(lst)}, "input": c05.show_input(c.data), "class": c.cls,
                       "opts": c.opts, "never_path": (c.path if c.path and c.path.startswith(common.REPO) else None),
                       "expected": "no LeakSanitizer / AddressSanitizer report", "observed": text[i:i + 2500]})
    ctx.coverage["rule"] = (
        "each input is compiled and (if it compiles and has main) run, then vm_delete and program_delete are called, in a forked child of "
        "memdrive (non-sanitized build, allocator entry points wrapped at link time); the event trace between program_new() and the return of "
        "program_delete() is judged by the monitor extracted from Coq. distinct_nontrivial = distinct inputs whose trace reached the end of "
        "program_delete with >=1 event. Runs ending in exit() inside libnev, signals and time-outs are counted, not judged.")
    ctx.coverage["classes"] = by_class
    ctx.coverage["by_outcome"] = by_outcome
    ctx.coverage["verdict_kinds"] = kinds
    ctx.coverage["events_judged_by_monitor"] = events_total
    ctx.coverage["lsan_second_opinion"] = ls_counts
    ctx.coverage["monitor_vs_lsan_disagreements"] = disagree
    ctx.coverage["distinct_failure_mechanisms"] = sorted(findings) + sorted(lfind)
    ctx.coverage["timeouts_first"] = [{"case": c.id, "class": c.cls, "input": c.data[:300].decode("latin-1")}
                                      for c in cases if obs.get(c.id) is not None and obs[c.id].status == "timeout"][:4]
    ctx.coverage["failing_traces"] = {"total": len(failing), "not_re-run_for_attribution": unattributed}
    ctx.coverage["timing_s"] = {"proofs+builds+generate": round(t_gen - t0, 1), "memdrive+monitor": round(t_run - t_gen, 1),
                                "attribute+shrink": round(t_ls0 - t_run, 1), "lsan": round(time.time() - t_ls0, 1), "total": round(time.time() - t0, 1)}
