"""Generator of the C13 family: tail-recursive Never functions, their equivalent while loops,
non-tail variants, the shape of every generated function for the extracted model of
front/tailrec.c (Src/Tailrec.v, harness/ocaml/tailrec/tailrun.ml) and a python reference
evaluation (closed form by direct interpretation of the same tree).

One tree (classes below) is the single source of: the program text (src), the shape handed to
the model (shape; child numbering = `children` of Src/Tailrec.v), the reference value (ev / tev)
and the while-loop version (wsrc).  Every call of a generated function passes a unique literal
TAG as first argument, which identifies the call site in the emitted code
(`... INT <tag>; <callee>; [SLIDE q m;] CALL`).

Unverified glue (DESIGN.md §8)."""
import math
import random

TAG0 = 7000000


class NvExc(Exception):
    def __init__(self, name):
        self.name = name


class Cx:
    """per-program context: identifier numbering, call-site registry"""

    def __init__(self):
        self.ids = {}
        self.calls = {}      # tag -> dict(func=key, path=str, form=...)
        self.func = None

    def id(self, name):
        if name not in self.ids:
            self.ids[name] = len(self.ids) + 1
        return self.ids[name]


def pstr(path):
    return ".".join(str(i) for i in path) if path else "e"


class E:
    atomic = False

    def tev(self, env):
        return ("ret", self.ev(env))

    def wsrc(self, fn):
        """statement form inside the while loop, for a tail position holding a result"""
        return "{ res = %s; done = 1; 0 }" % self.src()

    def sig(self):
        return "x"


def par(e, path):
    """operand: source and shape, parenthesised (EXPR_SUP) unless atomic"""
    if e.atomic:
        return e.src(), (lambda cx: e.shape(cx, path))
    return "(" + e.src() + ")", (lambda cx: "(S %s)" % e.shape(cx, path + [0]))


class Lit(E):
    atomic = True

    def __init__(self, v, ty="int"):
        self.v, self.ty = v, ty

    def src(self):
        if self.ty == "string":
            return '"%s"' % self.v
        if self.ty == "float":
            return repr(float(self.v))
        return str(self.v)

    def shape(self, cx, path):
        return "L"

    def ev(self, env):
        return self.v


class Var(E):
    atomic = True

    def __init__(self, name):
        self.name = name

    def src(self):
        return self.name

    def shape(self, cx, path):
        return "(I %d)" % cx.id(self.name)

    def ev(self, env):
        return env[self.name]


class Bin(E):
    def __init__(self, op, a, b):
        self.op, self.a, self.b = op, a, b

    def src(self):
        return "%s %s %s" % (par(self.a, [])[0], self.op, par(self.b, [])[0])

    def shape(self, cx, path):
        return "(O %s %s)" % (par(self.a, path + [0])[1](cx), par(self.b, path + [1])[1](cx))

    def ev(self, env):
        a, b = self.a.ev(env), self.b.ev(env)
        op = self.op
        if op == "+":
            return a + b
        if op == "-":
            return a - b
        if op == "*":
            return a * b
        if op == "%":
            if b == 0:
                raise NvExc("division_by_zero")
            return int(math.fmod(a, b))
        if op == "/":
            if b == 0:
                raise NvExc("division_by_zero")
            return int(a / b)
        return {"==": a == b, "!=": a != b, "<": a < b, ">": a > b, "<=": a <= b, ">=": a >= b}[op]


class Fld(E):
    atomic = True

    def __init__(self, rec, fld):
        self.rec, self.fld = rec, fld

    def src(self):
        return "%s.%s" % (self.rec, self.fld)

    def shape(self, cx, path):
        return "(O (I %d))" % cx.id(self.rec)

    def ev(self, env):
        return env[self.rec][0 if self.fld == "x" else 1]


class Idx(E):
    atomic = True

    def __init__(self, arr, i):
        self.arr, self.i = arr, i

    def src(self):
        return "%s[%s]" % (self.arr, self.i.src())

    def shape(self, cx, path):
        return "(O (I %d) %s)" % (cx.id(self.arr), self.i.shape(cx, path + [1]))

    def ev(self, env):
        return env[self.arr][self.i.ev(env)]


class RecNew(E):
    atomic = True

    def __init__(self, a, b):
        self.a, self.b = a, b

    def src(self):
        return "P(%s, %s)" % (self.a.src(), self.b.src())

    def shape(self, cx, path):
        return "(K (I %d) %s %s)" % (cx.id("P"), self.a.shape(cx, path + [1]), self.b.shape(cx, path + [2]))

    def ev(self, env):
        return (self.a.ev(env), self.b.ev(env))


class HCall(E):
    """call of a helper (never the function under test)"""
    atomic = True

    def __init__(self, name, args, fn):
        self.name, self.args, self.fn = name, args, fn

    def src(self):
        return "%s(%s)" % (self.name, ", ".join(a.src() for a in self.args))

    def shape(self, cx, path):
        return "(K (I %d) %s)" % (cx.id(self.name),
                                  " ".join(a.shape(cx, path + [i + 1]) for i, a in enumerate(self.args)))

    def ev(self, env):
        return self.fn(*[a.ev(env) for a in self.args])


class CondE(E):
    """c ? a : b used as an operand (always parenthesised by par)"""

    def __init__(self, c, a, b):
        self.c, self.a, self.b = c, a, b

    def src(self):
        return "%s ? %s : %s" % (par(self.c, [])[0], par(self.a, [])[0], par(self.b, [])[0])

    def shape(self, cx, path):
        return "(C %s %s %s)" % (par(self.c, path + [0])[1](cx), par(self.a, path + [1])[1](cx),
                                 par(self.b, path + [2])[1](cx))

    def ev(self, env):
        return self.a.ev(env) if self.c.ev(env) else self.b.ev(env)


# ------------------------------------------------------------------ tail-structure nodes

class SelfCall(E):
    """call of a generated function `callee` (the enclosing one unless stated) with a fresh tag"""

    @property
    def atomic(self):
        return self.form != "pipe"

    def __init__(self, fn, tag, args, form="direct", callee=None, k=1):
        self.fn, self.tag, self.args, self.form, self.callee = fn, tag, args, form, callee
        self.k = k          # pipe form: number of piped components (the tag + k-1 arguments); 1 = scalar

    def target(self):
        return self.callee or self.fn

    def src(self):
        name = self.target().name
        a = [x.src() for x in self.args]
        if self.form == "pipe" and self.k > 1:
            tys = ["int"] + [TUPTY[t] for _, t in self.target().params[:self.k - 1]]
            return "(%s) : (%s) |> %s(%s)" % (", ".join([str(self.tag)] + a[:self.k - 1]), ", ".join(tys),
                                              name, ", ".join(a[self.k - 1:]))
        if self.form == "pipe":
            return "%d |> %s(%s)" % (self.tag, name, ", ".join(a))
        if self.form == "paren":
            return "(%s)(%s)" % (name, ", ".join([str(self.tag)] + a))
        return "%s(%s)" % (name, ", ".join([str(self.tag)] + a))

    def shape(self, cx, path):
        name = self.target().name
        cx.calls[self.tag] = {"func": cx.func, "path": pstr(path), "form": self.form + (str(self.k) if self.form == "pipe" else ""),
                              "callee": name}
        if self.form == "pipe" and self.k > 1:
            k = self.k
            tup = "(O L %s)" % " ".join(a.shape(cx, path + [0, i + 1]) for i, a in enumerate(self.args[:k - 1]))
            return "(P %s (I %d) %s)" % (tup, cx.id(name), " ".join(
                a.shape(cx, path + [i + 2]) for i, a in enumerate(self.args[k - 1:])))
        if self.form == "pipe":
            return "(P L (I %d) %s)" % (cx.id(name), " ".join(
                a.shape(cx, path + [i + 2]) for i, a in enumerate(self.args)))
        f = "(I %d)" % cx.id(name)
        if self.form == "paren":
            f = "(S %s)" % f
        return "(K %s L %s)" % (f, " ".join(a.shape(cx, path + [i + 2]) for i, a in enumerate(self.args)))

    def argvals(self, env):
        # call arguments are evaluated right to left; our expressions are pure, order is immaterial
        return [a.ev(env) for a in self.args]

    def ev(self, env):
        return self.target().run(self.argvals(env))

    def tev(self, env):
        if self.callee is not None and self.callee is not self.fn:
            return ("ret", self.ev(env))
        return ("call", self.argvals(env))

    def wsrc(self, fn):
        ps = fn.params
        lets, asg = [], []
        for (pn, pt), a in zip(ps, self.args):
            if isinstance(a, Var) and a.name == pn:
                continue            # passed through unchanged
            lets.append("let nx_%s = %s" % (pn, fresh(a.src(), pt)))
            asg.append("%s = nx_%s" % (pn, pn))
        return "{ " + "; ".join(lets + asg + ["0"]) + " }"

    def sig(self):
        return {"direct": "call", "pipe": "pipe%d" % self.k, "paren": "parencall"}[self.form]


def fresh(src, ty):
    """an expression that evaluates to a NEW cell with the value of src (let aliases cells)"""
    if ty == "int":
        return "(%s) + 0" % src
    if ty == "float":
        return "(%s) + 0.0" % src
    if ty == "string":
        return '(%s) + ""' % src
    return src


class CondN(E):
    def __init__(self, style, c, a, b, para=False, parb=False):
        self.style, self.c, self.a, self.b, self.para, self.parb = style, c, a, b, para, parb

    def _br(self, e, p):
        return True if not e.atomic else p

    def src(self):
        if self.style == "q":
            a = "(%s)" % self.a.src() if self._br(self.a, self.para) else self.a.src()
            b = "(%s)" % self.b.src() if self._br(self.b, self.parb) else self.b.src()
            return "%s ? %s : %s" % (par(self.c, [])[0], a, b)
        return "if (%s) %s else %s" % (self.c.src(), braces(self.a), braces(self.b))

    def shape(self, cx, path):
        c = par(self.c, path + [0])[1](cx) if self.style == "q" else self.c.shape(cx, path + [0])
        if self.style == "q":
            a = ("(S %s)" % self.a.shape(cx, path + [1, 0])) if self._br(self.a, self.para) else self.a.shape(cx, path + [1])
            b = ("(S %s)" % self.b.shape(cx, path + [2, 0])) if self._br(self.b, self.parb) else self.b.shape(cx, path + [2])
        else:
            a, b = braces_shape(self.a, cx, path + [1]), braces_shape(self.b, cx, path + [2])
        return "(C %s %s %s)" % (c, a, b)

    def ev(self, env):
        return (self.a if self.c.ev(env) else self.b).ev(env)

    def tev(self, env):
        return (self.a if self.c.ev(env) else self.b).tev(env)

    def wsrc(self, fn):
        return "if (%s) %s else %s" % (self.c.src(), self.a.wsrc(fn), self.b.wsrc(fn))

    def sig(self):
        return "%s(%s,%s)" % ("q" if self.style == "q" else "if", self.a.sig(), self.b.sig())


def braces(e):
    return e.src() if isinstance(e, BlockN) else "{ %s }" % e.src()


def braces_shape(e, cx, path):
    return e.shape(cx, path) if isinstance(e, BlockN) else "(Q (E %s))" % e.shape(cx, path + [0])


class BlockN(E):
    """{ let d = e; ...; tail }   items: ('let'|'var', name, ty, expr) or ('func', FuncSpec)"""
    atomic = True

    def __init__(self, items, tail):
        self.items, self.tail = items, tail

    def src(self):
        out = []
        for it in self.items:
            if it[0] == "func":
                out.append(it[1].src())
            elif it[0] == "expr":
                out.append(it[1].src())
            else:
                out.append("%s %s = %s" % (it[0], it[1], it[3].src()))
        out.append(self.tail.src())
        return "{ " + "; ".join(out) + " }"

    def shape(self, cx, path):
        out = []
        for i, it in enumerate(self.items):
            if it[0] == "func":
                out.append("(G %d)" % cx.id(it[1].name))
            elif it[0] == "expr":
                out.append("(E %s)" % it[1].shape(cx, path + [i]))
            else:
                out.append("(B %d %s)" % (cx.id(it[1]), it[3].shape(cx, path + [i])))
        out.append("(E %s)" % self.tail.shape(cx, path + [len(self.items)]))
        return "(Q %s)" % " ".join(out)

    def _env(self, env):
        env = dict(env)
        for it in self.items:
            if it[0] == "expr":
                it[1].ev(env)
            elif it[0] != "func":
                env[it[1]] = it[3].ev(env)
        return env

    def ev(self, env):
        return self.tail.ev(self._env(env))

    def tev(self, env):
        return self.tail.tev(self._env(env))

    def wsrc(self, fn):
        out = ["%s %s = %s" % (it[0], it[1], it[3].src()) for it in self.items if it[0] not in ("func", "expr")]
        return "{ " + "; ".join(out + [self.tail.wsrc(fn)]) + " }"

    def sig(self):
        return "blk%d(%s)" % (len(self.items), self.tail.sig())


class SupN(E):
    atomic = True

    def __init__(self, e):
        self.e = e

    def src(self):
        return "(%s)" % self.e.src()

    def shape(self, cx, path):
        return "(S %s)" % self.e.shape(cx, path + [0])

    def ev(self, env):
        return self.e.ev(env)

    def tev(self, env):
        return self.e.tev(env)

    def wsrc(self, fn):
        return self.e.wsrc(fn)

    def sig(self):
        return "sup(%s)" % self.e.sig()


SEL = ["A", "B", "C"]


class MatchN(E):
    """match scrut { pat -> e; ... }  arms: (ctor | None for else, binders, node, brace)
       kind 'sel': scrut evaluates to 0..2 ; kind 'opt': scrut evaluates to None | (v, w)"""
    atomic = True

    def __init__(self, kind, scrut, arms):
        self.kind, self.scrut, self.arms = kind, scrut, arms

    def _pat(self, ctor, binders):
        if ctor is None:
            return "else"
        en = "Sel" if self.kind == "sel" else "Opt"
        return "%s::%s%s" % (en, ctor, "(%s)" % ", ".join(binders) if binders else "")

    def src(self):
        out = []
        for ctor, binders, node, brace in self.arms:
            out.append("%s -> %s;" % (self._pat(ctor, binders), braces(node) if brace else node.src()))
        return "match %s { %s }" % (self.scrut.src(), " ".join(out))

    def shape(self, cx, path):
        out = []
        for i, (ctor, binders, node, brace) in enumerate(self.arms):
            sh = braces_shape(node, cx, path + [i + 1]) if brace else node.shape(cx, path + [i + 1])
            out.append("(A (%s) %s)" % (" ".join(str(cx.id(b)) for b in binders), sh))
        return "(M %s %s)" % (self.scrut.shape(cx, path + [0]), " ".join(out))

    def _pick(self, env):
        v = self.scrut.ev(env)
        for ctor, binders, node, brace in self.arms:
            if ctor is None:
                return node, env
            if self.kind == "sel" and SEL[v] == ctor:
                return node, env
            if self.kind == "opt":
                if ctor == "None" and v is None:
                    return node, env
                if ctor == "Some" and v is not None:
                    e2 = dict(env)
                    for b, x in zip(binders, v):
                        e2[b] = x
                    return node, e2
        raise NvExc("no-arm")

    def ev(self, env):
        node, e2 = self._pick(env)
        return node.ev(e2)

    def tev(self, env):
        node, e2 = self._pick(env)
        return node.tev(e2)

    def wsrc(self, fn):
        out = ["%s -> %s;" % (self._pat(c, b), n.wsrc(fn)) for c, b, n, _ in self.arms]
        return "match %s { %s }" % (self.scrut.src(), " ".join(out))

    def sig(self):
        return "match_%s(%s)" % (self.kind, ",".join(("B" if b else "") + n.sig() for _, _, n, b in self.arms))


class IfLetN(E):
    """if let (Opt::Some(v, w) = scrut) A else B   /   if let (Sel::A = scrut) A else B"""

    def __init__(self, kind, ctor, binders, scrut, a, b, bra=True, brb=True):
        self.kind, self.ctor, self.binders, self.scrut, self.a, self.b = kind, ctor, binders, scrut, a, b
        simple = lambda e: isinstance(e, (SelfCall, SupN, BlockN, Var, Lit)) and e.atomic
        self.bra, self.brb = bra or not simple(a), brb or not simple(b)

    def _pat(self):
        en = "Sel" if self.kind == "sel" else "Opt"
        return "%s::%s%s" % (en, self.ctor, "(%s)" % ", ".join(self.binders) if self.binders else "")

    def src(self):
        a = braces(self.a) if self.bra else self.a.src()
        b = braces(self.b) if self.brb else self.b.src()
        return "if let (%s = %s) %s else %s" % (self._pat(), self.scrut.src(), a, b)

    def shape(self, cx, path):
        a = braces_shape(self.a, cx, path + [1]) if self.bra else self.a.shape(cx, path + [1])
        b = braces_shape(self.b, cx, path + [2]) if self.brb else self.b.shape(cx, path + [2])
        return "(T (%s) %s %s %s)" % (" ".join(str(cx.id(x)) for x in self.binders),
                                      self.scrut.shape(cx, path + [0]), a, b)

    def _pick(self, env):
        v = self.scrut.ev(env)
        if self.kind == "sel":
            return (self.a, env) if SEL[v] == self.ctor else (self.b, env)
        if self.ctor == "None":
            return (self.a, env) if v is None else (self.b, env)
        if v is None:
            return self.b, env
        e2 = dict(env)
        for b, x in zip(self.binders, v):
            e2[b] = x
        return self.a, e2

    def ev(self, env):
        n, e2 = self._pick(env)
        return n.ev(e2)

    def tev(self, env):
        n, e2 = self._pick(env)
        return n.tev(e2)

    def wsrc(self, fn):
        return "if let (%s = %s) %s else %s" % (self._pat(), self.scrut.src(), self.a.wsrc(fn), self.b.wsrc(fn))

    def sig(self):
        return "iflet_%s%s(%s,%s)" % (self.kind, "" if self.bra else "_bare", self.a.sig(), self.b.sig())


class Raw(E):
    """an operand context around one node: prefix + node + suffix (non-tail position)"""

    def __init__(self, kind, node, helper=None):
        self.kind, self.node, self.helper = kind, node, helper

    def src(self):
        n = par(self.node, [])[0]
        if self.kind == "plus":
            return "0 + %s" % n
        if self.kind == "arg":
            return "idf(%s)" % n
        if self.kind == "neg":
            return "0 - (0 - %s)" % n
        if self.kind == "bnot":
            return "~~~(~~~ %s)" % n
        if self.kind == "bnot1":
            return "~~~ %s" % n
        raise ValueError(self.kind)

    def shape(self, cx, path):
        if self.kind == "plus":
            return "(O L %s)" % par(self.node, path + [1])[1](cx)
        if self.kind == "arg":
            return "(K (I %d) %s)" % (cx.id("idf"), par(self.node, path + [1])[1](cx))
        if self.kind == "neg":
            return "(O L (S (O L %s)))" % par(self.node, path + [1, 0, 1])[1](cx)
        if self.kind == "bnot":
            # the operand of a unary operator is not a tail position (front/tailrec.c EXPR_BIN_NOT / EXPR_NOT)
            return "(O (S (O %s)))" % par(self.node, path + [0, 0, 0])[1](cx)
        if self.kind == "bnot1":
            return "(O %s)" % par(self.node, path + [0])[1](cx)
        raise ValueError(self.kind)

    def ev(self, env):
        v = self.node.ev(env)
        return (-v - 1) if self.kind == "bnot1" else v

    def sig(self):
        return "%s[%s]" % (self.kind, self.node.sig())


# ------------------------------------------------------------------ functions and programs

TUPTY = {"int": "int", "float": "float", "string": "string", "rec": "P"}
TYSRC = {"int": "%s : int", "float": "%s : float", "string": "%s : string", "rec": "%s : P",
         "arr": "%s[D] : int"}


class FuncSpec:
    def __init__(self, name, params):
        self.name, self.params = name, params      # params without the leading tag
        self.body = None
        self.catches = []                          # (exception name | None, expr)
        self.captured = {}                         # name -> value (nested functions)
        self.tagged = True

    def header(self, name=None, suffix=""):
        ps = (["t : int"] if self.tagged else []) + [TYSRC[t] % (n + suffix) for n, t in self.params]
        return "func %s(%s) -> int" % (name or self.name, ", ".join(ps))

    def src(self):
        s = "%s\n%s" % (self.header(), braces(self.body))
        for ex, e in self.catches:
            s += "\ncatch %s{ %s }" % ("(%s) " % ex if ex else "", e.src())
        return s

    def shape(self, cx, key):
        cx.func = key
        return braces_shape(self.body, cx, [])

    def run(self, args):
        while True:
            env = dict(self.captured)
            for (n, _), v in zip(self.params, args):
                env[n] = v
            try:
                r = self.body.tev(env)
            except NvExc as ex:
                for name, e in self.catches:
                    if name is None or name == ex.name:
                        return e.ev(env)
                raise
            if r[0] == "ret":
                return r[1]
            args = r[1]

    def wsrc(self):
        """the equivalent while loop: parameters become mutable variables, a tail call becomes a
        simultaneous assignment, a result ends the loop"""
        out = ["%s\n{" % self.header(self.name + "_w", "0").replace("t : int, ", "").replace("(t : int)", "()")]
        for n, t in self.params:
            if t == "arr":
                out.append("    let %s = %s0;" % (n, n))
            elif t == "rec":
                out.append("    var %s = P(%s0.x + 0, %s0.y + 0);" % (n, n, n))
            else:
                out.append("    var %s = %s;" % (n, fresh(n + "0", t)))
        out.append("    var done = 0; var res = 0;")
        out.append("    while (done == 0) %s;" % braces_w(self.body, self))
        out.append("    res\n}")
        return "\n".join(out)


def braces_w(e, fn):
    s = e.wsrc(fn)
    return s if s.startswith("{") else "{ %s }" % s


PRELUDE = """record P { x : int; y : int; }
enum Sel { A, B, C }
enum Opt { Some { v : int; w : int; }, None }
func sel(n : int) -> Sel { n % 3 == 0 ? Sel::A : (n % 3 == 1 ? Sel::B : Sel::C) }
func pick(n : int) -> Opt { n % 4 == 0 ? Opt::None : Opt::Some(n % 7, 2) }
func idf(x : int) -> int { x }
"""


def py_sel(n):
    return n % 3


def py_pick(n):
    return None if n % 4 == 0 else (n % 7, 2)


INIT = {"int": (Lit(1), 1), "float": (Lit(0.5, "float"), 0.5), "string": (Lit("ab", "string"), "ab"),
        "rec": (RecNew(Lit(1), Lit(2)), (1, 2)), "arr": (None, [3, 1, 4, 1, 5])}
ARR_SRC = "[ 3, 1, 4, 1, 5 ] : int"


class Program:
    """one generated case: a function under test (+ optional wrapper / sibling), main(n, w)"""

    def __init__(self, kind, shape_id):
        self.kind = kind                 # 'tail' | 'nontail' | 'mutual' | 'skipped'
        self.shape_id = shape_id
        self.fn = None                   # the function under test
        self.extra = []                  # further generated top-level functions (FuncSpec)
        self.wrapper = None              # (name, params-src, prelude items, inner FuncSpec) for nested functions
        self.has_loop = True
        self.cx = Cx()
        self.main_tag = None
        self.nested = []                 # nested generated functions (shapes only)
        self.grows = True                # non-tail kinds: the stack must grow with N
        self.note = ""

    def init_args(self, nexpr):
        src, val = [], []
        for n, t in self.fn.params:
            if n == "n":
                src.append(nexpr)
                val.append(None)
            elif t == "arr":
                src.append("arr0")
                val.append(INIT["arr"][1])
            else:
                src.append(INIT[t][0].src())
                val.append(INIT[t][1])
        return src, val

    def text(self):
        fn = self.fn
        out = [PRELUDE]
        args, _ = self.init_args("n")
        call = "%s(%s)" % (fn.name, ", ".join([str(self.main_tag)] + args))
        if self.wrapper:
            wname, items = self.wrapper
            fsrc = fn.src().replace("\n", "\n    ")
            if getattr(self, "letbound", False):
                # the function under test is a named function expression bound by let / var and called through
                # the binding (front/tailrec.c bind_tailrec descends into initialisers)
                fsrc = "%s %sv = let %s" % (self.letbound, fn.name, fsrc)
                call = "%sv(%s)" % (fn.name, ", ".join([str(self.main_tag)] + args))
            out.append("func %s(n : int, kk : int) -> int\n{\n    let arr0 = %s;\n    %s\n    %s;\n    %s\n}\n" % (
                wname, ARR_SRC, "".join("let %s = %s;\n    " % (a, b) for a, b in items), fsrc, call))
            for e in self.extra:
                out.append(e.src() + "\n")
            if self.has_loop:
                out.append("func %s_wdrv(n : int, kk : int) -> int\n{\n    let arr0 = %s;\n    %s\n    %s;\n    %s\n}\n" % (
                    wname, ARR_SRC, "".join("let %s = %s;\n    " % (a, b) for a, b in items),
                    fn.wsrc().replace("\n", "\n    "), "%s_w(%s)" % (fn.name, ", ".join(args))))
                out.append("func main(n : int, w : int) -> int\n{\n    w == 0 ? %s(n, 3) : %s_wdrv(n, 3)\n}\n" % (wname, wname))
            else:
                out.append("func main(n : int, w : int) -> int\n{\n    %s(n, 3)\n}\n" % wname)
        else:
            out.append(fn.src() + "\n")
            for e in self.extra:
                out.append(e.src() + "\n")
            if self.has_loop:
                out.append(fn.wsrc() + "\n")
                out.append("func main(n : int, w : int) -> int\n{\n    let arr0 = %s;\n    w == 0 ? %s : %s_w(%s)\n}\n" % (
                    ARR_SRC, call, fn.name, ", ".join(args)))
            else:
                out.append("func main(n : int, w : int) -> int\n{\n    let arr0 = %s;\n    %s\n}\n" % (ARR_SRC, call))
        return "\n".join(out)

    def shapes(self):
        """[(key, name id | '-', shape)] for every generated function, and the call registry"""
        res = []
        for f in [self.fn] + self.extra:
            sh = f.shape(self.cx, f.name)
            res.append((f.name, self.cx.id(f.name), sh))
        for f in self.nested:
            sh = f.shape(self.cx, f.name + "/inner")
            res.append((f.name + "/inner", self.cx.id(f.name), sh))
        return res

    def expected(self, n):
        _, val = self.init_args("n")
        val = [n if v is None else v for v in val]
        return self.fn.run(val)


# ------------------------------------------------------------------ random construction

class Gen:
    def __init__(self, rng):
        self.rng = rng
        self.tag = TAG0
        self.force_pipe = None      # k: every recursive call of the program is a pipe of k components

    def newtag(self):
        self.tag += 1
        return self.tag

    def params(self):
        """n and acc always; up to four more of several types (1..6 besides the tag)"""
        rng = self.rng
        ps = [("n", "int")]
        if rng.random() < 0.93:
            ps.append(("acc", "int"))
        pool = [("k", "int"), ("f", "float"), ("s", "string"), ("r", "rec"), ("a", "arr")]
        rng.shuffle(pool)
        ps += sorted(pool[:rng.choice([0, 0, 1, 1, 2, 3, 4])], key=lambda p: p[0])
        rng.shuffle(ps)
        return ps

    def term(self, fn, local_ints):
        """an int term over what is in scope"""
        rng = self.rng
        names = dict(fn.params)
        cand = [Var("n"), Lit(rng.randint(1, 9))]
        if "k" in names:
            cand.append(Var("k"))
        if "r" in names:
            cand += [Fld("r", "x"), Fld("r", "y")]
        if "a" in names:
            cand.append(Idx("a", Bin("%", Var("n"), Lit(5))))
        for v in local_ints:
            cand += [Var(v), Var(v)]
        for v in fn.captured:
            cand.append(Var(v))
        t = rng.choice(cand)
        if rng.random() < 0.4:
            t = Bin("*", t, Lit(rng.randint(2, 5)))
        return t

    def args(self, fn, local_ints):
        """the arguments of one recursive call: n - 1, the accumulators advanced"""
        rng = self.rng
        out = []
        for n, t in fn.params:
            if n == "n":
                out.append(Bin("-", Var("n"), Lit(1)))
            elif n == "acc":
                out.append(Bin("%", Bin("+", Var("acc"), self.term(fn, local_ints)), Lit(rng.choice([9973, 7919, 10007]))))
            elif n == "k":
                out.append(Var("k"))
            elif t == "float":
                out.append(Bin("+", Var("f"), Lit(rng.choice([0.5, 1.5, 2.0]), "float")))
            elif t == "string":
                out.append(Var("s") if rng.random() < 0.5 else
                           CondE(Bin("==", Var("s"), Lit("ab", "string")), Lit("cd", "string"), Lit("ab", "string")))
            elif t == "rec":
                out.append(RecNew(Fld("r", "y"), Bin("%", Bin("+", Fld("r", "x"), self.term(fn, local_ints)), Lit(97))))
            else:
                out.append(Var(n))
        return out

    def base(self, fn):
        names = dict(fn.params)
        e = Var("acc") if "acc" in names else Lit(17)
        if "k" in names:
            e = Bin("+", e, Var("k"))
        if "f" in names:
            e = Bin("+", e, CondE(Bin(">", Var("f"), Lit(20000.0, "float")), Lit(100), Lit(200)))
        if "s" in names:
            e = Bin("+", e, CondE(Bin("==", Var("s"), Lit("ab", "string")), Lit(5), Lit(9)))
        if "r" in names:
            e = Bin("+", e, Bin("+", Bin("*", Fld("r", "x"), Lit(3)), Fld("r", "y")))
        if "a" in names:
            e = Bin("+", e, Idx("a", Lit(2)))
        for v in fn.captured:
            e = Bin("+", e, Var(v))
        return e

    def cond(self, fn):
        rng = self.rng
        m = rng.choice([2, 3, 5])
        c = Bin("==", Bin("%", Var("n"), Lit(m)), Lit(rng.randrange(m)))
        if "acc" in dict(fn.params) and rng.random() < 0.3:
            c = Bin("==", Bin("%", Var("acc"), Lit(2)), Lit(0))
        return c

    def max_k(self, fn):
        """the tag plus the leading parameters that can be tuple components"""
        k = 1
        for _, t in fn.params:
            if t not in TUPTY or k >= 4:
                break
            k += 1
        return k

    def call(self, fn, local_ints, allow_pipe=True):
        form, k = "direct", 1
        if self.force_pipe is not None:
            form, k = "pipe", min(self.force_pipe, self.max_k(fn))
        elif allow_pipe and self.rng.random() < 0.25:
            form, k = "pipe", self.rng.randint(1, self.max_k(fn))
        return SelfCall(fn, self.newtag(), self.args(fn, local_ints), form, k=k)

    def tail(self, fn, depth, local_ints, forms=None):
        """a tree whose leaves are tail self calls"""
        rng = self.rng
        forms = forms or ["call", "call", "condq", "condif", "block", "sup", "matchsel", "matchopt", "iflet", "ifletsel"]
        k = rng.choice(forms) if depth > 0 else "call"
        sub = lambda li=local_ints: self.tail(fn, depth - 1, li, forms)
        if k == "call":
            return self.call(fn, local_ints)
        if k == "condq":
            return CondN("q", self.cond(fn), sub(), sub(), rng.random() < 0.5, rng.random() < 0.5)
        if k == "condif":
            return CondN("if", self.cond(fn), sub(), sub())
        if k == "block":
            nl = rng.randint(1, 4)
            items, li = [], list(local_ints)
            for _ in range(nl):
                name = "d%d" % (len(li) + 1 + rng.randint(0, 0))
                while name in li:
                    name += "x"
                items.append((rng.choice(["let", "let", "var"]), name, "int",
                              Bin("%", Bin("+", self.term(fn, li), Lit(rng.randint(1, 50))), Lit(101))))
                li.append(name)
            return BlockN(items, sub(li))
        if k == "sup":
            return SupN(sub())
        if k == "matchsel":
            arms = [(c, [], sub(), rng.random() < 0.5) for c in SEL]
            if rng.random() < 0.4:
                arms[2] = (None, [], arms[2][2], arms[2][3])
            return MatchN("sel", HCall("sel", [Var("n")], py_sel), arms)
        if k == "matchopt":
            bs = ["v", "w"] if "v" not in local_ints else ["v2", "w2"]
            if bs[0] in local_ints:
                return self.call(fn, local_ints)
            li2 = list(local_ints) + bs
            return MatchN("opt", HCall("pick", [Var("n")], py_pick),
                          [("Some", bs, self.tail(fn, depth - 1, li2, forms), rng.random() < 0.5),
                           ("None", [], sub(), rng.random() < 0.5)])
        if k == "iflet":
            bs = ["v", "w"] if "v" not in local_ints else ["v2", "w2"]
            if bs[0] in local_ints:
                return self.call(fn, local_ints)
            return IfLetN("opt", "Some", bs, HCall("pick", [Var("n")], py_pick),
                          self.tail(fn, depth - 1, list(local_ints) + bs, forms), sub(),
                          rng.random() < 0.6, rng.random() < 0.6)
        if k == "ifletsel":
            return IfLetN("sel", rng.choice(SEL), [], HCall("sel", [Var("n")], py_sel), sub(), sub(),
                          rng.random() < 0.6, rng.random() < 0.6)
        raise ValueError(k)

    def top(self, fn, rest):
        """n == 0 ? base : rest   in one of its spellings"""
        rng = self.rng
        base = self.base(fn)
        s = rng.choice(["q", "q", "if", "qswap", "ifswap"])
        if s == "q":
            return CondN("q", Bin("==", Var("n"), Lit(0)), base, rest, False, rng.random() < 0.5)
        if s == "if":
            return CondN("if", Bin("==", Var("n"), Lit(0)), base, rest)
        if s == "qswap":
            return CondN("q", Bin("!=", Var("n"), Lit(0)), rest, base, rng.random() < 0.5, False)
        return CondN("if", Bin(">", Var("n"), Lit(0)), rest, base)

    # -------------------------------------------------------------- the cases

    def tail_program(self, forced=None, depth=None, nested=None, catches=None):
        rng = self.rng
        fn = FuncSpec("loop", self.params())
        nested = rng.random() < 0.25 if nested is None else nested
        p = Program("tail", "")
        if nested:
            fn.captured = {"kk": 3, "c2": 7}
        depth = rng.choice([0, 1, 1, 2, 2, 3]) if depth is None else depth
        rest = self.tail(fn, depth, [], forced)
        body = self.top(fn, rest)
        if rng.random() < 0.35:
            # locals at function level before everything else: SLIDE.q > nparams on every path
            items = [("let", "g%d" % i, "int", Bin("+", self.term(fn, []), Lit(i))) for i in range(rng.randint(1, 3))]
            body = BlockN(items, body)
        fn.body = body
        catches = rng.random() < 0.3 if catches is None else catches
        if catches:
            fn.catches = [("division_by_zero", Bin("-", Lit(0), Lit(1)))]
            if rng.random() < 0.5:
                fn.catches.append((None, Bin("-", Lit(0), Lit(2))))
        p.fn = fn
        if nested:
            p.wrapper = ("drv", [("c2", "kk + 4")])
        p.main_tag = self.newtag()
        p.shape_id = "tail:%s|%s|%s|%s" % (body.sig(), ",".join(t for _, t in fn.params),
                                           "nested" if nested else "top", "catch%d" % len(fn.catches))
        return p

    def catch_fires_program(self):
        """the base case divides by zero: the handler of the (re-used) frame answers, with the
        parameters of the LAST iteration"""
        fn = FuncSpec("loop", [("n", "int"), ("acc", "int"), ("k", "int")])
        rest = self.call(fn, [], allow_pipe=False)
        fn.body = CondN("q", Bin("==", Var("n"), Lit(0)), Bin("/", Var("acc"), Bin("-", Var("n"), Var("n"))), rest)
        fn.catches = [("division_by_zero", Bin("+", Bin("+", Lit(70000), Var("acc")), Var("n")))]
        p = Program("tail", "tail:catch-fires|int,int,int|top|catch1")
        p.fn, p.has_loop = fn, False
        p.main_tag = self.newtag()
        return p

    def nontail_program(self, kind):
        """the recursive call is NOT in tail position: must not be a tail transfer, must grow"""
        rng = self.rng
        fn = FuncSpec("loop", [("n", "int"), ("acc", "int")] + ([("k", "int")] if rng.random() < 0.5 else []))
        p = Program("nontail", "nontail:" + kind)
        call = self.call(fn, [], allow_pipe=False)
        if kind.endswith("-pipe"):
            call.form, call.k = "pipe", self.rng.randint(1, self.max_k(fn))
            kind = kind[:-5]
        if kind in ("plus", "arg", "neg", "bnot", "bnot1"):
            rest = Raw(kind, call)
        elif kind == "letres":
            rest = BlockN([("let", "res1", "int", call)], Var("res1"))
        elif kind == "cond-operand":
            rest = CondE(Bin("==", call, Lit(0)), Lit(1), Bin("+", Var("acc"), Lit(2)))
        elif kind == "not-last":
            rest = BlockN([("let", "u1", "int", Lit(3)), ("expr", call)], Bin("+", Var("acc"), Var("u1")))
        elif kind == "parencall":
            # in tail position, but the callee is not a bare identifier: tailrec.c skips it
            call.form = "paren"
            rest = call
            p.kind = "skipped"
            p.shape_id = "skipped:parencall"
        elif kind == "block-shadow":
            # a local function of the same name hides the enclosing one: the call is not a self call
            inner = FuncSpec("loop", list(fn.params))
            inner.body = Bin("+", Var("acc"), Lit(1000))
            inner.tagged = True
            call.callee = inner
            rest = BlockN([("func", inner)], call)
            p.kind = "skipped"
            p.shape_id = "skipped:block-shadow"
            p.nested = [inner]
            p.grows = False              # the inner function does not recurse
        else:
            raise ValueError(kind)
        fn.body = self.top(fn, rest)
        p.fn, p.has_loop = fn, False
        p.main_tag = self.newtag()
        return p

    def mutual_program(self):
        """even/odd style: sibling calls in tail position are not self calls: not marked, stack grows"""
        fa = FuncSpec("ping", [("n", "int"), ("acc", "int")])
        fb = FuncSpec("pong", [("n", "int"), ("acc", "int")])
        ca = SelfCall(fa, self.newtag(), [Bin("-", Var("n"), Lit(1)), Bin("%", Bin("+", Var("acc"), Lit(3)), Lit(9973))], "direct", callee=fb)
        cb = SelfCall(fb, self.newtag(), [Bin("-", Var("n"), Lit(1)), Bin("%", Bin("+", Var("acc"), Var("n")), Lit(9973))], "direct", callee=fa)
        fa.body = CondN("q", Bin("==", Var("n"), Lit(0)), Var("acc"), ca)
        fb.body = CondN("if", Bin("==", Var("n"), Lit(0)), Bin("+", Var("acc"), Lit(1)), cb)
        p = Program("mutual", "mutual:ping-pong")
        p.fn, p.extra, p.has_loop = fa, [fb], False
        p.main_tag = self.newtag()
        return p


NONTAIL_KINDS = ["plus", "arg", "neg", "bnot", "bnot1", "letres", "cond-operand", "not-last", "parencall", "block-shadow",
                 "plus-pipe", "arg-pipe", "letres-pipe", "bnot-pipe"]
TAIL_FORMS = ["condq", "condif", "block", "sup", "matchsel", "matchopt", "iflet", "ifletsel"]


def family(seed, n_random):
    """the deterministic part (every propagating form alone and in pairs, every non-tail kind) followed
    by n_random random compositions"""
    rng = random.Random(seed)
    g = Gen(rng)
    progs = []
    for f in TAIL_FORMS:
        progs.append(g.tail_program(forced=[f, "call"], depth=1, nested=False, catches=False))
        progs.append(g.tail_program(forced=[f, "call"], depth=2, nested=True, catches=True))
    progs.append(g.tail_program(forced=["call"], depth=0, nested=False, catches=False))
    progs.append(g.tail_program(forced=["call"], depth=0, nested=True, catches=True))
    # pipe-form self tail calls: scalar and tuples of 2..4 components, through every propagating form,
    # with locals before the call (block), at top level and nested
    for k in (1, 2, 3, 4):
        g.force_pipe = k
        for j, f in enumerate(TAIL_FORMS):
            if (j + k) % 2 == 0:
                progs.append(g.tail_program(forced=[f, "block", "call"], depth=2, nested=(j % 4 == 1), catches=(j % 3 == 0)))
        progs.append(g.tail_program(forced=["call"], depth=0, nested=False, catches=False))
    g.force_pipe = None
    progs.append(g.catch_fires_program())
    for k in NONTAIL_KINDS:
        progs.append(g.nontail_program(k))
    progs.append(g.mutual_program())
    for _ in range(n_random):
        progs.append(g.tail_program())
    # every third nested tail program declares the function under test as a let- / var-bound function expression
    k = 0
    for p in progs:
        if p.wrapper and p.kind == "tail":
            k += 1
            if k % 3 == 0:
                p.letbound = "let" if k % 2 else "var"
                p.shape_id += "|" + p.letbound + "-bound"
    return progs
