"""C08 — lexical scoping, closures keep their cells.

Proof side: coq/Properties/Properties_C08.v (ctx.proofs()): alpha_invariance and the closure theorems on
Src/Eval.v.

Tie + search (checks/parts/evaldiff.py, profiles shadow + closure + alias): every generated program
is run by the real compiler + VM in three spellings — as generated, *uniquified* (every binder
renamed to a fresh name following lexical scoping, harness/ocaml/eval/uniq.ml) and *injectively
renamed* — and by the reference evaluator.
  the three spellings behave differently on the real compiler   -> ctx.violation (key variant:<case>)
  real != evaluator on these scoping/closure/aliasing programs   -> ctx.violation (shrunk)
  renaming changes the EVALUATOR's outcome                       -> correspondence broken (harness)
corpus/C08/*.json run first; among them the known finding `late-shadow-after-closure` (a closure
capturing x followed, later in the same block, by a binding of x: the pinned compiler aborts with
"unknown freevar x during emit") in three shapes, and the two neighbouring shapes that do compile
(binding in an inner block / before the closure).  The generator avoids the aborting shape (weight
late_shadow=1 re-enables it) and produces the compiling ones freely.
Adjacent nested functions are mutually visible in Never and in Src/Eval.v (func_env): forward
references, mutual recursion between siblings and a later sibling standing in for an outer function
of the same name are generated (idiom id_siblings, weight sib_fwd); the renamings of uniq.ml bind a
run of adjacent functions as a whole.
"A function value keeps every captured variable": closures whose catch clause reads captured
variables after an exception came up through frames with other environments (id_catchcap), and
closures called as temporaries whose callee allocates (id_tempcall); the original additionally runs
with VM heaps of 150, 220 and 400 cells (default 20000) so that collections happen while the closure
waits in a call — heap limit reached = skipped for that size, crash / other outcome = violation.
Function-typed cells (var, captured var, var parameter, record field, array element) re-assigned with a
closure of the same literal from another activation (id_rebind); a function nested in a named nested
function that mentions that function (id_siblings forms 5-7, fixed finding nested-self-reference-...).

Evaluator-free part (run_scope_family below): text templates over constructs OUTSIDE Src/Syntax.v —
if-let / match with record and item patterns, dimension names of array / range / slice parameters
captured by closures, list-comprehension qualifiers, for-in over slices, catch-clause bodies,
module-level lets.  One placeholder per binder; every spelling (all binders distinct, an inner binder
spelled like an outer one where lexical scoping keeps every use with its binder, injectively renamed,
closure reads through a let copy) must behave alike on the real compiler + VM (heaps 20000/400/150).
The same family carries two more evaluator-free oracles for every iterating construct (list comprehensions
with 1 and 2 qualifiers, filters, dependent inner ranges that are one-element / descending for some outer
values; for-in over ascending, descending and one-element ranges with literal and computed bounds, arrays,
slices), stated as equivalent texts (`alt<k>` spellings) of one template:
  distinct iterations capture distinct cells: closures made per iteration and called AFTER the loop /
    comprehension print the same numbers as the values collected eagerly in the iteration, as the explicit
    for-in loop, and as the explicit for-in loop that stores one closure per iteration;
  the iterable is unchanged by iteration: a range / array held in a variable, iterated by a comprehension or a
    for-in loop and read / iterated again afterwards, behaves like a fresh copy at every use.
  spelling changes the outcome -> ctx.violation(scope-meta:<template>:<merged binders>), reduced to the
  functions of the first differing print;  crash -> ctx.violation(scope-meta:crash:<template>:...)
"""
LEVEL = "proof"

import os
import shutil
import tempfile

from lib import common
from checks.parts import evaldiff
from checks import c02 as c02mod

CORPUS = os.path.join(common.VERIF, "corpus", "C08")
PROFILES = ["shadow", "closure", "alias"]
HEAPS = (150, 220, 400)



# ------------------------------------------------------------------------------------------------
# Evaluator-free metamorphic family: lexical scoping outside the modelled core
# ------------------------------------------------------------------------------------------------
# The property's own oracle: each use of a name refers to the innermost enclosing binding in the
# source text, whatever other bindings of the same spelling exist elsewhere.  Hence renaming one
# binder together with exactly the uses it scopes over never changes what a program does.  The
# templates below are written with one placeholder {X} per BINDER (its binding occurrence and the
# uses that lexically belong to it).  Spellings of a template:
#   distinct        every placeholder gets its own name;
#   merge inner=outer   the inner binder takes the spelling of an outer (or sibling-scope) binder; only
#                   merges listed with the template are used: no use of `outer` stands inside the scope
#                   of `inner`, so lexical scoping still resolves every use to its own binder;
#   all             all listed merges at once;   renamed   a seeded injective renaming;
#   alt<k>          a hand-written equivalent text in which a closure reads an immutable binder (array
#                   dimension, range bound, pattern variable) through a `let` copy made in the defining scope
#                   ("a function value sees the same binding as its defining scope").
# All spellings must give the same result and prints on the real compiler + VM, with the default heap
# and with small heaps (heap limit reached = skipped).  No evaluator is involved.  {#k} are seeded
# integer constants.
SHAPES_DECL = ("enum Shape { Rect { w : int; h : int; }, Ell { rx : int; ry : int; }, "
               "Tri { a : int; b : int; c : int; }, Dot }\n")

SCOPE_TEMPLATES = [
    {"name": "iflet-record", "construct": "if-let record pattern (then / else / else-if chain / closures made there)",
     "merges": [("PW", "W"), ("PH", "H"), ("PW2", "W2"), ("PH2", "H2"), ("A3", "N"), ("B3", "N"), ("C3", "A3"), ("D3", "B3"),
                ("PW4", "W4"), ("Q4", "W4"), ("PW5", "W5"), ("PH5", "G5")],
     "all": [("PW", "W"), ("PH", "H"), ("PW2", "W2"), ("PH2", "H2"), ("B3", "N"), ("C3", "A3"), ("PW4", "W4"), ("Q4", "W4"),
             ("PW5", "W5"), ("PH5", "G5")],
     "srcs": [SHAPES_DECL + """
func d1(s : Shape, {W} : int, {H} : int) -> int
{
    if let (Shape::Rect({PW}, {PH}) = s) { {PW} * 100 + {PH} } else { {W} * 100 + {H} }
}
func d2(s : Shape, {W2} : int) -> () -> int
{
    let {H2} = {#1};
    if let (Shape::Rect({PW2}, {PH2}) = s)
    {
        let func () -> int { {PW2} * 100 + {PH2} }
    }
    else
    {
        let func () -> int { {W2} * 100 + {H2} }
    }
}
func d3(s : Shape, {N} : int) -> int
{
    if let (Shape::Rect({A3}, {B3}) = s) { {A3} + {B3} * 10 }
    else if let (Shape::Ell({C3}, {D3}) = s) { {C3} * 1000 + {D3} * 100 + {N} }
    else if let (Shape::Dot = s) { {N} * 3 }
    else { {N} * 7 }
}
func d4(s : Shape, t : Shape, {W4} : int) -> int
{
    if let (Shape::Rect({PW4}, ph) = s)
    {
        {PW4} + ph
    }
    else
    {
        if let (Shape::Tri({Q4}, qb, qc) = t) { {Q4} * 100 + qb * 10 + qc } else { {W4} + 5000 }
    } + {W4} * 100000
}
func d5(s : Shape, {W5} : int) -> int
{
    let {G5} = {W5} + {#2};
    let r = if let (Shape::Ell({PW5}, {PH5}) = s) { {PW5} * 10 + {PH5} } else { {W5} * 1000 + {G5} };
    r * 2 + {G5} + {W5}
}
func main() -> int
{
    print(d1(Shape::Rect(3, 4), {#3}, {#4})); print(d1(Shape::Ell(5, 6), {#3}, {#4})); print(d1(Shape::Tri(1, 2, 3), {#3}, {#4}));
    print(d2(Shape::Rect(3, 4), {#5})()); print(d2(Shape::Tri(1, 2, 3), {#5})()); print(d2(Shape::Dot, {#6})());
    print(d3(Shape::Rect(1, 2), {#7})); print(d3(Shape::Ell(3, 4), {#7})); print(d3(Shape::Tri(5, 6, 7), {#7})); print(d3(Shape::Dot, {#7}));
    print(d4(Shape::Rect(1, 2), Shape::Tri(3, 4, 5), {#8})); print(d4(Shape::Dot, Shape::Tri(3, 4, 5), {#8})); print(d4(Shape::Ell(8, 9), Shape::Dot, {#8}));
    print(d5(Shape::Ell(2, 3), {#9})); print(d5(Shape::Rect(2, 3), {#9}));
    0
}
""", SHAPES_DECL + """
func d1(s : Shape, {W} : int, {H} : int) -> int
{
    if let (Shape::Rect({PW}, {PH}) = s) { {PW} * 100 + {PH} } else { {W} * 100 + {H} }
}
func d2(s : Shape, {W2} : int) -> () -> int
{
    let {H2} = {#1};
    if let (Shape::Rect({PW2}, {PH2}) = s)
    {
        let pw0 = {PW2};
        let ph0 = {PH2};
        let func () -> int { pw0 * 100 + ph0 }
    }
    else
    {
        let func () -> int { {W2} * 100 + {H2} }
    }
}
func d3(s : Shape, {N} : int) -> int
{
    if let (Shape::Rect({A3}, {B3}) = s) { {A3} + {B3} * 10 }
    else if let (Shape::Ell({C3}, {D3}) = s) { {C3} * 1000 + {D3} * 100 + {N} }
    else if let (Shape::Dot = s) { {N} * 3 }
    else { {N} * 7 }
}
func d4(s : Shape, t : Shape, {W4} : int) -> int
{
    if let (Shape::Rect({PW4}, ph) = s)
    {
        {PW4} + ph
    }
    else
    {
        if let (Shape::Tri({Q4}, qb, qc) = t) { {Q4} * 100 + qb * 10 + qc } else { {W4} + 5000 }
    } + {W4} * 100000
}
func d5(s : Shape, {W5} : int) -> int
{
    let {G5} = {W5} + {#2};
    let r = if let (Shape::Ell({PW5}, {PH5}) = s) { {PW5} * 10 + {PH5} } else { {W5} * 1000 + {G5} };
    r * 2 + {G5} + {W5}
}
func main() -> int
{
    print(d1(Shape::Rect(3, 4), {#3}, {#4})); print(d1(Shape::Ell(5, 6), {#3}, {#4})); print(d1(Shape::Tri(1, 2, 3), {#3}, {#4}));
    print(d2(Shape::Rect(3, 4), {#5})()); print(d2(Shape::Tri(1, 2, 3), {#5})()); print(d2(Shape::Dot, {#6})());
    print(d3(Shape::Rect(1, 2), {#7})); print(d3(Shape::Ell(3, 4), {#7})); print(d3(Shape::Tri(5, 6, 7), {#7})); print(d3(Shape::Dot, {#7}));
    print(d4(Shape::Rect(1, 2), Shape::Tri(3, 4, 5), {#8})); print(d4(Shape::Dot, Shape::Tri(3, 4, 5), {#8})); print(d4(Shape::Ell(8, 9), Shape::Dot, {#8}));
    print(d5(Shape::Ell(2, 3), {#9})); print(d5(Shape::Rect(2, 3), {#9}));
    0
}
"""]},
    {"name": "match-record", "construct": "match with record and item patterns (arms and closures made in arms)",
     "merges": [("PW", "W"), ("PH", "H"), ("QW", "W"), ("QW", "PW"), ("QH", "PH"), ("TC", "PW"), ("PA2", "K2"), ("QA2", "PA2"), ("TA2", "PA2")],
     "all": [("PW", "W"), ("PH", "H"), ("QW", "W"), ("PA2", "K2"), ("QA2", "PA2"), ("TA2", "PA2")],
     "srcs": [SHAPES_DECL + """
func m1(s : Shape, {W} : int, {H} : int) -> int
{
    match s
    {
        Shape::Rect({PW}, {PH}) -> {PW} * 100 + {PH};
        Shape::Ell({QW}, {QH}) -> {QW} * 10000 + {QH} * 100 + {H};
        Shape::Tri({TA}, {TB}, {TC}) -> {W} * 100 + {H} + {TA} * 1000000 + {TB} + {TC};
        Shape::Dot -> {W} * 7 + {H};
    }
}
func m2(s : Shape, {K2} : int) -> () -> int
{
    let base = {K2} * 2;
    match s
    {
        Shape::Rect({PA2}, pb) -> let func () -> int { {PA2} * 10 + pb + base };
        Shape::Ell({QA2}, qb) -> let func () -> int { {QA2} * 100 + qb + base };
        Shape::Tri({TA2}, tb, tc) -> let func () -> int { {TA2} + tb + tc + base * 1000 };
        Shape::Dot -> let func () -> int { {K2} + base };
    }
}
func main() -> int
{
    print(m1(Shape::Rect(3, 4), {#1}, {#2})); print(m1(Shape::Ell(5, 6), {#1}, {#2})); print(m1(Shape::Tri(1, 2, 3), {#1}, {#2})); print(m1(Shape::Dot, {#1}, {#2}));
    print(m2(Shape::Rect(3, 4), {#3})()); print(m2(Shape::Ell(5, 6), {#3})()); print(m2(Shape::Tri(1, 2, 3), {#4})()); print(m2(Shape::Dot, {#4})());
    0
}
""", SHAPES_DECL + """
func m1(s : Shape, {W} : int, {H} : int) -> int
{
    match s
    {
        Shape::Rect({PW}, {PH}) -> {PW} * 100 + {PH};
        Shape::Ell({QW}, {QH}) -> {QW} * 10000 + {QH} * 100 + {H};
        Shape::Tri({TA}, {TB}, {TC}) -> {W} * 100 + {H} + {TA} * 1000000 + {TB} + {TC};
        Shape::Dot -> {W} * 7 + {H};
    }
}
func m2(s : Shape, {K2} : int) -> () -> int
{
    let base = {K2} * 2;
    match s
    {
        Shape::Rect({PA2}, pb) -> { let a0 = {PA2}; let b0 = pb; let func () -> int { a0 * 10 + b0 + base } };
        Shape::Ell({QA2}, qb) -> { let a0 = {QA2}; let b0 = qb; let func () -> int { a0 * 100 + b0 + base } };
        Shape::Tri({TA2}, tb, tc) -> { let a0 = {TA2}; let b0 = tb; let c0 = tc; let func () -> int { a0 + b0 + c0 + base * 1000 } };
        Shape::Dot -> let func () -> int { {K2} + base };
    }
}
func main() -> int
{
    print(m1(Shape::Rect(3, 4), {#1}, {#2})); print(m1(Shape::Ell(5, 6), {#1}, {#2})); print(m1(Shape::Tri(1, 2, 3), {#1}, {#2})); print(m1(Shape::Dot, {#1}, {#2}));
    print(m2(Shape::Rect(3, 4), {#3})()); print(m2(Shape::Ell(5, 6), {#3})()); print(m2(Shape::Tri(1, 2, 3), {#4})()); print(m2(Shape::Dot, {#4})());
    0
}
"""]},
    {"name": "array-dims-2d", "construct": "dimension names of a 2-d array parameter read directly and captured by closures in several orders",
     "merges": [("R1", "R"), ("C1", "C"), ("R2", "R"), ("C2", "C"), ("R3", "R"), ("C3", "C"), ("I3", "R3"), ("R6", "R"), ("C6", "C")],
     "srcs": ["""
func direct(a[{R}, {C}] : int) -> int { {C} * 100 + {R} }
func rc(a[{R1}, {C1}] : int) -> () -> int { let func () -> int { {R1} * 100 + {C1} } }
func width(a[{R2}, {C2}] : int) -> () -> int { let func () -> int { {C2} } }
func cr(a[{R6}, {C6}] : int, {P6} : int) -> () -> int { let func () -> int { {C6} * 100 + {R6} } }
func at(a[{R3}, {C3}] : int, {K3} : int) -> (int) -> int
{
    let func ({I3} : int) -> int
    {
        let r = {I3} / {C3};
        let c = {I3} % {C3};
        a[r, c] + {K3}
    }
}
func main() -> int
{
    let m = [ [ 0, 1, 2 ], [ 10, 11, 12 ] ] : int;
    print(direct(m)); print(rc(m)()); print(width(m)()); print(cr(m, {#1})());
    print(at(m, {#2})(3)); print(at(m, {#2})(2));
    0
}
""", """
func direct(a[{R}, {C}] : int) -> int { {C} * 100 + {R} }
func rc(a[{R1}, {C1}] : int) -> () -> int { let r0 = {R1}; let c0 = {C1}; let func () -> int { r0 * 100 + c0 } }
func width(a[{R2}, {C2}] : int) -> () -> int { let c0 = {C2}; let func () -> int { c0 } }
func cr(a[{R6}, {C6}] : int, {P6} : int) -> () -> int { let r0 = {R6}; let c0 = {C6}; let func () -> int { c0 * 100 + r0 } }
func at(a[{R3}, {C3}] : int, {K3} : int) -> (int) -> int
{
    let c0 = {C3};
    let func ({I3} : int) -> int
    {
        let r = {I3} / c0;
        let c = {I3} % c0;
        a[r, c] + {K3}
    }
}
func main() -> int
{
    let m = [ [ 0, 1, 2 ], [ 10, 11, 12 ] ] : int;
    print(direct(m)); print(rc(m)()); print(width(m)()); print(cr(m, {#1})());
    print(at(m, {#2})(3)); print(at(m, {#2})(2));
    0
}
"""]},
    {"name": "array-dims-params", "construct": "dimension names of several array parameters (after other parameters) captured by closures and nested functions",
     "merges": [("E4", "D5"), ("K4", "K5"), ("D4", "D5"), ("I5", "K4")],
     "all": [("E4", "D5"), ("K4", "K5")],
     "srcs": ["""
func two({K4} : int, a[{D4}] : int, b[{E4}] : int) -> () -> int
{
    func shape() -> int { {K4} + {E4} * 100 + {D4} };
    shape
}
func sum({K5} : int, t[{D5}] : int) -> () -> int
{
    let func () -> int
    {
        var s = {K5} + 0;
        var {I5} = 0;
        for ({I5} = 0; {I5} < {D5}; {I5} = {I5} + 1) { s = s * 10 + t[{I5}] };
        s
    }
}
func main() -> int
{
    let u = [ 1, 2, 3 ] : int;
    let v = [ 4, 5, 6, 7, 8 ] : int;
    print(two({#3}, u, v)()); print(two({#3}, v, u)());
    print(sum(0, u)()); print(sum(1, v)());
    0
}
""", """
func two({K4} : int, a[{D4}] : int, b[{E4}] : int) -> () -> int
{
    let d0 = {D4};
    let e0 = {E4};
    func shape() -> int { {K4} + e0 * 100 + d0 };
    shape
}
func sum({K5} : int, t[{D5}] : int) -> () -> int
{
    let d0 = {D5};
    let func () -> int
    {
        var s = {K5} + 0;
        var {I5} = 0;
        for ({I5} = 0; {I5} < d0; {I5} = {I5} + 1) { s = s * 10 + t[{I5}] };
        s
    }
}
func main() -> int
{
    let u = [ 1, 2, 3 ] : int;
    let v = [ 4, 5, 6, 7, 8 ] : int;
    print(two({#3}, u, v)()); print(two({#3}, v, u)());
    print(sum(0, u)()); print(sum(1, v)());
    0
}
"""]},
    {"name": "range-slice-dims", "construct": "bound names of range and slice parameters read directly and captured by closures",
     "merges": [("F1", "F"), ("T1", "T"), ("K1", "K0"), ("F2", "F"), ("T2", "T"), ("F3", "F"), ("T3", "T")],
     "srcs": ["""
func rd([ {F} .. {T} ] : range, {K0} : int) -> int { {T} * 100 + {F} + {K0} * 10000 }
func rcl([ {F1} .. {T1} ] : range, {K1} : int) -> () -> int { let func () -> int { {T1} * 100 + {F1} } }
func rt([ {F2} .. {T2} ] : range) -> () -> int { let func () -> int { {T2} } }
func sl(a[ {F3} .. {T3} ] : int) -> () -> int { let func () -> int { {T3} * 100 + {F3} + a[{F3}] * 10000 } }
func main() -> int
{
    let r = [ {#1} .. {#2} ];
    let a = [ 0, 1, 2, 3, 4, 5, 6, 7, 8, 9 ] : int;
    print(rd(r, {#4})); print(rcl(r, {#3})()); print(rt(r)()); print(sl(a[2 .. 5])());
    0
}
""", """
func rd([ {F} .. {T} ] : range, {K0} : int) -> int { {T} * 100 + {F} + {K0} * 10000 }
func rcl([ {F1} .. {T1} ] : range, {K1} : int) -> () -> int { let f0 = {F1}; let t0 = {T1}; let func () -> int { t0 * 100 + f0 } }
func rt([ {F2} .. {T2} ] : range) -> () -> int { let t0 = {T2}; let func () -> int { t0 } }
func sl(a[ {F3} .. {T3} ] : int) -> () -> int { let f0 = {F3}; let t0 = {T3}; let func () -> int { t0 * 100 + f0 + a[f0] * 10000 } }
func main() -> int
{
    let r = [ {#1} .. {#2} ];
    let a = [ 0, 1, 2, 3, 4, 5, 6, 7, 8, 9 ] : int;
    print(rd(r, {#4})); print(rcl(r, {#3})()); print(rt(r)()); print(sl(a[2 .. 5])());
    0
}
"""]},
    {"name": "listcomp", "construct": "list comprehension qualifiers (scope of the qualifier variables, closures made in the element expression)",
     "merges": [("U", "X"), ("V", "Y"), ("U2", "X2"), ("U3", "U"), ("W3", "Z3")],
     "srcs": ["""
func lc({X} : int, {Y} : int) -> int
{
    let t = [ {U} * 10 + {V} | {U} in [ 1, 2, 3 ] : int; {V} in [ 4, 5 ] : int ] : int;
    var s = 0;
    for (e in t) { s = s + e };
    s * 100 + {X} * 10 + {Y}
}
func lf({X2} : int) -> int
{
    let fs = [ let func (v : int) -> int { v * {U2} } | {U2} in [ 1, 10, 100 ] : int ] : (int) -> int;
    fs[0](2) + fs[1](3) + fs[2](4) + {X2} * 1000
}
func lz({Z3} : int) -> int
{
    let t = [ {U3} + {W3} | {U3} in [ 1 .. 3 ]; {W3} in [ 0 .. {U3} ] ] : int;
    var s = 0;
    for (e in t) { s = s * 2 + e };
    s + {Z3}
}
func main() -> int
{
    print(lc({#1}, {#2})); print(lf({#3})); print(lz({#4}));
    0
}
"""]},
    {"name": "forin-slice", "construct": "for-in over arrays, slices and ranges (scope of the loop variable, closures made in the body)",
     "merges": [("E", "X"), ("E2", "X2"), ("I3", "X3"), ("E4", "E"), ("J5", "X5")],
     "srcs": ["""
func fs(a[D] : int, {X} : int) -> int
{
    var s = 0;
    for ({E} in a[1 .. D - 2]) { s = s * 10 + {E} };
    s + {X} * 100000
}
func fc(a[D] : int, {X2} : int) -> int
{
    var fs = [ let func () -> int { 0 }, let func () -> int { 0 }, let func () -> int { 0 } ] : () -> int;
    var k = 0;
    for ({E2} in a[0 .. 2]) { fs[k] = let func () -> int { {E2} * 2 }; k = k + 1 };
    fs[0]() + fs[1]() * 10 + fs[2]() * 100 + {X2}
}
func fr({X3} : int) -> int
{
    var s = 0;
    for ({I3} in [ 3 .. 1 ]) { s = s * 10 + {I3} };
    s + {X3} * 1000
}
func fn(a[D] : int) -> int
{
    var s = 0;
    for ({E4} in a) { s = s + {E4} };
    s
}
func fj({X5} : int) -> int
{
    var s = 0;
    for (i in [ 0 .. 2 ]) { for ({J5} in [ i .. 2 ]) { s = s * 3 + {J5} + i } };
    s + {X5}
}
func main() -> int
{
    let a = [ 1, 2, 3, 4, 5, 6 ] : int;
    print(fs(a, {#1})); print(fc(a, {#2})); print(fr({#3})); print(fn(a)); print(fj({#4}));
    0
}
"""]},
    {"name": "forin-braceless", "construct": "for-in whose body is a single expression, not a block, containing a function literal that captures the loop variable (arrays, slices, ranges)",
     "merges": [("E", "X"), ("E2", "X2"), ("I3", "X3")],
     "alt_desc": ["the same loops with the body written as a block"],
     "srcs": ["""
func apply(f() -> int) -> int { f() }
func fa(a[D] : int, {X} : int) -> int
{
    var s = 0;
    for ({E} in a) s = s * 2 + apply(let func () -> int { {E} + {#1} });
    s + {X} * 100000
}
func fb(a[D] : int, {X2} : int) -> int
{
    var s = 0;
    for ({E2} in a[1 .. D - 2]) s = s + apply(let func () -> int { {E2} * 3 });
    s + {X2}
}
func fr({X3} : int) -> int
{
    var s = 0;
    for ({I3} in [ 4 .. 2 ]) s = s * 10 + apply(let func () -> int { {I3} });
    s + {X3} * 1000
}
func main() -> int
{
    let a = [ 1, 2, 3, 4, 5 ] : int;
    print(fa(a, {#2})); print(fb(a, {#3})); print(fr({#4}));
    0
}
""", """
func apply(f() -> int) -> int { f() }
func fa(a[D] : int, {X} : int) -> int
{
    var s = 0;
    for ({E} in a) { s = s * 2 + apply(let func () -> int { {E} + {#1} }) };
    s + {X} * 100000
}
func fb(a[D] : int, {X2} : int) -> int
{
    var s = 0;
    for ({E2} in a[1 .. D - 2]) { s = s + apply(let func () -> int { {E2} * 3 }) };
    s + {X2}
}
func fr({X3} : int) -> int
{
    var s = 0;
    for ({I3} in [ 4 .. 2 ]) { s = s * 10 + apply(let func () -> int { {I3} }) };
    s + {X3} * 1000
}
func main() -> int
{
    let a = [ 1, 2, 3, 4, 5 ] : int;
    print(fa(a, {#2})); print(fb(a, {#3})); print(fr({#4}));
    0
}
"""]},
    {"name": "catch-clause", "construct": "catch-clause bodies (see the parameters and the definition scope, not the locals of the body)",
     "merges": [("L", "G"), ("M", "L"), ("L2", "G2"), ("M2", "Q2"), ("L3", "P3")],
     "srcs": ["""
func outer({G} : int) -> int
{
    func cc(p : int, q : int) -> int
    {
        let {L} = p * 2;
        {L} / q
    }
    catch (division_by_zero)
    {
        let {M} = {G} + p;
        {M} * 10
    };
    cc({#1}, 0) + cc({#2}, 2) * 100000
}
func mk({G2} : int) -> (int, int) -> int
{
    func cc(p : int, {Q2} : int) -> int
    {
        var {L2} = p + 1;
        {L2} = {L2} * 2;
        [ 1, 2, 3 ] : int [{Q2}] + {L2}
    }
    catch (index_out_of_bounds)
    {
        let {M2} = 5;
        {G2} * 1000 + p * 10 + {M2}
    };
    cc
}
func pl({P3} : int) -> int
{
    let t = {P3} % 2;
    let {L3} = 100 / t;
    {L3} + 1
}
catch (division_by_zero)
{
    {P3} * 3
}
func main() -> int
{
    print(outer({#3})); print(mk({#4})({#5}, 7)); print(mk({#4})({#5}, 1)); print(pl({#6} * 2)); print(pl({#6} * 2 + 1));
    0
}
"""]},
    {"name": "module-lets", "construct": "module-level lets (initialisers, closures over them, parameters and locals of the same spelling)",
     "merges": [("A2", "A"), ("A3", "A"), ("J", "B"), ("X4", "F"), ("Y", "G")],
     "srcs": ["""
let {A} = {#1};
let {B} = {A} * 3 + 1;
let {F} = let func ({I} : int) -> int { {A} + {B} + {I} };
let {G} = let func ({J} : int) -> int { {J} * {A} };

func usef({X} : int) -> int
{
    let {Y} = {A} + {X};
    {F}({Y})
}
func sh({A2} : int) -> int { {A2} * 2 + {B} }
func sl() -> int { let {A3} = 50; {A3} + {B} }
func sf({X4} : int) -> int { {X4} + {G}(3) }
func main() -> int
{
    print(usef({#2})); print(sh({#3})); print(sl()); print(sf({#4})); print({G}({B}));
    0
}
"""]},
    # ---- "distinct iterations capture distinct cells", stated metamorphically: for one iterable, srcs[0] makes a
    # closure per iteration and calls them AFTER the loop / comprehension; alt1 collects the same values eagerly in
    # the iteration itself; alt2 is the explicit for-in loop (eager); alt3 the explicit for-in loop that stores a
    # closure per iteration and calls them afterwards.  All four print the same numbers.
    {"name": "iter-cells-listcomp-range", "construct": "closures made per iteration of a list comprehension / for-in over ranges (ascending, descending, one element; literal and computed bounds)",
     "merges": [("X", "LO"), ("X1", "X"), ("X2", "X"), ("X3", "X")],
     "alt_desc": ["the values are collected eagerly by the comprehension instead of through closures called afterwards",
                  "the explicit for-in loop over the same range, values printed in the iteration",
                  "the explicit for-in loop over the same range storing one closure per iteration, called after the loop"],
     "srcs": ["""
func showf(fs[D] : () -> int) -> int { var i = 0; for (i = 0; i < D; i = i + 1) { print(fs[i]()) }; print(D) }
func showi(t[D] : int) -> int { var i = 0; for (i = 0; i < D; i = i + 1) { print(t[i]) }; print(D) }
func gen({LO} : int, {HI} : int, {K} : int) -> int { showf([ let func () -> int { {X} * 10 + {K} } | {X} in [ {LO} .. {HI} ] ] : () -> int) }
func up() -> int { showf([ let func () -> int { {X1} * 10 } | {X1} in [ 1 .. 3 ] ] : () -> int) }
func down() -> int { showf([ let func () -> int { {X2} * 10 } | {X2} in [ 3 .. 1 ] ] : () -> int) }
func one() -> int { showf([ let func () -> int { {X3} * 10 } | {X3} in [ {#1} .. {#1} ] ] : () -> int) }
func main() -> int
{
    print(up()); print(down()); print(one());
    print(gen(1, 3, {#2})); print(gen(3, 1, {#2})); print(gen({#3}, {#3}, 1)); print(gen(0 - 1, 1, 2)); print(gen(2, 0 - 2, 3)); print(gen({#4}, {#4} + 2, 0)); print(gen({#4} + 1, {#4}, 0));
    0
}
""", """
func showf(fs[D] : () -> int) -> int { var i = 0; for (i = 0; i < D; i = i + 1) { print(fs[i]()) }; print(D) }
func showi(t[D] : int) -> int { var i = 0; for (i = 0; i < D; i = i + 1) { print(t[i]) }; print(D) }
func gen({LO} : int, {HI} : int, {K} : int) -> int { showi([ {X} * 10 + {K} | {X} in [ {LO} .. {HI} ] ] : int) }
func up() -> int { showi([ {X1} * 10 | {X1} in [ 1 .. 3 ] ] : int) }
func down() -> int { showi([ {X2} * 10 | {X2} in [ 3 .. 1 ] ] : int) }
func one() -> int { showi([ {X3} * 10 | {X3} in [ {#1} .. {#1} ] ] : int) }
func main() -> int
{
    print(up()); print(down()); print(one());
    print(gen(1, 3, {#2})); print(gen(3, 1, {#2})); print(gen({#3}, {#3}, 1)); print(gen(0 - 1, 1, 2)); print(gen(2, 0 - 2, 3)); print(gen({#4}, {#4} + 2, 0)); print(gen({#4} + 1, {#4}, 0));
    0
}
""", """
func gen({LO} : int, {HI} : int, {K} : int) -> int { var n = 0; for ({X} in [ {LO} .. {HI} ]) { print({X} * 10 + {K}); n = n + 1 }; print(n) }
func up() -> int { var n = 0; for ({X1} in [ 1 .. 3 ]) { print({X1} * 10); n = n + 1 }; print(n) }
func down() -> int { var n = 0; for ({X2} in [ 3 .. 1 ]) { print({X2} * 10); n = n + 1 }; print(n) }
func one() -> int { var n = 0; for ({X3} in [ {#1} .. {#1} ]) { print({X3} * 10); n = n + 1 }; print(n) }
func main() -> int
{
    print(up()); print(down()); print(one());
    print(gen(1, 3, {#2})); print(gen(3, 1, {#2})); print(gen({#3}, {#3}, 1)); print(gen(0 - 1, 1, 2)); print(gen(2, 0 - 2, 3)); print(gen({#4}, {#4} + 2, 0)); print(gen({#4} + 1, {#4}, 0));
    0
}
""", """
func z() -> int { 0 }
func later(fs[D] : () -> int, n : int) -> int { var i = 0; for (i = 0; i < n; i = i + 1) { print(fs[i]()) }; print(n) }
func gen({LO} : int, {HI} : int, {K} : int) -> int
{
    var fs = [ z, z, z, z, z, z, z, z ] : () -> int; var n = 0;
    for ({X} in [ {LO} .. {HI} ]) { fs[n] = let func () -> int { {X} * 10 + {K} }; n = n + 1 };
    later(fs, n)
}
func up() -> int { var fs = [ z, z, z, z ] : () -> int; var n = 0; for ({X1} in [ 1 .. 3 ]) { fs[n] = let func () -> int { {X1} * 10 }; n = n + 1 }; later(fs, n) }
func down() -> int { var fs = [ z, z, z, z ] : () -> int; var n = 0; for ({X2} in [ 3 .. 1 ]) { fs[n] = let func () -> int { {X2} * 10 }; n = n + 1 }; later(fs, n) }
func one() -> int { var fs = [ z, z, z, z ] : () -> int; var n = 0; for ({X3} in [ {#1} .. {#1} ]) { fs[n] = let func () -> int { {X3} * 10 }; n = n + 1 }; later(fs, n) }
func main() -> int
{
    print(up()); print(down()); print(one());
    print(gen(1, 3, {#2})); print(gen(3, 1, {#2})); print(gen({#3}, {#3}, 1)); print(gen(0 - 1, 1, 2)); print(gen(2, 0 - 2, 3)); print(gen({#4}, {#4} + 2, 0)); print(gen({#4} + 1, {#4}, 0));
    0
}
"""]},
    {"name": "iter-cells-listcomp-nested", "construct": "closures made per iteration of a list comprehension with two qualifiers, filters and dependent inner ranges (empty-ish / one element / descending for some outer values)",
     "merges": [("Y", "N"), ("X2", "X"), ("Y2", "Y"), ("X3", "X"), ("Y3", "Y")],
     "alt_desc": ["the values are collected eagerly by the comprehension instead of through closures called afterwards",
                  "the explicit nested for-in loops with the filters as conditions, values printed in the iteration"],
     "srcs": ["""
func showf(fs[D] : () -> int) -> int { var i = 0; for (i = 0; i < D; i = i + 1) { print(fs[i]()) }; print(D) }
func showi(t[D] : int) -> int { var i = 0; for (i = 0; i < D; i = i + 1) { print(t[i]) }; print(D) }
func tri({N} : int) -> int { showf([ let func () -> int { {X} * 10 + {Y} } | {X} in [ 0 .. {N} ]; {X} != 1; {Y} in [ 0 .. {X} ] ] : () -> int) }
func dn({N2} : int) -> int { showf([ let func () -> int { {X2} * 100 + {Y2} } | {X2} in [ {N2} .. 0 ]; {Y2} in [ {X2} .. 1 ]; ({X2} + {Y2}) % 3 != 0 ] : () -> int) }
func pr() -> int { showf([ let func () -> int { {X3} * 10 + {Y3} } | {X3} in [ 1 .. 2 ]; {Y3} in [ {#1} .. {#1} ] ] : () -> int) }
func main() -> int
{
    print(tri(2)); print(tri(0)); print(tri(3)); print(dn(2)); print(dn(0)); print(dn(3)); print(pr());
    0
}
""", """
func showf(fs[D] : () -> int) -> int { var i = 0; for (i = 0; i < D; i = i + 1) { print(fs[i]()) }; print(D) }
func showi(t[D] : int) -> int { var i = 0; for (i = 0; i < D; i = i + 1) { print(t[i]) }; print(D) }
func tri({N} : int) -> int { showi([ {X} * 10 + {Y} | {X} in [ 0 .. {N} ]; {X} != 1; {Y} in [ 0 .. {X} ] ] : int) }
func dn({N2} : int) -> int { showi([ {X2} * 100 + {Y2} | {X2} in [ {N2} .. 0 ]; {Y2} in [ {X2} .. 1 ]; ({X2} + {Y2}) % 3 != 0 ] : int) }
func pr() -> int { showi([ {X3} * 10 + {Y3} | {X3} in [ 1 .. 2 ]; {Y3} in [ {#1} .. {#1} ] ] : int) }
func main() -> int
{
    print(tri(2)); print(tri(0)); print(tri(3)); print(dn(2)); print(dn(0)); print(dn(3)); print(pr());
    0
}
""", """
func tri({N} : int) -> int
{
    var n = 0;
    for ({X} in [ 0 .. {N} ]) { if ({X} != 1) { for ({Y} in [ 0 .. {X} ]) { print({X} * 10 + {Y}); n = n + 1 }; 0 } else { 0 } };
    print(n)
}
func dn({N2} : int) -> int
{
    var n = 0;
    for ({X2} in [ {N2} .. 0 ]) { for ({Y2} in [ {X2} .. 1 ]) { if (({X2} + {Y2}) % 3 != 0) { print({X2} * 100 + {Y2}); n = n + 1 } else { 0 } } };
    print(n)
}
func pr() -> int { var n = 0; for ({X3} in [ 1 .. 2 ]) { for ({Y3} in [ {#1} .. {#1} ]) { print({X3} * 10 + {Y3}); n = n + 1 } }; print(n) }
func main() -> int
{
    print(tri(2)); print(tri(0)); print(tri(3)); print(dn(2)); print(dn(0)); print(dn(3)); print(pr());
    0
}
"""]},
    {"name": "iter-cells-array-slice", "construct": "closures made per iteration over arrays and slices (list comprehension and for-in)",
     "merges": [("E2", "L2"), ("E2", "E"), ("E3", "E"), ("E4", "E")],
     "alt_desc": ["the values are collected eagerly in the iteration instead of through closures called afterwards"],
     "srcs": ["""
func showf(fs[D] : () -> int) -> int { var i = 0; for (i = 0; i < D; i = i + 1) { print(fs[i]()) }; print(D) }
func showi(t[D] : int) -> int { var i = 0; for (i = 0; i < D; i = i + 1) { print(t[i]) }; print(D) }
func z() -> int { 0 }
func later(fs[D] : () -> int, n : int) -> int { var i = 0; for (i = 0; i < n; i = i + 1) { print(fs[i]()) }; print(n) }
func ca(a[D] : int, {K} : int) -> int { showf([ let func () -> int { {E} * 2 + {K} } | {E} in a ] : () -> int) }
func cs(a[D] : int, {L2} : int, hi : int) -> int { showf([ let func () -> int { {E2} * 3 } | {E2} in a[{L2} .. hi] ] : () -> int) }
func fa(a[D] : int) -> int { var fs = [ z, z, z, z, z, z, z, z ] : () -> int; var n = 0; for ({E3} in a) { fs[n] = let func () -> int { {E3} + 1 }; n = n + 1 }; later(fs, n) }
func fsl(a[D] : int, lo : int, hi : int) -> int { var fs = [ z, z, z, z, z, z, z, z ] : () -> int; var n = 0; for ({E4} in a[lo .. hi]) { fs[n] = let func () -> int { {E4} + 2 }; n = n + 1 }; later(fs, n) }
func main() -> int
{
    let a = [ {#1}, {#2}, {#3}, {#4}, {#5}, {#6} ] : int;
    let b = [ {#7} ] : int;
    print(ca(a, {#8})); print(ca(b, 1)); print(cs(a, 1, 3)); print(cs(a, 2, 2)); print(cs(a, 0, 5)); print(fa(a)); print(fa(b)); print(fsl(a, 1, 4)); print(fsl(a, 5, 5));
    0
}
""", """
func showi(t[D] : int) -> int { var i = 0; for (i = 0; i < D; i = i + 1) { print(t[i]) }; print(D) }
func ca(a[D] : int, {K} : int) -> int { showi([ {E} * 2 + {K} | {E} in a ] : int) }
func cs(a[D] : int, {L2} : int, hi : int) -> int { showi([ {E2} * 3 | {E2} in a[{L2} .. hi] ] : int) }
func fa(a[D] : int) -> int { var n = 0; for ({E3} in a) { print({E3} + 1); n = n + 1 }; print(n) }
func fsl(a[D] : int, lo : int, hi : int) -> int { var n = 0; for ({E4} in a[lo .. hi]) { print({E4} + 2); n = n + 1 }; print(n) }
func main() -> int
{
    let a = [ {#1}, {#2}, {#3}, {#4}, {#5}, {#6} ] : int;
    let b = [ {#7} ] : int;
    print(ca(a, {#8})); print(ca(b, 1)); print(cs(a, 1, 3)); print(cs(a, 2, 2)); print(cs(a, 0, 5)); print(fa(a)); print(fa(b)); print(fsl(a, 1, 4)); print(fsl(a, 5, 5));
    0
}
"""]},
    # ---- "the iterable is unchanged after iteration": srcs[0] iterates a range / array held in a variable and reads
    # it (bounds, elements, a second iteration) afterwards; alt1 iterates a fresh copy each time
    {"name": "iterable-unchanged", "construct": "a range / array held in a variable is the same after a list comprehension or a for-in loop has iterated it",
     "merges": [("X", "LO"), ("Y", "X"), ("V", "X")],
     "alt_desc": ["every iteration and every later read uses a fresh copy of the range / array instead of the variable that was iterated before"],
     "srcs": ["""
func showi(t[D] : int) -> int { var i = 0; for (i = 0; i < D; i = i + 1) { print(t[i]) }; print(D) }
func showr([ f .. t ] : range) -> int { print(f); print(t) }
func rg({LO} : int, {HI} : int) -> int
{
    let r = [ {LO} .. {HI} ];
    showr(r);
    showi([ {X} * 2 | {X} in r ] : int);
    showr(r);
    showi([ {Y} + 1 | {Y} in r ] : int);
    var s = 0;
    for ({V} in r) { s = s * 10 + {V} };
    showr(r);
    showi([ {Y} + s | {Y} in r ] : int)
}
func ar() -> int
{
    var a = [ {#1}, {#2}, {#3} ] : int;
    showi([ e * 2 | e in a ] : int);
    showi(a);
    var s = 0;
    for (e in a) { s = s + e };
    showi(a);
    showi([ e + s | e in a[0 .. 1] ] : int);
    showi(a)
}
func two(n : int) -> int
{
    let r2 = [ 0 .. n ];
    showi([ x * 10 + y | x in [ 1 .. 3 ]; y in r2 ] : int);
    showr(r2)
}
func main() -> int
{
    print(rg(1, 4)); print(rg(4, 1)); print(rg({#4}, {#4})); print(ar()); print(two(1)); print(two(0));
    0
}
""", """
func showi(t[D] : int) -> int { var i = 0; for (i = 0; i < D; i = i + 1) { print(t[i]) }; print(D) }
func showr([ f .. t ] : range) -> int { print(f); print(t) }
func rg({LO} : int, {HI} : int) -> int
{
    let r = [ {LO} .. {HI} ];
    showr(r);
    showi([ {X} * 2 | {X} in [ {LO} .. {HI} ] ] : int);
    showr([ {LO} .. {HI} ]);
    showi([ {Y} + 1 | {Y} in [ {LO} .. {HI} ] ] : int);
    var s = 0;
    for ({V} in [ {LO} .. {HI} ]) { s = s * 10 + {V} };
    showr([ {LO} .. {HI} ]);
    showi([ {Y} + s | {Y} in [ {LO} .. {HI} ] ] : int)
}
func ar() -> int
{
    var a = [ {#1}, {#2}, {#3} ] : int;
    showi([ e * 2 | e in [ {#1}, {#2}, {#3} ] : int ] : int);
    showi([ {#1}, {#2}, {#3} ] : int);
    var s = 0;
    for (e in [ {#1}, {#2}, {#3} ] : int) { s = s + e };
    showi([ {#1}, {#2}, {#3} ] : int);
    showi([ e + s | e in [ {#1}, {#2} ] : int ] : int);
    showi(a)
}
func two(n : int) -> int
{
    showi([ x * 10 + y | x in [ 1 .. 3 ]; y in [ 0 .. n ] ] : int);
    showr([ 0 .. n ])
}
func main() -> int
{
    print(rg(1, 4)); print(rg(4, 1)); print(rg({#4}, {#4})); print(ar()); print(two(1)); print(two(0));
    0
}
"""]},
]

NAME_POOL = ["w", "h", "n", "k", "x", "y", "len", "idx", "acc", "val", "tmp", "item", "count", "width", "height", "rows", "cols",
             "first", "last", "total", "alpha", "beta", "gamma", "delta", "left", "right", "top", "bot", "p0", "q1", "zz", "foo", "bar",
             "baz", "qux", "node", "size", "lim", "cur", "nxt", "prv", "aa", "bb", "cc1", "dd", "ee", "ff", "gg", "hh", "ii", "jj", "kk"]


def scope_instances(seed):
    """-> list of dict(template, construct, spelling, merged (list of (inner, outer)), source)"""
    import random
    import re
    out = []
    for ti, t in enumerate(SCOPE_TEMPLATES):
        rng = random.Random(seed * 7919 + ti)
        phs = []
        for src in t["srcs"]:
            for m in re.finditer(r"\{([A-Za-z][A-Za-z0-9]*)\}", src):
                if m.group(1) not in phs:
                    phs.append(m.group(1))
        nums = sorted(set(re.findall(r"\{#(\d+)\}", "".join(t["srcs"]))), key=int)
        vals = rng.sample(range(2, 95), len(nums))
        numv = dict(zip(nums, vals))
        reserved = set(re.findall(r"[A-Za-z_][A-Za-z0-9_]*", re.sub(r"\{[^}]*\}", " ", "".join(t["srcs"]))))
        pool = [n for n in NAME_POOL if n not in reserved]
        rng.shuffle(pool)
        base = {p: "%s_%d" % (pool[i % len(pool)], i) if i >= len(pool) else pool[i] for i, p in enumerate(phs)}
        renamed = {p: "v%s%dq" % (chr(97 + rng.randrange(26)) * (1 + rng.randrange(9)), i) for i, p in enumerate(phs)}

        def inst(src, names):
            s = re.sub(r"\{#(\d+)\}", lambda m: str(numv[m.group(1)]), src)
            return re.sub(r"\{([A-Za-z][A-Za-z0-9]*)\}", lambda m: names[m.group(1)], s)

        def merged(pairs):
            names = dict(base)
            # an inner binder takes the (final) spelling of its outer one; chains are followed
            for _ in range(len(pairs) + 1):
                for a, b in pairs:
                    names[a] = names[b]
            return names

        def add(spelling, pairs, src, alt=None):
            out.append({"template": t["name"], "construct": t["construct"], "spelling": spelling, "merged": list(pairs), "source": src,
                        "alt_desc": alt})

        add("distinct", [], inst(t["srcs"][0], base))
        for a, b in t["merges"]:
            add("merge %s=%s" % (a, b), [(a, b)], inst(t["srcs"][0], merged([(a, b)])))
        # all merges at once: the template's own list of merges that are safe TOGETHER (default: every
        # merge; an inner binder listed twice keeps its first outer)
        seen, allp = set(), []
        for a, b in t.get("all", t["merges"]):
            if a not in seen:
                seen.add(a)
                allp.append((a, b))
        add("all", allp, inst(t["srcs"][0], merged(allp)))
        add("renamed", [], inst(t["srcs"][0], renamed))
        for k, alt in enumerate(t["srcs"][1:], 1):
            desc = (t.get("alt_desc") or [])[k - 1:k]
            desc = desc[0] if desc else "closures read the immutable binders through a let copy made in the defining scope"
            add("alt%d" % k, [], inst(alt, base), desc)
            add("alt%d+all" % k, allp, inst(alt, merged(allp)), desc)
    return out


SCOPE_HEAPS = (20000, 400, 150)
SCOPE_MAX_PER_TEMPLATE = 3


def _scope_calls(source):
    """the argument texts of the print(...) statements of main, in order"""
    import re
    m = re.search(r"func main\(\) -> int\n\{(.*)\n\}", source, re.S)
    body = m.group(1) if m else ""
    calls, i = [], 0
    while True:
        j = body.find("print(", i)
        if j < 0:
            break
        k, depth = j + 6, 1
        while k < len(body) and depth > 0:
            depth += {"(": 1, ")": -1}.get(body[k], 0)
            k += 1
        calls.append(body[j + 6:k - 1])
        i = k
    return calls


def _scope_reduce(source, call):
    """the program reduced to the declarations, the functions named in `call` and main() { print(call); 0 }"""
    import re
    chunks, cur = [], []
    for line in source.split("\n"):
        if re.match(r"(func|enum|record|let|var) ", line) and cur:
            chunks.append("\n".join(cur))
            cur = []
        cur.append(line)
    chunks.append("\n".join(cur))
    keep, funcs = [], []
    locals_main = ""
    for ch in chunks:
        m = re.match(r"\s*func (\w+)\(", ch)
        if m is None:
            keep.append(ch)
        elif m.group(1) == "main":
            # the lets of main that the call mentions
            mm = re.search(r"func main\(\) -> int\n\{(.*)\n\}", ch, re.S)
            for st in re.findall(r"\n    (let \w+ = .*?;)(?=\n)", mm.group(1) if mm else "", re.S):
                if re.search(r"\b%s\b" % re.escape(st.split()[1]), call):
                    locals_main += "    %s\n" % st
        else:
            funcs.append((m.group(1), ch))
    # the functions the call mentions, and the ones those mention
    needed, text = [], call
    changed = True
    while changed:
        changed = False
        for name, ch in funcs:
            if name not in needed and re.search(r"\b%s\b" % re.escape(name), text):
                needed.append(name)
                text += ch
                changed = True
    keep += [ch for name, ch in funcs if name in needed]
    return "\n".join(k.strip("\n") for k in keep if k.strip()) + "\nfunc main() -> int\n{\n%s    print(%s);\n    0\n}\n" % (locals_main, call)


def _first_diff(o, b):
    po, pb = o["printed"], b["printed"]
    for i in range(max(len(po), len(pb))):
        if i >= len(po) or i >= len(pb) or po[i] != pb[i]:
            return i
    return len(pb)


def run_scope_family(ctx, nevrun):
    """runs every spelling of every template; all spellings of a template must behave like `distinct`"""
    cases = scope_instances(ctx.seed)
    tmp = tempfile.mkdtemp(prefix="scopemeta_", dir=ctx.outdir)

    def run_batch(name, progs):
        batch = os.path.join(tmp, name)
        with open(batch, "w") as f:
            for pid, mem, src in progs:
                f.write("@@@ %s stack=3000 mem=%d\n%s" % (pid, mem, src if src.endswith("\n") else src + "\n"))
        rc, out, err = common.sh([nevrun, "--timeout", "10", "--batch", batch], timeout=900, env=evaldiff.drv_env())
        return evaldiff.parse_nevrun(out)

    real = run_batch("batch.txt", [("s%d.h%d" % (i, mem), mem, c["source"]) for i, c in enumerate(cases) for mem in SCOPE_HEAPS])
    stats = {"programs": len(cases), "runs": 0, "agree": 0, "heap_limit_skipped": 0, "templates": len(SCOPE_TEMPLATES)}
    distinct = {c["template"]: (i, c) for i, c in enumerate(cases) if c["spelling"] == "distinct"}
    found = []          # (case, mem, outcome, base outcome or None, kind)
    per_template = {}
    for i, c in enumerate(cases):
        bi, bc = distinct[c["template"]]
        b = real.get("s%d.h%d" % (bi, SCOPE_HEAPS[0]))
        for mem in SCOPE_HEAPS:
            o = real.get("s%d.h%d" % (i, mem))
            if o is None or b is None:
                ctx.correspondence_broken("scope-meta:not-run", {"template": c["template"], "spelling": c["spelling"], "mem": mem})
                continue
            stats["runs"] += 1
            if o["kind"] == "LIMIT" and mem != SCOPE_HEAPS[0]:
                stats["heap_limit_skipped"] += 1
                continue
            n = per_template.get(c["template"], 0)
            if o["kind"] == "CRASH":
                # a crash of the distinct spelling is reported once for the template; the others only if that one runs
                if (c is bc and mem == SCOPE_HEAPS[0]) or b["kind"] != "CRASH":
                    if n < SCOPE_MAX_PER_TEMPLATE:
                        per_template[c["template"]] = n + 1
                        found.append((c, mem, o, None, "crash"))
                break
            if b["kind"] != "RESULT":
                if c is bc and mem == SCOPE_HEAPS[0] and b["kind"] != "CRASH":
                    ctx.correspondence_broken("scope-meta:template-does-not-run:%s" % c["template"],
                                              {"outcome": evaldiff.short(b), "log": b["log"][-800:], "source": c["source"]})
                break
            if evaldiff.same(o, b):
                stats["agree"] += 1
            else:
                if n < SCOPE_MAX_PER_TEMPLATE:
                    per_template[c["template"]] = n + 1
                    found.append((c, mem, o, b, "diff"))
                break
    # reduce every finding: for each print(...) of main the program cut down to the functions that call names; the
    # first call on which the offending spelling still differs from the distinct one (or still crashes) is kept
    red, progs = [], []
    for k, (c, mem, o, b, kind) in enumerate(found):
        bc = distinct[c["template"]][1]
        calls, bcalls = _scope_calls(c["source"]), _scope_calls(bc["source"])
        cand = []
        for ci, call in enumerate(calls):
            if ci >= len(bcalls):
                break
            src, bsrc = _scope_reduce(c["source"], call), _scope_reduce(bc["source"], bcalls[ci])
            cand.append((call, src, bsrc))
            progs.append(("r%d_%d.o" % (k, ci), mem, src))
            progs.append(("r%d_%d.b" % (k, ci), SCOPE_HEAPS[0], bsrc))
        red.append(cand)
    real2 = run_batch("reduced.txt", progs) if progs else {}
    shutil.rmtree(tmp, ignore_errors=True)
    chosen = []
    for k, (c, mem, o, b, kind) in enumerate(found):
        pick = {"call": None}
        for ci, (call, src, bsrc) in enumerate(red[k]):
            ro, rb = real2.get("r%d_%d.o" % (k, ci)), real2.get("r%d_%d.b" % (k, ci))
            if ro is None or rb is None or rb["kind"] != "RESULT":
                continue
            if (kind == "crash" and ro["kind"] == "CRASH") or (kind == "diff" and ro["kind"] not in ("LIMIT", "CRASH") and not evaldiff.same(ro, rb)):
                pick = {"call": call, "src": src, "base_src": bsrc, "ro": ro, "rb": rb}
                break
        chosen.append(pick)
    for k, (c, mem, o, b, kind) in enumerate(found):
        r = chosen[k]
        tag = "%s:%s" % (c["template"], c["spelling"].replace(" ", ":"))
        detail = {"template": c["template"], "construct": c["construct"], "spelling": c["spelling"], "merged_binders": c["merged"],
                  "heap_cells": mem, "source": c["source"], "observed": evaldiff.short(o), "log": o["log"][-600:],
                  "first_differing_call": r.get("call")}
        mini = ""
        if r.get("call") is not None:
            ro, rb = r["ro"], r["rb"]
            detail["minimised"] = {"source": r["src"], "observed": evaldiff.short(ro), "distinct_source": r["base_src"],
                                   "distinct_observed": evaldiff.short(rb)}
            mini = "; reduced to `%s`: %s instead of %s" % (r["call"], ro["value"] if ro["kind"] == "CRASH" else evaldiff.short(ro)["printed"] or evaldiff.short(ro)["kind"],
                                                            evaldiff.short(rb)["printed"])
        if kind == "crash":
            ctx.violation("scope-meta:crash:%s" % tag, "scoping template %s (%s), spelling `%s`, heap %d: the real compiler/VM crashes (%s)%s" % (
                c["template"], c["construct"], c["spelling"], mem, o["value"], mini), detail)
        else:
            detail["expected_like_distinct_spelling"] = evaldiff.short(b)
            detail["distinct_source"] = distinct[c["template"]][1]["source"]
            ctx.violation("scope-meta:%s" % tag,
                          "scoping template %s (%s): spelling `%s` (%s) behaves differently from the spelling with all binders distinct%s%s" % (
                              c["template"], c["construct"], c["spelling"],
                              ((c.get("alt_desc") or "equivalent text") + (
                                  "; binders %s share a name" % c["merged"] if c["merged"] else "")) if c["spelling"].startswith("alt") else
                              ("binders %s share a name; lexical scoping gives every use the same binder as before" % c["merged"]) if c["merged"] else
                              "all binders renamed injectively",
                              "" if mem == SCOPE_HEAPS[0] else " (heap %d cells)" % mem,
                              mini or ": %s instead of %s" % (evaldiff.short(o)["printed"] if o["kind"] == "RESULT" else evaldiff.short(o), evaldiff.short(b)["printed"])), detail)
    ctx.count(evaluations=stats["runs"], nontrivial=len([c for c in cases if c["spelling"] != "distinct"]))
    ctx.coverage["scope_metamorphic_family"] = dict(stats, constructs=[t["construct"] for t in SCOPE_TEMPLATES],
                                                   spellings_per_template={t["name"]: len([c for c in cases if c["template"] == t["name"]]) for t in SCOPE_TEMPLATES},
                                                   heaps=list(SCOPE_HEAPS))
    return stats


def run(ctx):
    ctx.proofs()
    lib = common.repobuild("asan")
    nevrun = common.cc_driver("nevrun", ["common/nevrun.c"], lib)
    ok, log = evaldiff.build_eval()
    if not ok:
        ctx.correspondence_broken("ocaml-build", log[-3000:])
        return
    tmp = tempfile.mkdtemp(prefix="corpus_", dir=ctx.outdir)
    ncorpus = c02mod.report_corpus(ctx, nevrun, tmp, CORPUS, "C08")
    shutil.rmtree(tmp, ignore_errors=True)
    try:
        run_scope_family(ctx, nevrun)
    except common.BuildError:
        raise
    except Exception as ex:
        ctx.correspondence_broken("scope-meta-crashed", repr(ex)[:500])
    n = 2100 if ctx.tier == "quick" else 27000
    r = evaldiff.run_evaldiff(ctx, PROFILES, n, ctx.tier, variants=("o", "u", "r"), nevrun=nevrun,
                              shrink_max=2 if ctx.tier == "quick" else 4, heaps=HEAPS, heap_mode="all")
    c02mod.report_common(ctx, r, "evaldiff")
    seen = set()
    for c in sorted(r["c08"], key=lambda c: c["nodes"]):
        key = "variant:%s" % c["case"]
        if len(seen) >= 6:
            break
        seen.add(key)
        ctx.violation(key, "renaming the bound names of %s changes what the real compiler does (%s)" % (c["case"], c["what"]),
                      evaldiff.replay_of(c))
    seen = set()
    for c in sorted(r["c02"], key=lambda c: (0 if "minimised" in c else 1, c["nodes"])):
        key = evaldiff.case_key("evaldiff", c)
        if key in seen or len(seen) >= 6:
            continue
        seen.add(key)
        ctx.violation(key, "scoping/closure/aliasing program %s: real outcome differs from the reference evaluator%s" % (
            c["case"], " with a VM heap of %d cells (agrees with 20000)" % c["mem"] if c.get("mem") else ""),
                      evaldiff.replay_of(c))
    ctx.assumptions.extend(c02mod.NOT_MODELLED)
    ctx.coverage["variant_disagreements"] = len(r["c08"])
    ctx.coverage["evaluator_disagreements"] = len(r["c02"])
    ctx.coverage["corpus_programs"] = ncorpus
    c02mod.evidence(ctx, r, "type-directed random programs of the profiles shadow (one name bound at every binder kind in nested "
                            "scopes, use after the inner scope closed), closure (counters shared by two closures, closures returned "
                            "and called after the definer returned, distinct activations, recursion through a captured name, "
                            "closures over loop variables, adjacent mutually visible nested functions, catch clauses reading "
                            "captured variables, closures called as temporaries around an allocating callee, function-typed cells re-assigned with closures of "
                            "the same literal from other activations, functions nested in a named nested function that mention it) and alias; the original also "
                            "with heaps of 150, 220 and 400 cells; each run as generated, uniquified and injectively renamed on the "
                            "real compiler and compared with the evaluator (seed %d); evaluations = programs x 3 spellings + small-heap runs; "
                            "non-trivial = the profile's mechanism occurs (>= 2 shadowing binders / an escaping closure is called / "
                            "an alias is written and read) and all four outcomes agree" % ctx.seed)
