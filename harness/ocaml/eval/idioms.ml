(* idioms — small program fragments that make sure the mechanism a profile is about really
   occurs (and is observable through print) in every generated program; the random generator of
   gen.ml fills in the sub-expressions and surrounds the fragments with random code.
   Every idiom has the type  st -> env -> item list * env  and binds only fresh names, so it can
   be dropped anywhere in a block. *)
open Evalmodel
open Conv
open Gen

let fresh = fresh_unique
let nn = n_of_int
let let_ n e = ILet (nn n, e)
let var_ n e = IVar (nn n, e)
let pr e = IExpr (EPrint e)
let prb e = IExpr (EPrint (ECond (e, ei 1, ei 0)))
let call f args = ECall (ev f, args)
let bin op a b = EBin (op, a, b)
let asg l r = EAssign (l, r)
let fld e r i = EField (e, nn r, nat_of_int i)
let idx a i = EIndex (a, i)
let fdef name params ret body = FDef (nn name, List.map (fun (x, v, t) -> ((nn x, v), t)) params, ret, body, [], None)
let fdefc name params ret body catches call =
  FDef (nn name, List.map (fun (x, v, t) -> ((nn x, v), t)) params, ret, body, catches, call)
let lam st params ret body = ELambda (fdef (fresh st) params ret body)
let lit st = ei (Rng.int st.rng 90 + 1)
let filler st env = fst (gen_expr st env TInt 1 ~op:false)
let fillerb st env = fst (gen_expr st env TBool 1 ~op:true)

let top_env env v = { env with vars = env.vars @ [v] }
let add_top st env fd v = st.top <- fd :: st.top; top_env env v
let bindv env n ty b = bind env (mkv n ty b env.lvl)

let marker st = st.marker <- st.marker + 1; st.markers <- st.marker :: st.markers; st.marker

(* a record type with the given field types, created on demand *)
let need_record st tys =
  match List.find_opt (fun (_, l) -> l = tys) st.recs with
  | Some (r, _) -> r
  | None -> let r = fresh st in st.recs <- st.recs @ [(r, tys)]; r

(* ---- tracers ------------------------------------------------------------------------------------ *)
let tracer st env =
  match st.tracer with
  | Some v when (match resolve env v.vn with Some v' -> v' == v | None -> false) -> (v, env)
  | _ ->
    let f = fresh st and k = fresh st and x = fresh st in
    let fd = fdef f [(k, false, TInt); (x, false, TInt)] TInt [pr (ev k); IExpr (ev x)] in
    let v = mkv ~fcost:4 f (TFun ([TInt; TInt], TInt)) BFunc 0 in
    st.tracer <- Some v;
    (v, add_top st env fd v)

let btracer st env =
  match st.btracer with
  | Some v when (match resolve env v.vn with Some v' -> v' == v | None -> false) -> (v, env)
  | _ ->
    let f = fresh st and k = fresh st and x = fresh st in
    let fd = fdef f [(k, false, TInt); (x, false, TBool)] TBool [pr (ev k); IExpr (ev x)] in
    let v = mkv ~fcost:4 f (TFun ([TInt; TBool], TBool)) BFunc 0 in
    st.btracer <- Some v;
    (v, add_top st env fd v)

let tag = ref 0
let next_tag () = incr tag; 1000 + (!tag mod 8000)

(* ---- order ---------------------------------------------------------------------------------------- *)
let id_order st env : item list * env =
  let tr, env = tracer st env in
  let tb, env = btracer st env in
  let t e = call tr.vn [ei (next_tag ()); e] in
  let tbool e = call tb.vn [ei (next_tag ()); e] in
  let f () = filler st env in
  let res = fresh st in
  let arith () = Rng.pick st.rng [Add; Sub; Mul; BXor; BOr] in
  flag st "order_probe";
  let form = Rng.int st.rng 11 in
  match form with
  | 0 ->
    let a = t (f ()) in let b = t (f ()) in let c = t (f ()) in
    let e = if Rng.bool st.rng then bin (arith ()) (bin (arith ()) a b) c else bin (arith ()) a (bin (arith ()) b c) in
    ([let_ res e; pr (ev res)], bindv env res TInt BLet)
  | 1 ->
    (* arguments of a call, nested *)
    let g = fresh st and p1 = fresh st and p2 = fresh st and p3 = fresh st in
    let fd = fdef g [(p1, false, TInt); (p2, false, TInt); (p3, false, TInt)] TInt
        [IExpr (bin Sub (bin Add (bin Mul (ev p1) (ei 100)) (bin Mul (ev p2) (ei 10))) (ev p3))] in
    let gv = mkv ~fcost:8 g (TFun ([TInt; TInt; TInt], TInt)) BFunc 0 in
    let env = add_top st env fd gv in
    let inner = call g [t (f ()); t (f ()); t (f ())] in
    let e = call g [t (f ()); (if Rng.bool st.rng then inner else t (f ())); t (f ())] in
    ([let_ res e; pr (ev res)], bindv env res TInt BLet)
  | 2 ->
    let n = Rng.range st.rng 2 4 in
    let e = idx (EArrLit (List.init n (fun _ -> t (f ())), TInt)) (t (ei (Rng.int st.rng n))) in
    ([let_ res e; pr (ev res)], bindv env res TInt BLet)
  | 3 ->
    let r = need_record st [TInt; TInt; TInt] in
    let e = fld (ERecNew (nn r, [t (f ()); t (f ()); t (f ())])) r (Rng.int st.rng 3) in
    ([let_ res e; pr (ev res)], bindv env res TInt BLet)
  | 4 ->
    let a = fresh st in
    let items = [var_ a (EArrLit ([f (); f (); f ()], TInt));
                 IExpr (asg (idx (ev a) (t (ei (Rng.int st.rng 3)))) (t (f ())));
                 pr (idx (ev a) (ei 0)); pr (idx (ev a) (ei 1)); pr (idx (ev a) (ei 2))] in
    (items, bindv env a (TArr TInt) BVar)
  | 5 ->
    let c1 = fillerb st env and c2 = fillerb st env and c3 = fillerb st env in
    let e = match Rng.int st.rng 4 with
      | 0 -> bin Or (bin And (tbool c1) (tbool c2)) (tbool c3)
      | 1 -> bin And (bin Or (tbool c1) (tbool c2)) (tbool c3)
      | 2 -> bin And (tbool c1) (bin And (tbool c2) (tbool c3))
      | _ -> bin Or (tbool c1) (bin Or (ENot (tbool c2)) (tbool c3)) in
    let rb = fresh st in
    ([let_ rb e; prb (ev rb)], bindv env rb TBool BLet)
  | 6 ->
    (* the callee expression is evaluated after the arguments *)
    let pf = fresh st and k = fresh st and g = fresh st in
    let fty = TFun ([TInt], TInt) in
    let fd = fdef pf [(k, false, TInt); (g, false, fty)] fty [pr (ev k); IExpr (ev g)] in
    let pv = mkv ~fcost:4 pf (TFun ([TInt; fty], fty)) BFunc 0 in
    let env = add_top st env fd pv in
    let x = fresh st in
    let l = lam st [(x, false, TInt)] TInt [IExpr (bin Add (ev x) (lit st))] in
    let e = ECall (call pf [ei (next_tag ()); l], [t (f ())]) in
    ([let_ res e; pr (ev res)], bindv env res TInt BLet)
  | 7 ->
    let e = ECond (tbool (fillerb st env), t (f ()), t (f ())) in
    ([let_ res e; pr (ev res)], bindv env res TInt BLet)
  | 8 ->
    (* operands that mutate a variable the other operand reads: cells are read when the
       operator executes *)
    let x = fresh st in
    let e = match Rng.int st.rng 4 with
      | 0 -> bin Add (asg (ev x) (bin Add (ev x) (ei 1))) (ev x)
      | 1 -> bin Sub (ev x) (asg (ev x) (lit st))
      | 2 -> bin Sub (bin Add (ev x) (ei 0)) (asg (ev x) (lit st))
      | _ -> bin Mul (ev x) (EBlock [IExpr (asg (ev x) (bin Add (ev x) (ei 2))); IExpr (ev x)]) in
    ([var_ x (lit st); let_ res e; pr (ev res); pr (ev x)], bindv (bindv env x TInt BVar) res TInt BLet)
  | 9 ->
    (* array expression before index expression *)
    let ta = fresh st and k = fresh st and a = fresh st in
    let fd = fdef ta [(k, false, TInt); (a, false, TArr TInt)] (TArr TInt) [pr (ev k); IExpr (ev a)] in
    let tv = mkv ~fcost:4 ta (TFun ([TInt; TArr TInt], TArr TInt)) BFunc 0 in
    let env = add_top st env fd tv in
    let e = idx (call ta [ei (next_tag ()); EArrLit ([f (); f ()], TInt)]) (t (ei (Rng.int st.rng 2))) in
    ([let_ res e; pr (ev res)], bindv env res TInt BLet)
  | _ ->
    (* assignment: left side first *)
    let r = need_record st [TInt; TInt] in
    let p = fresh st and tp = fresh st and k = fresh st and q = fresh st in
    let fd = fdef tp [(k, false, TInt); (q, false, TRec (nn r))] (TRec (nn r)) [pr (ev k); IExpr (ev q)] in
    let tv = mkv ~fcost:4 tp (TFun ([TInt; TRec (nn r)], TRec (nn r))) BFunc 0 in
    let env = add_top st env fd tv in
    let items = [let_ p (ERecNew (nn r, [f (); f ()]));
                 IExpr (asg (fld (call tp [ei (next_tag ()); ev p]) r (Rng.int st.rng 2)) (t (f ())));
                 pr (fld (ev p) r 0); pr (fld (ev p) r 1)] in
    (items, bindv env p (TRec (nn r)) BLet)

(* ---- alias ------------------------------------------------------------------------------------------ *)
let id_alias st env : item list * env =
  let a = fresh st and b = fresh st and c = fresh st in
  let l1 = lit st and l2 = lit st and x = bin Add (lit st) (ei 100) in
  flag st "alias_probe";
  let env_a = bindv env a TInt BVar in
  match Rng.int st.rng 14 with
  | 0 -> ([var_ a l1; var_ b (ev a); IExpr (asg (ev b) x); pr (ev a)], bindv env_a b TInt BVar)
  | 1 -> ([var_ a l1; let_ b (ev a); IExpr (asg (ev a) x); pr (ev b)], bindv env_a b TInt BLet)
  | 2 ->
    let f = fresh st and p = fresh st in
    let fd = fdef f [(p, true, TInt)] TInt [IExpr (asg (ev p) x); IExpr (ei 0)] in
    ([IFunc fd; var_ a l1; IExpr (call f [ev a]); pr (ev a)],
     bind env_a (mkv ~fcost:5 ~fvars:[true] f (TFun ([TInt], TInt)) BFunc env.lvl))
  | 3 ->
    let r = need_record st [TInt; TInt] in
    ([var_ a l1; let_ b (ERecNew (nn r, [ev a; l2])); IExpr (asg (fld (ev b) r 0) x); pr (ev a);
      IExpr (asg (ev a) (lit st)); pr (fld (ev b) r 0)], bindv env_a b (TRec (nn r)) BLet)
  | 4 ->
    ([var_ a l1; var_ b (EArrLit ([l2; ev a], TInt)); IExpr (asg (idx (ev b) (ei 1)) x); pr (ev a);
      IExpr (asg (ev a) (lit st)); pr (idx (ev b) (ei 1))], bindv env_a b (TArr TInt) BVar)
  | 5 ->
    let cnd = fillerb st env in
    ([var_ a l1; var_ c l2; var_ b (ECond (cnd, ev a, ev c)); IExpr (asg (ev b) x); pr (ev a); pr (ev c)],
     bindv (bindv env_a c TInt BVar) b TInt BVar)
  | 6 ->
    let r = need_record st [TInt; TInt] in
    ([var_ a (ERecNew (nn r, [l1; l2])); var_ b (ev a); IExpr (asg (fld (ev b) r 1) x); pr (fld (ev a) r 1)],
     bindv (bindv env a (TRec (nn r)) BVar) b (TRec (nn r)) BVar)
  | 7 ->
    ([var_ a (EArrLit ([l1; l2; lit st], TInt)); var_ b (ev a); IExpr (asg (idx (ev b) (ei 2)) x); pr (idx (ev a) (ei 2))],
     bindv (bindv env a (TArr TInt) BVar) b (TArr TInt) BVar)
  | 8 ->
    let f = fresh st and p = fresh st in
    let fd = fdef f [(p, false, TInt)] TInt [IExpr (ev p)] in
    ([IFunc fd; var_ a l1; let_ b (call f [ev a]); IExpr (asg (ev a) x); pr (ev b)],
     bindv (bind env_a (mkv ~fcost:3 ~firstclass:true ~fvars:[false] f (TFun ([TInt], TInt)) BFunc env.lvl)) b TInt BLet)
  | 9 -> ([var_ a l1; var_ b (bin Add (ev a) (ei 0)); IExpr (asg (ev b) x); pr (ev a); pr (ev b)], bindv env_a b TInt BVar)
  | 10 -> ([var_ a l1; let_ b (EBlock [pr (ei (next_tag ())); IExpr (ev a)]); IExpr (asg (ev a) x); pr (ev b)],
           bindv env_a b TInt BLet)
  | 11 -> ([var_ a l1; let_ b (asg (ev a) l2); IExpr (asg (ev a) x); pr (ev b)], bindv env_a b TInt BLet)
  | 12 ->
    (* a non-var parameter is the caller's cell; a conditional re-exports it as assignable *)
    let f = fresh st and p = fresh st and q = fresh st in
    let fd = fdef f [(p, false, TInt)] TInt [var_ q (ECond (fillerb st env, ev p, ev p)); IExpr (asg (ev q) x); IExpr (ei 0)] in
    ([IFunc fd; var_ a l1; IExpr (call f [ev a]); pr (ev a)],
     bind env_a (mkv ~fcost:8 ~firstclass:true ~fvars:[false] f (TFun ([TInt], TInt)) BFunc env.lvl))
  | _ ->
    ([var_ a (EArrLit ([l1; l2], TInt)); var_ b (idx (ev a) (ei 0)); IExpr (asg (ev b) x); pr (idx (ev a) (ei 0));
      IExpr (asg (idx (ev a) (ei 0)) (lit st)); pr (ev b)],
     bindv (bindv env a (TArr TInt) BVar) b TInt BVar)

(* ---- closures --------------------------------------------------------------------------------------- *)
let t0 = TFun ([], TInt)
let t1 = TFun ([TInt], TInt)

let id_counter st env : item list * env =
  let mk = fresh st and s = fresh st and c = fresh st in
  let step = lit st in
  let inc = lam st [] TInt [IExpr (asg (ev c) (bin Add (ev c) step)); IExpr (ev c)] in
  let get = lam st [] TInt [IExpr (bin Mul (ev c) (ei 2))] in
  let c1 = fresh st and c2 = fresh st in
  flag st "closure_escape"; flag st "counter";
  match Rng.int st.rng 3 with
  | 0 ->
    let fd = fdef mk [(s, false, TInt)] t0 [var_ c (bin Add (ev s) (ei 0)); IExpr inc] in
    let mv = mkv ~fcost:5 mk (TFun ([TInt], t0)) BFunc 0 in
    let env = add_top st env fd mv in
    ([let_ c1 (call mk [lit st]); let_ c2 (call mk [lit st]);
      pr (ECall (ev c1, [])); pr (ECall (ev c1, [])); pr (ECall (ev c2, []));
      pr (bin Sub (bin Mul (ECall (ev c1, [])) (ei 1000)) (ECall (ev c2, [])))],
     bindv (bindv env c1 t0 BLet) c2 t0 BLet)
  | 1 ->
    (* two closures over one cell, returned in a record *)
    let r = need_record st [t0; t0] in
    let fd = fdef mk [(s, false, TInt)] (TRec (nn r)) [var_ c (bin Add (ev s) (ei 0)); IExpr (ERecNew (nn r, [inc; get]))] in
    let mv = mkv ~fcost:6 mk (TFun ([TInt], TRec (nn r))) BFunc 0 in
    let env = add_top st env fd mv in
    ([let_ c1 (call mk [lit st]); let_ c2 (call mk [lit st]);
      pr (ECall (fld (ev c1) r 0, [])); pr (ECall (fld (ev c1) r 1, [])); pr (ECall (fld (ev c2) r 1, []));
      pr (ECall (fld (ev c1) r 0, [])); pr (ECall (fld (ev c1) r 1, []))],
     bindv (bindv env c1 (TRec (nn r)) BLet) c2 (TRec (nn r)) BLet)
  | _ ->
    (* nested definer, closures returned in an array *)
    let fd = fdef mk [(s, false, TInt)] (TArr t0) [var_ c (bin Add (ev s) (ei 0)); IExpr (EArrLit ([inc; get], t0))] in
    ([IFunc fd; let_ c1 (call mk [lit st]); let_ c2 (call mk [lit st]);
      pr (ECall (idx (ev c1) (ei 0), [])); pr (ECall (idx (ev c2) (ei 0), [])); pr (ECall (idx (ev c1) (ei 0), []));
      pr (ECall (idx (ev c1) (ei 1), [])); pr (ECall (idx (ev c2) (ei 1), []))],
     bindv (bindv (bind env (mkv ~fcost:6 mk (TFun ([TInt], TArr t0)) BFunc env.lvl)) c1 (TArr t0) BLet) c2 (TArr t0) BLet)

let id_adder st env : item list * env =
  let mk = fresh st and k = fresh st and x = fresh st and j = fresh st in
  let a1 = fresh st and a2 = fresh st in
  flag st "closure_escape"; flag st "adder";
  (* captures a parameter and a local; two activations *)
  let body = [let_ j (bin Mul (ev k) (ei 3));
              IExpr (lam st [(x, false, TInt)] TInt [IExpr (bin Sub (bin Add (bin Mul (ev x) (ei 100)) (ev k)) (ev j))])] in
  let fd = fdef mk [(k, false, TInt)] t1 body in
  let mv = mkv ~fcost:6 mk (TFun ([TInt], t1)) BFunc env.lvl in
  let items = [IFunc fd; let_ a1 (call mk [lit st]); let_ a2 (call mk [lit st]);
               pr (ECall (ev a1, [lit st])); pr (ECall (ev a2, [lit st]));
               pr (ECall (call mk [lit st], [filler st env]))] in
  (items, bindv (bindv (bind env mv) a1 t1 BLet) a2 t1 BLet)

let id_loopcap st env : item list * env =
  let fs = fresh st and i = fresh st and j = fresh st and z = fresh st in
  let n = Rng.range st.rng 2 4 in
  flag st "closure_loopvar"; flag st "closure_escape";
  let zero = lam st [] TInt [IExpr (ei 0)] in
  let body = [let_ j (bin Mul (ev i) (ei 10));
              IExpr (asg (idx (ev fs) (ev i)) (lam st [] TInt [IExpr (bin Add (bin Mul (ev j) (ei 100)) (ev i))]));
              IExpr (asg (ev i) (bin Add (ev i) (ei 1)))] in
  (* distinct element cells: [z, z] would make every element the one cell of z *)
  let items = [let_ z zero; var_ fs (EArrLit (List.init n (fun k -> if k = 0 && Rng.pct st.rng 30 then ev z else lam st [] TInt [IExpr (ei k)]), t0)); var_ i (ei 0);
               IExpr (EWhile (bin Lt0 (ev i) (ei n), EBlock body))]
              @ List.init n (fun k -> pr (ECall (idx (ev fs) (ei k), []))) in
  (items, bind (bindv env fs (TArr t0) BLet) (mkv ~prot:true i TInt BVar env.lvl))

let id_reccap st env : item list * env =
  let outer = fresh st and m = fresh st and acc = fresh st and go = fresh st and n = fresh st in
  flag st "closure_rec";
  let gofd = fdef go [(n, false, TInt)] TInt
      [IExpr (ECond (bin Le (ev n) (ei 0), ev acc,
                     EBlock [IExpr (asg (ev acc) (bin Add (ev acc) (bin Mul (ev n) (ev m)))); IExpr (call go [bin Sub (ev n) (ei 1)])]))] in
  let fd = fdef outer [(m, false, TInt)] TInt [var_ acc (ei 0); IFunc gofd; IExpr (call go [ei (Rng.range st.rng 1 6)])] in
  let ov = mkv ~fcost:60 ~firstclass:true ~fvars:[false] outer t1 BFunc env.lvl in
  ([IFunc fd; pr (call outer [lit st]); pr (call outer [filler st env])], bind env ov)

let id_compose st env : item list * env =
  let comp = fresh st and f = fresh st and g = fresh st and x = fresh st and h = fresh st and y = fresh st and z = fresh st in
  flag st "closure_escape"; flag st "compose";
  let fd = fdef comp [(f, false, t1); (g, false, t1)] t1 [IExpr (lam st [(x, false, TInt)] TInt [IExpr (ECall (ev f, [ECall (ev g, [ev x])]))])] in
  let cv = mkv ~fcost:5 comp (TFun ([t1; t1], t1)) BFunc env.lvl in
  let l1 = lam st [(y, false, TInt)] TInt [IExpr (bin Mul (ev y) (lit st))] in
  let l2 = lam st [(z, false, TInt)] TInt [IExpr (bin Sub (ev z) (lit st))] in
  ([IFunc fd; let_ h (call comp [l1; l2]); pr (ECall (ev h, [lit st])); pr (ECall (call comp [ev h; ev h], [filler st env]))],
   bindv (bind env cv) h t1 BLet)

(* variables of the outermost function used two levels further in: the inner closure finds them
   through the environment of the middle one (transitively captured); distinct multipliers and a
   random order of use so that a wrong environment index shows in the value *)
let id_deepcap st env : item list * env =
  let outer = fresh st and a = fresh st and b = fresh st and c = fresh st and d = fresh st in
  let mid = fresh st and e = fresh st and inner = fresh st and f = fresh st and res = fresh st in
  flag st "deep_capture"; flag st "closure_escape";
  let term (x, m) = bin Mul (ev x) (ei m) in
  let sum l = match l with [] -> ei 0 | h :: t -> List.fold_left (fun acc x -> bin (if Rng.pct st.rng 25 then Sub else Add) acc (term x)) (term h) t in
  let outer_vars = [(a, 1000); (b, 100); (c, 10); (d, 1)] in
  let inner_uses = Rng.shuffle st.rng ((e, 7) :: (f, 3) :: outer_vars) in
  let k = Rng.range st.rng 3 (List.length inner_uses) in
  let rec take k l = if k <= 0 then [] else match l with [] -> [] | x :: t -> x :: take (k - 1) t in
  let inner_uses = take k inner_uses in
  let mid_uses = take (Rng.range st.rng 1 3) (Rng.shuffle st.rng outer_vars) in
  let inner_body = (if Rng.bool st.rng then [IExpr (asg (ev d) (bin Add (ev d) (ei 1)))] else []) @ [IExpr (sum inner_uses)] in
  let escaping = Rng.bool st.rng in
  let mid_fd =
    if escaping then
      (* mid returns the inner closure: it is called after mid AND outer's callee frames are gone *)
      fdef mid [(e, false, TInt)] t1 [IFunc (fdef inner [(f, false, TInt)] TInt inner_body); IExpr (ev inner)]
    else
      fdef mid [(e, false, TInt)] TInt
        [IFunc (fdef inner [(f, false, TInt)] TInt inner_body);
         IExpr (bin Sub (call inner [bin Add (ev e) (ei 1)]) (sum mid_uses))] in
  let use_mid = if escaping then ECall (call mid [lit st], [lit st]) else call mid [lit st] in
  let ofd = fdef outer [(a, false, TInt); (b, false, TInt)] TInt
      [let_ c (bin Add (ev a) (lit st)); var_ d (bin Mul (ev b) (ei 2)); IFunc mid_fd;
       IExpr (bin Add (use_mid) (bin Mul (ev d) (ei 100000)))] in
  let ov = mkv ~fcost:50 ~firstclass:false ~fvars:[false; false] outer (TFun ([TInt; TInt], TInt)) BFunc env.lvl in
  ([IFunc ofd; let_ res (call outer [lit st; lit st]); pr (ev res); pr (call outer [filler st env; lit st])],
   bindv (bind env ov) res TInt BLet)

(* adjacent nested functions are mutually visible (Eval.v func_env): forward references, mutual
   recursion over a measure, a captured variable shared by the whole run, the run inside an inner
   block or a lambda, an escaping member of the run, and a later sibling that takes the place of an
   outer function of the same name in the body of an EARLIER sibling *)
let id_siblings st env : item list * env =
  let outer = fresh st and k = fresh st and c = fresh st and res = fresh st in
  let a = fresh st and b = fresh st and d = fresh st and n = fresh st and m = fresh st and x = fresh st in
  flag st "siblings";
  let l1 = lit st and l2 = lit st in
  match Rng.int st.rng 8 with
  | 0 ->
    (* forward chain a -> b -> d in a random order of declaration; every member reads the captured c and k *)
    let fa = IFunc (fdef a [] TInt [IExpr (bin Add (bin Mul (call b [ei 2]) (ei 10)) (ev c))]) in
    let fb = IFunc (fdef b [(x, false, TInt)] TInt [IExpr (bin Sub (bin Mul (call d []) (ev x)) (ev k))]) in
    let fdd = IFunc (fdef d [] TInt [IExpr (bin Add (ev k) l1)]) in
    let run = Rng.shuffle st.rng [fa; fb; fdd] in
    let escape = Rng.bool st.rng in
    let t0 = TFun ([], TInt) in
    let ofd = fdef outer [(k, false, TInt)] (if escape then t0 else TInt)
        ([var_ c (bin Mul (ev k) (ei 2))] @ run @ [IExpr (asg (ev c) (bin Add (ev c) (ei 1))); IExpr (if escape then ev a else call a [])]) in
    let ov = mkv ~fcost:40 ~fvars:[false] outer (TFun ([TInt], if escape then t0 else TInt)) BFunc env.lvl in
    if escape then
      ([IFunc ofd; let_ res (call outer [lit st]); pr (ECall (ev res, [])); pr (ECall (call outer [lit st], []))], bindv (bind env ov) res t0 BLet)
    else ([IFunc ofd; let_ res (call outer [lit st]); pr (ev res)], bindv (bind env ov) res TInt BLet)
  | 1 ->
    (* mutual recursion over a measure; both members update a captured accumulator *)
    let fa = IFunc (fdef a [(n, false, TInt)] TInt
                      [IExpr (ECond (bin Le (ev n) (ei 0), ev c,
                                     EBlock [IExpr (asg (ev c) (bin Add (ev c) (bin Mul (ev n) (ev k)))); IExpr (call b [bin Sub (ev n) (ei 1)])]))]) in
    let fb = IFunc (fdef b [(m, false, TInt)] TInt
                      [IExpr (ECond (bin Le (ev m) (ei 0), bin Sub (ei 0) (ev c),
                                     bin Add (call a [bin Sub (ev m) (ei 1)]) (ei 1)))]) in
    let run = if Rng.bool st.rng then [fa; fb] else [fb; fa] in
    let ofd = fdef outer [(k, false, TInt)] TInt ([var_ c (ei 0)] @ run @ [IExpr (bin Add (call a [ei (Rng.range st.rng 0 7)]) (bin Mul (call b [ei (Rng.range st.rng 0 6)]) (ei 1000)))]) in
    let ov = mkv ~fcost:120 ~firstclass:true ~fvars:[false] outer (TFun ([TInt], TInt)) BFunc env.lvl in
    ([IFunc ofd; pr (call outer [lit st]); pr (call outer [filler st env])], bind env ov)
  | 2 ->
    (* the run stands in an inner block and in a lambda body *)
    let f = fresh st in
    let blk = EBlock [IFunc (fdef a [] TInt [IExpr (bin Add (call b []) (ev k))]); IFunc (fdef b [] TInt [IExpr (bin Mul (ev k) (ei 3))]); IExpr (call a [])] in
    let l = lam st [(x, false, TInt)] TInt
        [IFunc (fdef d [] TInt [IExpr (bin Sub (call n [ev x]) (ev k))]); IFunc (fdef n [(m, false, TInt)] TInt [IExpr (bin Mul (ev m) (bin Add (ev x) (ei 1)))]);
         IExpr (call d [])] in
    let ofd = fdef outer [(k, false, TInt)] TInt [let_ c blk; let_ f l; IExpr (bin Add (bin Mul (ev c) (ei 1000)) (ECall (ev f, [l1])))] in
    let ov = mkv ~fcost:40 ~firstclass:true ~fvars:[false] outer (TFun ([TInt], TInt)) BFunc env.lvl in
    ([IFunc ofd; let_ res (call outer [lit st]); pr (ev res)], bindv (bind env ov) res TInt BLet)
  | 3 ->
    (* an outer function h; further in, a run [f; h]: f sees the LATER sibling h, not the outer one;
       with a separating item between f and h it is the outer one (both shapes compile) *)
    let h = fresh st and f = fresh st and zz = fresh st in
    st.shadowing <- st.shadowing + 1;
    let sep = Rng.pct st.rng 40 in
    let ffd = IFunc (fdef f [] TInt [IExpr (bin Add (bin Mul (call h []) (ei 7)) (ev k))]) in
    let own = IFunc (fdef h [] TInt [IExpr (bin Add l2 (ei 200))]) in
    let inner_items = [ffd] @ (if sep then [let_ zz (lit st)] else []) @ [own; IExpr (bin Add (bin Mul (call f []) (ei 1000)) (call h []))] in
    let mid = fresh st in
    let ofd = fdef outer [(k, false, TInt)] TInt
        [IFunc (fdef h [] TInt [IExpr (bin Add (ev k) (ei 1))]);
         IFunc (fdef mid [] TInt inner_items);
         IExpr (bin Add (call mid []) (call h []))] in
    let ov = mkv ~fcost:40 ~firstclass:true ~fvars:[false] outer (TFun ([TInt], TInt)) BFunc env.lvl in
    ([IFunc ofd; let_ res (call outer [lit st]); pr (ev res)], bindv (bind env ov) res TInt BLet)
  | 5 ->
    (* a function h nested in the NAMED NESTED function f mentions f itself (known finding
       nested-self-reference-through-inner-closure, fixed in /repo c90fbb4): f inside another function,
       or directly in main; h reads variables of every level *)
    let f = fresh st and h = fresh st and j = fresh st in
    let deep = Rng.bool st.rng in
    let ffd = fdef f [(n, false, TInt)] TInt
        [IFunc (fdef h [(j, false, TInt)] TInt
                  [IExpr (ECond (bin Le (ev j) (ei 0), bin Add (ei 100) (if deep then ev k else ev n),
                                 bin Add (call f [bin Sub (ev j) (ei 1)]) (bin Mul (ev n) (ei 10))))]);
         IExpr (ECond (bin Le (ev n) (ei 0), ei 1, call h [ev n]))] in
    let arg = ei (Rng.range st.rng 0 4) in
    if deep then
      let ofd = fdef outer [(k, false, TInt)] TInt [let_ c (bin Add (ev k) l1); IFunc ffd; IExpr (bin Add (call f [arg]) (ev c))] in
      let ov = mkv ~fcost:120 ~firstclass:true ~fvars:[false] outer (TFun ([TInt], TInt)) BFunc env.lvl in
      ([IFunc ofd; pr (call outer [lit st]); pr (call outer [filler st env])], bind env ov)
    else ([IFunc ffd; let_ res (call f [arg]); pr (ev res); pr (call f [ei (Rng.range st.rng 0 3)])], bindv env res TInt BLet)
  | 6 ->
    (* the same two function levels further in: f { m { h mentions f } } *)
    let f = fresh st and h = fresh st and j = fresh st and mm = fresh st and y = fresh st in
    let ffd = fdef f [(n, false, TInt)] TInt
        [IFunc (fdef mm [(y, false, TInt)] TInt
                  [IFunc (fdef h [(j, false, TInt)] TInt
                            [IExpr (ECond (bin Le (ev j) (ei 0), bin Add (ev c) (ev y),
                                           bin Add (call f [bin Sub (ev j) (ei 1)]) (bin Add (ev y) (bin Mul (ev n) (ei 100)))))]);
                   IExpr (call h [ev y])]);
         IExpr (ECond (bin Le (ev n) (ei 0), ev k, call mm [ev n]))] in
    let ofd = fdef outer [(k, false, TInt)] TInt [let_ c (bin Add (ev k) l1); IFunc ffd; IExpr (call f [ei (Rng.range st.rng 0 4)])] in
    let ov = mkv ~fcost:120 ~firstclass:true ~fvars:[false] outer (TFun ([TInt], TInt)) BFunc env.lvl in
    ([IFunc ofd; pr (call outer [lit st]); pr (call outer [filler st env])], bind env ov)
  | 7 ->
    (* h (which mentions its enclosing named nested f) is returned and called after f, and the function
       around f, have returned; every call of h makes new activations of f *)
    let f = fresh st and h = fresh st and j = fresh st and g = fresh st in
    let t1 = TFun ([TInt], TInt) in
    let ffd = fdef f [(n, false, TInt)] t1
        [IFunc (fdef h [(j, false, TInt)] TInt
                  [IExpr (ECond (bin Le (ev j) (ei 0), bin Add (bin Mul (ev n) (ei 10)) (ev k),
                                 bin Add (ECall (call f [bin Add (ev n) (ei 1)], [bin Sub (ev j) (ei 1)])) (ei 1000)))]);
         IExpr (ev h)] in
    let ofd = fdef outer [(k, false, TInt)] t1 [IFunc ffd; IExpr (call f [l1])] in
    let ov = mkv ~fcost:20 ~fvars:[false] outer (TFun ([TInt], t1)) BFunc env.lvl in
    ([IFunc ofd; let_ g (call outer [lit st]); pr (ECall (ev g, [ei (Rng.range st.rng 0 3)])); pr (ECall (ev g, [ei 1]));
      pr (ECall (call outer [lit st], [ei 2]))], bind env ov)
  | _ ->
    (* an earlier sibling hands a later one out as a value; called after the definer returned *)
    let t1 = TFun ([TInt], TInt) in
    let fa = IFunc (fdef a [] t1 [IExpr (ev b)]) in
    let fb = IFunc (fdef b [(x, false, TInt)] TInt [IExpr (bin Add (bin Mul (ev x) (ev k)) (ev c))]) in
    let ofd = fdef outer [(k, false, TInt)] t1 [let_ c (bin Add (ev k) l1); fa; fb; IExpr (call a [])] in
    let ov = mkv ~fcost:20 ~fvars:[false] outer (TFun ([TInt], t1)) BFunc env.lvl in
    ([IFunc ofd; let_ res (call outer [lit st]); pr (ECall (ev res, [lit st])); pr (ECall (call outer [lit st], [filler st env]))],
     bindv (bind env ov) res t1 BLet)

(* ---- catch ------------------------------------------------------------------------------------------ *)
let print_wrap i = EPrint (ev i)

let id_catch st env : item list * env =
  let z = fresh st in                         (* a variable holding 0, so that no constant divisor is 0 *)
  let fault kind zero =
    match kind with
    | 0 -> bin (if Rng.bool st.rng then Div else Mod) (lit st) zero
    | 1 -> idx (EArrLit ([lit st; lit st], TInt)) (bin Add zero (ei (if Rng.bool st.rng then 2 else -1)))
    | _ -> let r = need_record st [TInt; TInt] in
      let p = fresh st in
      EBlock [var_ p (ERecNew (nn r, [lit st; lit st])); IExpr (asg (ev p) (ERecNil (nn r))); IExpr (fld (ev p) r (Rng.int st.rng 2))] in
  let exn_of kind = match kind with 0 -> ExDivision | 1 -> ExIndexOob | _ -> ExNil in
  let others kind = List.filter (fun e -> e <> exn_of kind) [ExDivision; ExIndexOob; ExNil; ExArrSize] in
  let handler v = let m = marker st in [pr (ei m); IExpr v] in
  (* what a handler returns when it looks at its function's frame: the parameters ps (distinct
     multipliers, so that a wrong slot shows in the value) *)
  let hval (ps : expr list) : expr =
    match ps with
    | [] -> ei 7
    | _ ->
      let p = Rng.pick st.rng ps in
      (match Rng.int st.rng 5 with
       | 0 -> bin Add p (ei 1000)
       | 1 -> bin Sub (bin Mul p (ei 10)) (Rng.pick st.rng ps)
       | 2 | 3 -> List.fold_left (fun acc x -> bin Add (bin Mul acc (ei 100)) x) (ei 1) ps
       | _ -> p) in
  let kind = Rng.int st.rng 3 in
  flag st "catch_probe";
  let res = fresh st in
  let env0 = bindv env z TInt BVar in
  let zdef = var_ z (ei 0) in
  let zarg () = if Rng.pct st.rng 12 then lit st else ev z in
  match Rng.weighted st.rng [10, 0; 12, 1; 10, 2; 10, 3; 10, 4; 10, 5; 8, 6; 12, 7; 22, 8; 14, 9] with
  | 0 ->
    (* chain of calls, fault at the bottom, caught at level j; clauses in random order *)
    let depth = Rng.range st.rng 1 3 in
    let j = Rng.range st.rng 1 depth in
    let names = Array.init (depth + 1) (fun _ -> fresh st) in
    let items = ref [] in
    for lv = depth downto 1 do
      let p = fresh st and c = fresh st in
      let body =
        if lv = depth then [pr (ei (next_tag ())); IExpr (bin Add (fault kind (ev p)) (ev c))]
        else [IExpr (bin Add (call names.(lv + 1) [ev p; bin Add (ev c) (ei 1)]) (ei lv))] in
      let catches, call =
        if lv = j then
          let wrong = List.map (fun e -> (e, handler (ei (-1)))) (let o = others kind in if Rng.bool st.rng then [List.hd o] else []) in
          if Rng.pct st.rng 30 then (wrong, Some (handler (bin Add (ev c) (ei 500))))
          else (Rng.shuffle st.rng ((exn_of kind, handler (bin Add (ev c) (ei 500))) :: wrong), None)
        else if Rng.pct st.rng 30 then ([(List.hd (others kind), handler (ei (-2)))], None)
        else ([], None) in
      items := IFunc (fdefc names.(lv) [(p, false, TInt); (c, false, TInt)] TInt body catches call) :: !items
    done;
    (* the deepest function is defined first: a nested function sees the earlier ones *)
    let defs = List.rev !items in
    (zdef :: defs @ [let_ res (call names.(1) [zarg (); lit st]); pr (ev res)], bindv env0 res TInt BLet)
  | 1 ->
    (* fault in the k-th argument; arguments are evaluated right to left *)
    let tr, env0 = tracer st env0 in
    let t e = call tr.vn [ei (next_tag ()); e] in
    let g = fresh st and p1 = fresh st and p2 = fresh st and p3 = fresh st and w = fresh st and q = fresh st and k2 = fresh st in
    let gfd = fdef g [(p1, false, TInt); (p2, false, TInt); (p3, false, TInt)] TInt [IExpr (bin Add (ev p1) (bin Add (ev p2) (ev p3)))] in
    let k = Rng.int st.rng 3 in
    let args = List.init 3 (fun i -> if i = k then fault kind (ev q) else t (lit st)) in
    let inner = call g args in
    let e = if Rng.bool st.rng then inner else call g [t (lit st); inner; t (lit st)] in
    (* the clause reads the parameters: the frame must be the owner's again when it runs *)
    let hv = if Rng.pct st.rng 20 then ei 7 else hval [ev k2; ev q] in
    let wfd = fdefc w [(q, false, TInt); (k2, false, TInt)] TInt [IExpr e] [(exn_of kind, handler hv)] None in
    ([zdef; IFunc gfd; IFunc wfd; let_ res (call w [ev z; lit st]); pr (ev res)], bindv env0 res TInt BLet)
  | 2 ->
    (* a clause that faults itself: only the later clauses of the same function are tried *)
    let w = fresh st and q = fresh st in
    let k2 = (kind + 1) mod 3 in
    let order = Rng.bool st.rng in
    let c1 = (exn_of kind, let m = marker st in [pr (ei m); IExpr (fault k2 (ev q))]) in
    let c2 = (exn_of k2, handler (ei 42)) in
    let wfd = fdefc w [(q, false, TInt)] TInt [IExpr (fault kind (ev q))] (if order then [c1; c2] else [c2; c1])
        (if Rng.bool st.rng then Some (handler (ei 43)) else None) in
    let outer = fresh st in
    let ofd = fdefc outer [] TInt [IExpr (call w [ev z])] [] (Some (handler (ei 44))) in
    ([zdef; IFunc wfd; IFunc ofd; let_ res (call outer []); pr (ev res)], bindv env0 res TInt BLet)
  | 3 ->
    (* no matching clause: the fault goes to the caller *)
    let inner = fresh st and q = fresh st and outer = fresh st in
    let ifd = fdefc inner [(q, false, TInt)] TInt [pr (ei (next_tag ())); IExpr (fault kind (ev q))]
        [(List.hd (others kind), handler (ei (-3)))] None in
    let ofd = fdefc outer [] TInt [IExpr (bin Add (call inner [ev z]) (ei 1))] [(exn_of kind, handler (ei 55))] None in
    ([zdef; IFunc ifd; IFunc ofd; let_ res (call outer []); pr (ev res)], bindv env0 res TInt BLet)
  | 4 ->
    (* the clause sees the parameters as they are at the time of the fault, not the locals *)
    let w = fresh st and p = fresh st and q = fresh st and loc = fresh st and a = fresh st in
    let wfd = fdefc w [(p, true, TInt); (q, false, TInt)] TInt
        [let_ loc (lit st); IExpr (asg (ev p) (bin Add (ev p) (ev loc))); IExpr (fault kind (ev q))]
        [(exn_of kind, handler (bin Mul (ev p) (ei 2)))] None in
    ([zdef; var_ a (lit st); IFunc wfd; let_ res (call w [ev a; ev z]); pr (ev res); pr (ev a)],
     bindv (bindv env0 a TInt BVar) res TInt BLet)
  | 5 ->
    (* fault in the k-th iteration of a loop *)
    let w = fresh st and q = fresh st and i = fresh st and s = fresh st in
    let n = Rng.range st.rng 2 5 and k = Rng.range st.rng 0 4 in
    let body = [IExpr (asg (ev s) (bin Add (ev s) (print_wrap i)));
                IExpr (EIf (bin Eq0 (ev i) (ei k), EBlock [IExpr (fault kind (ev q))]));
                IExpr (asg (ev i) (bin Add (ev i) (ei 1)))] in
    let wfd = fdefc w [(q, false, TInt)] TInt
        [var_ s (ei 0); var_ i (ei 0); IExpr (EWhile (bin Lt0 (ev i) (ei n), EBlock body)); IExpr (ev s)]
        [] (Some (handler (ei 66))) in
    ([zdef; IFunc wfd; let_ res (call w [ev z]); pr (ev res)], bindv env0 res TInt BLet)
  | 6 ->
    (* a lambda with catch clauses *)
    let q = fresh st and f = fresh st in
    let l = ELambda (fdefc (fresh st) [(q, false, TInt)] TInt [IExpr (fault kind (ev q))]
                       [(exn_of kind, handler (bin Add (ev q) (ei 70)))] None) in
    ([zdef; let_ f l; let_ res (ECall (ev f, [ev z])); pr (ev res)], bindv (bindv env0 f t1 BLet) res TInt BLet)
  | 7 ->
    (* fault while frames are under construction at several depths *)
    let tr, env0 = tracer st env0 in
    let t e = call tr.vn [ei (next_tag ()); e] in
    let g = fresh st and p1 = fresh st and p2 = fresh st and w = fresh st and q = fresh st and k2 = fresh st in
    let gfd = fdef g [(p1, false, TInt); (p2, false, TInt)] TInt [IExpr (bin Sub (ev p1) (ev p2))] in
    let deep = call g [t (lit st); call g [call g [fault kind (ev q); t (lit st)]; t (lit st)]] in
    let hv = if Rng.pct st.rng 25 then ei 77 else hval [ev q; ev k2] in
    let wfd = fdefc w [(q, false, TInt); (k2, false, TInt)] TInt [IExpr (bin Add (t (lit st)) deep)] [] (Some (handler hv)) in
    ([zdef; IFunc gfd; IFunc wfd; let_ res (call w [ev z; lit st]); pr (ev res)], bindv env0 res TInt BLet)
  | 8 ->
    (* the fault hits while calls of the handler-owning function are pending (frames marked, some
       arguments already pushed), at any argument position and nesting depth, with callees of every
       kind (named function, function-typed parameter, captured closure, tracer); the fault comes
       from an instruction of the owner itself or out of a callee that is itself an argument; the
       clause then works on the owner's frame: it reads int / var / record / array parameters,
       assigns a var parameter, and makes a call of its own with them *)
    let tr, env0 = tracer st env0 in
    let t e = call tr.vn [ei (next_tag ()); e] in
    let g2 = fresh st and a1 = fresh st and a2 = fresh st in
    let g3 = fresh st and b1 = fresh st and b2 = fresh st and b3 = fresh st in
    let thr = fresh st and tq = fresh st in
    let lamv = fresh st and lx = fresh st and ly = fresh st in
    let w = fresh st and q = fresh st and k2 = fresh st and m = fresh st and fp = fresh st and rp = fresh st and ap = fresh st in
    let mv = fresh st in
    let r = need_record st [TInt; TInt] in
    let t2 = TFun ([TInt; TInt], TInt) in
    let g2fd = fdef g2 [(a1, false, TInt); (a2, false, TInt)] TInt [IExpr (bin Sub (bin Mul (ev a1) (ei 3)) (ev a2))] in
    let g3fd = fdef g3 [(b1, false, TInt); (b2, false, TInt); (b3, false, TInt)] TInt
        [IExpr (bin Add (ev b1) (bin Add (bin Mul (ev b2) (ei 10)) (bin Mul (ev b3) (ei 100))))] in
    (* a callee that raises: the exception reaches the owner through the callee's own return path *)
    let thrfd = fdef thr [(tq, false, TInt)] TInt [IExpr (fault kind (ev tq))] in
    let lamdef = let_ lamv (lam st [(lx, false, TInt); (ly, false, TInt)] TInt [IExpr (bin Add (bin Mul (ev lx) (ei 7)) (bin Sub (ev ly) (ev z)))]) in
    let with_m = Rng.pct st.rng 50 and with_f = Rng.pct st.rng 50 and with_r = Rng.pct st.rng 35 and with_a = Rng.pct st.rng 35 in
    let plain () = match Rng.int st.rng 4 with 0 -> ev k2 | 1 -> lit st | _ -> t (lit st) in
    let faulting () = if Rng.pct st.rng 30 then call thr [ev q] else fault kind (ev q) in
    let rec pend d =
      let inner () = if d <= 0 then faulting () else pend (d - 1) in
      let callee = Rng.weighted st.rng [30, `G2; 30, `G3; (if with_f then 25 else 0), `P; 20, `L; 10, `T] in
      let n = match callee with `G3 -> 3 | `T -> 2 | _ -> 2 in
      let pos = Rng.int st.rng n in
      let args = List.init n (fun i -> if i = pos then inner () else plain ()) in
      match callee with
      | `G2 -> call g2 args
      | `G3 -> call g3 args
      | `P -> ECall (ev fp, args)
      | `L -> ECall (ev lamv, args)
      | `T -> (match args with [x; y] -> call tr.vn [ei (next_tag ()); if pos = 0 then bin Add x y else bin Add y x] | _ -> call g2 args) in
    let depth = Rng.weighted st.rng [45, 0; 35, 1; 20, 2] in
    let core = pend depth in
    let loc = fresh st and i = fresh st and s = fresh st in
    let body =
      match Rng.int st.rng 6 with
      | 0 -> [IExpr core]
      | 1 -> [IExpr (bin Add (plain ()) core)]
      | 2 -> [let_ loc (lit st); IExpr (bin Sub core (ev loc))]
      | 3 -> [let_ loc core; IExpr (bin Add (ev loc) (ei 1))]
      | 4 ->
        let n = Rng.range st.rng 1 3 in
        [var_ s (ei 0); var_ i (ei 0);
         IExpr (EWhile (bin Lt0 (ev i) (ei n),
                        EBlock [IExpr (asg (ev s) (bin Add (ev s) (ECond (bin Eq0 (ev i) (ei (n - 1)), core, print_wrap i))));
                                IExpr (asg (ev i) (bin Add (ev i) (ei 1)))]));
         IExpr (ev s)]
      | _ -> [IExpr (idx (EArrLit ([plain (); core; plain ()], TInt)) (ei 1))] in
    let reads = [ev k2; ev q] @ (if with_m then [ev m] else []) @ (if with_r then [fld (ev rp) r 1] else [])
                @ (if with_a then [idx (ev ap) (ei 1)] else []) in
    let hbody =
      let m0 = marker st in
      [pr (ei m0)]
      @ (if with_m && Rng.bool st.rng then [IExpr (asg (ev m) (bin Add (ev m) (bin Mul (ev k2) (ei 2))))] else [])
      @ [IExpr (match Rng.int st.rng 4 with
          | 0 -> call g2 [ev k2; hval reads]
          | 1 when with_f -> ECall (ev fp, [hval reads; ev k2])
          | _ -> hval reads)] in
    let params = [(q, false, TInt); (k2, false, TInt)] @ (if with_m then [(m, true, TInt)] else [])
                 @ (if with_f then [(fp, false, t2)] else []) @ (if with_r then [(rp, false, TRec (nn r))] else [])
                 @ (if with_a then [(ap, false, TArr TInt)] else []) in
    let catches, call_ = if Rng.pct st.rng 35 then ([], Some hbody)
      else ((if Rng.bool st.rng then [(List.hd (others kind), handler (ei (-1)))] else []) @ [(exn_of kind, hbody)], None) in
    let wfd = fdefc w params TInt body catches call_ in
    let actual = [zarg (); lit st] @ (if with_m then [ev mv] else []) @ (if with_f then [ev (if Rng.bool st.rng then g2 else lamv)] else [])
                 @ (if with_r then [ERecNew (nn r, [lit st; lit st])] else []) @ (if with_a then [EArrLit ([lit st; lit st], TInt)] else []) in
    ([zdef; var_ mv (lit st); IFunc g2fd; IFunc g3fd; IFunc thrfd; lamdef; IFunc wfd; let_ res (call w actual); pr (ev res); pr (ev mv)],
     bindv (bindv env0 mv TInt BVar) res TInt BLet)
  | _ ->
    (* the owner of the clause is a closure: the clause reads captured variables and parameters after a
       fault in the argument list of a pending call to another closure *)
    let mk = fresh st and base = fresh st and bonus = fresh st and cnt = fresh st and run = fresh st and q = fresh st and k2 = fresh st in
    let add = fresh st and x1 = fresh st and x2 = fresh st and x3 = fresh st and h = fresh st in
    let t2 = TFun ([TInt; TInt], TInt) in
    let addl = lam st [(x1, false, TInt); (x2, false, TInt); (x3, false, TInt)] TInt
        [IExpr (bin Add (ev x1) (bin Add (bin Mul (ev x2) (ei 10)) (bin Sub (ev x3) (ev bonus))))] in
    let pos = Rng.int st.rng 3 in
    let args = List.init 3 (fun i -> if i = pos then fault kind (ev q) else if Rng.bool st.rng then ev k2 else lit st) in
    let hv = bin Add (bin Mul (bin Add (bin Mul (ev base) (ei 100)) (ev bonus)) (ei 100)) (if Rng.bool st.rng then ev cnt else ev k2) in
    let runfd = fdefc run [(q, false, TInt); (k2, false, TInt)] TInt
        [IExpr (bin Add (ECall (ev add, args)) (ev base))]
        [(exn_of kind, (let m0 = marker st in [pr (ei m0); IExpr (asg (ev cnt) (bin Add (ev cnt) (ei 1))); IExpr hv]))] None in
    let mkfd = fdef mk [(base, false, TInt); (bonus, false, TInt)] t2
        [var_ cnt (bin Add (ev base) (ei 1)); let_ add addl; IFunc runfd; IExpr (ev run)] in
    let mv = mkv ~fcost:8 mk (TFun ([TInt; TInt], t2)) BFunc env.lvl in
    ([zdef; IFunc mkfd; let_ h (call mk [lit st; lit st]); pr (ECall (ev h, [ev z; lit st])); pr (ECall (ev h, [zarg (); lit st]));
      let_ res (ECall (call mk [lit st; lit st], [ev z; lit st])); pr (ev res)],
     bindv (bindv (bind env0 mv) h t2 BLet) res TInt BLet)


(* a closure whose catch clause reads CAPTURED variables; the exception is raised one to four calls
   further in, in a function or closure that runs with a different environment (another closure's,
   main's, none at all for a top-level function), and passes through frames that have no clause
   for it (none, or only clauses for other exceptions) before it reaches the clause.  Multipliers are
   distinct, so an environment that is not the owner's shows in the value. *)
let id_catchcap st env : item list * env =
  let z = fresh st in
  let kind = Rng.int st.rng 3 in
  flag st "catch_captured";
  let r = need_record st [TInt; TInt] in
  (* faults iff b = 0 *)
  let fault b =
    match kind with
    | 0 -> bin (if Rng.bool st.rng then Div else Mod) (bin Add (lit st) (ei 100)) b
    | 1 -> idx (EArrLit ([lit st; lit st; lit st], TInt)) (bin Sub b (ei 1))
    | _ ->
      let p = fresh st in
      EBlock [var_ p (ERecNew (nn r, [lit st; lit st]));
              IExpr (EIf (bin Eq0 b (ei 0), EBlock [IExpr (asg (ev p) (ERecNil (nn r))); IExpr (ei 0)]));
              IExpr (fld (ev p) r (Rng.int st.rng 2))] in
  let exn = match kind with 0 -> ExDivision | 1 -> ExIndexOob | _ -> ExNil in
  let other = List.hd (List.filter (fun e -> e <> exn) (Rng.shuffle st.rng [ExDivision; ExIndexOob; ExNil; ExArrSize])) in
  let t1 = TFun ([TInt], TInt) in
  (* the thrower: a closure with its own captured variables, or a top-level function (no environment),
     or a lambda over main's variables that calls the top-level one *)
  let thr = fresh st and ta = fresh st and tb = fresh st and tc = fresh st in
  let thr0 = fresh st and t0b = fresh st in
  let thr_fd = fdef thr [(ta, false, TInt); (tc, false, TInt)] t1
      [IExpr (lam st [(tb, false, TInt)] TInt [IExpr (bin Add (fault (ev tb)) (bin Add (ev ta) (ev tc)))])] in
  let thr0_fd = fdef thr0 [(t0b, false, TInt)] TInt [IExpr (fault (ev t0b))] in
  let thr_v = mkv ~fcost:6 thr (TFun ([TInt; TInt], t1)) BFunc 0 in
  let thr0_v = mkv ~fcost:6 ~firstclass:true ~fvars:[false] thr0 t1 BFunc 0 in
  let env = add_top st (add_top st env thr_fd thr_v) thr0_fd thr0_v in
  (* a top-level relay: an empty environment between the thrower and the clause *)
  let app = fresh st and af = fresh st and ax = fresh st in
  let app_fd = fdef app [(af, false, t1); (ax, false, TInt)] TInt [IExpr (bin Add (ECall (ev af, [ev ax])) (ei 1))] in
  let app_v = mkv ~fcost:10 app (TFun ([t1; TInt], TInt)) BFunc 0 in
  let env = add_top st env app_fd app_v in
  (* guard(base, bonus, g) -> the closure `run` with the clause *)
  let guard = fresh st and base = fresh st and bonus = fresh st and g = fresh st and cnt = fresh st and run = fresh st and q = fresh st in
  let nrel = Rng.weighted st.rng [30, 0; 40, 1; 20, 2; 10, 3] in
  let rel = Array.init (nrel + 1) (fun _ -> fresh st) in
  (* rel.(nrel) stands for g; relay i calls relay i+1 *)
  let call_next i arg = if i + 1 >= nrel then ECall (ev g, [arg]) else call rel.(i + 1) [arg] in
  let relay_item i =
    let x = fresh st in
    let via_app = Rng.pct st.rng 25 in
    let nxt = if via_app then call app [(if i + 1 >= nrel then ev g else ev rel.(i + 1)); ev x] else call_next i (ev x) in
    let body = [IExpr (bin Add (bin Mul nxt (ei (i + 2))) (if Rng.bool st.rng then ev bonus else ei 0))] in
    let catches = if Rng.pct st.rng 35 then [(other, [pr (ei (marker st)); IExpr (ei (-5))])] else [] in
    IFunc (fdefc rel.(i) [(x, false, TInt)] TInt body catches None) in
  let relays = List.init nrel relay_item in
  let first_call arg = if nrel = 0 then ECall (ev g, [arg]) else call rel.(0) [arg] in
  let inline_relay = Rng.pct st.rng 30 in
  let run_body =
    if inline_relay then
      let rl = fresh st and kx = fresh st in
      [let_ rl (lam st [(kx, false, TInt)] TInt [IExpr (bin Mul (first_call (ev kx)) (ei 2))]); IExpr (bin Add (ECall (ev rl, [ev q])) (ev base))]
    else [IExpr (bin Add (first_call (ev q)) (ev base))] in
  let upd = Rng.bool st.rng in
  let hv = bin Add (bin Mul (ev base) (ei 10000)) (bin Add (bin Mul (ev bonus) (ei 100)) (if Rng.bool st.rng then ev cnt else bin Add (ev q) (ev cnt))) in
  let hbody = [pr (ei (marker st))] @ (if upd then [IExpr (asg (ev cnt) (bin Add (ev cnt) (ei 1)))] else []) @ [IExpr hv] in
  let catches, call_ = if Rng.pct st.rng 30 then ([], Some hbody)
    else ((if Rng.bool st.rng then [(other, [pr (ei (marker st)); IExpr (ei (-6))])] else []) @ [(exn, hbody)], None) in
  let run_is_lambda = Rng.pct st.rng 30 in
  (* relays and run are adjacent nested functions: any order of declaration *)
  let funcs = if run_is_lambda then Rng.shuffle st.rng relays
    else Rng.shuffle st.rng (IFunc (fdefc run [(q, false, TInt)] TInt run_body catches call_) :: relays) in
  let tail = if run_is_lambda then [IExpr (ELambda (fdefc (fresh st) [(q, false, TInt)] TInt run_body catches call_))] else [IExpr (ev run)] in
  let guard_fd = fdef guard [(base, false, TInt); (bonus, false, TInt); (g, false, t1)] t1
      ([var_ cnt (bin Add (ev bonus) (ei 1))] @ funcs @ tail) in
  let guard_v = mkv ~fcost:10 guard (TFun ([TInt; TInt; t1], t1)) BFunc env.lvl in
  (* thrower values *)
  let thrower () =
    match Rng.int st.rng 3 with
    | 0 -> call thr [lit st; lit st]
    | 1 -> ev thr0
    | _ -> let y = fresh st in lam st [(y, false, TInt)] TInt [IExpr (bin Add (call thr0 [bin Add (ev y) (ev z)]) (ev z))] in
  let h1 = fresh st and h2 = fresh st in
  let items =
    [var_ z (ei 0); IFunc guard_fd; let_ h1 (call guard [lit st; lit st; thrower ()]); let_ h2 (call guard [lit st; lit st; thrower ()]);
     pr (ECall (ev h1, [ev z])); pr (ECall (ev h2, [ei (Rng.range st.rng 1 3)])); pr (ECall (ev h2, [ev z])); pr (ECall (ev h1, [ev z]));
     pr (ECall (call guard [lit st; lit st; thrower ()], [ev z]))] in
  (items, bindv (bindv (bind (bindv env z TInt BVar) guard_v) h1 t1 BLet) h2 t1 BLet)

(* a closure that is called as a TEMPORARY (nothing but the call itself refers to it: the result of a
   call, an element of an array literal, a field of a fresh record, a conditional, a block, a lambda
   applied in place, a curried call), calls something that allocates a few hundred short-lived
   objects, and only then reads its captured variables (ints, a var cell, an array, a record).  Run
   with a small heap, collections happen while the closure waits for its callee: its environment must
   stay alive through the saved environment pointer of the callee's frame. *)
let id_tempcall st env : item list * env =
  flag st "temp_callee"; flag st "closure_escape";
  let t1 = TFun ([TInt], TInt) in
  let r = need_record st [TInt; TInt] in
  (* allocating helpers (top level) *)
  let step = fresh st and s1 = fresh st and s2 = fresh st in
  let step_fd = fdef step [(s1, false, TInt); (s2, false, TInt)] TInt [IExpr (bin Sub (bin Add (ev s1) (bin Mul (ev s2) (ei 2))) (ev s2))] in
  let step_v = mkv ~fcost:5 step (TFun ([TInt; TInt], TInt)) BFunc 0 in
  let env = add_top st env step_fd step_v in
  let ch = fresh st and n = fresh st and i = fresh st and s = fresh st in
  let ckind = Rng.int st.rng 4 in
  let ch_body =
    match ckind with
    | 0 ->
      [var_ i (ei 0); var_ s (ei 0);
       IExpr (EWhile (bin Lt0 (ev i) (ev n), EBlock [IExpr (asg (ev s) (call step [ev s; ev i])); IExpr (asg (ev i) (bin Add (ev i) (ei 1)))]));
       IExpr (ev s)]
    | 1 -> [IExpr (ECond (bin Le (ev n) (ei 0), ei 0, bin Add (call ch [bin Sub (ev n) (ei 1)]) (bin Mod (ev n) (ei 7))))]
    | 2 ->
      let t = fresh st in
      [var_ i (ei 0); var_ s (ei 0);
       IExpr (EWhile (bin Lt0 (ev i) (ev n),
                      EBlock [let_ t (EArrLit ([ev i; bin Add (ev i) (ei 1); ev s], TInt));
                              IExpr (asg (ev s) (bin BAnd (bin Add (ev s) (idx (ev t) (ei 1))) (ei 65535)));
                              IExpr (asg (ev i) (bin Add (ev i) (ei 1)))]));
       IExpr (ev s)]
    | _ ->
      let t = fresh st in
      [var_ i (ei 0); var_ s (ei 0);
       IExpr (EWhile (bin Lt0 (ev i) (ev n),
                      EBlock [let_ t (ERecNew (nn r, [ev i; call step [ev s; ev i]]));
                              IExpr (asg (ev s) (bin BAnd (bin Add (fld (ev t) r 0) (fld (ev t) r 1)) (ei 65535)));
                              IExpr (asg (ev i) (bin Add (ev i) (ei 1)))]));
       IExpr (ev s)] in
  let ch_fd = fdef ch [(n, false, TInt)] TInt ch_body in
  (* the allocating function, the maker and the closures are not handed to the random code around the
     idiom: a random argument would make the loop arbitrarily long *)
  st.top <- ch_fd :: st.top;
  let count () = ei (match ckind with 1 -> Rng.range st.rng 30 70 | _ -> Rng.range st.rng 40 110) in
  (* make(a, b, c) -> the closure *)
  let make = fresh st and a = fresh st and b = fresh st and c = fresh st and d = fresh st and arr = fresh st and rc = fresh st and x = fresh st in
  let extra = Rng.int st.rng 4 in
  let pre, tail_read =
    match extra with
    | 0 -> ([], ei 0)
    | 1 -> ([var_ d (bin Add (ev a) (ev b))], bin Mul (ev d) (ei 1000))
    | 2 -> ([let_ arr (EArrLit ([ev c; ev b; ev a], TInt))], bin Mul (idx (ev arr) (ei 2)) (ei 1000))
    | _ -> ([let_ rc (ERecNew (nn r, [ev b; ev c]))], bin Mul (fld (ev rc) r 1) (ei 1000)) in
  let calls_closure = Rng.pct st.rng 30 in
  let inner_call arg =
    if calls_closure then
      (* the callee is itself a closure with another environment *)
      let y = fresh st in ECall (lam st [(y, false, TInt)] TInt [IExpr (bin Add (call ch [ev y]) (ev c))], [arg])
    else call ch [arg] in
  let reads = bin Add (bin Add (bin Mul (ev a) (ei 100)) (bin Mul (ev b) (ei 10))) (bin Add (ev c) tail_read) in
  let body = [IExpr (bin Add (bin Mul (bin BAnd (inner_call (ev x)) (ei 1)) (ei 1000000)) reads)] in
  let make_fd = fdef make [(a, false, TInt); (b, false, TInt); (c, false, TInt)] t1 (pre @ [IExpr (lam st [(x, false, TInt)] TInt body)]) in
  let mk () = call make [lit st; lit st; lit st] in
  let temp_call () =
    match Rng.int st.rng 7 with
    | 0 -> ECall (mk (), [count ()])
    | 1 -> ECall (idx (EArrLit ([mk (); mk ()], t1)) (ei (Rng.int st.rng 2)), [count ()])
    | 2 -> ECall (ECond (fillerb st env, mk (), mk ()), [count ()])
    | 3 -> let f = fresh st in ECall (EBlock [let_ f (mk ()); IExpr (ev f)], [count ()])
    | 4 ->
      (* a lambda applied in place; its environment is built for this call only *)
      let u = fresh st and v = fresh st and y = fresh st in
      EBlock [let_ u (lit st); var_ v (lit st);
              IExpr (ECall (lam st [(y, false, TInt)] TInt
                              [IExpr (bin Add (bin Mul (bin BAnd (call ch [ev y]) (ei 1)) (ei 1000000)) (bin Add (bin Mul (ev u) (ei 100)) (ev v)))], [count ()]))]
    | 5 ->
      let rf = need_record st [t1; t1] in
      ECall (fld (ERecNew (nn rf, [mk (); mk ()])) rf (Rng.int st.rng 2), [count ()])
    | _ ->
      (* curried: the intermediate closure is a temporary too *)
      let cur = fresh st and p1 = fresh st and p2 = fresh st and p3 = fresh st in
      let l = lam st [(p1, false, TInt)] (TFun ([TInt], t1))
          [IExpr (lam st [(p2, false, TInt)] t1
                    [IExpr (lam st [(p3, false, TInt)] TInt
                              [IExpr (bin Add (bin Mul (bin BAnd (call ch [ev p3]) (ei 1)) (ei 1000000))
                                        (bin Add (bin Mul (ev p1) (ei 100)) (ev p2)))])])] in
      EBlock [let_ cur l; IExpr (ECall (ECall (ECall (ev cur, [lit st]), [lit st]), [count ()]))] in
  let held = fresh st in
  let ncalls = Rng.range st.rng 1 3 in
  let items = [IFunc make_fd; let_ held (mk ()); pr (ECall (ev held, [count ()]))]
              @ List.init ncalls (fun _ -> pr (temp_call ()))
              @ [pr (ECall (ev held, [ei 2]))] in
  (items, env)

(* function-typed CELLS that are re-assigned: a var, a captured var, a var parameter, a record field, an
   array element holding a closure gets a closure made by the SAME lambda / nested function in ANOTHER
   activation (other captured values, another captured var cell); then calls through every holder:
   the new captured values must be seen, and counters must share the cell of the source afterwards.
   Controls: a closure of a different literal in between, self assignment, assignment in a loop. *)
let id_rebind st env : item list * env =
  flag st "rebind"; flag st "closure_escape";
  let t1 = TFun ([TInt], TInt) and t0 = TFun ([], TInt) in
  let adder = fresh st and n = fresh st and x = fresh st and gname = fresh st in
  let counter = fresh st and s = fresh st and c = fresh st in
  let named = Rng.pct st.rng 40 in
  let mul = Rng.pick st.rng [1; 2; 10] in
  let abody = bin Add (bin Mul (ev x) (ei mul)) (ev n) in
  let adder_fd =
    if named then fdef adder [(n, false, TInt)] t1 [IFunc (fdef gname [(x, false, TInt)] TInt [IExpr abody]); IExpr (ev gname)]
    else fdef adder [(n, false, TInt)] t1 [IExpr (lam st [(x, false, TInt)] TInt [IExpr abody])] in
  let step = Rng.range st.rng 1 3 in
  let counter_fd = fdef counter [(s, false, TInt)] t0
      [var_ c (bin Add (ev s) (ei 0)); IExpr (lam st [] TInt [IExpr (asg (ev c) (bin Add (ev c) (ei step))); IExpr (ev c)])] in
  (* a TEMP expression (may initialise a var): both arms are activations of the same literal *)
  let nc mk = ECond (fillerb st env, mk (), mk ()) in
  let add () = call adder [lit st] and cnt () = call counter [bin Mul (lit st) (ei 100)] in
  let forms = Rng.shuffle st.rng [0; 1; 2; 3; 4; 5; 6; 7] in
  let rec take k l = if k <= 0 then [] else match l with [] -> [] | h :: t -> h :: take (k - 1) t in
  let one form =
    match form with
    | 0 ->
      let f = fresh st and g = fresh st in
      [var_ f (nc add); var_ g (nc add); pr (ECall (ev f, [ei 1])); IExpr (asg (ev f) (ev g)); pr (ECall (ev f, [ei 1]))]
      @ (if Rng.bool st.rng then
           let y = fresh st in
           [IExpr (asg (ev f) (lam st [(y, false, TInt)] TInt [IExpr (bin Mul (ev y) (ei 2))])); pr (ECall (ev f, [ei 1]));
            IExpr (asg (ev f) (ev g)); pr (ECall (ev f, [ei 1]))]
         else [IExpr (asg (ev f) (ev f)); pr (ECall (ev f, [ei 2])); IExpr (asg (ev f) (add ())); pr (ECall (ev f, [ei 1]))])
    | 1 ->
      let k1 = fresh st and k2 = fresh st in
      [var_ k1 (nc cnt); var_ k2 (nc cnt); pr (ECall (ev k1, [])); pr (ECall (ev k2, [])); IExpr (asg (ev k1) (ev k2));
       pr (ECall (ev k1, [])); pr (ECall (ev k2, [])); pr (ECall (ev k1, []))]
    | 2 ->
      (* record fields *)
      let counters = Rng.bool st.rng in
      let ft = if counters then t0 else t1 in
      let r = need_record st [ft; ft] and p = fresh st in
      let mk = if counters then cnt else add in
      let args = if counters then [] else [ei 1] in
      [let_ p (ERecNew (nn r, [mk (); mk ()])); pr (ECall (fld (ev p) r 0, args)); IExpr (asg (fld (ev p) r 0) (fld (ev p) r 1));
       pr (ECall (fld (ev p) r 0, args)); pr (ECall (fld (ev p) r 1, args)); pr (ECall (fld (ev p) r 0, args));
       IExpr (asg (fld (ev p) r 1) (mk ())); pr (ECall (fld (ev p) r 1, args)); pr (ECall (fld (ev p) r 0, args))]
    | 3 ->
      (* array elements *)
      let fs = fresh st in
      let a = Rng.int st.rng 3 in
      let b = (a + 1 + Rng.int st.rng 2) mod 3 in
      [var_ fs (EArrLit ([cnt (); cnt (); cnt ()], t0)); pr (ECall (idx (ev fs) (ei a), []));
       IExpr (asg (idx (ev fs) (ei a)) (idx (ev fs) (ei b)));
       pr (ECall (idx (ev fs) (ei a), [])); pr (ECall (idx (ev fs) (ei b), [])); pr (ECall (idx (ev fs) (ei a), []));
       pr (ECall (idx (ev fs) (ei (3 - a - b)), []))]
    | 4 ->
      (* the re-assigned var is captured by another closure, which also re-assigns it *)
      let h = fresh st and callh = fresh st and seth = fresh st and v = fresh st in
      [var_ h (nc add); let_ callh (lam st [] TInt [IExpr (ECall (ev h, [ei 1]))]);
       let_ seth (lam st [(v, false, TInt)] TInt [IExpr (asg (ev h) (call adder [ev v])); IExpr (ei 0)]);
       pr (ECall (ev callh, [])); IExpr (asg (ev h) (add ())); pr (ECall (ev callh, []));
       IExpr (ECall (ev seth, [lit st])); pr (ECall (ev callh, [])); pr (ECall (ev h, [ei 2]))]
    | 5 ->
      (* through a var parameter *)
      let setf = fresh st and pf = fresh st and pg = fresh st and h = fresh st in
      [IFunc (fdef setf [(pf, true, t1); (pg, false, t1)] TInt [IExpr (asg (ev pf) (ev pg)); IExpr (ECall (ev pf, [ei 1]))]);
       var_ h (nc add); pr (ECall (ev h, [ei 1])); pr (call setf [ev h; add ()]); pr (ECall (ev h, [ei 1]))]
    | 6 ->
      (* in a loop: every iteration another activation *)
      let f = fresh st and i = fresh st and acc = fresh st in
      let m = Rng.range st.rng 2 4 in
      [var_ f (nc add); var_ acc (ei 0); var_ i (ei 0);
       IExpr (EWhile (bin Lt0 (ev i) (ei m),
                      EBlock [IExpr (asg (ev f) (call adder [bin Mul (ev i) (ei 100)]));
                              IExpr (asg (ev acc) (bin Add (ev acc) (ECall (ev f, [ev i]))));
                              IExpr (asg (ev i) (bin Add (ev i) (ei 1)))]));
       pr (ev acc); pr (ECall (ev f, [ei 0]))]
    | _ ->
      (* counters: a copy made BEFORE the assignment keeps the old cell *)
      let k1 = fresh st and k2 = fresh st and old = fresh st in
      [var_ k1 (nc cnt); var_ k2 (nc cnt); let_ old (ECond (fillerb st env, ev k1, ev k1)); IExpr (asg (ev k1) (ev k2));
       pr (ECall (ev k1, [])); pr (ECall (ev k2, [])); pr (ECall (ev old, []))] in
  let items = List.concat (List.map one (take (Rng.range st.rng 2 4) forms)) in
  ([IFunc adder_fd; IFunc counter_fd] @ items, env)

(* ---- shadowing -------------------------------------------------------------------------------------- *)
let id_shadow st env : item list * env =
  (* one name bound at every binder kind in nested scopes; every level prints what it sees *)
  let x = fresh st in
  let f = fresh st and res = fresh st and g = fresh st and h = fresh st and y = fresh st in
  flag st "shadow_probe";
  st.shadowing <- st.shadowing + 6;
  let l1 = lit st and l2 = lit st in
  let body =
    [pr (ev x);                                                       (* the parameter *)
     IFunc (fdef g [] TInt [IExpr (bin Add (ev x) (ei 1))]);          (* captures the parameter *)
     IExpr (EBlock [
         let_ x (bin Add (ev x) l1);                                  (* let; the initialiser sees the parameter *)
         pr (ev x);
         IExpr (EBlock [
             var_ x (bin Mul (ev x) (ei 2));                          (* var shadows the let *)
             IExpr (asg (ev x) (bin Add (ev x) (ei 1)));
             pr (ev x);
             IExpr (EBlock [
                 IFunc (fdef x [(y, false, TInt)] TInt [IExpr (bin Sub (ev y) (ei 3))]);   (* a function called x *)
                 pr (call x [ei (Rng.int st.rng 50)])]);
             pr (ev x)]);
         pr (ev x);                                                   (* the let again: inner scopes are closed *)
         pr (ECall (lam st [(x, false, TInt)] TInt [IExpr (bin Mul (ev x) l2)], [bin Add (ev x) (ei 1)]));   (* lambda parameter *)
         (* a closure over an inner var x leaves the block that declares it *)
         let_ h (EBlock [var_ x (bin Mul (ev x) (ei 5)); IExpr (lam st [] TInt [IExpr (asg (ev x) (bin Add (ev x) (ei 1))); IExpr (ev x)])]);
         pr (ECall (ev h, [])); pr (ECall (ev h, []));
         pr (ev x)]);
     pr (call g []);
     IExpr (ev x)] in
  let fd = fdef f [(x, false, TInt)] TInt body in
  let fv = mkv ~fcost:60 f t1 BFunc env.lvl in
  ([IFunc fd; let_ res (call f [lit st]); pr (ev res)], bindv (bind env fv) res TInt BLet)

(* the shapes next to the known finding late-shadow-after-closure that DO compile: the later binding
   of x sits in an inner block, and a binding of x that precedes the closure *)
let id_shadow2 st env : item list * env =
  let x = fresh st and f = fresh st and g = fresh st and h = fresh st and y = fresh st and res = fresh st in
  flag st "shadow_probe2";
  st.shadowing <- st.shadowing + 1;
  let l1 = lit st in
  let inner = EBlock [let_ x (bin Add (ev x) l1);                                (* inner block: binds x after g captured the parameter *)
                      IFunc (fdef h [] TInt [IExpr (bin Mul (ev x) (ei 3))]);     (* binding precedes this closure *)
                      IExpr (bin Add (call h []) (call g []))] in
  let body = [IFunc (fdef g [] TInt [IExpr (bin Mul (ev x) (ei 2))]);
              let_ y inner;
              IExpr (bin Add (bin Mul (call g []) (ei 1000)) (bin Sub (ev y) (ev x)))] in
  let fd = fdef f [(x, false, TInt)] TInt body in
  let fv = mkv ~fcost:30 ~firstclass:true ~fvars:[false] f t1 BFunc env.lvl in
  ([IFunc fd; let_ res (call f [lit st]); pr (ev res)], bindv (bind env fv) res TInt BLet)

(* A name of an OUTER function (a nested function h, or a variable) captured by a closure f two or
   three function levels further in, while the intermediate function declares its own h — before f,
   or after f (then f must keep the outer one; the intermediate h may be a function or a let; when f
   is a named function a non-function item separates it from the later function, because adjacent
   nested functions are mutually visible in Never).  The closure is called in place or escapes
   from both enclosing calls first.  Compiles on the pinned tree because the captured binding
   belongs to an enclosing function, not to the one that re-binds the name. *)
let id_shadow3 st env : item list * env =
  let outer = fresh st and h = fresh st and p = fresh st and mid = fresh st and g = fresh st in
  let f = fresh st and z = fresh st and three = fresh st and res = fresh st and mid2 = fresh st and k = fresh st in
  flag st "shadow_probe3"; flag st "closure_escape";
  st.shadowing <- st.shadowing + 1;
  let cap_is_func = Rng.pct st.rng 75 in
  let where = Rng.weighted st.rng [60, `After; 25, `Before; 15, `None] in
  let late_is_func = Rng.pct st.rng 65 in
  let f_is_lambda = Rng.pct st.rng 60 in
  let escape = Rng.pct st.rng 35 in
  let four = Rng.pct st.rng 35 in
  let use_outer = if cap_is_func then call h [] else ev h in
  let own_def v = if late_is_func then IFunc (fdef h [] TInt [IExpr (ei v)]) else let_ h (ei v) in
  let use_own = if late_is_func then call h [] else ev h in
  (* with the own h declared BEFORE f, f lexically sees that one (and must use it at its kind) *)
  let use_in_f = match where with `Before -> use_own | _ -> use_outer in
  let fbody = [IExpr (bin Add (bin Mul (use_in_f) (ei 7)) (if four then ev k else ei 0))] in
  let fdef_items =
    if f_is_lambda then [let_ f (lam st [] TInt fbody)]
    else [IFunc (fdef f [] TInt fbody); let_ z (lit st)] in          (* separator after a named f *)
  let own_v = 200 + Rng.int st.rng 50 in
  let core_items =
    (match where with `Before -> [own_def own_v; pr (ei (next_tag ()))] | _ -> [])
    @ fdef_items
    @ (if Rng.bool st.rng then [pr (ECall (ev f, []))] else [])
    @ (match where with `After -> [own_def own_v] | _ -> []) in
  let result_int = bin Add (bin Mul (ECall (ev f, [])) (ei 1000)) (match where with `None -> use_outer | _ -> use_own) in
  let t0 = TFun ([], TInt) in
  let rty = if escape then t0 else TInt in
  let core = core_items @ [IExpr (if escape then ev f else result_int)] in
  let gty = if Rng.bool st.rng then t0 else TInt in
  let mid_body =
    if four then [IFunc (fdef mid2 [(k, false, TInt)] rty core); IExpr (call mid2 [lit st])]
    else core in
  let mid_fd = fdef mid [(g, false, gty)] rty mid_body in
  let garg = match gty with TInt -> lit st | _ -> ev three in
  let outer_body =
    [(if cap_is_func then IFunc (fdef h [] TInt [IExpr (bin Add (ei 1) (ev p))]) else let_ h (bin Add (ei 1) (ev p)));
     IFunc (fdef three [] TInt [IExpr (ei 3)]);
     IFunc mid_fd;
     IExpr (call mid [garg])] in
  let ofd = fdef outer [(p, false, TInt)] rty outer_body in
  let ov = mkv ~fcost:40 ~fvars:[false] outer (TFun ([TInt], rty)) BFunc env.lvl in
  if escape then
    ([IFunc ofd; let_ res (call outer [lit st]); pr (ECall (ev res, [])); pr (ECall (call outer [lit st], []))],
     bindv (bind env ov) res t0 BLet)
  else
    ([IFunc ofd; let_ res (call outer [lit st]); pr (ev res)], bindv (bind env ov) res TInt BLet)

(* ---- aggregates ------------------------------------------------------------------------------------- *)
let id_agg st env : item list * env =
  flag st "agg_probe";
  let res = fresh st in
  match Rng.int st.rng 7 with
  | 0 ->
    (* sum over an array; with `over` the last index is the length *)
    let t = fresh st and s = fresh st and i = fresh st and w = fresh st in
    let n = Rng.range st.rng 2 5 in
    let over = if pct st "fault" || Rng.pct st.rng 25 then 1 else 0 in
    let body = [IExpr (asg (ev s) (bin Add (ev s) (idx (ev t) (ev i)))); IExpr (asg (ev i) (bin Add (ev i) (ei 1)))] in
    let wfd = fdefc w [] TInt
        [var_ t (EArrLit (List.init n (fun _ -> lit st), TInt)); var_ s (ei 0); var_ i (ei 0);
         IExpr (EWhile (bin Lt0 (ev i) (ei (n + over)), EBlock body)); IExpr (ev s)]
        [(ExIndexOob, [pr (ei (marker st)); IExpr (ei (-1))])] None in
    ([IFunc wfd; let_ res (call w []); pr (ev res)], bindv env res TInt BLet)
  | 1 ->
    (* linked records, traversal runs into nil when `over` *)
    let self = fresh st in
    st.recs <- st.recs @ [(self, [TInt; TRec (nn self)])];
    let mk v nx = ERecNew (nn self, [v; nx]) in
    let l = fresh st and p = fresh st and s = fresh st and i = fresh st and w = fresh st in
    let n = Rng.range st.rng 1 3 in
    let over = if pct st "fault" || Rng.pct st.rng 25 then 1 else 0 in
    let rec build k = if k = 0 then ERecNil (nn self) else mk (lit st) (build (k - 1)) in
    let body = [IExpr (asg (ev s) (bin Add (bin Mul (ev s) (ei 3)) (fld (ev p) self 0)));
                IExpr (asg (ev p) (fld (ev p) self 1)); IExpr (asg (ev i) (bin Add (ev i) (ei 1)))] in
    let wfd = fdefc w [(l, false, TRec (nn self))] TInt
        [var_ p (ECond (EBool true, ev l, ev l)); var_ s (ei 0); var_ i (ei 0);
         IExpr (EWhile (bin Lt0 (ev i) (ei (n + over)), EBlock body)); IExpr (ev s)]
        [(ExNil, [pr (ei (marker st)); IExpr (ei (-2))])] None in
    ([IFunc wfd; let_ res (call w [build n]); pr (ev res)], bindv env res TInt BLet)
  | 2 ->
    (* assignment of aggregates shares the object *)
    let t = fresh st and u = fresh st in
    ([var_ t (EArrLit ([lit st; lit st], TInt)); var_ u (EArrLit ([lit st; lit st; lit st], TInt));
      IExpr (asg (ev u) (ev t)); IExpr (asg (idx (ev u) (ei 0)) (lit st)); pr (idx (ev t) (ei 0)); pr (idx (ev u) (ei 1))],
     bindv (bindv env t (TArr TInt) BVar) u (TArr TInt) BVar)
  | 3 ->
    let r = need_record st [TInt; TArr TInt] in
    let p = fresh st and q = fresh st in
    ([let_ p (ERecNew (nn r, [lit st; EArrLit ([lit st; lit st], TInt)])); let_ q (ev p);
      IExpr (asg (idx (fld (ev q) r 1) (ei 1)) (lit st)); IExpr (asg (fld (ev q) r 0) (lit st));
      pr (idx (fld (ev p) r 1) (ei 1)); pr (fld (ev p) r 0)],
     bindv (bindv env p (TRec (nn r)) BLet) q (TRec (nn r)) BLet)
  | 4 ->
    (* index -1 and index = length *)
    let t = fresh st and w = fresh st and q = fresh st in
    let n = Rng.range st.rng 2 4 in
    let i = Rng.pick st.rng [-1; n; n - 1; 0] in
    let wfd = fdefc w [(q, false, TInt)] TInt
        [let_ t (EArrLit (List.init n (fun _ -> lit st), TInt)); IExpr (idx (ev t) (bin Add (ev q) (ei i)))]
        (if Rng.bool st.rng then [(ExIndexOob, [pr (ei (marker st)); IExpr (ei (-3))])] else []) None in
    ([IFunc wfd; let_ res (call w [ei 0]); pr (ev res)], bindv env res TInt BLet)
  | 5 ->
    (* array of records, record reached through two paths *)
    let r = need_record st [TInt; TInt] in
    let p = fresh st and t = fresh st in
    ([let_ p (ERecNew (nn r, [lit st; lit st])); let_ t (EArrLit ([ev p; ERecNew (nn r, [lit st; lit st]); ev p], TRec (nn r)));
      IExpr (asg (fld (idx (ev t) (ei 2)) r 1) (lit st)); pr (fld (ev p) r 1); pr (fld (idx (ev t) (ei 0)) r 1);
      pr (fld (idx (ev t) (ei 1)) r 0)],
     bindv (bindv env p (TRec (nn r)) BLet) t (TArr (TRec (nn r))) BLet)
  | _ ->
    (* nil record: field read and field write *)
    let r = need_record st [TInt; TInt] in
    let p = fresh st and w = fresh st in
    let wr = Rng.bool st.rng in
    let wfd = fdefc w [] TInt
        [var_ p (ERecNew (nn r, [lit st; lit st])); pr (fld (ev p) r 0); IExpr (asg (ev p) (ERecNil (nn r)));
         IExpr (if wr then asg (fld (ev p) r 1) (lit st) else fld (ev p) r 1)]
        [(ExIndexOob, [IExpr (ei (-5))]); (ExNil, [pr (ei (marker st)); IExpr (ei (-4))])] None in
    ([IFunc wfd; let_ res (call w []); pr (ev res)], bindv env res TInt BLet)

(* ---- tail recursion --------------------------------------------------------------------------------- *)
let id_tail st env : item list * env =
  let env_top = { env with vars = List.filter (fun (v : vinfo) -> v.lvl = 0 && v.vb = BFunc) env.vars; lvl = 0;
                            block = List.map (fun v -> v.vn) env.vars @ List.map (fun fd -> int_of_n (fd_name fd)) st.top;
                            forbid = Uniq.IS.empty; sib = Uniq.IS.empty } in
  let fd, v = gen_named_func ~toplevel:true ~kind:`Tail st env_top 2 in
  let env = add_top st env fd v in
  let res = fresh st in
  let e, _ = gen_call st env v 2 in
  flag st "tail_called";
  ([let_ res e; pr (ev res)], bindv env res TInt BLet)

let id_mutual st env : item list * env =
  let a = fresh st and b = fresh st and n = fresh st and m = fresh st in
  let fa = fdef a [(n, false, TInt)] TBool [IExpr (ECond (bin Le (ev n) (ei 0), EBool true, call b [bin Sub (ev n) (ei 1)]))] in
  let fb = fdef b [(m, false, TInt)] TBool [IExpr (ECond (bin Le (ev m) (ei 0), EBool false, call a [bin Sub (ev m) (ei 1)]))] in
  st.top <- fb :: fa :: st.top;
  flag st "mutual_rec";
  let k = Rng.range st.rng 0 25 in
  ([prb (call a [ei k]); prb (call b [ei (k + 1)])], env)

(* ---- pipes --------------------------------------------------------------------------------------------- *)
(* calls whose callee sits in a frame slot (function-typed parameter with a neighbour, nested
   function, let-bound function) with two or three arguments: pp.ml spells many of them
   `(a, b) : (int, int) |> f(c)` *)
let id_pipe st env : item list * env =
  let t3 = TFun ([TInt; TInt; TInt], TInt) in
  let a3 = fresh st and m3 = fresh st and ind = fresh st in
  let p () = fresh st in
  let a = p () and b = p () and c = p () in
  let a' = p () and b' = p () and c' = p () in
  let f = p () and g = p () and x = p () and y = p () in
  flag st "pipe_probe";
  let fa = fdef a3 [(a, false, TInt); (b, false, TInt); (c, false, TInt)] TInt
      [IExpr (bin Add (ev a) (bin Add (bin Mul (ev b) (ei 10)) (bin Mul (ev c) (ei 100))))] in
  let fm = fdef m3 [(a', false, TInt); (b', false, TInt); (c', false, TInt)] TInt
      [IExpr (bin Sub (bin Mul (ev a') (ev b')) (ev c'))] in
  let k1 = lit st and k2 = lit st in
  let find = fdef ind [(f, false, t3); (g, false, t3); (x, false, TInt); (y, false, TInt)] TInt
      [IExpr (bin Sub (ECall (ev f, [ev x; ev y; k1])) (bin Mul (ECall (ev g, [ev y; k2; ev x])) (ei 3)))] in
  let h = fresh st and hp = p () and hq = p () and cap = fresh st in
  let fh = fdef h [(hp, false, TInt); (hq, false, TInt)] TInt [IExpr (bin Add (bin Sub (bin Mul (ev hp) (ei 10)) (ev hq)) (ev cap))] in
  let va3 = mkv ~fcost:8 ~firstclass:true ~fvars:[false; false; false] a3 t3 BFunc env.lvl in
  let vm3 = mkv ~fcost:8 ~firstclass:true ~fvars:[false; false; false] m3 t3 BFunc env.lvl in
  let vind = mkv ~fcost:30 ~fvars:[false; false; false; false] ind (TFun ([t3; t3; TInt; TInt], TInt)) BFunc env.lvl in
  let vh = mkv ~fcost:8 ~firstclass:true ~fvars:[false; false] h (TFun ([TInt; TInt], TInt)) BFunc env.lvl in
  let e1 = filler st env and e2 = filler st env in
  let items = [IFunc fa; IFunc fm; IFunc find;
               pr (call ind [ev a3; ev m3; e1; e2]); pr (call ind [ev m3; ev a3; lit st; lit st]);
               let_ cap (lit st); IFunc fh; pr (call h [filler st env; lit st]);
               pr (call a3 [call h [lit st; lit st]; lit st; call m3 [lit st; lit st; lit st]])] in
  (items, bind (bindv (bind (bind (bind env va3) vm3) vind) cap TInt BLet) vh)

(* ---- for-in loops (EForInRange / EForInArr) ------------------------------------------------------
   ascending and descending ranges (literal and computed bounds, single-element ranges, bounds next
   to each other), arrays, nested loops, function values capturing the loop variable called during
   and AFTER the loop (stored in an array / returned from a function), assignment inside bodies,
   faults inside bodies with catch clauses, loops inside functions that are called repeatedly. *)
let forr x a b body = EForInRange (nn x, a, b, body)
let fora x a body = EForInArr (nn x, a, body)

let id_forin st env : item list * env =
  flag st "forin";
  let zero () = lam st [] TInt [IExpr (ei 0)] in
  (* a range of n values starting at lo, in the given direction: (from, to) *)
  let ends lo n down = if down then (lo + n - 1, lo) else (lo, lo + n - 1) in
  let form = Rng.weighted st.rng [22, 0; 16, 1; 14, 2; 12, 3; 12, 4; 12, 5; 12, 6] in
  match form with
  | 0 ->
    (* one function value per iteration, stored in an array, called after the loop *)
    let fs = fresh st and i = fresh st and j = fresh st and b = fresh st in
    let n = Rng.range st.rng 1 4 in
    let lo = Rng.pick st.rng [-2; -1; 0; 0; 1; 1; 2; 7] in
    let down = Rng.pct st.rng 60 in
    let f, t = ends lo n down in
    flag st "closure_loopvar"; flag st "closure_escape"; flag st (if down then "forin_down" else "forin_up");
    let computed = Rng.pct st.rng 40 in
    let ef = if computed && Rng.bool st.rng then bin Add (ev b) (ei (f - t)) else ei f in
    let et = if computed then ev b else ei t in
    let capture = match Rng.int st.rng 3 with
      | 0 -> [IExpr (asg (idx (ev fs) (bin Sub (ev i) (ei lo))) (lam st [] TInt [IExpr (ev i)]))]
      | 1 -> [let_ j (bin Mul (ev i) (ei 10));
              IExpr (asg (idx (ev fs) (bin Sub (ev i) (ei lo))) (lam st [] TInt [IExpr (bin Add (bin Mul (ev j) (ei 100)) (ev i))]))]
      | _ -> [IExpr (asg (idx (ev fs) (bin Sub (ev i) (ei lo)))
                       (lam st [] TInt [IExpr (bin Add (ev i) (ei 1000))]));
              (* called during the loop as well *)
              pr (ECall (idx (ev fs) (bin Sub (ev i) (ei lo)), []))] in
    (* assigning to the variable of a bound inside the body does not change the iterations *)
    let touch = if computed && Rng.pct st.rng 50 then [IExpr (asg (ev b) (bin Add (ev b) (ei (Rng.range st.rng 1 3))))] else [] in
    let items =
      [var_ fs (EArrLit (List.init n (fun _ -> zero ()), t0))]
      @ (if computed then [var_ b (ei t)] else [])
      @ [IExpr (forr i ef et (EBlock (capture @ touch @ [IExpr (ei 0)])))]
      @ List.init n (fun k -> pr (ECall (idx (ev fs) (ei k), [])))
      @ (if computed then [pr (ev b)] else []) in
    (items, env)
  | 1 ->
    (* the function values are returned from a function that is called twice: up and down *)
    let mk = fresh st and a = fresh st and b = fresh st and lo = fresh st and fs = fresh st and i = fresh st in
    let r1 = fresh st and r2 = fresh st in
    let n = 3 in
    flag st "closure_loopvar"; flag st "closure_escape"; flag st "forin_down"; flag st "forin_up";
    let body = [var_ fs (EArrLit (List.init n (fun _ -> zero ()), t0));
                IExpr (forr i (ev a) (ev b)
                         (EBlock [IExpr (asg (idx (ev fs) (bin Sub (ev i) (ev lo)))
                                           (lam st [] TInt [IExpr (bin Add (bin Mul (ev i) (ei 10)) (ev a))]))]));
                IExpr (ev fs)] in
    let fd = fdef mk [(a, false, TInt); (b, false, TInt); (lo, false, TInt)] (TArr t0) body in
    let base = Rng.pick st.rng [-1; 0; 1; 4] in
    let items = [IFunc fd;
                 let_ r1 (call mk [ei (base + 2); ei base; ei base]);
                 let_ r2 (call mk [ei base; ei (base + 2); ei base])]
                @ List.concat (List.init n (fun k -> [pr (ECall (idx (ev r1) (ei k), [])); pr (ECall (idx (ev r2) (ei k), []))])) in
    (items, env)
  | 2 ->
    (* arrays: the loop variable is the element; assignment through it; captured element cells *)
    let a = fresh st and x = fresh st and fs = fresh st and k = fresh st in
    let n = Rng.range st.rng 1 4 in
    flag st "forin_arr"; flag st "closure_escape";
    let items =
      [var_ a (EArrLit (List.init n (fun _ -> lit st), TInt));
       var_ fs (EArrLit (List.init n (fun _ -> zero ()), t0));
       var_ k (ei 0);
       IExpr (fora x (ev a)
                (EBlock [IExpr (asg (ev x) (bin Add (ev x) (ei (Rng.range st.rng 1 9))));
                         IExpr (asg (idx (ev fs) (ev k)) (lam st [] TInt [IExpr (ev x)]));
                         IExpr (asg (ev k) (bin Add (ev k) (ei 1)))]));
       IExpr (asg (idx (ev a) (ei (Rng.int st.rng n))) (lit st))]
      @ List.init n (fun j -> pr (ECall (idx (ev fs) (ei j), [])))
      @ List.init n (fun j -> pr (idx (ev a) (ei j)))
      @ [pr (fora x (EArrLit ([lit st; lit st], TInt)) (EPrint (ev x)))] in
    (items, env)
  | 3 ->
    (* nested loops, bounds near each other, single-element ranges; the value of a loop *)
    let i = fresh st and j = fresh st and s = fresh st in
    let p = Rng.range st.rng (-1) 2 and q = Rng.range st.rng (-1) 2 and r = Rng.range st.rng (-1) 2 in
    flag st (if p > q then "forin_down" else "forin_up");
    let items =
      [var_ s (ei 0);
       pr (forr i (ei p) (ei q)
             (EBlock [IExpr (forr j (ev i) (ei r)
                               (EBlock [pr (bin Add (bin Mul (ev i) (ei 10)) (ev j));
                                        IExpr (asg (ev s) (bin Add (ev s) (ev j)))]))]));
       pr (ev s)] in
    (items, env)
  | 4 ->
    (* faults inside the body, caught by the enclosing function; called repeatedly *)
    let g = fresh st and n = fresh st and i = fresh st and a = fresh st in
    let m = marker st in
    let down = Rng.bool st.rng in
    flag st "catch_probe"; flag st (if down then "forin_down" else "forin_up");
    let f, t = if down then (2, -2) else (-2, 2) in
    let fd =
      if Rng.bool st.rng then
        fdefc g [(n, false, TInt)] TInt
          [IExpr (forr i (ei f) (ei t) (EBlock [pr (bin Div (ev n) (ev i))])); IExpr (ei 5)]
          [(ExDivision, [pr (ei m); IExpr (bin Add (ev n) (ei 1))])] None
      else
        fdefc g [(n, false, TInt)] TInt
          [var_ a (EArrLit ([lit st; lit st; lit st], TInt));
           IExpr (forr i (if down then ev n else ei 0) (if down then ei 0 else ev n) (EBlock [pr (idx (ev a) (ev i))])); IExpr (ei 5)]
          [(ExIndexOob, [pr (ei m); IExpr (bin Add (ev n) (ei 1))])] None in
    let items = [IFunc fd; pr (call g [ei (Rng.range st.rng 2 4)]); pr (call g [ei (Rng.range st.rng 1 2)])] in
    (items, env)
  | 5 ->
    (* the bounds: evaluated once, the upper one first; a sum over a computed range *)
    let s = fresh st and i = fresh st and n = fresh st in
    let lo = Rng.range st.rng (-2) 2 in
    let hi = lo + Rng.int st.rng 4 in
    let down = Rng.bool st.rng in
    flag st "order_probe"; flag st (if down then "forin_down" else "forin_up");
    let f, t = if down then (hi, lo) else (lo, hi) in
    let items =
      [var_ s (ei 0); var_ n (ei t);
       IExpr (forr i (EPrint (ei f)) (EPrint (ev n))
                (EBlock [IExpr (asg (ev n) (bin Add (ev n) (ei 1))); IExpr (asg (ev s) (bin Add (bin Mul (ev s) (ei 3)) (ev i)))]));
       pr (ev s); pr (ev n)] in
    (items, env)
  | _ ->
    (* a counter function made inside a loop in a function called repeatedly; loop variable shadows *)
    let mk = fresh st and a = fresh st and i = fresh st and acc = fresh st and f1 = fresh st and f2 = fresh st in
    flag st "closure_loopvar"; flag st "closure_escape"; flag st "forin_down";
    let body = [var_ acc (zero ());
                IExpr (forr i (ev a) (ei 1)
                         (EBlock [IExpr (EIf (bin Eq0 (ev i) (ei 2),
                                            EBlock [IExpr (asg (ev acc) (lam st [] TInt [IExpr (bin Add (bin Mul (ev a) (ei 100)) (ev i))])); IExpr (ei 0)]))]));
                IExpr (ev acc)] in
    let fd = fdef mk [(a, false, TInt)] t0 body in
    let items = [var_ i (lit st); IFunc fd; let_ f1 (call mk [ei 3]); let_ f2 (call mk [ei 4]);
                 pr (ECall (ev f1, [])); pr (ECall (ev f2, [])); pr (ECall (ev f1, [])); pr (ev i)] in
    (items, env)

let all = [ "id_pipe", id_pipe; "id_order", id_order; "id_alias", id_alias; "id_counter", id_counter; "id_adder", id_adder;
            "id_loopcap", id_loopcap; "id_reccap", id_reccap; "id_compose", id_compose; "id_deepcap", id_deepcap; "id_catch", id_catch;
            "id_siblings", id_siblings; "id_rebind", id_rebind; "id_catchcap", id_catchcap; "id_tempcall", id_tempcall; "id_forin", id_forin;
            "id_shadow", id_shadow; "id_shadow2", id_shadow2; "id_shadow3", id_shadow3; "id_agg", id_agg; "id_tail", id_tail; "id_mutual", id_mutual ]
