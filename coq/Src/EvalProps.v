(* Properties of the reference evaluator, part 1: fuel monotonicity (the outcome of a program
   is a well-defined partial function) and monotone growth of the store.  No axioms. *)
From Coq Require Import ZArith List Bool Lia.
From NV Require Import Src.Syntax Src.Eval Src.EvalLemmas.
Import ListNotations.


(* ---- A1. fuel monotonicity -------------------------------------------------------- *)

Section Mono.
Variable genv : env.

Definition mono_eval (k : nat) := forall k' e st x r st', k <= k' ->
  eval genv k e st x = (r, st') -> r <> RFuel -> eval genv k' e st x = (r, st').
Definition mono_items (k : nat) := forall k' e st l last r st', k <= k' ->
  eval_items genv k e st l last = (r, st') -> r <> RFuel -> eval_items genv k' e st l last = (r, st').
Definition mono_handlers (k : nat) := forall k' e st ex cs call r st', k <= k' ->
  handlers genv k e st ex cs call = (r, st') -> r <> RFuel ->
  handlers genv k' e st ex cs call = (r, st').

(* the local argument-list evaluator, for an abstract closure *)
Lemma eval_args_f_mono : forall (ev ev' : state -> expr -> res * state),
  (forall st a r st', ev st a = (r, st') -> r <> RFuel -> ev' st a = (r, st')) ->
  forall l st o r st', eval_args_f ev l st = ((o, r), st') -> (o = None -> r <> RFuel) ->
  eval_args_f ev' l st = ((o, r), st').
Proof.
  intros ev ev' Hev. induction l as [|a t IH]; intros st o r st' H Hne.
  - exact H.
  - rewrite eval_args_f_cons in *.
    destruct (eval_args_f ev t st) as [[o1 r1] s1] eqn:E1.
    destruct o1 as [cs|].
    + rewrite (IH _ _ _ _ E1) by discriminate.
      destruct (ev s1 a) as [r2 s2] eqn:E2.
      destruct r2; inversion H; subst;
        try (rewrite (Hev _ _ _ _ E2) by (try discriminate; auto); reflexivity).
    + inversion H; subst. rewrite (IH _ _ _ _ E1) by auto. reflexivity.
Qed.

(* the for-in loop, for an abstract body evaluator *)
Lemma forin_loop_mono : forall (ev ev' : nat -> state -> res * state),
  (forall c st r st', ev c st = (r, st') -> r <> RFuel -> ev' c st = (r, st')) ->
  forall n n' s st r st', n <= n' -> forin_loop ev n s st = (r, st') -> r <> RFuel ->
  forin_loop ev' n' s st = (r, st').
Proof.
  intros ev ev' Hev. induction n as [|n IH]; intros n' s st r st' Hle H Hne.
  - rewrite forin_loop_O in H. inversion H; subst; congruence.
  - destruct n' as [|n']; [lia|]. rewrite forin_loop_S in *.
    destruct (forin_step st s) as [|rf|c st1 s']; try exact H.
    destruct (ev c st1) as [r2 s2] eqn:E2.
    destruct r2; try (rewrite (Hev _ _ _ _ E2) by discriminate; try exact H).
    + apply IH; [lia|exact H|exact Hne].
    + inversion H; subst; congruence.
Qed.

Ltac mono_fin :=
  match goal with
  | H : (?r1, ?s1) = (?r, ?s), Hne : ?r <> RFuel |- _ =>
      first [ exact H | exfalso; inversion H; subst; congruence ]
  | H : ?X = (?r, ?s) |- ?X = (?r, ?s) => exact H
  end.

Ltac mono_step IHe IHi IHh Hle :=
  match goal with
  | H : context[match eval ?g ?k ?e ?st ?a with _ => _ end] |- _ =>
      let r := fresh "r" in let s := fresh "s" in let E := fresh "E" in
      destruct (eval g k e st a) as [r s] eqn:E;
      destruct r;
      try (rewrite (IHe _ _ _ _ _ _ Hle E) by discriminate)
  | H : context[match eval_items ?g ?k ?e ?st ?a ?l with _ => _ end] |- _ =>
      let r := fresh "r" in let s := fresh "s" in let E := fresh "E" in
      destruct (eval_items g k e st a l) as [r s] eqn:E;
      destruct r;
      try (rewrite (IHi _ _ _ _ _ _ _ Hle E) by discriminate)
  | H : context[match eval_args ?g ?k ?e ?l ?st with _ => _ end] |- _ =>
      let o := fresh "o" in let r := fresh "r" in let s := fresh "s" in let E := fresh "E" in
      destruct (eval_args g k e l st) as [[o r] s] eqn:E;
      destruct o;
      [ unfold eval_args in *;
        rewrite (eval_args_f_mono _ _ (fun st a r st' => IHe _ _ st a r st' Hle) _ _ _ _ _ E)
          by discriminate
      | unfold eval_args in *;
        rewrite (eval_args_f_mono _ (fun st a => eval g _ e st a)
                   (fun st a r st' => IHe _ _ st a r st' Hle) _ _ _ _ _ E)
          by (intros _; intro; subst; match goal with H : (RFuel, _) = (_, _) |- _ =>
                                        inversion H; subst; congruence end) ]
  | H : context[match ?X with _ => _ end] |- _ =>
      lazymatch X with
      | eval _ _ _ _ _ => fail
      | eval_items _ _ _ _ _ _ => fail
      | handlers _ _ _ _ _ _ _ => fail
      | _ => destruct X eqn:?
      end
  end.

Ltac mono_solve IHe IHi IHh Hle :=
  repeat (mono_step IHe IHi IHh Hle);
  try mono_fin;
  try (match goal with
       | H : forin_loop _ _ _ _ = (_, _) |- _ =>
           eapply forin_loop_mono; [ | | exact H | assumption ];
           [ intros ? ? ? ? Hb Hnb; eapply IHe; [exact Hle | exact Hb | exact Hnb] | lia ]
       end);
  try (eapply IHe; eassumption);
  try (eapply IHi; eassumption);
  try (eapply IHh; eassumption).

Lemma fuel_mono_all : forall k, mono_eval k /\ mono_items k /\ mono_handlers k.
Proof.
  induction k as [|k [IHe [IHi IHh]]].
  - repeat split; red; intros; rewrite ?eval_O, ?eval_items_O, ?handlers_O in *; congruence.
  - repeat split; red.
    + intros k' e st x r st' Hle H Hne.
      destruct k' as [|k']; [lia|]. assert (Hle' : k <= k') by lia. clear Hle.
      destruct x;
        try (destruct (binop_cases op) as [->|[->|[Hop1 Hop2]]];
             [| | rewrite (eval_EBin genv op) in * by assumption]);
        autorewrite with evaleq in *; unfold apply_fun, call_body in *;
        mono_solve IHe IHi IHh Hle'.
    + intros k' e st l last r st' Hle H Hne.
      destruct k' as [|k']; [lia|]. assert (Hle' : k <= k') by lia. clear Hle.
      destruct l as [|[x a|x a|fd|a] t];
        autorewrite with evaleq in *; mono_solve IHe IHi IHh Hle'.
    + intros k' e st ex cs call r st' Hle H Hne.
      destruct k' as [|k']; [lia|]. assert (Hle' : k <= k') by lia. clear Hle.
      destruct cs as [|[ex' body] t];
        autorewrite with evaleq in *; mono_solve IHe IHi IHh Hle'.
Qed.

Theorem eval_fuel_mono : forall k k' e st x r st', k <= k' ->
  eval genv k e st x = (r, st') -> r <> RFuel -> eval genv k' e st x = (r, st').
Proof. intros k; exact (proj1 (fuel_mono_all k)). Qed.

Theorem eval_items_fuel_mono : forall k k' e st l last r st', k <= k' ->
  eval_items genv k e st l last = (r, st') -> r <> RFuel ->
  eval_items genv k' e st l last = (r, st').
Proof. intros k; exact (proj1 (proj2 (fuel_mono_all k))). Qed.

Theorem handlers_fuel_mono : forall k k' e st ex cs call r st', k <= k' ->
  handlers genv k e st ex cs call = (r, st') -> r <> RFuel ->
  handlers genv k' e st ex cs call = (r, st').
Proof. intros k; exact (proj2 (proj2 (fuel_mono_all k))). Qed.

End Mono.

(* the outcome of a program does not depend on the fuel, once it is enough *)
Theorem run_program_fuel_mono : forall k k' p args, k <= k' ->
  run_program k p args <> OFuel -> run_program k' p args = run_program k p args.
Proof.
  intros k k' p args Hle. unfold run_program.
  destruct (fold_left _ args _) as [argcells st1].
  destruct (lookup _ _) as [cm|]; auto.
  destruct (get_cell st1 cm) as [[ | |fd cenv| |]|]; auto.
  destruct (bind_params _ _) as [penv|]; auto.
  destruct (eval_items _ k penv st1 (fd_body fd) None) as [r s] eqn:E.
  destruct r.
  - intros _. rewrite (eval_items_fuel_mono _ _ _ _ _ _ _ _ _ Hle E) by discriminate. reflexivity.
  - rewrite (eval_items_fuel_mono _ _ _ _ _ _ _ _ _ Hle E) by discriminate.
    destruct (handlers _ k penv s e _ _) as [r2 s2] eqn:E2.
    destruct r2; intros Hne;
      try (rewrite (handlers_fuel_mono _ _ _ _ _ _ _ _ _ _ Hle E2) by discriminate; reflexivity).
    congruence.
  - congruence.
  - intros _. rewrite (eval_items_fuel_mono _ _ _ _ _ _ _ _ _ Hle E) by discriminate. reflexivity.
Qed.

(* two sufficient fuels give the same outcome *)
Corollary run_program_deterministic_in_fuel : forall k1 k2 p args,
  run_program k1 p args <> OFuel -> run_program k2 p args <> OFuel ->
  run_program k1 p args = run_program k2 p args.
Proof.
  intros k1 k2 p args H1 H2. destruct (Nat.le_ge_cases k1 k2) as [H|H].
  - symmetry. apply run_program_fuel_mono; auto.
  - apply run_program_fuel_mono; auto.
Qed.

(* fuel-free evaluation judgement *)
Definition evaluates (genv e : env) (st : state) (x : expr) (r : res) (st' : state) : Prop :=
  exists k, eval genv k e st x = (r, st') /\ r <> RFuel.

Lemma evaluates_functional : forall genv e st x r1 s1 r2 s2,
  evaluates genv e st x r1 s1 -> evaluates genv e st x r2 s2 -> r1 = r2 /\ s1 = s2.
Proof.
  intros genv e st x r1 s1 r2 s2 [k1 [H1 N1]] [k2 [H2 N2]].
  destruct (Nat.le_ge_cases k1 k2) as [H|H].
  - rewrite (eval_fuel_mono _ _ _ _ _ _ _ _ H H1 N1) in H2. inversion H2; auto.
  - rewrite (eval_fuel_mono _ _ _ _ _ _ _ _ H H2 N2) in H1. inversion H1; auto.
Qed.

(* ---- store monotonicity ----------------------------------------------------------- *)

Definition st_le (st st' : state) : Prop :=
  length (cells st) <= length (cells st') /\
  (exists l, arrs st' = arrs st ++ l) /\
  (exists l, recs st' = recs st ++ l) /\
  (exists l, out st' = l ++ out st).

Lemma st_le_refl : forall st, st_le st st.
Proof. intros; repeat split; auto; exists []; simpl; rewrite ?app_nil_r; reflexivity. Qed.

Lemma st_le_trans : forall a b c, st_le a b -> st_le b c -> st_le a c.
Proof.
  intros a b c [H1 [[l2 H2] [[l3 H3] [l4 H4]]]] [G1 [[m2 G2] [[m3 G3] [m4 G4]]]].
  repeat split.
  - lia.
  - exists (l2 ++ m2). rewrite G2, H2, app_assoc. reflexivity.
  - exists (l3 ++ m3). rewrite G3, H3, app_assoc. reflexivity.
  - exists (m4 ++ l4). rewrite G4, H4, app_assoc. reflexivity.
Qed.

Lemma st_le_fresh : forall st v r st', fresh st v = (r, st') ->
  st_le st st' /\ r = ROk (length (cells st)) /\ cells st' = cells st ++ [v] /\
  arrs st' = arrs st /\ recs st' = recs st /\ out st' = out st.
Proof.
  unfold fresh, alloc. intros st v r st' H. inversion H; subst; clear H. simpl.
  repeat split; auto; try solve [exists []; simpl; rewrite ?app_nil_r; reflexivity];
    try (simpl; rewrite app_length; simpl; lia).
Qed.

Lemma st_le_set_cell : forall st c v, st_le st (set_cell st c v).
Proof.
  intros; unfold set_cell; repeat split; simpl; try solve [exists []; simpl; rewrite ?app_nil_r; reflexivity].
  rewrite list_upd_length; auto.
Qed.

Lemma st_le_new_arr : forall st cs, st_le st (snd (new_arr st cs)).
Proof. intros; repeat split; simpl; auto; try solve [exists []; simpl; rewrite ?app_nil_r; reflexivity]. eexists; eauto. Qed.

Lemma st_le_new_rec : forall st cs, st_le st (snd (new_rec st cs)).
Proof. intros; repeat split; simpl; auto; try solve [exists []; simpl; rewrite ?app_nil_r; reflexivity]. eexists; eauto. Qed.

Lemma st_le_print : forall st z, st_le st (print_num st z).
Proof. intros; repeat split; simpl; auto; try solve [exists []; simpl; rewrite ?app_nil_r; reflexivity]. exists [z]; auto. Qed.

Lemma st_le_alloc : forall st v, st_le st (snd (alloc st v)).
Proof.
  intros; repeat split; simpl; auto; try solve [exists []; simpl; rewrite ?app_nil_r; reflexivity];
    try (rewrite app_length; simpl; lia).
Qed.

Lemma st_le_add_cells : forall st vs, st_le st (add_cells st vs).
Proof.
  intros; repeat split; simpl; auto; try solve [exists []; simpl; rewrite ?app_nil_r; reflexivity].
  rewrite app_length; lia.
Qed.

Lemma new_arr_le : forall st cs a st', new_arr st cs = (a, st') -> st_le st st'.
Proof. intros st cs a st' H. generalize (st_le_new_arr st cs). rewrite H. auto. Qed.
Lemma new_rec_le : forall st cs a st', new_rec st cs = (a, st') -> st_le st st'.
Proof. intros st cs a st' H. generalize (st_le_new_rec st cs). rewrite H. auto. Qed.

Section Grow.
Variable genv : env.

Definition grow_eval (k : nat) := forall e st x r st', eval genv k e st x = (r, st') -> st_le st st'.
Definition grow_items (k : nat) := forall e st l last r st',
  eval_items genv k e st l last = (r, st') -> st_le st st'.
Definition grow_handlers (k : nat) := forall e st ex cs call r st',
  handlers genv k e st ex cs call = (r, st') -> st_le st st'.

Lemma eval_args_f_le : forall (ev : state -> expr -> res * state),
  (forall st a r st', ev st a = (r, st') -> st_le st st') ->
  forall l st x st', eval_args_f ev l st = (x, st') -> st_le st st'.
Proof.
  intros ev Hev. induction l as [|a t IH]; intros st x st' H.
  - inversion H; apply st_le_refl.
  - rewrite eval_args_f_cons in H.
    destruct (eval_args_f ev t st) as [[o1 r1] s1] eqn:E1. apply IH in E1.
    destruct o1.
    + destruct (ev s1 a) as [r2 s2] eqn:E2. apply Hev in E2.
      destruct r2; inversion H; subst; eapply st_le_trans; eauto.
    + inversion H; subst; auto.
Qed.

Lemma forin_step_le : forall st s c st1 s', forin_step st s = LsBind c st1 s' -> st_le st st1.
Proof.
  intros st s c st1 s' H. destruct s; simpl in H.
  - destruct (_ <=? _)%Z; inversion H; subst. apply (st_le_alloc st (CInt z)).
  - destruct (_ <=? _)%Z; inversion H; subst. apply (st_le_alloc st (CInt z)).
  - destruct (get_cell st ca) as [[| | |[ar|]|]|]; try discriminate.
    destruct (nth_error (arrs st) ar); try discriminate.
    destruct (nth_error l i); inversion H; subst. apply st_le_refl.
Qed.

Lemma forin_loop_le : forall (ev : nat -> state -> res * state),
  (forall c st r st', ev c st = (r, st') -> st_le st st') ->
  forall n s st r st', forin_loop ev n s st = (r, st') -> st_le st st'.
Proof.
  intros ev Hev. induction n as [|n IH]; intros s st r st' H.
  - rewrite forin_loop_O in H. inversion H; apply st_le_refl.
  - rewrite forin_loop_S in H. destruct (forin_step st s) as [|rf|c st1 s'] eqn:Es.
    + apply st_le_fresh in H. tauto.
    + inversion H; apply st_le_refl.
    + apply forin_step_le in Es. destruct (ev c st1) as [r2 s2] eqn:E2. apply Hev in E2.
      destruct r2; try (inversion H; subst; eapply st_le_trans; eassumption).
      apply IH in H. eapply st_le_trans; [eassumption|]. eapply st_le_trans; eassumption.
Qed.

Ltac chain :=
  repeat match goal with
  | H : st_le ?a ?b |- st_le ?a ?c => apply (st_le_trans a b c H); clear H
  end;
  first [ apply st_le_refl | assumption | apply st_le_set_cell
        | eapply st_le_trans; [apply st_le_print | eassumption]
        | idtac ].

Ltac grow_leaf IHe IHi IHh :=
  match goal with
  | H : fresh _ _ = (_, _) |- _ => apply st_le_fresh in H; destruct H as [H _]
  | H : new_arr _ _ = (_, _) |- _ => apply new_arr_le in H
  | H : new_rec _ _ = (_, _) |- _ => apply new_rec_le in H
  | H : (_, _) = (_, _) |- _ => inversion H; subst; clear H
  | H : eval _ _ _ _ _ = (_, _) |- _ => apply IHe in H
  | H : eval_items _ _ _ _ _ _ = (_, _) |- _ => apply IHi in H
  | H : handlers _ _ _ _ _ _ _ = (_, _) |- _ => apply IHh in H
  | H : eval_args _ _ _ _ _ = (_, _) |- _ =>
      apply (eval_args_f_le _ (fun st a r st' => IHe _ st a r st')) in H
  | H : forin_loop _ _ _ _ = (_, _) |- _ =>
      apply (forin_loop_le _ (fun c st r st' => IHe _ st _ r st')) in H
  end.

Ltac grow_step :=
  match goal with
  | H : context[match ?X with _ => _ end] |- _ =>
      lazymatch type of H with
      | st_le _ _ => fail
      | _ => destruct X eqn:?
      end
  end.

Lemma grow_all : forall k, grow_eval k /\ grow_items k /\ grow_handlers k.
Proof.
  induction k as [|k [IHe [IHi IHh]]].
  - (split; [|split]); red; intros; rewrite ?eval_O, ?eval_items_O, ?handlers_O in *;
      inversion H; apply st_le_refl.
  - (split; [|split]); red.
    + intros e st x r st' H.
      destruct x;
        try (destruct (binop_cases op) as [->|[->|[Hop1 Hop2]]];
             [| | rewrite (eval_EBin genv op) in * by assumption]);
        autorewrite with evaleq in *;
        unfold apply_fun, call_body, binop_result, index_result, field_result in *;
        repeat grow_step; repeat (grow_leaf IHe IHi IHh); chain.
    + intros e st l last r st' H.
      destruct l as [|[x a|x a|fd|a] t];
        autorewrite with evaleq in *; unfold alloc in *;
        repeat grow_step; repeat (grow_leaf IHe IHi IHh); chain.
      eapply st_le_trans; [|eassumption]. apply st_le_add_cells.
    + intros e st ex cs call r st' H.
      destruct cs as [|[ex' body] t];
        autorewrite with evaleq in *;
        repeat grow_step; repeat (grow_leaf IHe IHi IHh); chain.
Qed.
End Grow.

Theorem store_monotone : forall genv k e st x r st',
  eval genv k e st x = (r, st') -> st_le st st'.
Proof. intros genv k. exact (proj1 (grow_all genv k)). Qed.

Theorem store_monotone_items : forall genv k e st l last r st',
  eval_items genv k e st l last = (r, st') -> st_le st st'.
Proof. intros genv k. exact (proj1 (proj2 (grow_all genv k))). Qed.

Theorem store_monotone_handlers : forall genv k e st ex cs call r st',
  handlers genv k e st ex cs call = (r, st') -> st_le st st'.
Proof. intros genv k. exact (proj2 (proj2 (grow_all genv k))). Qed.

Corollary cells_only_grow : forall genv k e st x r st',
  eval genv k e st x = (r, st') -> length (cells st) <= length (cells st').
Proof. intros. eapply store_monotone; eauto. Qed.

(* an existing cell index stays a valid cell index (cells are never removed or renumbered) *)
Corollary cells_keep_index : forall genv k e st x r st' c,
  eval genv k e st x = (r, st') -> get_cell st c <> None -> get_cell st' c <> None.
Proof.
  intros genv k e st x r st' c H. apply cells_only_grow in H. unfold get_cell.
  rewrite !nth_error_Some. lia.
Qed.

(* array and record objects are never removed, renumbered or resized *)
Corollary objects_keep_index : forall genv k e st x r st' i l,
  eval genv k e st x = (r, st') ->
  (nth_error (arrs st) i = Some l -> nth_error (arrs st') i = Some l) /\
  (nth_error (recs st) i = Some l -> nth_error (recs st') i = Some l).
Proof.
  intros genv k e st x r st' i l H. apply store_monotone in H.
  destruct H as [_ [[l2 H2] [[l3 H3] _]]]. rewrite H2, H3. split; intros G.
  - rewrite nth_error_app1; auto. apply nth_error_Some; congruence.
  - rewrite nth_error_app1; auto. apply nth_error_Some; congruence.
Qed.

(* ---- A2. the language rules of C02 ------------------------------------------------ *)

Section Rules.
Variable genv : env.

Definition not_ok (r : res) : Prop := forall c, r <> ROk c.

(* binary operands: left, then right (in the state the left one produced) *)
Theorem binop_left_to_right : forall op k e st a b c1 st1 c2 st2, op <> And -> op <> Or ->
  eval genv k e st a = (ROk c1, st1) -> eval genv k e st1 b = (ROk c2, st2) ->
  eval genv (S k) e st (EBin op a b) = binop_result op c1 c2 st2.
Proof. intros. rewrite eval_EBin by assumption. rewrite H1, H2. reflexivity. Qed.

(* if the left operand does not yield a value the right one is not evaluated, whatever it is *)
Theorem binop_left_raises : forall op k e st a b r st1, not_ok r ->
  eval genv k e st a = (r, st1) -> eval genv (S k) e st (EBin op a b) = (r, st1).
Proof.
  intros op k e st a b r st1 Hr H.
  destruct (binop_cases op) as [->|[->|[Hop1 Hop2]]];
    [rewrite eval_EAnd | rewrite eval_EOr | rewrite eval_EBin by assumption];
    rewrite H; destruct r; auto; exfalso; eapply Hr; eauto.
Qed.

Theorem binop_right_raises : forall op k e st a b c1 st1 r st2, op <> And -> op <> Or ->
  not_ok r -> eval genv k e st a = (ROk c1, st1) -> eval genv k e st1 b = (r, st2) ->
  eval genv (S k) e st (EBin op a b) = (r, st2).
Proof.
  intros op k e st a b c1 st1 r st2 H1 H2 Hr Ha Hb. rewrite eval_EBin by assumption.
  rewrite Ha, Hb. destruct r; auto; exfalso; eapply Hr; eauto.
Qed.

(* argument lists: right to left.  Relational characterisation of the local evaluator. *)
Inductive args_rtl (k : nat) (e : env) : list expr -> state -> list nat -> state -> Prop :=
| rtl_nil : forall st, args_rtl k e [] st [] st
| rtl_cons : forall a t st cs st1 c st2,
    args_rtl k e t st cs st1 ->               (* first the arguments to the right of a ... *)
    eval genv k e st1 a = (ROk c, st2) ->     (* ... then a, in the state they produced *)
    args_rtl k e (a :: t) st (c :: cs) st2.

Theorem eval_args_fold_right : forall k e l st,
  eval_args genv k e l st =
  fold_right (fun a acc =>
                match acc with
                | ((Some cs, _), st1) =>
                  match eval genv k e st1 a with
                  | (ROk c, st2) => ((Some (c :: cs), ROk 0), st2)
                  | (r, st2) => ((None, r), st2)
                  end
                | r => r
                end) ((Some [], ROk 0), st) l.
Proof.
  induction l; intros; [reflexivity|]. unfold eval_args in *. rewrite eval_args_f_cons, IHl.
  simpl fold_right. destruct (fold_right _ _ l) as [[[cs|] r] s]; reflexivity.
Qed.

Theorem eval_args_rtl : forall k e l st cs st',
  (exists r, eval_args genv k e l st = ((Some cs, r), st')) <-> args_rtl k e l st cs st'.
Proof.
  unfold eval_args. induction l as [|a t IH]; intros st cs st'.
  - rewrite eval_args_f_nil. split.
    + intros [r H]; inversion H; constructor.
    + intros H; inversion H; subst; eauto.
  - rewrite eval_args_f_cons. split.
    + intros [r H].
      destruct (eval_args_f _ t st) as [[o1 r1] s1] eqn:E1.
      destruct o1 as [cs1|]; [|inversion H].
      destruct (eval genv k e s1 a) as [r2 s2] eqn:E2.
      destruct r2; inversion H; subst.
      econstructor; eauto. apply IH; eauto.
    + intros H; inversion H; subst.
      match goal with H : args_rtl _ _ t _ _ _ |- _ => apply IH in H; destruct H as [r Ht] end.
      rewrite Ht. match goal with H : eval _ _ _ _ _ = _ |- _ => rewrite H end. eauto.
Qed.

(* a call evaluates its arguments right to left, then the function expression, then applies *)
Theorem call_args_then_function : forall k e st f args cs st1 cf st2,
  args_rtl k e args st cs st1 -> eval genv k e st1 f = (ROk cf, st2) ->
  eval genv (S k) e st (ECall f args) = apply_fun genv k st2 cf cs.
Proof.
  intros k e st f args cs st1 cf st2 Ha Hf. apply eval_args_rtl in Ha. destruct Ha as [r Ha].
  rewrite eval_ECall, Ha, Hf. reflexivity.
Qed.

Theorem call_args_right_to_left : forall k e st f a1 a2 c2 st1 c1 st2 cf st3,
  eval genv k e st a2 = (ROk c2, st1) ->      (* the LAST argument first, in the initial state *)
  eval genv k e st1 a1 = (ROk c1, st2) ->     (* then the first argument *)
  eval genv k e st2 f = (ROk cf, st3) ->      (* then the function expression *)
  eval genv (S k) e st (ECall f [a1; a2]) = apply_fun genv k st3 cf [c1; c2].
Proof.
  intros. eapply call_args_then_function; eauto.
  repeat econstructor; eauto.
Qed.

(* if the last argument does not yield a value, neither the first argument nor the function
   expression is evaluated *)
Theorem call_last_arg_raises : forall k e st f a1 a2 r st1, not_ok r ->
  eval genv k e st a2 = (r, st1) -> eval genv (S k) e st (ECall f [a1; a2]) = (r, st1).
Proof.
  intros k e st f a1 a2 r st1 Hr H. rewrite eval_ECall. unfold eval_args.
  rewrite !eval_args_f_cons, eval_args_f_nil, H.
  destruct r; auto; exfalso; eapply Hr; eauto.
Qed.

Theorem call_first_arg_raises : forall k e st f a1 a2 c2 st1 r st2, not_ok r ->
  eval genv k e st a2 = (ROk c2, st1) -> eval genv k e st1 a1 = (r, st2) ->
  eval genv (S k) e st (ECall f [a1; a2]) = (r, st2).
Proof.
  intros k e st f a1 a2 c2 st1 r st2 Hr H2 H1. rewrite eval_ECall. unfold eval_args.
  rewrite !eval_args_f_cons, eval_args_f_nil, H2, H1.
  destruct r; auto; exfalso; eapply Hr; eauto.
Qed.

(* && and ||: the right operand is not evaluated when the left one decides *)
Definition with_new_cell (st : state) (v : cellval) : state :=
  {| cells := cells st ++ [v]; arrs := arrs st; recs := recs st; out := out st |}.

Theorem and_short_circuits : forall k e st a c st1,
  eval genv k e st a = (ROk c, st1) -> get_cell st1 c = Some (CBool false) ->
  forall b, eval genv (S k) e st (EBin And a b) =
            (ROk (length (cells st1)), with_new_cell st1 (CBool false)).
Proof. intros k e st a c st1 H G b. rewrite eval_EAnd, H. unfold get_bool. rewrite G. reflexivity. Qed.

Theorem or_short_circuits : forall k e st a c st1,
  eval genv k e st a = (ROk c, st1) -> get_cell st1 c = Some (CBool true) ->
  forall b, eval genv (S k) e st (EBin Or a b) =
            (ROk (length (cells st1)), with_new_cell st1 (CBool true)).
Proof. intros k e st a c st1 H G b. rewrite eval_EOr, H. unfold get_bool. rewrite G. reflexivity. Qed.

(* fuel-free forms: b may print, fault or diverge -- it does not matter *)
Theorem and_short_circuits_evaluates : forall e st a c st1,
  evaluates genv e st a (ROk c) st1 -> get_cell st1 c = Some (CBool false) ->
  forall b, evaluates genv e st (EBin And a b)
              (ROk (length (cells st1))) (with_new_cell st1 (CBool false)).
Proof.
  intros e st a c st1 [k [H _]] G b. exists (S k). split; [|discriminate].
  eapply and_short_circuits; eauto.
Qed.

Theorem or_short_circuits_evaluates : forall e st a c st1,
  evaluates genv e st a (ROk c) st1 -> get_cell st1 c = Some (CBool true) ->
  forall b, evaluates genv e st (EBin Or a b)
              (ROk (length (cells st1))) (with_new_cell st1 (CBool true)).
Proof.
  intros e st a c st1 [k [H _]] G b. exists (S k). split; [|discriminate].
  eapply or_short_circuits; eauto.
Qed.

(* the other way round: when the left operand does not decide, the right one IS evaluated *)
Theorem and_evaluates_right : forall k e st a b c st1 c2 st2 v,
  eval genv k e st a = (ROk c, st1) -> get_cell st1 c = Some (CBool true) ->
  eval genv k e st1 b = (ROk c2, st2) -> get_cell st2 c2 = Some (CBool v) ->
  eval genv (S k) e st (EBin And a b) = (ROk (length (cells st2)), with_new_cell st2 (CBool v)).
Proof.
  intros k e st a b c st1 c2 st2 v H G H2 G2. rewrite eval_EAnd, H. unfold get_bool.
  rewrite G, H2, G2. reflexivity.
Qed.

(* binding never copies: the new name denotes the very cell of the initialiser *)
Theorem binding_never_copies : forall k e st x y c rest last,
  lookup_var genv y e = Some c ->
  eval_items genv (S (S k)) e st (ILet x (EVar y) :: rest) last =
    eval_items genv (S k) ((x, c) :: e) st rest (Some c) /\
  eval_items genv (S (S k)) e st (IVar x (EVar y) :: rest) last =
    eval_items genv (S k) ((x, c) :: e) st rest (Some c) /\
  lookup_var genv x ((x, c) :: e) = lookup_var genv y e.
Proof.
  intros k e st x y c rest last H.
  rewrite eval_items_ILet, eval_items_IVar, eval_EVar, H. repeat split; auto.
  unfold lookup_var. simpl. rewrite N.eqb_refl. unfold lookup_var in H. auto.
Qed.

(* general form: any initialiser; the name is bound to the cell the initialiser evaluated to *)
Theorem binding_shares_cell : forall k e st x a c st1 rest last,
  eval genv k e st a = (ROk c, st1) ->
  eval_items genv (S k) e st (ILet x a :: rest) last = eval_items genv k ((x, c) :: e) st1 rest (Some c) /\
  eval_items genv (S k) e st (IVar x a :: rest) last = eval_items genv k ((x, c) :: e) st1 rest (Some c).
Proof. intros. rewrite eval_items_ILet, eval_items_IVar, H. auto. Qed.

(* assignment copies the payload into the left cell; every other cell is unchanged; arrays,
   records and output are unchanged; the value of the assignment is the left cell *)
Theorem assign_copies_payload : forall k e st x rhs cx cr st2 v,
  lookup_var genv x e = Some cx ->
  eval genv (S k) e st rhs = (ROk cr, st2) -> get_cell st2 cr = Some v ->
  eval genv (S (S k)) e st (EAssign (EVar x) rhs) = (ROk cx, set_cell st2 cx v) /\
  (get_cell st2 cx <> None -> get_cell (set_cell st2 cx v) cx = Some v) /\
  (forall c, c <> cx -> get_cell (set_cell st2 cx v) c = get_cell st2 c) /\
  arrs (set_cell st2 cx v) = arrs st2 /\ recs (set_cell st2 cx v) = recs st2 /\
  out (set_cell st2 cx v) = out st2.
Proof.
  intros k e st x rhs cx cr st2 v Hx Hr Hv.
  rewrite eval_EAssign, eval_EVar, Hx, Hr, Hv. repeat split; auto.
  - unfold get_cell, set_cell; simpl. intros Hc. apply nth_error_list_upd_same.
    apply nth_error_Some; auto.
  - intros c Hc. unfold get_cell, set_cell; simpl. apply nth_error_list_upd_other; auto.
Qed.

(* an arithmetic / comparison result lives in a brand-new cell: its index is the number of
   cells existing just before it was made, hence at least the number existing before the
   operands were evaluated: it aliases nothing *)
Theorem fresh_cell_for_arith : forall op k e st a b c st',
  eval genv (S k) e st (EBin op a b) = (ROk c, st') ->
  exists st2 v, st_le st st2 /\ c = length (cells st2) /\ st' = with_new_cell st2 v /\
                length (cells st) <= c /\ get_cell st c = None.
Proof.
  intros op k e st a b c st' H.
  assert (G : exists st2 v, st_le st st2 /\ fresh st2 v = (ROk c, st')).
  { destruct (binop_cases op) as [->|[->|[Hop1 Hop2]]];
      [rewrite eval_EAnd in H | rewrite eval_EOr in H | rewrite eval_EBin in H by assumption];
      unfold binop_result in H;
      repeat match goal with
      | H : context[match ?X with _ => _ end] |- _ => destruct X eqn:?
      end; try discriminate;
      repeat match goal with
      | H : eval _ _ _ _ _ = (_, _) |- _ => apply store_monotone in H
      end;
      do 2 eexists; (split; [|exact H]); eauto using st_le_trans. }
  destruct G as [st2 [v [Hle Hf]]]. exists st2, v.
  unfold fresh, alloc in Hf. inversion Hf; subst. pose proof Hle as [Hl _].
  split; [exact Hle|]. repeat split; auto. unfold get_cell. apply nth_error_None. lia.
Qed.

End Rules.

(* ---- closures (C08) --------------------------------------------------------------- *)

Section Closures.
Variable genv : env.

(* a function value stores the current environment itself: names -> the SAME cells *)
Theorem lambda_captures_env : forall k e st fd,
  eval genv (S k) e st (ELambda fd) = (ROk (length (cells st)), with_new_cell st (CFun fd e)).
Proof. reflexivity. Qed.

(* a maximal run of adjacent function items is bound together: one new cell per function, in
   order, each holding the closure over the SAME environment e', which binds all of them *)
Theorem func_run_captures_env : forall k e st fd rest last,
  let fds := fd :: run_funcs rest in
  let c0 := length (cells st) in
  let e' := func_env fds c0 e in
  exists st1,
    eval_items genv (S k) e st (IFunc fd :: rest) last =
      eval_items genv k e' st1 (run_rest rest) (Some (length (run_funcs rest) + c0)) /\
    (forall i f, nth_error fds i = Some f -> get_cell st1 (c0 + i) = Some (CFun f e')) /\
    (forall c', c' < c0 -> get_cell st1 c' = get_cell st c') /\
    length (cells st1) = c0 + length fds /\
    arrs st1 = arrs st /\ recs st1 = recs st /\ out st1 = out st.
Proof.
  intros k e st fd rest last fds c0 e'. exists (run_state fds e st).
  split; [rewrite eval_items_IFunc; reflexivity|].
  split; [intros i f H; apply (run_state_get_new fds e st i f H)|].
  split; [intros c' H; apply run_state_get_old; exact H|].
  rewrite run_state_cells, app_length, map_length. auto.
Qed.

(* what the names of the run denote in e' *)
Theorem func_run_names : forall fds c e,
  (forall i f, nth_error fds i = Some f ->
     (forall j g, i < j -> nth_error fds j = Some g -> fd_name g <> fd_name f) ->
     lookup (fd_name f) (func_env fds c e) = Some (c + i)) /\
  (forall x, (forall f, In f fds -> fd_name f <> x) -> lookup x (func_env fds c e) = lookup x e).
Proof. intros; split; [apply func_env_nth|apply func_env_other]. Qed.

(* a function item that is not followed by another function item *)
Theorem func_item_captures_env : forall k e st fd rest last,
  run_funcs rest = [] ->
  let c := length (cells st) in
  let e' := (fd_name fd, c) :: e in
  exists st1,
    eval_items genv (S k) e st (IFunc fd :: rest) last = eval_items genv k e' st1 rest (Some c) /\
    get_cell st1 c = Some (CFun fd e') /\
    (forall c', c' <> c -> get_cell st1 c' = get_cell st c') /\
    arrs st1 = arrs st /\ recs st1 = recs st /\ out st1 = out st.
Proof.
  intros k e st fd rest last Hr c e'. eexists. split; [rewrite eval_items_IFunc1 by exact Hr; reflexivity|].
  unfold get_cell, add_cells; simpl. repeat split; auto.
  - rewrite nth_error_app2, Nat.sub_diag by lia. reflexivity.
  - intros c' Hc.
    destruct (Nat.lt_ge_cases c' (length (cells st))) as [Hlt|Hge].
    + apply nth_error_app1; auto.
    + transitivity (@None cellval); [|symmetry]; apply nth_error_None; auto.
      rewrite app_length; simpl; unfold c in *; lia.
Qed.

(* calling a function value runs its body in  parameters ++ captured environment, in the
   CURRENT store: whatever has been assigned to a captured cell meanwhile is what it sees *)
Theorem closure_call_uses_captured_env : forall k e st f args cs st1 cf st2 fd cenv penv,
  args_rtl genv k e args st cs st1 -> eval genv k e st1 f = (ROk cf, st2) ->
  get_cell st2 cf = Some (CFun fd cenv) -> bind_params (fd_params fd) cs = Some penv ->
  eval genv (S k) e st (ECall f args) = call_body genv k (penv ++ cenv) st2 fd.
Proof.
  intros. erewrite call_args_then_function by eauto. unfold apply_fun.
  rewrite H1, H2. reflexivity.
Qed.

Lemma bind_params_lookup_none : forall ps cs penv x,
  bind_params ps cs = Some penv -> (forall p, In p ps -> fst (fst p) <> x) -> lookup x penv = None.
Proof.
  induction ps as [|[[y b] t] ps IH]; intros cs penv x H Hn; destruct cs; simpl in H; try discriminate.
  - inversion H; reflexivity.
  - destruct (bind_params ps cs) eqn:E; inversion H; subst. simpl.
    assert (y <> x) by (apply (Hn (y, b, t)); simpl; auto).
    destruct (N.eqb_spec x y); [congruence|]. eapply IH; eauto. intros; apply Hn; simpl; auto.
Qed.

(* inside the body a captured name denotes the captured cell (unless a parameter hides it) *)
Theorem closure_var_denotes_captured_cell : forall k ps cs penv cenv x c st,
  bind_params ps cs = Some penv -> (forall p, In p ps -> fst (fst p) <> x) ->
  lookup x cenv = Some c ->
  eval genv (S k) (penv ++ cenv) st (EVar x) = (ROk c, st).
Proof.
  intros k ps cs penv cenv x c st Hb Hn Hl. rewrite eval_EVar. unfold lookup_var.
  assert (G : lookup x (penv ++ cenv) = Some c).
  { pose proof (bind_params_lookup_none _ _ _ _ Hb Hn) as Hp. clear Hb Hn.
    induction penv as [|[y cy] t IH]; simpl in *; auto.
    destruct (N.eqb x y); [discriminate|auto]. }
  rewrite G. reflexivity.
Qed.

(* every evaluation of a literal initialiser makes a new cell; a later activation gets a cell
   that did not exist when the earlier one finished *)
Theorem distinct_activations_distinct_cells : forall k1 k2 e1 e2 st1 st1' st2 st2' z1 z2 c1 c2,
  eval genv k1 e1 st1 (EInt z1) = (ROk c1, st1') ->
  st_le st1' st2 ->                 (* anything may happen in between: see store_monotone *)
  eval genv k2 e2 st2 (EInt z2) = (ROk c2, st2') ->
  c1 < c2 /\ c1 = length (cells st1) /\ c2 = length (cells st2) /\
  get_cell st2 c2 = None /\ get_cell st2' c1 <> None.
Proof.
  intros k1 k2 e1 e2 st1 st1' st2 st2' z1 z2 c1 c2 H1 Hle H2.
  destruct k1; [rewrite eval_O in H1; discriminate|].
  destruct k2; [rewrite eval_O in H2; discriminate|].
  rewrite eval_EInt in *. apply st_le_fresh in H1, H2.
  destruct H1 as [_ [R1 [C1 _]]], H2 as [_ [R2 [C2 _]]]. inversion R1; inversion R2; subst.
  destruct Hle as [Hl _]. rewrite C1, app_length in Hl. simpl in Hl.
  unfold get_cell. rewrite nth_error_None, nth_error_Some, C2, app_length. simpl.
  repeat split; lia.
Qed.

Theorem var_item_binds_new_cell : forall k e st x z rest last,
  eval_items genv (S (S k)) e st (IVar x (EInt z) :: rest) last =
  eval_items genv (S k) ((x, length (cells st)) :: e) (with_new_cell st (CInt (wrap32 z))) rest
             (Some (length (cells st))).
Proof. intros. rewrite eval_items_IVar, eval_EInt. reflexivity. Qed.

End Closures.

(* the two halves of "closures keep their cells", together *)
Theorem closure_captures_cells : forall genv,
  (forall k e st fd,
     eval genv (S k) e st (ELambda fd) = (ROk (length (cells st)), with_new_cell st (CFun fd e))) /\
  (forall k e st f args cs st1 cf st2 fd cenv penv,
     args_rtl genv k e args st cs st1 -> eval genv k e st1 f = (ROk cf, st2) ->
     get_cell st2 cf = Some (CFun fd cenv) -> bind_params (fd_params fd) cs = Some penv ->
     eval genv (S k) e st (ECall f args) = call_body genv k (penv ++ cenv) st2 fd).
Proof. intros; split; [apply lambda_captures_env | apply closure_call_uses_captured_env]. Qed.
