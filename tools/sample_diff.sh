#!/bin/bash
# tools/sample_diff.sh : run every /repo/sample/*.nev with the tree at /repo HEAD and with the
# working tree (uncommitted change), report programs whose stdout+stderr+exit status differ.
set -uo pipefail
VERIF="$(cd "$(dirname "$0")/.." && pwd)"
SCR="$(mktemp -d /var/tmp/nvsd.XXXXXX)"; trap 'rm -rf "$SCR"' EXIT
mkdir "$SCR/head"; git -C /repo archive HEAD | tar -x -C "$SCR/head"
A=$(NEVER_REPO="$SCR/head" "$VERIF/bin/repobuild" plain)
B=$("$VERIF/bin/repobuild" plain)
cd /repo/sample
n=0; d=0
for f in *.nev; do
  oa=$(NEVER_PATH=lib:. timeout 20 "$A/never" -f "$f" 2>&1 </dev/null; echo "rc=$?")
  ob=$(NEVER_PATH=lib:. timeout 20 "$B/never" -f "$f" 2>&1 </dev/null; echo "rc=$?")
  n=$((n+1))
  if [ "$oa" != "$ob" ]; then d=$((d+1)); echo "DIFF $f"; diff <(echo "$oa") <(echo "$ob") | head -5; fi
done
echo "samples=$n differing=$d"
