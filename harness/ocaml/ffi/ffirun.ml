(* Driver for the extracted FFI layout / marshalling model (property C17).

   run <file>      one query per line of <file> ("-" = stdin), one answer line per query:

     L <type>                   -> L <size> <align> <wf:0|1> <flat leaf offsets, comma sep>
                                     <ndesc> <total_count> <reparse-ok:0|1>
     M <type> <value>           -> M <ret:0|1> <hex image of size bytes>      (marshal_arg)
     U <type> <hex image>       -> U <value>                                  (unmarshal_ret)
     D <acc:0|1> <prep:0|1> <lib:0|1> <sym:0|1> <type>=<value>;...   (or "-" for no args)
                                -> D Called | D FfiFail                       (ffi_outcome)

   type  ::= b | i | l | f | d | c | s | p | '{' type* '}'
   value ::= '#' hex           scalar bit pattern (bool int long float double char c_ptr)
           | '$' hex | '$~'    string pointer | nil string
           | '{' value (',' value)* '}' | '~'     record | nil record
   Unverified glue: parsing, number conversion, printing. *)

module M = Ffimodel

(* ---------- numbers ---------------------------------------------------------------- *)
let rec pos_of_bits = function          (* bits LSB first, last bit must be 1 *)
  | [] -> M.XH
  | [true] -> M.XH
  | b :: r -> if b then M.XI (pos_of_bits r) else M.XO (pos_of_bits r)

let hexval c = match c with
  | '0'..'9' -> Char.code c - 48
  | 'a'..'f' -> Char.code c - 87
  | 'A'..'F' -> Char.code c - 55
  | _ -> failwith "hex digit"

let n_of_hex (s : string) : M.n =
  (* push bits, least significant first, onto `msb` (so its head is the most significant) *)
  let msb = ref [] in
  for k = String.length s - 1 downto 0 do
    let v = hexval s.[k] in
    msb := (v land 8 = 8) :: (v land 4 = 4) :: (v land 2 = 2) :: (v land 1 = 1) :: !msb
  done;
  let rec strip = function false :: r -> strip r | l -> l in
  match strip !msb with
  | [] -> M.N0
  | l -> M.Npos (pos_of_bits (List.rev l))

let rec bits_of_pos = function
  | M.XH -> [true] | M.XO p -> false :: bits_of_pos p | M.XI p -> true :: bits_of_pos p

let hex_of_n (n : M.n) : string =
  match n with
  | M.N0 -> "0"
  | M.Npos p ->
    let bits = Array.of_list (bits_of_pos p) in
    let nb = Array.length bits in
    let nd = (nb + 3) / 4 in
    String.init nd (fun k ->
      let d = nd - 1 - k in
      let v = ref 0 in
      for j = 3 downto 0 do
        let i = 4 * d + j in
        v := !v * 2 + (if i < nb && bits.(i) then 1 else 0)
      done;
      "0123456789abcdef".[!v])

let rec int_of_pos = function
  | M.XH -> 1 | M.XO p -> 2 * int_of_pos p | M.XI p -> 2 * int_of_pos p + 1
let int_of_n = function M.N0 -> 0 | M.Npos p -> int_of_pos p
let n_of_int i = n_of_hex (Printf.sprintf "%x" i)
let rec nat_of_int i = if i <= 0 then M.O else M.S (nat_of_int (i - 1))

(* ---------- parsing ---------------------------------------------------------------- *)
let parse_type (s : string) : M.fty =
  let pos = ref 0 in
  let rec ty () =
    let c = s.[!pos] in incr pos;
    match c with
    | 'b' -> M.TBool | 'i' -> M.TInt | 'l' -> M.TLong | 'f' -> M.TFloat
    | 'd' -> M.TDouble | 'c' -> M.TChar | 's' -> M.TString | 'p' -> M.TCPtr
    | '{' ->
      let fs = ref [] in
      while s.[!pos] <> '}' do fs := ty () :: !fs done;
      incr pos; M.TRec (List.rev !fs)
    | _ -> failwith ("bad type char in " ^ s)
  in
  let t = ty () in
  if !pos <> String.length s then failwith ("trailing type text in " ^ s);
  t

let parse_value (s : string) : M.fval =
  let pos = ref 0 in
  let len = String.length s in
  let hex () =
    let st = !pos in
    while !pos < len && (match s.[!pos] with '0'..'9' | 'a'..'f' | 'A'..'F' -> true | _ -> false)
    do incr pos done;
    String.sub s st (!pos - st) in
  let rec v () =
    let c = s.[!pos] in incr pos;
    match c with
    | '#' -> M.VScalar (n_of_hex (hex ()))
    | '$' -> if !pos < len && s.[!pos] = '~' then (incr pos; M.VStr None)
             else M.VStr (Some (n_of_hex (hex ())))
    | '~' -> M.VRec None
    | '{' ->
      let vs = ref [] in
      if s.[!pos] = '}' then incr pos
      else begin
        let fin = ref false in
        while not !fin do
          vs := v () :: !vs;
          (match s.[!pos] with
           | ',' -> incr pos
           | '}' -> incr pos; fin := true
           | _ -> failwith ("bad value text " ^ s))
        done
      end;
      M.VRec (Some (List.rev !vs))
    | _ -> failwith ("bad value char in " ^ s)
  in
  let r = v () in
  if !pos <> len then failwith ("trailing value text in " ^ s);
  r

let rec show_value = function
  | M.VScalar b -> "#" ^ hex_of_n b
  | M.VStr None -> "$~"
  | M.VStr (Some p) -> "$" ^ hex_of_n p
  | M.VRec None -> "~"
  | M.VRec (Some vs) -> "{" ^ String.concat "," (List.map show_value vs) ^ "}"

(* ---------- queries ---------------------------------------------------------------- *)
let b01 b = if b then "1" else "0"

let mem_of_hex (h : string) : M.mem =
  let n = String.length h / 2 in
  let a = Array.init n (fun i -> n_of_int (hexval h.[2*i] * 16 + hexval h.[2*i+1])) in
  fun addr -> let i = int_of_n addr in if i < n then a.(i) else M.N0

let answer (line : string) : string =
  match String.split_on_char ' ' (String.trim line) with
  | ["L"; ts] ->
    let t = parse_type ts in
    let wf = M.wf_fty t in
    let offs = List.map int_of_n (M.flat_offsets t M.N0) in
    let (ds, total) = M.emit_param t in
    let nd = List.length ds in
    let re = (match M.parse_type (nat_of_int (nd + 1)) ds with
        | Some (t', []) -> t' = t | _ -> false) in
    Printf.sprintf "L %d %d %s %s %d %d %s" (int_of_n (M.sizeof t)) (int_of_n (M.alignof t))
      (b01 wf) (String.concat "," (List.map string_of_int offs)) nd (int_of_n total) (b01 re)
  | ["M"; ts; vs] ->
    let t = parse_type ts in
    let v = parse_value vs in
    if not (M.has_type t v) then "M ill-typed"
    else begin
      let (m, ret) = M.marshal_arg t v in
      let img = M.image m (M.sizeof t) in
      "M " ^ b01 ret ^ " " ^
      String.concat "" (List.map (fun b -> Printf.sprintf "%02x" (int_of_n b)) img)
    end
  | ["U"; ts; h] ->
    let t = parse_type ts in
    "U " ^ show_value (M.unmarshal_ret t (mem_of_hex h))
  | ["D"; acc; prep; lib; sym; args] ->
    let args = if args = "-" then [] else
        List.map (fun a -> match String.index_opt a '=' with
            | Some i -> (parse_type (String.sub a 0 i),
                         parse_value (String.sub a (i+1) (String.length a - i - 1)))
            | None -> failwith "bad arg") (String.split_on_char ';' args) in
    (match M.ffi_outcome (acc = "1") (prep = "1") args (lib = "1") (sym = "1") with
     | M.Called -> "D Called" | M.FfiFail -> "D FfiFail")
  | _ -> "? " ^ line

let () =
  let ic = if Array.length Sys.argv > 2 && Sys.argv.(2) <> "-" then open_in Sys.argv.(2) else stdin in
  (try
     while true do
       let line = input_line ic in
       if String.trim line <> "" then
         print_endline (try answer line with e -> "E " ^ Printexc.to_string e ^ " :: " ^ line)
     done
   with End_of_file -> ());
  flush stdout
