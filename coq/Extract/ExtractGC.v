(* Extraction of the collector model for the correspondence harness (engine E1, C09).
   ExtrOcamlBasic only: nat, N, positive stay extracted datatypes; the driver
   harness/ocaml/gc/gcrun.ml converts them. *)
From Coq Require Import ExtrOcamlBasic.
From NV Require Import Base.TMap GC.GCModel.

Extraction "gcmodel.ml" gc_new step step_st run_history free_list cur_list oth_list
  tget is_alloc gc_trigger refs obj_ok.
