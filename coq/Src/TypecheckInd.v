(* Induction principle for the nested mutual syntax of Src/Syntax.v (expr / item / fdef with
   lists of expressions, lists of items, lists of catch clauses and an optional catch-all), and
   the unfolding equations of the model typechecker.  No axioms. *)
From Coq Require Import NArith List Bool.
From NV Require Import Src.Syntax Src.Types Src.Typecheck.
Import ListNotations.

Section SyntaxInd.
  Variable P : expr -> Prop.
  Variable PL : list expr -> Prop.
  Variable PI : item -> Prop.
  Variable PIL : list item -> Prop.
  Variable PF : fdef -> Prop.
  Variable PC : list (exn * list item) -> Prop.

  Hypothesis HInt : forall z, P (EInt z).
  Hypothesis HBool : forall b, P (EBool b).
  Hypothesis HVar : forall x, P (EVar x).
  Hypothesis HNeg : forall a, P a -> P (ENeg a).
  Hypothesis HNot : forall a, P a -> P (ENot a).
  Hypothesis HBNot : forall a, P a -> P (EBNot a).
  Hypothesis HBin : forall op a b, P a -> P b -> P (EBin op a b).
  Hypothesis HCond : forall c a b, P c -> P a -> P b -> P (ECond c a b).
  Hypothesis HIf : forall c a, P c -> P a -> P (EIf c a).
  Hypothesis HAssign : forall l r, P l -> P r -> P (EAssign l r).
  Hypothesis HCall : forall f args, P f -> PL args -> P (ECall f args).
  Hypothesis HBlock : forall items, PIL items -> P (EBlock items).
  Hypothesis HWhile : forall c b, P c -> P b -> P (EWhile c b).
  Hypothesis HDoWhile : forall b c, P b -> P c -> P (EDoWhile b c).
  Hypothesis HFor : forall i c s b, P i -> P c -> P s -> P b -> P (EFor i c s b).
  Hypothesis HForInRange : forall x a b body, P a -> P b -> P body -> P (EForInRange x a b body).
  Hypothesis HForInArr : forall x a body, P a -> P body -> P (EForInArr x a body).
  Hypothesis HLambda : forall fd, PF fd -> P (ELambda fd).
  Hypothesis HArrLit : forall es t, PL es -> P (EArrLit es t).
  Hypothesis HIndex : forall a i, P a -> P i -> P (EIndex a i).
  Hypothesis HRecNew : forall r args, PL args -> P (ERecNew r args).
  Hypothesis HRecNil : forall r, P (ERecNil r).
  Hypothesis HField : forall a r fld, P a -> P (EField a r fld).
  Hypothesis HPrint : forall a, P a -> P (EPrint a).
  Hypothesis HLnil : PL [].
  Hypothesis HLcons : forall a l, P a -> PL l -> PL (a :: l).
  Hypothesis HILet : forall x e, P e -> PI (ILet x e).
  Hypothesis HIVar : forall x e, P e -> PI (IVar x e).
  Hypothesis HIFunc : forall fd, PF fd -> PI (IFunc fd).
  Hypothesis HIExpr : forall e, P e -> PI (IExpr e).
  Hypothesis HILnil : PIL [].
  Hypothesis HILcons : forall i l, PI i -> PIL l -> PIL (i :: l).
  Hypothesis HCnil : PC [].
  Hypothesis HCcons : forall ex b t, PIL b -> PC t -> PC ((ex, b) :: t).
  Hypothesis HFDef : forall name ps ret body catches call,
      PIL body -> PC catches -> (forall b, call = Some b -> PIL b) ->
      PF (FDef name ps ret body catches call).

  Fixpoint expr_mut (e : expr) : P e :=
    let exprs := fix go (l : list expr) : PL l :=
                   match l with [] => HLnil | a :: t => HLcons a t (expr_mut a) (go t) end in
    let items := fix go (l : list item) : PIL l :=
                   match l with [] => HILnil | i :: t => HILcons i t (item_mut i) (go t) end in
    match e with
    | EInt z => HInt z
    | EBool b => HBool b
    | EVar x => HVar x
    | ENeg a => HNeg a (expr_mut a)
    | ENot a => HNot a (expr_mut a)
    | EBNot a => HBNot a (expr_mut a)
    | EBin op a b => HBin op a b (expr_mut a) (expr_mut b)
    | ECond c a b => HCond c a b (expr_mut c) (expr_mut a) (expr_mut b)
    | EIf c a => HIf c a (expr_mut c) (expr_mut a)
    | EAssign l r => HAssign l r (expr_mut l) (expr_mut r)
    | ECall f args => HCall f args (expr_mut f) (exprs args)
    | EBlock its => HBlock its (items its)
    | EWhile c b => HWhile c b (expr_mut c) (expr_mut b)
    | EDoWhile b c => HDoWhile b c (expr_mut b) (expr_mut c)
    | EFor i c s b => HFor i c s b (expr_mut i) (expr_mut c) (expr_mut s) (expr_mut b)
    | EForInRange x a b body => HForInRange x a b body (expr_mut a) (expr_mut b) (expr_mut body)
    | EForInArr x a body => HForInArr x a body (expr_mut a) (expr_mut body)
    | ELambda fd => HLambda fd (fdef_mut fd)
    | EArrLit es t => HArrLit es t (exprs es)
    | EIndex a i => HIndex a i (expr_mut a) (expr_mut i)
    | ERecNew r args => HRecNew r args (exprs args)
    | ERecNil r => HRecNil r
    | EField a r fld => HField a r fld (expr_mut a)
    | EPrint a => HPrint a (expr_mut a)
    end
  with item_mut (i : item) : PI i :=
    match i with
    | ILet x e => HILet x e (expr_mut e)
    | IVar x e => HIVar x e (expr_mut e)
    | IFunc fd => HIFunc fd (fdef_mut fd)
    | IExpr e => HIExpr e (expr_mut e)
    end
  with fdef_mut (fd : fdef) : PF fd :=
    let items := fix go (l : list item) : PIL l :=
                   match l with [] => HILnil | i :: t => HILcons i t (item_mut i) (go t) end in
    match fd with
    | FDef name ps ret body catches call =>
        HFDef name ps ret body catches call (items body)
              ((fix go (l : list (exn * list item)) : PC l :=
                  match l with
                  | [] => HCnil
                  | (ex, b) :: t => HCcons ex b t (items b) (go t)
                  end) catches)
              (match call as c return (forall b, c = Some b -> PIL b) with
               | Some b0 => fun b (E : Some b0 = Some b) =>
                              match E in (_ = y) return (match y with Some b' => PIL b' | None => True end) with
                              | eq_refl => items b0
                              end
               | None => fun b (E : None = Some b) =>
                           match E in (_ = y) return (match y with Some b' => PIL b' | None => True end) with
                           | eq_refl => I
                           end
               end)
    end.

  Definition items_mut : forall l, PIL l :=
    fix go (l : list item) : PIL l :=
      match l with [] => HILnil | i :: t => HILcons i t (item_mut i) (go t) end.

  Definition exprs_mut : forall l, PL l :=
    fix go (l : list expr) : PL l :=
      match l with [] => HLnil | a :: t => HLcons a t (expr_mut a) (go t) end.
  Definition syntax_mut_all :
    (forall e, P e) /\ (forall l, PIL l) /\ (forall fd, PF fd) /\ (forall l, PL l) :=
    conj expr_mut (conj items_mut (conj fdef_mut exprs_mut)).
End SyntaxInd.

(* ---- unfolding equations (all by computation) ------------------------------------------- *)
Section Eqs.
Variable R : list recdecl.
Notation tce := (tc_expr R).
Notation tcf := (tc_fdef R).
Notation tci := (tc_items (tc_expr R) (tc_fdef R)).
Notation tcb := (tc_block (tc_expr R) (tc_fdef R)).

Lemma tc_fdef_eq : forall G lam name ps ret body catches call,
  tcf G lam (FDef name ps ret body catches call) =
  if sig_wf R ps ret then
    bind (fun_env G lam name ps ret) (fun G' =>
    bind (tc_catches tce tcf G' ret catches) (fun _ =>
    bind (match call with None => Ok tt | Some b => check_ret ret (tcb G' b) end) (fun _ =>
    check_ret ret (tcb G' body))))
  else Err RUnknownType.
Proof. reflexivity. Qed.

Lemma tc_block_eq : forall G items, tce G (EBlock items) = tcb G items.
Proof. reflexivity. Qed.

Lemma tc_lambda_eq : forall G fd,
  tce G (ELambda fd) = bind (tcf G true fd) (fun _ => Ok (fd_cty fd, KTemp)).
Proof. reflexivity. Qed.
End Eqs.
