(* FFI/Layout.v — executable model of the struct-layout and marshalling LOGIC of the foreign
   call path (property C17).  Definitions only; proofs are in FFI/LayoutProofs.v.

   Mirrors (file:function of /repo):
     back/vmffi.c  vm_execute_func_ffi_align          -> ffi_align
     back/vmffi.c  vm_execute_func_ffi_record_type    -> parse_type (descriptor stream -> type tree)
     back/vmffi.c  vm_execute_func_ffi_record_value   -> marshal / marshal_fields
     back/vmffi.c  vm_execute_func_ffi_record_new     -> unmarshal / unmarshal_fields
     back/vmffi.c  vm_execute_func_ffi ("prepare values" loop, the four FFI_FAIL exits)
                                                      -> prep_vals / ffi_outcome
     front/emit.c  func_body_emit_ffi_param(_list)    -> emit_param (descriptors + total_count)

   What the C code does NOT compute itself: vm_execute_func_ffi_record_type builds an
   ffi_type tree with size = alignment = 0 and libffi's ffi_prep_cif (initialize_aggregate)
   fills in size/alignment of every struct node.  The C code then computes every FIELD OFFSET
   itself (running offset, vm_execute_func_ffi_align) from `elements[i]->size/alignment`.
   Accordingly:
     * `sizeal` below is a model of libffi (x86-64 static descriptors + initialize_aggregate),
       a component that is not under test; it is tied to gcc's sizeof/_Alignof by the
       exhaustive correspondence of checks/c17.py;
     * the running-offset logic (ffi_align, field_offsets, marshal, unmarshal) is the model of
       the code under test; LayoutProofs.layout_is_c_layout says that this logic yields the
       System V struct layout.

   Abstractions (stated, small): scalar values are their little-endian bit patterns (a `bool`
   is 0/1, written through `char`); a string is the `char *` that is written into / read from
   the buffer (None = nil string); a c_ptr is its address (c_null = 0 is not nil);
   `unsigned int` offsets are unbounded N (all sizes here are tiny; see sizeof_bound in the
   proofs: no 32-bit wrap-around for any descriptor stream shorter than 2^28). *)
From Coq Require Import NArith List Bool.
Import ListNotations.
Local Open Scope N_scope.

(* ---------------------------------------------------------------------------------------- *)
(* Types of the FFI alphabet                                                                 *)

Inductive fty : Type :=
| TBool | TInt | TLong | TFloat | TDouble | TChar | TString | TCPtr
| TRec (fs : list fty).

Definition is_rec (t : fty) : bool := match t with TRec _ => true | _ => false end.

(* back/vmffi.c: vm_execute_func_ffi_align.  `x & ~m` on unsigned is N.ldiff x m. *)
Definition ffi_align (value alignment : N) : N :=
  if alignment =? 1 then value
  else N.ldiff (value + (alignment - 1)) (alignment - 1).

(* libffi, src/prep_cif.c FFI_ALIGN as a number: the least multiple of a that is >= v *)
Definition round_up (v a : N) : N := ((v + (a - 1)) / a) * a.

(* libffi initialize_aggregate: fold over the elements, then round the size up *)
Definition agg_step (acc : N * N) (e : N * N) : N * N :=
  (round_up (fst acc) (snd e) + fst e, N.max (snd acc) (snd e)).

Definition agg (es : list (N * N)) : N * N :=
  let r := fold_left agg_step es (0, 0) in
  (round_up (fst r) (snd r), snd r).

(* (size, alignment) of the ffi_type chosen by vmffi.c for each descriptor, x86-64:
   bool,char -> ffi_type_schar; int -> sint; long -> slong; string,c_ptr -> pointer *)
Fixpoint sizeal (t : fty) : N * N :=
  match t with
  | TBool => (1, 1) | TChar => (1, 1)
  | TInt => (4, 4) | TFloat => (4, 4)
  | TLong => (8, 8) | TDouble => (8, 8) | TString => (8, 8) | TCPtr => (8, 8)
  | TRec fs => agg (map sizeal fs)
  end.

Definition sizeof (t : fty) : N := fst (sizeal t).     (* type->elements[i]->size *)
Definition alignof (t : fty) : N := snd (sizeal t).    (* type->elements[i]->alignment *)

(* a struct without members makes ffi_prep_cif fail (FFI_BAD_TYPEDEF -> ffi_fail);
   the layout statements are about types all of whose records have >= 1 field *)
Section ForallB.
  Variable A : Type.
  Variable p : A -> bool.
  Fixpoint forallb' (l : list A) : bool :=
    match l with [] => true | x :: r => p x && forallb' r end.
End ForallB.
Arguments forallb' {A}.

Fixpoint wf_fty (t : fty) : bool :=
  match t with
  | TRec fs => negb (match fs with [] => true | _ => false end) && forallb' wf_fty fs
  | _ => true
  end.

(* ---------------------------------------------------------------------------------------- *)
(* The running-offset loop shared by _record_value and _record_new:
     *offset = align( *offset, elements[i]->alignment);  ...  *offset += elements[i]->size
   (for a nested record: *offset = rec_offset + elements[i]->size, the same number).        *)

Fixpoint field_offsets (fs : list fty) (off : N) : list N :=
  match fs with
  | [] => []
  | f :: r => let o := ffi_align off (alignof f) in o :: field_offsets r (o + sizeof f)
  end.

Fixpoint fields_end (fs : list fty) (off : N) : N :=
  match fs with
  | [] => off
  | f :: r => fields_end r (ffi_align off (alignof f) + sizeof f)
  end.

(* absolute offsets of all leaf fields, depth first (what gcc's offsetof chain reports) *)
Section Flat.
  Variable flat1 : fty -> N -> list N.
  Fixpoint flat_fields_with (fs : list fty) (off : N) : list N :=
    match fs with
    | [] => []
    | f :: r => let o := ffi_align off (alignof f) in
                flat1 f off ++ flat_fields_with r (o + sizeof f)
    end.
End Flat.

Fixpoint flat_offsets (t : fty) (off : N) : list N :=
  let o := ffi_align off (alignof t) in
  match t with
  | TRec fs => flat_fields_with flat_offsets fs o
  | _ => [o]
  end.

(* ---------------------------------------------------------------------------------------- *)
(* Values and the byte buffer                                                                *)

Inductive fval : Type :=
| VScalar (bits : N)                 (* bool int long float double char c_ptr: bit pattern *)
| VStr (p : option N)                (* None = nil string *)
| VRec (r : option (list fval)).     (* None = nil record *)

Definition mem := N -> N.            (* address -> byte *)
Definition zero_mem : mem := fun _ => 0.   (* malloc + memset(0) *)

Fixpoint store_le (m : mem) (a : N) (n : nat) (v : N) : mem :=
  match n with
  | O => m
  | S k => store_le (fun x => if x =? a then v mod 256 else m x) (N.succ a) k (v / 256)
  end.

Fixpoint load_le (m : mem) (a : N) (n : nat) : N :=
  match n with
  | O => 0
  | S k => m a + 256 * load_le m (N.succ a) k
  end.

Definition nbytes (t : fty) : nat := N.to_nat (sizeof t).

(* ---------------------------------------------------------------------------------------- *)
(* vm_execute_func_ffi_record_value: write a record into the buffer.                          *)
(* Result: (memory, *offset afterwards, ret) — ret = true is the C function's `ret = 1`.     *)

Section MarshalFields.
  Variable marshal1 : fty -> fval -> mem -> N -> mem * N * bool.
  Fixpoint marshal_fields_with (fs : list fty) (vs : list fval) (m : mem) (off : N)
    : mem * N * bool :=
    match fs with
    | [] => (m, off, false)
    | f :: fr =>
        (* gc_get_vec(rec_addr, i): the i-th component of the vector; the typechecker
           guarantees the arity, a short vector is treated as nil components *)
        let v := match vs with v :: _ => v | [] => VRec None end in
        let vr := match vs with _ :: r => r | [] => [] end in
        let '(m1, o1, r1) := marshal1 f v m off in
        let '(m2, o2, r2) := marshal_fields_with fr vr m1 o1 in
        (m2, o2, r1 || r2)
    end.
End MarshalFields.

Fixpoint marshal (t : fty) (v : fval) (m : mem) (off : N) : mem * N * bool :=
  let o := ffi_align off (alignof t) in
  match t with
  | TRec fs =>
      (* case BYTECODE_FUNC_FFI_RECORD: *offset = rec_offset = align(...) *)
      match v with
      | VRec (Some vs) =>
          let '(m', _, r) := marshal_fields_with marshal fs vs m o in
          (m', o + sizeof t, r)            (* *offset = rec_offset + elements[i]->size *)
      | _ =>
          (m, o + sizeof t, true)          (* nil: ret = 1; ip += total_count - 1 *)
      end
  | TString =>
      match v with
      | VStr (Some p) => (store_le m o (nbytes t) p, o + sizeof t, false)
      | _ => (m, o + sizeof t, true)       (* nil string: ret = 1, nothing written *)
      end
  | _ =>
      match v with
      | VScalar b => (store_le m o (nbytes t) b, o + sizeof t, false)
      | _ => (m, o + sizeof t, true)       (* ill-typed; unreachable after typecheck *)
      end
  end.

Definition marshal_fields := marshal_fields_with marshal.

(* the RECORD case of the "prepare values" loop of vm_execute_func_ffi:
   rec_value = malloc(size); memset(0); offset = 0; nil -> prep_vals = 1 *)
Definition marshal_arg (t : fty) (v : fval) : mem * bool :=
  match t, v with
  | TRec fs, VRec (Some vs) =>
      let '(m, _, r) := marshal_fields fs vs zero_mem 0 in (m, r)
  | _, _ => (zero_mem, true)
  end.

Definition image (m : mem) (size : N) : list N :=
  map (fun i => m (N.of_nat i)) (seq 0 (N.to_nat size)).

(* ---------------------------------------------------------------------------------------- *)
(* vm_execute_func_ffi_record_new: read a record back from a buffer.                          *)

Section UnmarshalFields.
  Variable unmarshal1 : fty -> mem -> N -> fval * N.
  Fixpoint unmarshal_fields_with (fs : list fty) (m : mem) (off : N) : list fval * N :=
    match fs with
    | [] => ([], off)
    | f :: fr =>
        let '(v, o1) := unmarshal1 f m off in
        let '(vs, o2) := unmarshal_fields_with fr m o1 in
        (v :: vs, o2)
    end.
End UnmarshalFields.

Fixpoint unmarshal (t : fty) (m : mem) (off : N) : fval * N :=
  let o := ffi_align off (alignof t) in
  match t with
  | TRec fs =>
      (* caller: *offset = record_offset = align( *offset, elements[i]->alignment);
         callee: *offset = rec_offset = align( *offset, type->alignment)  (same number) *)
      let o' := ffi_align o (alignof t) in
      let '(vs, _) := unmarshal_fields_with unmarshal fs m o' in
      (VRec (Some vs), o + sizeof t)       (* *offset = record_offset + elements[i]->size *)
  | TString => (VStr (Some (load_le m o (nbytes t))), o + sizeof t)
  | _ => (VScalar (load_le m o (nbytes t)), o + sizeof t)
  end.

Definition unmarshal_fields := unmarshal_fields_with unmarshal.

(* the RECORD case of "get result": offset = 0; record_new(count, ret_type, ret_value) *)
Definition unmarshal_ret (t : fty) (m : mem) : fval := fst (unmarshal t m 0).

(* ---------------------------------------------------------------------------------------- *)
(* Well-typed values; nil inside a value                                                      *)

Section Forall2B.
  Variable A B : Type.
  Variable p : A -> B -> bool.
  Fixpoint forall2b (l : list A) (l' : list B) : bool :=
    match l, l' with
    | [], [] => true
    | x :: r, y :: r' => p x y && forall2b r r'
    | _, _ => false
    end.
End Forall2B.
Arguments forall2b {A B}.

Fixpoint has_type (t : fty) (v : fval) : bool :=
  match t with
  | TRec fs => match v with
               | VRec None => true
               | VRec (Some vs) => forall2b has_type fs vs
               | _ => false
               end
  | TString => match v with
               | VStr None => true
               | VStr (Some p) => p <? 2 ^ 64
               | _ => false
               end
  | TBool => match v with VScalar b => b <? 2 | _ => false end
  | _ => match v with VScalar b => b <? 2 ^ (8 * sizeof t) | _ => false end
  end.

Section ExistsB.
  Variable A : Type.
  Variable p : A -> bool.
  Fixpoint existsb' (l : list A) : bool :=
    match l with [] => false | x :: r => p x || existsb' r end.
End ExistsB.
Arguments existsb' {A}.

(* the property's "nil string/record argument", at any depth *)
Fixpoint contains_nil (v : fval) : bool :=
  match v with
  | VScalar _ => false
  | VStr None => true
  | VStr (Some _) => false
  | VRec None => true
  | VRec (Some vs) => existsb' contains_nil vs
  end.

(* ---------------------------------------------------------------------------------------- *)
(* Descriptor stream (front/emit.c) and how vmffi.c walks it                                  *)

Inductive desc : Type :=
| DBool | DInt | DLong | DFloat | DDouble | DChar | DString | DCPtr
| DRec (count total_count : N).

(* func_body_emit_ffi_param_list: concatenated descriptors and the sum of total_counts *)
Section EmitList.
  Variable emit1 : fty -> list desc * N.
  Fixpoint emit_list_with (fs : list fty) : list desc * N :=
    match fs with
    | [] => ([], 0)
    | f :: r => let a := emit1 f in
                let b := emit_list_with r in
                (fst a ++ fst b, snd a + snd b)
    end.
End EmitList.

(* func_body_emit_ffi_param: returns (descriptors, total_count) *)
Fixpoint emit_param (t : fty) : list desc * N :=
  match t with
  | TBool => ([DBool], 1) | TInt => ([DInt], 1) | TLong => ([DLong], 1)
  | TFloat => ([DFloat], 1) | TDouble => ([DDouble], 1) | TChar => ([DChar], 1)
  | TString => ([DString], 1) | TCPtr => ([DCPtr], 1)
  | TRec fs =>
      let r := emit_list_with emit_param fs in
      let total := 1 + snd r in
      (DRec (N.of_nat (length fs)) total :: fst r, total)
  end.

Definition emit_params := emit_list_with emit_param.

(* vm_execute_func_ffi_record_type: consume `count` descriptors (recursively) from ip *)
Section ParseN.
  Variable parse1 : list desc -> option (fty * list desc).
  Fixpoint parse_n (n : nat) (s : list desc) : option (list fty * list desc) :=
    match n with
    | O => Some ([], s)
    | S k => match parse1 s with
             | Some (t, s1) => match parse_n k s1 with
                               | Some (ts, s2) => Some (t :: ts, s2)
                               | None => None
                               end
             | None => None
             end
    end.
End ParseN.

Fixpoint parse_type (fuel : nat) (s : list desc) : option (fty * list desc) :=
  match fuel with
  | O => None
  | S k =>
      match s with
      | [] => None
      | DBool :: r => Some (TBool, r) | DInt :: r => Some (TInt, r)
      | DLong :: r => Some (TLong, r) | DFloat :: r => Some (TFloat, r)
      | DDouble :: r => Some (TDouble, r) | DChar :: r => Some (TChar, r)
      | DString :: r => Some (TString, r) | DCPtr :: r => Some (TCPtr, r)
      | DRec c _ :: r =>
          match parse_n (parse_type k) (N.to_nat c) r with
          | Some (fs, r') => Some (TRec fs, r')
          | None => None
          end
      end
  end.

(* nil record: the DRec descriptor has been consumed (ip++), then ip += total_count - 1 *)
Definition skip_nil_record (total_count : N) (after_head : list desc) : list desc :=
  skipn (N.to_nat (total_count - 1)) after_head.

Section DepthList.
  Variable depth1 : fty -> nat.
  Fixpoint max_depth_with (fs : list fty) : nat :=
    match fs with [] => O | f :: r => Nat.max (depth1 f) (max_depth_with r) end.
End DepthList.

Fixpoint depth (t : fty) : nat :=
  match t with TRec fs => S (max_depth_with depth fs) | _ => O end.

(* ---------------------------------------------------------------------------------------- *)
(* The decision logic of vm_execute_func_ffi                                                  *)

(* "prepare values": prep_vals starts at 0.
     STRING nil           : prep_vals = 1
     RECORD non-nil       : prep_vals = record_value(...)      <- assignment in the pinned tree
     RECORD nil           : prep_vals = 1
   `accumulate = false` is the pinned tree (the assignment forgets an earlier 1);
   `accumulate = true`  is `prep_vals |= record_value(...)`. checks/c17.py observes which of
   the two the tree implements. *)
Fixpoint prep_vals (accumulate : bool) (args : list (fty * fval)) (pv : bool) : bool :=
  match args with
  | [] => pv
  | (t, v) :: r =>
      match t with
      | TString =>
          prep_vals accumulate r (match v with VStr (Some _) => pv | _ => true end)
      | TRec _ =>
          match v with
          | VRec (Some _) =>
              let ret := snd (marshal_arg t v) in
              prep_vals accumulate r (if accumulate then pv || ret else ret)
          | _ => prep_vals accumulate r true
          end
      | _ => prep_vals accumulate r pv
      end
  end.

Inductive outcome : Type := FfiFail | Called.

(* order of the exits: ffi_prep_cif (prep_ok), prep_vals, dlcache_get_handle, dlsym *)
Definition ffi_outcome (accumulate prep_ok : bool) (args : list (fty * fval))
                       (lib_found sym_found : bool) : outcome :=
  if negb prep_ok then FfiFail
  else if prep_vals accumulate args false then FfiFail
  else if negb lib_found then FfiFail
  else if negb sym_found then FfiFail
  else Called.

(* ffi_prep_cif succeeds iff no struct is empty (size 0), parameters and return type *)
Definition prep_ok (params : list fty) (ret : option fty) : bool :=
  forallb' wf_fty params && match ret with Some t => wf_fty t | None => true end.
