(* Src/CompileCorrect3.v — compiler correctness on the machine WITH FRAMES (VM/ValueVM3.v) for the
   code of Src/Compile3.v, all three levels of the fragment (stage 3 of Src/CompileCorrect.v, whose
   theorems on the frameless machine of stages 1-2 stay).

   By one induction on the evaluator's fuel (`spec_all`), jointly for
     expr_spec     an expression anywhere in a function of a program that is laid out as the function
                   table says (`pcode_at`): `eval` yields cell c => the VM reaches the end of the
                   block with the image of c pushed and the frame registers (fp, exception, suspended
                   activations) unchanged; `eval` raises => the exception has been DISPATCHED: ip =
                   exception_tab_search(address of the faulting instruction), machine->exception set,
                   registers otherwise unchanged (`raises`)
     items_spec, while_spec, dowhile_spec   blocks and loops (as in stages 1-2)
     tail_spec, titems_spec   expressions / blocks in TAIL POSITION of a function (cexpr (Some f) true):
                   as above, or the whole activation has already RETurned to / RETHROWn at its caller
                   (`returned`, `rethrown`) — through a self tail call `args; f; SLIDE; CALL` that
                   reuses the frame (`tcase_ECall`)
   and, derived at each fuel, body_spec: one activation of a program function from FUNC_DEF to the
   state after its RET (result on the caller's stack, caller's registers restored) or after its
   LABEL; RETHROW (exception re-raised at the caller's CALL).
   Calls (`case_ECall`): MARK pushes the five header words, the arguments are evaluated right to left
   at levels L+5, L+6, … (`args_spec_of`), GLOBAL_VEC 0; ID_FUNC_ADDR f; CALL suspend the caller
   (`enter_call`), body_spec runs the callee, LABEL continues; a fault inside an argument unwinds the
   pending header through the function's LABEL; RETHROW and re-raises at the CALL (`unwind_pending`);
   a fault inside the callee comes back through RETHROW.  print(e) is the call of the stdlib body
   FUNC_DEF; ID_LOCAL 0 0; BUILD_IN print; RET (`case_EPrint`).
   Theorem compile_expr_correct_frames; whole programs (layout facts, entry stub,
   compile_program_correct_F3) are in Src/CompileCorrect3Prog.v.  No axioms. *)
From Coq Require Import ZArith List Bool Lia.
From NV Require Import Gen.Opcodes Verifier.Effect Src.Syntax Src.Eval Src.EvalLemmas Src.EvalProps
  VM.ValueVM3 Src.Compile3 Src.CompileCorrect3Base.
Import ListNotations.
Local Open Scope Z_scope.

Ltac inv H := inversion H; subst; clear H.

Section Correct.
Variable X : xinfo.          (* exception table, entry address, arguments, function table *)
Variable G : ginfo.          (* the program's top-level functions and the evaluator's genv *)
Variable lv : nat.           (* fragment level: 1 = F1, 2 = F2, 3 = F3 *)
Let genv : env := g_genv G.
Let FS : fsigs := g_sigs G.
Let FT : list ident := map fd_name (g_funcs G).

Local Notation step := (ValueVM3.step X).
Local Notation star := (ValueVM3.star X).
Local Notation star_one := (CompileCorrect3Base.star_one X).
Local Notation star_trans := (CompileCorrect3Base.star_trans X).
Local Notation star_snoc := (CompileCorrect3Base.star_snoc X).
Local Notation in_F := (Compile3.in_F FS).
Local Notation items_F := (Compile3.items_F FS).
Local Notation compile_expr := (Compile3.compile_expr FT).
Local Notation compile_items := (Compile3.compile_items FT).
Local Notation compile_block := (Compile3.compile_block FT).
Local Notation compile_items_let := (Compile3.compile_items_let FT).
Local Notation compile_items_var := (Compile3.compile_items_var FT).
Local Notation compile_items_expr := (Compile3.compile_items_expr FT).
Local Notation compile_for := (Compile3.compile_for FT).
Local Notation env_match := (CompileCorrect3Base.env_match G).
Local Notation env_match_ext := (CompileCorrect3Base.env_match_ext G).
Local Notation env_match_push := (CompileCorrect3Base.env_match_push G).
Local Notation env_match_bind := (CompileCorrect3Base.env_match_bind G).

(* ---- what the proofs need to know about the program the code sits in ------------------------- *)

Definition faddr (k : nat) : nat := nth k (x_ftab X) 0%nat.

Definition print_body : list rinstr := std_body (1%nat, lib_math_print).

(* the stdlib function print and every function of the program are where the function table says,
   and the exception table sends every address of a segment of a program function (the body, each
   catch clause) to the LABEL that ends the segment *)
Record prog_ok (prog : list rinstr) : Prop := {
  po_print : CompileCorrect3Base.code_at prog (faddr 13) print_body;
  po_fun : forall k fd, nth_error (g_funcs G) k = Some fd ->
           CompileCorrect3Base.code_at prog (faddr (nstd + k)) (compile_func FT fd);
  po_tab : forall k fd pre seg post i, nth_error (g_funcs G) k = Some fd ->
           fsegs FT fd = pre ++ seg :: post ->
           (faddr (nstd + k) + length (concat pre) <= i <
            faddr (nstd + k) + length (concat pre) + length seg)%nat ->
           hsearch (x_tab X) i 0 = (faddr (nstd + k) + length (concat pre) + length seg - 1)%nat
}.

Definition pcode_at (prog : list rinstr) (pc : nat) (c : list rinstr) : Prop :=
  CompileCorrect3Base.code_at prog pc c /\ prog_ok prog.

Lemma pcode_at_app_l : forall prog pc c1 c2, pcode_at prog pc (c1 ++ c2) -> pcode_at prog pc c1.
Proof. intros prog pc c1 c2 (H & Hp). split; [eapply CompileCorrect3Base.code_at_app_l; eauto | exact Hp]. Qed.

Lemma pcode_at_app_r : forall prog pc c1 c2, pcode_at prog pc (c1 ++ c2) ->
  pcode_at prog (pc + length c1)%nat c2.
Proof. intros prog pc c1 c2 (H & Hp). split; [eapply CompileCorrect3Base.code_at_app_r; eauto | exact Hp]. Qed.

Lemma pcode_at_head : forall prog pc i c, pcode_at prog pc (i :: c) -> nth_error prog pc = Some i.
Proof. intros prog pc i c (H & _). eapply CompileCorrect3Base.code_at_head; eauto. Qed.

Lemma pcode_at_tail : forall prog pc i c, pcode_at prog pc (i :: c) -> pcode_at prog (S pc) c.
Proof. intros prog pc i c (H & Hp). split; [eapply CompileCorrect3Base.code_at_tail; eauto | exact Hp]. Qed.

Local Notation code_at := pcode_at.
Local Notation code_at_app_l := pcode_at_app_l.
Local Notation code_at_app_r := pcode_at_app_r.
Local Notation code_at_head := pcode_at_head.
Local Notation code_at_tail := pcode_at_tail.

Section Frame.
Variable fr : fregs.         (* the registers fp / exception and the suspended activations *)
Local Notation mkst ip stk h o := (ValueVM3.mkst ip stk h o fr).

(* ---- single steps ---------------------------------------------------------------------- *)

Lemma step_int : forall prog ip stk h o z w,
  nth_error prog ip = Some (ins BYTECODE_INT z w) ->
  step prog (mkst ip stk h o) = SNext (mkst (S ip) (length h :: stk) (h ++ [z]) o).
Proof. intros. unfold ValueVM3.step. simpl. rewrite H. reflexivity. Qed.

Lemma step_id_local : forall prog ip stk h o L i a,
  nth_error prog ip = Some (ins BYTECODE_ID_LOCAL L i) -> i <= L ->
  nth_error stk (Z.to_nat (L - i)) = Some a ->
  step prog (mkst ip stk h o) = SNext (mkst (S ip) (a :: stk) h o).
Proof.
  intros. unfold ValueVM3.step. simpl. rewrite H. simpl. unfold zn.
  destruct (L - i <? 0) eqn:E; [apply Z.ltb_lt in E; lia|]. rewrite H1. reflexivity.
Qed.

Lemma step_neg : forall prog ip a stk h o z,
  nth_error prog ip = Some (ins0 BYTECODE_OP_NEG_INT) -> nth_error h a = Some z ->
  step prog (mkst ip (a :: stk) h o) = SNext (mkst (S ip) (length h :: stk) (h ++ [wrap32 (- z)]) o).
Proof. intros. unfold ValueVM3.step. simpl. rewrite H. simpl. rewrite H0. reflexivity. Qed.

Lemma step_not : forall prog ip a stk h o z,
  nth_error prog ip = Some (ins0 BYTECODE_OP_NOT_INT) -> nth_error h a = Some z ->
  step prog (mkst ip (a :: stk) h o) = SNext (mkst (S ip) (length h :: stk) (h ++ [b2z (z =? 0)]) o).
Proof. intros. unfold ValueVM3.step. simpl. rewrite H. simpl. rewrite H0. reflexivity. Qed.

Lemma step_binop : forall prog ip stk h o op ab aa za zb,
  f1_binop op = true ->
  nth_error prog ip = Some (ins0 (binop_opcode op)) ->
  nth_error h aa = Some za -> nth_error h ab = Some zb ->
  step prog (mkst ip (ab :: aa :: stk) h o) =
  match vm_binop (binop_opcode op) za zb with
  | Some (BVal v) => SNext (mkst (S ip) (length h :: stk) (h ++ [v]) o)
  | Some BDivZero => SNext (ValueVM3.mkst (hsearch (x_tab X) ip 0) (ab :: aa :: stk) h o (set_exc fr ExDivision))
  | None => SStuck
  end.
Proof.
  intros prog ip stk h o op ab aa za zb Hop Hn Ha Hb.
  destruct op; try discriminate Hop; unfold ValueVM3.step; simpl; rewrite Hn; simpl; rewrite Ha, Hb; reflexivity.
Qed.

Lemma step_ass : forall prog ip ar al stk h o z,
  nth_error prog ip = Some (ins0 BYTECODE_OP_ASS_INT) -> nth_error h ar = Some z ->
  (al < length h)%nat ->
  step prog (mkst ip (ar :: al :: stk) h o) = SNext (mkst (S ip) (al :: stk) (list_upd h al z) o).
Proof.
  intros. unfold ValueVM3.step. simpl. rewrite H. simpl. rewrite H0.
  apply Nat.ltb_lt in H1. rewrite H1. reflexivity.
Qed.

Lemma step_jumpz_zero : forall prog ip a stk h o off w,
  nth_error prog ip = Some (ins BYTECODE_JUMPZ off w) -> nth_error h a = Some 0 -> 0 <= off ->
  step prog (mkst ip (a :: stk) h o) = SNext (mkst (ip + 1 + Z.to_nat off) stk h o).
Proof.
  intros. unfold ValueVM3.step. simpl. rewrite H. simpl. rewrite H0. simpl.
  rewrite jump_target_fwd by assumption. reflexivity.
Qed.

Lemma step_jumpz_nonzero : forall prog ip a stk h o off w z,
  nth_error prog ip = Some (ins BYTECODE_JUMPZ off w) -> nth_error h a = Some z -> z <> 0 ->
  step prog (mkst ip (a :: stk) h o) = SNext (mkst (S ip) stk h o).
Proof.
  intros. unfold ValueVM3.step. simpl. rewrite H. simpl. rewrite H0.
  destruct (z =? 0) eqn:E; [apply Z.eqb_eq in E; contradiction|]. reflexivity.
Qed.

Lemma step_jump_fwd : forall prog ip stk h o off w,
  nth_error prog ip = Some (ins BYTECODE_JUMP off w) -> 0 <= off ->
  step prog (mkst ip stk h o) = SNext (mkst (ip + 1 + Z.to_nat off) stk h o).
Proof.
  intros. unfold ValueVM3.step. simpl. rewrite H. simpl. rewrite jump_target_fwd by assumption. reflexivity.
Qed.

Lemma step_label : forall prog ip stk h o,
  nth_error prog ip = Some (ins0 BYTECODE_LABEL) ->
  step prog (mkst ip stk h o) = SNext (mkst (S ip) stk h o).
Proof. intros. unfold ValueVM3.step. simpl. rewrite H. reflexivity. Qed.

Lemma step_line : forall prog ip stk h o,
  nth_error prog ip = Some (ins0 BYTECODE_LINE) ->
  step prog (mkst ip stk h o) = SNext (mkst (S ip) stk h o).
Proof. intros. unfold ValueVM3.step. simpl. rewrite H. reflexivity. Qed.

Lemma step_func_def : forall prog ip stk h o,
  nth_error prog ip = Some (ins0 BYTECODE_FUNC_DEF) ->
  step prog (mkst ip stk h o) = SNext (mkst (S ip) stk h o).
Proof. intros. unfold ValueVM3.step. simpl. rewrite H. reflexivity. Qed.

Lemma step_slide_pop : forall prog ip a stk h o,
  nth_error prog ip = Some (ins BYTECODE_SLIDE 1 0) ->
  step prog (mkst ip (a :: stk) h o) = SNext (mkst (S ip) stk h o).
Proof. intros. unfold ValueVM3.step. simpl. rewrite H. reflexivity. Qed.

Lemma zn_nonneg : forall z, 0 <= z -> zn z = Some (Z.to_nat z).
Proof. intros. unfold zn. destruct (z <? 0) eqn:E; [apply Z.ltb_lt in E; lia|]. reflexivity. Qed.

Lemma step_slide_block : forall prog ip a locals stk h o n,
  nth_error prog ip = Some (ins BYTECODE_SLIDE n 1) -> 0 < n -> Z.of_nat (length locals) = n ->
  step prog (mkst ip (a :: locals ++ stk) h o) = SNext (mkst (S ip) (a :: stk) h o).
Proof.
  intros prog ip a locals stk h o n H Hn Hl. unfold ValueVM3.step. simpl v_ip. rewrite H.
  cbn [r_op ins r_w0 r_w1]. rewrite (zn_nonneg n), (zn_nonneg 1) by lia.
  change (Z.to_nat 1) with 1%nat.
  assert (Hq : Z.to_nat n = length locals) by lia. rewrite Hq.
  destruct (Nat.eqb (length locals) 0) eqn:E0; [apply Nat.eqb_eq in E0; lia|].
  cbn [v_stk v_heap v_out v_fr ValueVM3.mkst].
  replace (Nat.leb (length locals + 1) (length (a :: locals ++ stk))) with true
    by (symmetry; apply Nat.leb_le; simpl; rewrite app_length; lia).
  replace (1 + length locals)%nat with (S (length locals)) by lia.
  cbn [firstn skipn app]. rewrite skipn_app, skipn_all, Nat.sub_diag. reflexivity.
Qed.

(* ---- the handlers compute what the evaluator computes ------------------------------------ *)

Lemma quot_m1 : forall a, Z.quot a (-1) = - a.
Proof. intros. change (-1) with (- (1)). rewrite Z.quot_opp_r by lia. now rewrite Z.quot_1_r. Qed.

Lemma rem_m1 : forall a, Z.rem a (-1) = 0.
Proof. intros. change (-1) with (- (1)). rewrite Z.rem_opp_r by lia. apply Z.rem_1_r. Qed.

Definition bres_of (o : option cellval) : bres :=
  match o with
  | Some (CInt v) => BVal v
  | Some (CBool b) => BVal (b2z b)
  | _ => BDivZero
  end.

Lemma vm_binop_int : forall op z1 z2, f1_binop op = true ->
  match op with Shl | Shr => 0 <= z2 < 32 | _ => True end ->
  vm_binop (binop_opcode op) z1 z2 = Some (bres_of (int_binop op z1 z2)).
Proof.
  intros op z1 z2 Hop Hsh. destruct op; try discriminate Hop; simpl; try reflexivity.
  - destruct (z2 =? 0) eqn:E0; [reflexivity|]. simpl.
    destruct (z2 =? -1) eqn:E1; [|reflexivity]. apply Z.eqb_eq in E1. subst. now rewrite quot_m1.
  - destruct (z2 =? 0) eqn:E0; [reflexivity|]. simpl.
    destruct (z2 =? -1) eqn:E1; [|reflexivity]. apply Z.eqb_eq in E1. subst. now rewrite rem_m1.
  - rewrite Z.mod_small by lia. reflexivity.
  - rewrite Z.mod_small by lia. reflexivity.
Qed.

Lemma int_binop_shape : forall op z1 z2 v, int_binop op z1 z2 = Some v ->
  (exists n, v = CInt n) \/ (exists b, v = CBool b).
Proof.
  intros op z1 z2 v H. destruct op; simpl in H;
    try (destruct (z2 =? 0); try discriminate); inv H; eauto.
Qed.

Lemma vm_eq_bool : forall b1 b2,
  vm_binop BYTECODE_OP_EQ_INT (b2z b1) (b2z b2) = Some (BVal (b2z (Bool.eqb b1 b2))).
Proof. destruct b1, b2; reflexivity. Qed.

Lemma vm_neq_bool : forall b1 b2,
  vm_binop BYTECODE_OP_NEQ_INT (b2z b1) (b2z b2) = Some (BVal (b2z (negb (Bool.eqb b1 b2)))).
Proof. destruct b1, b2; reflexivity. Qed.

(* ---- the statement ------------------------------------------------------------------------ *)

(* normal termination of a code block: one more slot, holding the image of the result cell; the
   frame registers are what they were *)
Definition post_ok (prog : list rinstr) (s : vstate) (pc' : nat) (m : morph) (c : nat) (st' : state) : Prop :=
  exists s' m' a, star prog s s' /\ v_ip s' = pc' /\ v_stk s' = a :: v_stk s /\
    nth_error m' c = Some (MA a) /\ MS m' st' (v_heap s') /\ ext m m' /\ v_out s' = out st' /\
    v_fr s' = v_fr s.

(* the handler at H is a bare LABEL; RETHROW (a function without catch clauses, or the end of the last
   clause) *)
Definition is_rethrow (prog : list rinstr) (H : nat) : bool :=
  match nth_error prog H, nth_error prog (S H) with
  | Some i, Some j =>
    match r_op i, r_op j with BYTECODE_LABEL, BYTECODE_RETHROW => true | _, _ => false end
  | _, _ => false
  end.

(* an exception has been raised by an instruction at an address in [lo, hi) — the DIV/MOD handler,
   or the RETHROW of a callee re-raising at the CALL — and dispatched: ip is the handler the
   exception table gives for that address, machine->exception is set, the suspended activations are
   unchanged, the stack has only grown, the stores are still related.  fp is the one of the start
   state if the handler is a bare LABEL; RETHROW (a fault under a pending MARK has then been unwound
   already); if the handler is a catch clause (CLEAR_STACK resets fp) a MARK may still be pending. *)
Definition raises (prog : list rinstr) (s : vstate) (lo hi : nat) (m : morph) (st' : state) : Prop :=
  exists s' fip m' fp', star prog s s' /\ (lo <= fip < hi)%nat /\
    v_ip s' = hsearch (x_tab X) fip 0 /\ v_fr s' = set_exc (set_fp (v_fr s) fp') ExDivision /\
    (is_rethrow prog (v_ip s') = true -> fp' = r_fp (v_fr s)) /\
    (exists t top, v_stk s' = t :: top ++ v_stk s) /\ v_out s' = out st' /\
    MS m' st' (v_heap s') /\ ext m m'.

Definition concl (prog : list rinstr) (s : vstate) (pc n : nat) (m : morph) (r : res) (st' : state) : Prop :=
  match r with
  | ROk c => post_ok prog s (pc + n) m c st'
  | RExc ex => ex = ExDivision /\ raises prog s pc (pc + n) m st'
  | _ => True
  end.

Lemma post_ok_intro : forall prog s pc' m c st' s' m' a,
  star prog s s' -> v_ip s' = pc' -> v_stk s' = a :: v_stk s ->
  nth_error m' c = Some (MA a) -> MS m' st' (v_heap s') -> ext m m' -> v_out s' = out st' ->
  v_fr s' = v_fr s ->
  post_ok prog s pc' m c st'.
Proof. intros. exists s', m', a. tauto. Qed.

Lemma set_fp_same : forall f : fregs, set_fp f (r_fp f) = f.
Proof. intros [a b c]. reflexivity. Qed.

Lemma raises_weaken : forall prog s lo hi lo' hi' m st', raises prog s lo hi m st' ->
  (lo' <= lo)%nat -> (hi <= hi')%nat -> raises prog s lo' hi' m st'.
Proof.
  intros prog s lo hi lo' hi' m st' (s' & fip & m' & fp' & H1 & H2 & H3 & H4 & H5 & H6 & H7 & H8 & H9) Hl Hh.
  exists s', fip, m', fp'. split; [exact H1|]. split; [lia|]. tauto.
Qed.

(* a run in front of the raising one: same registers, the stack of s on top of the stack of s0 *)
Lemma raises_star : forall prog s0 s lo hi m0 m st', star prog s0 s ->
  v_fr s = v_fr s0 -> (exists pre, v_stk s = pre ++ v_stk s0) ->
  raises prog s lo hi m st' -> ext m0 m -> raises prog s0 lo hi m0 st'.
Proof.
  intros prog s0 s lo hi m0 m st' Hs Hfr (pre & Hpre)
         (s' & fip & m' & fp' & H1 & H2 & H3 & H4 & H5 & (t & top & H6) & H7 & H8 & H9) Hext.
  exists s', fip, m', fp'. split; [eapply star_trans; eauto|]. split; [exact H2|]. split; [exact H3|].
  split; [congruence|]. split; [rewrite <- Hfr; exact H5|]. split.
  - exists t, (top ++ pre). rewrite H6, Hpre, app_assoc. reflexivity.
  - split; [exact H7|]. split; [exact H8 | eapply ext_trans; eauto].
Qed.

Ltac ext_tac :=
  first [ assumption | apply ext_refl
        | eapply ext_trans; [eassumption | eassumption]
        | eapply ext_trans; [eassumption | eapply ext_trans; [eassumption | eassumption]] ].

Ltac stk_ext :=
  simpl;
  match goal with
  | |- exists pre, ?s = pre ++ ?s => exists []; reflexivity
  | |- exists pre, ?a :: ?s = pre ++ ?s => exists [a]; reflexivity
  | |- exists pre, ?l ++ ?s = pre ++ ?s => exists l; reflexivity
  end.

Lemma fresh_inv : forall st v r st', fresh st v = (r, st') -> exists c, r = ROk c.
Proof. intros st v r st' H. unfold fresh in H. destruct (alloc st v). inv H. eauto. Qed.


Definition expr_case (k : nat) (e : expr) : Prop :=
  forall env st r st', eval genv k env st e = (r, st') ->
  forall sc, in_F lv sc e = true ->
  forall prog pc L ce s m,
    code_at prog pc (compile_expr L ce e) -> v_ip s = pc ->
    MS m st (v_heap s) -> v_out s = out st -> env_match m env ce sc L (v_stk s) ->
    concl prog s pc (length (compile_expr L ce e)) m r st'.

Definition expr_spec (k : nat) : Prop := forall e, expr_case k e.

(* the same for states with the registers `fr` of this section *)
Definition expr_case_at (k : nat) (e : expr) : Prop :=
  forall env st r st', eval genv k env st e = (r, st') ->
  forall sc, in_F lv sc e = true ->
  forall prog L ce ip stk h o m,
    code_at prog ip (compile_expr L ce e) ->
    MS m st h -> o = out st -> env_match m env ce sc L stk ->
    concl prog (mkst ip stk h o) ip (length (compile_expr L ce e)) m r st'.

Definition items_concl (prog : list rinstr) (s : vstate) (pc : nat) (code : list rinstr)
  (nb : Z) (m : morph) (r : res) (st' : state) : Prop :=
    match r with
    | ROk c =>
      exists s' m' a locals, star prog s s' /\
        v_ip s' = (pc + length code)%nat /\
        v_stk s' = a :: locals ++ v_stk s /\ Z.of_nat (length locals) = nb /\
        nth_error m' c = Some (MA a) /\ MS m' st' (v_heap s') /\ ext m m' /\ v_out s' = out st' /\
        v_fr s' = v_fr s
    | RExc ex => ex = ExDivision /\ raises prog s pc (pc + length code) m st'
    | _ => True
    end.

Definition items_spec (k : nat) : Prop :=
  forall items env st last r st', eval_items genv k env st items last = (r, st') ->
  forall sc, items_F lv sc items = true ->
  forall prog pc L ce s m,
    code_at prog pc (compile_items L ce items) -> v_ip s = pc ->
    MS m st (v_heap s) -> v_out s = out st -> env_match m env ce sc L (v_stk s) ->
    items_concl prog s pc (compile_items L ce items) (nbinds items) m r st'.

Definition items_spec_at (k : nat) : Prop :=
  forall items env st last r st', eval_items genv k env st items last = (r, st') ->
  forall sc, items_F lv sc items = true ->
  forall prog L ce ip stk h o m,
    code_at prog ip (compile_items L ce items) ->
    MS m st h -> o = out st -> env_match m env ce sc L stk ->
    items_concl prog (mkst ip stk h o) ip (compile_items L ce items) (nbinds items) m r st'.

Lemma case_EInt : forall k z, expr_case_at (S k) (EInt z).
Proof.
  intros k z env st r st' He sc HF prog L ce ip stk h o m Hc HMS Hout Hem.
  rewrite eval_EInt in He. simpl in HF. simpl in Hc |- *.
  destruct (fresh_inv _ _ _ _ He) as (c & ->). simpl.
  assert (Hv : val_rel (CInt (wrap32 z)) z) by (simpl; now rewrite wrap32_small).
  destruct (MS_fresh _ _ _ _ _ _ _ HMS Hv He) as (HMS' & Hm' & Hout').
  apply (post_ok_intro _ _ _ _ _ _ (mkst (S ip) (length h :: stk) (h ++ [z]) o)
           (m ++ [MA (length h)]) (length h)); simpl; auto.
  - apply star_one, (step_int _ _ _ _ _ _ 0), (code_at_head _ _ _ _ Hc).
  - lia.
  - apply ext_snoc.
  - congruence.
Qed.

Lemma case_EBool : forall k b, expr_case_at (S k) (EBool b).
Proof.
  intros k b env st r st' He sc HF prog L ce ip stk h o m Hc HMS Hout Hem.
  rewrite eval_EBool in He. simpl in Hc |- *.
  destruct (fresh_inv _ _ _ _ He) as (c & ->). simpl.
  assert (Hv : val_rel (CBool b) (b2z b)) by reflexivity.
  destruct (MS_fresh _ _ _ _ _ _ _ HMS Hv He) as (HMS' & Hm' & Hout').
  apply (post_ok_intro _ _ _ _ _ _ (mkst (S ip) (length h :: stk) (h ++ [b2z b]) o)
           (m ++ [MA (length h)]) (length h)); simpl; auto.
  - apply star_one, (step_int _ _ _ _ _ _ 0), (code_at_head _ _ _ _ Hc).
  - lia.
  - apply ext_snoc.
  - congruence.
Qed.

Lemma case_EVar : forall k x, expr_case_at (S k) (EVar x).
Proof.
  intros k x env st r st' He sc HF prog L ce ip stk h o m Hc HMS Hout Hem.
  rewrite eval_EVar in He. simpl in HF.
  change (compile_expr L ce (EVar x)) with [ins BYTECODE_ID_LOCAL L (cidx x ce)] in *. simpl in Hc |- *.
  destruct (proj1 Hem x HF) as (i & c & a & Hcl & Hle & Hl & Hm & Hn).
  unfold lookup_var in He. rewrite Hl in He. inv He. simpl.
  unfold cidx in Hc. rewrite Hcl in Hc.
  apply (post_ok_intro _ _ _ _ _ _ (mkst (S ip) (a :: stk) h (out st')) m a); simpl; auto.
  - apply star_one. eapply step_id_local; eauto. eapply code_at_head; eauto.
  - lia.
  - apply ext_refl.
Qed.

Ltac exc_here Ha :=
  let Hr := fresh "Hr" in
  destruct Ha as [-> Hr]; split; [reflexivity |
    eapply raises_weaken; [exact Hr | lia | rewrite ?app_length; simpl; lia]].

Lemma get_int_not_bool : forall st c z, get_int st c = Some z -> get_bool st c = None.
Proof.
  unfold get_int, get_bool. intros st c z H. destruct (get_cell st c) as [[]|]; try discriminate; reflexivity.
Qed.

Lemma case_ENeg : forall k a, expr_spec k -> expr_case_at (S k) (ENeg a).
Proof.
  intros k a IH env st r st' He sc HF prog L ce ip stk h o m Hc HMS Hout Hem.
  rewrite eval_ENeg in He. simpl in HF. apply andb_true_iff in HF. destruct HF as [_ Fa].
  change (compile_expr L ce (ENeg a)) with (compile_expr L ce a ++ [ins0 BYTECODE_OP_NEG_INT]) in *.
  set (ca := compile_expr L ce a) in *.
  destruct (eval genv k env st a) as [r1 st1] eqn:Ea.
  pose proof (IH a _ _ _ _ Ea sc Fa prog ip L ce (mkst ip stk h o) m
                (code_at_app_l _ _ _ _ Hc) eq_refl HMS Hout Hem) as Ha. fold ca in Ha.
  destruct r1 as [c1|ex| |]; simpl in Ha; [| inv He; simpl; exc_here Ha | inv He; exact I | inv He; exact I].
  destruct Ha as (s1 & m1 & a1 & Hst1 & Hip1 & Hstk1 & Hm1 & HMS1 & Hext1 & Hout1 & Hfr1).
  destruct s1 as [ip1 stk1 h1 o1 fr1]; simpl in Hip1, Hstk1, HMS1, Hout1, Hfr1; subst ip1 stk1 fr1.
  destruct (get_int st1 c1) as [z|] eqn:Eg; [|inv He; exact I].
  destruct (fresh_inv _ _ _ _ He) as (c & ->). simpl.
  pose proof (MS_payload_int _ _ _ _ _ _ HMS1 Hm1 Eg) as Hp.
  assert (Hv : val_rel (CInt (wrap32 (- z))) (wrap32 (- z))) by reflexivity.
  destruct (MS_fresh _ _ _ _ _ _ _ HMS1 Hv He) as (HMS' & Hm' & Hout').
  apply (post_ok_intro _ _ _ _ _ _ (mkst (S (ip + length ca)) (length h1 :: stk) (h1 ++ [wrap32 (- z)]) o1)
           (m1 ++ [MA (length h1)]) (length h1)); simpl; auto.
  - eapply star_snoc; [exact Hst1|]. apply step_neg; auto.
    eapply code_at_head. apply code_at_app_r. exact Hc.
  - rewrite app_length. simpl. lia.
  - eapply ext_trans; [exact Hext1 | apply ext_snoc].
  - congruence.
Qed.

Lemma case_ENot : forall k a, expr_spec k -> expr_case_at (S k) (ENot a).
Proof.
  intros k a IH env st r st' He sc HF prog L ce ip stk h o m Hc HMS Hout Hem.
  rewrite eval_ENot in He. simpl in HF. apply andb_true_iff in HF. destruct HF as [_ Fa].
  change (compile_expr L ce (ENot a)) with (compile_expr L ce a ++ [ins0 BYTECODE_OP_NOT_INT]) in *.
  set (ca := compile_expr L ce a) in *.
  destruct (eval genv k env st a) as [r1 st1] eqn:Ea.
  pose proof (IH a _ _ _ _ Ea sc Fa prog ip L ce (mkst ip stk h o) m
                (code_at_app_l _ _ _ _ Hc) eq_refl HMS Hout Hem) as Ha. fold ca in Ha.
  destruct r1 as [c1|ex| |]; simpl in Ha; [| inv He; simpl; exc_here Ha | inv He; exact I | inv He; exact I].
  destruct Ha as (s1 & m1 & a1 & Hst1 & Hip1 & Hstk1 & Hm1 & HMS1 & Hext1 & Hout1 & Hfr1).
  destruct s1 as [ip1 stk1 h1 o1 fr1]; simpl in Hip1, Hstk1, HMS1, Hout1, Hfr1; subst ip1 stk1 fr1.
  destruct (get_bool st1 c1) as [b|] eqn:Eg; [|inv He; exact I].
  destruct (fresh_inv _ _ _ _ He) as (c & ->). simpl.
  pose proof (MS_payload_bool _ _ _ _ _ _ HMS1 Hm1 Eg) as Hp.
  assert (Hv : val_rel (CBool (negb b)) (b2z (b2z b =? 0))) by (destruct b; reflexivity).
  destruct (MS_fresh _ _ _ _ _ _ _ HMS1 Hv He) as (HMS' & Hm' & Hout').
  apply (post_ok_intro _ _ _ _ _ _ (mkst (S (ip + length ca)) (length h1 :: stk) (h1 ++ [b2z (b2z b =? 0)]) o1)
           (m1 ++ [MA (length h1)]) (length h1)); simpl; auto.
  - eapply star_snoc; [exact Hst1|]. apply step_not; auto.
    eapply code_at_head. apply code_at_app_r. exact Hc.
  - rewrite app_length. simpl. lia.
  - eapply ext_trans; [exact Hext1 | apply ext_snoc].
  - congruence.
Qed.

(* the operator instruction(s) on two evaluated operands *)
Lemma exec_binop_ok : forall prog ip op stk h o a2 a1 za zb zr,
  f1_binop op = true -> code_at prog ip (binop_code op) ->
  nth_error h a1 = Some za -> nth_error h a2 = Some zb ->
  vm_binop (binop_opcode op) za zb = Some (BVal zr) ->
  star prog (mkst ip (a2 :: a1 :: stk) h o)
            (mkst (ip + length (binop_code op)) (length h :: stk) (h ++ [zr]) o).
Proof.
  intros prog ip op stk h o a2 a1 za zb zr Hop Hc H1 H2 Hvm.
  assert (Hone : forall ip', nth_error prog ip' = Some (ins0 (binop_opcode op)) ->
            step prog (mkst ip' (a2 :: a1 :: stk) h o) = SNext (mkst (S ip') (length h :: stk) (h ++ [zr]) o)).
  { intros ip' Hn. rewrite (step_binop _ _ _ _ _ op _ _ za zb Hop Hn H1 H2), Hvm. reflexivity. }
  destruct op; try discriminate Hop; simpl binop_code in *; simpl length;
    try (replace (ip + 1)%nat with (S ip) by lia; apply star_one, Hone; eapply code_at_head; exact Hc).
  - replace (ip + 2)%nat with (S (S ip)) by lia.
    eapply star_step; [apply step_line; eapply code_at_head; exact Hc|].
    apply star_one, Hone. eapply code_at_head, code_at_tail. exact Hc.
  - replace (ip + 2)%nat with (S (S ip)) by lia.
    eapply star_step; [apply step_line; eapply code_at_head; exact Hc|].
    apply star_one, Hone. eapply code_at_head, code_at_tail. exact Hc.
Qed.

Lemma exec_binop_div : forall prog ip op stk h o a2 a1 za zb,
  f1_binop op = true -> code_at prog ip (binop_code op) ->
  nth_error h a1 = Some za -> nth_error h a2 = Some zb ->
  vm_binop (binop_opcode op) za zb = Some BDivZero ->
  exists fip, (ip <= fip < ip + length (binop_code op))%nat /\
    star prog (mkst ip (a2 :: a1 :: stk) h o)
         (ValueVM3.mkst (hsearch (x_tab X) fip 0) (a2 :: a1 :: stk) h o (set_exc fr ExDivision)).
Proof.
  intros prog ip op stk h o a2 a1 za zb Hop Hc H1 H2 Hvm.
  assert (Hone : forall ip', nth_error prog ip' = Some (ins0 (binop_opcode op)) ->
            step prog (mkst ip' (a2 :: a1 :: stk) h o) =
            SNext (ValueVM3.mkst (hsearch (x_tab X) ip' 0) (a2 :: a1 :: stk) h o (set_exc fr ExDivision))).
  { intros ip' Hn. rewrite (step_binop _ _ _ _ _ op _ _ za zb Hop Hn H1 H2), Hvm. reflexivity. }
  destruct op; try discriminate Hop; simpl binop_code in *; simpl length;
    try (exists ip; split; [lia|]; apply star_one, Hone; eapply code_at_head; exact Hc).
  - exists (S ip). split; [lia|].
    eapply star_step; [apply step_line; eapply code_at_head; exact Hc|].
    apply star_one, Hone. eapply code_at_head, code_at_tail. exact Hc.
  - exists (S ip). split; [lia|].
    eapply star_step; [apply step_line; eapply code_at_head; exact Hc|].
    apply star_one, Hone. eapply code_at_head, code_at_tail. exact Hc.
Qed.

Lemma finish_binop : forall prog s0 ip op stk h o a2 a1 za zb zr v m0 m st r st' pc n,
  star prog s0 (mkst ip (a2 :: a1 :: stk) h o) -> v_stk s0 = stk -> v_fr s0 = fr ->
  f1_binop op = true -> code_at prog ip (binop_code op) ->
  nth_error h a1 = Some za -> nth_error h a2 = Some zb ->
  vm_binop (binop_opcode op) za zb = Some (BVal zr) -> val_rel v zr ->
  MS m st h -> o = out st -> ext m0 m -> fresh st v = (r, st') ->
  (ip + length (binop_code op) = pc + n)%nat ->
  concl prog s0 pc n m0 r st'.
Proof.
  intros prog s0 ip op stk h o a2 a1 za zb zr v m0 m st r st' pc n
         Hst Hstk Hfr0 Hop Hc H1 H2 Hvm Hv HMS Ho Hext Hf Hn.
  destruct (fresh_inv _ _ _ _ Hf) as (c & ->). simpl.
  destruct (MS_fresh _ _ _ _ _ _ _ HMS Hv Hf) as (HMS' & Hm' & Hout').
  apply (post_ok_intro _ _ _ _ _ _ (mkst (ip + length (binop_code op)) (length h :: stk) (h ++ [zr]) o)
           (m ++ [MA (length h)]) (length h)); simpl; auto.
  - eapply star_trans; [exact Hst|]. eapply exec_binop_ok; eauto.
  - congruence.
  - eapply ext_trans; [exact Hext | apply ext_snoc].
  - congruence.
Qed.

Lemma bres_of_val : forall op z1 z2 v, int_binop op z1 z2 = Some v ->
  exists z, bres_of (Some v) = BVal z /\ val_rel v z.
Proof.
  intros op z1 z2 v H. destruct (int_binop_shape _ _ _ _ H) as [(n & ->) | (b & ->)]; simpl; eauto.
Qed.

Lemma eval_EInt_value : forall k env st z c st', eval genv k env st (EInt z) = (ROk c, st') ->
  get_int st' c = Some (wrap32 z).
Proof.
  intros k env st z c st' H. destruct k; [rewrite eval_O in H; discriminate|].
  rewrite eval_EInt in H. unfold fresh, alloc in H. inv H.
  unfold get_int, get_cell. simpl. rewrite nth_error_app2, Nat.sub_diag by lia. reflexivity.
Qed.

Lemma compile_EBin : forall L ce op a b, f1_binop op = true ->
  compile_expr L ce (EBin op a b) = compile_expr L ce a ++ compile_expr (L + 1) ce b ++ binop_code op.
Proof. intros L ce op a b H. destruct op; try discriminate H; reflexivity. Qed.

Lemma case_EBin : forall k op a b, f1_binop op = true -> expr_spec k -> expr_case_at (S k) (EBin op a b).
Proof.
  intros k op a b Hop IH env st r st' He sc HF prog L ce ip stk h o m Hc HMS Hout Hem.
  simpl in HF.
  apply andb_true_iff in HF; destruct HF as [HF Fb].
  apply andb_true_iff in HF; destruct HF as [HF Fa].
  apply andb_true_iff in HF; destruct HF as [HF Hsh].
  assert (Hno : op <> And /\ op <> Or) by (destruct op; simpl in Hop; try discriminate; split; discriminate).
  rewrite eval_EBin in He by tauto.
  rewrite (compile_EBin _ _ _ _ _ Hop) in *.
  set (ca := compile_expr L ce a) in *. set (cb := compile_expr (L + 1) ce b) in *.
  destruct (eval genv k env st a) as [r1 st1] eqn:Ea.
  pose proof (IH a _ _ _ _ Ea sc Fa prog ip L ce (mkst ip stk h o) m
                (code_at_app_l _ _ _ _ Hc) eq_refl HMS Hout Hem) as Ha. fold ca in Ha.
  destruct r1 as [c1|ex| |]; simpl in Ha; [| inv He; simpl; exc_here Ha | inv He; exact I | inv He; exact I].
  destruct Ha as (s1 & m1 & a1 & Hst1 & Hip1 & Hstk1 & Hm1 & HMS1 & Hext1 & Hout1 & Hfr1).
  destruct s1 as [ip1 stk1 h1 o1 fr1]; simpl in Hip1, Hstk1, HMS1, Hout1, Hfr1; subst ip1 stk1 fr1.
  destruct (eval genv k env st1 b) as [r2 st2] eqn:Eb.
  assert (Hcb : code_at prog (ip + length ca) cb).
  { apply code_at_app_l with (c2 := binop_code op). apply code_at_app_r. exact Hc. }
  assert (Hcop : code_at prog (ip + length ca + length cb) (binop_code op)).
  { apply code_at_app_r. apply code_at_app_r. exact Hc. }
  pose proof (IH b _ _ _ _ Eb sc Fb prog (ip + length ca)%nat (L + 1) ce
                (mkst (ip + length ca) (a1 :: stk) h1 o1) m1 Hcb eq_refl HMS1 Hout1
                (env_match_push _ _ _ _ _ _ a1 (env_match_ext _ _ _ _ _ _ _ Hem Hext1))) as Hb.
  fold cb in Hb.
  destruct r2 as [c2|ex| |]; simpl in Hb; [| inv He; simpl | inv He; exact I | inv He; exact I].
  2:{ destruct Hb as [-> Hr]. split; [reflexivity|]. eapply raises_star; [exact Hst1 | reflexivity | stk_ext | eapply raises_weaken; [exact Hr | lia | rewrite !app_length; lia] | ext_tac]. }
  destruct Hb as (s2 & m2 & a2 & Hst2 & Hip2 & Hstk2 & Hm2 & HMS2 & Hext2 & Hout2 & Hfr2).
  destruct s2 as [ip2 stk2 h2 o2 fr2]; simpl in Hip2, Hstk2, HMS2, Hout2, Hfr2; subst ip2 stk2 fr2.
  assert (Hm1' : nth_error m2 c1 = Some (MA a1)) by (eapply ext_nth; eauto).
  assert (Hst : star prog (mkst ip stk h o) (mkst (ip + length ca + length cb) (a2 :: a1 :: stk) h2 o2))
    by (eapply star_trans; eauto).
  assert (Hlen : (ip + length ca + length cb + length (binop_code op) =
                  ip + length (ca ++ cb ++ binop_code op))%nat) by (rewrite !app_length; lia).
  assert (Hext : ext m m2) by (eapply ext_trans; eauto).
  unfold binop_result in He.
  rewrite (nil_cmp_mapped op _ _ _ c1 a1 (get_cell st2 c2) HMS2 Hm1') in He.
  destruct (get_int st2 c1) as [z1|] eqn:G1.
  - destruct (get_int st2 c2) as [z2|] eqn:G2.
    + pose proof (MS_payload_int _ _ _ _ _ _ HMS2 Hm1' G1) as P1.
      pose proof (MS_payload_int _ _ _ _ _ _ HMS2 Hm2 G2) as P2.
      assert (Hshift : match op with Shl | Shr => 0 <= z2 < 32 | _ => True end).
      { destruct op; auto; simpl in Hsh; destruct b; try discriminate Hsh;
          apply andb_true_iff in Hsh; destruct Hsh as [S1 S2]; apply Z.leb_le in S1; apply Z.ltb_lt in S2;
          pose proof (eval_EInt_value _ _ _ _ _ _ Eb) as Hz; rewrite G2 in Hz; inv Hz;
          unfold wrap32; rewrite Z.mod_small by lia; lia. }
      pose proof (vm_binop_int op z1 z2 Hop Hshift) as Hvm.
      destruct (int_binop op z1 z2) as [v|] eqn:Ei.
      * destruct (bres_of_val _ _ _ _ Ei) as (zr & Hbr & Hv). rewrite Hbr in Hvm.
        eapply finish_binop; eauto.
      * inv He. simpl in Hvm |- *. split; [reflexivity|].
        destruct (exec_binop_div _ _ _ stk _ (out st') _ _ _ _ Hop Hcop P1 P2 Hvm) as (fip & Hrange & Hs').
        exists (ValueVM3.mkst (hsearch (x_tab X) fip 0) (a2 :: a1 :: stk) h2 (out st') (set_exc fr ExDivision)), fip, m2, (r_fp fr).
        split; [eapply star_trans; eauto|]. split; [lia|]. split; [reflexivity|].
        split; [simpl; rewrite set_fp_same; reflexivity|]. split; [reflexivity|].
        split; [exists a2, [a1]; reflexivity|]. split; [reflexivity|]. split; [exact HMS2 | exact Hext].
    + rewrite (get_int_not_bool _ _ _ G1) in He. destruct op; inv He; exact I.
  - destruct (get_bool st2 c1) as [b1|] eqn:B1; destruct (get_bool st2 c2) as [b2|] eqn:B2;
      destruct op; try (inv He; exact I); try discriminate Hop.
    + pose proof (MS_payload_bool _ _ _ _ _ _ HMS2 Hm1' B1) as P1.
      pose proof (MS_payload_bool _ _ _ _ _ _ HMS2 Hm2 B2) as P2.
      eapply (finish_binop _ _ _ Eq); eauto. apply vm_eq_bool. reflexivity.
    + pose proof (MS_payload_bool _ _ _ _ _ _ HMS2 Hm1' B1) as P1.
      pose proof (MS_payload_bool _ _ _ _ _ _ HMS2 Hm2 B2) as P2.
      eapply (finish_binop _ _ _ Ne); eauto. apply vm_neq_bool. reflexivity.
Qed.

Lemma case_ECond : forall k c a b, expr_spec k -> expr_case_at (S k) (ECond c a b).
Proof.
  intros k c a b IH env st r st' He sc HF prog L ce ip stk h o m Hc HMS Hout Hem.
  simpl in HF.
  apply andb_true_iff in HF; destruct HF as [HF Fb].
  apply andb_true_iff in HF; destruct HF as [HF Fa].
  apply andb_true_iff in HF; destruct HF as [_ Fc].
  rewrite eval_ECond in He.
  change (compile_expr L ce (ECond c a b)) with
    (compile_expr L ce c ++ ins BYTECODE_JUMPZ (len (compile_expr L ce a) + 2) 0 :: compile_expr L ce a ++
     ins BYTECODE_JUMP (len (compile_expr L ce b) + 2) 0 :: ins0 BYTECODE_LABEL ::
     compile_expr L ce b ++ [ins0 BYTECODE_LABEL]) in *.
  set (cc := compile_expr L ce c) in *. set (ca := compile_expr L ce a) in *.
  set (cb := compile_expr L ce b) in *.
  assert (Htot : forall X : list rinstr,
            length (cc ++ ins BYTECODE_JUMPZ (len ca + 2) 0 :: ca ++
                    ins BYTECODE_JUMP (len cb + 2) 0 :: ins0 BYTECODE_LABEL :: cb ++ [ins0 BYTECODE_LABEL])
            = (length cc + length ca + length cb + 4)%nat).
  { intros _. rewrite !app_length. simpl. rewrite !app_length. simpl. rewrite app_length. simpl. lia. }
  specialize (Htot []). rewrite Htot.
  pose proof (code_at_app_l _ _ _ _ Hc) as Hcc.
  pose proof (code_at_app_r _ _ _ _ Hc) as H1.
  pose proof (code_at_head _ _ _ _ H1) as HJZ.
  pose proof (code_at_tail _ _ _ _ H1) as H2.
  pose proof (code_at_app_l _ _ _ _ H2) as Hca.
  pose proof (code_at_app_r _ _ _ _ H2) as H3.
  pose proof (code_at_head _ _ _ _ H3) as HJ.
  pose proof (code_at_tail _ _ _ _ (code_at_tail _ _ _ _ H3)) as H4.
  pose proof (code_at_app_l _ _ _ _ H4) as Hcb.
  pose proof (code_at_head _ _ _ _ (code_at_app_r _ _ _ _ H4)) as HL.
  destruct (eval genv k env st c) as [r1 st1] eqn:Ec.
  pose proof (IH c _ _ _ _ Ec sc Fc prog ip L ce (mkst ip stk h o) m Hcc eq_refl HMS Hout Hem) as Hcnd.
  fold cc in Hcnd.
  destruct r1 as [c1|ex| |]; simpl in Hcnd; [| inv He; simpl | inv He; exact I | inv He; exact I].
  2:{ destruct Hcnd as [-> Hr]. split; [reflexivity|]. eapply raises_weaken; [exact Hr | lia | lia]. }
  destruct Hcnd as (s1 & m1 & a1 & Hst1 & Hip1 & Hstk1 & Hm1 & HMS1 & Hext1 & Hout1 & Hfr1).
  destruct s1 as [ip1 stk1 h1 o1 fr1]; simpl in Hip1, Hstk1, HMS1, Hout1, Hfr1; subst ip1 stk1 fr1.
  destruct (get_bool st1 c1) as [bv|] eqn:Eg; [|inv He; exact I].
  pose proof (MS_payload_bool _ _ _ _ _ _ HMS1 Hm1 Eg) as Hp.
  pose proof (env_match_ext _ _ _ _ _ _ _ Hem Hext1) as Hem1.
  destruct bv.
  - (* condition true: fall through into a, then JUMP over b *)
    assert (Hj : star prog (mkst ip stk h o) (mkst (S (ip + length cc)) stk h1 o1)).
    { eapply star_snoc; [exact Hst1|]. eapply step_jumpz_nonzero; eauto. simpl. lia. }
    pose proof (IH a _ _ _ _ He sc Fa prog (S (ip + length cc)) L ce
                  (mkst (S (ip + length cc)) stk h1 o1) m1 Hca eq_refl HMS1 Hout1 Hem1) as Ha.
    fold ca in Ha.
    destruct r as [c2|ex| |]; simpl in Ha |- *; auto.
    + destruct Ha as (s2 & m2 & a2 & Hst2 & Hip2 & Hstk2 & Hm2 & HMS2 & Hext2 & Hout2 & Hfr2).
      destruct s2 as [ip2 stk2 h2 o2 fr2]; simpl in Hip2, Hstk2, HMS2, Hout2, Hfr2; subst ip2 stk2 fr2.
      apply (post_ok_intro _ _ _ _ _ _ (mkst (ip + (length cc + length ca + length cb + 4)) (a2 :: stk) h2 o2) m2 a2);
        simpl; auto.
      * eapply star_trans; [exact Hj|]. eapply star_snoc; [exact Hst2|].
        rewrite (step_jump_fwd _ _ _ _ _ _ _ HJ) by (unfold len; lia).
        f_equal. f_equal. unfold len. lia.
      * eapply ext_trans; eauto.
    + destruct Ha as [-> Hr]. split; [reflexivity|]. eapply raises_star; [exact Hj | reflexivity | stk_ext | eapply raises_weaken; [exact Hr | lia | lia] | ext_tac].
  - (* condition false: JUMPZ to b *)
    assert (Hj : star prog (mkst ip stk h o) (mkst (S (S (S (ip + length cc) + length ca))) stk h1 o1)).
    { eapply star_snoc; [exact Hst1|].
      rewrite (step_jumpz_zero _ _ _ _ _ _ _ _ HJZ Hp) by (unfold len; lia).
      f_equal. f_equal. unfold len. lia. }
    pose proof (IH b _ _ _ _ He sc Fb prog (S (S (S (ip + length cc) + length ca))) L ce
                  (mkst (S (S (S (ip + length cc) + length ca))) stk h1 o1) m1 Hcb eq_refl HMS1 Hout1 Hem1) as Hb.
    fold cb in Hb.
    destruct r as [c2|ex| |]; simpl in Hb |- *; auto.
    + destruct Hb as (s2 & m2 & a2 & Hst2 & Hip2 & Hstk2 & Hm2 & HMS2 & Hext2 & Hout2 & Hfr2).
      destruct s2 as [ip2 stk2 h2 o2 fr2]; simpl in Hip2, Hstk2, HMS2, Hout2, Hfr2; subst ip2 stk2 fr2.
      apply (post_ok_intro _ _ _ _ _ _ (mkst (S (S (S (S (ip + length cc) + length ca)) + length cb)) (a2 :: stk) h2 o2) m2 a2);
        simpl; auto.
      * eapply star_trans; [exact Hj|]. eapply star_snoc; [exact Hst2|].
        apply step_label. exact HL.
      * lia.
      * eapply ext_trans; eauto.
    + destruct Hb as [-> Hr]. split; [reflexivity|]. eapply raises_star; [exact Hj | reflexivity | stk_ext | eapply raises_weaken; [exact Hr | lia | lia] | ext_tac].
Qed.

Lemma case_EAssign : forall k l rhs, expr_spec k -> expr_case_at (S k) (EAssign l rhs).
Proof.
  intros k l rhs IH env st r st' He sc HF prog L ce ip stk h o m Hc HMS Hout Hem.
  simpl in HF. destruct l; try discriminate HF.
  apply andb_true_iff in HF; destruct HF as [Fx Fb].
  assert (Fa : in_F lv sc (EVar x) = true) by exact Fx.
  rewrite eval_EAssign in He.
  change (compile_expr L ce (EAssign (EVar x) rhs))
    with (compile_expr L ce (EVar x) ++ compile_expr (L + 1) ce rhs ++ [ins0 BYTECODE_OP_ASS_INT]) in *.
  set (ca := compile_expr L ce (EVar x)) in *. set (cb := compile_expr (L + 1) ce rhs) in *.
  destruct (eval genv k env st (EVar x)) as [r1 st1] eqn:Ea.
  pose proof (IH (EVar x) _ _ _ _ Ea sc Fa prog ip L ce (mkst ip stk h o) m
                (code_at_app_l _ _ _ _ Hc) eq_refl HMS Hout Hem) as Ha. fold ca in Ha.
  destruct r1 as [c1|ex| |]; simpl in Ha; [| inv He; simpl; exc_here Ha | inv He; exact I | inv He; exact I].
  destruct Ha as (s1 & m1 & a1 & Hst1 & Hip1 & Hstk1 & Hm1 & HMS1 & Hext1 & Hout1 & Hfr1).
  destruct s1 as [ip1 stk1 h1 o1 fr1]; simpl in Hip1, Hstk1, HMS1, Hout1, Hfr1; subst ip1 stk1 fr1.
  destruct (eval genv k env st1 rhs) as [r2 st2] eqn:Eb.
  assert (Hcb : code_at prog (ip + length ca) cb).
  { apply code_at_app_l with (c2 := [ins0 BYTECODE_OP_ASS_INT]). apply code_at_app_r. exact Hc. }
  assert (Hcop : nth_error prog (ip + length ca + length cb) = Some (ins0 BYTECODE_OP_ASS_INT)).
  { eapply code_at_head. apply code_at_app_r. apply code_at_app_r. exact Hc. }
  pose proof (IH rhs _ _ _ _ Eb sc Fb prog (ip + length ca)%nat (L + 1) ce
                (mkst (ip + length ca) (a1 :: stk) h1 o1) m1 Hcb eq_refl HMS1 Hout1
                (env_match_push _ _ _ _ _ _ a1 (env_match_ext _ _ _ _ _ _ _ Hem Hext1))) as Hb.
  fold cb in Hb.
  destruct r2 as [c2|ex| |]; simpl in Hb; [| inv He; simpl | inv He; exact I | inv He; exact I].
  2:{ destruct Hb as [-> Hr]. split; [reflexivity|]. eapply raises_star; [exact Hst1 | reflexivity | stk_ext | eapply raises_weaken; [exact Hr | lia | rewrite !app_length; lia] | ext_tac]. }
  destruct Hb as (s2 & m2 & a2 & Hst2 & Hip2 & Hstk2 & Hm2 & HMS2 & Hext2 & Hout2 & Hfr2).
  destruct s2 as [ip2 stk2 h2 o2 fr2]; simpl in Hip2, Hstk2, HMS2, Hout2, Hfr2; subst ip2 stk2 fr2.
  assert (Hm1' : nth_error m2 c1 = Some (MA a1)) by (eapply ext_nth; eauto).
  destruct (get_cell st2 c2) as [v|] eqn:G2; [|inv He; exact I].
  destruct (MS_payload_cell _ _ _ _ _ _ HMS2 Hm2 G2) as (z & P2 & Hv).
  pose proof (MS_addr_lt _ _ _ _ _ HMS2 Hm1') as Hlt.
  pose proof (MS_assign _ _ _ _ _ _ _ HMS2 Hm1' Hv) as HMS3.
  inv He. simpl.
  apply (post_ok_intro _ _ _ _ _ _ (mkst (S (ip + length ca + length cb)) (a1 :: stk) (list_upd h2 a1 z) (out st2)) m2 a1);
    simpl; auto.
  - eapply star_trans; [exact Hst1|]. eapply star_snoc; [exact Hst2|].
    apply step_ass; auto.
  - rewrite !app_length. simpl. lia.
  - eapply ext_trans; eauto.
Qed.

Lemma items_F1_let : forall sc x e t, items_F lv sc (ILet x e :: t) =
  negb (is_fname FS x) && in_F lv sc e && items_F lv (x :: sc) t.
Proof. reflexivity. Qed.
Lemma items_F1_var : forall sc x e t, items_F lv sc (IVar x e :: t) =
  negb (is_fname FS x) && in_F lv sc e && items_F lv (x :: sc) t.
Proof. reflexivity. Qed.
Lemma items_F1_expr : forall sc e t, items_F lv sc (IExpr e :: t) =
  in_F lv sc e && match t with [] => true | _ => items_F lv sc t end.
Proof. reflexivity. Qed.

Lemma nbinds_nonneg : forall l, 0 <= nbinds l.
Proof. induction l as [|i t IH]; [simpl; lia|]. destruct i; cbn [nbinds]; lia. Qed.

Lemma case_EBlock : forall k items, items_spec k -> expr_case_at (S k) (EBlock items).
Proof.
  intros k items IHi env st r st' He sc HF prog L ce ip stk h o m Hc HMS Hout Hem.
  rewrite eval_EBlock in He. rewrite compile_block in *.
  change (in_F lv sc (EBlock items)) with (items_F lv sc items) in HF.
  pose proof (IHi items env st None r st' He sc HF prog ip L ce (mkst ip stk h o) m
                (code_at_app_l _ _ _ _ Hc) eq_refl HMS Hout Hem) as Hi.
  destruct r as [c|ex| |]; simpl in Hi |- *; auto.
  - destruct Hi as (s1 & m1 & a & locals & Hst1 & Hip1 & Hstk1 & Hlen & Hm1 & HMS1 & Hext1 & Hout1 & Hfr1).
    destruct s1 as [ip1 stk1 h1 o1 fr1]; simpl in Hip1, Hstk1, HMS1, Hout1, Hfr1; subst ip1 stk1 fr1.
    pose proof (code_at_app_r _ _ _ _ Hc) as Hce.
    unfold block_end in *. destruct (0 <? nbinds items) eqn:En.
    + apply Z.ltb_lt in En.
      apply (post_ok_intro _ _ _ _ _ _ (mkst (S (ip + length (compile_items L ce items))) (a :: stk) h1 o1) m1 a);
        simpl; auto.
      * eapply star_snoc; [exact Hst1|]. eapply step_slide_block; eauto. eapply code_at_head; exact Hce.
      * rewrite app_length. simpl. lia.
    + apply Z.ltb_ge in En. pose proof (nbinds_nonneg items).
      assert (locals = []) by (destruct locals; [reflexivity | simpl in Hlen; lia]). subst locals.
      apply (post_ok_intro _ _ _ _ _ _ (mkst (ip + length (compile_items L ce items)) (a :: stk) h1 o1) m1 a);
        simpl; auto.
      rewrite app_nil_r. reflexivity.
  - destruct Hi as [-> Hr]. split; [reflexivity|].
    eapply raises_weaken; [exact Hr | lia | rewrite app_length; lia].
Qed.

Lemma eval_items_nil_inv : forall k env st c r st',
  eval_items genv k env st [] (Some c) = (r, st') -> r = RFuel \/ (r = ROk c /\ st' = st).
Proof.
  intros k env st c r st' H. destruct k.
  - rewrite eval_items_O in H. inv H. auto.
  - rewrite eval_items_nil in H. inv H. auto.
Qed.

(* one binding item followed by the rest of the block *)
Lemma items_bind_step : forall k x e t, expr_spec k -> items_spec k ->
  forall env st r st',
  match eval genv k env st e with
  | (ROk c, st1) => eval_items genv k ((x, c) :: env) st1 t (Some c)
  | r => r end = (r, st') ->
  forall sc, negb (is_fname FS x) && in_F lv sc e && items_F lv (x :: sc) t = true ->
  forall prog L ce ip stk h o m,
    code_at prog ip (compile_expr L ce e ++ compile_items (L + 1) ((x, L + 1) :: ce) t) ->
    MS m st h -> o = out st -> env_match m env ce sc L stk ->
    items_concl prog (mkst ip stk h o) ip
      (compile_expr L ce e ++ compile_items (L + 1) ((x, L + 1) :: ce) t) (1 + nbinds t) m r st'.
Proof.
  intros k x e t IHe IHi env st r st' He sc HF prog L ce ip stk h o m Hc HMS Hout Hem.
  apply andb_true_iff in HF; destruct HF as [HF Ft].
  apply andb_true_iff in HF; destruct HF as [Hnx Fe]. apply negb_true_iff in Hnx.
  set (ca := compile_expr L ce e) in *. set (ct := compile_items (L + 1) ((x, L + 1) :: ce) t) in *.
  destruct (eval genv k env st e) as [r1 st1] eqn:Ea.
  pose proof (IHe e _ _ _ _ Ea sc Fe prog ip L ce (mkst ip stk h o) m
                (code_at_app_l _ _ _ _ Hc) eq_refl HMS Hout Hem) as Ha. fold ca in Ha.
  destruct r1 as [c1|ex| |]; simpl in Ha; [| inv He; simpl; exc_here Ha | inv He; exact I | inv He; exact I].
  destruct Ha as (s1 & m1 & a1 & Hst1 & Hip1 & Hstk1 & Hm1 & HMS1 & Hext1 & Hout1 & Hfr1).
  destruct s1 as [ip1 stk1 h1 o1 fr1]; simpl in Hip1, Hstk1, HMS1, Hout1, Hfr1; subst ip1 stk1 fr1.
  pose proof (IHi t _ _ _ _ _ He (x :: sc) Ft prog (ip + length ca)%nat (L + 1) ((x, L + 1) :: ce)
                (mkst (ip + length ca) (a1 :: stk) h1 o1) m1 (code_at_app_r _ _ _ _ Hc) eq_refl HMS1 Hout1
                (env_match_bind _ _ _ _ _ _ x c1 a1 (env_match_ext _ _ _ _ _ _ _ Hem Hext1) Hm1 Hnx)) as Ht.
  fold ct in Ht. unfold items_concl in Ht |- *.
  destruct r as [c|ex| |]; cbv beta iota in Ht |- *; auto.
  - destruct Ht as (s2 & m2 & a2 & locals & Hst2 & Hip2 & Hstk2 & Hlen & Hm2 & HMS2 & Hext2 & Hout2 & Hfr2).
    destruct s2 as [ip2 stk2 h2 o2 fr2]; simpl in Hip2, Hstk2, HMS2, Hout2, Hfr2; subst ip2 stk2 fr2.
    exists (mkst (ip + length ca + length ct) (a2 :: locals ++ a1 :: stk) h2 o2), m2, a2, (locals ++ [a1]).
    cbn [v_ip v_stk v_heap v_out v_fr ValueVM3.mkst]. split; [eapply star_trans; eauto|]. split; [rewrite app_length; lia|].
    split; [rewrite <- app_assoc; reflexivity|]. split; [rewrite app_length; cbn [length]; lia|].
    split; [exact Hm2|]. split; [exact HMS2|]. split; [eapply ext_trans; eauto|]. split; [exact Hout2 | reflexivity].
  - destruct Ht as [-> Hr]. split; [reflexivity|]. eapply raises_star; [exact Hst1 | reflexivity | stk_ext | eapply raises_weaken; [exact Hr | lia | rewrite app_length; lia] | ext_tac].
Qed.

Lemma items_step : forall k, expr_spec k -> items_spec k -> items_spec_at (S k).
Proof.
  intros k IHe IHi items env st last r st' He sc HF prog L ce ip stk h o m Hc HMS Hout Hem.
  destruct items as [|it t]; [discriminate HF|].
  destruct it as [x e | x e | fd | e].
  - rewrite eval_items_ILet in He. rewrite items_F1_let in HF. rewrite compile_items_let in *.
    change (nbinds (ILet x e :: t)) with (1 + nbinds t).
    eapply items_bind_step; eauto.
  - rewrite eval_items_IVar in He. rewrite items_F1_var in HF. rewrite compile_items_var in *.
    change (nbinds (IVar x e :: t)) with (1 + nbinds t).
    eapply items_bind_step; eauto.
  - discriminate HF.
  - rewrite eval_items_IExpr in He. rewrite items_F1_expr in HF. rewrite compile_items_expr in *.
    change (nbinds (IExpr e :: t)) with (nbinds t).
    apply andb_true_iff in HF; destruct HF as [Fe Ft].
    set (ca := compile_expr L ce e) in *.
    destruct (eval genv k env st e) as [r1 st1] eqn:Ea.
    pose proof (IHe e _ _ _ _ Ea sc Fe prog ip L ce (mkst ip stk h o) m
                  (code_at_app_l _ _ _ _ Hc) eq_refl HMS Hout Hem) as Ha. fold ca in Ha.
    destruct r1 as [c1|ex| |]; simpl in Ha; [| inv He; simpl; exc_here Ha | inv He; exact I | inv He; exact I].
    destruct Ha as (s1 & m1 & a1 & Hst1 & Hip1 & Hstk1 & Hm1 & HMS1 & Hext1 & Hout1 & Hfr1).
    destruct s1 as [ip1 stk1 h1 o1 fr1]; simpl in Hip1, Hstk1, HMS1, Hout1, Hfr1; subst ip1 stk1 fr1.
    destruct t as [|it2 t2].
    + destruct (eval_items_nil_inv _ _ _ _ _ _ He) as [-> | [-> ->]]; [exact I|].
      exists (mkst (ip + length ca) (a1 :: stk) h1 o1), m1, a1, []. simpl.
      rewrite app_nil_r. repeat (split; auto).
    + set (t := it2 :: t2) in *.
      pose proof (code_at_app_r _ _ _ _ Hc) as Hc2.
      pose proof (code_at_head _ _ _ _ Hc2) as Hsl. pose proof (code_at_tail _ _ _ _ Hc2) as Hct.
      assert (Hpop : star prog (mkst ip stk h o) (mkst (S (ip + length ca)) stk h1 o1)).
      { eapply star_snoc; [exact Hst1|]. apply step_slide_pop. exact Hsl. }
      pose proof (IHi t _ _ _ _ _ He sc Ft prog (S (ip + length ca)) L ce
                    (mkst (S (ip + length ca)) stk h1 o1) m1 Hct eq_refl HMS1 Hout1
                    (env_match_ext _ _ _ _ _ _ _ Hem Hext1)) as Ht.
      destruct r as [c|ex| |]; simpl in Ht |- *; auto.
      * destruct Ht as (s2 & m2 & a2 & locals & Hst2 & Hip2 & Hstk2 & Hlen & Hm2 & HMS2 & Hext2 & Hout2 & Hfr2).
        exists s2, m2, a2, locals. split; [eapply star_trans; eauto|].
        split; [rewrite Hip2, app_length; simpl; lia|].
        split; [exact Hstk2|]. split; [exact Hlen|]. split; [exact Hm2|]. split; [exact HMS2|].
        split; [eapply ext_trans; eauto|]. split; [exact Hout2 | exact Hfr2].
      * destruct Ht as [-> Hr]. split; [reflexivity|]. eapply raises_star; [exact Hpop | reflexivity | stk_ext | eapply raises_weaken; [exact Hr | lia | rewrite app_length; simpl; lia] | ext_tac].
Qed.

(* ---- stage 2: short-circuit operators, loops, print ------------------------------------------- *)

Lemma step_jump_to : forall prog ip stk h o off w t,
  nth_error prog ip = Some (ins BYTECODE_JUMP off w) -> Z.of_nat ip + 1 + off = Z.of_nat t ->
  step prog (mkst ip stk h o) = SNext (mkst t stk h o).
Proof.
  intros. unfold ValueVM3.step. simpl. rewrite H. simpl. unfold jump_target. rewrite H0.
  destruct (Z.of_nat t <? 0) eqn:E; [apply Z.ltb_lt in E; lia|]. rewrite Nat2Z.id. reflexivity.
Qed.

Lemma step_jumpz_to : forall prog ip a stk h o off w t,
  nth_error prog ip = Some (ins BYTECODE_JUMPZ off w) -> nth_error h a = Some 0 ->
  Z.of_nat ip + 1 + off = Z.of_nat t ->
  step prog (mkst ip (a :: stk) h o) = SNext (mkst t stk h o).
Proof.
  intros. unfold ValueVM3.step. simpl. rewrite H. simpl. rewrite H0. simpl. unfold jump_target. rewrite H1.
  destruct (Z.of_nat t <? 0) eqn:E; [apply Z.ltb_lt in E; lia|]. rewrite Nat2Z.id. reflexivity.
Qed.

Lemma MS_heap_app : forall m st h l, MS m st h -> MS m st (h ++ l).
Proof.
  intros m st h l HMS. constructor.
  - apply (ms_len _ _ _ HMS).
  - intros c a Hm. destruct (ms_rel _ _ _ HMS c a Hm) as (v & z & H1 & H2 & H3).
    exists v, z. split; [|split]; auto. rewrite nth_error_app1; auto. apply nth_error_Some. congruence.
  - apply (ms_inj _ _ _ HMS).
  - apply (ms_fun _ _ _ HMS).
Qed.

Lemma MS_print : forall m st h z, MS m st h -> MS m (print_num st z) h.
Proof. intros m st h z HMS. constructor; [apply (ms_len _ _ _ HMS) | apply (ms_rel _ _ _ HMS) | apply (ms_inj _ _ _ HMS) | apply (ms_fun _ _ _ HMS)]. Qed.


(* a run that ends where it started (same stack, extended morphism) can be put in front *)
Lemma concl_star : forall prog s s2 pc n m m2 r st',
  star prog s s2 -> v_stk s2 = v_stk s -> v_fr s2 = v_fr s -> ext m m2 ->
  concl prog s2 pc n m2 r st' -> concl prog s pc n m r st'.
Proof.
  intros prog s s2 pc n m m2 r st' Hst Hstk Hfr Hext Hc. destruct r as [c|ex| |]; simpl in *; auto.
  - destruct Hc as (s' & m' & a & H1 & H2 & H3 & H4 & H5 & H6 & H7 & H8).
    exists s', m', a. split; [eapply star_trans; eauto|]. split; [exact H2|].
    split; [congruence|]. split; [exact H4|]. split; [exact H5|]. split; [eapply ext_trans; eauto|].
    split; [exact H7 | congruence].
  - destruct Hc as [-> Hr]. split; [reflexivity|].
    eapply raises_star; [exact Hst | exact Hfr | exists []; simpl; congruence | exact Hr | exact Hext].
Qed.

(* pushing the constant of a finished loop / short-circuit form *)
Lemma concl_int_const : forall prog s0 ip stk h o z v m0 m st r st' pc n,
  star prog s0 (mkst ip stk h o) -> v_stk s0 = stk -> v_fr s0 = fr ->
  nth_error prog ip = Some (ins BYTECODE_INT z 0) -> val_rel v z ->
  MS m st h -> o = out st -> ext m0 m -> fresh st v = (r, st') ->
  forall tail, star prog (mkst (S ip) (length h :: stk) (h ++ [z]) o)
                         (mkst tail (length h :: stk) (h ++ [z]) o) ->
  tail = (pc + n)%nat ->
  concl prog s0 pc n m0 r st'.
Proof.
  intros prog s0 ip stk h o z v m0 m st r st' pc n Hst Hstk Hfr0 Hn Hv HMS Ho Hext Hf tail Htail Ht.
  destruct (fresh_inv _ _ _ _ Hf) as (c & ->). simpl.
  destruct (MS_fresh _ _ _ _ _ _ _ HMS Hv Hf) as (HMS' & Hm' & Hout').
  apply (post_ok_intro _ _ _ _ _ _ (mkst tail (length h :: stk) (h ++ [z]) o)
           (m ++ [MA (length h)]) (length h)); simpl; auto.
  - eapply star_trans; [exact Hst|]. eapply star_step; [apply (step_int _ _ _ _ _ z 0); exact Hn|]. exact Htail.
  - congruence.
  - eapply ext_trans; [exact Hext | apply ext_snoc].
  - congruence.
Qed.

Lemma and_code_length : forall ca cb, length (and_code ca cb) = (length ca + length cb + 7)%nat.
Proof. intros. unfold and_code. rewrite !app_length. simpl. rewrite app_length. simpl. lia. Qed.
Lemma or_code_length : forall ca cb, length (or_code ca cb) = (length ca + length cb + 10)%nat.
Proof. intros. unfold or_code. rewrite !app_length. simpl. rewrite app_length. simpl. lia. Qed.
Lemma while_code_length : forall cc cb, length (while_code cc cb) = (length cc + length cb + 6)%nat.
Proof. intros. unfold while_code. simpl. rewrite !app_length. simpl. rewrite app_length. simpl. lia. Qed.
Lemma dowhile_code_length : forall cb cc, length (dowhile_code cb cc) = (length cb + length cc + 6)%nat.
Proof. intros. unfold dowhile_code. simpl. rewrite !app_length. simpl. rewrite app_length. simpl. lia. Qed.
Lemma print_code_length : forall ca, length (print_code ca) = (length ca + 6)%nat.
Proof. intros. unfold print_code. simpl. rewrite app_length. simpl. lia. Qed.

Lemma case_EAnd : forall k a b, expr_spec k -> expr_case_at (S k) (EBin And a b).
Proof.
  intros k a b IH env st r st' He sc HF prog L ce ip stk h o m Hc HMS Hout Hem.
  simpl in HF.
  apply andb_true_iff in HF; destruct HF as [HF Fb].
  apply andb_true_iff in HF; destruct HF as [_ Fa].
  rewrite eval_EAnd in He.
  change (compile_expr L ce (EBin And a b)) with (and_code (compile_expr L ce a) (compile_expr L ce b)) in *.
  set (ca := compile_expr L ce a) in *. set (cb := compile_expr L ce b) in *.
  rewrite and_code_length. unfold and_code in Hc.
  pose proof (code_at_app_l _ _ _ _ Hc) as Hca.
  pose proof (code_at_app_r _ _ _ _ Hc) as H1.
  pose proof (code_at_head _ _ _ _ H1) as HJA.
  pose proof (code_at_tail _ _ _ _ H1) as H2.
  pose proof (code_at_app_l _ _ _ _ H2) as Hcb.
  pose proof (code_at_app_r _ _ _ _ H2) as H3.
  pose proof (code_at_head _ _ _ _ H3) as HJB.
  pose proof (code_at_tail _ _ _ _ H3) as H4.
  pose proof (code_at_head _ _ _ _ H4) as HI1.
  pose proof (code_at_tail _ _ _ _ H4) as H5.
  pose proof (code_at_head _ _ _ _ H5) as HJE.
  pose proof (code_at_tail _ _ _ _ (code_at_tail _ _ _ _ H5)) as H6.
  pose proof (code_at_head _ _ _ _ H6) as HI0.
  pose proof (code_at_head _ _ _ _ (code_at_tail _ _ _ _ H6)) as HLE.
  destruct (eval genv k env st a) as [r1 st1] eqn:Ea.
  pose proof (IH a _ _ _ _ Ea sc Fa prog ip L ce (mkst ip stk h o) m Hca eq_refl HMS Hout Hem) as Ha.
  fold ca in Ha.
  destruct r1 as [c1|ex| |]; simpl in Ha; [| inv He; simpl | inv He; exact I | inv He; exact I].
  2:{ destruct Ha as [-> Hr]. split; [reflexivity|]. eapply raises_weaken; [exact Hr | lia | lia]. }
  destruct Ha as (s1 & m1 & a1 & Hst1 & Hip1 & Hstk1 & Hm1 & HMS1 & Hext1 & Hout1 & Hfr1).
  destruct s1 as [ip1 stk1 h1 o1 fr1]; simpl in Hip1, Hstk1, HMS1, Hout1, Hfr1; subst ip1 stk1 fr1.
  destruct (get_bool st1 c1) as [bv|] eqn:Eg; [|inv He; exact I].
  pose proof (MS_payload_bool _ _ _ _ _ _ HMS1 Hm1 Eg) as Hp.
  (* the false exit: INT 0; LABEL *)
  assert (Hfalse : forall hx ox, star prog (mkst (S (S (ip + length ca + length cb + 4))) (length hx :: stk) (hx ++ [0]) ox)
                                      (mkst (ip + (length ca + length cb + 7)) (length hx :: stk) (hx ++ [0]) ox)).
  { intros. replace (ip + (length ca + length cb + 7))%nat with (S (S (S (ip + length ca + length cb + 4)))) by lia.
    apply star_one, step_label.
    replace (S (S (ip + length ca + length cb + 4))) with (S (S (S (S (S (S (ip + length ca) + length cb)))))) by lia.
    exact HLE. }
  destruct bv.
  - assert (Hj : star prog (mkst ip stk h o) (mkst (S (ip + length ca)) stk h1 o1)).
    { eapply star_snoc; [exact Hst1|]. eapply step_jumpz_nonzero; eauto. simpl. lia. }
    destruct (eval genv k env st1 b) as [r2 st2] eqn:Eb.
    pose proof (IH b _ _ _ _ Eb sc Fb prog (S (ip + length ca)) L ce (mkst (S (ip + length ca)) stk h1 o1) m1
                  Hcb eq_refl HMS1 Hout1 (env_match_ext _ _ _ _ _ _ _ Hem Hext1)) as Hb.
    fold cb in Hb.
    destruct r2 as [c2|ex| |]; simpl in Hb; [| inv He; simpl | inv He; exact I | inv He; exact I].
    2:{ destruct Hb as [-> Hr]. split; [reflexivity|]. eapply raises_star; [exact Hj | reflexivity | stk_ext | eapply raises_weaken; [exact Hr | lia | lia] | ext_tac]. }
    destruct Hb as (s2 & m2 & a2 & Hst2 & Hip2 & Hstk2 & Hm2 & HMS2 & Hext2 & Hout2 & Hfr2).
    destruct s2 as [ip2 stk2 h2 o2 fr2]; simpl in Hip2, Hstk2, HMS2, Hout2, Hfr2; subst ip2 stk2 fr2.
    destruct (get_bool st2 c2) as [bv2|] eqn:Eg2; [|inv He; exact I].
    pose proof (MS_payload_bool _ _ _ _ _ _ HMS2 Hm2 Eg2) as Hp2.
    assert (Hext : ext m m2) by (eapply ext_trans; eauto).
    destruct bv2.
    + (* both true: INT 1; JUMP E *)
      eapply (concl_int_const _ _ (S (S (ip + length ca) + length cb)) stk h2 o2 1 (CBool true)); eauto.
      * eapply star_trans; [exact Hj|]. eapply star_snoc; [exact Hst2|].
        eapply step_jumpz_nonzero; eauto. simpl. lia.
      * reflexivity.
      * apply star_one. eapply step_jump_to; [exact HJE | lia].
    + eapply (concl_int_const _ _ (S (ip + length ca + length cb + 4)) stk h2 o2 0 (CBool false)); eauto.
      * eapply star_trans; [exact Hj|]. eapply star_snoc; [exact Hst2|].
        eapply step_jumpz_to; [exact HJB | exact Hp2 | lia].
      * replace (S (ip + length ca + length cb + 4)) with (S (S (S (S (S (ip + length ca) + length cb))))) by lia.
        exact HI0.
      * reflexivity.
  - eapply (concl_int_const _ _ (S (ip + length ca + length cb + 4)) stk h1 o1 0 (CBool false)); eauto.
    + eapply star_snoc; [exact Hst1|]. eapply step_jumpz_to; [exact HJA | exact Hp | unfold len; lia].
    + replace (S (ip + length ca + length cb + 4)) with (S (S (S (S (S (ip + length ca) + length cb))))) by lia.
      exact HI0.
    + reflexivity.
Qed.

Lemma case_EOr : forall k a b, expr_spec k -> expr_case_at (S k) (EBin Or a b).
Proof.
  intros k a b IH env st r st' He sc HF prog L ce ip stk h o m Hc HMS Hout Hem.
  simpl in HF.
  apply andb_true_iff in HF; destruct HF as [HF Fb].
  apply andb_true_iff in HF; destruct HF as [_ Fa].
  rewrite eval_EOr in He.
  change (compile_expr L ce (EBin Or a b)) with (or_code (compile_expr L ce a) (compile_expr L ce b)) in *.
  set (ca := compile_expr L ce a) in *. set (cb := compile_expr L ce b) in *.
  rewrite or_code_length. unfold or_code in Hc.
  pose proof (code_at_app_l _ _ _ _ Hc) as Hca.
  pose proof (code_at_app_r _ _ _ _ Hc) as H1.
  pose proof (code_at_head _ _ _ _ H1) as HJA.
  pose proof (code_at_tail _ _ _ _ H1) as H1a.
  pose proof (code_at_head _ _ _ _ H1a) as HJET.
  pose proof (code_at_tail _ _ _ _ (code_at_tail _ _ _ _ H1a)) as H2.
  pose proof (code_at_app_l _ _ _ _ H2) as Hcb.
  pose proof (code_at_app_r _ _ _ _ H2) as H3.
  set (p1 := (ip + length ca)%nat) in *. set (p2 := (S (S (S p1)) + length cb)%nat) in *.
  pose proof (code_at_head _ _ _ _ H3) as HJB.
  pose proof (code_at_tail _ _ _ _ H3) as H4.
  pose proof (code_at_head _ _ _ _ H4) as HLET.
  pose proof (code_at_tail _ _ _ _ H4) as H5.
  pose proof (code_at_head _ _ _ _ H5) as HI1.
  pose proof (code_at_tail _ _ _ _ H5) as H6.
  pose proof (code_at_head _ _ _ _ H6) as HJE.
  pose proof (code_at_tail _ _ _ _ (code_at_tail _ _ _ _ H6)) as H8.
  pose proof (code_at_head _ _ _ _ H8) as HI0.
  pose proof (code_at_head _ _ _ _ (code_at_tail _ _ _ _ H8)) as HLE.
  assert (Hend : (S (S (S (S (S (S (S p2)))))) = ip + (length ca + length cb + 10))%nat) by (subst p1 p2; lia).
  assert (Htrue : forall hx ox, star prog (mkst (S (S (S p2))) (length hx :: stk) (hx ++ [1]) ox)
                                     (mkst (S (S (S (S (S (S (S p2))))))) (length hx :: stk) (hx ++ [1]) ox)).
  { intros. apply star_one. eapply step_jump_to; [exact HJE | lia]. }
  assert (Hfalse : forall hx ox, star prog (mkst (S (S (S (S (S (S p2)))))) (length hx :: stk) (hx ++ [0]) ox)
                                      (mkst (S (S (S (S (S (S (S p2))))))) (length hx :: stk) (hx ++ [0]) ox)).
  { intros. apply star_one, step_label. exact HLE. }
  destruct (eval genv k env st a) as [r1 st1] eqn:Ea.
  pose proof (IH a _ _ _ _ Ea sc Fa prog ip L ce (mkst ip stk h o) m Hca eq_refl HMS Hout Hem) as Ha.
  fold ca in Ha. fold p1 in Ha.
  destruct r1 as [c1|ex| |]; simpl in Ha; [| inv He; simpl | inv He; exact I | inv He; exact I].
  2:{ destruct Ha as [-> Hr]. split; [reflexivity|]. eapply raises_weaken; [exact Hr | lia | subst p1; lia]. }
  destruct Ha as (s1 & m1 & a1 & Hst1 & Hip1 & Hstk1 & Hm1 & HMS1 & Hext1 & Hout1 & Hfr1).
  destruct s1 as [ip1 stk1 h1 o1 fr1]; simpl in Hip1, Hstk1, HMS1, Hout1, Hfr1; subst ip1 stk1 fr1.
  destruct (get_bool st1 c1) as [bv|] eqn:Eg; [|inv He; exact I].
  pose proof (MS_payload_bool _ _ _ _ _ _ HMS1 Hm1 Eg) as Hp.
  destruct bv.
  - (* a true: JUMPZ falls through, JUMP T, INT 1, JUMP E *)
    eapply (concl_int_const _ _ (S (S p2)) stk h1 o1 1 (CBool true)); eauto.
    + eapply star_snoc; [eapply star_snoc; [exact Hst1|]|].
      * eapply step_jumpz_nonzero; eauto. simpl. lia.
      * eapply step_jump_to; [exact HJET | subst p2; unfold len; lia].
    + reflexivity.
  - assert (Hj : star prog (mkst ip stk h o) (mkst (S (S (S p1))) stk h1 o1)).
    { eapply star_snoc; [exact Hst1|]. eapply step_jumpz_to; [exact HJA | exact Hp | lia]. }
    destruct (eval genv k env st1 b) as [r2 st2] eqn:Eb.
    pose proof (IH b _ _ _ _ Eb sc Fb prog (S (S (S p1))) L ce (mkst (S (S (S p1))) stk h1 o1) m1
                  Hcb eq_refl HMS1 Hout1 (env_match_ext _ _ _ _ _ _ _ Hem Hext1)) as Hb.
    fold cb in Hb. fold p2 in Hb.
    destruct r2 as [c2|ex| |]; simpl in Hb; [| inv He; simpl | inv He; exact I | inv He; exact I].
    2:{ destruct Hb as [-> Hr]. split; [reflexivity|]. eapply raises_star; [exact Hj | reflexivity | stk_ext | eapply raises_weaken; [exact Hr | subst p1; lia | lia] | ext_tac]. }
    destruct Hb as (s2 & m2 & a2 & Hst2 & Hip2 & Hstk2 & Hm2 & HMS2 & Hext2 & Hout2 & Hfr2).
    destruct s2 as [ip2 stk2 h2 o2 fr2]; simpl in Hip2, Hstk2, HMS2, Hout2, Hfr2; subst ip2 stk2 fr2.
    destruct (get_bool st2 c2) as [bv2|] eqn:Eg2; [|inv He; exact I].
    pose proof (MS_payload_bool _ _ _ _ _ _ HMS2 Hm2 Eg2) as Hp2.
    assert (Hext : ext m m2) by (eapply ext_trans; eauto).
    destruct bv2.
    + eapply (concl_int_const _ _ (S (S p2)) stk h2 o2 1 (CBool true)); eauto.
      * eapply star_trans; [exact Hj|]. eapply star_snoc; [eapply star_snoc; [exact Hst2|]|].
        -- eapply step_jumpz_nonzero; eauto. simpl. lia.
        -- apply step_label. exact HLET.
      * reflexivity.
    + eapply (concl_int_const _ _ (S (S (S (S (S p2))))) stk h2 o2 0 (CBool false)); eauto.
      * eapply star_trans; [exact Hj|]. eapply star_snoc; [exact Hst2|].
        eapply step_jumpz_to; [exact HJB | exact Hp2 | lia].
      * reflexivity.
Qed.

(* ---- loops: the statement for a run that starts after the loop's first LABEL -------------------- *)

Definition while_spec (k : nat) : Prop :=
  forall c b env st r st', eval genv k env st (EWhile c b) = (r, st') ->
  forall sc, in_F lv sc c = true -> in_F lv sc b = true ->
  forall prog pc L ce s m,
    code_at prog pc (while_code (compile_expr L ce c) (compile_expr L ce b)) -> v_ip s = S pc ->
    MS m st (v_heap s) -> v_out s = out st -> env_match m env ce sc L (v_stk s) ->
    concl prog s pc (length (while_code (compile_expr L ce c) (compile_expr L ce b))) m r st'.

Definition dowhile_spec (k : nat) : Prop :=
  forall b c env st r st', eval genv k env st (EDoWhile b c) = (r, st') ->
  forall sc, in_F lv sc b = true -> in_F lv sc c = true ->
  forall prog pc L ce s m,
    code_at prog pc (dowhile_code (compile_expr L ce b) (compile_expr L ce c)) -> v_ip s = S pc ->
    MS m st (v_heap s) -> v_out s = out st -> env_match m env ce sc L (v_stk s) ->
    concl prog s pc (length (dowhile_code (compile_expr L ce b) (compile_expr L ce c))) m r st'.

Definition while_spec_at (k : nat) : Prop :=
  forall c b env st r st', eval genv k env st (EWhile c b) = (r, st') ->
  forall sc, in_F lv sc c = true -> in_F lv sc b = true ->
  forall prog pc L ce stk h o m,
    code_at prog pc (while_code (compile_expr L ce c) (compile_expr L ce b)) ->
    MS m st h -> o = out st -> env_match m env ce sc L stk ->
    concl prog (mkst (S pc) stk h o) pc (length (while_code (compile_expr L ce c) (compile_expr L ce b))) m r st'.

Definition dowhile_spec_at (k : nat) : Prop :=
  forall b c env st r st', eval genv k env st (EDoWhile b c) = (r, st') ->
  forall sc, in_F lv sc b = true -> in_F lv sc c = true ->
  forall prog pc L ce stk h o m,
    code_at prog pc (dowhile_code (compile_expr L ce b) (compile_expr L ce c)) ->
    MS m st h -> o = out st -> env_match m env ce sc L stk ->
    concl prog (mkst (S pc) stk h o) pc (length (dowhile_code (compile_expr L ce b) (compile_expr L ce c))) m r st'.

Lemma while_step : forall k, expr_spec k -> while_spec k -> while_spec_at (S k).
Proof.
  intros k IH IHw c b env st r st' He sc Fc Fb prog pc L ce stk h o m Hc HMS Hout Hem.
  rewrite eval_EWhile in He.
  set (cc := compile_expr L ce c) in *. set (cb := compile_expr L ce b) in *.
  rewrite while_code_length. pose proof Hc as Hc0. unfold while_code in Hc.
  pose proof (code_at_tail _ _ _ _ Hc) as H0.
  pose proof (code_at_app_l _ _ _ _ H0) as Hcc.
  pose proof (code_at_app_r _ _ _ _ H0) as H1.
  pose proof (code_at_head _ _ _ _ H1) as HJZ.
  pose proof (code_at_tail _ _ _ _ H1) as H2.
  pose proof (code_at_app_l _ _ _ _ H2) as Hcb.
  pose proof (code_at_app_r _ _ _ _ H2) as H3.
  set (q := (S (S pc + length cc) + length cb)%nat) in *.
  pose proof (code_at_head _ _ _ _ H3) as HSL.
  pose proof (code_at_head _ _ _ _ (code_at_tail _ _ _ _ H3)) as HJ.
  pose proof (code_at_head _ _ _ _ (code_at_tail _ _ _ _ (code_at_tail _ _ _ _ (code_at_tail _ _ _ _ H3)))) as HI0.
  assert (Hend : (S (S (S (S q))) = pc + (length cc + length cb + 6))%nat) by (subst q; lia).
  destruct (eval genv k env st c) as [r1 st1] eqn:Ec.
  pose proof (IH c _ _ _ _ Ec sc Fc prog (S pc) L ce (mkst (S pc) stk h o) m Hcc eq_refl HMS Hout Hem) as Hcnd.
  fold cc in Hcnd.
  destruct r1 as [c1|ex| |]; simpl in Hcnd; [| inv He; simpl | inv He; exact I | inv He; exact I].
  2:{ destruct Hcnd as [-> Hr]. split; [reflexivity|]. eapply raises_weaken; [exact Hr | lia | lia]. }
  destruct Hcnd as (s1 & m1 & a1 & Hst1 & Hip1 & Hstk1 & Hm1 & HMS1 & Hext1 & Hout1 & Hfr1).
  destruct s1 as [ip1 stk1 h1 o1 fr1]; simpl in Hip1, Hstk1, HMS1, Hout1, Hfr1; subst ip1 stk1 fr1.
  destruct (get_bool st1 c1) as [bv|] eqn:Eg; [|inv He; exact I].
  pose proof (MS_payload_bool _ _ _ _ _ _ HMS1 Hm1 Eg) as Hp.
  pose proof (env_match_ext _ _ _ _ _ _ _ Hem Hext1) as Hem1.
  destruct bv.
  - assert (Hj : star prog (mkst (S pc) stk h o) (mkst (S (S pc + length cc)) stk h1 o1)).
    { eapply star_snoc; [exact Hst1|]. eapply step_jumpz_nonzero; eauto. simpl. lia. }
    destruct (eval genv k env st1 b) as [r2 st2] eqn:Eb.
    pose proof (IH b _ _ _ _ Eb sc Fb prog (S (S pc + length cc)) L ce (mkst (S (S pc + length cc)) stk h1 o1) m1
                  Hcb eq_refl HMS1 Hout1 Hem1) as Hb.
    fold cb in Hb. fold q in Hb.
    destruct r2 as [c2|ex| |]; simpl in Hb; [| inv He; simpl | inv He; exact I | inv He; exact I].
    2:{ destruct Hb as [-> Hr]. split; [reflexivity|]. eapply raises_star; [exact Hj | reflexivity | stk_ext | eapply raises_weaken; [exact Hr | lia | lia] | ext_tac]. }
    destruct Hb as (s2 & m2 & a2 & Hst2 & Hip2 & Hstk2 & Hm2 & HMS2 & Hext2 & Hout2 & Hfr2).
    destruct s2 as [ip2 stk2 h2 o2 fr2]; simpl in Hip2, Hstk2, HMS2, Hout2, Hfr2; subst ip2 stk2 fr2.
    assert (Hback : star prog (mkst (S pc) stk h o) (mkst (S pc) stk h2 o2)).
    { eapply star_trans; [exact Hj|]. eapply star_snoc; [eapply star_snoc; [exact Hst2|]|].
      - apply step_slide_pop. exact HSL.
      - eapply step_jump_to; [exact HJ | subst q; unfold len; lia]. }
    pose proof (IHw c b _ _ _ _ He sc Fc Fb prog pc L ce (mkst (S pc) stk h2 o2) m2 Hc0 eq_refl HMS2 Hout2
                  (env_match_ext _ _ _ _ _ _ _ Hem1 Hext2)) as Hloop.
    fold cc cb in Hloop. rewrite while_code_length in Hloop.
    eapply concl_star; [exact Hback | reflexivity | reflexivity | eapply ext_trans; eauto | exact Hloop].
  - eapply (concl_int_const _ _ (S (S (S q))) stk h1 o1 0 (CInt 0)); eauto.
    + eapply star_snoc; [exact Hst1|]. eapply step_jumpz_to; [exact HJZ | exact Hp | subst q; unfold len; lia].
    + reflexivity.
    + apply star_refl.
Qed.

Lemma case_EWhile : forall k c b, while_spec (S k) -> expr_case_at (S k) (EWhile c b).
Proof.
  intros k c b IHw env st r st' He sc HF prog L ce ip stk h o m Hc HMS Hout Hem.
  simpl in HF.
  apply andb_true_iff in HF; destruct HF as [HF Fb].
  apply andb_true_iff in HF; destruct HF as [_ Fc].
  change (compile_expr L ce (EWhile c b)) with (while_code (compile_expr L ce c) (compile_expr L ce b)) in *.
  pose proof (IHw c b _ _ _ _ He sc Fc Fb prog ip L ce (mkst (S ip) stk h o) m Hc eq_refl HMS Hout Hem) as Hx.
  eapply (concl_star _ _ (mkst (S ip) stk h o)); [| reflexivity | reflexivity | apply ext_refl | exact Hx].
  apply star_one, step_label. unfold while_code in Hc. eapply code_at_head; exact Hc.
Qed.

Lemma dowhile_step : forall k, expr_spec k -> dowhile_spec k -> dowhile_spec_at (S k).
Proof.
  intros k IH IHw b c env st r st' He sc Fb Fc prog pc L ce stk h o m Hc HMS Hout Hem.
  rewrite eval_EDoWhile in He.
  set (cb := compile_expr L ce b) in *. set (cc := compile_expr L ce c) in *.
  rewrite dowhile_code_length. pose proof Hc as Hc0. unfold dowhile_code in Hc.
  pose proof (code_at_tail _ _ _ _ Hc) as H0.
  pose proof (code_at_app_l _ _ _ _ H0) as Hcb.
  pose proof (code_at_app_r _ _ _ _ H0) as H1.
  pose proof (code_at_head _ _ _ _ H1) as HSL.
  pose proof (code_at_tail _ _ _ _ H1) as H2.
  pose proof (code_at_app_l _ _ _ _ H2) as Hcc.
  pose proof (code_at_app_r _ _ _ _ H2) as H3.
  set (q := (S (S pc + length cb) + length cc)%nat) in *.
  pose proof (code_at_head _ _ _ _ H3) as HJZ.
  pose proof (code_at_head _ _ _ _ (code_at_tail _ _ _ _ H3)) as HJ.
  pose proof (code_at_head _ _ _ _ (code_at_tail _ _ _ _ (code_at_tail _ _ _ _ (code_at_tail _ _ _ _ H3)))) as HI0.
  assert (Hend : (S (S (S (S q))) = pc + (length cb + length cc + 6))%nat) by (subst q; lia).
  destruct (eval genv k env st b) as [r1 st1] eqn:Eb.
  pose proof (IH b _ _ _ _ Eb sc Fb prog (S pc) L ce (mkst (S pc) stk h o) m Hcb eq_refl HMS Hout Hem) as Hbd.
  fold cb in Hbd.
  destruct r1 as [c1|ex| |]; simpl in Hbd; [| inv He; simpl | inv He; exact I | inv He; exact I].
  2:{ destruct Hbd as [-> Hr]. split; [reflexivity|]. eapply raises_weaken; [exact Hr | lia | lia]. }
  destruct Hbd as (s1 & m1 & a1 & Hst1 & Hip1 & Hstk1 & Hm1 & HMS1 & Hext1 & Hout1 & Hfr1).
  destruct s1 as [ip1 stk1 h1 o1 fr1]; simpl in Hip1, Hstk1, HMS1, Hout1, Hfr1; subst ip1 stk1 fr1.
  pose proof (env_match_ext _ _ _ _ _ _ _ Hem Hext1) as Hem1.
  assert (Hj : star prog (mkst (S pc) stk h o) (mkst (S (S pc + length cb)) stk h1 o1)).
  { eapply star_snoc; [exact Hst1|]. apply step_slide_pop. exact HSL. }
  destruct (eval genv k env st1 c) as [r2 st2] eqn:Ec.
  pose proof (IH c _ _ _ _ Ec sc Fc prog (S (S pc + length cb)) L ce (mkst (S (S pc + length cb)) stk h1 o1) m1
                Hcc eq_refl HMS1 Hout1 Hem1) as Hcnd.
  fold cc in Hcnd. fold q in Hcnd.
  destruct r2 as [c2|ex| |]; simpl in Hcnd; [| inv He; simpl | inv He; exact I | inv He; exact I].
  2:{ destruct Hcnd as [-> Hr]. split; [reflexivity|]. eapply raises_star; [exact Hj | reflexivity | stk_ext | eapply raises_weaken; [exact Hr | lia | lia] | ext_tac]. }
  destruct Hcnd as (s2 & m2 & a2 & Hst2 & Hip2 & Hstk2 & Hm2 & HMS2 & Hext2 & Hout2 & Hfr2).
  destruct s2 as [ip2 stk2 h2 o2 fr2]; simpl in Hip2, Hstk2, HMS2, Hout2, Hfr2; subst ip2 stk2 fr2.
  destruct (get_bool st2 c2) as [bv|] eqn:Eg; [|inv He; exact I].
  pose proof (MS_payload_bool _ _ _ _ _ _ HMS2 Hm2 Eg) as Hp.
  assert (Hext : ext m m2) by (eapply ext_trans; eauto).
  destruct bv.
  - assert (Hback : star prog (mkst (S pc) stk h o) (mkst (S pc) stk h2 o2)).
    { eapply star_trans; [exact Hj|]. eapply star_snoc; [eapply star_snoc; [exact Hst2|]|].
      - eapply step_jumpz_nonzero; eauto. simpl. lia.
      - eapply step_jump_to; [exact HJ | subst q; unfold len; lia]. }
    pose proof (IHw b c _ _ _ _ He sc Fb Fc prog pc L ce (mkst (S pc) stk h2 o2) m2 Hc0 eq_refl HMS2 Hout2
                  (env_match_ext _ _ _ _ _ _ _ Hem1 Hext2)) as Hloop.
    fold cb cc in Hloop. rewrite dowhile_code_length in Hloop.
    eapply concl_star; [exact Hback | reflexivity | reflexivity | exact Hext | exact Hloop].
  - eapply (concl_int_const _ _ (S (S (S q))) stk h2 o2 0 (CInt 0)); eauto.
    + eapply star_trans; [exact Hj|]. eapply star_snoc; [exact Hst2|].
      eapply step_jumpz_to; [exact HJZ | exact Hp | lia].
    + reflexivity.
    + apply star_refl.
Qed.

Lemma case_EDoWhile : forall k b c, dowhile_spec (S k) -> expr_case_at (S k) (EDoWhile b c).
Proof.
  intros k b c IHw env st r st' He sc HF prog L ce ip stk h o m Hc HMS Hout Hem.
  simpl in HF.
  apply andb_true_iff in HF; destruct HF as [HF Fc].
  apply andb_true_iff in HF; destruct HF as [_ Fb].
  change (compile_expr L ce (EDoWhile b c)) with (dowhile_code (compile_expr L ce b) (compile_expr L ce c)) in *.
  pose proof (IHw b c _ _ _ _ He sc Fb Fc prog ip L ce (mkst (S ip) stk h o) m Hc eq_refl HMS Hout Hem) as Hx.
  eapply (concl_star _ _ (mkst (S ip) stk h o)); [| reflexivity | reflexivity | apply ext_refl | exact Hx].
  apply star_one, step_label. unfold dowhile_code in Hc. eapply code_at_head; exact Hc.
Qed.

Lemma case_EFor : forall k i c st0 b, expr_spec k -> expr_case_at (S k) (EFor i c st0 b).
Proof.
  intros k i c st0 b IH env st r st' He sc HF prog L ce ip stk h o m Hc HMS Hout Hem.
  simpl in HF.
  apply andb_true_iff in HF; destruct HF as [HF Fb].
  apply andb_true_iff in HF; destruct HF as [HF Fs].
  apply andb_true_iff in HF; destruct HF as [HF Fc].
  apply andb_true_iff in HF; destruct HF as [Hlv Fi].
  assert (Fw : in_F lv sc (EWhile c (EBlock [IExpr b; IExpr st0])) = true).
  { simpl. rewrite Hlv, Fc, Fb, Fs. reflexivity. }
  rewrite eval_EFor in He. rewrite compile_for in *.
  set (ci := compile_expr L ce i) in *.
  set (cw := compile_expr L ce (EWhile c (EBlock [IExpr b; IExpr st0]))) in *.
  destruct (eval genv k env st i) as [r1 st1] eqn:Ei.
  pose proof (IH i _ _ _ _ Ei sc Fi prog ip L ce (mkst ip stk h o) m (code_at_app_l _ _ _ _ Hc) eq_refl HMS Hout Hem) as Hi.
  fold ci in Hi.
  destruct r1 as [c1|ex| |]; simpl in Hi; [| inv He; simpl | inv He; exact I | inv He; exact I].
  2:{ destruct Hi as [-> Hr]. split; [reflexivity|]. eapply raises_weaken; [exact Hr | lia | rewrite app_length; lia]. }
  destruct Hi as (s1 & m1 & a1 & Hst1 & Hip1 & Hstk1 & Hm1 & HMS1 & Hext1 & Hout1 & Hfr1).
  destruct s1 as [ip1 stk1 h1 o1 fr1]; simpl in Hip1, Hstk1, HMS1, Hout1, Hfr1; subst ip1 stk1 fr1.
  pose proof (code_at_app_r _ _ _ _ Hc) as H1.
  assert (Hpop : star prog (mkst ip stk h o) (mkst (S (ip + length ci)) stk h1 o1)).
  { eapply star_snoc; [exact Hst1|]. apply step_slide_pop. eapply code_at_head; exact H1. }
  pose proof (IH _ _ _ _ _ He sc Fw prog (S (ip + length ci)) L ce (mkst (S (ip + length ci)) stk h1 o1) m1
                (code_at_tail _ _ _ _ H1) eq_refl HMS1 Hout1 (env_match_ext _ _ _ _ _ _ _ Hem Hext1)) as Hw.
  fold cw in Hw.
  replace (length (ci ++ ins BYTECODE_SLIDE 1 0 :: cw)) with (S (length ci) + length cw)%nat
    by (rewrite app_length; simpl; lia).
  destruct r as [c2|ex| |]; simpl in Hw |- *; auto.
  - destruct Hw as (s2 & m2 & a2 & Hst2 & Hip2 & Hstk2 & Hm2 & HMS2 & Hext2 & Hout2 & Hfr2).
    exists s2, m2, a2. split; [eapply star_trans; eauto|]. split; [rewrite Hip2; lia|].
    split; [exact Hstk2|]. split; [exact Hm2|]. split; [exact HMS2|].
    split; [eapply ext_trans; eauto|]. split; [exact Hout2 | exact Hfr2].
  - destruct Hw as [-> Hr]. split; [reflexivity|]. eapply raises_star; [exact Hpop | reflexivity | stk_ext | eapply raises_weaken; [exact Hr | lia | lia] | ext_tac].
Qed.

End Frame.

(* ---- stage 3: frames ---------------------------------------------------------------------------- *)

Local Notation mk := ValueVM3.mkst.

Lemma fregs_eta : forall fr, {| r_fp := r_fp fr; r_exc := r_exc fr; r_frames := r_frames fr |} = fr.
Proof. destruct fr; reflexivity. Qed.

Lemma step_mark : forall fr prog ip stk h o rel w t,
  nth_error prog ip = Some (ins BYTECODE_MARK rel w) -> Z.of_nat ip + rel = Z.of_nat t ->
  step prog (mk ip stk h o fr) =
  SNext (mk (S ip) (t :: r_fp fr :: 0 :: 0 :: 0 :: stk)%nat h o (set_fp fr (length stk + 5))).
Proof.
  intros. unfold ValueVM3.step. simpl. rewrite H. simpl. rewrite H0, zn_nonneg by lia.
  rewrite Nat2Z.id. reflexivity.
Qed.

Lemma step_global_vec0 : forall fr prog ip stk h o,
  nth_error prog ip = Some (ins BYTECODE_GLOBAL_VEC 0 0) ->
  step prog (mk ip stk h o fr) = SNext (mk (S ip) (length h :: stk) (h ++ [0]) o fr).
Proof. intros. unfold ValueVM3.step. simpl. rewrite H. reflexivity. Qed.

Lemma step_id_func_addr : forall fr prog ip v stk h o k w,
  nth_error prog ip = Some (ins BYTECODE_ID_FUNC_ADDR (Z.of_nat k) w) ->
  step prog (mk ip (v :: stk) h o fr) =
  SNext (mk (S ip) (length h :: stk) (h ++ [Z.of_nat (faddr k)]) o fr).
Proof.
  intros. unfold ValueVM3.step. simpl. rewrite H. simpl. rewrite zn_nonneg by lia.
  rewrite Nat2Z.id. reflexivity.
Qed.

Lemma step_call_frame : forall fr prog ip f args ret fpo x1 x2 x3 below h o target,
  nth_error prog ip = Some (ins0 BYTECODE_CALL) -> nth_error h f = Some (Z.of_nat target) ->
  r_fp fr = (length below + 5)%nat ->
  step prog (mk ip (f :: args ++ ret :: fpo :: x1 :: x2 :: x3 :: below) h o fr) =
  SNext (mk target args h o
            {| r_fp := 0; r_exc := r_exc fr;
               r_frames := {| f_ret := ret; f_fp := fpo; f_below := below; f_exc := r_exc fr |} :: r_frames fr |}).
Proof.
  intros fr prog ip f args ret fpo x1 x2 x3 below h o target H H0 Hfp.
  unfold ValueVM3.step. simpl. rewrite H. simpl. rewrite H0, zn_nonneg by lia. rewrite Nat2Z.id, Hfp.
  replace (Nat.eqb (length below + 5) 0) with false by (symmetry; apply Nat.eqb_neq; lia).
  rewrite app_length. simpl length.
  replace (Nat.leb (length below + 5) (length args + S (S (S (S (S (length below))))))) with true
    by (symmetry; apply Nat.leb_le; lia).
  replace (length args + S (S (S (S (S (length below))))) - (length below + 5))%nat with (length args) by lia.
  rewrite skipn_app, skipn_all, Nat.sub_diag, firstn_app, firstn_all, Nat.sub_diag. simpl.
  rewrite app_nil_r. reflexivity.
Qed.

Lemma step_ret_frame : forall prog ip res rest h o e F fs,
  nth_error prog ip = Some (ins0 BYTECODE_RET) ->
  step prog (mk ip (res :: rest) h o {| r_fp := 0; r_exc := e; r_frames := F :: fs |}) =
  SNext (mk (f_ret F) (res :: f_below F) h o {| r_fp := f_fp F; r_exc := f_exc F; r_frames := fs |}).
Proof. intros. unfold ValueVM3.step. simpl. rewrite H. reflexivity. Qed.

Lemma step_rethrow_frame : forall prog ip res rest h o e F fs,
  nth_error prog ip = Some (ins0 BYTECODE_RETHROW) ->
  step prog (mk ip (res :: rest) h o {| r_fp := 0; r_exc := e; r_frames := F :: fs |}) =
  SNext (mk (hsearch (x_tab X) (Nat.pred (f_ret F)) 0) (res :: f_below F) h o
            {| r_fp := f_fp F; r_exc := e; r_frames := fs |}).
Proof. intros. unfold ValueVM3.step. simpl. rewrite H. reflexivity. Qed.

Lemma do_ret_pending : forall fr t top ret fpo x1 x2 x3 below,
  r_fp fr = (length below + 5)%nat ->
  do_ret (t :: top ++ ret :: fpo :: x1 :: x2 :: x3 :: below) fr = Some (ret, t :: below, set_fp fr fpo).
Proof.
  intros fr t top ret fpo x1 x2 x3 below Hfp. unfold do_ret. rewrite Hfp.
  replace (Nat.eqb (length below + 5) 0) with false by (symmetry; apply Nat.eqb_neq; lia).
  assert (Hlen : length (t :: top ++ ret :: fpo :: x1 :: x2 :: x3 :: below) =
                 (S (length top) + (length below + 5))%nat).
  { cbn [length]. rewrite app_length. cbn [length]. lia. }
  rewrite Hlen.
  replace (Nat.ltb (length below + 5) (S (length top) + (length below + 5))) with true
    by (symmetry; apply Nat.ltb_lt; lia).
  replace (S (length top) + (length below + 5) - (length below + 5))%nat with (S (length top)) by lia.
  change (skipn (S (length top)) (t :: top ++ ret :: fpo :: x1 :: x2 :: x3 :: below))
    with (skipn (length top) (top ++ ret :: fpo :: x1 :: x2 :: x3 :: below)).
  rewrite skipn_app, skipn_all, Nat.sub_diag. reflexivity.
Qed.

(* RETHROW while a MARK of the running activation is pending: the pending header is unwound *)
Lemma step_rethrow_pending : forall fr prog ip t top ret fpo x1 x2 x3 below h o,
  nth_error prog ip = Some (ins0 BYTECODE_RETHROW) -> r_fp fr = (length below + 5)%nat ->
  step prog (mk ip (t :: top ++ ret :: fpo :: x1 :: x2 :: x3 :: below) h o fr) =
  SNext (mk (hsearch (x_tab X) (Nat.pred ret) 0) (t :: below) h o (set_fp fr fpo)).
Proof.
  intros fr prog ip t top ret fpo x1 x2 x3 below h o H Hfp.
  unfold ValueVM3.step. cbn [v_ip v_stk v_heap v_out v_fr ValueVM3.mkst]. rewrite H.
  cbn [r_op ins0 ins]. rewrite (do_ret_pending _ _ _ _ _ _ _ _ _ Hfp). reflexivity.
Qed.

Lemma step_build_in_print : forall fr prog ip a stk h o z,
  nth_error prog ip = Some (ins BYTECODE_BUILD_IN lib_math_print 0) -> nth_error h a = Some z ->
  step prog (mk ip (a :: stk) h o fr) = SNext (mk (S ip) (length h :: stk) (h ++ [z]) (z :: o) fr).
Proof. intros. unfold ValueVM3.step. simpl. rewrite H. simpl. rewrite H0. reflexivity. Qed.

(* GLOBAL_VEC 0; ID_FUNC_ADDR k; CALL with the arguments above the header MARK pushed *)
Lemma enter_call : forall fr prog p k args stk h o ret,
  nth_error prog p = Some (ins BYTECODE_GLOBAL_VEC 0 0) ->
  nth_error prog (S p) = Some (ins BYTECODE_ID_FUNC_ADDR (Z.of_nat k) 0) ->
  nth_error prog (S (S p)) = Some (ins0 BYTECODE_CALL) ->
  star prog (mk p (args ++ ret :: r_fp fr :: 0 :: 0 :: 0 :: stk)%nat h o (set_fp fr (length stk + 5)))
       (mk (faddr k) args ((h ++ [0]) ++ [Z.of_nat (faddr k)]) o
           {| r_fp := 0; r_exc := r_exc fr;
              r_frames := {| f_ret := ret; f_fp := r_fp fr; f_below := stk; f_exc := r_exc fr |} :: r_frames fr |}).
Proof.
  intros fr prog p k args stk h o ret H1 H2 H3.
  eapply star_step; [apply step_global_vec0; exact H1|].
  eapply star_step; [eapply step_id_func_addr; exact H2|].
  apply star_one.
  rewrite (step_call_frame (set_fp fr (length stk + 5)) prog (S (S p)) (length (h ++ [0])) args ret
             (r_fp fr) 0%nat 0%nat 0%nat stk _ o (faddr k) H3); [reflexivity | | reflexivity].
  rewrite nth_error_app2, Nat.sub_diag by lia. reflexivity.
Qed.

Lemma step_label_op : forall fr prog ip i stk h o,
  nth_error prog ip = Some i -> r_op i = BYTECODE_LABEL ->
  step prog (mk ip stk h o fr) = SNext (mk (S ip) stk h o fr).
Proof. intros fr prog ip i stk h o H Hop. unfold ValueVM3.step. simpl. rewrite H, Hop. reflexivity. Qed.

Lemma step_rethrow_pending_op : forall fr prog ip i t top ret fpo x1 x2 x3 below h o,
  nth_error prog ip = Some i -> r_op i = BYTECODE_RETHROW -> r_fp fr = (length below + 5)%nat ->
  step prog (mk ip (t :: top ++ ret :: fpo :: x1 :: x2 :: x3 :: below) h o fr) =
  SNext (mk (hsearch (x_tab X) (Nat.pred ret) 0) (t :: below) h o (set_fp fr fpo)).
Proof.
  intros fr prog ip i t top ret fpo x1 x2 x3 below h o H Hop Hfp.
  unfold ValueVM3.step. cbn [v_ip v_stk v_heap v_out v_fr ValueVM3.mkst]. rewrite H, Hop.
  rewrite (do_ret_pending _ _ _ _ _ _ _ _ _ Hfp). reflexivity.
Qed.

Lemma is_rethrow_inv : forall prog H, is_rethrow prog H = true ->
  exists i j, nth_error prog H = Some i /\ r_op i = BYTECODE_LABEL /\
              nth_error prog (S H) = Some j /\ r_op j = BYTECODE_RETHROW.
Proof.
  intros prog H Hr. unfold is_rethrow in Hr.
  destruct (nth_error prog H) as [i|]; [|discriminate]. destruct (nth_error prog (S H)) as [j|]; [|discriminate].
  exists i, j. destruct (r_op i) eqn:Ei; try discriminate. destruct (r_op j) eqn:Ej; try discriminate. auto.
Qed.

(* a fault while the MARK of a call is pending (an argument is being evaluated): if the handler is a
   bare LABEL; RETHROW it unwinds the pending header and re-raises at the CALL; if it is a catch
   clause the dispatched state is passed on (CLEAR_STACK will reset fp) *)
Lemma call_arg_fault : forall fr prog s0 sm stk retL lo hi pc n m st',
  star prog s0 sm -> v_fr s0 = fr -> v_stk s0 = stk ->
  v_stk sm = (retL :: r_fp fr :: 0 :: 0 :: 0 :: stk)%nat -> v_fr sm = set_fp fr (length stk + 5) ->
  (pc <= lo)%nat -> (hi <= pc + n)%nat -> (pc <= Nat.pred retL < pc + n)%nat ->
  raises prog sm lo hi m st' -> raises prog s0 pc (pc + n) m st'.
Proof.
  intros fr prog s0 sm stk retL lo hi pc n m st' Hst Hfr0 Hstk0 Hstkm Hfrm Hlo Hhi Hret
         (s' & fip & m' & fp' & H1 & H2 & H3 & H4 & H5 & (t & top & H6) & H7 & H8 & H9).
  destruct s' as [ip' stk' h' o' fr']. simpl in H3, H4, H5, H6, H7, H8. subst stk' fr'.
  destruct (is_rethrow prog ip') eqn:Er.
  - specialize (H5 eq_refl). subst fp'.
    destruct (is_rethrow_inv _ _ Er) as (i & j & Hi & Hiop & Hj & Hjop).
    exists (mk (hsearch (x_tab X) (Nat.pred retL) 0) (t :: stk) h' o' (set_exc fr ExDivision)),
           (Nat.pred retL), m', (r_fp fr).
    split.
    { eapply star_trans; [exact Hst|]. eapply star_trans; [exact H1|].
      eapply star_step; [eapply step_label_op; eauto|]. apply star_one.
      rewrite Hstkm.
      rewrite (step_rethrow_pending_op _ prog (S ip') j t top retL (r_fp fr) 0%nat 0%nat 0%nat stk h' o' Hj Hjop).
      - rewrite Hfrm. unfold set_fp, set_exc. simpl. reflexivity.
      - rewrite Hfrm. reflexivity. }
    split; [lia|]. split; [reflexivity|].
    split; [simpl; rewrite Hfr0, set_fp_same; reflexivity|]. split; [intros _; rewrite Hfr0; reflexivity|].
    split; [exists t, []; simpl; rewrite Hstk0; reflexivity|]. split; [exact H7|]. split; [exact H8 | exact H9].
  - exists (mk ip' (t :: top ++ v_stk sm) h' o' (set_exc (set_fp (v_fr sm) fp') ExDivision)), fip, m', fp'.
    split; [eapply star_trans; eauto|]. split; [lia|]. split; [exact H3|].
    split; [simpl; rewrite Hfrm, Hfr0; reflexivity|].
    split; [simpl; intros Hx; rewrite Hx in Er; discriminate|].
    split; [exists t, (top ++ [retL; r_fp fr; 0; 0; 0]%nat); simpl; rewrite Hstkm, Hstk0, <- app_assoc; reflexivity|].
    split; [exact H7|]. split; [exact H8 | exact H9].
Qed.

Lemma env_match_pushn : forall m e ce sc L stk pre, env_match m e ce sc L stk ->
  env_match m e ce sc (L + Z.of_nat (length pre)) (pre ++ stk).
Proof.
  induction pre as [|a pre IH]; intros H.
  - simpl. replace (L + 0) with L by lia. exact H.
  - simpl app. replace (L + Z.of_nat (length (a :: pre))) with (L + Z.of_nat (length pre) + 1)
      by (simpl length; lia).
    apply env_match_push. apply IH. exact H.
Qed.

Lemma call_code_length : forall fi ca, length (call_code fi ca) = (length ca + 6)%nat.
Proof. intros. unfold call_code. simpl. rewrite app_length. simpl. lia. Qed.

(* print(a): LINE; MARK; a; GLOBAL_VEC 0; ID_FUNC_ADDR print; CALL — the callee's FUNC_DEF;
   ID_LOCAL 0 0; BUILD_IN print; RET — LABEL *)
Lemma case_EPrint : forall fr k a, expr_spec k -> expr_case_at fr (S k) (EPrint a).
Proof.
  intros fr k a IH env st r st' He sc HF prog L ce ip stk h o m Hc HMS Hout Hem.
  simpl in HF. apply andb_true_iff in HF; destruct HF as [_ Fa].
  rewrite eval_EPrint in He.
  change (compile_expr L ce (EPrint a)) with (call_code print_idx (compile_expr (L + num_frame_ptrs) ce a)) in *.
  set (ca := compile_expr (L + num_frame_ptrs) ce a) in *.
  rewrite call_code_length. pose proof Hc as (_ & Hpo). unfold call_code in Hc.
  pose proof (code_at_head _ _ _ _ Hc) as HLN.
  pose proof (code_at_tail _ _ _ _ Hc) as H1.
  pose proof (code_at_head _ _ _ _ H1) as HMK.
  pose proof (code_at_tail _ _ _ _ H1) as H2.
  pose proof (code_at_app_l _ _ _ _ H2) as Hca.
  pose proof (code_at_app_r _ _ _ _ H2) as H3.
  set (q := (S (S ip) + length ca)%nat) in *.
  pose proof (code_at_head _ _ _ _ H3) as HGV.
  pose proof (code_at_head _ _ _ _ (code_at_tail _ _ _ _ H3)) as HFA.
  pose proof (code_at_head _ _ _ _ (code_at_tail _ _ _ _ (code_at_tail _ _ _ _ H3))) as HCL.
  pose proof (code_at_head _ _ _ _ (code_at_tail _ _ _ _ (code_at_tail _ _ _ _ (code_at_tail _ _ _ _ H3)))) as HLB.
  set (retL := S (S (S q))) in *.
  set (hdr := [retL; r_fp fr; 0; 0; 0]%nat).
  set (fr' := set_fp fr (length stk + 5)).
  assert (Hmk : star prog (mk ip stk h o fr) (mk (S (S ip)) (hdr ++ stk) h o fr')).
  { eapply star_step; [apply step_line; exact HLN|]. apply star_one.
    eapply step_mark; [exact HMK | subst retL q; unfold len; lia]. }
  destruct (eval genv k env st a) as [r1 st1] eqn:Ea.
  pose proof (env_match_pushn _ _ _ _ _ _ hdr Hem) as Hem5.
  change (Z.of_nat (length hdr)) with num_frame_ptrs in Hem5.
  pose proof (IH a _ _ _ _ Ea sc Fa prog (S (S ip)) (L + num_frame_ptrs) ce (mk (S (S ip)) (hdr ++ stk) h o fr') m
                Hca eq_refl HMS Hout Hem5) as Ha.
  fold ca in Ha. fold q in Ha.
  destruct r1 as [c1|ex| |]; simpl in Ha; [| inv He; simpl | inv He; exact I | inv He; exact I].
  2:{ destruct Ha as [-> Hr]. split; [reflexivity|].
      eapply (call_arg_fault fr prog _ _ stk retL (S (S ip)) q ip (length ca + 6) _ _ Hmk);
        [reflexivity | reflexivity | reflexivity | reflexivity | lia | subst q; lia | subst retL q; simpl; lia | exact Hr]. }
  destruct Ha as (s1 & m1 & a1 & Hst1 & Hip1 & Hstk1 & Hm1 & HMS1 & Hext1 & Hout1 & Hfr1).
  destruct s1 as [ip1 stk1 h1 o1 fr1]; simpl in Hip1, Hstk1, HMS1, Hout1, Hfr1; subst ip1 stk1 fr1.
  destruct (get_int st1 c1) as [z|] eqn:Eg; [|inv He; exact I].
  pose proof (MS_payload_int _ _ _ _ _ _ HMS1 Hm1 Eg) as Hp.
  destruct (fresh_inv _ _ _ _ He) as (c & ->). simpl.
  set (h3 := (h1 ++ [0]) ++ [Z.of_nat (faddr 13)]).
  assert (HMS3 : MS m1 (print_num st1 z) h3).
  { apply MS_print. unfold h3. apply MS_heap_app. apply MS_heap_app. exact HMS1. }
  assert (Hv : val_rel (CInt z) z) by reflexivity.
  destruct (MS_fresh _ _ _ _ _ _ _ HMS3 Hv He) as (HMS' & Hm' & Hout').
  (* the callee *)
  pose proof (po_print _ Hpo) as Hpb. unfold print_body, std_body in Hpb. cbn [fst snd app] in Hpb.
  pose proof (CompileCorrect3Base.code_at_head _ _ _ _ Hpb) as PB0.
  pose proof (CompileCorrect3Base.code_at_tail _ _ _ _ Hpb) as Hpb1.
  pose proof (CompileCorrect3Base.code_at_head _ _ _ _ Hpb1) as PB1.
  pose proof (CompileCorrect3Base.code_at_tail _ _ _ _ Hpb1) as Hpb2.
  pose proof (CompileCorrect3Base.code_at_head _ _ _ _ Hpb2) as PB2.
  pose proof (CompileCorrect3Base.code_at_head _ _ _ _ (CompileCorrect3Base.code_at_tail _ _ _ _ Hpb2)) as PB3.
  set (frc := {| r_fp := 0; r_exc := r_exc fr;
                 r_frames := {| f_ret := retL; f_fp := r_fp fr; f_below := stk; f_exc := r_exc fr |} :: r_frames fr |}).
  assert (Hp3 : nth_error h3 a1 = Some z).
  { unfold h3. rewrite nth_error_app1 by (rewrite app_length; assert (a1 < length h1)%nat by (apply nth_error_Some; congruence); lia).
    rewrite nth_error_app1 by (apply nth_error_Some; congruence). exact Hp. }
  apply (post_ok_intro _ _ _ _ _ _ (mk (S retL) (length h3 :: stk) (h3 ++ [z]) (z :: o1) fr)
           (m1 ++ [MA (length h3)]) (length h3)); simpl; auto.
  - eapply star_trans; [exact Hmk|]. eapply star_trans; [exact Hst1|].
    eapply star_trans; [apply (enter_call fr prog q 13 [a1] stk h1 o1 retL HGV HFA HCL)|].
    fold h3. fold frc.
    eapply star_step; [apply (step_func_def frc); exact PB0|].
    eapply star_step; [eapply (step_id_local frc _ _ _ _ _ 0 0 a1); [exact PB1 | lia | reflexivity]|].
    eapply star_step; [eapply (step_build_in_print frc); [exact PB2 | exact Hp3]|].
    eapply star_step; [apply step_ret_frame; exact PB3|].
    cbn [f_ret f_fp f_below f_exc]. rewrite fregs_eta.
    apply star_one. apply step_label. exact HLB.
  - subst retL q. lia.
  - eapply ext_trans; [exact Hext1 | apply ext_snoc].
  - rewrite Hout'. simpl. congruence.
Qed.

(* ---- calls of the program's functions ------------------------------------------------------------ *)

Local Notation compile_args := (Compile3.compile_args FT).

Lemma in_F_call : forall sc f args, in_F lv sc (ECall (EVar f) args) =
  Nat.leb 3 lv &&
  match fsig_lookup f FS with Some n => Nat.eqb n (length args) | None => false end &&
  args_F FS lv sc args.
Proof.
  intros. cbn [Compile3.in_F]. f_equal. induction args as [|a t IH]; [reflexivity|].
  cbn [args_F]. rewrite <- IH. reflexivity.
Qed.

Lemma compile_args_cons : forall ce L a t, compile_args ce L (a :: t) =
  compile_args ce L t ++ compile_expr (L + Z.of_nat (length t)) ce a.
Proof. reflexivity. Qed.

Lemma Forall2_ext_m : forall m m' (cs astk : list nat), ext m m' ->
  Forall2 (fun c a => nth_error m c = Some (MA a)) cs astk ->
  Forall2 (fun c a => nth_error m' c = Some (MA a)) cs astk.
Proof. intros m m' cs astk He H. induction H; constructor; auto. eapply ext_nth; eauto. Qed.

(* the argument list, last argument first; the images end up on the stack in source order *)
Definition args_concl (prog : list rinstr) (s : vstate) (pc : nat) (code : list rinstr) (n : nat)
  (m : morph) (ocs : option (list nat)) (r : res) (st1 : state) : Prop :=
  match ocs with
  | Some cs =>
    exists s' m' astk, star prog s s' /\ v_ip s' = (pc + length code)%nat /\
      v_stk s' = astk ++ v_stk s /\ length astk = n /\
      Forall2 (fun c a => nth_error m' c = Some (MA a)) cs astk /\
      MS m' st1 (v_heap s') /\ ext m m' /\ v_out s' = out st1 /\ v_fr s' = v_fr s
  | None =>
    match r with
    | RExc ex => ex = ExDivision /\ raises prog s pc (pc + length code) m st1
    | _ => True
    end
  end.

Lemma args_spec_of : forall k, expr_spec k ->
  forall args env st ocs r st1, eval_args genv k env args st = ((ocs, r), st1) ->
  forall sc, args_F FS lv sc args = true ->
  forall prog pc L ce s m,
    code_at prog pc (compile_args ce L args) -> v_ip s = pc ->
    MS m st (v_heap s) -> v_out s = out st -> env_match m env ce sc L (v_stk s) ->
    args_concl prog s pc (compile_args ce L args) (length args) m ocs r st1.
Proof.
  intros k IH. induction args as [|a t IHt]; intros env st ocs r st1 He sc HF prog pc L ce s m Hc Hip HMS Hout Hem.
  - unfold eval_args in He. rewrite eval_args_f_nil in He. inv He. simpl.
    exists s, m, []. simpl. rewrite Nat.add_0_r.
    split; [apply star_refl|]. repeat (split; auto). apply ext_refl.
  - unfold eval_args in He. rewrite eval_args_f_cons in He. fold (eval_args genv k env) in He.
    cbn [args_F] in HF. apply andb_true_iff in HF; destruct HF as [Fa Ft].
    rewrite compile_args_cons in *.
    set (ct := compile_args ce L t) in *. set (ca := compile_expr (L + Z.of_nat (length t)) ce a) in *.
    destruct (eval_args genv k env t st) as [[ocs1 r1] st2] eqn:Et.
    pose proof (IHt env st ocs1 r1 st2 Et sc Ft prog pc L ce s m (code_at_app_l _ _ _ _ Hc) Hip HMS Hout Hem) as Ht.
    fold ct in Ht.
    destruct ocs1 as [cs|].
    + destruct Ht as (s1 & m1 & astk & Hst1 & Hip1 & Hstk1 & Hlen1 & HF1 & HMS1 & Hext1 & Hout1 & Hfr1).
      pose proof (env_match_pushn _ _ _ _ _ _ astk (env_match_ext _ _ _ _ _ _ _ Hem Hext1)) as Hem1.
      rewrite Hlen1, <- Hstk1 in Hem1.
      destruct (eval genv k env st2 a) as [ra st3] eqn:Ea.
      pose proof (IH a _ _ _ _ Ea sc Fa prog (pc + length ct)%nat (L + Z.of_nat (length t)) ce s1 m1
                    (code_at_app_r _ _ _ _ Hc) Hip1 HMS1 Hout1 Hem1) as Ha. fold ca in Ha.
      destruct ra as [c|ex| |]; inv He; simpl in Ha |- *; auto.
      * destruct Ha as (s2 & m2 & a2 & Hst2 & Hip2 & Hstk2 & Hm2 & HMS2 & Hext2 & Hout2 & Hfr2).
        exists s2, m2, (a2 :: astk). split; [eapply star_trans; eauto|].
        split; [rewrite Hip2, app_length; lia|]. split; [rewrite Hstk2, Hstk1; reflexivity|].
        split; [simpl; lia|].
        split; [constructor; [exact Hm2 | eapply Forall2_ext_m; eauto]|].
        split; [exact HMS2|]. split; [eapply ext_trans; eauto|]. split; [exact Hout2 | congruence].
      * destruct Ha as [-> Hr]. split; [reflexivity|].
        eapply raises_star; [exact Hst1 | exact Hfr1 | exists astk; exact Hstk1
                            | eapply raises_weaken; [exact Hr | lia | rewrite app_length; lia] | exact Hext1].
    + inv He. simpl in Ht |- *. destruct r as [c|ex| |]; auto.
      destruct Ht as [-> Hr]. split; [reflexivity|].
      eapply raises_weaken; [exact Hr | lia | rewrite app_length; lia].
Qed.

Lemma eval_args_none_not_ok : forall k env args st r st1 c,
  eval_args genv k env args st = ((None, r), st1) -> r <> ROk c.
Proof.
  intros k env. induction args as [|a t IH]; intros st r st1 c He.
  - unfold eval_args in He. rewrite eval_args_f_nil in He. discriminate.
  - unfold eval_args in He. rewrite eval_args_f_cons in He. fold (eval_args genv k env) in He.
    destruct (eval_args genv k env t st) as [[o1 r1] st2] eqn:Et.
    destruct o1 as [cs|].
    + destruct (eval genv k env st2 a) as [ra st3]. destruct ra; inv He; discriminate.
    + inv He. eapply IH; eauto.
Qed.

(* the function a name denotes *)
Lemma fsig_find : forall f (l : list fdef) n,
  fsig_lookup f (map (fun fd => (fd_name fd, length (fd_params fd))) l) = Some n ->
  exists kidx fd, nth_error l kidx = Some fd /\ find_func f l = Some fd /\
    length (fd_params fd) = n /\
    forall i, fpos f (map fd_name l) i = Some (i + Z.of_nat kidx).
Proof.
  induction l as [|g t IH]; intros n H; [discriminate|]. simpl in H |- *.
  destruct (N.eqb f (fd_name g)) eqn:E.
  - inv H. exists 0%nat, g. repeat split; auto. intros i. f_equal. lia.
  - destruct (IH n H) as (kidx & fd & H1 & H2 & H3 & H4).
    exists (S kidx), fd. repeat split; auto. intros i. rewrite H4. f_equal. lia.
Qed.

Lemma callee_of : forall m env ce sc L stk f n, env_match m env ce sc L stk ->
  fsig_lookup f FS = Some n ->
  exists kidx fd cf, nth_error (g_funcs G) kidx = Some fd /\ length (fd_params fd) = n /\
    lookup_var genv f env = Some cf /\ nth_error m cf = Some (MF fd) /\
    Compile3.fidx FT f = Z.of_nat (nstd + kidx).
Proof.
  intros m env ce sc L stk f n (_ & Hn & Hf) Hs.
  destruct (fsig_find f (g_funcs G) n Hs) as (kidx & fd & H1 & H2 & H3 & H4).
  destruct (Hf f fd H2) as (cf & Hg & Hm).
  exists kidx, fd, cf. repeat split; auto.
  - unfold lookup_var. destruct (lookup f env) as [c|] eqn:El; [|exact Hg].
    pose proof (Hn f c El) as Hx. unfold is_fname in Hx. fold FS in Hx. rewrite Hs in Hx. discriminate.
  - unfold Compile3.fidx. unfold FT. rewrite H4. lia.
Qed.

(* one activation of a program function, from its FUNC_DEF (arguments on the stack, the caller
   suspended in the first frame) to the state after its RET — the result on the caller's stack, the
   caller's registers restored — or after its RETHROW: the exception re-raised at the caller's CALL *)
Definition genv_ok (m : morph) : Prop :=
  forall f fd, find_func f (g_funcs G) = Some fd ->
    exists cf, lookup f genv = Some cf /\ nth_error m cf = Some (MF fd).

Definition body_spec (k : nat) : Prop :=
  forall kidx fd, nth_error (g_funcs G) kidx = Some fd ->
  forall cs penv st r st', bind_params (fd_params fd) cs = Some penv ->
    call_body genv k penv st fd = (r, st') ->
  forall prog astk h o m e0 F fs, prog_ok prog ->
    MS m st h -> o = out st ->
    Forall2 (fun c a => nth_error m c = Some (MA a)) cs astk -> genv_ok m ->
    let s0 := mk (faddr (nstd + kidx)) astk h o {| r_fp := 0; r_exc := e0; r_frames := F :: fs |} in
    match r with
    | ROk c =>
      exists h' o' m' a,
        star prog s0 (mk (f_ret F) (a :: f_below F) h' o' {| r_fp := f_fp F; r_exc := f_exc F; r_frames := fs |}) /\
        nth_error m' c = Some (MA a) /\ MS m' st' h' /\ ext m m' /\ o' = out st'
    | RExc ex =>
      ex = ExDivision /\
      exists h' t m',
        star prog s0 (mk (hsearch (x_tab X) (Nat.pred (f_ret F)) 0) (t :: f_below F) h' (out st')
                         {| r_fp := f_fp F; r_exc := Some ExDivision; r_frames := fs |}) /\
        MS m' st' h' /\ ext m m'
    | _ => True
    end.

Hypothesis funcs_ok : forall fd, In fd (g_funcs G) -> Compile3.func_in_F FS lv fd = true.

Lemma case_ECall : forall fr k f args, expr_spec k -> body_spec k ->
  expr_case_at fr (S k) (ECall (EVar f) args).
Proof.
  intros fr k f args IH IHb env st r st' He sc HF prog L ce ip stk h o m Hc HMS Hout Hem.
  rewrite in_F_call in HF.
  apply andb_true_iff in HF; destruct HF as [HF Fargs].
  apply andb_true_iff in HF; destruct HF as [_ Hsig].
  destruct (fsig_lookup f FS) as [n|] eqn:Hs; [|discriminate Hsig]. apply Nat.eqb_eq in Hsig.
  destruct (callee_of _ _ _ _ _ _ f n Hem Hs) as (kidx & fd & cf & Hk & Hnp & Hlv & Hmcf & Hfi).
  rewrite eval_ECall in He.
  change (compile_expr L ce (ECall (EVar f) args))
    with (call_code (Compile3.fidx FT f) (compile_args ce (L + num_frame_ptrs) args)) in *.
  rewrite Hfi in *.
  set (ca := compile_args ce (L + num_frame_ptrs) args) in *.
  rewrite call_code_length. pose proof Hc as (_ & Hpo). unfold call_code in Hc.
  pose proof (code_at_head _ _ _ _ Hc) as HLN.
  pose proof (code_at_tail _ _ _ _ Hc) as H1.
  pose proof (code_at_head _ _ _ _ H1) as HMK.
  pose proof (code_at_tail _ _ _ _ H1) as H2.
  pose proof (code_at_app_l _ _ _ _ H2) as Hca.
  pose proof (code_at_app_r _ _ _ _ H2) as H3.
  set (q := (S (S ip) + length ca)%nat) in *.
  pose proof (code_at_head _ _ _ _ H3) as HGV.
  pose proof (code_at_head _ _ _ _ (code_at_tail _ _ _ _ H3)) as HFA.
  pose proof (code_at_head _ _ _ _ (code_at_tail _ _ _ _ (code_at_tail _ _ _ _ H3))) as HCL.
  pose proof (code_at_head _ _ _ _ (code_at_tail _ _ _ _ (code_at_tail _ _ _ _ (code_at_tail _ _ _ _ H3)))) as HLB.
  set (retL := S (S (S q))) in *.
  set (hdr := [retL; r_fp fr; 0; 0; 0]%nat).
  set (fr' := set_fp fr (length stk + 5)).
  assert (Hmk : star prog (mk ip stk h o fr) (mk (S (S ip)) (hdr ++ stk) h o fr')).
  { eapply star_step; [apply step_line; exact HLN|]. apply star_one.
    eapply step_mark; [exact HMK | subst retL q; unfold len; lia]. }
  destruct (eval_args genv k env args st) as [[ocs ra] st1] eqn:Eargs.
  pose proof (env_match_pushn _ _ _ _ _ _ hdr Hem) as Hem5.
  change (Z.of_nat (length hdr)) with num_frame_ptrs in Hem5.
  pose proof (args_spec_of k IH args env st ocs ra st1 Eargs sc Fargs prog (S (S ip)) (L + num_frame_ptrs) ce
                (mk (S (S ip)) (hdr ++ stk) h o fr') m Hca eq_refl HMS Hout Hem5) as Ha.
  fold ca in Ha. fold q in Ha. unfold args_concl in Ha.
  destruct ocs as [cs|].
  2:{ inv He. simpl in Ha. destruct r as [c|ex| |]; simpl; auto.
      { exfalso. eapply eval_args_none_not_ok; eauto. }
      destruct Ha as [-> Hr]. split; [reflexivity|].
      eapply (call_arg_fault fr prog _ _ stk retL (S (S ip)) q ip (length ca + 6) _ _ Hmk);
        [reflexivity | reflexivity | reflexivity | reflexivity | lia | subst q; lia | subst retL q; simpl; lia | exact Hr]. }
  destruct Ha as (s1 & m1 & astk & Hst1 & Hip1 & Hstk1 & Hlen1 & HF1 & HMS1 & Hext1 & Hout1 & Hfr1).
  destruct s1 as [ip1 stk1 h1 o1 fr1]; simpl in Hip1, Hstk1, HMS1, Hout1, Hfr1; subst ip1 stk1 fr1.
  (* the callee expression: a name of a top-level function *)
  destruct k as [|k']; [rewrite eval_O in He; inv He; exact I|].
  rewrite eval_EVar, Hlv in He.
  pose proof (ext_nth _ _ _ _ Hext1 Hmcf) as Hmcf1.
  unfold apply_fun in He. unfold get_cell in He. rewrite (ms_fun _ _ _ HMS1 cf fd Hmcf1) in He.
  destruct (bind_params (fd_params fd) cs) as [penv|] eqn:Hb; [|inv He; exact I].
  rewrite app_nil_r in He.
  assert (Hg1 : genv_ok m1).
  { intros g gd Hgd. destruct Hem as (_ & _ & Hf3). destruct (Hf3 g gd Hgd) as (cg & Hl & Hm).
    exists cg. split; [exact Hl | eapply ext_nth; eauto]. }
  set (h1' := (h1 ++ [0]) ++ [Z.of_nat (faddr (nstd + kidx))]).
  assert (HMS1' : MS m1 st1 h1') by (unfold h1'; apply MS_heap_app, MS_heap_app; exact HMS1).
  pose proof (IHb kidx fd Hk cs penv st1 r st' Hb He prog astk h1' o1 m1 (r_exc fr)
                {| f_ret := retL; f_fp := r_fp fr; f_below := stk; f_exc := r_exc fr |} (r_frames fr) Hpo HMS1' Hout1 HF1 Hg1) as Hbody.
  cbn [f_ret f_fp f_below f_exc] in Hbody.
  assert (Henter : star prog (mk ip stk h o fr)
                     (mk (faddr (nstd + kidx)) astk h1' o1
                         {| r_fp := 0; r_exc := r_exc fr;
                            r_frames := {| f_ret := retL; f_fp := r_fp fr; f_below := stk; f_exc := r_exc fr |} :: r_frames fr |})).
  { eapply star_trans; [exact Hmk|]. eapply star_trans; [exact Hst1|].
    apply (enter_call fr prog q (nstd + kidx) astk stk h1 o1 retL HGV HFA HCL). }
  destruct r as [cb|exb| |]; try exact I.
  - simpl.
    destruct Hbody as (h' & o' & m' & a & Hrun & Hm' & HMS' & Hext' & Ho').
    rewrite fregs_eta in Hrun.
    apply (post_ok_intro _ _ _ _ _ _ (mk (S retL) (a :: stk) h' o' fr) m' a); simpl; auto.
    + eapply star_trans; [exact Henter|]. eapply star_snoc; [exact Hrun|]. apply step_label. exact HLB.
    + subst retL q. lia.
    + eapply ext_trans; eauto.
  - simpl.
    destruct Hbody as (-> & h' & t & m' & Hrun & HMS' & Hext'). split; [reflexivity|].
    exists (mk (hsearch (x_tab X) (Nat.pred retL) 0) (t :: stk) h' (out st')
               {| r_fp := r_fp fr; r_exc := Some ExDivision; r_frames := r_frames fr |}), (Nat.pred retL), m', (r_fp fr).
    split; [eapply star_trans; [exact Henter | exact Hrun]|].
    split; [subst retL q; simpl; lia|]. split; [reflexivity|]. split; [reflexivity|].
    split; [reflexivity|]. split; [exists t, []; reflexivity|]. split; [reflexivity|].
    split; [exact HMS' | eapply ext_trans; eauto].
Qed.

(* ---- the environment of a function body ---------------------------------------------------------- *)

Lemma param_env_names : forall ps cs penv stk m pre,
  bind_params ps cs = Some penv ->
  Forall2 (fun c a => nth_error m c = Some (MA a)) cs stk ->
  forall x, mem_id x (param_names ps) = true ->
    exists i c a, clookup x (param_env ps (- Z.of_nat (length pre))) = Some i /\ i <= 0 /\
      lookup x penv = Some c /\ nth_error m c = Some (MA a) /\
      nth_error (pre ++ stk) (Z.to_nat (0 - i)) = Some a.
Proof.
  induction ps as [|[[x v] t] ps IH]; intros cs penv stk m pre Hb HF y Hy.
  - discriminate Hy.
  - destruct cs as [|c cs]; [discriminate Hb|]. simpl in Hb.
    destruct (bind_params ps cs) as [e|] eqn:Eb; [|discriminate Hb]. inv Hb.
    inversion HF as [|c0 a cs0 stk' Hca HF']; subst.
    simpl in Hy |- *. destruct (N.eqb y x) eqn:Exy.
    + exists (- Z.of_nat (length pre)), c, a. repeat split; auto; try lia.
      match goal with |- nth_error _ ?k = _ => replace k with (length pre) by lia end.
      rewrite nth_error_app2, Nat.sub_diag by lia. reflexivity.
    + simpl in Hy.
      specialize (IH cs e stk' m (pre ++ [a]) Eb HF' y Hy).
      rewrite app_length in IH. simpl in IH.
      replace (- Z.of_nat (length pre + 1)) with (- Z.of_nat (length pre) - 1) in IH by lia.
      rewrite <- app_assoc in IH. exact IH.
Qed.

Lemma bind_params_lookup : forall ps cs penv x c, bind_params ps cs = Some penv ->
  lookup x penv = Some c -> In x (param_names ps).
Proof.
  induction ps as [|[[y v] t] ps IH]; intros cs penv x c Hb Hl.
  - destruct cs; inv Hb. discriminate Hl.
  - destruct cs as [|c0 cs]; [discriminate Hb|]. simpl in Hb.
    destruct (bind_params ps cs) as [e|] eqn:Eb; [|discriminate Hb]. inv Hb.
    simpl in Hl |- *. destruct (N.eqb x y) eqn:E.
    + left. symmetry. apply N.eqb_eq. exact E.
    + right. eapply IH; eauto.
Qed.

Lemma param_env_match : forall fd cs penv astk m,
  Compile3.func_in_F FS lv fd = true ->
  bind_params (fd_params fd) cs = Some penv ->
  Forall2 (fun c a => nth_error m c = Some (MA a)) cs astk -> genv_ok m ->
  env_match m penv (param_env (fd_params fd) 0) (param_names (fd_params fd)) 0 astk.
Proof.
  intros fd cs penv astk m Hok Hb HF Hg. unfold Compile3.func_in_F in Hok.
  apply andb_true_iff in Hok; destruct Hok as [Hok _].
  apply andb_true_iff in Hok; destruct Hok as [_ Hpn].
  split; [|split].
  - intros x Hx. destruct (param_env_names _ _ _ _ m [] Hb HF x Hx) as (i & c & a & H1 & H2 & H3 & H4 & H5).
    exists i, c, a. repeat split; auto.
  - intros x c Hl. pose proof (bind_params_lookup _ _ _ _ _ Hb Hl) as Hin.
    rewrite forallb_forall in Hpn. specialize (Hpn x Hin). apply negb_true_iff in Hpn. exact Hpn.
  - exact Hg.
Qed.

(* ---- expressions in tail position of a function --------------------------------------------------
   The activation of function fd runs with r_fp = 0 (no MARK pending: a tail position is never inside
   an argument list), its caller suspended in the first frame F.  An expression in tail position
   either ends like any other (its value pushed) or, through a self tail call that reuses the
   frame, the whole activation has already RETurned / RETHROWn to the caller. *)

Definition mkfr (e0 : option exn) (F : frame) (fs : list frame) : fregs :=
  {| r_fp := 0; r_exc := e0; r_frames := F :: fs |}.

Definition returned (prog : list rinstr) (s : vstate) (m : morph) (c : nat) (st' : state)
  (e0 : option exn) (F : frame) (fs : list frame) : Prop :=
  exists h' o' m' a,
    star prog s (mk (f_ret F) (a :: f_below F) h' o' {| r_fp := f_fp F; r_exc := f_exc F; r_frames := fs |}) /\
    nth_error m' c = Some (MA a) /\ MS m' st' h' /\ ext m m' /\ o' = out st'.

Definition rethrown (prog : list rinstr) (s : vstate) (m : morph) (st' : state) (F : frame)
  (fs : list frame) : Prop :=
  exists h' t m',
    star prog s (mk (hsearch (x_tab X) (Nat.pred (f_ret F)) 0) (t :: f_below F) h' (out st')
                    {| r_fp := f_fp F; r_exc := Some ExDivision; r_frames := fs |}) /\
    MS m' st' h' /\ ext m m'.

Definition tconcl (prog : list rinstr) (s : vstate) (pc n : nat) (m : morph) (r : res) (st' : state)
  (e0 : option exn) (F : frame) (fs : list frame) : Prop :=
  match r with
  | ROk c => post_ok prog s (pc + n) m c st' \/ returned prog s m c st' e0 F fs
  | RExc ex => ex = ExDivision /\ (raises prog s pc (pc + n) m st' \/ rethrown prog s m st' F fs)
  | _ => True
  end.

Lemma concl_tconcl : forall prog s pc n m r st' e0 F fs,
  concl prog s pc n m r st' -> tconcl prog s pc n m r st' e0 F fs.
Proof. intros. destruct r; simpl in *; auto. destruct H. auto. Qed.

(* a run in front (same stack, same registers) and pure control steps behind *)
Lemma tconcl_lift : forall prog s s1 pc n pc1 n1 m m1 r st' e0 F fs,
  star prog s s1 -> v_fr s1 = v_fr s -> v_stk s1 = v_stk s -> ext m m1 ->
  (pc <= pc1)%nat -> (pc1 + n1 <= pc + n)%nat ->
  (forall stk2 h2 o2 fr2, star prog (mk (pc1 + n1) stk2 h2 o2 fr2) (mk (pc + n) stk2 h2 o2 fr2)) ->
  tconcl prog s1 pc1 n1 m1 r st' e0 F fs -> tconcl prog s pc n m r st' e0 F fs.
Proof.
  intros prog s s1 pc n pc1 n1 m m1 r st' e0 F fs Hst Hfr Hstk Hext Hlo Hhi Hfin H.
  destruct r as [c|ex| |]; simpl in *; auto.
  - destruct H as [(s2 & m2 & a & H1 & H2 & H3 & H4 & H5 & H6 & H7 & H8) | (h' & o' & m' & a & H1 & H2 & H3 & H4 & H5)].
    + left. destruct s2 as [ip2 stk2 h2 o2 fr2]. simpl in H2, H3, H7, H8. subst ip2.
      exists (mk (pc + n) stk2 h2 o2 fr2), m2, a. simpl.
      split; [eapply star_trans; [exact Hst|]; eapply star_trans; [exact H1 | apply Hfin]|].
      split; [reflexivity|]. split; [congruence|]. split; [exact H4|]. split; [exact H5|].
      split; [eapply ext_trans; eauto|]. split; [exact H7 | congruence].
    + right. exists h', o', m', a. split; [eapply star_trans; eauto|]. split; [exact H2|].
      split; [exact H3|]. split; [eapply ext_trans; eauto | exact H5].
  - destruct H as (-> & [Hr | (h' & t & m' & H1 & H2 & H3)]); split; auto.
    + left. eapply raises_star; [exact Hst | exact Hfr | exists []; simpl; congruence
                                | eapply raises_weaken; [exact Hr | lia | lia] | exact Hext].
    + right. exists h', t, m'. split; [eapply star_trans; eauto|]. split; [exact H2 | eapply ext_trans; eauto].
Qed.

Definition tail_case (k : nat) (e : expr) : Prop :=
  forall kidx fd, nth_error (g_funcs G) kidx = Some fd ->
  forall env st r st', eval genv k env st e = (r, st') ->
  forall sc, in_F lv sc e = true ->
  forall prog pc L ce stk h o m e0 F fs,
    code_at prog pc (Compile3.cexpr FT (Some (fd_name fd)) true L ce e) ->
    MS m st h -> o = out st -> env_match m env ce sc L stk ->
    Z.of_nat (length stk) = L + Z.of_nat (length (fd_params fd)) ->
    tconcl prog (mk pc stk h o (mkfr e0 F fs)) pc
           (length (Compile3.cexpr FT (Some (fd_name fd)) true L ce e)) m r st' e0 F fs.

Definition tail_spec (k : nat) : Prop := forall e, tail_case k e.

Lemma tcase_ECond : forall k c a b, expr_spec k -> tail_spec k -> tail_case (S k) (ECond c a b).
Proof.
  intros k c a b IH IHt kidx fd Hk env st r st' He sc HF prog ip L ce stk h o m e0 F fs Hc HMS Hout Hem Hlen.
  set (frc := mkfr e0 F fs) in *. set (self := Some (fd_name fd)) in *.
  simpl in HF.
  apply andb_true_iff in HF; destruct HF as [HF Fb].
  apply andb_true_iff in HF; destruct HF as [HF Fa].
  apply andb_true_iff in HF; destruct HF as [_ Fc].
  rewrite eval_ECond in He.
  change (Compile3.cexpr FT self true L ce (ECond c a b)) with
    (compile_expr L ce c ++ ins BYTECODE_JUMPZ (len (Compile3.cexpr FT self true L ce a) + 2) 0 ::
     Compile3.cexpr FT self true L ce a ++
     ins BYTECODE_JUMP (len (Compile3.cexpr FT self true L ce b) + 2) 0 :: ins0 BYTECODE_LABEL ::
     Compile3.cexpr FT self true L ce b ++ [ins0 BYTECODE_LABEL]) in *.
  set (cc := compile_expr L ce c) in *. set (ca := Compile3.cexpr FT self true L ce a) in *.
  set (cb := Compile3.cexpr FT self true L ce b) in *.
  assert (Htot : length (cc ++ ins BYTECODE_JUMPZ (len ca + 2) 0 :: ca ++
                    ins BYTECODE_JUMP (len cb + 2) 0 :: ins0 BYTECODE_LABEL :: cb ++ [ins0 BYTECODE_LABEL])
            = (length cc + length ca + length cb + 4)%nat).
  { rewrite !app_length. simpl. rewrite !app_length. simpl. rewrite app_length. simpl. lia. }
  rewrite Htot.
  pose proof (code_at_app_l _ _ _ _ Hc) as Hcc.
  pose proof (code_at_app_r _ _ _ _ Hc) as H1.
  pose proof (code_at_head _ _ _ _ H1) as HJZ.
  pose proof (code_at_tail _ _ _ _ H1) as H2.
  pose proof (code_at_app_l _ _ _ _ H2) as Hca.
  pose proof (code_at_app_r _ _ _ _ H2) as H3.
  pose proof (code_at_head _ _ _ _ H3) as HJ.
  pose proof (code_at_tail _ _ _ _ (code_at_tail _ _ _ _ H3)) as H4.
  pose proof (code_at_app_l _ _ _ _ H4) as Hcb.
  pose proof (code_at_head _ _ _ _ (code_at_app_r _ _ _ _ H4)) as HL.
  destruct (eval genv k env st c) as [r1 st1] eqn:Ec.
  pose proof (IH c _ _ _ _ Ec sc Fc prog ip L ce (mk ip stk h o frc) m Hcc eq_refl HMS Hout Hem) as Hcnd.
  fold cc in Hcnd.
  destruct r1 as [c1|ex| |]; simpl in Hcnd; [| inv He; simpl | inv He; exact I | inv He; exact I].
  2:{ destruct Hcnd as [-> Hr]. split; [reflexivity|]. left. eapply raises_weaken; [exact Hr | lia | lia]. }
  destruct Hcnd as (s1 & m1 & a1 & Hst1 & Hip1 & Hstk1 & Hm1 & HMS1 & Hext1 & Hout1 & Hfr1).
  destruct s1 as [ip1 stk1 h1 o1 fr1]; simpl in Hip1, Hstk1, HMS1, Hout1, Hfr1; subst ip1 stk1 fr1.
  destruct (get_bool st1 c1) as [bv|] eqn:Eg; [|inv He; exact I].
  pose proof (MS_payload_bool _ _ _ _ _ _ HMS1 Hm1 Eg) as Hp.
  pose proof (env_match_ext _ _ _ _ _ _ _ Hem Hext1) as Hem1.
  destruct bv.
  - assert (Hj : star prog (mk ip stk h o frc) (mk (S (ip + length cc)) stk h1 o1 frc)).
    { eapply star_snoc; [exact Hst1|]. eapply (step_jumpz_nonzero frc); eauto. simpl. lia. }
    pose proof (IHt a kidx fd Hk _ _ _ _ He sc Fa prog (S (ip + length cc)) L ce stk h1 o1 m1 e0 F fs
                  Hca HMS1 Hout1 Hem1 Hlen) as Ha.
    fold self ca frc in Ha.
    eapply (tconcl_lift _ _ _ _ _ (S (ip + length cc)) (length ca)); [exact Hj | reflexivity | reflexivity | exact Hext1 | lia | lia | | exact Ha].
    intros stk2 h2 o2 fr2. apply star_one.
    rewrite (step_jump_fwd fr2 _ _ _ _ _ _ _ HJ) by (unfold len; lia).
    f_equal. f_equal. unfold len. lia.
  - assert (Hj : star prog (mk ip stk h o frc) (mk (S (S (S (ip + length cc) + length ca))) stk h1 o1 frc)).
    { eapply star_snoc; [exact Hst1|].
      rewrite (step_jumpz_zero frc _ _ _ _ _ _ _ _ HJZ Hp) by (unfold len; lia).
      f_equal. f_equal. unfold len. lia. }
    pose proof (IHt b kidx fd Hk _ _ _ _ He sc Fb prog (S (S (S (ip + length cc) + length ca))) L ce stk h1 o1 m1 e0 F fs
                  Hcb HMS1 Hout1 Hem1 Hlen) as Hb.
    fold self cb frc in Hb.
    eapply (tconcl_lift _ _ _ _ _ (S (S (S (ip + length cc) + length ca))) (length cb)); [exact Hj | reflexivity | reflexivity | exact Hext1 | lia | lia | | exact Hb].
    intros stk2 h2 o2 fr2. apply star_one.
    replace (ip + (length cc + length ca + length cb + 4))%nat
      with (S (S (S (S (ip + length cc) + length ca)) + length cb)) by lia.
    apply step_label. exact HL.
Qed.

(* blocks in tail position: the last expression item is in tail position *)
Local Notation compile_items_tl := (Compile3.compile_items_tl FT).

Lemma compile_items_tl_let : forall self L ce x e t, compile_items_tl self L ce (ILet x e :: t) =
  compile_expr L ce e ++ compile_items_tl self (L + 1) ((x, L + 1) :: ce) t.
Proof. reflexivity. Qed.
Lemma compile_items_tl_var : forall self L ce x e t, compile_items_tl self L ce (IVar x e :: t) =
  compile_expr L ce e ++ compile_items_tl self (L + 1) ((x, L + 1) :: ce) t.
Proof. reflexivity. Qed.
Lemma compile_items_tl_last : forall self L ce e, compile_items_tl self L ce [IExpr e] =
  Compile3.cexpr FT self true L ce e ++ [].
Proof. reflexivity. Qed.
Lemma compile_items_tl_expr : forall self L ce e it t, compile_items_tl self L ce (IExpr e :: it :: t) =
  compile_expr L ce e ++ ins BYTECODE_SLIDE 1 0 :: compile_items_tl self L ce (it :: t).
Proof. reflexivity. Qed.
Lemma cexpr_block_tl : forall self L ce items, Compile3.cexpr FT self true L ce (EBlock items) =
  compile_items_tl self L ce items ++ block_end (nbinds items).
Proof. reflexivity. Qed.

Definition titems_concl (prog : list rinstr) (s : vstate) (pc : nat) (code : list rinstr) (nb : Z)
  (m : morph) (r : res) (st' : state) (e0 : option exn) (F : frame) (fs : list frame) : Prop :=
  match r with
  | ROk c =>
    (exists s' m' a locals, star prog s s' /\ v_ip s' = (pc + length code)%nat /\
       v_stk s' = a :: locals ++ v_stk s /\ Z.of_nat (length locals) = nb /\
       nth_error m' c = Some (MA a) /\ MS m' st' (v_heap s') /\ ext m m' /\ v_out s' = out st' /\
       v_fr s' = v_fr s) \/
    returned prog s m c st' e0 F fs
  | RExc ex => ex = ExDivision /\ (raises prog s pc (pc + length code) m st' \/ rethrown prog s m st' F fs)
  | _ => True
  end.

Lemma titems_lift : forall prog s s1 pre pc code pc1 code1 nb1 m m1 r st' e0 F fs,
  star prog s s1 -> v_fr s1 = v_fr s -> v_stk s1 = pre ++ v_stk s -> ext m m1 ->
  (pc <= pc1)%nat -> (pc1 + length code1 = pc + length code)%nat ->
  titems_concl prog s1 pc1 code1 nb1 m1 r st' e0 F fs ->
  titems_concl prog s pc code (nb1 + Z.of_nat (length pre)) m r st' e0 F fs.
Proof.
  intros prog s s1 pre pc code pc1 code1 nb1 m m1 r st' e0 F fs Hst Hfr Hstk Hext Hlo Hend H.
  destruct r as [c|ex| |]; simpl in *; auto.
  - destruct H as [(s2 & m2 & a & locals & H1 & H2 & H3 & H4 & H5 & H6 & H7 & H8 & H9) | (h' & o' & m' & a & H1 & H2 & H3 & H4 & H5)].
    + left. exists s2, m2, a, (locals ++ pre). split; [eapply star_trans; eauto|].
      split; [lia|]. split; [rewrite H3, Hstk, app_assoc; reflexivity|].
      split; [rewrite app_length; lia|]. split; [exact H5|]. split; [exact H6|].
      split; [eapply ext_trans; eauto|]. split; [exact H8 | congruence].
    + right. exists h', o', m', a. split; [eapply star_trans; eauto|]. split; [exact H2|].
      split; [exact H3|]. split; [eapply ext_trans; eauto | exact H5].
  - destruct H as (-> & [Hr | (h' & t & m' & H1 & H2 & H3)]); split; auto.
    + left. eapply raises_star; [exact Hst | exact Hfr | exists pre; exact Hstk
                                | eapply raises_weaken; [exact Hr | lia | lia] | exact Hext].
    + right. exists h', t, m'. split; [eapply star_trans; eauto|]. split; [exact H2 | eapply ext_trans; eauto].
Qed.

Definition titems_spec (k : nat) : Prop :=
  forall kidx fd, nth_error (g_funcs G) kidx = Some fd ->
  forall items env st last r st', eval_items genv k env st items last = (r, st') ->
  forall sc, items_F lv sc items = true ->
  forall prog pc L ce stk h o m e0 F fs,
    code_at prog pc (compile_items_tl (Some (fd_name fd)) L ce items) ->
    MS m st h -> o = out st -> env_match m env ce sc L stk ->
    Z.of_nat (length stk) = L + Z.of_nat (length (fd_params fd)) ->
    titems_concl prog (mk pc stk h o (mkfr e0 F fs)) pc
      (compile_items_tl (Some (fd_name fd)) L ce items) (nbinds items) m r st' e0 F fs.

Lemma titems_bind_step : forall k x e t, expr_spec k -> titems_spec k ->
  forall kidx fd, nth_error (g_funcs G) kidx = Some fd ->
  forall env st r st',
  match eval genv k env st e with
  | (ROk c, st1) => eval_items genv k ((x, c) :: env) st1 t (Some c)
  | r => r end = (r, st') ->
  forall sc, negb (is_fname FS x) && in_F lv sc e && items_F lv (x :: sc) t = true ->
  forall prog pc L ce stk h o m e0 F fs,
    code_at prog pc (compile_expr L ce e ++ compile_items_tl (Some (fd_name fd)) (L + 1) ((x, L + 1) :: ce) t) ->
    MS m st h -> o = out st -> env_match m env ce sc L stk ->
    Z.of_nat (length stk) = L + Z.of_nat (length (fd_params fd)) ->
    titems_concl prog (mk pc stk h o (mkfr e0 F fs)) pc
      (compile_expr L ce e ++ compile_items_tl (Some (fd_name fd)) (L + 1) ((x, L + 1) :: ce) t)
      (1 + nbinds t) m r st' e0 F fs.
Proof.
  intros k x e t IHe IHi kidx fd Hk env st r st' He sc HF prog ip L ce stk h o m e0 F fs Hc HMS Hout Hem Hlen.
  set (frc := mkfr e0 F fs) in *.
  apply andb_true_iff in HF; destruct HF as [HF Ft].
  apply andb_true_iff in HF; destruct HF as [Hnx Fe]. apply negb_true_iff in Hnx.
  set (ca := compile_expr L ce e) in *.
  set (ct := compile_items_tl (Some (fd_name fd)) (L + 1) ((x, L + 1) :: ce) t) in *.
  destruct (eval genv k env st e) as [r1 st1] eqn:Ea.
  pose proof (IHe e _ _ _ _ Ea sc Fe prog ip L ce (mk ip stk h o frc) m
                (code_at_app_l _ _ _ _ Hc) eq_refl HMS Hout Hem) as Ha. fold ca in Ha.
  destruct r1 as [c1|ex| |]; simpl in Ha; [| inv He; simpl | inv He; exact I | inv He; exact I].
  2:{ destruct Ha as [-> Hr]. split; [reflexivity|]. left.
      eapply raises_weaken; [exact Hr | lia | rewrite app_length; lia]. }
  destruct Ha as (s1 & m1 & a1 & Hst1 & Hip1 & Hstk1 & Hm1 & HMS1 & Hext1 & Hout1 & Hfr1).
  destruct s1 as [ip1 stk1 h1 o1 fr1]; simpl in Hip1, Hstk1, HMS1, Hout1, Hfr1; subst ip1 stk1 fr1.
  assert (Hlen1 : Z.of_nat (length (a1 :: stk)) = L + 1 + Z.of_nat (length (fd_params fd))) by (simpl length; lia).
  pose proof (IHi kidx fd Hk t _ _ _ _ _ He (x :: sc) Ft prog (ip + length ca)%nat (L + 1) ((x, L + 1) :: ce)
                (a1 :: stk) h1 o1 m1 e0 F fs (code_at_app_r _ _ _ _ Hc) HMS1 Hout1
                (env_match_bind _ _ _ _ _ _ x c1 a1 (env_match_ext _ _ _ _ _ _ _ Hem Hext1) Hm1 Hnx) Hlen1) as Ht.
  fold ct frc in Ht.
  replace (1 + nbinds t) with (nbinds t + Z.of_nat (length [a1])) by (simpl length; lia).
  eapply (titems_lift _ _ _ [a1] _ _ (ip + length ca)%nat ct); [exact Hst1 | reflexivity | reflexivity | exact Hext1 | lia | rewrite app_length; lia | exact Ht].
Qed.

Lemma titems_step : forall k, expr_spec k -> tail_spec k -> titems_spec k -> titems_spec (S k).
Proof.
  intros k IHe IHt IHi kidx fd Hk items env st last r st' He sc HF prog ip L ce stk h o m e0 F fs Hc HMS Hout Hem Hlen.
  set (frc := mkfr e0 F fs) in *. set (self := Some (fd_name fd)) in *.
  destruct items as [|it t]; [discriminate HF|].
  destruct it as [x e | x e | fd0 | e].
  - rewrite eval_items_ILet in He. rewrite items_F1_let in HF. rewrite compile_items_tl_let in *.
    change (nbinds (ILet x e :: t)) with (1 + nbinds t).
    eapply titems_bind_step; eauto.
  - rewrite eval_items_IVar in He. rewrite items_F1_var in HF. rewrite compile_items_tl_var in *.
    change (nbinds (IVar x e :: t)) with (1 + nbinds t).
    eapply titems_bind_step; eauto.
  - discriminate HF.
  - rewrite eval_items_IExpr in He. rewrite items_F1_expr in HF.
    change (nbinds (IExpr e :: t)) with (nbinds t).
    apply andb_true_iff in HF; destruct HF as [Fe Ft].
    destruct t as [|it2 t2].
    + (* the last item: tail position *)
      rewrite compile_items_tl_last in *. rewrite app_nil_r in *.
      destruct (eval genv k env st e) as [r1 st1] eqn:Ea.
      pose proof (IHt e kidx fd Hk _ _ _ _ Ea sc Fe prog ip L ce stk h o m e0 F fs Hc HMS Hout Hem Hlen) as Ha.
      fold self frc in Ha.
      destruct r1 as [c1|ex| |]; simpl in Ha; [| inv He; simpl; exact Ha | inv He; exact I | inv He; exact I].
      destruct (eval_items_nil_inv _ _ _ _ _ _ He) as [-> | [-> ->]]; [exact I|]. simpl.
      destruct Ha as [(s1 & m1 & a1 & Hst1 & Hip1 & Hstk1 & Hm1 & HMS1 & Hext1 & Hout1 & Hfr1) | Hret].
      * left. exists s1, m1, a1, []. simpl. repeat (split; auto).
      * right. exact Hret.
    + rewrite compile_items_tl_expr in *.
      set (t := it2 :: t2) in *. set (ca := compile_expr L ce e) in *.
      destruct (eval genv k env st e) as [r1 st1] eqn:Ea.
      pose proof (IHe e _ _ _ _ Ea sc Fe prog ip L ce (mk ip stk h o frc) m
                    (code_at_app_l _ _ _ _ Hc) eq_refl HMS Hout Hem) as Ha. fold ca in Ha.
      destruct r1 as [c1|ex| |]; simpl in Ha; [| inv He; simpl | inv He; exact I | inv He; exact I].
      2:{ destruct Ha as [-> Hr]. split; [reflexivity|]. left.
          eapply raises_weaken; [exact Hr | lia | rewrite app_length; lia]. }
      destruct Ha as (s1 & m1 & a1 & Hst1 & Hip1 & Hstk1 & Hm1 & HMS1 & Hext1 & Hout1 & Hfr1).
      destruct s1 as [ip1 stk1 h1 o1 fr1]; simpl in Hip1, Hstk1, HMS1, Hout1, Hfr1; subst ip1 stk1 fr1.
      pose proof (code_at_app_r _ _ _ _ Hc) as Hc2.
      pose proof (code_at_head _ _ _ _ Hc2) as Hsl. pose proof (code_at_tail _ _ _ _ Hc2) as Hct.
      assert (Hpop : star prog (mk ip stk h o frc) (mk (S (ip + length ca)) stk h1 o1 frc)).
      { eapply star_snoc; [exact Hst1|]. apply (step_slide_pop frc). exact Hsl. }
      pose proof (IHi kidx fd Hk t _ _ _ _ _ He sc Ft prog (S (ip + length ca)) L ce stk h1 o1 m1 e0 F fs
                    Hct HMS1 Hout1 (env_match_ext _ _ _ _ _ _ _ Hem Hext1) Hlen) as Ht.
      fold self frc in Ht.
      replace (nbinds t) with (nbinds t + Z.of_nat (length (@nil nat))) by (simpl; lia).
      eapply (titems_lift _ _ _ [] _ _ (S (ip + length ca)) (compile_items_tl self L ce t));
        [exact Hpop | reflexivity | reflexivity | exact Hext1 | lia | rewrite app_length; simpl; lia | exact Ht].
Qed.

Lemma tcase_EBlock : forall k items, titems_spec k -> tail_case (S k) (EBlock items).
Proof.
  intros k items IHi kidx fd Hk env st r st' He sc HF prog ip L ce stk h o m e0 F fs Hc HMS Hout Hem Hlen.
  set (frc := mkfr e0 F fs) in *. set (self := Some (fd_name fd)) in *.
  rewrite eval_EBlock in He. rewrite cexpr_block_tl in *.
  change (in_F lv sc (EBlock items)) with (items_F lv sc items) in HF.
  pose proof (IHi kidx fd Hk items env st None r st' He sc HF prog ip L ce stk h o m e0 F fs
                (code_at_app_l _ _ _ _ Hc) HMS Hout Hem Hlen) as Hi.
  fold self frc in Hi. unfold titems_concl in Hi.
  destruct r as [c|ex| |]; simpl in Hi |- *; auto.
  - destruct Hi as [(s1 & m1 & a & locals & Hst1 & Hip1 & Hstk1 & Hlenl & Hm1 & HMS1 & Hext1 & Hout1 & Hfr1) | Hret];
      [left | right; exact Hret].
    destruct s1 as [ip1 stk1 h1 o1 fr1]; simpl in Hip1, Hstk1, HMS1, Hout1, Hfr1; subst ip1 stk1 fr1.
    pose proof (code_at_app_r _ _ _ _ Hc) as Hce.
    unfold block_end in *. destruct (0 <? nbinds items) eqn:En.
    + apply Z.ltb_lt in En.
      apply (post_ok_intro _ _ _ _ _ _ (mk (S (ip + length (compile_items_tl self L ce items))) (a :: stk) h1 o1 frc) m1 a);
        simpl; auto.
      * eapply star_snoc; [exact Hst1|]. eapply (step_slide_block frc); eauto. eapply code_at_head; exact Hce.
      * rewrite app_length. simpl. lia.
    + apply Z.ltb_ge in En. pose proof (nbinds_nonneg items).
      assert (locals = []) by (destruct locals; [reflexivity | simpl in Hlenl; lia]). subst locals.
      apply (post_ok_intro _ _ _ _ _ _ (mk (ip + length (compile_items_tl self L ce items)) (a :: stk) h1 o1 frc) m1 a);
        simpl; auto.
      rewrite app_nil_r. reflexivity.
  - destruct Hi as (-> & [Hr | Hre]); split; auto.
    left. eapply raises_weaken; [exact Hr | lia | rewrite app_length; lia].
Qed.

(* everything that is not ?: / a block / a call is compiled in tail position like anywhere else *)
Lemma tcase_other : forall k e, expr_case k e ->
  (forall self L ce, Compile3.cexpr FT self true L ce e = compile_expr L ce e) -> tail_case k e.
Proof.
  intros k e H Heq kidx fd Hk env st r st' He sc HF prog ip L ce stk h o m e0 F fs Hc HMS Hout Hem Hlen.
  rewrite Heq in *. apply concl_tconcl.
  exact (H env st r st' He sc HF prog ip L ce (mk ip stk h o (mkfr e0 F fs)) m Hc eq_refl HMS Hout Hem).
Qed.

(* ---- the self tail call: args; f; SLIDE (L+v) (v+1); CALL — the frame is reused ------------------ *)

Lemma step_slide_all : forall fr prog ip top stk h o q mm,
  nth_error prog ip = Some (ins BYTECODE_SLIDE q mm) ->
  q = Z.of_nat (length stk) -> mm = Z.of_nat (length top) ->
  step prog (mk ip (top ++ stk) h o fr) = SNext (mk (S ip) top h o fr).
Proof.
  intros fr prog ip top stk h o q mm H -> ->. unfold ValueVM3.step. cbn [v_ip v_stk v_heap v_out v_fr ValueVM3.mkst].
  rewrite H. cbn [r_op ins r_w0 r_w1]. rewrite !zn_nonneg by lia. rewrite !Nat2Z.id.
  destruct (Nat.eqb (length stk) 0) eqn:E0.
  - apply Nat.eqb_eq in E0. destruct stk; [|discriminate E0]. rewrite app_nil_r. reflexivity.
  - replace (Nat.leb (length stk + length top) (length (top ++ stk))) with true
      by (symmetry; apply Nat.leb_le; rewrite app_length; lia).
    rewrite firstn_app, firstn_all, Nat.sub_diag. simpl firstn. rewrite app_nil_r.
    rewrite skipn_all2 by (rewrite app_length; lia). rewrite app_nil_r. reflexivity.
Qed.

Lemma step_call_tail : forall prog ip f rest h o e0 F fs target,
  nth_error prog ip = Some (ins0 BYTECODE_CALL) -> nth_error h f = Some (Z.of_nat target) ->
  step prog (mk ip (f :: rest) h o (mkfr e0 F fs)) = SNext (mk target rest h o (mkfr e0 F fs)).
Proof.
  intros. unfold ValueVM3.step. simpl. rewrite H. simpl. rewrite H0, zn_nonneg by lia.
  rewrite Nat2Z.id. reflexivity.
Qed.

Lemma last_call_code_length : forall fi L v ca, length (last_call_code fi L v ca) = (length ca + 4)%nat.
Proof. intros. unfold last_call_code. rewrite app_length. simpl. lia. Qed.

(* names of the program's functions are pairwise different *)
Hypothesis Hfind : forall kidx fd, nth_error (g_funcs G) kidx = Some fd ->
  find_func (fd_name fd) (g_funcs G) = Some fd.

Lemma fsig_find_func : forall f n, fsig_lookup f FS = Some n ->
  exists fd, find_func f (g_funcs G) = Some fd.
Proof. intros f n H. destruct (fsig_find f (g_funcs G) n H) as (k & fd & _ & H2 & _). eauto. Qed.

Lemma callee_self : forall m env ce sc L stk kidx fd n, env_match m env ce sc L stk ->
  nth_error (g_funcs G) kidx = Some fd -> fsig_lookup (fd_name fd) FS = Some n ->
  exists kidx' cf, nth_error (g_funcs G) kidx' = Some fd /\ n = length (fd_params fd) /\
    lookup_var genv (fd_name fd) env = Some cf /\ nth_error m cf = Some (MF fd) /\
    Compile3.fidx FT (fd_name fd) = Z.of_nat (nstd + kidx').
Proof.
  intros m env ce sc L stk kidx fd n (_ & Hn & Hf) Hk Hs.
  destruct (fsig_find (fd_name fd) (g_funcs G) n Hs) as (kidx' & fd' & H1 & H2 & H3 & H4).
  rewrite (Hfind kidx fd Hk) in H2. inv H2.
  destruct (Hf _ _ (Hfind kidx fd' Hk)) as (cf & Hg & Hm).
  exists kidx', cf. repeat split; auto.
  - unfold lookup_var. destruct (lookup (fd_name fd') env) as [c|] eqn:El; [|exact Hg].
    pose proof (Hn _ c El) as Hx. unfold is_fname in Hx. fold FS in Hx. rewrite Hs in Hx. discriminate.
  - unfold Compile3.fidx. unfold FT. rewrite H4. lia.
Qed.

Lemma tcase_ECall : forall k f args, expr_spec k -> body_spec k ->
  expr_case (S k) (ECall (EVar f) args) -> tail_case (S k) (ECall (EVar f) args).
Proof.
  intros k f args IH IHb Hplain kidx fd Hk env st r st' He sc HF prog ip L ce stk h o m e0 F fs Hc HMS Hout Hem Hlen.
  set (frc := mkfr e0 F fs) in *.
  cbn [Compile3.cexpr andb] in Hc |- *. unfold self_is in Hc |- *.
  destruct (N.eqb f (fd_name fd)) eqn:Eself.
  2:{ (* another function: an ordinary call *)
      apply concl_tconcl.
      exact (Hplain env st r st' He sc HF prog ip L ce (mk ip stk h o frc) m Hc eq_refl HMS Hout Hem). }
  apply N.eqb_eq in Eself. subst f.
  rewrite in_F_call in HF.
  apply andb_true_iff in HF; destruct HF as [HF Fargs].
  apply andb_true_iff in HF; destruct HF as [_ Hsig].
  destruct (fsig_lookup (fd_name fd) FS) as [n|] eqn:Hs; [|discriminate Hsig]. apply Nat.eqb_eq in Hsig.
  destruct (callee_self _ _ _ _ _ _ kidx fd n Hem Hk Hs) as (kidx' & cf & Hk' & Hn & Hlv & Hmcf & Hfi).
  subst n. rewrite eval_ECall in He. rewrite Hfi in *.
  change (Compile3.compile_args_f (Compile3.cexpr FT None false) ce L args) with (compile_args ce L args) in *.
  set (v := Z.of_nat (length args)) in *.
  set (ca := compile_args ce L args) in *.
  rewrite last_call_code_length. pose proof Hc as (_ & Hpo). unfold last_call_code in Hc.
  pose proof (code_at_app_l _ _ _ _ Hc) as Hca.
  pose proof (code_at_app_r _ _ _ _ Hc) as H3.
  set (q := (ip + length ca)%nat) in *.
  pose proof (code_at_head _ _ _ _ H3) as HGV.
  pose proof (code_at_head _ _ _ _ (code_at_tail _ _ _ _ H3)) as HFA.
  pose proof (code_at_head _ _ _ _ (code_at_tail _ _ _ _ (code_at_tail _ _ _ _ H3))) as HSL.
  pose proof (code_at_head _ _ _ _ (code_at_tail _ _ _ _ (code_at_tail _ _ _ _ (code_at_tail _ _ _ _ H3)))) as HCL.
  destruct (eval_args genv k env args st) as [[ocs ra] st1] eqn:Eargs.
  pose proof (args_spec_of k IH args env st ocs ra st1 Eargs sc Fargs prog ip L ce
                (mk ip stk h o frc) m Hca eq_refl HMS Hout Hem) as Ha.
  fold ca in Ha. fold q in Ha. unfold args_concl in Ha.
  destruct ocs as [cs|].
  2:{ inv He. simpl in Ha. destruct r as [c|ex| |]; simpl; auto.
      { exfalso. eapply eval_args_none_not_ok; eauto. }
      destruct Ha as [-> Hr]. split; [reflexivity|]. left.
      eapply raises_weaken; [exact Hr | lia | subst q; lia]. }
  destruct Ha as (s1 & m1 & astk & Hst1 & Hip1 & Hstk1 & Hlen1 & HF1 & HMS1 & Hext1 & Hout1 & Hfr1).
  destruct s1 as [ip1 stk1 h1 o1 fr1]; simpl in Hip1, Hstk1, HMS1, Hout1, Hfr1; subst ip1 stk1 fr1.
  destruct k as [|k']; [rewrite eval_O in He; inv He; exact I|].
  rewrite eval_EVar, Hlv in He.
  pose proof (ext_nth _ _ _ _ Hext1 Hmcf) as Hmcf1.
  unfold apply_fun in He. unfold get_cell in He. rewrite (ms_fun _ _ _ HMS1 cf fd Hmcf1) in He.
  destruct (bind_params (fd_params fd) cs) as [penv|] eqn:Hb; [|inv He; exact I].
  rewrite app_nil_r in He.
  assert (Hg1 : genv_ok m1).
  { intros g gd Hgd. destruct Hem as (_ & _ & Hf3). destruct (Hf3 g gd Hgd) as (cg & Hl & Hm).
    exists cg. split; [exact Hl | eapply ext_nth; eauto]. }
  set (h1' := (h1 ++ [0]) ++ [Z.of_nat (faddr (nstd + kidx'))]).
  assert (HMS1' : MS m1 st1 h1') by (unfold h1'; apply MS_heap_app, MS_heap_app; exact HMS1).
  pose proof (IHb kidx' fd Hk' cs penv st1 r st' Hb He prog astk h1' o1 m1 e0 F fs Hpo HMS1' Hout1 HF1 Hg1) as Hbody.
  cbn zeta in Hbody. fold (mkfr e0 F fs) in Hbody. fold frc in Hbody.
  assert (Henter : star prog (mk ip stk h o frc) (mk (faddr (nstd + kidx')) astk h1' o1 frc)).
  { eapply star_trans; [exact Hst1|].
    eapply star_step; [apply (step_global_vec0 frc); exact HGV|].
    eapply star_step; [eapply (step_id_func_addr frc); exact HFA|]. fold h1'.
    eapply star_step.
    - change (length (h1 ++ [0]) :: astk ++ stk) with ((length (h1 ++ [0]) :: astk) ++ stk).
      apply (step_slide_all frc prog (S (S q)) (length (h1 ++ [0]) :: astk) stk h1' o1 _ _ HSL).
      + unfold v. lia.
      + unfold v. simpl length. lia.
    - apply star_one. apply step_call_tail; [exact HCL|].
      unfold h1'. rewrite nth_error_app2, Nat.sub_diag by lia. reflexivity. }
  destruct r as [cb|exb| |]; try exact I.
  - simpl. right.
    destruct Hbody as (h' & o' & m' & a & Hrun & Hm' & HMS' & Hext' & Ho').
    exists h', o', m', a. split; [eapply star_trans; eauto|]. split; [exact Hm'|]. split; [exact HMS'|].
    split; [eapply ext_trans; eauto | exact Ho'].
  - simpl.
    destruct Hbody as (-> & h' & t & m' & Hrun & HMS' & Hext'). split; [reflexivity|]. right.
    exists h', t, m'. split; [eapply star_trans; eauto|]. split; [exact HMS' | eapply ext_trans; eauto].
Qed.

(* ---- catch clauses --------------------------------------------------------------------------------- *)

Lemma items_spec_mono : forall k j, (j <= k)%nat -> items_spec k -> items_spec j.
Proof.
  intros k j Hle H items env st last r st' He.
  destruct r as [c|ex| |]; try (intros; exact I).
  - refine (H items env st last (ROk c) st' _).
    apply (eval_items_fuel_mono genv j k env st items last (ROk c) st' Hle He). discriminate.
  - refine (H items env st last (RExc ex) st' _).
    apply (eval_items_fuel_mono genv j k env st items last (RExc ex) st' Hle He). discriminate.
Qed.

Lemma seg_at : forall prog fa fd pre seg post,
  CompileCorrect3Base.code_at prog fa (compile_func FT fd) -> fsegs FT fd = pre ++ seg :: post ->
  CompileCorrect3Base.code_at prog (fa + length (concat pre))
    (seg ++ concat post ++ [ins0 BYTECODE_RETHROW]).
Proof.
  intros prog fa fd pre seg post Hc Hs. unfold compile_func in Hc. rewrite Hs, concat_app in Hc.
  cbn [concat] in Hc. rewrite <- !app_assoc in Hc.
  apply (CompileCorrect3Base.code_at_app_r _ _ _ _ Hc).
Qed.

Lemma step_clear_stack : forall fr prog ip top astk h o,
  nth_error prog ip = Some (ins BYTECODE_CLEAR_STACK (Z.of_nat (length astk)) 0) ->
  step prog (mk ip (top ++ astk) h o fr) = SNext (mk (S ip) astk h o (set_fp fr 0)).
Proof.
  intros. unfold ValueVM3.step. cbn [v_ip v_stk v_heap v_out v_fr ValueVM3.mkst]. rewrite H.
  cbn [r_op ins r_w0]. rewrite zn_nonneg by lia. rewrite Nat2Z.id, app_length.
  replace (Nat.leb (length astk) (length top + length astk)) with true by (symmetry; apply Nat.leb_le; lia).
  replace (length top + length astk - length astk)%nat with (length top) by lia.
  rewrite skipn_app, skipn_all, Nat.sub_diag. reflexivity.
Qed.

Lemma step_push_except : forall fr prog ip stk h o e,
  nth_error prog ip = Some (ins0 BYTECODE_PUSH_EXCEPT) -> r_exc fr = Some e ->
  step prog (mk ip stk h o fr) = SNext (mk (S ip) (length h :: stk) (h ++ [exn_no e]) o fr).
Proof. intros. unfold ValueVM3.step. simpl. rewrite H. simpl. rewrite H0. reflexivity. Qed.

Lemma step_rethrow_any : forall prog ip stk h o e F fs,
  nth_error prog ip = Some (ins0 BYTECODE_RETHROW) ->
  exists t, step prog (mk ip stk h o {| r_fp := 0; r_exc := e; r_frames := F :: fs |}) =
  SNext (mk (hsearch (x_tab X) (Nat.pred (f_ret F)) 0) (t :: f_below F) h o
            {| r_fp := f_fp F; r_exc := e; r_frames := fs |}).
Proof.
  intros. exists (match stk with res :: _ => res | [] => f_ret F end).
  unfold ValueVM3.step. simpl. rewrite H. reflexivity.
Qed.

Lemma exn_match_no : forall ex, exn_eqb ExDivision ex = (exn_no ex =? 1).
Proof. destruct ex; reflexivity. Qed.

(* the clause segments that remain when the named clauses cs are still to be tried *)
Definition tail_segs (fd : fdef) (cs : list (exn * list item)) : list (list rinstr) :=
  map (clause_seg FT fd) cs ++
  match fd_catch_all fd with Some b => [all_seg FT fd b] | None => [] end.

Lemma bind_params_length : forall ps cs penv, bind_params ps cs = Some penv -> length cs = length ps.
Proof.
  induction ps as [|[[x v] t] ps IH]; intros cs penv Hb; destruct cs; simpl in Hb; try discriminate; [reflexivity|].
  destruct (bind_params ps cs) eqn:E; [|discriminate]. simpl. f_equal. eapply IH; eauto.
Qed.

Lemma Forall2_len : forall A B (P : A -> B -> Prop) l1 l2, Forall2 P l1 l2 -> length l1 = length l2.
Proof. intros A B P l1 l2 H. induction H; simpl; congruence. Qed.

(* one clause block: CLEAR_STACK has been executed, the parameters are the stack *)
Lemma clause_block : forall k, items_spec k ->
  forall kidx fd, nth_error (g_funcs G) kidx = Some fd ->
  forall j body penv st r st', (j <= k)%nat ->
    eval_items genv j penv st body None = (r, st') ->
    items_F lv (param_names (fd_params fd)) body = true ->
  forall prog pc astk h o m cs0 e F fs,
    pcode_at prog pc (clause_body FT fd body) ->
    Compile3.func_in_F FS lv fd = true ->
    bind_params (fd_params fd) cs0 = Some penv ->
    Forall2 (fun c a => nth_error m c = Some (MA a)) cs0 astk -> genv_ok m ->
    MS m st h -> o = out st ->
    concl prog (mk pc astk h o (mkfr e F fs)) pc (length (clause_body FT fd body)) m r st'.
Proof.
  intros k IHi kidx fd Hk j body penv st r st' Hj He HFb prog pc astk h o m cs0 e F fs Hc Hfok Hb HF Hg HMS Hout.
  assert (IHj : items_spec j) by (apply (items_spec_mono k); assumption).
  assert (He' : eval genv (S j) penv st (EBlock body) = (r, st')) by (rewrite eval_EBlock; exact He).
  pose proof (param_env_match fd cs0 penv astk m Hfok Hb HF Hg) as Hem.
  exact (case_EBlock (mkfr e F fs) j body IHj penv st r st' He' (param_names (fd_params fd)) HFb prog 0
           (param_env (fd_params fd) 0) pc astk h o m Hc HMS Hout Hem).
Qed.

(* the end of an activation as its caller sees it *)
Definition act_done (prog : list rinstr) (s0 : vstate) (m : morph) (r : res) (st' : state)
  (F : frame) (fs : list frame) : Prop :=
  match r with
  | ROk c =>
    exists h' o' m' a,
      star prog s0 (mk (f_ret F) (a :: f_below F) h' o' {| r_fp := f_fp F; r_exc := f_exc F; r_frames := fs |}) /\
      nth_error m' c = Some (MA a) /\ MS m' st' h' /\ ext m m' /\ o' = out st'
  | RExc ex =>
    ex = ExDivision /\
    exists h' t m',
      star prog s0 (mk (hsearch (x_tab X) (Nat.pred (f_ret F)) 0) (t :: f_below F) h' (out st')
                       {| r_fp := f_fp F; r_exc := Some ExDivision; r_frames := fs |}) /\
      MS m' st' h' /\ ext m m'
  | _ => True
  end.

Lemma act_done_star : forall prog s0 s1 m m1 r st' F fs,
  star prog s0 s1 -> ext m m1 -> act_done prog s1 m1 r st' F fs -> act_done prog s0 m r st' F fs.
Proof.
  intros prog s0 s1 m m1 r st' F fs Hst Hext H. destruct r as [c|ex| |]; simpl in *; auto.
  - destruct H as (h' & o' & m' & a & H1 & H2 & H3 & H4 & H5). exists h', o', m', a.
    split; [eapply star_trans; eauto|]. split; [exact H2|]. split; [exact H3|].
    split; [eapply ext_trans; eauto | exact H5].
  - destruct H as (-> & h' & t & m' & H1 & H2 & H3). split; [reflexivity|]. exists h', t, m'.
    split; [eapply star_trans; eauto|]. split; [exact H2 | eapply ext_trans; eauto].
Qed.

(* a finished clause block: RET, or the fault goes on *)
Lemma concat_snoc_len : forall (pre : list (list rinstr)) seg,
  length (concat (pre ++ [seg])) = (length (concat pre) + length seg)%nat.
Proof. intros. rewrite concat_app, app_length. simpl. rewrite app_nil_r. reflexivity. Qed.

Lemma seg_shape_all : forall (i r l w : rinstr) (cb : list rinstr),
  (i :: cb ++ [r; l]) ++ concat [] ++ [w] = i :: cb ++ [r; l; w].
Proof. intros. simpl. rewrite <- app_assoc. reflexivity. Qed.

Lemma seg_shape_clause : forall (i1 i2 i3 i4 i5 r l : rinstr) (cb rest : list rinstr),
  (i1 :: i2 :: i3 :: i4 :: i5 :: cb ++ [r; l]) ++ rest =
  i1 :: i2 :: i3 :: i4 :: i5 :: cb ++ r :: l :: rest.
Proof. intros. simpl. rewrite <- app_assoc. reflexivity. Qed.

Lemma handlers_run : forall k, items_spec k ->
  forall kidx fd, nth_error (g_funcs G) kidx = Some fd -> Compile3.func_in_F FS lv fd = true ->
  forall cs pre, fsegs FT fd = pre ++ tail_segs fd cs ->
    (forall c, In c cs -> items_F lv (param_names (fd_params fd)) (snd c) = true) ->
    (forall b, fd_catch_all fd = Some b -> items_F lv (param_names (fd_params fd)) b = true) ->
  forall j penv st r st', (j <= k)%nat ->
    handlers genv j penv st ExDivision cs (fd_catch_all fd) = (r, st') ->
  forall prog top astk h o m cs0 fp F fs, prog_ok prog ->
    bind_params (fd_params fd) cs0 = Some penv ->
    Forall2 (fun c a => nth_error m c = Some (MA a)) cs0 astk -> genv_ok m ->
    MS m st h -> o = out st ->
    (cs = [] -> fd_catch_all fd = None -> fp = 0%nat) ->
    act_done prog (mk (faddr (nstd + kidx) + length (concat pre)) (top ++ astk) h o
                      {| r_fp := fp; r_exc := Some ExDivision; r_frames := F :: fs |}) m r st' F fs.
Proof.
  intros k IHi kidx fd Hk Hfok.
  set (fa := faddr (nstd + kidx)). set (np := length (fd_params fd)).
  induction cs as [|[ex' body] t IHcs];
    intros pre Hsegs Hcs Hall j penv st r st' Hj He prog top astk h o m cs0 fp F fs Hpo Hb HF Hg HMS Hout Hfp.
  - (* no named clause left *)
    destruct j as [|j]; [rewrite handlers_O in He; inv He; exact I|]. rewrite handlers_nil in He.
    pose proof (po_fun _ Hpo kidx fd Hk) as Hcode. fold fa in Hcode.
    assert (Hnp : length astk = np).
    { rewrite <- (Forall2_len _ _ _ _ _ HF). apply (bind_params_length _ _ _ Hb). }
    destruct (fd_catch_all fd) as [b|] eqn:Eall.
    + unfold tail_segs in Hsegs. rewrite Eall in Hsegs. cbn [map app] in Hsegs.
      pose proof (seg_at prog fa fd pre (all_seg FT fd b) [] Hcode Hsegs) as Hseg.
      set (A := (fa + length (concat pre))%nat) in *.
      unfold all_seg in Hseg. fold np in Hseg.
      set (cb := clause_body FT fd b) in *. rewrite seg_shape_all in Hseg.
      pose proof (CompileCorrect3Base.code_at_head _ _ _ _ Hseg) as HCS.
      pose proof (CompileCorrect3Base.code_at_tail _ _ _ _ Hseg) as H1.
      pose proof (CompileCorrect3Base.code_at_app_l _ _ _ _ H1) as Hcb.
      pose proof (CompileCorrect3Base.code_at_app_r _ _ _ _ H1) as H2.
      pose proof (CompileCorrect3Base.code_at_head _ _ _ _ H2) as HRT.
      pose proof (CompileCorrect3Base.code_at_head _ _ _ _ (CompileCorrect3Base.code_at_tail _ _ _ _ H2)) as HLB.
      pose proof (CompileCorrect3Base.code_at_head _ _ _ _
                   (CompileCorrect3Base.code_at_tail _ _ _ _ (CompileCorrect3Base.code_at_tail _ _ _ _ H2))) as HRW.
      set (frc := mkfr (Some ExDivision) F fs).
      assert (H0 : star prog (mk A (top ++ astk) h o {| r_fp := fp; r_exc := Some ExDivision; r_frames := F :: fs |})
                        (mk (S A) astk h o frc)).
      { apply star_one. rewrite <- Hnp in HCS. rewrite (step_clear_stack _ prog A top astk h o HCS). reflexivity. }
      assert (Hlenseg : length (all_seg FT fd b) = (length cb + 3)%nat).
      { unfold all_seg. fold cb. cbn [length]. rewrite app_length. cbn [length]. lia. }
      pose proof (clause_block k IHi kidx fd Hk j b penv st r st' ltac:(lia) He (Hall b eq_refl) prog (S A) astk h o m cs0
                    (Some ExDivision) F fs (conj Hcb Hpo) Hfok Hb HF Hg HMS Hout) as Hx. fold cb frc in Hx.
      destruct r as [c|ex| |]; simpl in Hx |- *; auto.
      * destruct Hx as (s1 & m1 & a & Hst1 & Hip1 & Hstk1 & Hm1 & HMS1 & Hext1 & Hout1 & Hfr1).
        destruct s1 as [ip1 stk1 h1 o1 fr1]; simpl in Hip1, Hstk1, HMS1, Hout1, Hfr1; subst ip1 stk1 fr1.
        exists h1, o1, m1, a. split; [|auto].
        eapply star_trans; [exact H0|]. eapply star_snoc; [exact Hst1|]. apply step_ret_frame. exact HRT.
      * destruct Hx as (-> & s1 & fip & m1 & fp' & Hst1 & Hrng & Hip1 & Hfr1 & Hrt & (t0 & top' & Hstk1) & Hout1 & HMS1 & Hext1).
        split; [reflexivity|].
        destruct s1 as [ip1 stk1 h1 o1 fr1]; simpl in Hip1, Hstk1, Hout1, Hfr1, Hrt, HMS1; subst stk1 o1 fr1.
        rewrite (po_tab _ Hpo kidx fd pre (all_seg FT fd b) [] fip Hk Hsegs) in Hip1
          by (fold fa; fold A; rewrite Hlenseg; lia).
        fold fa in Hip1. fold A in Hip1. rewrite Hlenseg in Hip1.
        replace (A + (length cb + 3) - 1)%nat with (S (S A + length cb)) in Hip1 by lia. subst ip1.
        assert (Hir : is_rethrow prog (S (S A + length cb)) = true).
        { unfold is_rethrow. rewrite HLB, HRW. reflexivity. }
        specialize (Hrt Hir). subst fp'.
        destruct (step_rethrow_any prog (S (S (S A + length cb))) (t0 :: top' ++ astk) h1 (out st') (Some ExDivision) F fs HRW)
          as (t1 & Hrw).
        exists h1, t1, m1. split; [|split; [exact HMS1 | exact Hext1]].
        eapply star_trans; [exact H0|]. eapply star_trans; [exact Hst1|].
        eapply star_step; [apply (step_label _ prog (S (S A + length cb))); exact HLB|].
        apply star_one. exact Hrw.
    + inv He. unfold tail_segs in Hsegs. rewrite Eall in Hsegs. cbn [map app] in Hsegs. rewrite app_nil_r in Hsegs.
      unfold compile_func in Hcode. rewrite Hsegs in Hcode.
      pose proof (CompileCorrect3Base.code_at_head _ _ _ _ (CompileCorrect3Base.code_at_app_r _ _ _ _ Hcode)) as HRW.
      rewrite (Hfp eq_refl eq_refl). simpl. split; [reflexivity|].
      destruct (step_rethrow_any prog (fa + length (concat pre)) (top ++ astk) h (out st') (Some ExDivision) F fs HRW)
        as (t1 & Hrw).
      exists h, t1, m. split; [apply star_one; exact Hrw|]. split; [exact HMS | apply ext_refl].
  - (* a named clause *)
    destruct j as [|j]; [rewrite handlers_O in He; inv He; exact I|]. rewrite handlers_cons in He.
    pose proof (po_fun _ Hpo kidx fd Hk) as Hcode. fold fa in Hcode.
    assert (Hnp : length astk = np).
    { rewrite <- (Forall2_len _ _ _ _ _ HF). apply (bind_params_length _ _ _ Hb). }
    assert (Hsegs' : fsegs FT fd = pre ++ clause_seg FT fd (ex', body) :: tail_segs fd t) by exact Hsegs.
    pose proof (seg_at prog fa fd pre _ _ Hcode Hsegs') as Hseg.
    set (A := (fa + length (concat pre))%nat) in *.
    unfold clause_seg in Hseg. cbn [fst snd] in Hseg. fold np in Hseg.
    set (cb := clause_body FT fd body) in *. rewrite seg_shape_clause in Hseg.
    pose proof (CompileCorrect3Base.code_at_head _ _ _ _ Hseg) as HCS.
    pose proof (CompileCorrect3Base.code_at_tail _ _ _ _ Hseg) as T1.
    pose proof (CompileCorrect3Base.code_at_head _ _ _ _ T1) as HIN.
    pose proof (CompileCorrect3Base.code_at_tail _ _ _ _ T1) as T2.
    pose proof (CompileCorrect3Base.code_at_head _ _ _ _ T2) as HPE.
    pose proof (CompileCorrect3Base.code_at_tail _ _ _ _ T2) as T3.
    pose proof (CompileCorrect3Base.code_at_head _ _ _ _ T3) as HEQ.
    pose proof (CompileCorrect3Base.code_at_tail _ _ _ _ T3) as T4.
    pose proof (CompileCorrect3Base.code_at_head _ _ _ _ T4) as HJZ.
    pose proof (CompileCorrect3Base.code_at_tail _ _ _ _ T4) as T5.
    pose proof (CompileCorrect3Base.code_at_app_l _ _ _ _ T5) as Hcb.
    pose proof (CompileCorrect3Base.code_at_app_r _ _ _ _ T5) as T6.
    pose proof (CompileCorrect3Base.code_at_head _ _ _ _ T6) as HRT.
    pose proof (CompileCorrect3Base.code_at_head _ _ _ _ (CompileCorrect3Base.code_at_tail _ _ _ _ T6)) as HLB.
    set (frc := mkfr (Some ExDivision) F fs).
    set (h3 := ((h ++ [exn_no ex']) ++ [exn_no ExDivision]) ++ [b2z (exn_no ex' =? 1)]).
    assert (Hlenseg : length (clause_seg FT fd (ex', body)) = (length cb + 7)%nat).
    { unfold clause_seg. cbn [fst snd]. fold cb. cbn [length]. rewrite app_length. cbn [length]. lia. }
    assert (Hpro : star prog (mk A (top ++ astk) h o {| r_fp := fp; r_exc := Some ExDivision; r_frames := F :: fs |})
                        (mk (S (S (S (S A)))) (length ((h ++ [exn_no ex']) ++ [exn_no ExDivision]) :: astk) h3 o frc)).
    { eapply star_step. { rewrite <- Hnp in HCS. rewrite (step_clear_stack _ prog A top astk h o HCS). reflexivity. }
      change (set_fp {| r_fp := fp; r_exc := Some ExDivision; r_frames := F :: fs |} 0) with frc.
      eapply star_step; [apply (step_int frc prog (S A) astk h o (exn_no ex') 0); exact HIN|].
      eapply star_step; [apply (step_push_except frc _ _ _ _ _ ExDivision HPE); reflexivity|].
      apply star_one.
      rewrite (step_binop frc prog (S (S (S A))) astk ((h ++ [exn_no ex']) ++ [exn_no ExDivision]) o Eq
                 (length (h ++ [exn_no ex'])) (length h) (exn_no ex') (exn_no ExDivision) eq_refl HEQ).
      - reflexivity.
      - rewrite nth_error_app1 by (rewrite app_length; simpl; lia).
        rewrite nth_error_app2, Nat.sub_diag by lia. reflexivity.
      - rewrite nth_error_app2, Nat.sub_diag by lia. reflexivity. }
    assert (HMS3 : MS m st h3) by (unfold h3; repeat apply MS_heap_app; exact HMS).
    assert (Hp3 : nth_error h3 (length ((h ++ [exn_no ex']) ++ [exn_no ExDivision])) = Some (b2z (exn_no ex' =? 1))).
    { unfold h3. rewrite nth_error_app2, Nat.sub_diag by lia. reflexivity. }
    rewrite exn_match_no in He.
    assert (Hpost : fsegs FT fd = (pre ++ [clause_seg FT fd (ex', body)]) ++ tail_segs fd t).
    { rewrite <- app_assoc. exact Hsegs'. }
    assert (Hcs' : forall c, In c t -> items_F lv (param_names (fd_params fd)) (snd c) = true).
    { intros c Hc. apply Hcs. right. exact Hc. }
    assert (HAnext : (fa + length (concat (pre ++ [clause_seg FT fd (ex', body)])) = S (S (S (S (S (S (S A))))) + length cb))%nat).
    { rewrite concat_snoc_len, Hlenseg. fold A. lia. }
    destruct (exn_no ex' =? 1) eqn:Em.
    + (* the clause matches *)
      assert (Hin : star prog (mk A (top ++ astk) h o {| r_fp := fp; r_exc := Some ExDivision; r_frames := F :: fs |})
                         (mk (S (S (S (S (S A))))) astk h3 o frc)).
      { eapply star_snoc; [exact Hpro|]. eapply (step_jumpz_nonzero frc); [exact HJZ | exact Hp3 | simpl; lia]. }
      destruct (eval_items genv j penv st body None) as [r1 st1] eqn:Eb.
      pose proof (clause_block k IHi kidx fd Hk j body penv st r1 st1 ltac:(lia) Eb (Hcs (ex', body) (or_introl eq_refl))
                    prog (S (S (S (S (S A))))) astk h3 o m cs0 (Some ExDivision) F fs (conj Hcb Hpo) Hfok Hb HF Hg HMS3 Hout) as Hx.
      fold cb frc in Hx.
      destruct r1 as [c|ex| |]; simpl in Hx.
      * inv He. simpl.
        destruct Hx as (s1 & m1 & a & Hst1 & Hip1 & Hstk1 & Hm1 & HMS1 & Hext1 & Hout1 & Hfr1).
        destruct s1 as [ip1 stk1 h1 o1 fr1]; simpl in Hip1, Hstk1, HMS1, Hout1, Hfr1; subst ip1 stk1 fr1.
        exists h1, o1, m1, a. split; [|auto].
        eapply star_trans; [exact Hin|]. eapply star_snoc; [exact Hst1|]. apply step_ret_frame. exact HRT.
      * destruct Hx as (-> & s1 & fip & m1 & fp' & Hst1 & Hrng & Hip1 & Hfr1 & Hrt & (t0 & top' & Hstk1) & Hout1 & HMS1 & Hext1).
        destruct s1 as [ip1 stk1 h1 o1 fr1]; simpl in Hip1, Hstk1, Hout1, Hfr1, Hrt, HMS1; subst stk1 o1 fr1.
        rewrite (po_tab _ Hpo kidx fd pre _ _ fip Hk Hsegs') in Hip1
          by (fold fa; fold A; rewrite Hlenseg; lia).
        fold fa in Hip1. fold A in Hip1. rewrite Hlenseg in Hip1.
        replace (A + (length cb + 7) - 1)%nat with (S (S (S (S (S (S A)))) + length cb)) in Hip1 by lia. subst ip1.
        assert (Hfp' : t = [] -> fd_catch_all fd = None -> fp' = 0%nat).
        { intros -> Hn. apply Hrt. unfold is_rethrow. rewrite HLB.
          unfold tail_segs in T6. rewrite Hn in T6. cbn [map app concat] in T6.
          rewrite (CompileCorrect3Base.code_at_head _ _ _ _
                     (CompileCorrect3Base.code_at_tail _ _ _ _ (CompileCorrect3Base.code_at_tail _ _ _ _ T6))).
          reflexivity. }
        pose proof (IHcs (pre ++ [clause_seg FT fd (ex', body)]) Hpost Hcs' Hall j penv st1 r st' ltac:(lia) He
                      prog (t0 :: top') astk h1 (out st1) m1 cs0 fp' F fs Hpo Hb
                      (Forall2_ext_m _ _ _ _ Hext1 HF)
                      (fun g gd Hgd => match Hg g gd Hgd with ex_intro _ cg (conj Hl Hm) =>
                                         ex_intro _ cg (conj Hl (ext_nth _ _ _ _ Hext1 Hm)) end)
                      HMS1 eq_refl Hfp') as Hrest.
        fold fa in Hrest. rewrite HAnext in Hrest.
        eapply act_done_star; [| exact Hext1 | exact Hrest].
        eapply star_trans; [exact Hin|]. eapply star_snoc; [exact Hst1|].
        apply (step_label _ prog (S (S (S (S (S (S A)))) + length cb))). exact HLB.
      * inv He. exact I.
      * inv He. exact I.
    + (* another exception is named: the next clause *)
      assert (Hjz : star prog (mk A (top ++ astk) h o {| r_fp := fp; r_exc := Some ExDivision; r_frames := F :: fs |})
                         (mk (S (S (S (S (S (S (S A))))) + length cb)) astk h3 o frc)).
      { eapply star_snoc; [exact Hpro|].
        eapply (step_jumpz_to frc); [exact HJZ | exact Hp3 | unfold len; lia]. }
      pose proof (IHcs (pre ++ [clause_seg FT fd (ex', body)]) Hpost Hcs' Hall j penv st r st' ltac:(lia) He
                    prog [] astk h3 o m cs0 0%nat F fs Hpo Hb HF Hg HMS3 Hout (fun _ _ => eq_refl)) as Hrest.
      fold fa in Hrest. rewrite HAnext in Hrest. cbn [app] in Hrest.
      eapply act_done_star; [exact Hjz | apply ext_refl | exact Hrest].
Qed.

Lemma seg_shape_body : forall (i x y z : rinstr) (b rest : list rinstr),
  (i :: b ++ [x; y; z]) ++ rest = i :: b ++ x :: y :: z :: rest.
Proof. intros. simpl. rewrite <- app_assoc. reflexivity. Qed.

(* one activation: FUNC_DEF; the body; LINE; RET — or a fault: the catch clauses, or LABEL; RETHROW *)
Lemma body_of_specs : forall k, items_spec k -> titems_spec k -> body_spec k.
Proof.
  intros k IHi IHti kidx fd Hk cs penv st r st' Hb He prog astk h o m e0 F fs Hpo HMS Hout HF Hg s0.
  assert (Hfd : In fd (g_funcs G)) by (eapply nth_error_In; eauto).
  pose proof (funcs_ok fd Hfd) as Hfok.
  pose proof (po_fun _ Hpo kidx fd Hk) as Hcode.
  set (fa := faddr (nstd + kidx)) in *.
  set (frc := mkfr e0 F fs) in *.
  assert (Hsegs : fsegs FT fd = [] ++ body_seg FT fd :: tail_segs fd (fd_catches fd)) by reflexivity.
  pose proof (seg_at prog fa fd [] _ _ Hcode Hsegs) as Hseg. cbn [concat length] in Hseg.
  rewrite Nat.add_0_r in Hseg. unfold body_seg in Hseg. rewrite seg_shape_body in Hseg.
  set (body := compile_body FT fd) in *.
  pose proof (CompileCorrect3Base.code_at_head _ _ _ _ Hseg) as HFD.
  pose proof (CompileCorrect3Base.code_at_tail _ _ _ _ Hseg) as Hc1.
  pose proof (CompileCorrect3Base.code_at_app_l _ _ _ _ Hc1) as Hbody.
  pose proof (CompileCorrect3Base.code_at_app_r _ _ _ _ Hc1) as Hc2.
  pose proof (CompileCorrect3Base.code_at_head _ _ _ _ Hc2) as HLN.
  pose proof (CompileCorrect3Base.code_at_head _ _ _ _ (CompileCorrect3Base.code_at_tail _ _ _ _ Hc2)) as HRT.
  pose proof (CompileCorrect3Base.code_at_tail _ _ _ _ (CompileCorrect3Base.code_at_tail _ _ _ _ Hc2)) as Hc3.
  pose proof (CompileCorrect3Base.code_at_head _ _ _ _ Hc3) as HLB.
  pose proof (CompileCorrect3Base.code_at_tail _ _ _ _ Hc3) as Hc4.
  assert (Hlenseg : length (body_seg FT fd) = (length body + 4)%nat).
  { unfold body_seg. fold body. cbn [length]. rewrite app_length. cbn [length]. lia. }
  assert (H0 : star prog s0 (mk (S fa) astk h o frc)).
  { apply star_one. apply (step_func_def frc). exact HFD. }
  assert (Htab : forall i, (S fa <= i < S fa + length body)%nat ->
                   hsearch (x_tab X) i 0 = (S (S (S fa + length body)))%nat).
  { intros i Hi. rewrite (po_tab _ Hpo kidx fd [] _ _ i Hk Hsegs) by (fold fa; cbn [concat length]; rewrite Hlenseg; lia).
    fold fa. cbn [concat length]. rewrite Hlenseg. lia. }
  assert (HFb : items_F lv (param_names (fd_params fd)) (fd_body fd) = true).
  { unfold Compile3.func_in_F in Hfok. apply andb_true_iff in Hfok; destruct Hfok as [Hfok _].
    apply andb_true_iff in Hfok; destruct Hfok as [Hfok _]. exact Hfok. }
  unfold call_body in He.
  destruct (eval_items genv k penv st (fd_body fd) None) as [rb st3] eqn:Eb.
  destruct (no_catch fd) eqn:Enc.
  - (* no catch clauses: the body is in tail position; a fault leaves through LABEL; RETHROW *)
    assert (Hc12 : fd_catches fd = [] /\ fd_catch_all fd = None).
    { unfold no_catch in Enc. destruct (fd_catches fd); [destruct (fd_catch_all fd); [discriminate | auto] | discriminate]. }
    destruct Hc12 as [C1 C2].
    assert (HRW : nth_error prog (S (S (S (S fa + length body)))) = Some (ins0 BYTECODE_RETHROW)).
    { unfold tail_segs in Hc4. rewrite C1, C2 in Hc4. cbn [map app concat] in Hc4.
      exact (CompileCorrect3Base.code_at_head _ _ _ _ Hc4). }
    assert (Hpc : pcode_at prog (S fa) body) by (split; [exact Hbody | exact Hpo]).
    assert (He' : eval genv (S k) penv st (EBlock (fd_body fd)) = (rb, st3)) by (rewrite eval_EBlock; exact Eb).
    pose proof (param_env_match fd cs penv astk m Hfok Hb HF Hg) as Hem.
    assert (Hlen : Z.of_nat (length astk) = 0 + Z.of_nat (length (fd_params fd))).
    { rewrite <- (Forall2_len _ _ _ _ _ HF), (bind_params_length _ _ _ Hb). lia. }
    pose proof (tcase_EBlock k (fd_body fd) IHti kidx fd Hk penv st rb st3 He' (param_names (fd_params fd)) HFb prog (S fa) 0
                  (param_env (fd_params fd) 0) astk h o m e0 F fs Hpc HMS Hout Hem Hlen) as Hx.
    unfold compile_body in body. fold body frc in Hx.
    destruct rb as [c|ex| |].
    + inv He. simpl.
      destruct Hx as [(s1 & m1 & a & Hst1 & Hip1 & Hstk1 & Hm1 & HMS1 & Hext1 & Hout1 & Hfr1) | (h' & o' & m' & a & H1 & H2 & H3 & H4 & H5)].
      * destruct s1 as [ip1 stk1 h1 o1 fr1]; simpl in Hip1, Hstk1, HMS1, Hout1, Hfr1; subst ip1 stk1 fr1.
        exists h1, o1, m1, a. split; [|auto].
        eapply star_trans; [exact H0|]. eapply star_trans; [exact Hst1|].
        eapply star_step; [apply (step_line frc); exact HLN|].
        apply star_one. apply step_ret_frame. exact HRT.
      * exists h', o', m', a. split; [eapply star_trans; eauto | auto].
    + rewrite C1, C2 in He.
      destruct k as [|k']; [rewrite eval_items_O in Eb; discriminate|]. rewrite handlers_nil in He. inv He. simpl.
      destruct Hx as (-> & [(s1 & fip & m1 & fp' & Hst1 & Hrng & Hip1 & Hfr1 & Hrt & (t & top & Hstk1) & Hout1 & HMS1 & Hext1)
                           | (h' & t & m' & H1 & H2 & H3)]); (split; [reflexivity|]).
      * destruct s1 as [ip1 stk1 h1 o1 fr1]; simpl in Hip1, Hstk1, Hout1, Hfr1, Hrt, HMS1; subst stk1 o1 fr1.
        rewrite Htab in Hip1 by lia. subst ip1.
        assert (Hir : is_rethrow prog (S (S (S fa + length body))) = true).
        { unfold is_rethrow. rewrite HLB, HRW. reflexivity. }
        specialize (Hrt Hir). subst fp'.
        destruct (step_rethrow_any prog (S (S (S (S fa + length body)))) (t :: top ++ astk) h1 (out st') (Some ExDivision) F fs HRW)
          as (t1 & Hrw).
        exists h1, t1, m1. split; [|split; [exact HMS1 | exact Hext1]].
        eapply star_trans; [exact H0|]. eapply star_trans; [exact Hst1|].
        eapply star_step; [apply (step_label _ prog (S (S (S fa + length body)))); exact HLB|].
        apply star_one. exact Hrw.
      * exists h', t, m'. split; [eapply star_trans; eauto | auto].
    + inv He. exact I.
    + inv He. exact I.
  - (* catch clauses: no self tail call, the body is compiled like any block *)
    unfold Compile3.func_in_F in Hfok. apply andb_true_iff in Hfok; destruct Hfok as [Hfok1 Hcl].
    rewrite Enc in Hcl. cbn [orb] in Hcl.
    apply andb_true_iff in Hcl; destruct Hcl as [Hcl Hall].
    apply andb_true_iff in Hcl; destruct Hcl as [Hcl Hcs].
    apply andb_true_iff in Hcl; destruct Hcl as [_ Hnst].
    assert (Hbd : body = clause_body FT fd (fd_body fd)).
    { unfold body, clause_body. apply (no_self_tail_body FT fd Hnst). }
    rewrite Hbd in *.
    pose proof (funcs_ok fd Hfd) as Hfok.
    pose proof (clause_block k IHi kidx fd Hk k (fd_body fd) penv st rb st3 (le_n _) Eb HFb prog (S fa) astk h o m cs
                  e0 F fs (conj Hbody Hpo) Hfok Hb HF Hg HMS Hout) as Hx. fold frc in Hx.
    set (cb := clause_body FT fd (fd_body fd)) in *.
    destruct rb as [c|ex| |]; simpl in Hx.
    + inv He. simpl.
      destruct Hx as (s1 & m1 & a & Hst1 & Hip1 & Hstk1 & Hm1 & HMS1 & Hext1 & Hout1 & Hfr1).
      destruct s1 as [ip1 stk1 h1 o1 fr1]; simpl in Hip1, Hstk1, HMS1, Hout1, Hfr1; subst ip1 stk1 fr1.
      exists h1, o1, m1, a. split; [|auto].
      eapply star_trans; [exact H0|]. eapply star_trans; [exact Hst1|].
      eapply star_step; [apply (step_line frc); exact HLN|].
      apply star_one. apply step_ret_frame. exact HRT.
    + destruct Hx as (-> & s1 & fip & m1 & fp' & Hst1 & Hrng & Hip1 & Hfr1 & Hrt & (t & top & Hstk1) & Hout1 & HMS1 & Hext1).
      destruct s1 as [ip1 stk1 h1 o1 fr1]; simpl in Hip1, Hstk1, Hout1, Hfr1, Hrt, HMS1; subst stk1 o1 fr1.
      rewrite Htab in Hip1 by lia. subst ip1.
      assert (Hsegs2 : fsegs FT fd = [body_seg FT fd] ++ tail_segs fd (fd_catches fd)) by reflexivity.
      assert (Hcs' : forall c, In c (fd_catches fd) -> items_F lv (param_names (fd_params fd)) (snd c) = true).
      { intros c Hc. rewrite forallb_forall in Hcs. exact (Hcs c Hc). }
      assert (Hall' : forall b, fd_catch_all fd = Some b -> items_F lv (param_names (fd_params fd)) b = true).
      { intros b Hbq. rewrite Hbq in Hall. exact Hall. }
      assert (Hfp' : fd_catches fd = [] -> fd_catch_all fd = None -> fp' = 0%nat).
      { intros C1 C2. unfold no_catch in Enc. rewrite C1, C2 in Enc. discriminate. }
      pose proof (handlers_run k IHi kidx fd Hk Hfok (fd_catches fd) [body_seg FT fd] Hsegs2 Hcs' Hall' k penv st3 r st'
                    (le_n _) He prog (t :: top) astk h1 (out st3) m1 cs fp' F fs Hpo Hb
                    (Forall2_ext_m _ _ _ _ Hext1 HF)
                    (fun g gd Hgd => match Hg g gd Hgd with ex_intro _ cg (conj Hl Hm) =>
                                       ex_intro _ cg (conj Hl (ext_nth _ _ _ _ Hext1 Hm)) end)
                    HMS1 eq_refl Hfp') as Hrest.
      fold fa in Hrest. cbn [concat] in Hrest. rewrite app_nil_r, Hlenseg in Hrest.
      replace (fa + (length cb + 4))%nat with (S (S (S (S fa + length cb)))) in Hrest by lia.
      fold (act_done prog s0 m r st' F fs).
      eapply act_done_star; [| exact Hext1 | exact Hrest].
      eapply star_trans; [exact H0|]. eapply star_snoc; [exact Hst1|].
      apply (step_label _ prog (S (S (S fa + length cb)))). exact HLB.
    + inv He. exact I.
    + inv He. exact I.
Qed.

(* ---- from the statements at given registers to the general ones ------------------------------ *)

Lemma expr_case_of_at : forall k e, (forall fr, expr_case_at fr k e) -> expr_case k e.
Proof.
  intros k e H env st r st' He sc HF prog pc L ce s m Hc Hip HMS Hout Hem.
  destruct s as [ip stk h o fr]; simpl in Hip, HMS, Hout, Hem; subst pc.
  exact (H fr env st r st' He sc HF prog L ce ip stk h o m Hc HMS Hout Hem).
Qed.

Lemma items_spec_of_at : forall k, (forall fr, items_spec_at fr k) -> items_spec k.
Proof.
  intros k H items env st last r st' He sc HF prog pc L ce s m Hc Hip HMS Hout Hem.
  destruct s as [ip stk h o fr]; simpl in Hip, HMS, Hout, Hem; subst pc.
  exact (H fr items env st last r st' He sc HF prog L ce ip stk h o m Hc HMS Hout Hem).
Qed.

Lemma while_spec_of_at : forall k, (forall fr, while_spec_at fr k) -> while_spec k.
Proof.
  intros k H c b env st r st' He sc Fc Fb prog pc L ce s m Hc Hip HMS Hout Hem.
  destruct s as [ip stk h o fr]; simpl in Hip, HMS, Hout, Hem; subst ip.
  exact (H fr c b env st r st' He sc Fc Fb prog pc L ce stk h o m Hc HMS Hout Hem).
Qed.

Lemma dowhile_spec_of_at : forall k, (forall fr, dowhile_spec_at fr k) -> dowhile_spec k.
Proof.
  intros k H b c env st r st' He sc Fb Fc prog pc L ce s m Hc Hip HMS Hout Hem.
  destruct s as [ip stk h o fr]; simpl in Hip, HMS, Hout, Hem; subst ip.
  exact (H fr b c env st r st' He sc Fb Fc prog pc L ce stk h o m Hc HMS Hout Hem).
Qed.

(* ---- the induction ------------------------------------------------------------------------------ *)

Lemma expr_step : forall k, expr_spec k -> items_spec k -> while_spec (S k) -> dowhile_spec (S k) ->
  body_spec k -> expr_spec (S k).
Proof.
  intros k IHe IHi IHw IHd IHb e. apply expr_case_of_at. intro fr.
  destruct e; try (intros ? ? ? ? ? ? HF; simpl in HF; discriminate HF).
  - apply case_EInt.
  - apply case_EBool.
  - apply case_EVar.
  - apply case_ENeg; assumption.
  - apply case_ENot; assumption.
  - destruct op; try (apply case_EBin; [reflexivity | assumption]).
    + apply case_EAnd; assumption.
    + apply case_EOr; assumption.
  - apply case_ECond; assumption.
  - apply case_EAssign; assumption.
  - destruct e; try (intros ? ? ? ? ? ? HF; cbn [Compile3.in_F] in HF; discriminate HF).
    apply case_ECall; assumption.
  - apply case_EBlock; assumption.
  - apply case_EWhile; assumption.
  - apply case_EDoWhile; assumption.
  - apply case_EFor; assumption.
  - apply case_EPrint; assumption.
Qed.

Lemma tail_step : forall k, expr_spec k -> tail_spec k -> titems_spec k -> body_spec k ->
  expr_spec (S k) -> tail_spec (S k).
Proof.
  intros k IHe IHt IHi IHb IHe' e.
  destruct e; try (apply tcase_other; [apply IHe' | reflexivity]).
  - apply tcase_ECond; assumption.
  - destruct e; try (apply tcase_other; [apply IHe' | reflexivity]).
    apply tcase_ECall; [assumption | assumption | apply IHe'].
  - apply tcase_EBlock; assumption.
Qed.

Lemma spec_all : forall k, expr_spec k /\ items_spec k /\ while_spec k /\ dowhile_spec k /\
                           tail_spec k /\ titems_spec k.
Proof.
  induction k as [|k (IHe & IHi & IHw & IHd & IHt & IHti)].
  - repeat split.
    + intros e env st r st' He. rewrite eval_O in He. inv He. intros; exact I.
    + intros items env st last r st' He. rewrite eval_items_O in He. inv He. intros; exact I.
    + intros c b env st r st' He. rewrite eval_O in He. inv He. intros; exact I.
    + intros b c env st r st' He. rewrite eval_O in He. inv He. intros; exact I.
    + intros e kidx fd Hk env st r st' He. rewrite eval_O in He. inv He. intros; exact I.
    + intros kidx fd Hk items env st last r st' He. rewrite eval_items_O in He. inv He. intros; exact I.
  - assert (IHw' : while_spec (S k)).
    { apply while_spec_of_at. intro fr. apply while_step; assumption. }
    assert (IHd' : dowhile_spec (S k)).
    { apply dowhile_spec_of_at. intro fr. apply dowhile_step; assumption. }
    pose proof (body_of_specs k IHi IHti) as IHb.
    assert (IHe' : expr_spec (S k)) by (apply expr_step; assumption).
    split; [exact IHe'|]. split; [apply items_spec_of_at; intro fr; apply items_step; assumption|].
    split; [exact IHw'|]. split; [exact IHd'|].
    split; [apply tail_step; assumption | apply titems_step; assumption].
Qed.

Lemma body_all : forall k, body_spec k.
Proof. intros k. apply body_of_specs; apply (spec_all k). Qed.

(* ---- compile_expr_correct on the machine with frames ------------------------------------------- *)

Theorem compile_expr_correct_frames : forall fuel e env st r st' sc,
  eval genv fuel env st e = (r, st') -> in_F lv sc e = true ->
  forall prog pc L ce s m,
    pcode_at prog pc (compile_expr L ce e) -> v_ip s = pc ->
    MS m st (v_heap s) -> v_out s = out st -> env_match m env ce sc L (v_stk s) ->
    match r with
    | ROk c =>
      exists s' m' a, star prog s s' /\ v_ip s' = (pc + length (compile_expr L ce e))%nat /\
        v_stk s' = a :: v_stk s /\ nth_error m' c = Some (MA a) /\
        MS m' st' (v_heap s') /\ ext m m' /\ v_out s' = out st' /\ v_fr s' = v_fr s
    | RExc ex =>
      ex = ExDivision /\
      exists s' fip m' fp', star prog s s' /\ (pc <= fip < pc + length (compile_expr L ce e))%nat /\
        v_ip s' = hsearch (x_tab X) fip 0 /\ v_fr s' = set_exc (set_fp (v_fr s) fp') ExDivision /\
        (is_rethrow prog (v_ip s') = true -> fp' = r_fp (v_fr s)) /\
        (exists t top, v_stk s' = t :: top ++ v_stk s) /\ v_out s' = out st' /\
        MS m' st' (v_heap s') /\ ext m m'
    | _ => True
    end.
Proof.
  intros fuel e env st r st' sc He HF prog pc L ce s m Hc Hip HMS Hout Hem.
  exact (proj1 (spec_all fuel) e env st r st' He sc HF prog pc L ce s m Hc Hip HMS Hout Hem).
Qed.

End Correct.
