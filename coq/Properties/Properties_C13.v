(* C13 — self tail calls run in constant stack.
   "A function whose recursive call to itself is in tail position (directly, or through a
    conditional, block, match arm or if-let) can iterate any number of times without the VM
    stack growing: the peak stack depth is independent of the iteration count and the result
    equals that of the equivalent loop."

   Only statements here; every proof is `exact <lemma>` into Verifier/TailConst.v (VM side, a
   corollary of C07's verify_depth, instantiated: no hypothesis left) and Src/Tailrec.v
   (model of front/tailrec.c).  The tie to /repo is checks/c13.py: the generated family is
   run on the real VM at N and 10N (peak sp against the bound computed from the extracted
   verifier's MAXDEPTH), the set of SLIDE;CALL sites of the emitted code is compared with
   `tail_calls` of the extracted model, and results are compared with the equivalent loop.
   Result equality in general is C02. *)
From Coq Require Import ZArith NArith List Arith Bool Lia.
From NV Require Import Gen.Opcodes Verifier.Shape Verifier.Effect Verifier.Verify
  Verifier.TailConst Src.Syntax Src.Tailrec.
Import ListNotations.

(* ------------------------------------------------------------------ VM side *)

(* A CALL taken with F = P (no MARK open: the `SLIDE; CALL` of expr_last_call_emit) keeps P and
   F, pushes no header, leaves above P exactly the callee's parameters and does not touch the
   suspended frames below P. *)
Theorem tail_call_keeps_frame :
  forall code handler np is_entry entry s ip' len' s',
    Shape.step code handler np is_entry entry s ip' len' = Next s' ->
    tail_transfer code is_entry s ip' len' = true ->
    P s' = P s /\ F s' = F s /\ length (stk s') = P s + np ip' /\
    ip s' = ip' /\ cur s' = ip' /\
    stk s' = firstn (P s + np ip') (stk s) /\ firstn (P s) (stk s') = firstn (P s) (stk s).
Proof. exact TailConst.tail_call_keeps_frame. Qed.
Print Assumptions tail_call_keeps_frame.

(* In an accepted module, along every observation sequence, the running frame is at most
   M = maxdepth slots and its base is at most M times the number of non-tail calls currently
   open (taken, not yet returned from).  Tail transfers do not count. *)
Theorem stack_bounded_by_open_calls :
  forall prog exct metas entry certs,
    check_all prog exct metas entry certs = true ->
    forall obs s,
      run (code prog) (handler exct) (np metas) (is_entry metas) entry init obs = Next s ->
      length (stk s) <= P s + maxdepth metas certs /\
      P s <= maxdepth metas certs *
             open_calls (code prog) (handler exct) (np metas) (is_entry metas) entry init 0 obs.
Proof. exact TailConst.stack_bounded_by_open_calls. Qed.
Print Assumptions stack_bounded_by_open_calls.

Theorem stack_bounded_by_nontail_calls :
  forall prog exct metas entry certs,
    check_all prog exct metas entry certs = true ->
    forall obs s,
      run (code prog) (handler exct) (np metas) (is_entry metas) entry init obs = Next s ->
      length (stk s) <= P s + maxdepth metas certs /\
      P s <= (maxdepth metas certs + 5) *
             nontail_calls (code prog) (handler exct) (np metas) (is_entry metas) entry init obs.
Proof. exact TailConst.stack_bounded_by_nontail_calls. Qed.
Print Assumptions stack_bounded_by_nontail_calls.

(* The peak stack of a run depends on its non-tail calls only: at most k of them and ANY number
   of tail transfers give at most (k+1)*(M+5) slots: independent of the iteration count. *)
Theorem tail_call_constant_stack :
  forall prog exct metas entry certs,
    check_all prog exct metas entry certs = true ->
    forall obs s k,
      run (code prog) (handler exct) (np metas) (is_entry metas) entry init obs = Next s ->
      nontail_calls (code prog) (handler exct) (np metas) (is_entry metas) entry init obs <= k ->
      length (stk s) <= (k + 1) * (maxdepth metas certs + 5).
Proof. exact TailConst.tail_call_constant_stack. Qed.
Print Assumptions tail_call_constant_stack.

Theorem tail_call_constant_stack_open :
  forall prog exct metas entry certs,
    check_all prog exct metas entry certs = true ->
    forall obs s,
      run (code prog) (handler exct) (np metas) (is_entry metas) entry init obs = Next s ->
      length (stk s) <=
      (open_calls (code prog) (handler exct) (np metas) (is_entry metas) entry init 0 obs + 1) *
      maxdepth metas certs.
Proof. exact TailConst.tail_call_constant_stack_open. Qed.
Print Assumptions tail_call_constant_stack_open.

(* ------------------------------------------------------------------ source side *)

(* every call front/tailrec.c marks is a call of the enclosing function by its own un-shadowed
   name at a syntactic tail position -- or inside the callee expression of such a call
   (`f(a)(b)` in f; needs ret(f) = (B) -> ret(f), which no Never type satisfies) *)
Theorem tailrec_marks_characterised :
  forall fd p, In p (tail_calls fd) ->
    SelfCallAt fd p /\ (TailPos (tf_body fd) p \/ through_callee (tf_body fd) p).
Proof. exact Tailrec.tailrec_marks_characterised. Qed.
Print Assumptions tailrec_marks_characterised.

Theorem tailrec_marks_only_tail_positions :
  forall fd p, In p (tail_calls fd) -> ~ through_callee (tf_body fd) p ->
    SelfCallAt fd p /\ TailPos (tf_body fd) p.
Proof. exact Tailrec.tailrec_marks_only_tail_positions. Qed.
Print Assumptions tailrec_marks_only_tail_positions.

(* no tail-position self call (callee = the bare, un-shadowed name) is missed; skipped by the C
   code although in tail position: callees that are not a bare identifier, e.g. `(f)(x)` *)
Theorem tailrec_marks_all_direct_tail_self_calls :
  forall fd p, TailPos (tf_body fd) p -> SelfCallAt fd p -> In p (tail_calls fd).
Proof. exact Tailrec.tailrec_marks_all_direct_tail_self_calls. Qed.
Print Assumptions tailrec_marks_all_direct_tail_self_calls.

(* catch clauses: the body is analysed all the same, the clauses themselves never *)
Theorem tailrec_ignores_catch_clauses :
  forall fd cs,
    tail_calls {| tf_name := tf_name fd; tf_params := tf_params fd; tf_body := tf_body fd; tf_catches := cs |}
    = tail_calls fd.
Proof. exact Tailrec.tailrec_ignores_catch_clauses. Qed.
Print Assumptions tailrec_ignores_catch_clauses.

(* ------------------------------------------------------------------ examples *)

(* func loop(n, acc) -> int { if (n == 0) { acc } else { loop(n - 1, acc + n) } }   (loop = 1) *)
Definition ex_loop : tfdef :=
  {| tf_name := Some 1%N; tf_params := [2%N; 3%N];
     tf_body := TSeq [TExprItem (TCond (TOp [TId 2%N; TLeaf])
                        (TSeq [TExprItem (TId 3%N)])
                        (TSeq [TExprItem (TCall (TId 1%N) [TOp [TId 2%N; TLeaf]; TOp [TId 3%N; TId 2%N]])]))];
     tf_catches := [] |}.
Example ex_loop_marks : tail_calls ex_loop = [[0; 2; 0]].
Proof. reflexivity. Qed.

(* n == 0 ? acc : n + loop(n - 1, acc): the call is an operand: not marked *)
Example ex_nontail_marks :
  tail_calls {| tf_name := Some 1%N; tf_params := [2%N; 3%N];
                tf_body := TSeq [TExprItem (TCond (TOp [TId 2%N; TLeaf]) (TId 3%N)
                                   (TOp [TId 2%N; TCall (TId 1%N) [TOp [TId 2%N; TLeaf]; TId 3%N]]))];
                tf_catches := [] |} = [].
Proof. reflexivity. Qed.

(* match e { A -> loop(..); B(x) -> { let d = ..; loop(..) }; C(loop) -> loop(..) }  and the
   scrutinee: arms are tail positions (under their pattern bindings), the scrutinee is not *)
Example ex_match_marks :
  tail_calls {| tf_name := Some 1%N; tf_params := [2%N];
                tf_body := TSeq [TExprItem (TMatch (TCall (TId 1%N) [TId 2%N])
                              [TArm [] (TCall (TId 1%N) [TLeaf]);
                               TArm [5%N] (TSeq [TBind 6%N TLeaf; TExprItem (TCall (TId 1%N) [TId 6%N])]);
                               TArm [1%N] (TCall (TId 1%N) [TLeaf])])];
                tf_catches := [TCall (TId 1%N) [TLeaf]] |} = [[0; 1]; [0; 2; 1]].
Proof. reflexivity. Qed.

(* if let (Some(v) = o) loop(v) else (loop)(0): then-branch marked, `(loop)(0)` skipped *)
Example ex_iflet_marks :
  tail_calls {| tf_name := Some 1%N; tf_params := [2%N];
                tf_body := TSeq [TExprItem (TIfLet [7%N] (TId 2%N) (TCall (TId 1%N) [TId 7%N])
                                                  (TCall (TSup (TId 1%N)) [TLeaf]))];
                tf_catches := [] |} = [[0; 1]].
Proof. reflexivity. Qed.

(* a small accepted module with a tail loop (shape of what emit.c produces for
     func loop(n, acc) -> int { n == 0 ? acc : loop(n - 1, acc + n) }  called from the entry stub):
   0 GLOBAL_VEC 0; 1 ID_FUNC_ADDR 9; 2 MARK 6; 3 PUSH_PARAM; 4 ID_TOP 0; 5 CALL; 6 LABEL; 7 HALT;
   8 UNHANDLED_EXCEPTION;
   9 FUNC_DEF; 10 ID_LOCAL; 11 JUMPZ 17; 12 ID_LOCAL; 13 ID_LOCAL; 14 ID_TOP 0; 15 SLIDE 2 3; 16 CALL;
   17 LABEL; 18 ID_LOCAL; 19 RET; 20 LABEL; 21 RETHROW *)
Definition I (o : opcode) (w0 w1 : Z) : rinstr := {| r_op := o; r_w0 := w0; r_w1 := w1; r_w2 := 0 |}.
Definition tl_prog : list rinstr :=
  [ I BYTECODE_GLOBAL_VEC 0 0; I BYTECODE_ID_FUNC_ADDR 9 0; I BYTECODE_MARK 6 0; I BYTECODE_PUSH_PARAM 0 0;
    I BYTECODE_ID_TOP 0 0; I BYTECODE_CALL 0 0; I BYTECODE_LABEL 0 0; I BYTECODE_HALT 0 0;
    I BYTECODE_UNHANDLED_EXCEPTION 0 0;
    I BYTECODE_FUNC_DEF 0 0; I BYTECODE_ID_LOCAL 0 0; I BYTECODE_JUMPZ 5 0; I BYTECODE_ID_LOCAL 0 (-1);
    I BYTECODE_ID_LOCAL 1 0; I BYTECODE_ID_TOP 0 0; I BYTECODE_SLIDE 2 3; I BYTECODE_CALL 0 0;
    I BYTECODE_LABEL 0 0; I BYTECODE_ID_LOCAL 0 (-1); I BYTECODE_RET 0 0; I BYTECODE_LABEL 0 0;
    I BYTECODE_RETHROW 0 0 ]%Z.
Definition tl_exct : list (nat * nat) := [(0, 8); (9, 20)].
Definition tl_metas : list fmeta := [ {| m_addr := 9; m_np := 2; m_ffi := false |} ].
Definition tl_certs : list acert :=
  [ CNorm 0 0 []; CNorm 0 1 []; CNorm 0 1 []; CNorm 0 6 [1]; CNorm 0 8 [1]; CNorm 0 9 [1];
    CNorm 0 2 []; CNorm 0 2 []; CExc 0;
    CNorm 9 0 []; CNorm 9 0 []; CNorm 9 1 []; CNorm 9 0 []; CNorm 9 1 []; CNorm 9 2 []; CNorm 9 3 [];
    CNorm 9 1 []; CNorm 9 0 []; CNorm 9 0 []; CNorm 9 1 []; CExc 9; CExc 9 ].

Example tl_accepted : check_all tl_prog tl_exct tl_metas 9 tl_certs = true.
Proof. vm_compute. reflexivity. Qed.

Example tl_maxdepth : maxdepth tl_metas tl_certs = 9.
Proof. vm_compute. reflexivity. Qed.

(* one iteration of the loop as seen by the hook: (ip, sp+1) after each instruction *)
Definition tl_iter : list (nat * nat) := [(10,8); (11,9); (12,8); (13,9); (14,10); (15,11); (16,9); (9,8)].
Definition tl_obs (n : nat) : list (nat * nat) :=
  [(1,1); (2,1); (3,6); (4,8); (5,9); (9,8)] ++ concat (repeat tl_iter n) ++
  [(10,8); (11,9); (17,8); (18,8); (19,9); (6,2); (7,2)].

Notation tl_run := (run (code tl_prog) (handler tl_exct) (np tl_metas) (is_entry tl_metas) 9 init).

(* 300 iterations: 300 tail transfers, one non-tail call, and the run ends with 2 slots *)
Example tl_run_300 :
  (match tl_run (tl_obs 300) with Next s => Some (ip s, length (stk s), P s) | _ => None end) = Some (7, 2, 0) /\
  tail_transfers (code tl_prog) (handler tl_exct) (np tl_metas) (is_entry tl_metas) 9 init (tl_obs 300) = 300 /\
  nontail_calls (code tl_prog) (handler tl_exct) (np tl_metas) (is_entry tl_metas) 9 init (tl_obs 300) = 1.
Proof. vm_compute. auto. Qed.

(* whatever the number of iterations (and whatever else the environment observes), the stack of
   this module never exceeds (open calls + 1) * 9 slots *)
Example tl_bounded :
  forall obs s, tl_run obs = Next s ->
    length (stk s) <= (open_calls (code tl_prog) (handler tl_exct) (np tl_metas) (is_entry tl_metas) 9 init 0 obs + 1) * 9.
Proof.
  intros obs s H.
  exact (tail_call_constant_stack_open tl_prog tl_exct tl_metas 9 tl_certs tl_accepted obs s H).
Qed.
