(* VM/ValueVM.v — a VALUE-LEVEL small-step semantics of the stack VM of /repo/back/vmexec.c for
   exactly the opcodes that the code of the compiled core fragment uses (Src/Compile.v).
   Definitions only (the theorems are in Src/CompileCorrect*.v); `run` is executable and is
   extracted (Extract/ExtractCompile.v) so that the harness can run it against the real VM.

   State.  One activation of a function body is modelled:
     v_ip     instruction pointer (index into the module's code array)
     v_stk    the part of the real stack ABOVE pp, top first: temporaries and let/var slots,
              then the parameters (first parameter nearest to the top, as `MARK; args right to
              left; CALL` leaves them).  Every slot holds a heap address (GC_MEM_ADDR).
     v_heap   the cell table: address -> 32-bit int payload (OBJECT_INT; bool is int 0/1).
              gc_alloc_int returns a FRESH cell: the model allocates at `length v_heap`
              (the collector is outside this model — C04/C09 treat it).
     v_out    numbers printed so far, most recent first.

   Handlers mirrored (back/vmexec.c):
     vm_execute_int            push a fresh cell holding the operand
     vm_execute_id_local       push stack[sp - (stack_level - index)]  — the SAME address
     vm_execute_op_neg_int, vm_execute_op_not_int            replace top by a fresh cell
     vm_execute_op_{add,sub,mul,lt,gt,lte,gte,eq,neq}_int,
     vm_execute_op_bin_{and,or,xor,shl,shr}_int              a = stack[sp-1], b = stack[sp];
                                                              fresh cell at sp-1; sp--
     vm_execute_op_{div,mod}_int   b == 0: running = VM_EXCEPTION, exception = DIVISION, nothing
                                   popped;  b == -1: -a resp. 0 (no idiv trap)
     vm_execute_op_ass_int     payload of stack[sp] copied into the cell stack[sp-1]; sp--
     vm_execute_jumpz          pops; ip += offset if the payload is 0   (ip already incremented:
     vm_execute_jump           target = addr + offset + 1)
     vm_execute_label/line/func_def   no effect on the modelled state (LINE sets line_no, which
                               only feeds error messages)
     vm_execute_slide {q,m}    q == 0: nothing; m == 0: sp -= q; else the top m slots are moved
                               down over the q slots below them
     vm_execute_ret            the top of the stack is the activation's result (SRet)
   Stage 2 (print): the call `print(e)` is emitted as  LINE; MARK ret; e; GLOBAL_VEC 0;
   ID_FUNC_ADDR <print>; CALL; ret: LABEL  where <print> is the stdlib function
   `FUNC_DEF; ID_LOCAL 0 0; BUILD_IN print; RET` of the global prelude.  The model executes
     vm_execute_mark           five header slots are pushed (saved pp, line, gp, fp, return ip);
                               only the return ip is modelled (the others are restored by RET
                               and never read by the code of the fragment), as a plain number in
                               the slot; the operand is RELATIVE to the MARK's own address in the
                               model (the real operand is absolute: the tie relocates it)
     vm_execute_global_vec 0   push a fresh (empty vector) cell
     vm_execute_id_func_addr   replace it by a fresh function cell whose payload is the code
                               address of the function
     vm_execute_call           ONLY for the function at `print_addr`: the callee's four
                               instructions and its RET are ONE abstract step — the payload of
                               the argument is printed, a fresh cell with that payload replaces
                               header, argument and function value, ip = the saved return ip.
                               Any other callee is SStuck (calls are stage 3).
   int arithmetic is 32-bit two's complement (`wrap32` of Src/Eval.v); the shift handlers use
   the count modulo 32 (x86 `shl/sar`; C leaves other counts undefined).

   No axioms. *)
From Coq Require Import ZArith List Bool Lia.
From NV Require Import Gen.Opcodes Verifier.Effect Src.Syntax Src.Eval.
Import ListNotations.
Local Open Scope Z_scope.

Record vstate := {
  v_ip : nat;
  v_stk : list nat;
  v_heap : list Z;
  v_out : list Z
}.

Inductive sres :=
| SNext (s : vstate)
| SExc (e : exn) (s : vstate)       (* the handler set running = VM_EXCEPTION *)
| SRet (a : nat) (s : vstate)       (* RET: a = the result slot *)
| SStuck.                           (* outside the modelled behaviour *)

Definition b2z (b : bool) : Z := if b then 1 else 0.

Inductive bres := BVal (z : Z) | BDivZero.

(* the binary int handlers: a = stack[sp-1], b = stack[sp] *)
Definition vm_binop (o : opcode) (a b : Z) : option bres :=
  match o with
  | BYTECODE_OP_ADD_INT => Some (BVal (wrap32 (a + b)))
  | BYTECODE_OP_SUB_INT => Some (BVal (wrap32 (a - b)))
  | BYTECODE_OP_MUL_INT => Some (BVal (wrap32 (a * b)))
  | BYTECODE_OP_DIV_INT =>
      Some (if b =? 0 then BDivZero
            else BVal (if b =? -1 then wrap32 (- a) else wrap32 (Z.quot a b)))
  | BYTECODE_OP_MOD_INT =>
      Some (if b =? 0 then BDivZero
            else BVal (if b =? -1 then 0 else wrap32 (Z.rem a b)))
  | BYTECODE_OP_LT_INT => Some (BVal (b2z (a <? b)))
  | BYTECODE_OP_GT_INT => Some (BVal (b2z (b <? a)))
  | BYTECODE_OP_LTE_INT => Some (BVal (b2z (a <=? b)))
  | BYTECODE_OP_GTE_INT => Some (BVal (b2z (b <=? a)))
  | BYTECODE_OP_EQ_INT => Some (BVal (b2z (a =? b)))
  | BYTECODE_OP_NEQ_INT => Some (BVal (b2z (negb (a =? b))))
  | BYTECODE_OP_BIN_AND_INT => Some (BVal (wrap32 (Z.land a b)))
  | BYTECODE_OP_BIN_OR_INT => Some (BVal (wrap32 (Z.lor a b)))
  | BYTECODE_OP_BIN_XOR_INT => Some (BVal (wrap32 (Z.lxor a b)))
  | BYTECODE_OP_BIN_SHL_INT => Some (BVal (wrap32 (Z.shiftl a (b mod 32))))
  | BYTECODE_OP_BIN_SHR_INT => Some (BVal (wrap32 (Z.shiftr a (b mod 32))))
  | _ => None
  end.

Definition vm_unop (o : opcode) (a : Z) : option Z :=
  match o with
  | BYTECODE_OP_NEG_INT => Some (wrap32 (- a))
  | BYTECODE_OP_NOT_INT => Some (b2z (a =? 0))
  | _ => None
  end.

Definition jump_target (ip : nat) (off : Z) : option nat :=
  let t := Z.of_nat ip + 1 + off in
  if t <? 0 then None else Some (Z.to_nat t).

(* code address of the stdlib function `print` in the real module's prelude (the tie compares it
   with the `F` line of the dump; it changes only if front/libmath.c's function list changes) *)
Definition print_addr : Z := 215.

Definition mkst (ip : nat) (stk : list nat) (h : list Z) (o : list Z) : vstate :=
  {| v_ip := ip; v_stk := stk; v_heap := h; v_out := o |}.

Definition step (prog : list rinstr) (s : vstate) : sres :=
  match nth_error prog (v_ip s) with
  | None => SStuck
  | Some i =>
    let next := S (v_ip s) in
    let stk := v_stk s in
    let h := v_heap s in
    let o := v_out s in
    match r_op i with
    | BYTECODE_INT => SNext (mkst next (length h :: stk) (h ++ [r_w0 i]) o)
    | BYTECODE_ID_LOCAL =>
        match zn (r_w0 i - r_w1 i) with
        | Some k => match nth_error stk k with
                    | Some a => SNext (mkst next (a :: stk) h o)
                    | None => SStuck end
        | None => SStuck end
    | BYTECODE_OP_NEG_INT | BYTECODE_OP_NOT_INT =>
        match stk with
        | a :: rest =>
          match nth_error h a with
          | Some z => match vm_unop (r_op i) z with
                      | Some v => SNext (mkst next (length h :: rest) (h ++ [v]) o)
                      | None => SStuck end
          | None => SStuck end
        | _ => SStuck end
    | BYTECODE_OP_ADD_INT | BYTECODE_OP_SUB_INT | BYTECODE_OP_MUL_INT
    | BYTECODE_OP_DIV_INT | BYTECODE_OP_MOD_INT
    | BYTECODE_OP_LT_INT | BYTECODE_OP_GT_INT | BYTECODE_OP_LTE_INT | BYTECODE_OP_GTE_INT
    | BYTECODE_OP_EQ_INT | BYTECODE_OP_NEQ_INT
    | BYTECODE_OP_BIN_AND_INT | BYTECODE_OP_BIN_OR_INT | BYTECODE_OP_BIN_XOR_INT
    | BYTECODE_OP_BIN_SHL_INT | BYTECODE_OP_BIN_SHR_INT =>
        match stk with
        | ab :: aa :: rest =>
          match nth_error h aa, nth_error h ab with
          | Some za, Some zb =>
            match vm_binop (r_op i) za zb with
            | Some (BVal v) => SNext (mkst next (length h :: rest) (h ++ [v]) o)
            | Some BDivZero => SExc ExDivision s
            | None => SStuck end
          | _, _ => SStuck end
        | _ => SStuck end
    | BYTECODE_OP_ASS_INT =>
        match stk with
        | ar :: al :: rest =>
          match nth_error h ar with
          | Some z => if Nat.ltb al (length h)
                      then SNext (mkst next (al :: rest) (list_upd h al z) o)
                      else SStuck
          | None => SStuck end
        | _ => SStuck end
    | BYTECODE_JUMPZ =>
        match stk with
        | a :: rest =>
          match nth_error h a with
          | Some z =>
            if z =? 0 then
              match jump_target (v_ip s) (r_w0 i) with
              | Some t => SNext (mkst t rest h o)
              | None => SStuck end
            else SNext (mkst next rest h o)
          | None => SStuck end
        | _ => SStuck end
    | BYTECODE_JUMP =>
        match jump_target (v_ip s) (r_w0 i) with
        | Some t => SNext (mkst t stk h o)
        | None => SStuck end
    | BYTECODE_LABEL | BYTECODE_LINE | BYTECODE_FUNC_DEF => SNext (mkst next stk h o)
    | BYTECODE_SLIDE =>
        match zn (r_w0 i), zn (r_w1 i) with
        | Some q, Some m =>
          if Nat.eqb q 0 then SNext (mkst next stk h o)
          else if Nat.leb (q + m) (length stk)
               then SNext (mkst next (firstn m stk ++ skipn (m + q) stk) h o)
               else SStuck
        | _, _ => SStuck end
    | BYTECODE_RET =>
        match stk with
        | a :: _ => SRet a s
        | _ => SStuck end
    | BYTECODE_MARK =>
        let t := Z.of_nat (v_ip s) + r_w0 i in
        if t <? 0 then SStuck
        else SNext (mkst next (Z.to_nat t :: 0%nat :: 0%nat :: 0%nat :: 0%nat :: stk) h o)
    | BYTECODE_GLOBAL_VEC =>
        if r_w0 i =? 0 then SNext (mkst next (length h :: stk) (h ++ [0]) o) else SStuck
    | BYTECODE_ID_FUNC_ADDR =>
        match stk with
        | _ :: rest => SNext (mkst next (length h :: rest) (h ++ [r_w0 i]) o)
        | _ => SStuck end
    | BYTECODE_CALL =>
        match stk with
        | f :: arg :: ret :: _ :: _ :: _ :: _ :: rest =>
          match nth_error h f, nth_error h arg with
          | Some fa, Some z =>
            if fa =? print_addr
            then SNext (mkst ret (length h :: rest) (h ++ [z]) (z :: o))
            else SStuck
          | _, _ => SStuck end
        | _ => SStuck end
    | _ => SStuck
    end
  end.

(* ---- execution ------------------------------------------------------------------------ *)

Inductive star (prog : list rinstr) : vstate -> vstate -> Prop :=
| star_refl : forall s, star prog s s
| star_step : forall s s1 s2, step prog s = SNext s1 -> star prog s1 s2 -> star prog s s2.

Inductive vres :=
| VRet (payload : Z) (printed : list Z)      (* the activation returned a cell with this payload *)
| VExc (e : exn) (printed : list Z)          (* a handler raised e *)
| VFuel
| VStuck.

Fixpoint run (prog : list rinstr) (fuel : nat) (s : vstate) : vres :=
  match fuel with
  | O => VFuel
  | S k =>
    match step prog s with
    | SNext s' => run prog k s'
    | SExc e s' => VExc e (rev (v_out s'))
    | SRet a s' => match nth_error (v_heap s') a with
                   | Some z => VRet z (rev (v_out s'))
                   | None => VStuck end
    | SStuck => VStuck
    end
  end.

(* entering a function whose code starts at `entry` with int arguments (source order): the
   arguments are boxed into fresh cells; the first argument is nearest to the top *)
Definition entry_state (entry : nat) (args : list Z) : vstate :=
  mkst entry (seq 0 (length args)) (map wrap32 args) [].

Definition run_func (prog : list rinstr) (entry : nat) (fuel : nat) (args : list Z) : vres :=
  run prog fuel (entry_state entry args).
