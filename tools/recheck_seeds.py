#!/usr/bin/env python3
"""tools/recheck_seeds.py <list-file> [parallel] : regression run of kept seeds — for each line `<seed> <property> <check>`
apply seeded/<seed>/patch.diff to a scratch copy of /repo's current tree (tools/try_seed.sh: private copy of the
framework) and run <check> (quick tier); record the result in seeded/<seed>/meta.json ("ran")."""
import json, os, re, subprocess, sys, time
from concurrent.futures import ThreadPoolExecutor
VERIF = os.path.dirname(os.path.dirname(os.path.abspath(__file__)))
HEAD = subprocess.run(["git", "-C", "/repo", "rev-parse", "--short", "HEAD"], capture_output=True, text=True).stdout.strip()

def one(line):
    seed, prop, chk = line.split()[:3]
    d = os.path.join(VERIF, "seeded", seed)
    t = time.time()
    p = subprocess.run([os.path.join(VERIF, "tools", "try_seed.sh"), os.path.join(d, "patch.diff"), chk],
                       capture_output=True, text=True, errors="replace", timeout=3000)
    out = p.stdout + p.stderr
    m = re.search(r"== %s rc=(\d+)" % chk, out)
    rc = int(m.group(1)) if m else -1
    lines = [l[:300] for l in out.splitlines() if l.startswith("VIOLATION")]
    caught = rc == 1 and bool(lines)
    concrete = any("no-failing-input-found" not in l for l in lines)
    applies = "PATCH DOES NOT APPLY" not in out
    mp = os.path.join(d, "meta.json")
    meta = json.load(open(mp))
    if applies and rc in (0, 1):
        meta["ran"] = [r for r in meta.get("ran", []) if r["check"] != chk] + [{
            "check": chk, "tier": "quick", "exit": rc, "caught": caught, "with_concrete_input": concrete,
            "wall_s": round(time.time() - t, 1), "lines": lines[:3], "repo_commit_when_run": HEAD, "by": "recheck"}]
        meta["repo_commit_when_run"] = HEAD
        json.dump(meta, open(mp, "w"), indent=1)
    return seed, chk, rc, caught, concrete, applies

def main():
    lines = [l for l in open(sys.argv[1]) if l.strip()]
    par = int(sys.argv[2]) if len(sys.argv) > 2 else 4
    with ThreadPoolExecutor(par) as ex:
        for seed, chk, rc, caught, concrete, applies in ex.map(one, lines):
            print(seed, chk, "rc=%d" % rc, "caught" if caught else ("NOT-APPLICABLE" if not applies else "MISSED"),
                  "(concrete)" if concrete else "", flush=True)

if __name__ == "__main__":
    main()
