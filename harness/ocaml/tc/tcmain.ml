(* tcmain — driver of the C06 harness.

     run gen SEED NPROG KCAP NMATCH OUT
        writes to OUT one JSON object per line:
          {"id","group","kind":"base"|"mutant","op","ctx","model":"OK"|"E<rule id>",
           "l0","l1" (first/last line of the mutated node, 0 if none),"src"}
        for NPROG generated programs (the model must say OK), for at most KCAP model-rejected
        mutants per (operator, context) of each program, for the text-level mutants (unknown
        exception name) and for NMATCH enum/match template groups.
     run mcheck FILE      one else-less/else match per line (`n k1 k2 .. [else]`): the model's verdict
                          (Tcmodel.match_check) for the text-level match families of checks/c06.py
     run show SEED I      prints program I (debugging)                                        *)
open Tcmodel
open Conv

let json_str s =
  let b = Buffer.create (String.length s + 16) in
  Buffer.add_char b '"';
  String.iter (fun c -> match c with
      | '"' -> Buffer.add_string b "\\\"" | '\\' -> Buffer.add_string b "\\\\"
      | '\n' -> Buffer.add_string b "\\n" | '\t' -> Buffer.add_string b "\\t"
      | c when Char.code c < 32 -> Buffer.add_string b (Printf.sprintf "\\u%04x" (Char.code c))
      | c -> Buffer.add_char b c) s;
  Buffer.add_char b '"'; Buffer.contents b

let model_str = function OK -> "OK" | Error r -> "E" ^ string_of_int (int_of_nat (rule_id r))

let emit oc ~id ~group ~kind ~op ~ctx ~model ~l0 ~l1 ~src =
  Printf.fprintf oc "{\"id\":%s,\"group\":%s,\"kind\":%s,\"op\":%s,\"ctx\":%s,\"model\":%s,\"l0\":%d,\"l1\":%d,\"src\":%s}\n"
    (json_str id) (json_str group) (json_str kind) (json_str op) (json_str ctx) (json_str model) l0 l1 (json_str src)

(* ---- generated programs and their mutants ---------------------------------------------------- *)
let replace_first (s : string) (sub : string) (by : string) (from : int) : string option =
  let n = String.length s and m = String.length sub in
  let rec find i = if i + m > n then None else if String.sub s i m = sub then Some i else find (i + 1) in
  match find from with
  | None -> None
  | Some i -> Some (String.sub s 0 i ^ by ^ String.sub s (i + m) (n - i - m))

let line_offset (s : string) (line : int) : int =
  (* offset of the first character of 1-based line *)
  let rec go i l = if l = line then i else match String.index_from_opt s i '\n' with Some j -> go (j + 1) (l + 1) | None -> String.length s in
  go 0 1

let do_program oc seed kcap i =
  let rng = Rng.derive seed i in
  let prog = Tgen.gen_program rng in
  let group = Printf.sprintf "p%d" i in
  let (src, _, catches) = Pp.print_watch prog None None in
  let m = tc_program prog in
  emit oc ~id:(group ^ ".base") ~group ~kind:"base" ~op:"-" ~ctx:"-" ~model:(model_str m) ~l0:0 ~l1:0 ~src;
  if m = OK then begin
    let st = { Tgen.rng = Rng.derive seed (1000003 + i); next = 950; recs = List.map (fun (r, fs) -> (int_of_n r, fs)) prog.p_recs; fdepth = 0 } in
    let cands = Tmut.all_candidates st prog in
    (* group by (op, ctx), shuffle, take until kcap model-rejected ones *)
    let tbl = Hashtbl.create 64 in
    List.iter (fun (c : Tmut.cand) ->
        let key = (c.op, c.ctx) in
        Hashtbl.replace tbl key (c :: (try Hashtbl.find tbl key with Not_found -> []))) cands;
    let keys = List.sort compare (Hashtbl.fold (fun k _ acc -> k :: acc) tbl []) in
    let n = ref 0 in
    List.iter (fun key ->
        let l = Rng.shuffle rng (List.rev (Hashtbl.find tbl key)) in
        let taken = ref 0 in
        List.iter (fun (c : Tmut.cand) ->
            if !taken < kcap then begin
              let mm = tc_program c.prog in
              if mm <> OK then begin
                incr taken; incr n;
                let (we, wi) = (match c.w with Tmut.WE e -> (Some e, None) | Tmut.WI it -> (None, Some it)) in
                let (s, h, _) = Pp.print_watch c.prog we wi in
                let (l0, l1) = (match h with Some (a, b) -> (a, b) | None -> (0, 0)) in
                emit oc ~id:(Printf.sprintf "%s.m%d" group !n) ~group ~kind:"mutant" ~op:c.op ~ctx:c.ctx
                  ~model:(model_str mm) ~l0 ~l1 ~src:s
              end
            end) l) keys;
    (* text level: unknown exception name, at most 2 clauses per program *)
    List.iteri (fun j (line, name) ->
        if j < 2 then begin
          let off = line_offset src line in
          match replace_first src ("catch (" ^ name ^ ")") "catch (no_such_exception)" off with
          | Some s ->
            incr n;
            emit oc ~id:(Printf.sprintf "%s.m%d" group !n) ~group ~kind:"mutant" ~op:"UnknownException" ~ctx:"catch-header"
              ~model:(model_str (catch_name_check (nat_of_int 9))) ~l0:line ~l1:line ~src:s
          | None -> ()
        end) (Rng.shuffle rng catches)
  end

(* ---- enum / match templates ------------------------------------------------------------------- *)
let match_text (arms : guard list) (scrut : string) (ind : string) : string list =
  (* the lines of a match expression; line 0 carries the `match` keyword *)
  [ ind ^ "match " ^ scrut; ind ^ "{" ]
  @ List.map (fun g -> match g with
      | GItem k -> Printf.sprintf "%s    E::e%d -> %d;" ind (int_of_nat k) (10 + int_of_nat k)
      | GElse -> Printf.sprintf "%s    else -> 99;" ind) arms
  @ [ ind ^ "}" ]

let template (n : int) (arms : guard list) (ctxk : int) : string * int * string =
  (* returns (source, line of `match`, context label) *)
  let enum = "enum E { " ^ String.concat ", " (List.init n (fun k -> "e" ^ string_of_int k)) ^ " }" in
  let m scrut ind = match_text arms scrut ind in
  let (label, lines) = match ctxk with
    | 0 -> ("top", [ "func sel(x : E) -> int"; "{" ] @ m "x" "    " @ [ "}" ])
    | 1 -> ("nested", [ "func sel(x : E) -> int"; "{"; "    func inner(y : E) -> int"; "    {" ] @ m "y" "        "
                      @ [ "    };"; "    inner(x)"; "}" ])
    | 2 -> ("lambda", [ "func sel(x : E) -> int"; "{"; "    let f = let func (y : E) -> int"; "    {" ] @ m "y" "        "
                      @ [ "    };"; "    f(x)"; "}" ])
    | 3 -> ("loop", [ "func sel(x : E) -> int"; "{"; "    var r = 0;"; "    while (r == 0)"; "    {"; "        r = 1 +" ]
                    @ m "x" "        " @ [ "    };"; "    r"; "}" ])
    | 4 -> ("cond", [ "func sel(x : E) -> int"; "{"; "    if (1 == 1)"; "    {" ] @ m "x" "        "
                    @ [ "    }"; "    else"; "    {"; "        0"; "    }"; "}" ])
    | _ -> ("catch", [ "func sel(x : E) -> int"; "{"; "    0"; "}"; "catch (division_by_zero)"; "{" ] @ m "x" "    " @ [ "}" ]) in
  let all = [ enum ] @ lines @ [ "func main() -> int"; "{"; "    sel(E::e0)"; "}" ] in
  let rec find i = function [] -> 0 | l :: t -> if (let s = String.trim l in String.length s >= 6 && String.sub s 0 6 = "match ") then i else find (i + 1) t in
  (String.concat "\n" all ^ "\n", find 1 all, label)

let do_match oc seed i =
  let rng = Rng.derive seed (2000003 + i) in
  let group = Printf.sprintf "mt%d" i in
  let n = Rng.range rng 2 8 in
  let ctxk = i mod 6 in
  let with_else = Rng.pct rng 35 in
  let ks = Rng.shuffle rng (List.init n (fun k -> k)) in
  let ks = if with_else then List.filteri (fun j _ -> j < Rng.range rng 1 n) ks else ks in
  let arms = List.map (fun k -> GItem (nat_of_int k)) ks @ (if with_else then [GElse] else []) in
  let out kind op arms id =
    let (src, line, label) = template n arms ctxk in
    emit oc ~id ~group ~kind ~op ~ctx:label ~model:(model_str (match_check (nat_of_int n) arms)) ~l0:line ~l1:line ~src in
  out "base" "-" arms (group ^ ".base");
  let cnt = ref 0 in
  if with_else then begin
    incr cnt; out "mutant" "MatchDropElse" (List.filter (fun g -> g <> GElse) arms) (Printf.sprintf "%s.m%d" group !cnt)
  end else
    List.iteri (fun j k ->
        if j < 3 then begin
          incr cnt;
          out "mutant" "MatchOmitEnumerator" (List.filter (fun g -> g <> GItem (nat_of_int k)) arms) (Printf.sprintf "%s.m%d" group !cnt)
        end) (Rng.shuffle rng ks)

let () =
  match Array.to_list Sys.argv with
  | [ _; "gen"; seed; nprog; kcap; nmatch; out ] ->
    let seed = int_of_string seed and nprog = int_of_string nprog and kcap = int_of_string kcap
    and nmatch = int_of_string nmatch in
    let oc = open_out out in
    for i = 0 to nprog - 1 do do_program oc seed kcap i done;
    for i = 0 to nmatch - 1 do do_match oc seed i done;
    close_out oc
  | [ _; "mcheck"; file ] ->
    (* one match per line: `<number of enumerators> <guarded enumerator>... [else]` -> model verdict *)
    let ic = open_in file in
    (try while true do
         let l = input_line ic in
         match List.filter (fun x -> x <> "") (String.split_on_char ' ' l) with
         | n :: arms ->
           let arms = List.map (fun a -> if a = "else" then GElse else GItem (nat_of_int (int_of_string a))) arms in
           print_endline (model_str (match_check (nat_of_int (int_of_string n)) arms))
         | [] -> print_endline "-"
       done with End_of_file -> ());
    close_in ic
  | [ _; "show"; seed; i ] ->
    let prog = Tgen.gen_program (Rng.derive (int_of_string seed) (int_of_string i)) in
    print_string (Pp.print_program prog);
    Printf.printf "// model: %s\n" (model_str (tc_program prog))
  | _ -> prerr_endline "usage: run gen SEED NPROG KCAP NMATCH OUT | run mcheck FILE | run show SEED I"; exit 2
