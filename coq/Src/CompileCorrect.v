(* Src/CompileCorrect.v — compiler correctness for the fragments F1 and F2 (Src/Compile.v:
   in_F lv, func_in_F lv; lv = 1: expressions and straight-line blocks, lv = 2: + && || loops
   print): the code that the model of front/emit.c produces, run on the value-level VM
   (VM/ValueVM.v), computes what the reference evaluator (Src/Eval.v) computes.

     compile_expr_correct       code of an expression embedded anywhere in a program, from any
                                related pair of states: if `eval` yields cell c, the VM reaches
                                the end of the block with the image of c pushed (for a name: the
                                very address the name is bound to), stores related again, the
                                morphism extended, the same numbers printed; if `eval` raises
                                division_by_zero the VM's DIV/MOD handler raises it at an
                                instruction inside the block
     compile_func_correct_F     a whole function body, entry to RET
     compile_program_correct_F  run_func (compile_func fd) = observe (run_program (single fd))
   By induction on the evaluator's fuel with the unfolding equations of Src/EvalLemmas.v; loops
   use an auxiliary statement for runs that start after the loop's first LABEL (the back edge
   lands there).  No axioms. *)
From Coq Require Import ZArith List Bool Lia.
From NV Require Import Gen.Opcodes Verifier.Effect Src.Syntax Src.Eval Src.EvalLemmas
  VM.ValueVM Src.Compile Src.CompileCorrectBase.
Import ListNotations.
Local Open Scope Z_scope.

Ltac inv H := inversion H; subst; clear H.

(* ---- single steps ---------------------------------------------------------------------- *)

Lemma step_int : forall prog ip stk h o z w,
  nth_error prog ip = Some (ins BYTECODE_INT z w) ->
  step prog (mkst ip stk h o) = SNext (mkst (S ip) (length h :: stk) (h ++ [z]) o).
Proof. intros. unfold step. simpl. rewrite H. reflexivity. Qed.

Lemma step_id_local : forall prog ip stk h o L i a,
  nth_error prog ip = Some (ins BYTECODE_ID_LOCAL L i) -> i <= L ->
  nth_error stk (Z.to_nat (L - i)) = Some a ->
  step prog (mkst ip stk h o) = SNext (mkst (S ip) (a :: stk) h o).
Proof.
  intros. unfold step. simpl. rewrite H. simpl. unfold zn.
  destruct (L - i <? 0) eqn:E; [apply Z.ltb_lt in E; lia|]. rewrite H1. reflexivity.
Qed.

Lemma step_neg : forall prog ip a stk h o z,
  nth_error prog ip = Some (ins0 BYTECODE_OP_NEG_INT) -> nth_error h a = Some z ->
  step prog (mkst ip (a :: stk) h o) = SNext (mkst (S ip) (length h :: stk) (h ++ [wrap32 (- z)]) o).
Proof. intros. unfold step. simpl. rewrite H. simpl. rewrite H0. reflexivity. Qed.

Lemma step_not : forall prog ip a stk h o z,
  nth_error prog ip = Some (ins0 BYTECODE_OP_NOT_INT) -> nth_error h a = Some z ->
  step prog (mkst ip (a :: stk) h o) = SNext (mkst (S ip) (length h :: stk) (h ++ [b2z (z =? 0)]) o).
Proof. intros. unfold step. simpl. rewrite H. simpl. rewrite H0. reflexivity. Qed.

Lemma step_binop : forall prog ip stk h o op ab aa za zb,
  f1_binop op = true ->
  nth_error prog ip = Some (ins0 (binop_opcode op)) ->
  nth_error h aa = Some za -> nth_error h ab = Some zb ->
  step prog (mkst ip (ab :: aa :: stk) h o) =
  match vm_binop (binop_opcode op) za zb with
  | Some (BVal v) => SNext (mkst (S ip) (length h :: stk) (h ++ [v]) o)
  | Some BDivZero => SExc ExDivision (mkst ip (ab :: aa :: stk) h o)
  | None => SStuck
  end.
Proof.
  intros prog ip stk h o op ab aa za zb Hop Hn Ha Hb.
  destruct op; try discriminate Hop; unfold step; simpl; rewrite Hn; simpl; rewrite Ha, Hb; reflexivity.
Qed.

Lemma step_ass : forall prog ip ar al stk h o z,
  nth_error prog ip = Some (ins0 BYTECODE_OP_ASS_INT) -> nth_error h ar = Some z ->
  (al < length h)%nat ->
  step prog (mkst ip (ar :: al :: stk) h o) = SNext (mkst (S ip) (al :: stk) (list_upd h al z) o).
Proof.
  intros. unfold step. simpl. rewrite H. simpl. rewrite H0.
  apply Nat.ltb_lt in H1. rewrite H1. reflexivity.
Qed.

Lemma step_jumpz_zero : forall prog ip a stk h o off w,
  nth_error prog ip = Some (ins BYTECODE_JUMPZ off w) -> nth_error h a = Some 0 -> 0 <= off ->
  step prog (mkst ip (a :: stk) h o) = SNext (mkst (ip + 1 + Z.to_nat off) stk h o).
Proof.
  intros. unfold step. simpl. rewrite H. simpl. rewrite H0. simpl.
  rewrite jump_target_fwd by assumption. reflexivity.
Qed.

Lemma step_jumpz_nonzero : forall prog ip a stk h o off w z,
  nth_error prog ip = Some (ins BYTECODE_JUMPZ off w) -> nth_error h a = Some z -> z <> 0 ->
  step prog (mkst ip (a :: stk) h o) = SNext (mkst (S ip) stk h o).
Proof.
  intros. unfold step. simpl. rewrite H. simpl. rewrite H0.
  destruct (z =? 0) eqn:E; [apply Z.eqb_eq in E; contradiction|]. reflexivity.
Qed.

Lemma step_jump_fwd : forall prog ip stk h o off w,
  nth_error prog ip = Some (ins BYTECODE_JUMP off w) -> 0 <= off ->
  step prog (mkst ip stk h o) = SNext (mkst (ip + 1 + Z.to_nat off) stk h o).
Proof.
  intros. unfold step. simpl. rewrite H. simpl. rewrite jump_target_fwd by assumption. reflexivity.
Qed.

Lemma step_label : forall prog ip stk h o,
  nth_error prog ip = Some (ins0 BYTECODE_LABEL) ->
  step prog (mkst ip stk h o) = SNext (mkst (S ip) stk h o).
Proof. intros. unfold step. simpl. rewrite H. reflexivity. Qed.

Lemma step_line : forall prog ip stk h o,
  nth_error prog ip = Some (ins0 BYTECODE_LINE) ->
  step prog (mkst ip stk h o) = SNext (mkst (S ip) stk h o).
Proof. intros. unfold step. simpl. rewrite H. reflexivity. Qed.

Lemma step_func_def : forall prog ip stk h o,
  nth_error prog ip = Some (ins0 BYTECODE_FUNC_DEF) ->
  step prog (mkst ip stk h o) = SNext (mkst (S ip) stk h o).
Proof. intros. unfold step. simpl. rewrite H. reflexivity. Qed.

Lemma step_slide_pop : forall prog ip a stk h o,
  nth_error prog ip = Some (ins BYTECODE_SLIDE 1 0) ->
  step prog (mkst ip (a :: stk) h o) = SNext (mkst (S ip) stk h o).
Proof. intros. unfold step. simpl. rewrite H. reflexivity. Qed.

Lemma zn_nonneg : forall z, 0 <= z -> zn z = Some (Z.to_nat z).
Proof. intros. unfold zn. destruct (z <? 0) eqn:E; [apply Z.ltb_lt in E; lia|]. reflexivity. Qed.

Lemma step_slide_block : forall prog ip a locals stk h o n,
  nth_error prog ip = Some (ins BYTECODE_SLIDE n 1) -> 0 < n -> Z.of_nat (length locals) = n ->
  step prog (mkst ip (a :: locals ++ stk) h o) = SNext (mkst (S ip) (a :: stk) h o).
Proof.
  intros prog ip a locals stk h o n H Hn Hl. unfold step. simpl v_ip. rewrite H.
  cbn [r_op ins r_w0 r_w1]. rewrite (zn_nonneg n), (zn_nonneg 1) by lia.
  change (Z.to_nat 1) with 1%nat.
  assert (Hq : Z.to_nat n = length locals) by lia. rewrite Hq.
  destruct (Nat.eqb (length locals) 0) eqn:E0; [apply Nat.eqb_eq in E0; lia|].
  cbn [v_stk v_heap v_out mkst].
  replace (Nat.leb (length locals + 1) (length (a :: locals ++ stk))) with true
    by (symmetry; apply Nat.leb_le; simpl; rewrite app_length; lia).
  replace (1 + length locals)%nat with (S (length locals)) by lia.
  cbn [firstn skipn app]. rewrite skipn_app, skipn_all, Nat.sub_diag. reflexivity.
Qed.

Lemma step_ret : forall prog ip a stk h o,
  nth_error prog ip = Some (ins0 BYTECODE_RET) ->
  step prog (mkst ip (a :: stk) h o) = SRet a (mkst ip (a :: stk) h o).
Proof. intros. unfold step. simpl. rewrite H. reflexivity. Qed.

(* ---- the handlers compute what the evaluator computes ------------------------------------ *)

Lemma quot_m1 : forall a, Z.quot a (-1) = - a.
Proof. intros. change (-1) with (- (1)). rewrite Z.quot_opp_r by lia. now rewrite Z.quot_1_r. Qed.

Lemma rem_m1 : forall a, Z.rem a (-1) = 0.
Proof. intros. change (-1) with (- (1)). rewrite Z.rem_opp_r by lia. apply Z.rem_1_r. Qed.

Definition bres_of (o : option cellval) : bres :=
  match o with
  | Some (CInt v) => BVal v
  | Some (CBool b) => BVal (b2z b)
  | _ => BDivZero
  end.

Lemma vm_binop_int : forall op z1 z2, f1_binop op = true ->
  match op with Shl | Shr => 0 <= z2 < 32 | _ => True end ->
  vm_binop (binop_opcode op) z1 z2 = Some (bres_of (int_binop op z1 z2)).
Proof.
  intros op z1 z2 Hop Hsh. destruct op; try discriminate Hop; simpl; try reflexivity.
  - destruct (z2 =? 0) eqn:E0; [reflexivity|]. simpl.
    destruct (z2 =? -1) eqn:E1; [|reflexivity]. apply Z.eqb_eq in E1. subst. now rewrite quot_m1.
  - destruct (z2 =? 0) eqn:E0; [reflexivity|]. simpl.
    destruct (z2 =? -1) eqn:E1; [|reflexivity]. apply Z.eqb_eq in E1. subst. now rewrite rem_m1.
  - rewrite Z.mod_small by lia. reflexivity.
  - rewrite Z.mod_small by lia. reflexivity.
Qed.

Lemma int_binop_shape : forall op z1 z2 v, int_binop op z1 z2 = Some v ->
  (exists n, v = CInt n) \/ (exists b, v = CBool b).
Proof.
  intros op z1 z2 v H. destruct op; simpl in H;
    try (destruct (z2 =? 0); try discriminate); inv H; eauto.
Qed.

Lemma vm_eq_bool : forall b1 b2,
  vm_binop BYTECODE_OP_EQ_INT (b2z b1) (b2z b2) = Some (BVal (b2z (Bool.eqb b1 b2))).
Proof. destruct b1, b2; reflexivity. Qed.

Lemma vm_neq_bool : forall b1 b2,
  vm_binop BYTECODE_OP_NEQ_INT (b2z b1) (b2z b2) = Some (BVal (b2z (negb (Bool.eqb b1 b2)))).
Proof. destruct b1, b2; reflexivity. Qed.

(* ---- the statement ------------------------------------------------------------------------ *)

(* normal termination of a code block: one more slot, holding the image of the result cell *)
Definition post_ok (prog : list rinstr) (s : vstate) (pc' : nat) (m : morph) (c : nat) (st' : state) : Prop :=
  exists s' m' a, star prog s s' /\ v_ip s' = pc' /\ v_stk s' = a :: v_stk s /\
    nth_error m' c = Some (Some a) /\ MS m' st' (v_heap s') /\ ext m m' /\ v_out s' = out st'.

(* the division handler raises its exception at an instruction inside [lo, hi) *)
Definition raises (prog : list rinstr) (s : vstate) (lo hi : nat) (st' : state) : Prop :=
  exists s', star prog s s' /\ step prog s' = SExc ExDivision s' /\ (lo <= v_ip s' < hi)%nat /\
             v_out s' = out st'.

Definition concl (prog : list rinstr) (s : vstate) (pc n : nat) (m : morph) (r : res) (st' : state) : Prop :=
  match r with
  | ROk c => post_ok prog s (pc + n) m c st'
  | RExc ex => ex = ExDivision /\ raises prog s pc (pc + n) st'
  | _ => True
  end.

Lemma post_ok_intro : forall prog s pc' m c st' s' m' a,
  star prog s s' -> v_ip s' = pc' -> v_stk s' = a :: v_stk s ->
  nth_error m' c = Some (Some a) -> MS m' st' (v_heap s') -> ext m m' -> v_out s' = out st' ->
  post_ok prog s pc' m c st'.
Proof. intros. exists s', m', a. tauto. Qed.

Lemma raises_weaken : forall prog s lo hi lo' hi' st', raises prog s lo hi st' ->
  (lo' <= lo)%nat -> (hi <= hi')%nat -> raises prog s lo' hi' st'.
Proof. intros prog s lo hi lo' hi' st' (s' & H1 & H2 & H3 & H4) Hl Hh. exists s'. repeat split; auto; lia. Qed.

Lemma raises_star : forall prog s0 s lo hi st', star prog s0 s -> raises prog s lo hi st' ->
  raises prog s0 lo hi st'.
Proof. intros prog s0 s lo hi st' Hs (s' & H1 & H2 & H3 & H4). exists s'. repeat split; auto; try lia. eapply star_trans; eauto. Qed.

Lemma fresh_inv : forall st v r st', fresh st v = (r, st') -> exists c, r = ROk c.
Proof. intros st v r st' H. unfold fresh in H. destruct (alloc st v). inv H. eauto. Qed.

Section Correct.
Variable genv : env.
Variable lv : nat.      (* fragment level: 1 = F1, 2 = F2 *)

Definition expr_case (k : nat) (e : expr) : Prop :=
  forall env st r st', eval genv k env st e = (r, st') ->
  forall sc, in_F lv sc e = true ->
  forall prog pc L ce s m,
    code_at prog pc (compile_expr L ce e) -> v_ip s = pc ->
    MS m st (v_heap s) -> v_out s = out st -> env_match m env ce sc L (v_stk s) ->
    concl prog s pc (length (compile_expr L ce e)) m r st'.

Definition expr_spec (k : nat) : Prop := forall e, expr_case k e.

Definition items_spec (k : nat) : Prop :=
  forall items env st last r st', eval_items genv k env st items last = (r, st') ->
  forall sc, items_F lv sc items = true ->
  forall prog pc L ce s m,
    code_at prog pc (compile_items L ce items) -> v_ip s = pc ->
    MS m st (v_heap s) -> v_out s = out st -> env_match m env ce sc L (v_stk s) ->
    match r with
    | ROk c =>
      exists s' m' a locals, star prog s s' /\
        v_ip s' = (pc + length (compile_items L ce items))%nat /\
        v_stk s' = a :: locals ++ v_stk s /\ Z.of_nat (length locals) = nbinds items /\
        nth_error m' c = Some (Some a) /\ MS m' st' (v_heap s') /\ ext m m' /\ v_out s' = out st'
    | RExc ex => ex = ExDivision /\ raises prog s pc (pc + length (compile_items L ce items)) st'
    | _ => True
    end.

Lemma case_EInt : forall k z, expr_case (S k) (EInt z).
Proof.
  intros k z env st r st' He sc HF prog pc L ce s m Hc Hip HMS Hout Hem.
  rewrite eval_EInt in He. simpl in HF. simpl in Hc |- *.
  destruct (fresh_inv _ _ _ _ He) as (c & ->). simpl.
  assert (Hv : val_rel (CInt (wrap32 z)) z) by (simpl; now rewrite wrap32_small).
  destruct (MS_fresh _ _ _ _ _ _ _ HMS Hv He) as (HMS' & Hm' & Hout').
  destruct s as [ip stk h o]; simpl in *. subst ip.
  apply (post_ok_intro _ _ _ _ _ _ (mkst (S pc) (length h :: stk) (h ++ [z]) o)
           (m ++ [Some (length h)]) (length h)); simpl; auto.
  - apply star_one, (step_int _ _ _ _ _ _ 0), (code_at_head _ _ _ _ Hc).
  - lia.
  - apply ext_snoc.
  - congruence.
Qed.

Lemma case_EBool : forall k b, expr_case (S k) (EBool b).
Proof.
  intros k b env st r st' He sc HF prog pc L ce s m Hc Hip HMS Hout Hem.
  rewrite eval_EBool in He. simpl in Hc |- *.
  destruct (fresh_inv _ _ _ _ He) as (c & ->). simpl.
  assert (Hv : val_rel (CBool b) (b2z b)) by reflexivity.
  destruct (MS_fresh _ _ _ _ _ _ _ HMS Hv He) as (HMS' & Hm' & Hout').
  destruct s as [ip stk h o]; simpl in *. subst ip.
  apply (post_ok_intro _ _ _ _ _ _ (mkst (S pc) (length h :: stk) (h ++ [b2z b]) o)
           (m ++ [Some (length h)]) (length h)); simpl; auto.
  - apply star_one, (step_int _ _ _ _ _ _ 0), (code_at_head _ _ _ _ Hc).
  - lia.
  - apply ext_snoc.
  - congruence.
Qed.

Lemma case_EVar : forall k x, expr_case (S k) (EVar x).
Proof.
  intros k x env st r st' He sc HF prog pc L ce s m Hc Hip HMS Hout Hem.
  destruct s as [ip stk h o]; simpl in Hip, HMS, Hout, Hem; subst pc.
  rewrite eval_EVar in He. simpl in HF. simpl in Hc |- *.
  destruct (Hem x HF) as (i & c & a & Hcl & Hle & Hl & Hm & Hn).
  unfold lookup_var in He. rewrite Hl in He. inv He. simpl.
  unfold cidx in Hc. rewrite Hcl in Hc.
  apply (post_ok_intro _ _ _ _ _ _ (mkst (S ip) (a :: stk) h (out st')) m a); simpl; auto.
  - apply star_one. eapply step_id_local; eauto. eapply code_at_head; eauto.
  - lia.
  - apply ext_refl.
Qed.

Ltac exc_here Ha :=
  let Hr := fresh "Hr" in
  destruct Ha as [-> Hr]; split; [reflexivity |
    eapply raises_weaken; [exact Hr | lia | rewrite ?app_length; simpl; lia]].

Lemma get_int_not_bool : forall st c z, get_int st c = Some z -> get_bool st c = None.
Proof.
  unfold get_int, get_bool. intros st c z H. destruct (get_cell st c) as [[]|]; try discriminate; reflexivity.
Qed.

Lemma case_ENeg : forall k a, expr_spec k -> expr_case (S k) (ENeg a).
Proof.
  intros k a IH env st r st' He sc HF prog pc L ce s m Hc Hip HMS Hout Hem.
  destruct s as [ip stk h o]; simpl in Hip, HMS, Hout, Hem; subst pc.
  rewrite eval_ENeg in He. simpl in HF. apply andb_true_iff in HF. destruct HF as [_ Fa].
  change (compile_expr L ce (ENeg a)) with (compile_expr L ce a ++ [ins0 BYTECODE_OP_NEG_INT]) in *.
  set (ca := compile_expr L ce a) in *.
  destruct (eval genv k env st a) as [r1 st1] eqn:Ea.
  pose proof (IH a _ _ _ _ Ea sc Fa prog ip L ce (mkst ip stk h o) m
                (code_at_app_l _ _ _ _ Hc) eq_refl HMS Hout Hem) as Ha. fold ca in Ha.
  destruct r1 as [c1|ex| |]; simpl in Ha; [| inv He; simpl; exc_here Ha | inv He; exact I | inv He; exact I].
  destruct Ha as (s1 & m1 & a1 & Hst1 & Hip1 & Hstk1 & Hm1 & HMS1 & Hext1 & Hout1).
  destruct s1 as [ip1 stk1 h1 o1]; simpl in Hip1, Hstk1, HMS1, Hout1; subst ip1 stk1.
  destruct (get_int st1 c1) as [z|] eqn:Eg; [|inv He; exact I].
  destruct (fresh_inv _ _ _ _ He) as (c & ->). simpl.
  pose proof (MS_payload_int _ _ _ _ _ _ HMS1 Hm1 Eg) as Hp.
  assert (Hv : val_rel (CInt (wrap32 (- z))) (wrap32 (- z))) by reflexivity.
  destruct (MS_fresh _ _ _ _ _ _ _ HMS1 Hv He) as (HMS' & Hm' & Hout').
  apply (post_ok_intro _ _ _ _ _ _ (mkst (S (ip + length ca)) (length h1 :: stk) (h1 ++ [wrap32 (- z)]) o1)
           (m1 ++ [Some (length h1)]) (length h1)); simpl; auto.
  - eapply star_snoc; [exact Hst1|]. apply step_neg; auto.
    eapply code_at_head. apply code_at_app_r. exact Hc.
  - rewrite app_length. simpl. lia.
  - eapply ext_trans; [exact Hext1 | apply ext_snoc].
  - congruence.
Qed.

Lemma case_ENot : forall k a, expr_spec k -> expr_case (S k) (ENot a).
Proof.
  intros k a IH env st r st' He sc HF prog pc L ce s m Hc Hip HMS Hout Hem.
  destruct s as [ip stk h o]; simpl in Hip, HMS, Hout, Hem; subst pc.
  rewrite eval_ENot in He. simpl in HF. apply andb_true_iff in HF. destruct HF as [_ Fa].
  change (compile_expr L ce (ENot a)) with (compile_expr L ce a ++ [ins0 BYTECODE_OP_NOT_INT]) in *.
  set (ca := compile_expr L ce a) in *.
  destruct (eval genv k env st a) as [r1 st1] eqn:Ea.
  pose proof (IH a _ _ _ _ Ea sc Fa prog ip L ce (mkst ip stk h o) m
                (code_at_app_l _ _ _ _ Hc) eq_refl HMS Hout Hem) as Ha. fold ca in Ha.
  destruct r1 as [c1|ex| |]; simpl in Ha; [| inv He; simpl; exc_here Ha | inv He; exact I | inv He; exact I].
  destruct Ha as (s1 & m1 & a1 & Hst1 & Hip1 & Hstk1 & Hm1 & HMS1 & Hext1 & Hout1).
  destruct s1 as [ip1 stk1 h1 o1]; simpl in Hip1, Hstk1, HMS1, Hout1; subst ip1 stk1.
  destruct (get_bool st1 c1) as [b|] eqn:Eg; [|inv He; exact I].
  destruct (fresh_inv _ _ _ _ He) as (c & ->). simpl.
  pose proof (MS_payload_bool _ _ _ _ _ _ HMS1 Hm1 Eg) as Hp.
  assert (Hv : val_rel (CBool (negb b)) (b2z (b2z b =? 0))) by (destruct b; reflexivity).
  destruct (MS_fresh _ _ _ _ _ _ _ HMS1 Hv He) as (HMS' & Hm' & Hout').
  apply (post_ok_intro _ _ _ _ _ _ (mkst (S (ip + length ca)) (length h1 :: stk) (h1 ++ [b2z (b2z b =? 0)]) o1)
           (m1 ++ [Some (length h1)]) (length h1)); simpl; auto.
  - eapply star_snoc; [exact Hst1|]. apply step_not; auto.
    eapply code_at_head. apply code_at_app_r. exact Hc.
  - rewrite app_length. simpl. lia.
  - eapply ext_trans; [exact Hext1 | apply ext_snoc].
  - congruence.
Qed.

(* the operator instruction(s) on two evaluated operands *)
Lemma exec_binop_ok : forall prog ip op stk h o a2 a1 za zb zr,
  f1_binop op = true -> code_at prog ip (binop_code op) ->
  nth_error h a1 = Some za -> nth_error h a2 = Some zb ->
  vm_binop (binop_opcode op) za zb = Some (BVal zr) ->
  star prog (mkst ip (a2 :: a1 :: stk) h o)
            (mkst (ip + length (binop_code op)) (length h :: stk) (h ++ [zr]) o).
Proof.
  intros prog ip op stk h o a2 a1 za zb zr Hop Hc H1 H2 Hvm.
  assert (Hone : forall ip', nth_error prog ip' = Some (ins0 (binop_opcode op)) ->
            step prog (mkst ip' (a2 :: a1 :: stk) h o) = SNext (mkst (S ip') (length h :: stk) (h ++ [zr]) o)).
  { intros ip' Hn. rewrite (step_binop _ _ _ _ _ op _ _ za zb Hop Hn H1 H2), Hvm. reflexivity. }
  destruct op; try discriminate Hop; simpl binop_code in *; simpl length;
    try (replace (ip + 1)%nat with (S ip) by lia; apply star_one, Hone; eapply code_at_head; exact Hc).
  - replace (ip + 2)%nat with (S (S ip)) by lia.
    eapply star_step; [apply step_line; eapply code_at_head; exact Hc|].
    apply star_one, Hone. eapply code_at_head, code_at_tail. exact Hc.
  - replace (ip + 2)%nat with (S (S ip)) by lia.
    eapply star_step; [apply step_line; eapply code_at_head; exact Hc|].
    apply star_one, Hone. eapply code_at_head, code_at_tail. exact Hc.
Qed.

Lemma exec_binop_div : forall prog ip op stk h o a2 a1 za zb,
  f1_binop op = true -> code_at prog ip (binop_code op) ->
  nth_error h a1 = Some za -> nth_error h a2 = Some zb ->
  vm_binop (binop_opcode op) za zb = Some BDivZero ->
  exists s', star prog (mkst ip (a2 :: a1 :: stk) h o) s' /\ step prog s' = SExc ExDivision s' /\
             (ip <= v_ip s' < ip + length (binop_code op))%nat /\ v_out s' = o.
Proof.
  intros prog ip op stk h o a2 a1 za zb Hop Hc H1 H2 Hvm.
  assert (Hone : forall ip', nth_error prog ip' = Some (ins0 (binop_opcode op)) ->
            step prog (mkst ip' (a2 :: a1 :: stk) h o) = SExc ExDivision (mkst ip' (a2 :: a1 :: stk) h o)).
  { intros ip' Hn. rewrite (step_binop _ _ _ _ _ op _ _ za zb Hop Hn H1 H2), Hvm. reflexivity. }
  destruct op; try discriminate Hop; simpl binop_code in *; simpl length;
    try (exists (mkst ip (a2 :: a1 :: stk) h o); split; [apply star_refl|]; split;
         [apply Hone; eapply code_at_head; exact Hc | simpl; split; [lia | reflexivity]]).
  - exists (mkst (S ip) (a2 :: a1 :: stk) h o). split; [|split].
    + apply star_one, step_line. eapply code_at_head; exact Hc.
    + apply Hone. eapply code_at_head, code_at_tail. exact Hc.
    + simpl. split; [lia | reflexivity].
  - exists (mkst (S ip) (a2 :: a1 :: stk) h o). split; [|split].
    + apply star_one, step_line. eapply code_at_head; exact Hc.
    + apply Hone. eapply code_at_head, code_at_tail. exact Hc.
    + simpl. split; [lia | reflexivity].
Qed.

Lemma finish_binop : forall prog s0 ip op stk h o a2 a1 za zb zr v m0 m st r st' pc n,
  star prog s0 (mkst ip (a2 :: a1 :: stk) h o) -> v_stk s0 = stk ->
  f1_binop op = true -> code_at prog ip (binop_code op) ->
  nth_error h a1 = Some za -> nth_error h a2 = Some zb ->
  vm_binop (binop_opcode op) za zb = Some (BVal zr) -> val_rel v zr ->
  MS m st h -> o = out st -> ext m0 m -> fresh st v = (r, st') ->
  (ip + length (binop_code op) = pc + n)%nat ->
  concl prog s0 pc n m0 r st'.
Proof.
  intros prog s0 ip op stk h o a2 a1 za zb zr v m0 m st r st' pc n
         Hst Hstk Hop Hc H1 H2 Hvm Hv HMS Ho Hext Hf Hn.
  destruct (fresh_inv _ _ _ _ Hf) as (c & ->). simpl.
  destruct (MS_fresh _ _ _ _ _ _ _ HMS Hv Hf) as (HMS' & Hm' & Hout').
  apply (post_ok_intro _ _ _ _ _ _ (mkst (ip + length (binop_code op)) (length h :: stk) (h ++ [zr]) o)
           (m ++ [Some (length h)]) (length h)); simpl; auto.
  - eapply star_trans; [exact Hst|]. eapply exec_binop_ok; eauto.
  - congruence.
  - eapply ext_trans; [exact Hext | apply ext_snoc].
  - congruence.
Qed.

Lemma bres_of_val : forall op z1 z2 v, int_binop op z1 z2 = Some v ->
  exists z, bres_of (Some v) = BVal z /\ val_rel v z.
Proof.
  intros op z1 z2 v H. destruct (int_binop_shape _ _ _ _ H) as [(n & ->) | (b & ->)]; simpl; eauto.
Qed.

Lemma eval_EInt_value : forall k env st z c st', eval genv k env st (EInt z) = (ROk c, st') ->
  get_int st' c = Some (wrap32 z).
Proof.
  intros k env st z c st' H. destruct k; [rewrite eval_O in H; discriminate|].
  rewrite eval_EInt in H. unfold fresh, alloc in H. inv H.
  unfold get_int, get_cell. simpl. rewrite nth_error_app2, Nat.sub_diag by lia. reflexivity.
Qed.

Lemma compile_EBin : forall L ce op a b, f1_binop op = true ->
  compile_expr L ce (EBin op a b) = compile_expr L ce a ++ compile_expr (L + 1) ce b ++ binop_code op.
Proof. intros L ce op a b H. destruct op; try discriminate H; reflexivity. Qed.

Lemma case_EBin : forall k op a b, f1_binop op = true -> expr_spec k -> expr_case (S k) (EBin op a b).
Proof.
  intros k op a b Hop IH env st r st' He sc HF prog pc L ce s m Hc Hip HMS Hout Hem.
  destruct s as [ip stk h o]; simpl in Hip, HMS, Hout, Hem; subst pc.
  simpl in HF.
  apply andb_true_iff in HF; destruct HF as [HF Fb].
  apply andb_true_iff in HF; destruct HF as [HF Fa].
  apply andb_true_iff in HF; destruct HF as [HF Hsh].
  assert (Hno : op <> And /\ op <> Or) by (destruct op; simpl in Hop; try discriminate; split; discriminate).
  rewrite eval_EBin in He by tauto.
  rewrite (compile_EBin _ _ _ _ _ Hop) in *.
  set (ca := compile_expr L ce a) in *. set (cb := compile_expr (L + 1) ce b) in *.
  destruct (eval genv k env st a) as [r1 st1] eqn:Ea.
  pose proof (IH a _ _ _ _ Ea sc Fa prog ip L ce (mkst ip stk h o) m
                (code_at_app_l _ _ _ _ Hc) eq_refl HMS Hout Hem) as Ha. fold ca in Ha.
  destruct r1 as [c1|ex| |]; simpl in Ha; [| inv He; simpl; exc_here Ha | inv He; exact I | inv He; exact I].
  destruct Ha as (s1 & m1 & a1 & Hst1 & Hip1 & Hstk1 & Hm1 & HMS1 & Hext1 & Hout1).
  destruct s1 as [ip1 stk1 h1 o1]; simpl in Hip1, Hstk1, HMS1, Hout1; subst ip1 stk1.
  destruct (eval genv k env st1 b) as [r2 st2] eqn:Eb.
  assert (Hcb : code_at prog (ip + length ca) cb).
  { apply code_at_app_l with (c2 := binop_code op). apply code_at_app_r. exact Hc. }
  assert (Hcop : code_at prog (ip + length ca + length cb) (binop_code op)).
  { apply code_at_app_r. apply code_at_app_r. exact Hc. }
  pose proof (IH b _ _ _ _ Eb sc Fb prog (ip + length ca)%nat (L + 1) ce
                (mkst (ip + length ca) (a1 :: stk) h1 o1) m1 Hcb eq_refl HMS1 Hout1
                (env_match_push _ _ _ _ _ _ a1 (env_match_ext _ _ _ _ _ _ _ Hem Hext1))) as Hb.
  fold cb in Hb.
  destruct r2 as [c2|ex| |]; simpl in Hb; [| inv He; simpl | inv He; exact I | inv He; exact I].
  2:{ destruct Hb as [-> Hr]. split; [reflexivity|]. eapply raises_star; [exact Hst1|].
      eapply raises_weaken; [exact Hr | lia | rewrite !app_length; lia]. }
  destruct Hb as (s2 & m2 & a2 & Hst2 & Hip2 & Hstk2 & Hm2 & HMS2 & Hext2 & Hout2).
  destruct s2 as [ip2 stk2 h2 o2]; simpl in Hip2, Hstk2, HMS2, Hout2; subst ip2 stk2.
  assert (Hm1' : nth_error m2 c1 = Some (Some a1)) by (eapply ext_nth; eauto).
  assert (Hst : star prog (mkst ip stk h o) (mkst (ip + length ca + length cb) (a2 :: a1 :: stk) h2 o2))
    by (eapply star_trans; eauto).
  assert (Hlen : (ip + length ca + length cb + length (binop_code op) =
                  ip + length (ca ++ cb ++ binop_code op))%nat) by (rewrite !app_length; lia).
  assert (Hext : ext m m2) by (eapply ext_trans; eauto).
  unfold binop_result in He.
  rewrite (nil_cmp_mapped op _ _ _ c1 a1 (get_cell st2 c2) HMS2 Hm1') in He.
  destruct (get_int st2 c1) as [z1|] eqn:G1.
  - destruct (get_int st2 c2) as [z2|] eqn:G2.
    + pose proof (MS_payload_int _ _ _ _ _ _ HMS2 Hm1' G1) as P1.
      pose proof (MS_payload_int _ _ _ _ _ _ HMS2 Hm2 G2) as P2.
      assert (Hshift : match op with Shl | Shr => 0 <= z2 < 32 | _ => True end).
      { destruct op; auto; simpl in Hsh; destruct b; try discriminate Hsh;
          apply andb_true_iff in Hsh; destruct Hsh as [S1 S2]; apply Z.leb_le in S1; apply Z.ltb_lt in S2;
          pose proof (eval_EInt_value _ _ _ _ _ _ Eb) as Hz; rewrite G2 in Hz; inv Hz;
          unfold wrap32; rewrite Z.mod_small by lia; lia. }
      pose proof (vm_binop_int op z1 z2 Hop Hshift) as Hvm.
      destruct (int_binop op z1 z2) as [v|] eqn:Ei.
      * destruct (bres_of_val _ _ _ _ Ei) as (zr & Hbr & Hv). rewrite Hbr in Hvm.
        eapply finish_binop; eauto.
      * inv He. simpl in Hvm |- *. split; [reflexivity|].
        destruct (exec_binop_div _ _ _ stk _ (out st') _ _ _ _ Hop Hcop P1 P2 Hvm) as (s' & Hs' & Hstep & Hrange & Ho).
        exists s'. split; [eapply star_trans; eauto|]. split; [exact Hstep|]. split; [lia | congruence].
    + rewrite (get_int_not_bool _ _ _ G1) in He. destruct op; inv He; exact I.
  - destruct (get_bool st2 c1) as [b1|] eqn:B1; destruct (get_bool st2 c2) as [b2|] eqn:B2;
      destruct op; try (inv He; exact I); try discriminate Hop.
    + pose proof (MS_payload_bool _ _ _ _ _ _ HMS2 Hm1' B1) as P1.
      pose proof (MS_payload_bool _ _ _ _ _ _ HMS2 Hm2 B2) as P2.
      eapply (finish_binop _ _ _ Eq); eauto. apply vm_eq_bool. reflexivity.
    + pose proof (MS_payload_bool _ _ _ _ _ _ HMS2 Hm1' B1) as P1.
      pose proof (MS_payload_bool _ _ _ _ _ _ HMS2 Hm2 B2) as P2.
      eapply (finish_binop _ _ _ Ne); eauto. apply vm_neq_bool. reflexivity.
Qed.

Lemma case_ECond : forall k c a b, expr_spec k -> expr_case (S k) (ECond c a b).
Proof.
  intros k c a b IH env st r st' He sc HF prog pc L ce s m Hc Hip HMS Hout Hem.
  destruct s as [ip stk h o]; simpl in Hip, HMS, Hout, Hem; subst pc.
  simpl in HF.
  apply andb_true_iff in HF; destruct HF as [HF Fb].
  apply andb_true_iff in HF; destruct HF as [HF Fa].
  apply andb_true_iff in HF; destruct HF as [_ Fc].
  rewrite eval_ECond in He.
  change (compile_expr L ce (ECond c a b)) with
    (compile_expr L ce c ++ ins BYTECODE_JUMPZ (len (compile_expr L ce a) + 2) 0 :: compile_expr L ce a ++
     ins BYTECODE_JUMP (len (compile_expr L ce b) + 2) 0 :: ins0 BYTECODE_LABEL ::
     compile_expr L ce b ++ [ins0 BYTECODE_LABEL]) in *.
  set (cc := compile_expr L ce c) in *. set (ca := compile_expr L ce a) in *.
  set (cb := compile_expr L ce b) in *.
  assert (Htot : forall X : list rinstr,
            length (cc ++ ins BYTECODE_JUMPZ (len ca + 2) 0 :: ca ++
                    ins BYTECODE_JUMP (len cb + 2) 0 :: ins0 BYTECODE_LABEL :: cb ++ [ins0 BYTECODE_LABEL])
            = (length cc + length ca + length cb + 4)%nat).
  { intros _. rewrite !app_length. simpl. rewrite !app_length. simpl. rewrite app_length. simpl. lia. }
  specialize (Htot []). rewrite Htot.
  pose proof (code_at_app_l _ _ _ _ Hc) as Hcc.
  pose proof (code_at_app_r _ _ _ _ Hc) as H1.
  pose proof (code_at_head _ _ _ _ H1) as HJZ.
  pose proof (code_at_tail _ _ _ _ H1) as H2.
  pose proof (code_at_app_l _ _ _ _ H2) as Hca.
  pose proof (code_at_app_r _ _ _ _ H2) as H3.
  pose proof (code_at_head _ _ _ _ H3) as HJ.
  pose proof (code_at_tail _ _ _ _ (code_at_tail _ _ _ _ H3)) as H4.
  pose proof (code_at_app_l _ _ _ _ H4) as Hcb.
  pose proof (code_at_head _ _ _ _ (code_at_app_r _ _ _ _ H4)) as HL.
  destruct (eval genv k env st c) as [r1 st1] eqn:Ec.
  pose proof (IH c _ _ _ _ Ec sc Fc prog ip L ce (mkst ip stk h o) m Hcc eq_refl HMS Hout Hem) as Hcnd.
  fold cc in Hcnd.
  destruct r1 as [c1|ex| |]; simpl in Hcnd; [| inv He; simpl | inv He; exact I | inv He; exact I].
  2:{ destruct Hcnd as [-> Hr]. split; [reflexivity|]. eapply raises_weaken; [exact Hr | lia | lia]. }
  destruct Hcnd as (s1 & m1 & a1 & Hst1 & Hip1 & Hstk1 & Hm1 & HMS1 & Hext1 & Hout1).
  destruct s1 as [ip1 stk1 h1 o1]; simpl in Hip1, Hstk1, HMS1, Hout1; subst ip1 stk1.
  destruct (get_bool st1 c1) as [bv|] eqn:Eg; [|inv He; exact I].
  pose proof (MS_payload_bool _ _ _ _ _ _ HMS1 Hm1 Eg) as Hp.
  pose proof (env_match_ext _ _ _ _ _ _ _ Hem Hext1) as Hem1.
  destruct bv.
  - (* condition true: fall through into a, then JUMP over b *)
    assert (Hj : star prog (mkst ip stk h o) (mkst (S (ip + length cc)) stk h1 o1)).
    { eapply star_snoc; [exact Hst1|]. eapply step_jumpz_nonzero; eauto. simpl. lia. }
    pose proof (IH a _ _ _ _ He sc Fa prog (S (ip + length cc)) L ce
                  (mkst (S (ip + length cc)) stk h1 o1) m1 Hca eq_refl HMS1 Hout1 Hem1) as Ha.
    fold ca in Ha.
    destruct r as [c2|ex| |]; simpl in Ha |- *; auto.
    + destruct Ha as (s2 & m2 & a2 & Hst2 & Hip2 & Hstk2 & Hm2 & HMS2 & Hext2 & Hout2).
      destruct s2 as [ip2 stk2 h2 o2]; simpl in Hip2, Hstk2, HMS2, Hout2; subst ip2 stk2.
      apply (post_ok_intro _ _ _ _ _ _ (mkst (ip + (length cc + length ca + length cb + 4)) (a2 :: stk) h2 o2) m2 a2);
        simpl; auto.
      * eapply star_trans; [exact Hj|]. eapply star_snoc; [exact Hst2|].
        rewrite (step_jump_fwd _ _ _ _ _ _ _ HJ) by (unfold len; lia).
        f_equal. f_equal. unfold len. lia.
      * eapply ext_trans; eauto.
    + destruct Ha as [-> Hr]. split; [reflexivity|]. eapply raises_star; [exact Hj|].
      eapply raises_weaken; [exact Hr | lia | lia].
  - (* condition false: JUMPZ to b *)
    assert (Hj : star prog (mkst ip stk h o) (mkst (S (S (S (ip + length cc) + length ca))) stk h1 o1)).
    { eapply star_snoc; [exact Hst1|].
      rewrite (step_jumpz_zero _ _ _ _ _ _ _ _ HJZ Hp) by (unfold len; lia).
      f_equal. f_equal. unfold len. lia. }
    pose proof (IH b _ _ _ _ He sc Fb prog (S (S (S (ip + length cc) + length ca))) L ce
                  (mkst (S (S (S (ip + length cc) + length ca))) stk h1 o1) m1 Hcb eq_refl HMS1 Hout1 Hem1) as Hb.
    fold cb in Hb.
    destruct r as [c2|ex| |]; simpl in Hb |- *; auto.
    + destruct Hb as (s2 & m2 & a2 & Hst2 & Hip2 & Hstk2 & Hm2 & HMS2 & Hext2 & Hout2).
      destruct s2 as [ip2 stk2 h2 o2]; simpl in Hip2, Hstk2, HMS2, Hout2; subst ip2 stk2.
      apply (post_ok_intro _ _ _ _ _ _ (mkst (S (S (S (S (ip + length cc) + length ca)) + length cb)) (a2 :: stk) h2 o2) m2 a2);
        simpl; auto.
      * eapply star_trans; [exact Hj|]. eapply star_snoc; [exact Hst2|].
        apply step_label. exact HL.
      * lia.
      * eapply ext_trans; eauto.
    + destruct Hb as [-> Hr]. split; [reflexivity|]. eapply raises_star; [exact Hj|].
      eapply raises_weaken; [exact Hr | lia | lia].
Qed.

Lemma case_EAssign : forall k l rhs, expr_spec k -> expr_case (S k) (EAssign l rhs).
Proof.
  intros k l rhs IH env st r st' He sc HF prog pc L ce s m Hc Hip HMS Hout Hem.
  destruct s as [ip stk h o]; simpl in Hip, HMS, Hout, Hem; subst pc.
  simpl in HF. destruct l; try discriminate HF.
  apply andb_true_iff in HF; destruct HF as [Fx Fb].
  assert (Fa : in_F lv sc (EVar x) = true) by exact Fx.
  rewrite eval_EAssign in He.
  change (compile_expr L ce (EAssign (EVar x) rhs))
    with (compile_expr L ce (EVar x) ++ compile_expr (L + 1) ce rhs ++ [ins0 BYTECODE_OP_ASS_INT]) in *.
  set (ca := compile_expr L ce (EVar x)) in *. set (cb := compile_expr (L + 1) ce rhs) in *.
  destruct (eval genv k env st (EVar x)) as [r1 st1] eqn:Ea.
  pose proof (IH (EVar x) _ _ _ _ Ea sc Fa prog ip L ce (mkst ip stk h o) m
                (code_at_app_l _ _ _ _ Hc) eq_refl HMS Hout Hem) as Ha. fold ca in Ha.
  destruct r1 as [c1|ex| |]; simpl in Ha; [| inv He; simpl; exc_here Ha | inv He; exact I | inv He; exact I].
  destruct Ha as (s1 & m1 & a1 & Hst1 & Hip1 & Hstk1 & Hm1 & HMS1 & Hext1 & Hout1).
  destruct s1 as [ip1 stk1 h1 o1]; simpl in Hip1, Hstk1, HMS1, Hout1; subst ip1 stk1.
  destruct (eval genv k env st1 rhs) as [r2 st2] eqn:Eb.
  assert (Hcb : code_at prog (ip + length ca) cb).
  { apply code_at_app_l with (c2 := [ins0 BYTECODE_OP_ASS_INT]). apply code_at_app_r. exact Hc. }
  assert (Hcop : nth_error prog (ip + length ca + length cb) = Some (ins0 BYTECODE_OP_ASS_INT)).
  { eapply code_at_head. apply code_at_app_r. apply code_at_app_r. exact Hc. }
  pose proof (IH rhs _ _ _ _ Eb sc Fb prog (ip + length ca)%nat (L + 1) ce
                (mkst (ip + length ca) (a1 :: stk) h1 o1) m1 Hcb eq_refl HMS1 Hout1
                (env_match_push _ _ _ _ _ _ a1 (env_match_ext _ _ _ _ _ _ _ Hem Hext1))) as Hb.
  fold cb in Hb.
  destruct r2 as [c2|ex| |]; simpl in Hb; [| inv He; simpl | inv He; exact I | inv He; exact I].
  2:{ destruct Hb as [-> Hr]. split; [reflexivity|]. eapply raises_star; [exact Hst1|].
      eapply raises_weaken; [exact Hr | lia | rewrite !app_length; lia]. }
  destruct Hb as (s2 & m2 & a2 & Hst2 & Hip2 & Hstk2 & Hm2 & HMS2 & Hext2 & Hout2).
  destruct s2 as [ip2 stk2 h2 o2]; simpl in Hip2, Hstk2, HMS2, Hout2; subst ip2 stk2.
  assert (Hm1' : nth_error m2 c1 = Some (Some a1)) by (eapply ext_nth; eauto).
  destruct (get_cell st2 c2) as [v|] eqn:G2; [|inv He; exact I].
  destruct (MS_payload_cell _ _ _ _ _ _ HMS2 Hm2 G2) as (z & P2 & Hv).
  pose proof (MS_addr_lt _ _ _ _ _ HMS2 Hm1') as Hlt.
  pose proof (MS_assign _ _ _ _ _ _ _ HMS2 Hm1' Hv) as HMS3.
  inv He. simpl.
  apply (post_ok_intro _ _ _ _ _ _ (mkst (S (ip + length ca + length cb)) (a1 :: stk) (list_upd h2 a1 z) (out st2)) m2 a1);
    simpl; auto.
  - eapply star_trans; [exact Hst1|]. eapply star_snoc; [exact Hst2|].
    apply step_ass; auto.
  - rewrite !app_length. simpl. lia.
  - eapply ext_trans; eauto.
Qed.

Lemma items_F1_let : forall sc x e t, items_F lv sc (ILet x e :: t) = in_F lv sc e && items_F lv (x :: sc) t.
Proof. reflexivity. Qed.
Lemma items_F1_var : forall sc x e t, items_F lv sc (IVar x e :: t) = in_F lv sc e && items_F lv (x :: sc) t.
Proof. reflexivity. Qed.
Lemma items_F1_expr : forall sc e t, items_F lv sc (IExpr e :: t) =
  in_F lv sc e && match t with [] => true | _ => items_F lv sc t end.
Proof. reflexivity. Qed.

Lemma nbinds_nonneg : forall l, 0 <= nbinds l.
Proof. induction l as [|i t IH]; [simpl; lia|]. destruct i; cbn [nbinds]; lia. Qed.

Lemma case_EBlock : forall k items, items_spec k -> expr_case (S k) (EBlock items).
Proof.
  intros k items IHi env st r st' He sc HF prog pc L ce s m Hc Hip HMS Hout Hem.
  destruct s as [ip stk h o]; simpl in Hip, HMS, Hout, Hem; subst pc.
  rewrite eval_EBlock in He. rewrite compile_block in *.
  change (in_F lv sc (EBlock items)) with (items_F lv sc items) in HF.
  pose proof (IHi items env st None r st' He sc HF prog ip L ce (mkst ip stk h o) m
                (code_at_app_l _ _ _ _ Hc) eq_refl HMS Hout Hem) as Hi.
  destruct r as [c|ex| |]; simpl in Hi |- *; auto.
  - destruct Hi as (s1 & m1 & a & locals & Hst1 & Hip1 & Hstk1 & Hlen & Hm1 & HMS1 & Hext1 & Hout1).
    destruct s1 as [ip1 stk1 h1 o1]; simpl in Hip1, Hstk1, HMS1, Hout1; subst ip1 stk1.
    pose proof (code_at_app_r _ _ _ _ Hc) as Hce.
    unfold block_end in *. destruct (0 <? nbinds items) eqn:En.
    + apply Z.ltb_lt in En.
      apply (post_ok_intro _ _ _ _ _ _ (mkst (S (ip + length (compile_items L ce items))) (a :: stk) h1 o1) m1 a);
        simpl; auto.
      * eapply star_snoc; [exact Hst1|]. eapply step_slide_block; eauto. eapply code_at_head; exact Hce.
      * rewrite app_length. simpl. lia.
    + apply Z.ltb_ge in En. pose proof (nbinds_nonneg items).
      assert (locals = []) by (destruct locals; [reflexivity | simpl in Hlen; lia]). subst locals.
      apply (post_ok_intro _ _ _ _ _ _ (mkst (ip + length (compile_items L ce items)) (a :: stk) h1 o1) m1 a);
        simpl; auto.
      rewrite app_nil_r. reflexivity.
  - destruct Hi as [-> Hr]. split; [reflexivity|].
    eapply raises_weaken; [exact Hr | lia | rewrite app_length; lia].
Qed.

Lemma eval_items_nil_inv : forall k env st c r st',
  eval_items genv k env st [] (Some c) = (r, st') -> r = RFuel \/ (r = ROk c /\ st' = st).
Proof.
  intros k env st c r st' H. destruct k.
  - rewrite eval_items_O in H. inv H. auto.
  - rewrite eval_items_nil in H. inv H. auto.
Qed.

(* one binding item followed by the rest of the block *)
Lemma items_bind_step : forall k x e t, expr_spec k -> items_spec k ->
  forall env st r st',
  match eval genv k env st e with
  | (ROk c, st1) => eval_items genv k ((x, c) :: env) st1 t (Some c)
  | r => r end = (r, st') ->
  forall sc, in_F lv sc e && items_F lv (x :: sc) t = true ->
  forall prog pc L ce s m,
    code_at prog pc (compile_expr L ce e ++ compile_items (L + 1) ((x, L + 1) :: ce) t) -> v_ip s = pc ->
    MS m st (v_heap s) -> v_out s = out st -> env_match m env ce sc L (v_stk s) ->
    match r with
    | ROk c =>
      exists s' m' a locals, star prog s s' /\
        v_ip s' = (pc + length (compile_expr L ce e ++ compile_items (L + 1)%Z ((x, (L + 1)%Z) :: ce) t))%nat /\
        v_stk s' = a :: locals ++ v_stk s /\ Z.of_nat (length locals) = 1 + nbinds t /\
        nth_error m' c = Some (Some a) /\ MS m' st' (v_heap s') /\ ext m m' /\ v_out s' = out st'
    | RExc ex => ex = ExDivision /\
        raises prog s pc (pc + length (compile_expr L ce e ++ compile_items (L + 1)%Z ((x, (L + 1)%Z) :: ce) t))%nat st'
    | _ => True
    end.
Proof.
  intros k x e t IHe IHi env st r st' He sc HF prog pc L ce s m Hc Hip HMS Hout Hem.
  destruct s as [ip stk h o]; simpl in Hip, HMS, Hout, Hem; subst pc.
  apply andb_true_iff in HF; destruct HF as [Fe Ft].
  set (ca := compile_expr L ce e) in *. set (ct := compile_items (L + 1) ((x, L + 1) :: ce) t) in *.
  destruct (eval genv k env st e) as [r1 st1] eqn:Ea.
  pose proof (IHe e _ _ _ _ Ea sc Fe prog ip L ce (mkst ip stk h o) m
                (code_at_app_l _ _ _ _ Hc) eq_refl HMS Hout Hem) as Ha. fold ca in Ha.
  destruct r1 as [c1|ex| |]; simpl in Ha; [| inv He; simpl; exc_here Ha | inv He; exact I | inv He; exact I].
  destruct Ha as (s1 & m1 & a1 & Hst1 & Hip1 & Hstk1 & Hm1 & HMS1 & Hext1 & Hout1).
  destruct s1 as [ip1 stk1 h1 o1]; simpl in Hip1, Hstk1, HMS1, Hout1; subst ip1 stk1.
  pose proof (IHi t _ _ _ _ _ He (x :: sc) Ft prog (ip + length ca)%nat (L + 1) ((x, L + 1) :: ce)
                (mkst (ip + length ca) (a1 :: stk) h1 o1) m1 (code_at_app_r _ _ _ _ Hc) eq_refl HMS1 Hout1
                (env_match_bind _ _ _ _ _ _ x c1 a1 (env_match_ext _ _ _ _ _ _ _ Hem Hext1) Hm1)) as Ht.
  fold ct in Ht.
  destruct r as [c|ex| |]; cbv beta iota in Ht |- *; auto.
  - destruct Ht as (s2 & m2 & a2 & locals & Hst2 & Hip2 & Hstk2 & Hlen & Hm2 & HMS2 & Hext2 & Hout2).
    destruct s2 as [ip2 stk2 h2 o2]; simpl in Hip2, Hstk2, HMS2, Hout2; subst ip2 stk2.
    exists (mkst (ip + length ca + length ct) (a2 :: locals ++ a1 :: stk) h2 o2), m2, a2, (locals ++ [a1]).
    cbn [v_ip v_stk v_heap v_out mkst]. split; [eapply star_trans; eauto|]. split; [rewrite app_length; lia|].
    split; [rewrite <- app_assoc; reflexivity|]. split; [rewrite app_length; cbn [length]; lia|].
    split; [exact Hm2|]. split; [exact HMS2|]. split; [eapply ext_trans; eauto | exact Hout2].
  - destruct Ht as [-> Hr]. split; [reflexivity|]. eapply raises_star; [exact Hst1|].
    eapply raises_weaken; [exact Hr | lia | rewrite app_length; lia].
Qed.

Lemma items_step : forall k, expr_spec k -> items_spec k -> items_spec (S k).
Proof.
  intros k IHe IHi items env st last r st' He sc HF prog pc L ce s m Hc Hip HMS Hout Hem.
  destruct items as [|it t]; [discriminate HF|].
  destruct it as [x e | x e | fd | e].
  - rewrite eval_items_ILet in He. rewrite items_F1_let in HF. rewrite compile_items_let in *.
    change (nbinds (ILet x e :: t)) with (1 + nbinds t).
    eapply items_bind_step; eauto.
  - rewrite eval_items_IVar in He. rewrite items_F1_var in HF. rewrite compile_items_var in *.
    change (nbinds (IVar x e :: t)) with (1 + nbinds t).
    eapply items_bind_step; eauto.
  - discriminate HF.
  - destruct s as [ip stk h o]; simpl in Hip, HMS, Hout, Hem; subst pc.
    rewrite eval_items_IExpr in He. rewrite items_F1_expr in HF. rewrite compile_items_expr in *.
    change (nbinds (IExpr e :: t)) with (nbinds t).
    apply andb_true_iff in HF; destruct HF as [Fe Ft].
    set (ca := compile_expr L ce e) in *.
    destruct (eval genv k env st e) as [r1 st1] eqn:Ea.
    pose proof (IHe e _ _ _ _ Ea sc Fe prog ip L ce (mkst ip stk h o) m
                  (code_at_app_l _ _ _ _ Hc) eq_refl HMS Hout Hem) as Ha. fold ca in Ha.
    destruct r1 as [c1|ex| |]; simpl in Ha; [| inv He; simpl; exc_here Ha | inv He; exact I | inv He; exact I].
    destruct Ha as (s1 & m1 & a1 & Hst1 & Hip1 & Hstk1 & Hm1 & HMS1 & Hext1 & Hout1).
    destruct s1 as [ip1 stk1 h1 o1]; simpl in Hip1, Hstk1, HMS1, Hout1; subst ip1 stk1.
    destruct t as [|it2 t2].
    + destruct (eval_items_nil_inv _ _ _ _ _ _ He) as [-> | [-> ->]]; [exact I|].
      exists (mkst (ip + length ca) (a1 :: stk) h1 o1), m1, a1, []. simpl.
      rewrite app_nil_r. repeat (split; auto).
    + set (t := it2 :: t2) in *.
      pose proof (code_at_app_r _ _ _ _ Hc) as Hc2.
      pose proof (code_at_head _ _ _ _ Hc2) as Hsl. pose proof (code_at_tail _ _ _ _ Hc2) as Hct.
      assert (Hpop : star prog (mkst ip stk h o) (mkst (S (ip + length ca)) stk h1 o1)).
      { eapply star_snoc; [exact Hst1|]. apply step_slide_pop. exact Hsl. }
      pose proof (IHi t _ _ _ _ _ He sc Ft prog (S (ip + length ca)) L ce
                    (mkst (S (ip + length ca)) stk h1 o1) m1 Hct eq_refl HMS1 Hout1
                    (env_match_ext _ _ _ _ _ _ _ Hem Hext1)) as Ht.
      destruct r as [c|ex| |]; simpl in Ht |- *; auto.
      * destruct Ht as (s2 & m2 & a2 & locals & Hst2 & Hip2 & Hstk2 & Hlen & Hm2 & HMS2 & Hext2 & Hout2).
        exists s2, m2, a2, locals. split; [eapply star_trans; eauto|].
        split; [rewrite Hip2, app_length; simpl; lia|].
        split; [exact Hstk2|]. split; [exact Hlen|]. split; [exact Hm2|]. split; [exact HMS2|].
        split; [eapply ext_trans; eauto | exact Hout2].
      * destruct Ht as [-> Hr]. split; [reflexivity|]. eapply raises_star; [exact Hpop|].
        eapply raises_weaken; [exact Hr | lia | rewrite app_length; simpl; lia].
Qed.

(* ---- stage 2: short-circuit operators, loops, print ------------------------------------------- *)

Lemma step_jump_to : forall prog ip stk h o off w t,
  nth_error prog ip = Some (ins BYTECODE_JUMP off w) -> Z.of_nat ip + 1 + off = Z.of_nat t ->
  step prog (mkst ip stk h o) = SNext (mkst t stk h o).
Proof.
  intros. unfold step. simpl. rewrite H. simpl. unfold jump_target. rewrite H0.
  destruct (Z.of_nat t <? 0) eqn:E; [apply Z.ltb_lt in E; lia|]. rewrite Nat2Z.id. reflexivity.
Qed.

Lemma step_jumpz_to : forall prog ip a stk h o off w t,
  nth_error prog ip = Some (ins BYTECODE_JUMPZ off w) -> nth_error h a = Some 0 ->
  Z.of_nat ip + 1 + off = Z.of_nat t ->
  step prog (mkst ip (a :: stk) h o) = SNext (mkst t stk h o).
Proof.
  intros. unfold step. simpl. rewrite H. simpl. rewrite H0. simpl. unfold jump_target. rewrite H1.
  destruct (Z.of_nat t <? 0) eqn:E; [apply Z.ltb_lt in E; lia|]. rewrite Nat2Z.id. reflexivity.
Qed.

Lemma step_mark : forall prog ip stk h o rel w t,
  nth_error prog ip = Some (ins BYTECODE_MARK rel w) -> Z.of_nat ip + rel = Z.of_nat t ->
  step prog (mkst ip stk h o) = SNext (mkst (S ip) (t :: 0 :: 0 :: 0 :: 0 :: stk)%nat h o).
Proof.
  intros. unfold step. simpl. rewrite H. simpl. rewrite H0.
  destruct (Z.of_nat t <? 0) eqn:E; [apply Z.ltb_lt in E; lia|]. rewrite Nat2Z.id. reflexivity.
Qed.

Lemma step_global_vec0 : forall prog ip stk h o,
  nth_error prog ip = Some (ins BYTECODE_GLOBAL_VEC 0 0) ->
  step prog (mkst ip stk h o) = SNext (mkst (S ip) (length h :: stk) (h ++ [0]) o).
Proof. intros. unfold step. simpl. rewrite H. reflexivity. Qed.

Lemma step_id_func_addr : forall prog ip v stk h o a w,
  nth_error prog ip = Some (ins BYTECODE_ID_FUNC_ADDR a w) ->
  step prog (mkst ip (v :: stk) h o) = SNext (mkst (S ip) (length h :: stk) (h ++ [a]) o).
Proof. intros. unfold step. simpl. rewrite H. reflexivity. Qed.

Lemma step_call_print : forall prog ip f arg ret x1 x2 x3 x4 stk h o z,
  nth_error prog ip = Some (ins0 BYTECODE_CALL) ->
  nth_error h f = Some print_addr -> nth_error h arg = Some z ->
  step prog (mkst ip (f :: arg :: ret :: x1 :: x2 :: x3 :: x4 :: stk) h o) =
  SNext (mkst ret (length h :: stk) (h ++ [z]) (z :: o)).
Proof. intros. unfold step. simpl. rewrite H. simpl. rewrite H0, H1. reflexivity. Qed.

Lemma MS_heap_app : forall m st h l, MS m st h -> MS m st (h ++ l).
Proof.
  intros m st h l HMS. constructor.
  - apply (ms_len _ _ _ HMS).
  - intros c a Hm. destruct (ms_rel _ _ _ HMS c a Hm) as (v & z & H1 & H2 & H3).
    exists v, z. split; [|split]; auto. rewrite nth_error_app1; auto. apply nth_error_Some. congruence.
  - apply (ms_inj _ _ _ HMS).
Qed.

Lemma MS_print : forall m st h z, MS m st h -> MS m (print_num st z) h.
Proof. intros m st h z HMS. constructor; [apply (ms_len _ _ _ HMS) | apply (ms_rel _ _ _ HMS) | apply (ms_inj _ _ _ HMS)]. Qed.

Lemma env_match_pushn : forall m e ce sc L stk pre, env_match m e ce sc L stk ->
  env_match m e ce sc (L + Z.of_nat (length pre)) (pre ++ stk).
Proof.
  induction pre as [|a pre IH]; intros H.
  - simpl. replace (L + 0) with L by lia. exact H.
  - simpl app. replace (L + Z.of_nat (length (a :: pre))) with (L + Z.of_nat (length pre) + 1)
      by (simpl length; lia).
    apply env_match_push. apply IH. exact H.
Qed.

(* a run that ends where it started (same stack, extended morphism) can be put in front *)
Lemma concl_star : forall prog s s2 pc n m m2 r st',
  star prog s s2 -> v_stk s2 = v_stk s -> ext m m2 ->
  concl prog s2 pc n m2 r st' -> concl prog s pc n m r st'.
Proof.
  intros prog s s2 pc n m m2 r st' Hst Hstk Hext Hc. destruct r as [c|ex| |]; simpl in *; auto.
  - destruct Hc as (s' & m' & a & H1 & H2 & H3 & H4 & H5 & H6 & H7).
    exists s', m', a. split; [eapply star_trans; eauto|]. split; [exact H2|].
    split; [congruence|]. split; [exact H4|]. split; [exact H5|]. split; [eapply ext_trans; eauto | exact H7].
  - destruct Hc as [-> Hr]. split; [reflexivity|]. eapply raises_star; eauto.
Qed.

(* pushing the constant of a finished loop / short-circuit form *)
Lemma concl_int_const : forall prog s0 ip stk h o z v m0 m st r st' pc n,
  star prog s0 (mkst ip stk h o) -> v_stk s0 = stk ->
  nth_error prog ip = Some (ins BYTECODE_INT z 0) -> val_rel v z ->
  MS m st h -> o = out st -> ext m0 m -> fresh st v = (r, st') ->
  forall tail, star prog (mkst (S ip) (length h :: stk) (h ++ [z]) o)
                         (mkst tail (length h :: stk) (h ++ [z]) o) ->
  tail = (pc + n)%nat ->
  concl prog s0 pc n m0 r st'.
Proof.
  intros prog s0 ip stk h o z v m0 m st r st' pc n Hst Hstk Hn Hv HMS Ho Hext Hf tail Htail Ht.
  destruct (fresh_inv _ _ _ _ Hf) as (c & ->). simpl.
  destruct (MS_fresh _ _ _ _ _ _ _ HMS Hv Hf) as (HMS' & Hm' & Hout').
  apply (post_ok_intro _ _ _ _ _ _ (mkst tail (length h :: stk) (h ++ [z]) o)
           (m ++ [Some (length h)]) (length h)); simpl; auto.
  - eapply star_trans; [exact Hst|]. eapply star_step; [apply (step_int _ _ _ _ _ z 0); exact Hn|]. exact Htail.
  - congruence.
  - eapply ext_trans; [exact Hext | apply ext_snoc].
  - congruence.
Qed.

Lemma and_code_length : forall ca cb, length (and_code ca cb) = (length ca + length cb + 7)%nat.
Proof. intros. unfold and_code. rewrite !app_length. simpl. rewrite app_length. simpl. lia. Qed.
Lemma or_code_length : forall ca cb, length (or_code ca cb) = (length ca + length cb + 10)%nat.
Proof. intros. unfold or_code. rewrite !app_length. simpl. rewrite app_length. simpl. lia. Qed.
Lemma while_code_length : forall cc cb, length (while_code cc cb) = (length cc + length cb + 6)%nat.
Proof. intros. unfold while_code. simpl. rewrite !app_length. simpl. rewrite app_length. simpl. lia. Qed.
Lemma dowhile_code_length : forall cb cc, length (dowhile_code cb cc) = (length cb + length cc + 6)%nat.
Proof. intros. unfold dowhile_code. simpl. rewrite !app_length. simpl. rewrite app_length. simpl. lia. Qed.
Lemma print_code_length : forall ca, length (print_code ca) = (length ca + 6)%nat.
Proof. intros. unfold print_code. simpl. rewrite app_length. simpl. lia. Qed.

Lemma case_EAnd : forall k a b, expr_spec k -> expr_case (S k) (EBin And a b).
Proof.
  intros k a b IH env st r st' He sc HF prog pc L ce s m Hc Hip HMS Hout Hem.
  destruct s as [ip stk h o]; simpl in Hip, HMS, Hout, Hem; subst pc.
  simpl in HF.
  apply andb_true_iff in HF; destruct HF as [HF Fb].
  apply andb_true_iff in HF; destruct HF as [_ Fa].
  rewrite eval_EAnd in He.
  change (compile_expr L ce (EBin And a b)) with (and_code (compile_expr L ce a) (compile_expr L ce b)) in *.
  set (ca := compile_expr L ce a) in *. set (cb := compile_expr L ce b) in *.
  rewrite and_code_length. unfold and_code in Hc.
  pose proof (code_at_app_l _ _ _ _ Hc) as Hca.
  pose proof (code_at_app_r _ _ _ _ Hc) as H1.
  pose proof (code_at_head _ _ _ _ H1) as HJA.
  pose proof (code_at_tail _ _ _ _ H1) as H2.
  pose proof (code_at_app_l _ _ _ _ H2) as Hcb.
  pose proof (code_at_app_r _ _ _ _ H2) as H3.
  pose proof (code_at_head _ _ _ _ H3) as HJB.
  pose proof (code_at_tail _ _ _ _ H3) as H4.
  pose proof (code_at_head _ _ _ _ H4) as HI1.
  pose proof (code_at_tail _ _ _ _ H4) as H5.
  pose proof (code_at_head _ _ _ _ H5) as HJE.
  pose proof (code_at_tail _ _ _ _ (code_at_tail _ _ _ _ H5)) as H6.
  pose proof (code_at_head _ _ _ _ H6) as HI0.
  pose proof (code_at_head _ _ _ _ (code_at_tail _ _ _ _ H6)) as HLE.
  destruct (eval genv k env st a) as [r1 st1] eqn:Ea.
  pose proof (IH a _ _ _ _ Ea sc Fa prog ip L ce (mkst ip stk h o) m Hca eq_refl HMS Hout Hem) as Ha.
  fold ca in Ha.
  destruct r1 as [c1|ex| |]; simpl in Ha; [| inv He; simpl | inv He; exact I | inv He; exact I].
  2:{ destruct Ha as [-> Hr]. split; [reflexivity|]. eapply raises_weaken; [exact Hr | lia | lia]. }
  destruct Ha as (s1 & m1 & a1 & Hst1 & Hip1 & Hstk1 & Hm1 & HMS1 & Hext1 & Hout1).
  destruct s1 as [ip1 stk1 h1 o1]; simpl in Hip1, Hstk1, HMS1, Hout1; subst ip1 stk1.
  destruct (get_bool st1 c1) as [bv|] eqn:Eg; [|inv He; exact I].
  pose proof (MS_payload_bool _ _ _ _ _ _ HMS1 Hm1 Eg) as Hp.
  (* the false exit: INT 0; LABEL *)
  assert (Hfalse : forall hx ox, star prog (mkst (S (S (ip + length ca + length cb + 4))) (length hx :: stk) (hx ++ [0]) ox)
                                      (mkst (ip + (length ca + length cb + 7)) (length hx :: stk) (hx ++ [0]) ox)).
  { intros. replace (ip + (length ca + length cb + 7))%nat with (S (S (S (ip + length ca + length cb + 4)))) by lia.
    apply star_one, step_label.
    replace (S (S (ip + length ca + length cb + 4))) with (S (S (S (S (S (S (ip + length ca) + length cb)))))) by lia.
    exact HLE. }
  destruct bv.
  - assert (Hj : star prog (mkst ip stk h o) (mkst (S (ip + length ca)) stk h1 o1)).
    { eapply star_snoc; [exact Hst1|]. eapply step_jumpz_nonzero; eauto. simpl. lia. }
    destruct (eval genv k env st1 b) as [r2 st2] eqn:Eb.
    pose proof (IH b _ _ _ _ Eb sc Fb prog (S (ip + length ca)) L ce (mkst (S (ip + length ca)) stk h1 o1) m1
                  Hcb eq_refl HMS1 Hout1 (env_match_ext _ _ _ _ _ _ _ Hem Hext1)) as Hb.
    fold cb in Hb.
    destruct r2 as [c2|ex| |]; simpl in Hb; [| inv He; simpl | inv He; exact I | inv He; exact I].
    2:{ destruct Hb as [-> Hr]. split; [reflexivity|]. eapply raises_star; [exact Hj|].
        eapply raises_weaken; [exact Hr | lia | lia]. }
    destruct Hb as (s2 & m2 & a2 & Hst2 & Hip2 & Hstk2 & Hm2 & HMS2 & Hext2 & Hout2).
    destruct s2 as [ip2 stk2 h2 o2]; simpl in Hip2, Hstk2, HMS2, Hout2; subst ip2 stk2.
    destruct (get_bool st2 c2) as [bv2|] eqn:Eg2; [|inv He; exact I].
    pose proof (MS_payload_bool _ _ _ _ _ _ HMS2 Hm2 Eg2) as Hp2.
    assert (Hext : ext m m2) by (eapply ext_trans; eauto).
    destruct bv2.
    + (* both true: INT 1; JUMP E *)
      eapply (concl_int_const _ _ (S (S (ip + length ca) + length cb)) stk h2 o2 1 (CBool true)); eauto.
      * eapply star_trans; [exact Hj|]. eapply star_snoc; [exact Hst2|].
        eapply step_jumpz_nonzero; eauto. simpl. lia.
      * reflexivity.
      * apply star_one. eapply step_jump_to; [exact HJE | lia].
    + eapply (concl_int_const _ _ (S (ip + length ca + length cb + 4)) stk h2 o2 0 (CBool false)); eauto.
      * eapply star_trans; [exact Hj|]. eapply star_snoc; [exact Hst2|].
        eapply step_jumpz_to; [exact HJB | exact Hp2 | lia].
      * replace (S (ip + length ca + length cb + 4)) with (S (S (S (S (S (ip + length ca) + length cb))))) by lia.
        exact HI0.
      * reflexivity.
  - eapply (concl_int_const _ _ (S (ip + length ca + length cb + 4)) stk h1 o1 0 (CBool false)); eauto.
    + eapply star_snoc; [exact Hst1|]. eapply step_jumpz_to; [exact HJA | exact Hp | unfold len; lia].
    + replace (S (ip + length ca + length cb + 4)) with (S (S (S (S (S (ip + length ca) + length cb))))) by lia.
      exact HI0.
    + reflexivity.
Qed.

Lemma case_EOr : forall k a b, expr_spec k -> expr_case (S k) (EBin Or a b).
Proof.
  intros k a b IH env st r st' He sc HF prog pc L ce s m Hc Hip HMS Hout Hem.
  destruct s as [ip stk h o]; simpl in Hip, HMS, Hout, Hem; subst pc.
  simpl in HF.
  apply andb_true_iff in HF; destruct HF as [HF Fb].
  apply andb_true_iff in HF; destruct HF as [_ Fa].
  rewrite eval_EOr in He.
  change (compile_expr L ce (EBin Or a b)) with (or_code (compile_expr L ce a) (compile_expr L ce b)) in *.
  set (ca := compile_expr L ce a) in *. set (cb := compile_expr L ce b) in *.
  rewrite or_code_length. unfold or_code in Hc.
  pose proof (code_at_app_l _ _ _ _ Hc) as Hca.
  pose proof (code_at_app_r _ _ _ _ Hc) as H1.
  pose proof (code_at_head _ _ _ _ H1) as HJA.
  pose proof (code_at_tail _ _ _ _ H1) as H1a.
  pose proof (code_at_head _ _ _ _ H1a) as HJET.
  pose proof (code_at_tail _ _ _ _ (code_at_tail _ _ _ _ H1a)) as H2.
  pose proof (code_at_app_l _ _ _ _ H2) as Hcb.
  pose proof (code_at_app_r _ _ _ _ H2) as H3.
  set (p1 := (ip + length ca)%nat) in *. set (p2 := (S (S (S p1)) + length cb)%nat) in *.
  pose proof (code_at_head _ _ _ _ H3) as HJB.
  pose proof (code_at_tail _ _ _ _ H3) as H4.
  pose proof (code_at_head _ _ _ _ H4) as HLET.
  pose proof (code_at_tail _ _ _ _ H4) as H5.
  pose proof (code_at_head _ _ _ _ H5) as HI1.
  pose proof (code_at_tail _ _ _ _ H5) as H6.
  pose proof (code_at_head _ _ _ _ H6) as HJE.
  pose proof (code_at_tail _ _ _ _ (code_at_tail _ _ _ _ H6)) as H8.
  pose proof (code_at_head _ _ _ _ H8) as HI0.
  pose proof (code_at_head _ _ _ _ (code_at_tail _ _ _ _ H8)) as HLE.
  assert (Hend : (S (S (S (S (S (S (S p2)))))) = ip + (length ca + length cb + 10))%nat) by (subst p1 p2; lia).
  assert (Htrue : forall hx ox, star prog (mkst (S (S (S p2))) (length hx :: stk) (hx ++ [1]) ox)
                                     (mkst (S (S (S (S (S (S (S p2))))))) (length hx :: stk) (hx ++ [1]) ox)).
  { intros. apply star_one. eapply step_jump_to; [exact HJE | lia]. }
  assert (Hfalse : forall hx ox, star prog (mkst (S (S (S (S (S (S p2)))))) (length hx :: stk) (hx ++ [0]) ox)
                                      (mkst (S (S (S (S (S (S (S p2))))))) (length hx :: stk) (hx ++ [0]) ox)).
  { intros. apply star_one, step_label. exact HLE. }
  destruct (eval genv k env st a) as [r1 st1] eqn:Ea.
  pose proof (IH a _ _ _ _ Ea sc Fa prog ip L ce (mkst ip stk h o) m Hca eq_refl HMS Hout Hem) as Ha.
  fold ca in Ha. fold p1 in Ha.
  destruct r1 as [c1|ex| |]; simpl in Ha; [| inv He; simpl | inv He; exact I | inv He; exact I].
  2:{ destruct Ha as [-> Hr]. split; [reflexivity|]. eapply raises_weaken; [exact Hr | lia | subst p1; lia]. }
  destruct Ha as (s1 & m1 & a1 & Hst1 & Hip1 & Hstk1 & Hm1 & HMS1 & Hext1 & Hout1).
  destruct s1 as [ip1 stk1 h1 o1]; simpl in Hip1, Hstk1, HMS1, Hout1; subst ip1 stk1.
  destruct (get_bool st1 c1) as [bv|] eqn:Eg; [|inv He; exact I].
  pose proof (MS_payload_bool _ _ _ _ _ _ HMS1 Hm1 Eg) as Hp.
  destruct bv.
  - (* a true: JUMPZ falls through, JUMP T, INT 1, JUMP E *)
    eapply (concl_int_const _ _ (S (S p2)) stk h1 o1 1 (CBool true)); eauto.
    + eapply star_snoc; [eapply star_snoc; [exact Hst1|]|].
      * eapply step_jumpz_nonzero; eauto. simpl. lia.
      * eapply step_jump_to; [exact HJET | subst p2; unfold len; lia].
    + reflexivity.
  - assert (Hj : star prog (mkst ip stk h o) (mkst (S (S (S p1))) stk h1 o1)).
    { eapply star_snoc; [exact Hst1|]. eapply step_jumpz_to; [exact HJA | exact Hp | lia]. }
    destruct (eval genv k env st1 b) as [r2 st2] eqn:Eb.
    pose proof (IH b _ _ _ _ Eb sc Fb prog (S (S (S p1))) L ce (mkst (S (S (S p1))) stk h1 o1) m1
                  Hcb eq_refl HMS1 Hout1 (env_match_ext _ _ _ _ _ _ _ Hem Hext1)) as Hb.
    fold cb in Hb. fold p2 in Hb.
    destruct r2 as [c2|ex| |]; simpl in Hb; [| inv He; simpl | inv He; exact I | inv He; exact I].
    2:{ destruct Hb as [-> Hr]. split; [reflexivity|]. eapply raises_star; [exact Hj|].
        eapply raises_weaken; [exact Hr | subst p1; lia | lia]. }
    destruct Hb as (s2 & m2 & a2 & Hst2 & Hip2 & Hstk2 & Hm2 & HMS2 & Hext2 & Hout2).
    destruct s2 as [ip2 stk2 h2 o2]; simpl in Hip2, Hstk2, HMS2, Hout2; subst ip2 stk2.
    destruct (get_bool st2 c2) as [bv2|] eqn:Eg2; [|inv He; exact I].
    pose proof (MS_payload_bool _ _ _ _ _ _ HMS2 Hm2 Eg2) as Hp2.
    assert (Hext : ext m m2) by (eapply ext_trans; eauto).
    destruct bv2.
    + eapply (concl_int_const _ _ (S (S p2)) stk h2 o2 1 (CBool true)); eauto.
      * eapply star_trans; [exact Hj|]. eapply star_snoc; [eapply star_snoc; [exact Hst2|]|].
        -- eapply step_jumpz_nonzero; eauto. simpl. lia.
        -- apply step_label. exact HLET.
      * reflexivity.
    + eapply (concl_int_const _ _ (S (S (S (S (S p2))))) stk h2 o2 0 (CBool false)); eauto.
      * eapply star_trans; [exact Hj|]. eapply star_snoc; [exact Hst2|].
        eapply step_jumpz_to; [exact HJB | exact Hp2 | lia].
      * reflexivity.
Qed.

(* ---- loops: the statement for a run that starts after the loop's first LABEL -------------------- *)

Definition while_spec (k : nat) : Prop :=
  forall c b env st r st', eval genv k env st (EWhile c b) = (r, st') ->
  forall sc, in_F lv sc c = true -> in_F lv sc b = true ->
  forall prog pc L ce s m,
    code_at prog pc (while_code (compile_expr L ce c) (compile_expr L ce b)) -> v_ip s = S pc ->
    MS m st (v_heap s) -> v_out s = out st -> env_match m env ce sc L (v_stk s) ->
    concl prog s pc (length (while_code (compile_expr L ce c) (compile_expr L ce b))) m r st'.

Definition dowhile_spec (k : nat) : Prop :=
  forall b c env st r st', eval genv k env st (EDoWhile b c) = (r, st') ->
  forall sc, in_F lv sc b = true -> in_F lv sc c = true ->
  forall prog pc L ce s m,
    code_at prog pc (dowhile_code (compile_expr L ce b) (compile_expr L ce c)) -> v_ip s = S pc ->
    MS m st (v_heap s) -> v_out s = out st -> env_match m env ce sc L (v_stk s) ->
    concl prog s pc (length (dowhile_code (compile_expr L ce b) (compile_expr L ce c))) m r st'.

Lemma while_step : forall k, expr_spec k -> while_spec k -> while_spec (S k).
Proof.
  intros k IH IHw c b env st r st' He sc Fc Fb prog pc L ce s m Hc Hip HMS Hout Hem.
  destruct s as [ip stk h o]; simpl in Hip, HMS, Hout, Hem; subst ip.
  rewrite eval_EWhile in He.
  set (cc := compile_expr L ce c) in *. set (cb := compile_expr L ce b) in *.
  rewrite while_code_length. pose proof Hc as Hc0. unfold while_code in Hc.
  pose proof (code_at_tail _ _ _ _ Hc) as H0.
  pose proof (code_at_app_l _ _ _ _ H0) as Hcc.
  pose proof (code_at_app_r _ _ _ _ H0) as H1.
  pose proof (code_at_head _ _ _ _ H1) as HJZ.
  pose proof (code_at_tail _ _ _ _ H1) as H2.
  pose proof (code_at_app_l _ _ _ _ H2) as Hcb.
  pose proof (code_at_app_r _ _ _ _ H2) as H3.
  set (q := (S (S pc + length cc) + length cb)%nat) in *.
  pose proof (code_at_head _ _ _ _ H3) as HSL.
  pose proof (code_at_head _ _ _ _ (code_at_tail _ _ _ _ H3)) as HJ.
  pose proof (code_at_head _ _ _ _ (code_at_tail _ _ _ _ (code_at_tail _ _ _ _ (code_at_tail _ _ _ _ H3)))) as HI0.
  assert (Hend : (S (S (S (S q))) = pc + (length cc + length cb + 6))%nat) by (subst q; lia).
  destruct (eval genv k env st c) as [r1 st1] eqn:Ec.
  pose proof (IH c _ _ _ _ Ec sc Fc prog (S pc) L ce (mkst (S pc) stk h o) m Hcc eq_refl HMS Hout Hem) as Hcnd.
  fold cc in Hcnd.
  destruct r1 as [c1|ex| |]; simpl in Hcnd; [| inv He; simpl | inv He; exact I | inv He; exact I].
  2:{ destruct Hcnd as [-> Hr]. split; [reflexivity|]. eapply raises_weaken; [exact Hr | lia | lia]. }
  destruct Hcnd as (s1 & m1 & a1 & Hst1 & Hip1 & Hstk1 & Hm1 & HMS1 & Hext1 & Hout1).
  destruct s1 as [ip1 stk1 h1 o1]; simpl in Hip1, Hstk1, HMS1, Hout1; subst ip1 stk1.
  destruct (get_bool st1 c1) as [bv|] eqn:Eg; [|inv He; exact I].
  pose proof (MS_payload_bool _ _ _ _ _ _ HMS1 Hm1 Eg) as Hp.
  pose proof (env_match_ext _ _ _ _ _ _ _ Hem Hext1) as Hem1.
  destruct bv.
  - assert (Hj : star prog (mkst (S pc) stk h o) (mkst (S (S pc + length cc)) stk h1 o1)).
    { eapply star_snoc; [exact Hst1|]. eapply step_jumpz_nonzero; eauto. simpl. lia. }
    destruct (eval genv k env st1 b) as [r2 st2] eqn:Eb.
    pose proof (IH b _ _ _ _ Eb sc Fb prog (S (S pc + length cc)) L ce (mkst (S (S pc + length cc)) stk h1 o1) m1
                  Hcb eq_refl HMS1 Hout1 Hem1) as Hb.
    fold cb in Hb. fold q in Hb.
    destruct r2 as [c2|ex| |]; simpl in Hb; [| inv He; simpl | inv He; exact I | inv He; exact I].
    2:{ destruct Hb as [-> Hr]. split; [reflexivity|]. eapply raises_star; [exact Hj|].
        eapply raises_weaken; [exact Hr | lia | lia]. }
    destruct Hb as (s2 & m2 & a2 & Hst2 & Hip2 & Hstk2 & Hm2 & HMS2 & Hext2 & Hout2).
    destruct s2 as [ip2 stk2 h2 o2]; simpl in Hip2, Hstk2, HMS2, Hout2; subst ip2 stk2.
    assert (Hback : star prog (mkst (S pc) stk h o) (mkst (S pc) stk h2 o2)).
    { eapply star_trans; [exact Hj|]. eapply star_snoc; [eapply star_snoc; [exact Hst2|]|].
      - apply step_slide_pop. exact HSL.
      - eapply step_jump_to; [exact HJ | subst q; unfold len; lia]. }
    pose proof (IHw c b _ _ _ _ He sc Fc Fb prog pc L ce (mkst (S pc) stk h2 o2) m2 Hc0 eq_refl HMS2 Hout2
                  (env_match_ext _ _ _ _ _ _ _ Hem1 Hext2)) as Hloop.
    fold cc cb in Hloop. rewrite while_code_length in Hloop.
    eapply concl_star; [exact Hback | reflexivity | eapply ext_trans; eauto | exact Hloop].
  - eapply (concl_int_const _ _ (S (S (S q))) stk h1 o1 0 (CInt 0)); eauto.
    + eapply star_snoc; [exact Hst1|]. eapply step_jumpz_to; [exact HJZ | exact Hp | subst q; unfold len; lia].
    + reflexivity.
    + apply star_refl.
Qed.

Lemma case_EWhile : forall k c b, while_spec (S k) -> expr_case (S k) (EWhile c b).
Proof.
  intros k c b IHw env st r st' He sc HF prog pc L ce s m Hc Hip HMS Hout Hem.
  destruct s as [ip stk h o]; simpl in Hip, HMS, Hout, Hem; subst pc.
  simpl in HF.
  apply andb_true_iff in HF; destruct HF as [HF Fb].
  apply andb_true_iff in HF; destruct HF as [_ Fc].
  change (compile_expr L ce (EWhile c b)) with (while_code (compile_expr L ce c) (compile_expr L ce b)) in *.
  pose proof (IHw c b _ _ _ _ He sc Fc Fb prog ip L ce (mkst (S ip) stk h o) m Hc eq_refl HMS Hout Hem) as Hx.
  eapply (concl_star _ _ (mkst (S ip) stk h o)); [| reflexivity | apply ext_refl | exact Hx].
  apply star_one, step_label. unfold while_code in Hc. eapply code_at_head; exact Hc.
Qed.

Lemma dowhile_step : forall k, expr_spec k -> dowhile_spec k -> dowhile_spec (S k).
Proof.
  intros k IH IHw b c env st r st' He sc Fb Fc prog pc L ce s m Hc Hip HMS Hout Hem.
  destruct s as [ip stk h o]; simpl in Hip, HMS, Hout, Hem; subst ip.
  rewrite eval_EDoWhile in He.
  set (cb := compile_expr L ce b) in *. set (cc := compile_expr L ce c) in *.
  rewrite dowhile_code_length. pose proof Hc as Hc0. unfold dowhile_code in Hc.
  pose proof (code_at_tail _ _ _ _ Hc) as H0.
  pose proof (code_at_app_l _ _ _ _ H0) as Hcb.
  pose proof (code_at_app_r _ _ _ _ H0) as H1.
  pose proof (code_at_head _ _ _ _ H1) as HSL.
  pose proof (code_at_tail _ _ _ _ H1) as H2.
  pose proof (code_at_app_l _ _ _ _ H2) as Hcc.
  pose proof (code_at_app_r _ _ _ _ H2) as H3.
  set (q := (S (S pc + length cb) + length cc)%nat) in *.
  pose proof (code_at_head _ _ _ _ H3) as HJZ.
  pose proof (code_at_head _ _ _ _ (code_at_tail _ _ _ _ H3)) as HJ.
  pose proof (code_at_head _ _ _ _ (code_at_tail _ _ _ _ (code_at_tail _ _ _ _ (code_at_tail _ _ _ _ H3)))) as HI0.
  assert (Hend : (S (S (S (S q))) = pc + (length cb + length cc + 6))%nat) by (subst q; lia).
  destruct (eval genv k env st b) as [r1 st1] eqn:Eb.
  pose proof (IH b _ _ _ _ Eb sc Fb prog (S pc) L ce (mkst (S pc) stk h o) m Hcb eq_refl HMS Hout Hem) as Hbd.
  fold cb in Hbd.
  destruct r1 as [c1|ex| |]; simpl in Hbd; [| inv He; simpl | inv He; exact I | inv He; exact I].
  2:{ destruct Hbd as [-> Hr]. split; [reflexivity|]. eapply raises_weaken; [exact Hr | lia | lia]. }
  destruct Hbd as (s1 & m1 & a1 & Hst1 & Hip1 & Hstk1 & Hm1 & HMS1 & Hext1 & Hout1).
  destruct s1 as [ip1 stk1 h1 o1]; simpl in Hip1, Hstk1, HMS1, Hout1; subst ip1 stk1.
  pose proof (env_match_ext _ _ _ _ _ _ _ Hem Hext1) as Hem1.
  assert (Hj : star prog (mkst (S pc) stk h o) (mkst (S (S pc + length cb)) stk h1 o1)).
  { eapply star_snoc; [exact Hst1|]. apply step_slide_pop. exact HSL. }
  destruct (eval genv k env st1 c) as [r2 st2] eqn:Ec.
  pose proof (IH c _ _ _ _ Ec sc Fc prog (S (S pc + length cb)) L ce (mkst (S (S pc + length cb)) stk h1 o1) m1
                Hcc eq_refl HMS1 Hout1 Hem1) as Hcnd.
  fold cc in Hcnd. fold q in Hcnd.
  destruct r2 as [c2|ex| |]; simpl in Hcnd; [| inv He; simpl | inv He; exact I | inv He; exact I].
  2:{ destruct Hcnd as [-> Hr]. split; [reflexivity|]. eapply raises_star; [exact Hj|].
      eapply raises_weaken; [exact Hr | lia | lia]. }
  destruct Hcnd as (s2 & m2 & a2 & Hst2 & Hip2 & Hstk2 & Hm2 & HMS2 & Hext2 & Hout2).
  destruct s2 as [ip2 stk2 h2 o2]; simpl in Hip2, Hstk2, HMS2, Hout2; subst ip2 stk2.
  destruct (get_bool st2 c2) as [bv|] eqn:Eg; [|inv He; exact I].
  pose proof (MS_payload_bool _ _ _ _ _ _ HMS2 Hm2 Eg) as Hp.
  assert (Hext : ext m m2) by (eapply ext_trans; eauto).
  destruct bv.
  - assert (Hback : star prog (mkst (S pc) stk h o) (mkst (S pc) stk h2 o2)).
    { eapply star_trans; [exact Hj|]. eapply star_snoc; [eapply star_snoc; [exact Hst2|]|].
      - eapply step_jumpz_nonzero; eauto. simpl. lia.
      - eapply step_jump_to; [exact HJ | subst q; unfold len; lia]. }
    pose proof (IHw b c _ _ _ _ He sc Fb Fc prog pc L ce (mkst (S pc) stk h2 o2) m2 Hc0 eq_refl HMS2 Hout2
                  (env_match_ext _ _ _ _ _ _ _ Hem1 Hext2)) as Hloop.
    fold cb cc in Hloop. rewrite dowhile_code_length in Hloop.
    eapply concl_star; [exact Hback | reflexivity | exact Hext | exact Hloop].
  - eapply (concl_int_const _ _ (S (S (S q))) stk h2 o2 0 (CInt 0)); eauto.
    + eapply star_trans; [exact Hj|]. eapply star_snoc; [exact Hst2|].
      eapply step_jumpz_to; [exact HJZ | exact Hp | lia].
    + reflexivity.
    + apply star_refl.
Qed.

Lemma case_EDoWhile : forall k b c, dowhile_spec (S k) -> expr_case (S k) (EDoWhile b c).
Proof.
  intros k b c IHw env st r st' He sc HF prog pc L ce s m Hc Hip HMS Hout Hem.
  destruct s as [ip stk h o]; simpl in Hip, HMS, Hout, Hem; subst pc.
  simpl in HF.
  apply andb_true_iff in HF; destruct HF as [HF Fc].
  apply andb_true_iff in HF; destruct HF as [_ Fb].
  change (compile_expr L ce (EDoWhile b c)) with (dowhile_code (compile_expr L ce b) (compile_expr L ce c)) in *.
  pose proof (IHw b c _ _ _ _ He sc Fb Fc prog ip L ce (mkst (S ip) stk h o) m Hc eq_refl HMS Hout Hem) as Hx.
  eapply (concl_star _ _ (mkst (S ip) stk h o)); [| reflexivity | apply ext_refl | exact Hx].
  apply star_one, step_label. unfold dowhile_code in Hc. eapply code_at_head; exact Hc.
Qed.

Lemma case_EFor : forall k i c st0 b, expr_spec k -> expr_case (S k) (EFor i c st0 b).
Proof.
  intros k i c st0 b IH env st r st' He sc HF prog pc L ce s m Hc Hip HMS Hout Hem.
  destruct s as [ip stk h o]; simpl in Hip, HMS, Hout, Hem; subst pc.
  simpl in HF.
  apply andb_true_iff in HF; destruct HF as [HF Fb].
  apply andb_true_iff in HF; destruct HF as [HF Fs].
  apply andb_true_iff in HF; destruct HF as [HF Fc].
  apply andb_true_iff in HF; destruct HF as [Hlv Fi].
  assert (Fw : in_F lv sc (EWhile c (EBlock [IExpr b; IExpr st0])) = true).
  { simpl. rewrite Hlv, Fc, Fb, Fs. reflexivity. }
  rewrite eval_EFor in He. rewrite compile_for in *.
  set (ci := compile_expr L ce i) in *.
  set (cw := compile_expr L ce (EWhile c (EBlock [IExpr b; IExpr st0]))) in *.
  destruct (eval genv k env st i) as [r1 st1] eqn:Ei.
  pose proof (IH i _ _ _ _ Ei sc Fi prog ip L ce (mkst ip stk h o) m (code_at_app_l _ _ _ _ Hc) eq_refl HMS Hout Hem) as Hi.
  fold ci in Hi.
  destruct r1 as [c1|ex| |]; simpl in Hi; [| inv He; simpl | inv He; exact I | inv He; exact I].
  2:{ destruct Hi as [-> Hr]. split; [reflexivity|]. eapply raises_weaken; [exact Hr | lia | rewrite app_length; lia]. }
  destruct Hi as (s1 & m1 & a1 & Hst1 & Hip1 & Hstk1 & Hm1 & HMS1 & Hext1 & Hout1).
  destruct s1 as [ip1 stk1 h1 o1]; simpl in Hip1, Hstk1, HMS1, Hout1; subst ip1 stk1.
  pose proof (code_at_app_r _ _ _ _ Hc) as H1.
  assert (Hpop : star prog (mkst ip stk h o) (mkst (S (ip + length ci)) stk h1 o1)).
  { eapply star_snoc; [exact Hst1|]. apply step_slide_pop. eapply code_at_head; exact H1. }
  pose proof (IH _ _ _ _ _ He sc Fw prog (S (ip + length ci)) L ce (mkst (S (ip + length ci)) stk h1 o1) m1
                (code_at_tail _ _ _ _ H1) eq_refl HMS1 Hout1 (env_match_ext _ _ _ _ _ _ _ Hem Hext1)) as Hw.
  fold cw in Hw.
  replace (length (ci ++ ins BYTECODE_SLIDE 1 0 :: cw)) with (S (length ci) + length cw)%nat
    by (rewrite app_length; simpl; lia).
  destruct r as [c2|ex| |]; simpl in Hw |- *; auto.
  - destruct Hw as (s2 & m2 & a2 & Hst2 & Hip2 & Hstk2 & Hm2 & HMS2 & Hext2 & Hout2).
    exists s2, m2, a2. split; [eapply star_trans; eauto|]. split; [rewrite Hip2; lia|].
    split; [exact Hstk2|]. split; [exact Hm2|]. split; [exact HMS2|].
    split; [eapply ext_trans; eauto | exact Hout2].
  - destruct Hw as [-> Hr]. split; [reflexivity|]. eapply raises_star; [exact Hpop|].
    eapply raises_weaken; [exact Hr | lia | lia].
Qed.

Lemma case_EPrint : forall k a, expr_spec k -> expr_case (S k) (EPrint a).
Proof.
  intros k a IH env st r st' He sc HF prog pc L ce s m Hc Hip HMS Hout Hem.
  destruct s as [ip stk h o]; simpl in Hip, HMS, Hout, Hem; subst pc.
  simpl in HF. apply andb_true_iff in HF; destruct HF as [_ Fa].
  rewrite eval_EPrint in He.
  change (compile_expr L ce (EPrint a)) with (print_code (compile_expr (L + num_frame_ptrs) ce a)) in *.
  set (ca := compile_expr (L + num_frame_ptrs) ce a) in *.
  rewrite print_code_length. unfold print_code in Hc.
  pose proof (code_at_head _ _ _ _ Hc) as HLN.
  pose proof (code_at_tail _ _ _ _ Hc) as H1.
  pose proof (code_at_head _ _ _ _ H1) as HMK.
  pose proof (code_at_tail _ _ _ _ H1) as H2.
  pose proof (code_at_app_l _ _ _ _ H2) as Hca.
  pose proof (code_at_app_r _ _ _ _ H2) as H3.
  set (q := (S (S ip) + length ca)%nat) in *.
  pose proof (code_at_head _ _ _ _ H3) as HGV.
  pose proof (code_at_head _ _ _ _ (code_at_tail _ _ _ _ H3)) as HFA.
  pose proof (code_at_head _ _ _ _ (code_at_tail _ _ _ _ (code_at_tail _ _ _ _ H3))) as HCL.
  pose proof (code_at_head _ _ _ _ (code_at_tail _ _ _ _ (code_at_tail _ _ _ _ (code_at_tail _ _ _ _ H3)))) as HLB.
  set (hdr := [S (S (S q)); 0; 0; 0; 0]%nat).
  assert (Hmk : star prog (mkst ip stk h o) (mkst (S (S ip)) (hdr ++ stk) h o)).
  { eapply star_step; [apply step_line; exact HLN|]. apply star_one.
    eapply step_mark; [exact HMK | subst q; unfold len; lia]. }
  destruct (eval genv k env st a) as [r1 st1] eqn:Ea.
  pose proof (env_match_pushn _ _ _ _ _ _ hdr Hem) as Hem5.
  change (Z.of_nat (length hdr)) with num_frame_ptrs in Hem5.
  pose proof (IH a _ _ _ _ Ea sc Fa prog (S (S ip)) (L + num_frame_ptrs) ce (mkst (S (S ip)) (hdr ++ stk) h o) m
                Hca eq_refl HMS Hout Hem5) as Ha.
  fold ca in Ha. fold q in Ha.
  destruct r1 as [c1|ex| |]; simpl in Ha; [| inv He; simpl | inv He; exact I | inv He; exact I].
  2:{ destruct Ha as [-> Hr]. split; [reflexivity|]. eapply raises_star; [exact Hmk|].
      eapply raises_weaken; [exact Hr | lia | subst q; lia]. }
  destruct Ha as (s1 & m1 & a1 & Hst1 & Hip1 & Hstk1 & Hm1 & HMS1 & Hext1 & Hout1).
  destruct s1 as [ip1 stk1 h1 o1]; simpl in Hip1, Hstk1, HMS1, Hout1; subst ip1 stk1.
  destruct (get_int st1 c1) as [z|] eqn:Eg; [|inv He; exact I].
  pose proof (MS_payload_int _ _ _ _ _ _ HMS1 Hm1 Eg) as Hp.
  destruct (fresh_inv _ _ _ _ He) as (c & ->). simpl.
  set (h3 := (h1 ++ [0]) ++ [print_addr]).
  assert (HMS3 : MS m1 (print_num st1 z) h3).
  { apply MS_print. unfold h3. apply MS_heap_app. apply MS_heap_app. exact HMS1. }
  assert (Hv : val_rel (CInt z) z) by reflexivity.
  destruct (MS_fresh _ _ _ _ _ _ _ HMS3 Hv He) as (HMS' & Hm' & Hout').
  apply (post_ok_intro _ _ _ _ _ _ (mkst (S (S (S (S q)))) (length h3 :: stk) (h3 ++ [z]) (z :: o1))
           (m1 ++ [Some (length h3)]) (length h3)); simpl; auto.
  - eapply star_trans; [exact Hmk|]. eapply star_trans; [exact Hst1|].
    eapply star_step; [apply step_global_vec0; exact HGV|].
    eapply star_step; [eapply step_id_func_addr; exact HFA|].
    eapply star_step.
    + unfold hdr. simpl app. eapply (step_call_print _ _ _ a1 _ _ _ _ _ _ _ _ z); [exact HCL | |].
      * rewrite nth_error_app2 by (rewrite app_length; simpl; lia).
        rewrite app_length. simpl. replace (length h1 + 1 - (length h1 + 1))%nat with 0%nat by lia. reflexivity.
      * rewrite nth_error_app1 by (rewrite app_length; apply nth_error_Some in Hp || (assert (a1 < length h1)%nat by (apply nth_error_Some; congruence); lia)).
        rewrite nth_error_app1 by (apply nth_error_Some; congruence). exact Hp.
    + apply star_one. apply step_label. exact HLB.
  - subst q. lia.
  - eapply ext_trans; [exact Hext1 | apply ext_snoc].
  - rewrite Hout'. simpl. congruence.
Qed.

Lemma expr_step : forall k, expr_spec k -> items_spec k -> while_spec (S k) -> dowhile_spec (S k) ->
  expr_spec (S k).
Proof.
  intros k IHe IHi IHw IHd e.
  destruct e; try (intros ? ? ? ? ? ? HF; simpl in HF; discriminate HF).
  - apply case_EInt.
  - apply case_EBool.
  - apply case_EVar.
  - apply case_ENeg; assumption.
  - apply case_ENot; assumption.
  - destruct op; try (apply case_EBin; [reflexivity | assumption]).
    + apply case_EAnd; assumption.
    + apply case_EOr; assumption.
  - apply case_ECond; assumption.
  - apply case_EAssign; assumption.
  - apply case_EBlock; assumption.
  - apply case_EWhile; assumption.
  - apply case_EDoWhile; assumption.
  - apply case_EFor; assumption.
  - apply case_EPrint; assumption.
Qed.

Lemma spec_all : forall k, expr_spec k /\ items_spec k /\ while_spec k /\ dowhile_spec k.
Proof.
  induction k as [|k (IHe & IHi & IHw & IHd)].
  - split; [|split; [|split]].
    + intros e env st r st' He. rewrite eval_O in He. inv He. intros; exact I.
    + intros items env st last r st' He. rewrite eval_items_O in He. inv He. intros; exact I.
    + intros c b env st r st' He. rewrite eval_O in He. inv He. intros; exact I.
    + intros b c env st r st' He. rewrite eval_O in He. inv He. intros; exact I.
  - pose proof (while_step k IHe IHw) as IHw'. pose proof (dowhile_step k IHe IHd) as IHd'.
    split; [|split; [|split]]; auto.
    + apply expr_step; assumption.
    + apply items_step; assumption.
Qed.

(* ---- compile_expr_correct ----------------------------------------------------------------- *)

Theorem compile_expr_correct : forall fuel e env st r st' sc,
  eval genv fuel env st e = (r, st') -> in_F lv sc e = true ->
  forall prog pc L ce s m,
    code_at prog pc (compile_expr L ce e) -> v_ip s = pc ->
    MS m st (v_heap s) -> v_out s = out st -> env_match m env ce sc L (v_stk s) ->
    match r with
    | ROk c =>
      exists s' m' a, star prog s s' /\ v_ip s' = (pc + length (compile_expr L ce e))%nat /\
        v_stk s' = a :: v_stk s /\ nth_error m' c = Some (Some a) /\
        MS m' st' (v_heap s') /\ ext m m' /\ v_out s' = out st'
    | RExc ex =>
      ex = ExDivision /\
      exists s', star prog s s' /\ step prog s' = SExc ExDivision s' /\
                 (pc <= v_ip s' < pc + length (compile_expr L ce e))%nat /\ v_out s' = out st'
    | _ => True
    end.
Proof.
  intros fuel e env st r st' sc He HF prog pc L ce s m Hc Hip HMS Hout Hem.
  exact (proj1 (spec_all fuel) e env st r st' He sc HF prog pc L ce s m Hc Hip HMS Hout Hem).
Qed.

(* ---- a function body ------------------------------------------------------------------------ *)

Definition param_names (ps : list (ident * bool * ty)) : list ident := map (fun p => fst (fst p)) ps.

Lemma param_env_match : forall ps cs penv stk m pre,
  bind_params ps cs = Some penv ->
  Forall2 (fun c a => nth_error m c = Some (Some a)) cs stk ->
  env_match m penv (param_env ps (- Z.of_nat (length pre))) (param_names ps) 0 (pre ++ stk).
Proof.
  induction ps as [|[[x v] t] ps IH]; intros cs penv stk m pre Hb HF y Hy.
  - discriminate Hy.
  - destruct cs as [|c cs]; [discriminate Hb|]. simpl in Hb.
    destruct (bind_params ps cs) as [e|] eqn:Eb; [|discriminate Hb]. inv Hb.
    inversion HF as [|c0 a cs0 stk' Hca HF']; subst.
    simpl in Hy |- *. destruct (N.eqb y x) eqn:Exy.
    + exists (- Z.of_nat (length pre)), c, a. repeat split; auto; try lia.
      replace (Z.to_nat (- - Z.of_nat (length pre))) with (length pre) by lia.
      rewrite nth_error_app2, Nat.sub_diag by lia. reflexivity.
    + simpl in Hy.
      specialize (IH cs e stk' m (pre ++ [a]) Eb HF' y Hy).
      rewrite app_length in IH. simpl in IH.
      replace (- Z.of_nat (length pre + 1)) with (- Z.of_nat (length pre) - 1) in IH by lia.
      rewrite <- app_assoc in IH. exact IH.
Qed.

(* the activation: from the function's entry to RET (result) or to the raising handler *)
Theorem compile_func_correct_F : forall fuel fd cs penv st r st' prog entry m stk h,
  func_in_F lv fd = true ->
  bind_params (fd_params fd) cs = Some penv ->
  eval_items genv fuel penv st (fd_body fd) None = (r, st') ->
  code_at prog entry (compile_func fd) ->
  MS m st h -> Forall2 (fun c a => nth_error m c = Some (Some a)) cs stk ->
  match r with
  | ROk c =>
    exists s' a z v, star prog (mkst entry stk h (out st)) s' /\ step prog s' = SRet a s' /\
      nth_error (v_heap s') a = Some z /\ get_cell st' c = Some v /\ val_rel v z /\
      v_out s' = out st'
  | RExc ex =>
    ex = ExDivision /\
    exists s', star prog (mkst entry stk h (out st)) s' /\ step prog s' = SExc ExDivision s' /\
               v_out s' = out st'
  | _ => True
  end.
Proof.
  intros fuel fd cs penv st r st' prog entry m stk h HF Hb He Hc HMS Hargs.
  unfold func_in_F in HF. apply andb_true_iff in HF. destruct HF as [HFb _].
  unfold compile_func in Hc.
  pose proof (code_at_head _ _ _ _ Hc) as Hfd. pose proof (code_at_tail _ _ _ _ Hc) as Hc1.
  pose proof (code_at_app_l _ _ _ _ Hc1) as Hbody. pose proof (code_at_app_r _ _ _ _ Hc1) as Hc2.
  pose proof (code_at_head _ _ _ _ Hc2) as Hline.
  pose proof (code_at_head _ _ _ _ (code_at_tail _ _ _ _ Hc2)) as Hret.
  unfold compile_body in *.
  set (body := compile_expr 0 (param_env (fd_params fd) 0) (EBlock (fd_body fd))) in *.
  assert (He' : eval genv (S fuel) penv st (EBlock (fd_body fd)) = (r, st')) by (rewrite eval_EBlock; exact He).
  pose proof (param_env_match _ _ _ _ m [] Hb Hargs) as Hem. simpl in Hem.
  assert (H0 : star prog (mkst entry stk h (out st)) (mkst (S entry) stk h (out st)))
    by (apply star_one, step_func_def; exact Hfd).
  pose proof (compile_expr_correct _ _ _ _ _ _ (param_names (fd_params fd)) He' HFb prog (S entry) 0
                (param_env (fd_params fd) 0) (mkst (S entry) stk h (out st)) m Hbody eq_refl HMS eq_refl Hem) as Hx.
  fold body in Hx.
  destruct r as [c|ex| |]; auto.
  - destruct Hx as (s1 & m1 & a & Hst1 & Hip1 & Hstk1 & Hm1 & HMS1 & Hext1 & Hout1).
    destruct s1 as [ip1 stk1 h1 o1]; simpl in Hip1, Hstk1, HMS1, Hout1; subst ip1 stk1.
    destruct (ms_rel _ _ _ HMS1 c a Hm1) as (v & z & Hcv & Hhz & Hv).
    exists (mkst (S (S entry + length body)) (a :: stk) h1 o1), a, z, v.
    split; [|split; [|split; [|split; [|split]]]]; auto.
    + eapply star_trans; [exact H0|]. eapply star_snoc; [exact Hst1|]. apply step_line. exact Hline.
    + apply step_ret. exact Hret.
  - destruct Hx as (-> & s' & Hs' & Hstep & _ & Ho). split; [reflexivity|].
    exists s'. split; [eapply star_trans; eauto|]. auto.
Qed.

End Correct.

(* ---- whole programs of one function --------------------------------------------------------- *)

Definition single (fd : fdef) : program :=
  {| p_recs := []; p_funcs := [fd]; p_main := fd_name fd |}.

Lemma alloc_args : forall args cs st,
  fold_left (fun acc z => let '(cs, st) := acc in
                          let (c, st') := alloc st (CInt (wrap32 z)) in (cs ++ [c], st'))
            args (cs, st) =
  (cs ++ seq (length (cells st)) (length args),
   {| cells := cells st ++ map (fun z => CInt (wrap32 z)) args;
      arrs := arrs st; recs := recs st; out := out st |}).
Proof.
  induction args as [|z args IH]; intros cs st; simpl.
  - rewrite !app_nil_r. destruct st; reflexivity.
  - rewrite IH. simpl. rewrite app_length. simpl. rewrite <- !app_assoc. simpl.
    replace (length (cells st) + 1)%nat with (S (length (cells st))) by lia. reflexivity.
Qed.

Lemma nth_error_seq : forall n s i, (i < n)%nat -> nth_error (seq s n) i = Some (s + i)%nat.
Proof.
  induction n; intros s i H; [lia|]. destruct i; simpl.
  - f_equal. lia.
  - rewrite IHn by lia. f_equal. lia.
Qed.

Lemma nth_error_seq_inv : forall n s i a, nth_error (seq s n) i = Some a -> (i < n)%nat /\ a = (s + i)%nat.
Proof.
  intros n s i a H. assert (Hi : (i < n)%nat).
  { rewrite <- (seq_length n s). apply nth_error_Some. congruence. }
  rewrite nth_error_seq in H by assumption. inv H. auto.
Qed.

Lemma Forall2_seq : forall (P : nat -> nat -> Prop) n s,
  (forall a, (s <= a < s + n)%nat -> P (S a) a) -> Forall2 P (seq (S s) n) (seq s n).
Proof.
  induction n; intros s H; simpl; constructor.
  - apply H. lia.
  - apply IHn. intros a Ha. apply H. lia.
Qed.

Definition entry_morph (n : nat) : morph := None :: map Some (seq 0 n).

Lemma entry_morph_nth : forall n c a, nth_error (entry_morph n) c = Some (Some a) ->
  c = S a /\ (a < n)%nat.
Proof.
  intros n c a H. unfold entry_morph in H. destruct c; [discriminate|]. simpl in H.
  rewrite nth_error_map in H. destruct (nth_error (seq 0 n) c) as [x|] eqn:E; [|discriminate].
  inv H. apply nth_error_seq_inv in E. destruct E. split; [f_equal|]; lia.
Qed.

Lemma entry_MS : forall fd args,
  MS (entry_morph (length args))
     {| cells := CFun fd [] :: map (fun z => CInt (wrap32 z)) args; arrs := []; recs := []; out := [] |}
     (map wrap32 args).
Proof.
  intros fd args. constructor; simpl.
  - unfold entry_morph. simpl. rewrite !map_length, seq_length. reflexivity.
  - intros c a H. apply entry_morph_nth in H. destruct H as [-> Ha].
    destruct (nth_error args a) as [z|] eqn:E; [|apply nth_error_None in E; lia].
    exists (CInt (wrap32 z)), (wrap32 z). simpl. rewrite !nth_error_map, E. simpl. auto.
  - intros c1 c2 a H1 H2. apply entry_morph_nth in H1, H2. destruct H1, H2. congruence.
Qed.

Theorem compile_program_correct_F : forall lv fuel fd args,
  func_in_F lv fd = true ->
  match run_program fuel (single fd) args with
  | OResult v printed =>
      exists k z, run_func (compile_func fd) 0 k args = VRet z printed /\ val_rel v z
  | OUnhandled ex printed =>
      exists k, run_func (compile_func fd) 0 k args = VExc ex printed
  | OFuel | OStuck => True
  end.
Proof.
  intros lv fuel fd args HF. unfold run_program, single, init_state. simpl.
  rewrite alloc_args. simpl. rewrite N.eqb_refl. unfold get_cell. simpl.
  destruct (bind_params (fd_params fd) (seq 1 (length args))) as [penv|] eqn:Hb; [|exact I].
  set (genv := [(fd_name fd, 0%nat)]).
  set (st1 := {| cells := CFun fd [] :: map (fun z => CInt (wrap32 z)) args; arrs := []; recs := []; out := [] |}).
  destruct (eval_items genv fuel penv st1 (fd_body fd) None) as [r st2] eqn:He.
  assert (Hargs : Forall2 (fun c a => nth_error (entry_morph (length args)) c = Some (Some a))
                          (seq 1 (length args)) (seq 0 (length args))).
  { apply Forall2_seq. intros a Ha. unfold entry_morph. simpl. rewrite nth_error_map, nth_error_seq by lia.
    reflexivity. }
  pose proof (compile_func_correct_F genv lv fuel fd _ penv st1 r st2 (compile_func fd) 0
                (entry_morph (length args)) (seq 0 (length args)) (map wrap32 args)
                HF Hb He (code_at_self _) (entry_MS fd args) Hargs) as Hx.
  change (mkst 0 (seq 0 (length args)) (map wrap32 args) (out st1)) with (entry_state 0 args) in Hx.
  destruct r as [c|ex| |]; auto.
  - destruct Hx as (s' & a & z & v & Hst & Hstep & Hh & Hc & Hv & Ho).
    unfold get_cell in Hc. rewrite Hc.
    assert (Hrun : run (compile_func fd) 1 s' = VRet z (rev (out st2))).
    { simpl. rewrite Hstep, Hh, Ho. reflexivity. }
    destruct (run_star _ _ _ Hst 1%nat _ Hrun) as (k' & Hk'); [discriminate|].
    exists k', z. split; [exact Hk' | exact Hv].
  - destruct Hx as (-> & s' & Hst & Hstep & Ho).
    destruct fuel as [|k]; [rewrite eval_items_O in He; discriminate|].
    assert (Hcat : fd_catches fd = [] /\ fd_catch_all fd = None).
    { unfold func_in_F in HF. apply andb_true_iff in HF. destruct HF as [_ H].
      destruct (fd_catches fd); [destruct (fd_catch_all fd); [discriminate | auto] | discriminate]. }
    destruct Hcat as [C1 C2]. rewrite C1, C2, handlers_nil.
    assert (Hrun : run (compile_func fd) 1 s' = VExc ExDivision (rev (out st2))).
    { simpl. rewrite Hstep, Ho. reflexivity. }
    destruct (run_star _ _ _ Hst 1%nat _ Hrun) as (k' & Hk'); [discriminate|].
    exists k'. exact Hk'.
Qed.
