(* tmut — the single-fault mutation operators of the C06 rule catalogue, applied at every site of
   a program (any nesting context).  Each candidate is (operator, context label, mutant program,
   the node whose line the diagnostic must name).  Whether a candidate really is a fault is
   decided by the MODEL (Tcmodel.tc_program): a candidate the model accepts is not a mutant
   (e.g. `EBool true` put where a bool was expected) and is dropped by the caller.

   Operators (intended rule):
     AssignToLet / AssignToParam  insert `x = x` where x is a visible let name / non-var parameter
     VarFromConst                 insert `var fresh = x` for such an x          (RVarInitConst)
     AssignToTemp                 `lit = e`                                      (RAssignConst)
     AssignType                   right side of an assignment replaced by a literal of another kind
     WrongArgCount                drop the last / add one argument of a call or record constructor
     WrongArgKind                 one argument replaced by a literal of another kind; a function
                                  argument (lambda / top-level function name) replaced by a lambda
                                  whose type differs in: arity, a var flag, the result kind, a
                                  parameter kind, the result kind of a function-typed parameter
     ConstToVarParam              argument wrapped as `{ let t = a; t }` (a CONST expression)
     NotCallable                  callee replaced by a literal
     UndefinedName                a variable replaced by a name bound nowhere
     UndefinedAttr                field position beyond the record (prints `.f17`)
     AttrOnNonRecord              `true.f0`
     BadOperator                  an operand replaced by a literal the operator rejects
     NonBoolCond                  condition of ?: if while do for replaced by `1`
     BranchMismatch               one branch of ?: / if replaced by a literal of another kind
     WrongReturnKind              a literal of another kind appended to a function body / catch body
     BadIndex / ArrayElemKind     index `true`, deref of a literal; an element of another kind
     Redefine                     `let x` repeated in the same scope *)
open Tcmodel
open Conv

type ctx = { fn : int; nf : int; lam : bool; loop : bool; cond : bool; catch : bool; arg : bool; blk : int }
let ctx0 = { fn = 0; nf = 0; lam = false; loop = false; cond = false; catch = false; arg = false; blk = 0 }

let ctx_label c =
  let l = (if c.nf >= 1 then ["nested"] else []) @ (if c.lam then ["lambda"] else [])
          @ (if c.catch then ["catch"] else []) @ (if c.loop then ["loop"] else [])
          @ (if c.cond then ["cond"] else []) @ (if c.arg then ["arg"] else [])
          @ (if c.blk >= 1 then ["block"] else []) in
  if l = [] then "top" else String.concat "+" l

type watch = WE of expr | WI of item

type cand = { op : string; ctx : string; prog : program; w : watch }

type kind = KLet | KParam | KOther
type menv = (int * kind) list

let undefined_ident = n_of_int 997
let fresh_a = n_of_int 998
let fresh_b = n_of_int 996

let lits = [EBool true; EInt (z_of_int 1)]

let rec take n = function [] -> [] | x :: t -> if n <= 0 then [] else x :: take (n - 1) t
let replace_nth l i x = List.mapi (fun j y -> if i = j then x else y) l

(* types differing from the function type (ps, ret) in exactly one respect *)
let perturb_fun (ps : (bool * ty) list) (ret : ty) : (string * (bool * ty) list * ty) list =
  let flip = function TBool -> TInt | _ -> TBool in
  let r = ref [] in
  r := ("ret", ps, flip ret) :: !r;
  (match ps with [] -> r := ("arity", [ (false, TInt) ], ret) :: !r
                | _ -> r := ("arity", List.tl ps, ret) :: !r);
  List.iteri (fun i (v, t) ->
      r := ("varflag", replace_nth ps i (not v, t), ret) :: !r;
      (match t with
       | TFun (a, rr) ->
         r := ("nested-ret", replace_nth ps i (v, TFun (a, flip rr)), ret) :: !r;
         r := ("nested-arity", replace_nth ps i (v, TFun (TInt :: a, rr)), ret) :: !r
       | _ -> r := ("paramkind", replace_nth ps i (v, flip t), ret) :: !r)) ps;
  List.rev !r

let all_candidates (st : Tgen.st) (prog : program) : cand list =
  let out = ref [] in
  let emit op c p w = out := { op; ctx = ctx_label c; prog = p; w } :: !out in
  let top_sigs = List.map (fun fd ->
      let FDef (n, ps, ret, _, _, _) = fd in (int_of_n n, (List.map (fun ((_, v), t) -> (v, t)) ps, ret))) prog.p_funcs in
  let rec mexpr (c : ctx) (env : menv) (e : expr) (k : expr -> program) : unit =
    let sub ?(c = c) a rebuild = mexpr c env a (fun a' -> k (rebuild a')) in
    let lit_each op rebuild = List.iter (fun l -> let l = (match l with EBool b -> EBool b | EInt z -> EInt z | x -> x) in
                                          let n = rebuild l in emit op c (k n) (WE n)) lits in
    (match e with
     | EInt _ | EBool _ | ERecNil _ -> ()
     | EVar _ -> let n = EVar undefined_ident in emit "UndefinedName" c (k n) (WE n)
     | ENeg a -> lit_each "BadOperator" (fun l -> ENeg l); sub a (fun a' -> ENeg a')
     | ENot a -> lit_each "BadOperator" (fun l -> ENot l); sub a (fun a' -> ENot a')
     | EBNot a -> lit_each "BadOperator" (fun l -> EBNot l); sub a (fun a' -> EBNot a')
     | EBin (op, a, b) ->
       lit_each "BadOperator" (fun l -> EBin (op, l, b));
       lit_each "BadOperator" (fun l -> EBin (op, a, l));
       sub a (fun a' -> EBin (op, a', b)); sub b (fun b' -> EBin (op, a, b'))
     | ECond (cc, a, b) ->
       (let n = ECond (EInt (z_of_int 1), a, b) in emit "NonBoolCond" c (k n) (WE n));
       lit_each "BranchMismatch" (fun l -> ECond (cc, a, l));
       lit_each "BranchMismatch" (fun l -> ECond (cc, l, b));
       let c' = { c with cond = true } in
       sub cc (fun x -> ECond (x, a, b)); sub ~c:c' a (fun x -> ECond (cc, x, b)); sub ~c:c' b (fun x -> ECond (cc, a, x))
     | EIf (cc, a) ->
       (let n = EIf (EInt (z_of_int 1), a) in emit "NonBoolCond" c (k n) (WE n));
       (let n = EIf (cc, EBool true) in emit "BranchMismatch" c (k n) (WE n));
       sub cc (fun x -> EIf (x, a)); sub ~c:{ c with cond = true } a (fun x -> EIf (cc, x))
     | EAssign (l, r) ->
       lit_each "AssignType" (fun x -> EAssign (l, x));
       (let n = EAssign (EInt (z_of_int 1), r) in emit "AssignToTemp" c (k n) (WE n));
       sub l (fun x -> EAssign (x, r)); sub r (fun x -> EAssign (l, x))
     | ECall (f, args) ->
       let n_args = List.length args in
       if n_args > 0 then (let n = ECall (f, take (n_args - 1) args) in emit "WrongArgCount" c (k n) (WE n));
       (let n = ECall (f, args @ [EInt Z0]) in emit "WrongArgCount" c (k n) (WE n));
       (let n = ECall (EInt (z_of_int 1), args) in emit "NotCallable" c (k n) (WE n));
       List.iteri (fun i a ->
           lit_each "WrongArgKind" (fun l -> ECall (f, replace_nth args i l));
           (let n = ECall (f, replace_nth args i (EBlock [ILet (fresh_a, a); IExpr (EVar fresh_a)])) in
            emit "ConstToVarParam" c (k n) (WE n));
           let fsig = (match a with
               | ELambda (FDef (_, ps, ret, _, _, _)) -> Some (List.map (fun ((_, v), t) -> (v, t)) ps, ret)
               | EVar x when List.mem_assoc (int_of_n x) top_sigs && not (List.mem_assoc (int_of_n x) env) ->
                 Some (List.assoc (int_of_n x) top_sigs)
               | _ -> None) in
           (match fsig with
            | Some (ps, ret) ->
              List.iter (fun (what, ps', ret') ->
                  let n = ECall (f, replace_nth args i (Tgen.dflt_lambda st ps' ret')) in
                  emit ("WrongArgKind:func-" ^ what) c (k n) (WE n)) (perturb_fun ps ret)
            | None -> ())) args;
       sub f (fun x -> ECall (x, args));
       List.iteri (fun i a -> sub ~c:{ c with arg = true } a (fun x -> ECall (f, replace_nth args i x))) args
     | EBlock items -> mitems { c with blk = c.blk + 1 } env items (fun its -> k (EBlock its))
     | EWhile (cc, body) ->
       (let n = EWhile (EInt (z_of_int 1), body) in emit "NonBoolCond" c (k n) (WE n));
       sub cc (fun x -> EWhile (x, body)); sub ~c:{ c with loop = true } body (fun x -> EWhile (cc, x))
     | EDoWhile (body, cc) ->
       (let n = EDoWhile (body, EInt (z_of_int 1)) in emit "NonBoolCond" c (k n) (WE n));
       sub ~c:{ c with loop = true } body (fun x -> EDoWhile (x, cc)); sub cc (fun x -> EDoWhile (body, x))
     | EFor (i, cc, s, body) ->
       (let n = EFor (i, EInt (z_of_int 1), s, body) in emit "NonBoolCond" c (k n) (WE n));
       sub i (fun x -> EFor (x, cc, s, body)); sub cc (fun x -> EFor (i, x, s, body));
       sub s (fun x -> EFor (i, cc, x, body)); sub ~c:{ c with loop = true } body (fun x -> EFor (i, cc, s, x))
     | ELambda fd ->
       mfdef { ctx0 with fn = c.fn + 1; nf = c.nf; lam = true; catch = c.catch } env ~named:false fd (fun fd' -> k (ELambda fd'))
     | EArrLit (es, t) ->
       List.iteri (fun i _ -> lit_each "ArrayElemKind" (fun l -> EArrLit (replace_nth es i l, t))) es;
       List.iteri (fun i a -> sub a (fun x -> EArrLit (replace_nth es i x, t))) es
     | EIndex (a, i) ->
       (let n = EIndex (a, EBool true) in emit "BadIndex" c (k n) (WE n));
       (let n = EIndex (EInt (z_of_int 1), i) in emit "BadIndex" c (k n) (WE n));
       sub a (fun x -> EIndex (x, i)); sub i (fun x -> EIndex (a, x))
     | ERecNew (r, args) ->
       let n_args = List.length args in
       if n_args > 0 then (let n = ERecNew (r, take (n_args - 1) args) in emit "WrongArgCount:record" c (k n) (WE n));
       (let n = ERecNew (r, args @ [EInt Z0]) in emit "WrongArgCount:record" c (k n) (WE n));
       List.iteri (fun i _ -> lit_each "WrongArgKind:record" (fun l -> ERecNew (r, replace_nth args i l))) args;
       List.iteri (fun i a -> sub ~c:{ c with arg = true } a (fun x -> ERecNew (r, replace_nth args i x))) args
     | EField (a, r, pos) ->
       (let n = EField (a, r, nat_of_int 17) in emit "UndefinedAttr" c (k n) (WE n));
       (let n = EField (EBool true, r, pos) in emit "AttrOnNonRecord" c (k n) (WE n));
       sub a (fun x -> EField (x, r, pos))
     | EPrint a ->
       (let n = EPrint (EBool true) in emit "WrongArgKind:print" c (k n) (WE n));
       sub ~c:{ c with arg = true } a (fun x -> EPrint x))

  and mitems (c : ctx) (env : menv) (items : item list) (k : item list -> program) : unit =
    (* pre = items before position i (reversed), env grows along the way *)
    let rec go pre env rest =
      let here op it = emit op c (k (List.rev_append pre (it :: rest))) (WI it) in
      (* at every position but after the last item: assign to each visible const name *)
      (* never between two consecutive functions: they are declared together (one run), an item
         between them would change what the first one sees -- not a single fault *)
      let splits_run = (match pre, rest with IFunc _ :: _, IFunc _ :: _ -> true | _ -> false) in
      if rest <> [] && not splits_run then begin
        let seen = Hashtbl.create 8 in
        List.iter (fun (x, kd) ->
            if not (Hashtbl.mem seen x) then begin
              Hashtbl.replace seen x ();
              match kd with
              | KLet -> here "AssignToLet" (IExpr (EAssign (EVar (n_of_int x), EVar (n_of_int x))))
              | KParam -> here "AssignToParam" (IExpr (EAssign (EVar (n_of_int x), EVar (n_of_int x))))
              | KOther -> ()
            end) env;
        (* one var-from-const per position: the innermost const name *)
        (match List.find_opt (fun (_, kd) -> kd <> KOther) env with
         | Some (x, _) -> here "VarFromConst" (IVar (fresh_b, EVar (n_of_int x)))
         | None -> ())
      end;
      match rest with
      | [] -> ()
      | it :: tl ->
        let put x = k (List.rev_append pre (x :: tl)) in
        (match it with
         | ILet (x, e) ->
           mexpr c env e (fun e' -> put (ILet (x, e')));
           (let d = ILet (x, e) in emit "Redefine" c (k (List.rev_append pre (it :: d :: tl))) (WI d));
           go (it :: pre) ((int_of_n x, KLet) :: env) tl
         | IVar (x, e) ->
           mexpr c env e (fun e' -> put (IVar (x, e')));
           go (it :: pre) ((int_of_n x, KOther) :: env) tl
         | IFunc fd ->
           let env' = (int_of_n (fd_name fd), KOther) :: env in
           mfdef { ctx0 with fn = c.fn + 1; nf = c.nf + 1; catch = c.catch; lam = c.lam } env' ~named:true fd (fun fd' -> put (IFunc fd'));
           go (it :: pre) env' tl
         | IExpr e ->
           mexpr c env e (fun e' -> put (IExpr e'));
           go (it :: pre) env tl) in
    go [] env items

  and mfdef (c : ctx) (env : menv) ~(named : bool) (fd : fdef) (k : fdef -> program) : unit =
    let FDef (name, ps, ret, body, catches, call) = fd in
    let env = (if named then [ (int_of_n name, KOther) ] else []) @ env in
    let env = List.fold_left (fun env ((x, v), _) -> (int_of_n x, (if v then KOther else KParam)) :: env) env ps in
    let ret_mut c' items rebuild =
      List.iter (fun l ->
          let it = IExpr (match l with EBool b -> EBool b | EInt z -> EInt z | x -> x) in
          emit "WrongReturnKind" c' (k (rebuild (items @ [it]))) (WI it)) lits in
    ret_mut c body (fun b -> FDef (name, ps, ret, b, catches, call));
    mitems c env body (fun b -> k (FDef (name, ps, ret, b, catches, call)));
    let cc = { c with catch = true } in
    List.iteri (fun i (ex, h) ->
        let rb h' = FDef (name, ps, ret, body, replace_nth catches i (ex, h'), call) in
        ret_mut cc h rb; mitems cc env h (fun h' -> k (rb h'))) catches;
    (match call with
     | Some h -> let rb h' = FDef (name, ps, ret, body, catches, Some h') in ret_mut cc h rb; mitems cc env h (fun h' -> k (rb h'))
     | None -> ()) in
  List.iteri (fun i fd ->
      mfdef ctx0 [] ~named:true fd (fun fd' -> { prog with p_funcs = replace_nth prog.p_funcs i fd' }))
    prog.p_funcs;
  List.rev !out
